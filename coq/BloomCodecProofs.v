(* BloomCodecProofs.v — lemmas about the Bloom filter image codec BloomCodecDefs.v *)
From Coq Require Import ZArith NArith List Bool Lia.
From DS Require Import Word RunnerLib BloomDefs BloomProofs BloomCodecDefs.
Import ListNotations.
Local Open Scope N_scope.

(* well-formed content: what the constructors and a sound filter object produce, and what the readers accept *)
Definition wf (s : cimg) : Prop :=
  c_nh s <> 0 /\ c_nh s < 2 ^ 16 /\ c_seed s < 2 ^ 64 /\ c_nl s <> 0 /\ c_nl s < 2 ^ 32 /\
  match c_body s with
  | None => N.shiftl (c_nl s) 6 <= MAX_BITS
  | Some (c, bits) => c_nl s <= MAX_LONGS /\ c < 2 ^ 64 /\ bits < 2 ^ (64 * c_nl s)
  end.

Lemma chdr_length seed nh nl e : length (chdr seed nh nl e) = 24%nat.
Proof. unfold chdr. rewrite !app_length, !length_le_bytes. reflexivity. Qed.

Lemma enc_length s : length (enc s) = enc_size s.
Proof.
  unfold enc, enc_size. destruct (c_body s) as [[c bits]|].
  - rewrite !app_length, chdr_length, !length_le_bytes. lia.
  - apply chdr_length.
Qed.

Lemma nth_firstn_lt {A} (d0 : A) : forall i n l, (i < n)%nat -> nth i (firstn n l) d0 = nth i l d0.
Proof.
  induction i as [|i IH]; intros [|n] [|x l] Hi; try reflexivity; try lia.
  cbn [firstn nth]. apply IH. lia.
Qed.

Lemma rd_firstn d n off k : (off + k <= n)%nat -> rd (firstn n d) off k = rd d off k.
Proof.
  intros Hk. unfold rd. rewrite skipn_firstn_comm, firstn_firstn. f_equal. f_equal. lia.
Qed.

Lemma body_bytes_pos nl bits : bits < 2 ^ (64 * nl) -> bits < 2 ^ (8 * N.of_nat (body_bytes nl)).
Proof. intros H. unfold body_bytes. rewrite N2Nat.id. replace (8 * (8 * nl)) with (64 * nl) by lia. exact H. Qed.

(* the fields of an image, as the readers address them *)
Lemma enc_fields s rest :
  wf s ->
  let d := enc s ++ rest in
  nth 0 d 0 = (match c_body s with None => 3 | Some _ => 4 end) /\ nth 1 d 0 = 1 /\ nth 2 d 0 = 21 /\
  nth 3 d 0 = (match c_body s with None => 4 | Some _ => 0 end) /\
  rd d 4 2 = c_nh s /\ rd d 8 8 = c_seed s /\ rd d 16 4 = c_nl s /\
  length d = (enc_size s + length rest)%nat /\ skipn (enc_size s) d = rest /\
  match c_body s with
  | None => True
  | Some (c, bits) => rd d 24 8 = c /\ rd d 32 (body_bytes (c_nl s)) = bits
  end.
Proof.
  intros (Hn0 & Hnh & Hseed & Hl0 & Hl & Hb) d.
  assert (Hlen : length d = (enc_size s + length rest)%nat) by (unfold d; now rewrite app_length, enc_length).
  assert (Hskip : skipn (enc_size s) d = rest).
  { unfold d. rewrite <- enc_length, skipn_app, skipn_all, Nat.sub_diag. reflexivity. }
  assert (F : forall body_tail e,
             let x := chdr (c_seed s) (c_nh s) (c_nl s) e ++ body_tail in
             rd x 4 2 = c_nh s /\ rd x 8 8 = c_seed s /\ rd x 16 4 = c_nl s).
  { intros bt e x. unfold x, chdr. rewrite <- !app_assoc.
    split; [|split]; peel; rewrite rd_head; now apply le_of_le. }
  unfold d, enc in *. destruct (c_body s) as [[c bits]|].
  - destruct Hb as (Hml & Hc & Hbits).
    rewrite <- !app_assoc.
    destruct (F (N_to_le_bytes 8 c ++ N_to_le_bytes (body_bytes (c_nl s)) bits ++ rest) false) as (F1 & F2 & F3).
    split; [reflexivity|]. split; [reflexivity|]. split; [reflexivity|]. split; [reflexivity|].
    split; [exact F1|]. split; [exact F2|]. split; [exact F3|].
    rewrite <- !app_assoc in Hlen, Hskip. split; [exact Hlen|]. split; [exact Hskip|].
    split.
    + unfold chdr. rewrite <- !app_assoc. peel. rewrite rd_head. now apply le_of_le.
    + unfold chdr. rewrite <- !app_assoc. peel. rewrite rd_head. apply le_of_le. now apply body_bytes_pos.
  - destruct (F rest true) as (F1 & F2 & F3).
    split; [reflexivity|]. split; [reflexivity|]. split; [reflexivity|]. split; [reflexivity|].
    split; [exact F1|]. split; [exact F2|]. split; [exact F3|].
    split; [exact Hlen|]. split; [exact Hskip|exact I].
Qed.

Lemma wf_checks s :
  wf s ->
  (c_nh s =? 0) = false /\ (c_nl s =? 0) = false /\
  match c_body s with
  | None => (MAX_BITS <? N.shiftl (c_nl s) 6) = false
  | Some _ => (MAX_LONGS <? c_nl s) = false
  end.
Proof.
  intros (Hn0 & _ & _ & Hl0 & _ & Hb). split; [now apply N.eqb_neq|]. split; [now apply N.eqb_neq|].
  destruct (c_body s) as [[c bits]|]; apply N.ltb_ge; [apply Hb|exact Hb].
Qed.

(* ROUND TRIP: every reader, anything may follow the image; a stream reader consumes exactly the image *)
Theorem dec_enc r s rest :
  wf s -> (r = RWritable -> c_body s <> None) -> dec r (enc s ++ rest) = Some (s, rest).
Proof.
  intros Hwf Hw.
  destruct (enc_fields s rest Hwf) as (N0 & N1 & N2 & N3 & Rnh & Rseed & Rnl & Hlen & Hskip & Hbody).
  destruct (wf_checks s Hwf) as (C1 & C2 & C3).
  unfold dec. rewrite N0, N1, N2, N3, Rnh, Rseed, Rnl, Hlen, C1, C2.
  destruct s as [nh seed nl body].
  destruct body as [[c bits]|]; cbn [c_nh c_seed c_nl c_body enc_size] in *.
  - destruct Hbody as [Rc Rb]. rewrite Rc, Rb, C3, Hskip.
    set (L := (32 + body_bytes nl + length rest)%nat).
    replace (Nat.ltb L (if is_stream r then 24 else 8)) with false
      by (symmetry; apply Nat.ltb_ge; destruct (is_stream r); lia).
    replace ((4 <? (if is_stream r then 1 else 3)) || (4 <? 4)) with false by (now destruct (is_stream r)).
    change (negb (1 =? 1)) with false. change (negb (21 =? 21)) with false. change (N.land 0 4 =? 0) with true.
    change (N.to_nat 4 * 8)%nat with 32%nat.
    replace (Nat.ltb L 32) with false by (symmetry; apply Nat.ltb_ge; lia).
    rewrite andb_false_r. cbn [negb orb].
    replace (N.of_nat L <? 32 + 8 * nl) with false; [reflexivity|].
    symmetry. apply N.ltb_ge. unfold L, body_bytes. lia.
  - rewrite C3, Hskip.
    set (L := (24 + length rest)%nat).
    replace (Nat.ltb L (if is_stream r then 24 else 8)) with false
      by (symmetry; apply Nat.ltb_ge; destruct (is_stream r); lia).
    replace ((3 <? (if is_stream r then 1 else 3)) || (4 <? 3)) with false by (now destruct (is_stream r)).
    change (negb (1 =? 1)) with false. change (negb (21 =? 21)) with false. change (N.land 4 4 =? 0) with false.
    change (N.to_nat 3 * 8)%nat with 24%nat.
    replace (Nat.ltb L 24) with false by (symmetry; apply Nat.ltb_ge; lia).
    rewrite andb_false_r. cbn [negb orb].
    destruct r; try reflexivity. exfalso. now apply Hw.
Qed.

(* declared exception: an empty image cannot be wrapped for writing *)
Theorem dec_writable_empty s rest : wf s -> c_body s = None -> dec RWritable (enc s ++ rest) = None.
Proof.
  intros Hwf Hb.
  destruct (enc_fields s rest Hwf) as (N0 & N1 & N2 & N3 & Rnh & Rseed & Rnl & Hlen & Hskip & _).
  unfold dec. rewrite N0, N1, N2, N3, Hlen, Hb. unfold enc_size. rewrite Hb. cbn [is_stream].
  set (L := (24 + length rest)%nat).
  replace (Nat.ltb L 8) with false by (symmetry; apply Nat.ltb_ge; lia).
  change ((3 <? 3) || (4 <? 3)) with false.
  change (negb (1 =? 1)) with false. change (negb (21 =? 21)) with false. change (N.land 4 4 =? 0) with false.
  change (N.to_nat 3 * 8)%nat with 24%nat.
  replace (Nat.ltb L 24) with false by (symmetry; apply Nat.ltb_ge; lia).
  reflexivity.
Qed.

(* ------------------------------------------------------------------ *)
(* strict prefixes are rejected by every reader                         *)
(* ------------------------------------------------------------------ *)
Theorem dec_prefix r s n : wf s -> (n < length (enc s))%nat -> dec r (firstn n (enc s)) = None.
Proof.
  intros Hwf Hn.
  destruct (enc_fields s [] Hwf) as (N0 & N1 & N2 & N3 & Rnh & Rseed & Rnl & _ & _ & _).
  rewrite app_nil_r in *.
  destruct (wf_checks s Hwf) as (C1 & C2 & C3).
  pose proof (enc_length s) as HL. rewrite HL in Hn.
  set (d := enc s) in *. set (p := firstn n d).
  assert (Hp : length p = n) by (unfold p; apply firstn_length_le; rewrite HL; lia).
  unfold dec. rewrite Hp.
  destruct (Nat.ltb_spec n (if is_stream r then 24 else 8)) as [|Hn8]; [reflexivity|].
  assert (Hn8' : (8 <= n)%nat) by (destruct (is_stream r); lia).
  unfold p. rewrite !nth_firstn_lt by lia. rewrite N0, N1, N2, N3.
  change (negb (1 =? 1)) with false. change (negb (21 =? 21)) with false. cbv iota.
  unfold enc_size in Hn. destruct (c_body s) as [[c bits]|] eqn:Eb.
  - replace ((4 <? (if is_stream r then 1 else 3)) || (4 <? 4)) with false by (now destruct (is_stream r)).
    change (N.land 0 4 =? 0) with true. change (N.to_nat 4 * 8)%nat with 32%nat. cbn [negb].
    destruct (is_stream r) eqn:Es; cbn [negb andb].
    + rewrite !rd_firstn by lia. rewrite Rnh, Rnl, C1, C2, C3. cbn [orb].
      replace (N.of_nat n <? 32 + 8 * c_nl s) with true; [reflexivity|].
      symmetry. apply N.ltb_lt. unfold body_bytes in Hn. lia.
    + destruct (Nat.ltb_spec n 32) as [|Hn32]; [reflexivity|].
      rewrite !rd_firstn by lia. rewrite Rnh, Rnl, C1, C2, C3. cbn [orb].
      replace (N.of_nat n <? 32 + 8 * c_nl s) with true; [reflexivity|].
      symmetry. apply N.ltb_lt. unfold body_bytes in Hn. lia.
  - destruct (is_stream r) eqn:Es; [lia|].
    change ((3 <? 3) || (4 <? 3)) with false. change (N.to_nat 3 * 8)%nat with 24%nat. cbn [negb andb].
    destruct (Nat.ltb_spec n 24) as [|Hn24]; [reflexivity|lia].
Qed.

(* ------------------------------------------------------------------ *)
(* whatever a reader accepts is well-formed and lies inside the input   *)
(* ------------------------------------------------------------------ *)
Lemma le_bytes_range l : in_range (le_bytes_to_N l) (8 * N.of_nat (length l)).
Proof.
  induction l as [|b t IH]; intros j Hj; cbn [le_bytes_to_N length] in *; [apply N.bits_0|].
  rewrite N.lor_spec, w8_testbit.
  destruct (N.ltb_spec j 8); [lia|]. rewrite andb_false_r, orb_false_l.
  rewrite N.shiftl_spec_high' by assumption. apply IH. lia.
Qed.

Lemma rd_lt d off k : rd d off k < 2 ^ (8 * N.of_nat k).
Proof.
  unfold rd. apply in_range_lt. intros j Hj. apply le_bytes_range.
  pose proof (firstn_le_length k (skipn off d)). lia.
Qed.

Theorem dec_accepts r d s rest :
  dec r d = Some (s, rest) ->
  wf s /\ rest = skipn (enc_size s) d /\ (enc_size s <= length d)%nat /\ (r = RWritable -> c_body s <> None).
Proof.
  unfold dec. intros Hd.
  destruct (Nat.ltb_spec (length d) (if is_stream r then 24 else 8)) as [|H8]; [discriminate|].
  destruct ((nth 0 d 0 <? (if is_stream r then 1 else 3)) || (4 <? nth 0 d 0)) eqn:Epl; [discriminate|].
  destruct (negb (nth 1 d 0 =? 1)); [discriminate|]. destruct (negb (nth 2 d 0 =? 21)); [discriminate|].
  destruct (negb (is_stream r) && Nat.ltb (length d) (N.to_nat (nth 0 d 0) * 8)) eqn:Elen; [discriminate|].
  assert (H24 : (24 <= length d)%nat).
  { destruct (is_stream r); [exact H8|]. cbn [negb andb] in Elen. apply Nat.ltb_ge in Elen.
    apply orb_false_elim in Epl. destruct Epl as [Epl _]. apply N.ltb_ge in Epl. lia. }
  pose proof (rd_lt d 4 2) as Lnh. pose proof (rd_lt d 8 8) as Lseed. pose proof (rd_lt d 16 4) as Lnl.
  change (8 * N.of_nat 2) with 16 in Lnh. change (8 * N.of_nat 8) with 64 in Lseed. change (8 * N.of_nat 4) with 32 in Lnl.
  destruct (negb (N.land (nth 3 d 0) 4 =? 0)).
  - assert (Hr : (if (rd d 4 2 =? 0) || (rd d 16 4 =? 0) || (MAX_BITS <? N.shiftl (rd d 16 4) 6) then None
                  else Some (mkC (rd d 4 2) (rd d 8 8) (rd d 16 4) None, skipn 24 d)) = Some (s, rest) /\ r <> RWritable).
    { destruct r; try (split; [exact Hd|discriminate]). discriminate Hd. }
    destruct Hr as [Hr Hnw].
    destruct ((rd d 4 2 =? 0) || (rd d 16 4 =? 0) || (MAX_BITS <? N.shiftl (rd d 16 4) 6)) eqn:Ec; [discriminate|].
    apply orb_false_elim in Ec. destruct Ec as [Ec E3]. apply orb_false_elim in Ec. destruct Ec as [E1 E2].
    apply N.eqb_neq in E1, E2. apply N.ltb_ge in E3.
    injection Hr as <- <-. unfold wf, enc_size. cbn [c_nh c_seed c_nl c_body].
    split; [now repeat split|]. split; [reflexivity|]. split; [exact H24|]. intros ->. congruence.
  - destruct ((rd d 4 2 =? 0) || (rd d 16 4 =? 0) || (MAX_LONGS <? rd d 16 4)) eqn:Ec; [discriminate|].
    apply orb_false_elim in Ec. destruct Ec as [Ec E3]. apply orb_false_elim in Ec. destruct Ec as [E1 E2].
    apply N.eqb_neq in E1, E2. apply N.ltb_ge in E3.
    destruct (N.ltb_spec (N.of_nat (length d)) (32 + 8 * rd d 16 4)) as [|Hlen]; [discriminate|].
    injection Hd as <- <-. unfold wf, enc_size. cbn [c_nh c_seed c_nl c_body].
    pose proof (rd_lt d 24 8) as Lc. change (8 * N.of_nat 8) with 64 in Lc.
    pose proof (rd_lt d 32 (body_bytes (rd d 16 4))) as Lb.
    unfold body_bytes in Lb at 2. rewrite N2Nat.id in Lb. replace (8 * (8 * rd d 16 4)) with (64 * rd d 16 4) in Lb by lia.
    split; [now repeat split|]. split; [reflexivity|]. split; [unfold body_bytes; lia|]. intros _. discriminate.
Qed.

(* an accepted image is read exactly as the canonical image of its content *)
Corollary dec_canonical r d s rest : dec r d = Some (s, rest) -> dec r (enc s ++ rest) = Some (s, rest).
Proof. intros Hd. destruct (dec_accepts r d s rest Hd) as (Hwf & _ & _ & Hw). now apply dec_enc. Qed.

(* no reader allocates more than the image delivers for a non-empty image; an EMPTY image stands for a zeroed bit array
   of at most MAX_BITS bits (2 GiB), the declared exception *)
Corollary dec_bounded r d s rest :
  dec r d = Some (s, rest) ->
  match c_body s with
  | Some _ => 32 + 8 * c_nl s <= N.of_nat (length d)
  | None => N.shiftl (c_nl s) 6 <= MAX_BITS
  end.
Proof.
  intros Hd. destruct (dec_accepts r d s rest Hd) as (Hwf & _ & Hlen & _).
  unfold enc_size, body_bytes in Hlen. destruct Hwf as (_ & _ & _ & _ & _ & Hb).
  destruct (c_body s) as [[c bits]|]; [lia|exact Hb].
Qed.

(* ------------------------------------------------------------------ *)
(* documented layout                                                    *)
(* ------------------------------------------------------------------ *)
Lemma nth_le_bytes n : forall k x, (k < n)%nat -> nth k (N_to_le_bytes n x) 0 = w8 (N.shiftr x (8 * N.of_nat k)).
Proof.
  induction n as [|n IH]; intros k x Hk; [lia|]. cbn [N_to_le_bytes]. destruct k as [|k].
  - cbn [nth]. now rewrite N.shiftr_0_r.
  - cbn [nth]. rewrite IH by lia. f_equal. rewrite N.shiftr_shiftr. f_equal. lia.
Qed.

Theorem layout_header s :
  wf s ->
  let d := enc s in
  nth 0 d 0 = (match c_body s with None => 3 | Some _ => 4 end) /\          (* preamble longs *)
  nth 1 d 0 = 1 /\ nth 2 d 0 = 21 /\                                        (* serial version, family id *)
  nth 3 d 0 = (match c_body s with None => 4 | Some _ => 0 end) /\          (* flags: EMPTY = bit 2 *)
  rd d 4 2 = c_nh s /\ nth 6 d 0 = 0 /\ nth 7 d 0 = 0 /\                    (* num hashes, unused *)
  rd d 8 8 = c_seed s /\                                                    (* hash seed *)
  rd d 16 4 = c_nl s /\ rd d 20 4 = 0 /\                                    (* bit array length in longs, unused *)
  match c_body s with None => length d = 24%nat
                 | Some (c, _) => rd d 24 8 = c /\ length d = (32 + 8 * N.to_nat (c_nl s))%nat end.
Proof.
  intros Hwf d.
  destruct (enc_fields s [] Hwf) as (N0 & N1 & N2 & N3 & Rnh & Rseed & Rnl & _ & _ & Hb).
  rewrite app_nil_r in *. fold d in N0, N1, N2, N3, Rnh, Rseed, Rnl, Hb.
  pose proof (enc_length s) as HL. fold d in HL. unfold enc_size, body_bytes in HL.
  assert (Z6 : nth 6 d 0 = 0 /\ nth 7 d 0 = 0 /\ rd d 20 4 = 0).
  { unfold d, enc. destruct (c_body s) as [[c bits]|]; (split; [reflexivity|split; [reflexivity|]]);
      unfold chdr; rewrite <- ?app_assoc; peel; reflexivity. }
  destruct Z6 as (Z6 & Z7 & Z20).
  repeat (split; [assumption|]).
  destruct (c_body s) as [[c bits]|]; [split; [apply Hb|]|]; rewrite HL; [rewrite N2Nat.inj_mul|]; reflexivity.
Qed.

(* bit i of the filter is bit (i mod 8) of byte 32 + i / 8 *)
Theorem layout_bit s c bits i :
  wf s -> c_body s = Some (c, bits) -> i < 64 * c_nl s ->
  N.testbit (nth (32 + N.to_nat (i / 8)) (enc s) 0) (i mod 8) = N.testbit bits i.
Proof.
  intros Hwf Hb Hi. unfold enc. rewrite Hb.
  assert (HL : length (chdr (c_seed s) (c_nh s) (c_nl s) false ++ N_to_le_bytes 8 c) = 32%nat)
    by (rewrite app_length, chdr_length, length_le_bytes; reflexivity).
  pose proof (N.div_mod i 8 ltac:(discriminate)) as D. pose proof (N.mod_lt i 8 ltac:(discriminate)) as M.
  set (q := i / 8) in *. set (m := i mod 8) in *.
  assert (Hk : (N.to_nat q < body_bytes (c_nl s))%nat) by (unfold body_bytes; lia).
  set (k := N.to_nat q) in *.
  rewrite app_assoc, app_nth2 by (rewrite HL; apply Nat.le_add_r). rewrite HL.
  replace (32 + k - 32)%nat with k by lia.
  rewrite nth_le_bytes by exact Hk.
  unfold k. rewrite w8_testbit, N.shiftr_spec', N2Nat.id.
  replace (m + 8 * q) with i by lia.
  destruct (N.ltb_spec m 8); [apply andb_true_r|lia].
Qed.

(* tolerance of the readers, as the code documents it: the stream reader accepts any preamble-longs value 1..4,
   and only bit 2 of the flags byte matters to any reader *)
Theorem dec_stream_prelongs p q t : 1 <= p <= 4 -> 1 <= q <= 4 -> dec RStream (p :: t) = dec RStream (q :: t).
Proof.
  intros [Hp1 Hp4] [Hq1 Hq4]. unfold dec, rd. cbn [length nth is_stream skipn negb andb].
  replace ((p <? 1) || (4 <? p)) with false
    by (symmetry; apply orb_false_intro; [apply N.ltb_ge|apply N.ltb_ge]; assumption).
  replace ((q <? 1) || (4 <? q)) with false
    by (symmetry; apply orb_false_intro; [apply N.ltb_ge|apply N.ltb_ge]; assumption).
  reflexivity.
Qed.

Theorem dec_flags r a b c f f' t : N.land f 4 = N.land f' 4 -> dec r (a :: b :: c :: f :: t) = dec r (a :: b :: c :: f' :: t).
Proof. intros Hf. unfold dec, rd. cbn [length nth skipn]. rewrite Hf. reflexivity. Qed.

(* ------------------------------------------------------------------ *)
(* the codec is the serialize() of the C15 model; re-serialization; header bytes *)
(* ------------------------------------------------------------------ *)
Theorem enc_is_serialize f bits : f_cap f mod 64 = 0 -> enc (cimg_of f bits) = serialize f bits.
Proof.
  intros Hm. unfold enc, cimg_of, serialize. cbn [c_body c_seed c_nh c_nl].
  destruct (is_empty f).
  - now rewrite app_nil_r.
  - change (header (f_seed f) (f_nh f) (f_cap f) false) with (chdr (f_seed f) (f_nh f) (N.shiftr (f_cap f) 6) false).
    f_equal. f_equal. f_equal. unfold body_bytes, cap_bytes. f_equal.
    rewrite !N.shiftr_div_pow2. change (2 ^ 6) with 64. change (2 ^ 3) with 8.
    pose proof (N.div_mod (f_cap f) 64 ltac:(discriminate)) as D. rewrite Hm in D.
    set (q := f_cap f / 64) in *.
    replace (f_cap f) with ((q * 8) * 8) by lia. rewrite N.div_mul by discriminate. lia.
Qed.

(* a restored filter writes the image it was read from *)
Theorem renorm_cimg_of f bits : renorm (cimg_of f bits) = cimg_of f bits.
Proof.
  unfold renorm, cimg_of, is_empty. cbn [c_body c_nh c_seed c_nl].
  destruct (f_dirty f); cbn [negb andb]; [reflexivity|].
  destruct (N.eqb_spec (f_cnt f) 0) as [E|E]; [reflexivity|].
  destruct (f_cnt f =? DIRTY); [reflexivity|]. apply N.eqb_neq in E. now rewrite E.
Qed.

Theorem enc_h_form h s : firstn h (enc_h h s) = repeat 0 h /\ skipn h (enc_h h s) = enc s /\
                         length (enc_h h s) = (h + enc_size s)%nat.
Proof.
  unfold enc_h. split; [|split].
  - rewrite firstn_app, repeat_length, Nat.sub_diag. cbn [firstn]. rewrite app_nil_r.
    apply firstn_all2. now rewrite repeat_length.
  - rewrite skipn_app, repeat_length, Nat.sub_diag. cbn [skipn]. rewrite skipn_all2 by (now rewrite repeat_length). reflexivity.
  - now rewrite app_length, repeat_length, enc_length.
Qed.

(* every sound filter object of the C15 model has a well-formed image *)
Theorem wf_cimg_of f bits :
  cfg_ok f -> f_nh f <> 0 -> f_cap f <= MAX_BITS -> in_range bits (f_cap f) -> ser_cnt f < 2 ^ 64 ->
  wf (cimg_of f bits).
Proof.
  intros (Hnh & Hseed & Hm & Hc0 & Hc) Hn Hmax Hr Hs. unfold wf, cimg_of. cbn [c_nh c_seed c_nl c_body].
  pose proof (N.div_mod (f_cap f) 64 ltac:(discriminate)) as D. rewrite Hm in D.
  rewrite N.shiftr_div_pow2, N.shiftl_mul_pow2. change (2 ^ 6) with 64. set (q := f_cap f / 64) in *.
  assert (Hq : q < 2 ^ 32). { change (2 ^ 35) with (64 * 2 ^ 29) in Hc. change (2 ^ 32) with 4294967296. change (2 ^ 29) with 536870912 in Hc. lia. }
  repeat (split; [first [assumption|lia]|]).
  destruct (is_empty f); [lia|].
  split.
  - unfold MAX_LONGS. rewrite N.shiftr_div_pow2. change (2 ^ 6) with 64.
    apply N.div_le_lower_bound; [discriminate|]. lia.
  - split; [exact Hs|]. replace (64 * q) with (f_cap f) by lia. now apply in_range_lt.
Qed.

(* the round trip stated on the serialize() of the C15 model: every reader restores the content of every sound filter object *)
Corollary dec_serialize r f bits rest :
  cfg_ok f -> f_nh f <> 0 -> f_cap f <= MAX_BITS -> in_range bits (f_cap f) -> ser_cnt f < 2 ^ 64 ->
  (r = RWritable -> is_empty f = false) ->
  dec r (serialize f bits ++ rest) = Some (cimg_of f bits, rest).
Proof.
  intros Hc Hn Hm Hr Hs Hw. rewrite <- (enc_is_serialize f bits) by apply Hc.
  apply dec_enc; [now apply wf_cimg_of|]. intros E. specialize (Hw E). unfold cimg_of. cbn [c_body]. rewrite Hw. discriminate.
Qed.
