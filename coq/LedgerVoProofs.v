(* LedgerVoProofs.v — var_opt_sketch's data_ discipline AS CODED (LedgerVo.v): for the sketch operations (constructor, update in
   warm-up and in sampling mode, grow_data_arrays, copy, reset, destructor) the flag filled_data_ tells the truth about the gap
   slot, every effect is accepted and the destructor leaves the ledger empty.  (decrease_k_by_1, used only by
   var_opt_union::get_result, breaks that invariant: coq/Regression_ledger.v.) *)
From Coq Require Import ZArith NArith List Bool Lia.
From DS Require Import LedgerCore LedgerCoreProofs LedgerVo.
Import ListNotations.
Local Open Scope N_scope.

Definition vblk (s : vo) : blk := {| b_ty := true; b_size := v_alloc s; b_map := vbits s |}.

Definition VOk (s : vo) : Prop :=
  v_extra s = 0 /\
  (v_r s = 0 -> v_h s <= v_alloc s /\ v_filled s = false /\ v_h s <= v_k s) /\
  (0 < v_r s -> v_h s + v_r s = v_k s /\ v_k s + 1 <= v_alloc s /\ v_filled s = v_gapc s).

Definition VInv (s : vo) (L : ledger) : Prop :=
  match v_blk s with
  | None => L = []
  | Some b => L = [(b, vblk s)] /\ VOk s /\ b < v_nxt s
  end.

Lemma repeatN_1 {A} (x : A) : repeatN x 1 = [x].
Proof. reflexivity. Qed.

Lemma vblk_warm s : v_r s = 0 -> vblk s = mkblk true (v_alloc s) 0 (v_h s).
Proof. intros H. unfold vblk, vbits, mkblk. rewrite H. reflexivity. Qed.

(* sampling mode with a constructed gap: every slot of [0, k+1) is constructed *)
Lemma vbits_full s : 0 < v_r s -> v_extra s = 0 -> v_gapc s = true -> v_h s + v_r s + 1 <= v_alloc s ->
  vbits s = rng (v_alloc s) 0 (v_h s + v_r s + 1).
Proof.
  intros Hr He Hg Ha. unfold vbits, rng. destruct (N.eqb_spec (v_r s) 0); [lia|]. rewrite He, Hg.
  change [true] with (repeatN true 1). rewrite !repeatN_0. cbn [app]. rewrite !N.sub_0_r.
  rewrite (app_assoc (repeatN true (v_h s))), <- repeatN_add. rewrite app_assoc, <- repeatN_add.
  f_equal; f_equal; lia.
Qed.

Lemma vblk_full s : 0 < v_r s -> v_extra s = 0 -> v_gapc s = true -> v_h s + v_r s + 1 <= v_alloc s ->
  vblk s = mkblk true (v_alloc s) 0 (v_h s + v_r s + 1).
Proof. intros. unfold vblk, mkblk. now rewrite vbits_full. Qed.

(* sampling mode with a raw gap *)
Lemma vbits_hole s : 0 < v_r s -> v_extra s = 0 -> v_gapc s = false ->
  vbits s = repeatN true (v_h s) ++ repeatN false 1 ++ repeatN true (v_r s) ++ repeatN false (v_alloc s - v_h s - 1 - v_r s).
Proof.
  intros Hr He Hg. unfold vbits. destruct (N.eqb_spec (v_r s) 0); [lia|]. rewrite He, Hg, repeatN_0, N.sub_0_r. reflexivity.
Qed.

Lemma none_true_app a b : none_true (a ++ b) = none_true a && none_true b.
Proof. unfold none_true. apply forallb_app. Qed.

Lemma none_true_repeatN n : none_true (repeatN false n) = true.
Proof. unfold repeatN. induction (N.to_nat n); simpl; auto. Qed.

Lemma all_false_eq : forall l, none_true l = true -> l = repeat false (length l).
Proof.
  induction l as [|x t IH]; simpl; auto. intros H. apply andb_prop in H. destruct H as [Hx Ht].
  destruct x; [discriminate|]. f_equal. auto.
Qed.

Lemma new_vo_ok X k rf s es : new_vo k rf = (s, es) -> exists L, apply_all X [] es = Some L /\ VInv s L.
Proof.
  unfold new_vo. cbv zeta. intros E; injection E as <- <-. cbn [apply_all]. rewrite alloc0.
  eexists. split; [reflexivity|]. unfold VInv, VOk. cbn [v_blk v_extra v_r v_h v_alloc v_filled v_nxt].
  split; [|split; [|lia]].
  - rewrite vblk_warm by reflexivity. reflexivity.
  - repeat split; try lia; auto.
Qed.

Lemma vo_grow_ok X s b s' es : v_blk s = Some b -> b < v_nxt s -> v_r s = 0 -> v_h s = v_alloc s -> v_extra s = 0 -> v_filled s = false -> v_h s <= v_k s ->
  vo_grow s b = (s', es) -> v_h s' < v_alloc s' ->
  exists L, apply_all X [(b, vblk s)] es = Some L /\ VInv s' L /\ v_r s' = 0 /\ v_h s' = v_h s /\ v_k s' = v_k s /\ v_blk s' <> None.
Proof.
  intros Hb Hlt Hr Hh He Hf Hhk. unfold vo_grow. cbv zeta.
  set (a0 := get_adjusted_size (v_k s) (v_alloc s * 2 ^ v_rf s)). set (a := if a0 =? v_k s then a0 + 1 else a0).
  destruct (N.ltb_spec (v_alloc s) a).
  - intros E _; injection E as <- <-. rewrite vblk_warm by assumption. rewrite Hh.
    cbn [apply_all]. rewrite alloc1 by lia.
    rewrite (movd_dst_fst X (v_nxt s) true a 0 0 b true (v_alloc s) 0 (v_alloc s) (v_alloc s)) by lia.
    rewrite !N.add_0_l. rewrite dealloc2_snd by lia.
    eexists. split; [reflexivity|]. unfold VInv, VOk, mkv. cbn [v_blk v_extra v_r v_h v_alloc v_filled v_nxt v_k].
    split; [|repeat split; auto; try lia; congruence].
    split; [|split; [|lia]].
    + rewrite vblk_warm by (cbn [v_r]; assumption). cbn [v_alloc v_h]. reflexivity.
    + repeat split; auto; lia.
  - (* curr_items_alloc_ is overwritten without reallocating: then there is no room and update refuses *)
    intros E Hroom; injection E as <- <-. unfold mkv in Hroom. cbn [v_h v_alloc] in Hroom. lia.
Qed.

Lemma one_vblk (b : N) s s' : vblk s = vblk s' -> [(b, vblk s)] = [(b, vblk s')].
Proof. now intros ->. Qed.

(* update(item, weight): accepted, invariant kept; the object keeps its buffer *)
Lemma vo_update_ok X s L env s' es : VInv s L -> vo_update s env = Some (s', es) ->
  exists L', apply_all X L es = Some L' /\ VInv s' L' /\ v_blk s' <> None.
Proof.
  intros HI. unfold vo_update. unfold VInv in HI. destruct (v_blk s) as [b|] eqn:Hb; [|discriminate].
  destruct HI as (-> & (He & Hw & Hs) & Hlt).
  destruct (N.eqb_spec (v_r s) 0) as [Hr|Hr].
  - (* warm-up *)
    destruct (Hw Hr) as (Hha & Hf & Hhk).
    assert (Hg : forall s1 e1, (if v_alloc s <=? v_h s then vo_grow s b else (s, [])) = (s1, e1) -> v_h s1 < v_alloc s1 ->
                 exists L1 b1, apply_all X [(b, vblk s)] e1 = Some L1 /\ v_blk s1 = Some b1 /\ L1 = [(b1, vblk s1)] /\ v_r s1 = 0 /\
                               v_extra s1 = 0 /\ v_filled s1 = false /\ b1 < v_nxt s1 /\ v_h s1 <= v_k s1).
    { intros s1 e1. destruct (N.leb_spec (v_alloc s) (v_h s)).
      - intros E Hroom. destruct (vo_grow_ok X s b s1 e1 Hb Hlt Hr ltac:(lia) He Hf Hhk E Hroom) as (L1 & A & B & C & D & F & G).
        unfold VInv in B. destruct (v_blk s1) as [b1|]; [|congruence]. destruct B as (-> & (B1 & B2 & _) & B3).
        exists [(b1, vblk s1)], b1. destruct (B2 C) as (? & ? & ?). repeat split; auto.
      - intros E _; injection E as <- <-. exists [(b, vblk s)], b. repeat split; auto. }
    destruct (if v_alloc s <=? v_h s then vo_grow s b else (s, [])) as [s1 e1].
    destruct (v_blk s1) as [b1'|] eqn:Hb1; [|discriminate].
    destruct (N.leb_spec (v_alloc s1) (v_h s1)) as [|Hroom]; [discriminate|].
    destruct (Hg s1 e1 eq_refl Hroom) as (L1 & b1 & A & B & -> & Hr1 & He1 & Hf1 & Hlt1 & Hhk1).
    rewrite Hb1 in B. injection B as <-.
    assert (Hc : apply X [(b1', vblk s1)] (Cons b1' (v_h s1) 1) = Some [(b1', mkblk true (v_alloc s1) 0 (v_h s1 + 1))]).
    { rewrite vblk_warm by assumption. apply cons1_above; lia. }
    destruct (N.ltb_spec (v_k s1) (v_h s1 + 1)).
    + destruct env as [|h' [|r' env']]; try discriminate.
      destruct ((h' + r' =? v_k s1) && (0 <? r')) eqn:Hc2; [|discriminate].
      apply andb_prop in Hc2. destruct Hc2 as [Hk Hrp]. apply N.eqb_eq in Hk. apply N.ltb_lt in Hrp.
      intros E; injection E as <- <-.
      rewrite (apply_all_app X _ e1 _ _ A). cbn [apply_all]. rewrite Hc.
      eexists. split; [reflexivity|]. unfold VInv, mkv. cbn [v_blk v_nxt]. try rewrite Hb1. split; [|congruence]. split; [|split; [|exact Hlt1]].
      * f_equal. f_equal. rewrite vblk_full; cbn [v_r v_extra v_gapc v_h v_alloc]; auto; try lia. apply (f_equal (mkblk true (v_alloc s1) 0)). lia.
      * unfold VOk. cbn [v_extra v_r v_h v_k v_alloc v_filled v_gapc]. repeat split; auto; lia.
    + intros E; injection E as <- <-.
      rewrite (apply_all_app X _ e1 _ _ A). cbn [apply_all]. rewrite Hc.
      eexists. split; [reflexivity|]. unfold VInv, mkv. cbn [v_blk v_nxt]. try rewrite Hb1. split; [|congruence]. split; [|split; [|exact Hlt1]].
      * first [reflexivity | f_equal; f_equal; rewrite vblk_warm by reflexivity; reflexivity].
      * unfold VOk. cbn [v_extra v_r v_h v_k v_alloc v_filled v_gapc]. repeat split; auto; lia.
  - (* sampling mode *)
    assert (Hrp : 0 < v_r s) by lia. destruct (Hs Hrp) as (Hk & Ha & Hfg).
    destruct env as [|h' [|r' env']]; try discriminate.
    destruct ((h' + r' =? v_k s) && (0 <? r')) eqn:Hc2; [|discriminate].
    apply andb_prop in Hc2. destruct Hc2 as [Hk' Hrp']. apply N.eqb_eq in Hk'. apply N.ltb_lt in Hrp'.
    intros E; injection E as <- <-.
    set (s' := mkv s (v_k s) (v_alloc s) h' r' true true (Some b) (v_nxt s)).
    assert (Hfull' : vblk s' = mkblk true (v_alloc s) 0 (v_k s + 1)).
    { unfold s'. rewrite vblk_full; cbn [v_r v_extra v_gapc v_h v_alloc mkv]; auto; try lia. apply (f_equal (mkblk true (v_alloc s) 0)). lia. }
    assert (HI' : VInv s' [(b, vblk s')]).
    { unfold VInv, s', mkv. cbn [v_blk v_nxt]. split; [reflexivity|]. split; [|exact Hlt].
      unfold VOk. cbn [v_extra v_r v_h v_k v_alloc v_filled v_gapc]. repeat split; auto; lia. }
    exists [(b, vblk s')]. split; [|split; [exact HI'|unfold s', mkv; cbn [v_blk]; congruence]].
    unfold fill_gap. destruct (v_filled s) eqn:Hfl.
    + (* assignment to the (constructed) gap slot *)
      assert (Hfull : vblk s = mkblk true (v_alloc s) 0 (v_k s + 1)).
      { rewrite vblk_full; auto; try lia. apply (f_equal (mkblk true (v_alloc s) 0)). lia. }
      cbn [apply_all apply]. unfold src_ok. rewrite lookup_hd. rewrite Hfull. cbn [b_map mkblk].
      rewrite all_true_rng by lia. rewrite Hfull'. reflexivity.
    + (* placement-new into the raw gap slot *)
      cbn [apply_all]. rewrite (apply_cons X _ b (vblk s) (v_h s) 1 (b_map (vblk s'))); [|apply lookup_hd|].
      * led_simpl. unfold setmap. cbn [b_ty b_size vblk]. reflexivity.
      * cbn [b_map vblk]. rewrite (vbits_hole s) by (auto; congruence).
        rewrite (chk_fill_seg true (v_h s) 1 (repeatN true (v_h s))) by apply repeatN_length.
        f_equal. assert (Hv : vbits s' = rng (v_alloc s) 0 (v_k s + 1)) by (apply (f_equal b_map) in Hfull'; exact Hfull').
        rewrite Hv. unfold rng. rewrite repeatN_0, N.sub_0_r. cbn [app].
        rewrite (app_assoc (repeatN true (v_h s))), <- repeatN_add. rewrite app_assoc, <- repeatN_add. f_equal; f_equal; lia.
Qed.

Lemma all_true_vbits_H s : all_true 0 (v_h s) (vbits s) = true.
Proof.
  unfold vbits. destruct (v_r s =? 0).
  - unfold rng. rewrite repeatN_0, N.sub_0_r. cbn [app]. apply (all_true_seg 0 (v_h s) [] _). reflexivity.
  - apply (all_true_seg 0 (v_h s) [] _). reflexivity.
Qed.

Lemma all_true_vbits_R s : 0 < v_r s -> all_true (v_h s + 1) (v_r s) (vbits s) = true.
Proof.
  intros Hr. unfold vbits. destruct (N.eqb_spec (v_r s) 0); [lia|].
  rewrite (app_assoc (repeatN true (v_h s))). apply all_true_seg. rewrite app_length, repeatN_length. simpl. lia.
Qed.

(* copy constructor *)
Lemma vo_copy_ok s LS s' es : VInv s LS -> vo_copy s = Some (s', es) ->
  exists L', apply_all LS [] es = Some L' /\ VInv s' L' /\ v_blk s' <> None.
Proof.
  intros HI. unfold vo_copy. unfold VInv in HI. destruct (v_blk s) as [b|] eqn:Hb; [|discriminate].
  destruct HI as (-> & (He & Hw & Hs) & Hlt). intros E; injection E as <- <-.
  set (c := with_extra (mkv s (v_k s) (v_alloc s) (v_h s) (v_r s) false false (Some 0) 1) 0).
  assert (Hha : v_h s + (if v_r s =? 0 then 0 else 1 + v_r s) <= v_alloc s).
  { destruct (N.eqb_spec (v_r s) 0) as [Hr|Hr]; [destruct (Hw Hr); lia|destruct (Hs ltac:(lia)) as (? & ? & ?); lia]. }
  assert (H1 : apply_all [(b, vblk s)] [] [Alloc true 0 (v_alloc s); FromX b 0 0 0 (v_h s)] = Some [(0, mkblk true (v_alloc s) 0 (v_h s))]).
  { cbn [apply_all]. rewrite alloc0.
    rewrite (apply_fromx _ _ b 0 0 0 (v_h s) (vblk s) (mkblk true (v_alloc s) 0 0) (rng (v_alloc s) 0 (0 + v_h s))).
    - led_simpl. rewrite N.add_0_l. reflexivity.
    - apply lookup_hd.
    - apply all_true_vbits_H.
    - apply lookup_hd.
    - cbn [b_map mkblk]. apply rng_cons_above; destruct (v_r s =? 0); lia. }
  match goal with |- context [apply_all ?X0 ?L0 (?a :: ?b0 :: ?rest)] => change (a :: b0 :: rest) with ([a; b0] ++ rest) end.
  rewrite (apply_all_app _ _ _ _ _ H1).
  destruct (N.ltb_spec 0 (v_r s)) as [Hr|Hr].
  - destruct (N.eqb_spec (v_r s) 0) as [|_]; [lia|]. destruct (Hs Hr) as (Hk & Ha & Hfg).
    cbn [apply_all].
    rewrite (apply_fromx _ _ b (v_h s + 1) 0 (v_h s + 1) (v_r s) (vblk s) (mkblk true (v_alloc s) 0 (v_h s)) (vbits c)).
    + led_simpl. eexists. split; [reflexivity|]. split; [|unfold c; cbn; congruence].
      unfold VInv, c, with_extra, mkv. cbn [v_blk v_nxt]. split; [reflexivity|]. split; [|lia].
      unfold VOk. cbn [v_extra v_r v_h v_k v_alloc v_filled v_gapc]. repeat split; auto; lia.
    + apply lookup_hd.
    + apply all_true_vbits_R. exact Hr.
    + apply lookup_hd.
    + cbn [b_map mkblk]. unfold rng. rewrite repeatN_0, N.sub_0_r. cbn [app].
      replace (repeatN false (v_alloc s - v_h s)) with (repeatN false 1 ++ repeatN (negb true) (v_r s) ++ repeatN false (v_alloc s - v_h s - 1 - v_r s))
        by (cbn [negb]; rewrite <- !repeatN_add; f_equal; lia).
      rewrite (app_assoc (repeatN true (v_h s))).
      rewrite chk_fill_seg by (rewrite app_length, !repeatN_length; simpl; lia).
      f_equal. unfold c. rewrite (vbits_hole (with_extra _ 0)); cbn [v_r v_extra v_gapc v_h v_alloc with_extra mkv]; auto.
      rewrite <- app_assoc. reflexivity.
  - assert (Hr0 : v_r s = 0) by lia. cbn [apply_all].
    eexists. split; [reflexivity|]. split; [|unfold c; cbn; congruence].
    unfold VInv, c, with_extra, mkv. cbn [v_blk v_nxt]. split; [|split; [|lia]].
    + f_equal. f_equal. rewrite vblk_warm by (cbn [v_r]; exact Hr0). reflexivity.
    + unfold VOk. cbn [v_extra v_r v_h v_k v_alloc v_filled v_gapc]. destruct (Hw Hr0). repeat split; auto; lia.
Qed.

(* what the destructor / reset destroy (as coded) leaves nothing constructed *)
Lemma destroy_items_ok X s b : VOk s -> v_h s + (if v_r s =? 0 then 0 else 1 + v_r s) <= v_alloc s ->
  exists m, apply_all X [(b, vblk s)] (destroy_items s b) = Some [(b, setmap (vblk s) m)] /\ none_true m = true /\ length m = N.to_nat (v_alloc s).
Proof.
  intros (He & Hw & Hs) Hha. unfold destroy_items.
  destruct (N.eqb_spec (v_r s) 0) as [Hr|Hr].
  - destruct (Hw Hr) as (_ & Hf & _). rewrite Hf, Hr. cbn [N.ltb N.compare app apply_all].
    rewrite vblk_warm by assumption. rewrite dest1_prefix by lia. rewrite N.add_0_l.
    exists (rng (v_alloc s) (v_h s) (v_h s)). split; [reflexivity|]. split; [apply none_true_rng; lia|apply rng_length; lia].
  - assert (Hrp : 0 < v_r s) by lia. destruct (Hs Hrp) as (Hk & Ha & Hfg).
    destruct (v_filled s) eqn:Hfl.
    + cbn [apply_all]. rewrite vblk_full by (auto; try lia; congruence).
      replace (N.min (v_k s + 1) (v_alloc s)) with (v_h s + v_r s + 1) by lia.
      rewrite dest1_prefix by lia. rewrite N.add_0_l.
      exists (rng (v_alloc s) (v_h s + v_r s + 1) (v_h s + v_r s + 1)). split; [reflexivity|]. split; [apply none_true_rng; lia|apply rng_length; lia].
    + replace (0 <? v_r s) with true by (symmetry; now apply N.ltb_lt). cbn [app apply_all].
      assert (Hb1 : chk_fill false 0 (v_h s) (vbits s) = Some (repeatN false (v_h s) ++ repeatN false 1 ++ repeatN true (v_r s) ++ repeatN false (v_alloc s - v_h s - 1 - v_r s))).
      { rewrite vbits_hole by (auto; congruence). apply (chk_fill_seg false 0 (v_h s) []). reflexivity. }
      rewrite (apply_dest X _ b (vblk s) 0 (v_h s) _ (lookup_hd _ _ _) Hb1). led_simpl.
      set (m1 := repeatN false (v_h s) ++ repeatN false 1 ++ repeatN true (v_r s) ++ repeatN false (v_alloc s - v_h s - 1 - v_r s)).
      assert (Hb2 : chk_fill false (v_h s + 1) (v_r s) m1 = Some (repeatN false (v_h s) ++ repeatN false 1 ++ repeatN false (v_r s) ++ repeatN false (v_alloc s - v_h s - 1 - v_r s))).
      { unfold m1. rewrite (app_assoc (repeatN false (v_h s))). rewrite (app_assoc (repeatN false (v_h s)) (repeatN false 1) (repeatN false (v_r s) ++ _)).
        apply (chk_fill_seg false (v_h s + 1) (v_r s)). rewrite app_length, !repeatN_length. simpl. lia. }
      rewrite (apply_dest X _ b (setmap (vblk s) m1) (v_h s + 1) (v_r s) _ (lookup_hd _ _ _) Hb2). led_simpl.
      eexists. split; [reflexivity|]. split.
      * rewrite !none_true_app, !none_true_repeatN. reflexivity.
      * rewrite !app_length, !repeatN_length. simpl. lia.
Qed.

Lemma vo_room s : VOk s -> v_h s + (if v_r s =? 0 then 0 else 1 + v_r s) <= v_alloc s.
Proof.
  intros (He & Hw & Hs). destruct (N.eqb_spec (v_r s) 0) as [Hr|Hr]; [destruct (Hw Hr); lia|destruct (Hs ltac:(lia)) as (? & ? & ?); lia].
Qed.

Lemma vo_destroy_ok X s L : VInv s L -> apply_all X L (vo_destroy s) = Some [].
Proof.
  intros HI. unfold vo_destroy. unfold VInv in HI. destruct (v_blk s) as [b|] eqn:Hb; [|subst L; reflexivity].
  destruct HI as (-> & Hok & Hlt).
  destruct (destroy_items_ok X s b Hok (vo_room s Hok)) as (m & A & B & C).
  rewrite (apply_all_app X _ _ _ _ A). cbn [apply_all].
  rewrite (apply_dealloc X _ b (setmap (vblk s) m) (v_alloc s)); [|apply lookup_hd|reflexivity|exact B]. led_simpl. reflexivity.
Qed.

Lemma vo_reset_ok X s L s' es : VInv s L -> vo_reset s = Some (s', es) ->
  exists L', apply_all X L es = Some L' /\ VInv s' L' /\ v_blk s' <> None.
Proof.
  intros HI. unfold vo_reset. unfold VInv in HI. destruct (v_blk s) as [b|] eqn:Hb; [|discriminate].
  destruct HI as (-> & Hok & Hlt). cbv zeta.
  destruct (destroy_items_ok X s b Hok (vo_room s Hok)) as (m & A & B & C).
  destruct (N.ltb_spec (initial_alloc (v_k s) (v_rf s)) (v_alloc s)).
  - intros E; injection E as <- <-. rewrite (apply_all_app X _ _ _ _ A). cbn [apply_all].
    rewrite (apply_dealloc X _ b (setmap (vblk s) m) (v_alloc s)); [|apply lookup_hd|reflexivity|exact B]. led_simpl.
    rewrite alloc0. eexists. split; [reflexivity|]. split; [|cbn; congruence].
    unfold VInv, with_extra, mkv. cbn [v_blk v_nxt]. split; [|split; [|lia]].
    + first [reflexivity | f_equal; f_equal; rewrite vblk_warm by reflexivity; reflexivity].
    + unfold VOk. cbn [v_extra v_r v_h v_k v_alloc v_filled v_gapc]. repeat split; auto; lia.
  - intros E; injection E as <- <-. rewrite A.
    eexists. split; [reflexivity|]. split; [|cbn; congruence].
    unfold VInv, mkv. cbn [v_blk v_nxt]. split; [|split; [|exact Hlt]].
    + f_equal. f_equal. unfold setmap, vblk. cbn [b_ty b_size b_map v_alloc mkv]. f_equal.
      unfold vbits. cbn [v_r v_alloc v_h N.eqb].
      rewrite rng_empty by lia. unfold repeatN. rewrite <- C. now apply all_false_eq.
    + destruct Hok as (He & _). unfold VOk. cbn [v_extra v_r v_h v_k v_alloc v_filled v_gapc]. repeat split; auto; lia.
Qed.

Lemma vo_moved_from_ok s : VInv (vo_moved_from s) [].
Proof. unfold VInv. simpl. reflexivity. Qed.

Lemma count_true_repeatN b n : count_true (repeatN b n) = if b then n else 0.
Proof. unfold count_true, repeatN. rewrite filter_id_repeat. destruct b; lia. Qed.

(* live items at rest = retained samples (+ the stale object in the gap slot once the sketch has sampled) *)
Lemma vo_live s L b : VInv s L -> v_blk s = Some b ->
  live_slots L = v_retained s + (if (0 <? v_r s) && v_gapc s then 1 else 0) /\ item_slots L = v_alloc s.
Proof.
  unfold VInv. intros HI Hb. rewrite Hb in HI. destruct HI as (-> & (He & Hw & Hs) & _). split; [|unfold item_slots; simpl; lia].
  unfold live_slots. simpl. unfold v_retained, vbits. destruct (N.eqb_spec (v_r s) 0) as [Hr|Hr].
  - destruct (Hw Hr). rewrite count_true_rng by lia. rewrite Hr. simpl. lia.
  - replace (0 <? v_r s) with true by (symmetry; apply N.ltb_lt; lia). rewrite He.
    unfold count_true. rewrite !filter_app, !app_length. fold (count_true (repeatN true (v_h s))).
    unfold repeatN. rewrite !filter_id_repeat. destruct (v_gapc s); simpl; lia.
Qed.
