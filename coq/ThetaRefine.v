(* ThetaRefine.v — the concrete Theta table model (L2, ThetaDefs.v) refines the abstract relational model (L1,
   ThetaProofs.v Part A) step by step and for every history; nth_element enters only through its postcondition. *)
From Coq Require Import ZArith NArith List Bool Lia Permutation Sorted Arith.
From DS Require Import Word RunnerLib OpenAddr KSmallest Canon ThetaDefs ThetaProofs.
Import ListNotations.
Local Open Scope N_scope.

Section Refine.
  Variable S : Type.
  Variable sel : nat -> list (N * S) -> list (N * S).
  Hypothesis sel_ok : forall k l, (k < length l)%nat -> nth_post fst k l (sel k l).
  Variables lgn r th0 : N.
  Hypothesis lgn_ge : 5 <= lgn.

  Notation TInv := (TInv S lgn r th0).
  Notation abs := (abs S).

  Ltac proj := unfold ThetaProofs.abs, keys, entries, with_table, set_nonempty, akeys in *;
               cbn [lg_cur lg_nom rf theta0 theta is_empty num slots a_lgc a_theta a_empty a_ents] in *.

  Lemma map_upd_id h f (l : list (N * S)) : (forall e, In e l -> fst e <> h) -> map (upd_payload S h f) l = l.
  Proof.
    induction l as [|a l IH]; simpl; intros H; auto. rewrite IH by auto. f_equal.
    unfold upd_payload. destruct (N.eqb_spec (fst a) h); auto. exfalso. apply (H a); auto.
  Qed.

  Lemma nodup_middle_notin (a b : list (N * S)) e : NoDup (map fst (a ++ e :: b)) ->
    forall x, In x (a ++ b) -> fst x <> fst e.
  Proof.
    rewrite map_app. simpl. intros H x Hx E. apply NoDup_remove_2 in H. apply H.
    rewrite <- map_app, <- E. now apply in_map.
  Qed.

  Lemma upd_middle h f (a : list (N * S)) v b : NoDup (map fst (a ++ (h, v) :: b)) ->
    map (upd_payload S h f) (a ++ (h, v) :: b) = a ++ (h, f (Some v)) :: b.
  Proof.
    intros Hnd. rewrite map_app. simpl. rewrite (map_upd_id h f a), (map_upd_id h f b).
    - unfold upd_payload. simpl. now rewrite N.eqb_refl.
    - intros e He. apply (nodup_middle_notin a b (h, v) Hnd e). apply in_or_app. auto.
    - intros e He. apply (nodup_middle_notin a b (h, v) Hnd e). apply in_or_app. auto.
  Qed.

  Lemma tinv_few s : TInv s -> (length (occupied (slots s)) < length (slots s))%nat.
  Proof.
    intros [Hlgn Hrf Hth0 Hpi Hnum Hcap Hlg]. destruct Hpi as [Hlen _]. rewrite Hlen.
    destruct Hlg as [[H5 _] _]. pose proof (cap_lt_size lgn lgn_ge (lg_cur s) H5). unfold entries in Hnum.
    unfold tsize. lia.
  Qed.

  Lemma refine_update s h64 f : TInv s -> NoDup (keys S s) ->
    a_step S lgn r th0 (abs s) (OpUpdate h64 f) (abs (update S sel s (h64 / 2) f)) /\
    TInv (update S sel s (h64 / 2) f).
  Proof.
    intros HT Hnd. pose proof (tinv_few s HT) as Hfew. pose proof HT as [Hlgn Hrf Hth0 Hpi Hnum Hcap Hlg].
    pose proof Hpi as [Hlen _].
    set (h := h64 / 2). unfold update.
    destruct ((theta s <=? h) || (h =? 0)) eqn:Escr.
    - (* screened *)
      split.
      + apply (AS_screened S lgn r th0 (abs s) h64 f h); auto.
        apply orb_true_iff in Escr. destruct Escr as [E|E]; [left; apply N.leb_le in E|right; apply N.eqb_eq in E]; auto.
      + constructor; auto.
    - apply orb_false_iff in Escr. destruct Escr as [E1 E2]. apply N.leb_gt in E1. apply N.eqb_neq in E2.
      assert (Hrange : 0 < h < theta s) by lia.
      destruct (in_dec N.eq_dec h (keys S s)) as [Hin|Hnin].
      + (* present: the payload is updated in place *)
        pose proof Hin as Hin'. unfold keys, entries in Hin'. apply in_keys_iff in Hin'.
        destruct Hin' as (i & Hi & Hg). rewrite Hlen in Hi.
        unfold tfind. rewrite (find_present S _ _ (slots s) i h Hpi Hi Hg).
        unfold getk in Hg. destruct (nth i (slots s) None) as [[k v]|] eqn:En; [|discriminate].
        inversion Hg; subst k.
        destruct (occupied_set_nth_full S i (h, f (Some v)) (h, v) (slots s) En) as (a & b & Ho & Ho').
        split.
        * apply (AS_present S lgn r th0 (abs s) h64 f h); auto. proj. rewrite Ho', Ho.
          rewrite upd_middle; [reflexivity|]. rewrite <- Ho. exact Hnd.
        * constructor; proj; auto.
          -- apply (update_preserves S _ _ (slots s)); auto.
             ++ apply set_nth_length.
             ++ intros i'. destruct (Nat.eq_dec i i') as [<-|Hne].
                ** rewrite getk_set_nth_eq by (rewrite Hlen; exact Hi). unfold getk. now rewrite En.
                ** now rewrite getk_set_nth_neq.
          -- rewrite Ho'. rewrite Hnum, Ho. rewrite !app_length. reflexivity.
      + (* absent: inserted at the first empty slot of its probe sequence *)
        destruct (find_absent S _ _ (tprobe_lt _) (tprobe_inj _) (slots s) h Hpi) as (j & Hj & Hfind & Hnone & Hbusy).
        { destruct (exists_empty S (slots s) Hfew) as (x & Hx & Hn). exists x. rewrite <- Hlen. auto. }
        { apply absent_slots; auto. }
        unfold tfind. rewrite Hfind. unfold insert. proj.
        set (i := tprobe (lg_cur s) h j) in *. set (e := (h, f None)).
        assert (Hi : (i < length (slots s))%nat) by (rewrite Hlen; apply tprobe_lt).
        pose proof (occupied_set_nth_empty S i e (slots s) Hi Hnone) as Hocc1.
        pose proof (insert_preserves S _ _ (tprobe_lt _) (slots s) h (f None) j Hpi Hj Hnone Hbusy) as Hpi1.
        fold i in Hpi1. fold e in Hpi1.
        set (t1 := set_nth i (Some e) (slots s)) in *.
        assert (Hlen1 : length (occupied t1) = Datatypes.S (length (occupied (slots s)))) by (rewrite (Permutation_length Hocc1); reflexivity).
        assert (Hnd1 : NoDup (map fst (occupied t1))).
        { eapply Permutation_NoDup; [symmetry; apply Permutation_map, Hocc1|]. simpl. constructor; auto. }
        assert (Hn1 : N.of_nat (length (occupied t1)) = num s + 1) by (rewrite Hlen1, Hnum; lia).
        rewrite Hlgn.
        destruct (N.ltb_spec (capacity (lg_cur s) lgn) (num s + 1)) as [Ecap|Ecap];
          [destruct (N.leb_spec (lg_cur s) lgn) as [Elg|Elg]|].
        * (* over the resize threshold below the nominal size: resize *)
          unfold resize. cbn [lg_cur lg_nom rf theta0 theta is_empty num slots]. rewrite Hrf.
          destruct (resize_ok lgn r lgn_ge (lg_cur s) Hlg Elg) as [Hlg' Hcap'].
          set (lg' := N.min (lg_cur s + r) (lgn + 1)) in *.
          assert (H5' : 5 <= lg') by (destruct Hlg' as [[? _] _]; auto).
          pose proof (cap_lt_size lgn lgn_ge lg' H5') as Hsz'.
          destruct (trehash_spec S lg' (occupied t1) Hnd1) as [Hpi' Hocc'].
          { unfold tsize. lia. }
          split.
          -- apply (AS_insert_resize S lgn r th0 (mkA (lg_cur s) (theta s) (is_empty s) (occupied (slots s))) h64 f h
                      (occupied (trehash S lg' (occupied t1)))); auto.
             ++ eapply perm_trans; eauto.
             ++ cbn [a_lgc]. unfold alen. rewrite (Permutation_length Hocc'). lia.
          -- constructor; cbn [lg_cur lg_nom rf theta0 theta is_empty num slots]; auto.
             ++ unfold entries. cbn [slots]. rewrite (Permutation_length Hocc'). lia.
             ++ lia.
        * (* over the rebuild threshold in the full-size table: rebuild *)
          set (s1 := {| lg_cur := lg_cur s; lg_nom := lgn; rf := rf s; theta0 := theta0 s; theta := theta s;
                        is_empty := false; num := num s + 1; slots := t1 |}).
          assert (Hfull : lg_cur s = lgn + 1) by (destruct Hlg as [[_ ?] _]; lia).
          destruct (cap_full lgn lgn_ge) as [Hcapk _].
          destruct (refine_rebuild S sel sel_ok lgn r th0 lgn_ge s1) as (Hrb & HT' & Hlgc' & Hemp'); auto.
          { unfold s1. cbn [num]. rewrite Hfull in Ecap. lia. }
          cbv zeta in Hrb, HT', Hlgc', Hemp'. split; [|exact HT'].
          unfold ThetaProofs.abs. rewrite Hlgc', Hemp'. unfold s1 at 1 2. cbn [lg_cur is_empty].
          apply (AS_insert_rebuild S lgn r th0 (mkA (lg_cur s) (theta s) (is_empty s) (occupied (slots s))) h64 f h
                   (occupied t1)); auto.
          -- cbn [a_lgc]. unfold alen. lia.
          -- unfold alen, kN. rewrite Hfull in Ecap. lia.
        * (* fits *)
          split.
          -- apply (AS_insert_fits S lgn r th0 (mkA (lg_cur s) (theta s) (is_empty s) (occupied (slots s))) h64 f h
                      (occupied t1)); auto.
             cbn [a_lgc]. unfold alen. lia.
          -- constructor; cbn [lg_cur lg_nom rf theta0 theta is_empty num slots]; auto.
  Qed.

  Lemma refine_trim s : TInv s -> NoDup (keys S s) ->
    a_step S lgn r th0 (abs s) OpTrim (abs (trim S sel s)) /\ TInv (trim S sel s).
  Proof.
    intros HT Hnd. pose proof HT as [Hlgn Hrf Hth0 Hpi Hnum Hcap Hlg]. unfold trim. rewrite Hlgn.
    destruct (N.ltb_spec (2 ^ lgn) (num s)) as [Hk|Hk].
    - assert (Hfull : lg_cur s = lgn + 1).
      { destruct Hlg as [[_ Hle] _]. destruct (N.leb_spec (lg_cur s) lgn) as [Hs|Hs]; [|lia].
        pose proof (cap_small_lt_k lgn lgn_ge (lg_cur s) Hs). lia. }
      destruct (refine_rebuild S sel sel_ok lgn r th0 lgn_ge s) as (Hrb & HT' & Hlgc' & Hemp'); auto.
      cbv zeta in Hrb, HT', Hlgc', Hemp'. split; [|exact HT'].
      unfold ThetaProofs.abs. rewrite Hlgc', Hemp'.
      apply (AS_trim_rebuild S lgn r th0 (mkA (lg_cur s) (theta s) (is_empty s) (entries S s))); auto.
      cbn [a_ents]. unfold alen, kN. lia.
    - split; auto. apply AS_trim_keep. unfold ThetaProofs.abs. cbn [a_ents]. unfold alen, kN. lia.
  Qed.

  (* one step of L2 is a step of L1 between the abstractions, and keeps the table invariant *)
  Theorem refine_step s o : TInv s -> NoDup (keys S s) ->
    a_step S lgn r th0 (abs s) o (abs (step_op S sel s o)) /\ TInv (step_op S sel s o).
  Proof.
    intros HT Hnd. destruct o as [h64 f| |]; simpl.
    - apply refine_update; auto.
    - apply refine_trim; auto.
    - pose proof HT as [Hlgn Hrf Hth0 _ _ _ _]. unfold reset. rewrite Hlgn, Hrf, Hth0.
      destruct (tinv_new S lgn r th0 lgn_ge) as [HT' Habs]. rewrite Habs. split; auto. apply AS_reset.
  Qed.

  (* every history: the L2 run is an L1 history, with the table invariant *)
  Theorem run_refines ops : let s := run_ops S sel lgn r th0 ops in
    a_reach S lgn r th0 ops (abs s) /\ TInv s.
  Proof.
    induction ops as [|o ops IH] using rev_ind; simpl.
    - destruct (tinv_new S lgn r th0 lgn_ge) as [HT Habs]. unfold run_ops. simpl. rewrite Habs. split; auto. constructor.
    - unfold run_ops in *. rewrite fold_left_app. simpl. destruct IH as [Hr HT].
      set (s := fold_left (step_op S sel) ops (new_sketch S lgn r th0)) in *.
      assert (Hnd : NoDup (keys S s)) by (apply (ai_nodup S lgn th0 _ _ (a_reach_inv S lgn r th0 ops _ Hr))).
      destruct (refine_step s o HT Hnd) as [Hst HT']. split; auto. econstructor; eauto.
  Qed.
End Refine.
