(* Properties_C09_hll.v — hll_sketch serialization round trip (C09), about the executable codec model HllCodecDefs.v
   ([enc] = serialize_compact / serialize_updatable, [dec_stream] / [dec_bytes] = the two readers as repaired by
   fixes/11_hll_reader_bounds.patch) and the sketch model HllDefs.v that is run against the C++.
   Quantification: every lg_k 4..21, target type, start_full_size, every coupon sequence (states reached by [sk_run]), both image
   forms, both readers, any bytes [rest] following the image, any hipAccum pattern (read from the object).
   "Observationally identical" is stated in the strongest available form: the restored sketch satisfies the SAME representation
   invariant [skinv] for the SAME coupon history, hence has the same content, mode, estimator inputs, and keeps behaving like the
   original under any further updates ([C09_hll_restored_continues]).  Where the image stores the state verbatim (list; updatable set;
   HLL_6 / HLL_8) the restored state is EQUAL to the original and re-serializes to the same bytes; where the reader re-hashes
   (compact set, HLL_4 aux map) the content is equal and the physical order of table entries is unspecified.
   NOT modelled: hipAccum arithmetic (its bit pattern is carried through), header form serialize_compact(n) and the stream position
   of the C++ (checked on the implementation by the harness on every case). *)
From Coq Require Import ZArith NArith List Bool Lia.
From DS Require Import Word RunnerLib HllDefs HllProofs HllSketchProofs HllCodecDefs HllCodecProofs.
Import ListNotations.
Local Open Scope N_scope.

(* deserialize(serialize(s)) through either reader (stream = true / false), with bytes following the image: accepted, the
   stream reader consumes exactly the image, content / mode / invariant / doubles restored; exact state where stored verbatim *)
Theorem C09_hll_roundtrip : forall ty lgk full cs i stream compact hip rest,
  4 <= lgk -> lgk <= 21 -> Forall cvalid cs -> sk_run ty lgk full cs = Some i -> hip < two64 ->
  exists d rest', dec_gen stream (enc compact hip i ++ rest) = Some (d, rest') /\ (stream = true -> rest' = rest) /\
    sk_content (d_impl d) = sk_content i /\ sk_mode (d_impl d) = sk_mode i /\
    skinv lgk ty full (d_impl d) cs /\ flags_ok (d_impl d) /\
    (sk_mode i = 2 -> d_hip d = hip /\ d_k0 d = k0_of i /\ d_k1 d = k1_of i) /\
    (exactly_stored compact i -> d_impl d = i /\ enc compact hip (d_impl d) = enc compact hip i).
Proof. exact run_roundtrip. Qed.

(* the restored sketch remains fully functional: continuing with any coupons gives the content of the whole stream *)
Theorem C09_hll_restored_continues : forall ty lgk full cs i stream compact hip rest cs2,
  4 <= lgk -> lgk <= 21 -> Forall cvalid cs -> Forall cvalid cs2 -> sk_run ty lgk full cs = Some i -> hip < two64 ->
  exists d rest' i2, dec_gen stream (enc compact hip i ++ rest) = Some (d, rest') /\
    sk_updates (d_impl d) cs2 = Some i2 /\ sk_content i2 = content_spec lgk full (cs ++ cs2) /\
    sk_mode i2 = mode_of lgk full (ndistinct (cs ++ cs2)).
Proof. exact run_roundtrip_continue. Qed.

(* the image has exactly the advertised size (get_compact_serialization_bytes / get_updatable_serialization_bytes) *)
Theorem C09_hll_image_size : forall ty lgk full cs i compact hip,
  4 <= lgk -> lgk <= 21 -> Forall cvalid cs -> sk_run ty lgk full cs = Some i -> lenN (enc compact hip i) = enc_size compact i.
Proof. exact run_enc_size. Qed.

(* the same for ANY state satisfying the representation invariant (e.g. converted copies, restored sketches) *)
Theorem C09_hll_roundtrip_invariant : forall lgk ty full i C stream compact hip rest,
  4 <= lgk -> lgk <= 21 -> Forall cvalid C -> skinv lgk ty full i C -> flags_ok i -> hip < two64 ->
  exists d rest', dec_gen stream (enc compact hip i ++ rest) = Some (d, rest') /\ (stream = true -> rest' = rest) /\
    skinv lgk ty full (d_impl d) C /\ flags_ok (d_impl d) /\
    (sk_mode i = 2 -> d_hip d = hip /\ d_k0 d = k0_of i /\ d_k1 d = k1_of i) /\
    ((sk_mode i = 0 \/ (sk_mode i = 1 /\ compact = false) \/ (sk_mode i = 2 /\ sk_ty i <> T4)) -> d_impl d = i).
Proof. exact codec_roundtrip. Qed.

(* the kxq doubles are written and read back exactly *)
Theorem C09_hll_kxq_exact : forall e K, (0 <= K < 2 ^ 53)%Z -> (e = 31 \/ e = 63)%Z -> kunbits e (kbits e K) = Some K /\ kbits e K < two64.
Proof. exact kxq_pattern_exact. Qed.

(* non-vacuity: HLL_4 at lg_k 4 with a cur-min shift and an aux exception, set mode at lg_k 10 *)
Example C09_hll_nonvacuous :
  let cs := map (fun s => pair_sv s 1) (seqN 16) ++ [pair_sv 3 20; pair_sv 5 2] in
  let cs2 := map (fun s => pair_sv (s * 37 + 5) (1 + s mod 7)) (seqN 30) in
  match sk_run T4 4 false cs, sk_run T6 10 false cs2 with
  | Some i, Some j =>
      sk_mode i = 2 /\ sk_mode j = 1 /\
      lenN (enc true 4607182418800017408 i) = 40 + 8 + 4 /\ lenN (enc false 0 i) = 40 + 8 + 16 /\
      match dec_bytes (enc true 4607182418800017408 i), dec_stream (enc false 7 i ++ [1; 2; 3]), dec_stream (enc true 0 j) with
      | Some d1, Some (d2, r2), Some (d3, r3) =>
          sk_content (d_impl d1) = sk_content i /\ d_hip d1 = 4607182418800017408 /\ r2 = [1; 2; 3] /\ d_hip d2 = 7 /\
          sk_content (d_impl d3) = sk_content j /\ r3 = [] /\ dec_stream (firstn 51 (enc true 0 i)) = None
      | _, _, _ => False
      end
  | _, _ => False
  end.
Proof. vm_compute. repeat split; reflexivity. Qed.

Print Assumptions C09_hll_roundtrip.
Print Assumptions C09_hll_restored_continues.
Print Assumptions C09_hll_image_size.
Print Assumptions C09_hll_roundtrip_invariant.
Print Assumptions C09_hll_kxq_exact.
