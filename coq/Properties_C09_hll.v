(* Properties_C09_hll.v — placeholder while the codec pipeline is brought up (replaced by the theorems). *)
From DS Require Import HllCodecDefs.
