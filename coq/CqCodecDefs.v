(* CqCodecDefs.v — executable model of the serialization of the classic quantiles sketch (quantiles_sketch::serialize,
   both deserialize readers and check_header_validity in quantiles/include/quantiles_sketch_impl.hpp, with the arithmetic
   serde of common/include/serde.hpp); no proofs here.
   Layout (little endian), as documented in quantiles_sketch.hpp and as the reader checks it:
     byte 0 preamble_longs   byte 1 serial version   byte 2 family (8)
     byte 3 flags (bit 2 empty, bit 3 compact, bit 4 base buffer sorted)   bytes 4-5 k   bytes 6-7 unused
     not empty: bytes 8-15 n, then min item, max item, [serial version 1 only: one unused long], the base buffer
                (n mod 2k items; a non-compact image of a sketch in estimation mode carries 2k slots), then k items for
                every set bit of n / 2k, lowest level first.
   What serialize() writes: serial version 3, preamble_longs 1 (empty) / 2, flags compact | sorted (| empty), the base
   buffer sorted (side effect on the sketch).
   What deserialize accepts (check_header_validity, computed in a uint8_t):
     (compact + 2 empty + 4 (ser_ver & 0xF) + 32 (preamble_longs & 0x3F)) mod 256 in {38,164,42,72,47,46,79,78,77,76}.
   One decoder for both readers: it returns the sketch and the unread rest (the stream reader leaves it in the stream, the
   byte reader ignores it).  The decoder describes the byte reader AS REPAIRED by fixes/11_cq_v1_unused_long.patch (the
   unused long of a version-1 image is read only if 8 bytes remain); the behaviour before is kept in Regression_cqcodec.v.
   Items: kind 0 = int64 (two's complement), kind 1 = double holding an integer of magnitude < 2^53 (IEEE-754 binary64
   pattern computed in integer arithmetic), kind 3 = int64 under a descending comparator instance (item v stored as -v).
   Strings are not modelled. *)
From Coq Require Import ZArith List Bool Lia.
From DS Require Import RunnerLib SortedView CqDefs.
Import ListNotations.
Local Open Scope Z_scope.

(* ---------- little endian ---------- *)
Fixpoint le (n : nat) (x : Z) : list Z :=
  match n with
  | O => []
  | S n' => (x mod 256) :: le n' (x / 256)
  end.
Fixpoint from_le (bs : list Z) : Z :=
  match bs with
  | [] => 0
  | b :: r => b + 256 * from_le r
  end.

(* ---------- items (same definitions as KllCodecDefs.v) ---------- *)
Definition enc_i64 (v : Z) : list Z := le 8 v.                                     (* two's complement: v mod 2^64 *)
Definition dec_i64 (bs : list Z) : Z := let u := from_le bs in if u <? 2 ^ 63 then u else u - 2 ^ 64.

(* IEEE-754 binary64 pattern of the integer v, |v| < 2^53 *)
Definition dbl_bits (v : Z) : Z :=
  if v =? 0 then 0 else
  let a := Z.abs v in
  let e := Z.log2 a in
  (if v <? 0 then 2 ^ 63 else 0) + (e + 1023) * 2 ^ 52 + (a * 2 ^ (52 - e) - 2 ^ 52).

(* the integer a binary64 pattern denotes; None when it is not an integer of magnitude < 2^53 (or is -0.0, NaN, inf) *)
Definition dbl_int (u : Z) : option Z :=
  if u =? 0 then Some 0 else
  let sgn := u / 2 ^ 63 in
  let be := (u mod 2 ^ 63) / 2 ^ 52 in
  let man := u mod 2 ^ 52 in
  let e := be - 1023 in
  if (e <? 0) || (52 <? e) then None else
  let full := 2 ^ 52 + man in
  if full mod 2 ^ (52 - e) =? 0 then Some ((if sgn =? 0 then 1 else -1) * (full / 2 ^ (52 - e))) else None.

(* kind 3: quantiles_sketch<int64_t, DirCmp> with the descending comparator instance: item v is stored as -v *)
Definition item_enc (kind v : Z) : list Z :=
  if kind =? 1 then le 8 (dbl_bits v) else if kind =? 3 then enc_i64 (- v) else enc_i64 v.
Definition item_dec (kind : Z) (bs : list Z) : option Z :=
  if kind =? 1 then dbl_int (from_le bs) else if kind =? 3 then Some (- dec_i64 bs) else Some (dec_i64 bs).

(* ---------- encoder: serialize() ---------- *)
Definition flags_of (s : cq) : Z := (if cn s =? 0 then 4 else 0) + 8 + 16.

Definition cq_enc (kind : Z) (s : cq) : list Z :=
  [if cn s =? 0 then 1 else 2; 3; 8; flags_of s] ++ le 2 (ck s) ++ [0; 0] ++
  (if cn s =? 0 then [] else
   le 8 (cn s) ++ item_enc kind (cmin s) ++ item_enc kind (cmax s) ++
   flat_map (item_enc kind) (isort (cbb s)) ++ flat_map (item_enc kind) (concat (clv s))).

(* serialize(header_size_bytes) *)
Definition cq_enc_header (h : nat) (kind : Z) (s : cq) : list Z := repeat 0 h ++ cq_enc kind s.

(* get_serialized_size_bytes() for arithmetic items *)
Definition serialized_size (s : cq) : Z :=
  if cn s =? 0 then 8 else 16 + (compute_retained_items (ck s) (cn s) + 2) * 8.

(* the side effect of serialize() on the sketch: base buffer sorted *)
Definition ser_state (s : cq) : cq := mkcq (ck s) (cn s) (cbp s) (isort (cbb s)) (clv s) (cmin s) (cmax s) true.

(* ---------- decoder: deserialize(bytes, size) and deserialize(istream) ---------- *)
Definition take (n : nat) (bs : list Z) : option (list Z * list Z) :=
  if (n <=? length bs)%nat then Some (firstn n bs, skipn n bs) else None.

Fixpoint take_items (kind : Z) (n : nat) (bs : list Z) : option (list Z * list Z) :=
  match n with
  | O => Some ([], bs)
  | S n' =>
      match take 8 bs with
      | Some (b, r) =>
          match item_dec kind b, take_items kind n' r with
          | Some v, Some (vs, r') => Some (v :: vs, r')
          | _, _ => None
          end
      | None => None
      end
  end.

Definition bit (flags : Z) (i : Z) : bool := Z.testbit flags i.

(* check_header_validity: the switch value is a uint8_t *)
Definition header_sw (pre flags sv : Z) : Z :=
  ((if bit flags 3 then 1 else 0) + 2 * (if bit flags 2 then 1 else 0) + 4 * Z.land sv 15 + 32 * Z.land pre 63) mod 256.
Definition header_valid (pre flags sv : Z) : bool :=
  existsb (Z.eqb (header_sw pre flags sv)) [38; 164; 42; 72; 47; 46; 79; 78; 77; 76].

(* for (i = 0; i < levels_needed; ++i, working_pattern >>= 1): k items for a set bit, an empty level otherwise *)
Fixpoint read_levels (kind : Z) (k : nat) (nl : nat) (pat : Z) (bs : list Z) : option (list (list Z) * list Z) :=
  match nl with
  | O => Some ([], bs)
  | S n' =>
      if Z.odd pat then
        match take_items kind k bs with
        | Some (l, r) =>
            match read_levels kind k n' (pat / 2) r with
            | Some (ls, r') => Some (l :: ls, r')
            | None => None
            end
        | None => None
        end
      else
        match read_levels kind k n' (pat / 2) bs with
        | Some (ls, r') => Some ([] :: ls, r')
        | None => None
        end
  end.

Definition cq_dec (kind : Z) (bytes : list Z) : option (cq * list Z) :=
  match bytes with
  | pre :: sv :: fam :: flags :: k0 :: k1 :: _ :: _ :: rest =>
      let k := k0 + 256 * k1 in
      if negb (check_k k) then None else                                             (* check_k *)
      if negb ((sv =? 1) || (sv =? 2) || (sv =? 3)) then None else                   (* check_serial_version *)
      if negb (fam =? 8) then None else                                              (* check_family_id *)
      if negb (header_valid pre flags sv) then None else                             (* check_header_validity *)
      if bit flags 2 then Some (cq_new k, rest) else                                 (* empty: quantiles_sketch(k) *)
      match take 8 rest with                                                         (* ensure_minimum_memory(size, 16) *)
      | None => None
      | Some (bn, r1) =>
          let n := from_le bn in
          let compact := (sv =? 2) || bit flags 3 in
          let sorted := bit flags 4 in
          match take_items kind 2 r1 with
          | Some ([lo; hi], r2) =>
              match (if sv =? 1 then take 8 r2 else Some ([], r2)) with              (* version 1: one unused long *)
              | None => None
              | Some (_, r3) =>
                  let nl := levels_needed k n in
                  let bp := n / (2 * k) in
                  let bbn := n mod (2 * k) in
                  let extra := if (nl =? 0)%nat || compact then 0 else 2 * k - bbn in
                  match take_items kind (Z.to_nat bbn) r3 with
                  | None => None
                  | Some (bb, r4) =>
                      match take (8 * Z.to_nat extra) r4 with                        (* read, not stored *)
                      | None => None
                      | Some (_, r5) =>
                          match read_levels kind (Z.to_nat k) nl bp r5 with
                          | None => None
                          | Some (lv, r6) => Some (mkcq k n bp bb lv lo hi sorted, r6)
                          end
                      end
                  end
              end
          | _ => None
          end
      end
  | _ => None                                                                        (* fewer than 8 bytes *)
  end.

(* an image written from the documented layout in any of the forms the reader accepts: serial version sv with its
   preamble_longs, flags byte fl (empty bit clear), the unused long of version 1, the base buffer as stored followed by
   pad bytes (the unused slots of a non-compact image), then the full levels.  Used for C10. *)
Definition pre_of (sv : Z) : Z := if sv =? 1 then 5 else 2.
Definition cq_enc_doc (kind sv fl : Z) (unused pad : list Z) (s : cq) : list Z :=
  [pre_of sv; sv; 8; fl] ++ le 2 (ck s) ++ [0; 0] ++ le 8 (cn s) ++ item_enc kind (cmin s) ++ item_enc kind (cmax s) ++
  (if sv =? 1 then unused else []) ++
  flat_map (item_enc kind) (cbb s) ++ pad ++ flat_map (item_enc kind) (concat (clv s)).

(* ---------- line protocol: the operations of CqDefs plus the codec operations ---------- *)
(*   20 r           : R = serialize(r) (bytes); the base buffer of r is sorted as a side effect
     21 r r2        : r := deserialize(serialize(r2))  (r keeps r2's ghost log; R = 1, or -1 when the decoder refuses)
     22 r kind bytes: r := deserialize(bytes) as a sketch of item kind [kind]; ghost log empty; S = bytes consumed *)
Definition codec_kind (kind : Z) : bool := (kind =? 0) || (kind =? 1) || (kind =? 3).

Definition cstep (s : st) (o e : line) : st * outline :=
  match o with
  | 20 :: r :: _ =>
      match reg_get s r with
      | Some g => if codec_kind (r_kind g)
                  then (with_sk s r g (ser_state (r_sk g)), (cq_enc (r_kind g) (r_sk g), []))
                  else (s, (refused, []))
      | None => (s, (refused, []))
      end
  | 21 :: r :: r2 :: _ =>
      match reg_get s r2 with
      | Some g =>
          if codec_kind (r_kind g) then
            let s1 := with_sk s r2 g (ser_state (r_sk g)) in
            match cq_dec (r_kind g) (cq_enc (r_kind g) (r_sk g)) with
            | Some (sk, _) => (reg_set s1 r (mkreg (r_kind g) sk (r_log g)), (ok, []))
            | None => (s1, (refused, []))
            end
          else (s, (refused, []))
      | None => (s, (refused, []))
      end
  | 22 :: r :: kind :: bytes =>
      if codec_kind kind then
        match cq_dec kind bytes with
        | Some (sk, rest) => (reg_set s r (mkreg kind sk []), (ok, [len bytes - len rest]))
        | None => (s, (refused, []))
        end
      else (s, (refused, []))
  | _ => step s o e
  end.

Fixpoint crun_acc (s : st) (ops : list opline) (acc : list outline) : list outline :=
  match ops with
  | [] => rev_append acc []
  | (o, e) :: r => let '(s', out) := cstep s o e in crun_acc s' r (out :: acc)
  end.

Definition crun (ops : list opline) : list outline := crun_acc [] ops [].
