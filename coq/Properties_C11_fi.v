(* Properties_C11_fi.v — truncated or corrupted frequent-items images: every strict prefix of an image is rejected by both
   readers; the reader is a total function on ARBITRARY bytes; what it accepts was inside the supplied bytes (bytes consumed,
   declared number of counters, their weights), with the one documented exception of the hash table itself, which is sized by the
   lg_cur byte (by design; recorded under the serde family).  Only statements; proofs in FiCodecProofs.v.  The model is
   FiCodecDefs.v: deserialize(bytes) as coded and deserialize(istream) as REPAIRED by fixes/11_fi_stream_reader_checks.patch (both
   have the same verdict and content: fi_dec_bytes / fi_dec_stream are the projections of fi_dec).
   Old behaviour (before the patch), not a theorem because it is undefined behaviour of the C++: deserialize(istream) tested the
   stream state only at the very end, so a stream that ended inside the preamble or the counts made it size the hash map from a
   never-read lg_cur and the weights vector from a never-read count (replay: the 8 bytes 04 01 0a 03 03 00 00 00 as a stream). *)
From Coq Require Import ZArith NArith List Bool Lia.
From DS Require Import Word Murmur3 RunnerLib FiDefs FiRefine FiSerProofs FiCodecDefs FiCodecProofs.
Import ListNotations.
Local Open Scope Z_scope.

(* every strict prefix of the image of a sketch whose fields fit the image is rejected, by both readers *)
Theorem C11_fi_prefix_rejected : forall kind (s : sk), SerOk kind s -> forall n, (n < length (fi_enc kind s))%nat ->
  fi_dec_bytes kind (firstn n (fi_enc kind s)) = None /\ fi_dec_stream kind (firstn n (fi_enc kind s)) = None.
Proof.
  intros kind s Ok n Hn. unfold fi_dec_bytes, fi_dec_stream. rewrite (fi_prefix_rejected kind s Ok n Hn). split; reflexivity.
Qed.

(* fewer than 8 bytes are never accepted *)
Theorem C11_fi_short_rejected : forall kind bs, (length bs < 8)%nat -> fi_dec kind bs = None.
Proof. exact fi_dec_short. Qed.

(* ARBITRARY bytes: the reader is total (it is a Coq function: it terminates with a verdict on every input), the two readers
   agree, and the stream reader never consumes more than it was given *)
Theorem C11_fi_total_and_agree : forall kind bs,
  (fi_dec kind bs = None /\ fi_dec_bytes kind bs = None) \/
  (exists s used, fi_dec_stream kind bs = Some (s, used) /\ fi_dec_bytes kind bs = Some s /\ (used <= length bs)%nat).
Proof.
  intros kind bs. unfold fi_dec_bytes, fi_dec_stream. destruct (fi_dec kind bs) as [[s used]|] eqn:E; [right|left; auto].
  exists s, used. repeat split; auto. exact (proj1 (fi_dec_content_bounded kind bs s used E)).
Qed.

(* ARBITRARY bytes with the empty flags clear: the four preamble longs, and the declared number n of counters with their 8 n
   weight bytes, were inside the supplied bytes — the count is tested against the remaining length before it is used *)
Theorem C11_fi_content_bounded : forall kind bs (s : sk) used, fi_dec kind bs = Some (s, used) ->
  (used <= length bs)%nat /\
  (Z.land (nth 5 bs 0) 5 = 0 ->
     (32 <= used)%nat /\ 32 + 8 * le_dec (firstn 4 (skipn 8 bs)) <= Z.of_nat used).
Proof. exact fi_dec_content_bounded. Qed.

(* an accepted image has serial version 1, family 10, the preamble size that matches its flags, and 3 <= lg_cur <= lg_max *)
Theorem C11_fi_accepts_header : forall kind pl sv fam lgmax lgcur flags u6 u7 rest s used,
  fi_dec kind (pl :: sv :: fam :: lgmax :: lgcur :: flags :: u6 :: u7 :: rest) = Some (s, used) ->
  sv = 1 /\ fam = 10 /\ 3 <= lgcur <= lgmax /\ pl = (if Z.land flags 5 =? 0 then 4 else 1).
Proof.
  intros kind pl sv fam lgmax lgcur flags u6 u7 rest s used H. cbn [fi_dec] in H.
  destruct (hdr_ok pl sv fam lgmax lgcur (negb (Z.land flags 5 =? 0))) eqn:E; [|discriminate]. clear H.
  unfold hdr_ok in E. repeat (apply andb_true_iff in E; destruct E as [E ?]).
  apply Z.eqb_eq in E. repeat match goal with H : (_ =? _) = true |- _ => apply Z.eqb_eq in H | H : (_ <=? _) = true |- _ => apply Z.leb_le in H end.
  subst. destruct (Z.land flags 5 =? 0); cbn [negb]; repeat split; auto; lia.
Qed.

(* THE DOCUMENTED EXCEPTION: the hash table is sized by the lg_cur byte alone — 8 bytes, followed by anything or nothing, make both
   readers build 2^lg_cur slots (a sketch that grew keeps its table, so a small image with a large lg_cur is legitimate) *)
Theorem C11_fi_table_sized_by_lg_cur : forall kind lgmax lgcur rest, 3 <= lgcur <= lgmax ->
  fi_dec kind ([1; 1; 10; lgmax; lgcur; 5; 0; 0] ++ rest) = Some (sk_new item (zN lgmax) (zN lgcur), 8%nat) /\
  length (tab _ (sk_map _ (sk_new item (zN lgmax) (zN lgcur)))) = (2 ^ Z.to_nat lgcur)%nat.
Proof. exact fi_table_sized_by_lg_cur. Qed.

(* ---- non-vacuity ---- *)
Definition C11_ex : sk := upd 2 (upd 2 (sk_new item 4 3) [97; 98] 7) [99] 2.
Example C11_ex_ok : SerOk 2 C11_ex.
Proof. apply (s2_ok 2 C11_ex). apply ser_ok_b_sound. vm_compute. reflexivity. Qed.

Example C11_ex_prefixes :
  length (fi_enc 2 C11_ex) = 59%nat /\
  (exists s, fi_dec 2 (fi_enc 2 C11_ex) = Some (s, 59%nat)) /\
  fi_dec 2 (firstn 58 (fi_enc 2 C11_ex)) = None /\ fi_dec 2 (firstn 50 (fi_enc 2 C11_ex)) = None /\
  fi_dec 2 (firstn 47 (fi_enc 2 C11_ex)) = None /\ fi_dec 2 (firstn 32 (fi_enc 2 C11_ex)) = None /\
  fi_dec 2 (firstn 31 (fi_enc 2 C11_ex)) = None /\ fi_dec 2 (firstn 8 (fi_enc 2 C11_ex)) = None /\
  fi_dec 2 (firstn 7 (fi_enc 2 C11_ex)) = None /\ fi_dec 2 [] = None.
Proof. split; [vm_compute; reflexivity|]. split; [eexists; vm_compute; reflexivity|]. vm_compute. repeat split; reflexivity. Qed.

(* corrupted preamble bytes: family 11, serial version 2, preamble longs 1 with the flags clear, lg_cur above lg_max, a count of
   0x7f000002 counters in a 59-byte image (rejected before anything is sized from it), a negative weight for the signed W *)
Example C11_ex_corrupted :
  let img := fi_enc 2 C11_ex in
  fi_dec 2 (upd_nth 2 (fun _ => 11) img) = None /\ fi_dec 2 (upd_nth 1 (fun _ => 2) img) = None /\
  fi_dec 2 (upd_nth 0 (fun _ => 1) img) = None /\ fi_dec 2 (upd_nth 4 (fun _ => 5) img) = None /\
  fi_dec 2 (upd_nth 11 (fun _ => 127) img) = None /\ fi_dec 2 (upd_nth 39 (fun _ => 255) img) = None.
Proof. vm_compute. repeat split; reflexivity. Qed.

(* accepted corruptions decode to a usable sketch: total weight byte changed; count lowered to 1 (one counter, rest ignored) *)
Example C11_ex_accepted :
  let img := fi_enc 2 C11_ex in
  (exists s, fi_dec 2 (upd_nth 16 (fun _ => 200) img) = Some (s, 59%nat) /\ sk_tot _ s = 200) /\
  (exists s u, fi_dec 2 (upd_nth 8 (fun _ => 1) img) = Some (s, u) /\ nact _ (sk_map _ s) = 1 /\ (u <= 59)%nat).
Proof.
  split.
  - eexists. split; vm_compute; reflexivity.
  - eexists. eexists. split; [vm_compute; reflexivity|]. split; [vm_compute; reflexivity|]. apply Nat.leb_le. vm_compute. reflexivity.
Qed.

Print Assumptions C11_fi_prefix_rejected.
Print Assumptions C11_fi_short_rejected.
Print Assumptions C11_fi_total_and_agree.
Print Assumptions C11_fi_content_bounded.
Print Assumptions C11_fi_accepts_header.
Print Assumptions C11_fi_table_sized_by_lg_cur.
