(* KllView.v — the sorted view and the iterator of a KLL sketch (model KllDefs.v) against the levels. *)
From Coq Require Import ZArith List Bool Lia Permutation Sorted.
From DS Require Import RunnerLib SortedView KllDefs KllProofs KllSpace.
Import ListNotations.
Local Open Scope Z_scope.

(* ---------- the comparator std::less<int64_t> is a strict weak order ---------- *)
Lemma zlt_irrefl : forall a, Z.ltb a a = false.
Proof. intro. apply Z.ltb_irrefl. Qed.
Lemma zlt_trans : forall a b c, Z.ltb a b = true -> Z.ltb b c = true -> Z.ltb a c = true.
Proof. intros a b c. rewrite !Z.ltb_lt. lia. Qed.
Lemma zle_trans : forall a b c, Z.ltb b a = false -> Z.ltb c b = false -> Z.ltb c a = false.
Proof. intros a b c. rewrite !Z.ltb_ge. lia. Qed.
Definition zswo : strict_weak Z.ltb := mk_strict_weak Z Z.ltb zlt_irrefl zlt_trans zle_trans.

Notation zsorted_e := (sorted_e Z Z.ltb).
Notation zsorted_t := (sorted_t Z Z.ltb).

Lemma ssorted_sorted_t l : ssorted l <-> zsorted_t l.
Proof.
  unfold sorted_t. split; induction 1; constructor; auto.
  - eapply Forall_impl; [|eassumption]. unfold le. intros b Hb. apply Z.ltb_ge. exact Hb.
  - eapply Forall_impl; [|eassumption]. unfold le. intros b Hb. apply Z.ltb_ge in Hb. exact Hb.
Qed.

(* ---------- the weighted listing of the levels: what a correct iterator yields ---------- *)
Lemma iter_spec_length : forall lv w, len (iter_spec w lv) = retained lv.
Proof.
  induction lv as [|l r IH]; intro w; [reflexivity|].
  cbn [iter_spec]. rewrite len_app, retained_cons, IH. unfold len. now rewrite map_length.
Qed.

Definition sum_weights (l : list (Z * Z)) : Z := fold_right (fun e a => snd e + a) 0 l.

Lemma sum_weights_app a b : sum_weights (a ++ b) = sum_weights a + sum_weights b.
Proof. unfold sum_weights. induction a; simpl; lia. Qed.

Lemma sum_weights_const l w : sum_weights (map (fun x : Z => (x, w)) l) = w * len l.
Proof. induction l as [|x l IH]; [change (len (@nil Z)) with 0; simpl; lia|]. rewrite len_cons. unfold sum_weights in *. simpl. rewrite IH. lia. Qed.

Lemma iter_spec_sum : forall lv w, sum_weights (iter_spec w lv) = wsum w lv.
Proof.
  unfold wsum. induction lv as [|l r IH]; intro w; [reflexivity|].
  cbn [iter_spec Rlv]. rewrite sum_weights_app, sum_weights_const, IH, cnt_true. reflexivity.
Qed.

Lemma iter_spec_in : forall lv w x w', In (x, w') (iter_spec w lv) <->
  exists h, In x (nth h lv []) /\ w' = w * 2 ^ Z.of_nat h.
Proof.
  induction lv as [|l r IH]; intros w x w'; cbn [iter_spec].
  - split; [intros []|]. intros (h & H & _). destruct h; destruct H.
  - rewrite in_app_iff, IH, in_map_iff. split.
    + intros [(y & E & H)|(h & H & E)].
      * inversion E; subst. exists 0%nat. simpl. split; [assumption|lia].
      * exists (S h). simpl nth. split; [assumption|]. rewrite Nat2Z.inj_succ, Z.pow_succ_r by lia. lia.
    + intros ([|h] & H & E).
      * left. exists x. simpl in H. split; [|assumption]. f_equal. simpl in E. lia.
      * right. exists h. simpl in H. split; [assumption|]. rewrite Nat2Z.inj_succ, Z.pow_succ_r in E by lia. lia.
Qed.

Lemma iter_spec_items : forall lv w, map fst (iter_spec w lv) = concat lv.
Proof.
  induction lv as [|l r IH]; intro w; [reflexivity|].
  cbn [iter_spec concat]. rewrite map_app, IH, map_map. simpl. now rewrite map_id.
Qed.

Lemma iter_spec_pos : forall lv w, 0 < w -> Forall (fun e => 0 < snd e) (iter_spec w lv).
Proof.
  induction lv as [|l r IH]; intros w H; cbn [iter_spec]; [constructor|].
  apply Forall_app; split; [|apply IH; lia]. rewrite Forall_map. apply Forall_forall. auto.
Qed.

(* ---------- the iterator of the code (with the repair of begin()) yields exactly the weighted listing ---------- *)
Lemma retained_app a b : retained (a ++ b) = retained a + retained b.
Proof. induction a as [|l a IH]; [simpl; lia|]. simpl app. rewrite !retained_cons, IH. lia. Qed.

Lemma bound_pre pre post : bound (pre ++ post) (length pre) = retained pre.
Proof. unfold bound. rewrite firstn_app, Nat.sub_diag, firstn_all. simpl. now rewrite app_nil_r. Qed.

Lemma bound_pre_S pre l post : bound (pre ++ l :: post) (S (length pre)) = retained pre + len l.
Proof.
  unfold bound. rewrite firstn_app. replace (S (length pre) - length pre)%nat with 1%nat by lia.
  rewrite firstn_all2 by lia. cbn [firstn]. rewrite retained_app, retained_cons. cbn [retained fold_right]. lia.
Qed.

(* inside a level: the items left in it come out with the current weight, then operator++ leaves the level *)
Lemma iter_go_level pre post Y w : forall rem done x lv, lv = pre ++ (done ++ x :: rem) :: post ->
  iter_go ((x :: rem) ++ Y) lv (retained pre + len done) (length pre) w =
  map (fun y => (y, w)) (x :: rem) ++
  iter_go Y lv (retained pre + len (done ++ x :: rem))
          (fst (iter_skip (S (length lv)) lv (length pre) w)) (snd (iter_skip (S (length lv)) lv (length pre) w)).
Proof.
  induction rem as [|y rem IH]; intros done x lv E.
  - assert (B : bound lv (S (length pre)) = retained pre + len (done ++ [x])) by (rewrite E; apply bound_pre_S).
    cbn [app iter_go map]. rewrite B.
    replace (retained pre + len done + 1 =? retained pre + len (done ++ [x])) with true
      by (symmetry; apply Z.eqb_eq; rewrite len_app, len_cons, len_nil; lia).
    destruct (iter_skip (S (length lv)) lv (length pre) w) as [l' w']. cbn [fst snd].
    f_equal. f_equal. rewrite len_app, len_cons, len_nil. lia.
  - assert (B : bound lv (S (length pre)) = retained pre + len (done ++ x :: y :: rem)) by (rewrite E; apply bound_pre_S).
    change ((x :: y :: rem) ++ Y) with (x :: (y :: rem) ++ Y). cbn [iter_go]. rewrite B.
    replace (retained pre + len done + 1 =? retained pre + len (done ++ x :: y :: rem)) with false
      by (symmetry; apply Z.eqb_neq; rewrite len_app, !len_cons; pose proof (len_nonneg rem); lia).
    cbn [map app]. f_equal.
    specialize (IH (done ++ [x]) y lv). rewrite <- app_assoc in IH. specialize (IH E).
    rewrite len_app, len_cons, len_nil in IH. replace (retained pre + len done + 1) with (retained pre + (len done + (1 + 0))) by lia.
    exact IH.
Qed.

(* from the first position of a level, after the empty levels have been skipped *)
Lemma iter_from_spec : forall post pre w fuel lv, lv = pre ++ post -> (length post < fuel)%nat ->
  iter_go (concat post) lv (retained pre) (fst (iter_while fuel lv (length pre) w)) (snd (iter_while fuel lv (length pre) w))
  = iter_spec w post.
Proof.
  induction post as [|l ps IH]; intros pre w fuel lv E F.
  - reflexivity.
  - destruct fuel as [|f]; [lia|]. cbn [iter_while].
    replace (length pre <? length lv)%nat with true
      by (symmetry; apply Nat.ltb_lt; rewrite E, app_length; simpl; lia).
    assert (B1 : bound lv (length pre) = retained pre) by (rewrite E; apply bound_pre).
    assert (B2 : bound lv (S (length pre)) = retained pre + len l) by (rewrite E; apply bound_pre_S).
    rewrite B1, B2. cbn [andb length] in *. clear B1 B2.
    destruct l as [|x rem].
    + replace (retained pre =? retained pre + len (@nil Z)) with true by (symmetry; apply Z.eqb_eq; rewrite len_nil; lia).
      cbn [concat app iter_spec map].
      specialize (IH (pre ++ [[]]) (2 * w) f lv). rewrite <- app_assoc in IH. specialize (IH E ltac:(lia)).
      rewrite app_length, retained_app in IH. cbn [length retained fold_right] in IH. change (len (@nil Z)) with 0 in IH.
      replace (length pre + 1)%nat with (S (length pre)) in IH by lia.
      replace (retained pre + (0 + 0)) with (retained pre) in IH by lia. exact IH.
    + replace (retained pre =? retained pre + len (x :: rem)) with false
        by (symmetry; apply Z.eqb_neq; rewrite len_cons; pose proof (len_nonneg rem); lia).
      cbn [fst snd concat iter_spec].
      pose proof (iter_go_level pre ps (concat ps) w rem [] x lv E) as G.
      rewrite len_nil, Z.add_0_r in G. cbn [app] in G. cbn [app]. rewrite G. f_equal.
      unfold iter_skip.
      specialize (IH (pre ++ [x :: rem]) (2 * w) (S (length lv)) lv). rewrite <- app_assoc in IH.
      specialize (IH E). rewrite app_length, retained_app in IH. cbn [length retained fold_right] in IH.
      replace (length pre + 1)%nat with (S (length pre)) in IH by lia.
      replace (retained pre + (len (x :: rem) + 0)) with (retained pre + len (x :: rem)) in IH by lia.
      apply IH. rewrite E, app_length. simpl. lia.
Qed.

Theorem iterate_is_spec s : iterate s = iter_spec 1 (levels s).
Proof.
  unfold iterate. pose proof (iter_from_spec (levels s) [] 1 (S (length (levels s))) (levels s) eq_refl ltac:(lia)) as H.
  cbn [length retained fold_right] in H. destruct (iter_while (S (length (levels s))) (levels s) 0 1) as [l w]. exact H.
Qed.

(* ---------- the sorted view is a sorted arrangement of the weighted listing ---------- *)
Lemma add_levels_perm : forall lv es w, Permutation (add_levels es w lv) (es ++ iter_spec w lv).
Proof.
  induction lv as [|l r IH]; intros es w; cbn [add_levels iter_spec]; [now rewrite app_nil_r|].
  etransitivity; [apply IH|]. rewrite app_assoc. apply Permutation_app_tail. apply sv_add_perm.
Qed.

Lemma add_levels_sorted : forall lv es w, zsorted_e es -> all_sorted lv -> zsorted_e (add_levels es w lv).
Proof.
  induction lv as [|l r IH]; intros es w He Hl; cbn [add_levels]; auto.
  inversion Hl; subst. apply IH; auto.
  apply (sv_add_sorted Z Z.ltb zswo); auto. now apply ssorted_sorted_t.
Qed.

Definition view_entries (s : kll) : list (entry Z) := add_levels [] 1 (levels s).

Lemma view_entries_perm s : Permutation (view_entries s) (iter_spec 1 (levels s)).
Proof. apply (add_levels_perm (levels s) [] 1). Qed.

Lemma view_entries_sorted s : all_sorted (levels s) -> zsorted_e (view_entries s).
Proof. intro H. apply add_levels_sorted; auto. constructor. Qed.

Lemma sv_total_sum_weights es : sv_total Z es = sum_weights es.
Proof. reflexivity. Qed.

Lemma view_total s : v_total (sorted_view s) = wsum 1 (levels s).
Proof.
  unfold sorted_view, sv_finish. cbn [v_total]. fold (view_entries s).
  rewrite (sv_total_perm Z _ _ (view_entries_perm s)), sv_total_sum_weights. apply iter_spec_sum.
Qed.

Lemma view_weights_pos s : weights_pos Z (view_entries s).
Proof.
  eapply Permutation_Forall; [symmetry; apply view_entries_perm|]. apply iter_spec_pos. lia.
Qed.

Lemma view_weights_nonneg s : weights_nonneg Z (view_entries s).
Proof. eapply Forall_impl; [|apply view_weights_pos]. simpl; intros; lia. Qed.

(* SortedView.wsum of the weighted listing = the estimator over the levels *)
Lemma svwsum_iter_spec p : forall lv w, SortedView.wsum Z p (iter_spec w lv) = Rlv p w lv.
Proof.
  induction lv as [|l r IH]; intro w; [reflexivity|].
  cbn [iter_spec Rlv]. rewrite wsum_app, IH. f_equal.
  induction l as [|x l IHl]; [rewrite cnt_nil; simpl; lia|].
  rewrite cnt_cons. simpl. simpl in IHl. rewrite IHl. destruct (p x); lia.
Qed.

(* the rank numerator the sketch returns is the estimator R: sum over levels of 2^h * #{y in level h | y below x} *)
Theorem view_rank_is_R s x incl : all_sorted (levels s) ->
  rank_num Z Z.ltb (sorted_view s) x incl = Rlv (below Z Z.ltb x incl) 1 (levels s).
Proof.
  intro H. unfold sorted_view. fold (view_entries s).
  rewrite (rank_num_spec Z Z.ltb zswo) by now apply view_entries_sorted.
  rewrite (wsum_perm Z _ _ _ (view_entries_perm s)). apply svwsum_iter_spec.
Qed.

Lemma view_items s : Permutation (map fst (v_entries (sorted_view s))) (concat (levels s)).
Proof.
  unfold sorted_view, sv_finish. cbn [v_entries]. rewrite sv_cum_items. fold (view_entries s).
  rewrite <- (iter_spec_items (levels s) 1). apply Permutation_map, view_entries_perm.
Qed.

(* ---------- a sketch whose level 0 has been sorted ---------- *)
Lemma sorted_all s : Inv s -> l0s s = true -> all_sorted (levels s).
Proof.
  intros I E. destruct (i_sorted s I) as [H1 H2]. pose proof (i_ne s I).
  destruct (levels s) as [|l0 r]; [congruence|]. constructor; auto.
Qed.

Lemma sort_level_zero_flag s : Inv s -> l0s (sort_level_zero s) = true.
Proof.
  intro I. unfold sort_level_zero. destruct (l0s s) eqn:E; auto.
Qed.

(* ---------- two sorted arrangements of the same multiset are equal (std::sort is determined) ---------- *)
Lemma sorted_perm_eq : forall a b, ssorted a -> ssorted b -> Permutation a b -> a = b.
Proof.
  induction a as [|x a IH]; intros b Ha Hb P.
  - apply Permutation_nil in P. now subst.
  - destruct b as [|y b]; [apply Permutation_sym, Permutation_nil in P; discriminate|].
    inversion Ha as [|? ? Ha' Fa]; inversion Hb as [|? ? Hb' Fb]; subst.
    assert (x = y).
    { assert (In x (y :: b)) by (eapply Permutation_in; [exact P|now left]).
      assert (In y (x :: a)) by (eapply Permutation_in; [symmetry; exact P|now left]).
      rewrite Forall_forall in Fa, Fb.
      destruct H as [->|H]; auto. destruct H0 as [->|H0]; auto.
      specialize (Fa _ H0). specialize (Fb _ H). lia. }
    subst y. f_equal. apply IH; auto. eapply Permutation_cons_inv; eauto.
Qed.

(* equal counts under every predicate = same multiset *)
Lemma cnt_eq_perm a b : (forall p, cnt p a = cnt p b) -> Permutation a b.
Proof.
  intro H. apply (Permutation_count_occ Z.eq_dec). intro x.
  specialize (H (fun y => Z.eqb x y)).
  assert (G : forall l, cnt (fun y => Z.eqb x y) l = Z.of_nat (count_occ Z.eq_dec l x)).
  { induction l as [|y l IHl]; [reflexivity|]. rewrite cnt_cons, IHl. simpl.
    destruct (Z.eq_dec y x) as [->|N]; [rewrite Z.eqb_refl; lia|].
    destruct (Z.eqb_spec x y); [congruence|lia]. }
  rewrite !G in H. lia.
Qed.

(* ===================== queries on a reachable sketch ===================== *)
(* get_rank / get_quantile / get_CDF / get_PMF first sort level 0 in place (sort_level_zero), then build the view *)
Definition qstate (s : kll) : kll := sort_level_zero s.
Definition qview (s : kll) : view Z := sorted_view (qstate s).

Lemma qstate_levels s : exists l0', Permutation l0' (hd [] (levels s)) /\
  levels (qstate s) = match levels s with [] => [] | _ :: r => l0' :: r end /\ nn (qstate s) = nn s /\ kk (qstate s) = kk s.
Proof.
  unfold qstate, sort_level_zero. destruct (l0s s).
  - exists (hd [] (levels s)). split; [reflexivity|]. destruct (levels s); auto.
  - cbn [levels nn kk]. destruct (levels s) as [|l0 r]; [exists []; auto|].
    exists (isort l0). split; [apply isort_perm|auto].
Qed.

Lemma qstate_concat_perm s : Permutation (concat (levels (qstate s))) (concat (levels s)).
Proof.
  destruct (qstate_levels s) as (l0' & P & E & _). rewrite E. destruct (levels s) as [|l0 r]; [reflexivity|].
  cbn [concat hd] in *. now apply Permutation_app_tail.
Qed.

Lemma reach_q s log : reach s log -> reach (qstate s) log.
Proof. apply reach_sort. Qed.

Lemma q_all_sorted s log : reach s log -> all_sorted (levels (qstate s)).
Proof.
  intro H. apply reach_q, reach_Rel in H. destruct H as [I _ _ _ _].
  apply sorted_all; auto. unfold qstate, sort_level_zero. destruct (l0s s) eqn:E; auto.
Qed.

Lemma q_entries_sorted s log : reach s log -> zsorted_e (view_entries (qstate s)).
Proof. intro H. eapply view_entries_sorted, q_all_sorted; eauto. Qed.

Lemma qview_total s log : reach s log -> v_total (qview s) = nn s.
Proof.
  intro H. unfold qview. rewrite view_total. pose proof (reach_Rel _ _ (reach_q _ _ H)) as [I _ _ _ _].
  rewrite (i_w _ I). destruct (qstate_levels s) as (_ & _ & _ & E & _). exact E.
Qed.

Lemma view_entries_nonempty s : 0 < wsum 1 (levels s) -> view_entries s <> [].
Proof.
  intros H E. pose proof (view_total s) as T. unfold sorted_view, sv_finish in T. cbn [v_total] in T.
  fold (view_entries s) in T. rewrite E in T. simpl in T. lia.
Qed.

Lemma cnt_compl p l : cnt p l + cnt (fun y => negb (p y)) l = len l.
Proof. induction l as [|x l IH]; [reflexivity|]. rewrite !cnt_cons, len_cons. destruct (p x); simpl; lia. Qed.

(* nothing compacted yet: the single level, once sorted, is the sorted input *)
Lemma exact_levels s log : reach s log -> length (levels s) = 1%nat -> levels (qstate s) = [isort log].
Proof.
  intros H L1. pose proof (q_all_sorted _ _ H) as AS. pose proof (reach_Rel _ _ (reach_q _ _ H)) as [I N _ _ Su].
  destruct (qstate_levels s) as (l0' & P & E & _). rewrite E in *.
  destruct (levels s) as [|l0 [|? ?]]; try discriminate. clear L1.
  pose proof (i_w _ I) as W. rewrite E in W. unfold wsum in W. cbn [Rlv] in W. rewrite cnt_true in W.
  cbn [concat] in Su. rewrite app_nil_r in Su.
  assert (EQ : forall p, cnt p l0' = cnt p log).
  { intro p. pose proof (Su p). pose proof (Su (fun y => negb (p y))).
    pose proof (cnt_compl p l0'). pose proof (cnt_compl p log). lia. }
  f_equal. apply sorted_perm_eq.
  - inversion AS; auto.
  - apply isort_sorted.
  - etransitivity; [apply cnt_eq_perm, EQ|]. symmetry. apply isort_perm.
Qed.

Lemma exact_view s log : reach s log -> length (levels s) = 1%nat ->
  qview s = sv_finish Z (map (fun y => (y, 1)) (isort log)).
Proof.
  intros H L1. unfold qview, sorted_view. rewrite (exact_levels _ _ H L1). cbn [add_levels]. unfold sv_add.
  f_equal. destruct (map (fun x : Z => (x, 1)) (isort log)); reflexivity.
Qed.

(* ===================== statements used by Properties_C07_kll ===================== *)
Section Reachable.
  Variables (s : kll) (log : list Z).
  Hypothesis R : reach s log.

  Lemma P_levels_sorted : (forall h, (1 <= h)%nat -> ssorted (nth h (levels s) [])) /\
                          (l0s s = true -> ssorted (nth 0 (levels s) [])).
  Proof.
    destruct (reach_Rel _ _ R) as [I _ _ _ _]. destruct (i_sorted s I) as [H1 H2]. split.
    - intros h Hh. destruct (levels s) as [|l0 r]; [destruct h; constructor|].
      destruct h as [|h]; [lia|]. simpl in *. unfold all_sorted in H2. rewrite Forall_forall in H2.
      destruct (Nat.lt_ge_cases h (length r)) as [Lt|Ge].
      + apply H2, nth_In, Lt.
      + rewrite nth_overflow by assumption. constructor.
    - destruct (levels s); simpl in *; auto.
  Qed.

  Lemma P_space : cap s = total_capacity (kk s) (length (levels s)) /\ num_retained s <= total_capacity (kk s) (length (levels s)).
  Proof.
    destruct (reach_Rel _ _ R) as [I _ _ _ _]. pose proof (reach_Space _ _ R) as Sp.
    unfold Space in Sp. rewrite <- (i_cap s I). auto.
  Qed.

  (* the iterator of the code: num_retained entries, weight 2^level for the items of each level, weights summing to n *)
  Lemma P_iterator : iterate s = iter_spec 1 (levels s) /\ len (iterate s) = num_retained s /\ sum_weights (iterate s) = nn s /\
    (forall x w, In (x, w) (iterate s) <-> exists h, In x (nth h (levels s) []) /\ w = 2 ^ Z.of_nat h).
  Proof.
    destruct (reach_Rel _ _ R) as [I _ _ _ _]. split; [apply iterate_is_spec|]. rewrite iterate_is_spec.
    split; [apply iter_spec_length|].
    split; [rewrite iter_spec_sum; apply (i_w s I)|].
    intros x w. rewrite iter_spec_in. split; intros (h & A & B); exists h; split; auto; lia.
  Qed.

  Lemma P_view_spec d : zsorted_t (map fst (v_entries (qview s))) /\ v_total (qview s) = nn s /\
    (0 < nn s -> snd (last (v_entries (qview s)) d) = nn s) /\
    Permutation (map fst (v_entries (qview s))) (concat (levels s)).
  Proof.
    split; [|split; [|split]].
    - unfold qview, sorted_view. apply view_sorted. eapply q_entries_sorted; eauto.
    - eapply qview_total; eauto.
    - intro Hn. rewrite <- (qview_total _ _ R). unfold qview, sorted_view. apply view_last_is_total.
      apply view_entries_nonempty. pose proof (reach_Rel _ _ (reach_q _ _ R)) as [I _ _ _ _]. rewrite (i_w _ I).
      destruct (qstate_levels s) as (_ & _ & _ & E & _). lia.
    - etransitivity; [apply view_items|apply qstate_concat_perm].
  Qed.

  Lemma P_rank_monotone x y incl : x <= y -> rank_num Z Z.ltb (qview s) x incl <= rank_num Z Z.ltb (qview s) y incl.
  Proof.
    intro H. unfold qview, sorted_view. apply (rank_monotone Z Z.ltb zswo).
    - eapply q_entries_sorted; eauto.
    - apply view_weights_nonneg.
    - unfold le. apply Z.ltb_ge. lia.
  Qed.

  Lemma P_rank_incl_ge_excl x : rank_num Z Z.ltb (qview s) x false <= rank_num Z Z.ltb (qview s) x true.
  Proof.
    unfold qview, sorted_view. apply (rank_incl_ge_excl Z Z.ltb zswo); [eapply q_entries_sorted; eauto|apply view_weights_nonneg].
  Qed.

  Lemma P_rank_bounds x incl : 0 <= rank_num Z Z.ltb (qview s) x incl <= nn s.
  Proof.
    rewrite <- (qview_total _ _ R). unfold qview, sorted_view.
    apply (rank_bounds Z Z.ltb zswo); [eapply q_entries_sorted; eauto|apply view_weights_nonneg].
  Qed.

  Lemma P_rank_is_estimator x incl :
    rank_num Z Z.ltb (qview s) x incl = Rlv (below Z Z.ltb x incl) 1 (levels s).
  Proof.
    unfold qview. rewrite view_rank_is_R by (eapply q_all_sorted; eauto).
    destruct (qstate_levels s) as (l0' & P & E & _). rewrite E. destruct (levels s) as [|l0 r]; [reflexivity|].
    cbn [Rlv hd] in *. now rewrite (cnt_perm _ _ _ P).
  Qed.

  Lemma P_quantile_monotone w1 w2 incl q1 q2 : w1 <= w2 ->
    quantile_w Z (qview s) w1 incl = Some q1 -> quantile_w Z (qview s) w2 incl = Some q2 -> q1 <= q2.
  Proof.
    intros Hw H1 H2. pose proof (quantile_monotone Z Z.ltb zswo (qview s) w1 w2 incl q1 q2) as H.
    unfold le in H. rewrite Z.ltb_ge in H. apply H; auto.
    unfold qview, sorted_view, sv_finish. cbn [v_entries]. apply (sv_cum_sorted Z Z.ltb). eapply q_entries_sorted; eauto.
  Qed.

  Lemma P_quantile_in_retained w incl q : quantile_w Z (qview s) w incl = Some q -> In q (concat (levels s)).
  Proof.
    intro H. apply quantile_in_view in H. destruct (P_view_spec (0, 0)) as (_ & _ & _ & P).
    eapply Permutation_in; eauto.
  Qed.

  Lemma P_quantile_answers w incl : 0 < nn s -> exists q, quantile_w Z (qview s) w incl = Some q.
  Proof.
    intro Hn. apply quantile_nonempty_answers. unfold qview, sorted_view, sv_finish. cbn [v_entries].
    intro E. apply (f_equal (@length _)) in E. rewrite sv_cum_length in E. simpl in E.
    apply length_zero_iff_nil in E. revert E. apply view_entries_nonempty.
    pose proof (reach_Rel _ _ (reach_q _ _ R)) as [I _ _ _ _]. rewrite (i_w _ I).
    destruct (qstate_levels s) as (_ & _ & _ & E & _). lia.
  Qed.

  Lemma P_cdf sp incl c : cdf_num Z Z.ltb (qview s) sp incl = Some c ->
    c = map (fun x => rank_num Z Z.ltb (qview s) x incl) sp ++ [nn s] /\ StronglySorted Z.le (0 :: c).
  Proof.
    intro H. split.
    - rewrite <- (qview_total _ _ R). now apply cdf_is_rank.
    - unfold qview, sorted_view in *. eapply (cdf_monotone Z Z.ltb zswo); eauto.
      + eapply q_entries_sorted; eauto.
      + apply view_weights_nonneg.
  Qed.

  Lemma P_pmf sp incl p : 0 < nn s -> pmf_num Z Z.ltb (qview s) sp incl = Some p ->
    Forall (fun z => 0 <= z) p /\
    QArith_base.Qeq (fold_right QArith_base.Qplus (QArith_base.inject_Z 0)
       (map (fun z => QArith_base.Qdiv (QArith_base.inject_Z z) (QArith_base.inject_Z (nn s))) p)) (QArith_base.inject_Z 1).
  Proof.
    intros Hn H. split.
    - unfold qview, sorted_view in *. eapply (pmf_nonneg Z Z.ltb zswo); eauto.
      + eapply q_entries_sorted; eauto.
      + apply view_weights_nonneg.
    - rewrite <- (qview_total _ _ R). eapply pmf_sums_to_one; eauto. rewrite (qview_total _ _ R). exact Hn.
  Qed.

  (* exactness while nothing has been compacted *)
  Hypothesis Single : length (levels s) = 1%nat.

  Lemma P_exact_rank x incl : rank_num Z Z.ltb (qview s) x incl = cnt (below Z Z.ltb x incl) log.
  Proof.
    rewrite (exact_view _ _ R Single). rewrite (exact_rank Z Z.ltb zswo).
    - unfold count. fold (len (filter (below Z Z.ltb x incl) (isort log))).
      change (len (filter (below Z Z.ltb x incl) (isort log))) with (cnt (below Z Z.ltb x incl) (isort log)).
      apply cnt_perm, isort_perm.
    - apply ssorted_sorted_t, isort_sorted.
  Qed.

  Lemma P_exact_quantile_incl w d : 1 <= w <= len log ->
    quantile_w Z (qview s) w true = Some (nth (Z.to_nat (w - 1)) (isort log) d).
  Proof.
    intro H. rewrite (exact_view _ _ R Single). apply exact_quantile_incl.
    rewrite (Permutation_length (isort_perm log)). exact H.
  Qed.

  Lemma P_exact_quantile_excl w d : 0 <= w < len log ->
    quantile_w Z (qview s) w false = Some (nth (Z.to_nat w) (isort log) d).
  Proof.
    intro H. rewrite (exact_view _ _ R Single). apply exact_quantile_excl.
    rewrite (Permutation_length (isort_perm log)). exact H.
  Qed.
End Reachable.
