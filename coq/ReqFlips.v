(* ReqFlips.v — the number of coins an operation draws, and the sizes/states/section parameters it leaves behind,
   do not depend on the outcomes of the coins: two executions from states of the same SHAPE (sizes, states_,
   section parameters, counters - not the items, not the stored coins) are in lock-step whatever coins they see. *)
From Coq Require Import ZArith List Bool Lia Permutation Sorted.
From DS Require Import RunnerLib SortedView ReqDefs ReqProofs.
Import ListNotations.
Local Open Scope Z_scope.

(* lock-step simulation of two choice trees: same branching structure, related leaves, for ALL pairs of coins *)
Inductive tsim {A B} (R : A -> B -> Prop) : M A -> M B -> Prop :=
| tsim_ret a b : R a b -> tsim R (Ret a) (Ret b)
| tsim_flip k1 k2 : (forall c1 c2, tsim R (k1 c1) (k2 c2)) -> tsim R (Flip k1) (Flip k2).

Lemma tsim_bind {A B A' B'} (R : A -> B -> Prop) (R' : A' -> B' -> Prop) m1 m2 f1 f2 :
  tsim R m1 m2 -> (forall a b, R a b -> tsim R' (f1 a) (f2 b)) -> tsim R' (bind m1 f1) (bind m2 f2).
Proof. intros H F. induction H; cbn [bind]; [auto|]. constructor. intros c1 c2. auto. Qed.

Lemma tsim_weaken {A B} (R R' : A -> B -> Prop) m1 m2 : (forall a b, R a b -> R' a b) -> tsim R m1 m2 -> tsim R' m1 m2.
Proof. intros W H. induction H; constructor; auto. Qed.

(* leaves of related trees: a leaf of each, with the relation only required on ACTUAL leaves *)
Lemma tsim_bind_leaf {A B A' B'} (R : A -> B -> Prop) (R' : A' -> B' -> Prop) m1 m2 f1 f2 :
  tsim R m1 m2 -> (forall a b, leaf m1 a -> leaf m2 b -> R a b -> tsim R' (f1 a) (f2 b)) -> tsim R' (bind m1 f1) (bind m2 f2).
Proof.
  intros H. revert f1 f2. induction H as [a b Hab|k1 k2 Hk IH]; intros f1 f2 F; cbn [bind].
  - apply F; auto; constructor.
  - constructor. intros c1 c2. apply IH. intros a b La Lb. apply F; econstructor; eauto.
Qed.

(* consequence for one tree related to itself: every path draws the same number of coins and all leaves are related *)
Lemma tsim_paths {A B} (R : A -> B -> Prop) m1 m2 : tsim R m1 m2 ->
  forall cs1 cs2 a r1 b r2, replay m1 cs1 = Some (a, r1) -> replay m2 cs2 = Some (b, r2) ->
  (length cs1 - length r1 = length cs2 - length r2)%nat /\ (length r1 <= length cs1)%nat /\ (length r2 <= length cs2)%nat /\ R a b.
Proof.
  induction 1 as [a0 b0 H0|k1 k2 Hk IH]; intros cs1 cs2 a r1 b r2 H1 H2; cbn [replay] in *.
  - inversion H1; inversion H2; subst. splits; auto; lia.
  - destruct cs1 as [|x1 cs1]; [discriminate|]. destruct cs2 as [|x2 cs2]; [discriminate|].
    destruct (IH _ _ _ _ _ _ _ _ H1 H2) as (E & L1 & L2 & Rab). cbn [length]. splits; auto; lia.
Qed.

(* ---------- shapes ---------- *)
Definition cshape (c : comp) : Z * Z * f32 * Z * Z * Z := (nitems c, cstate c, ssr c, ssz c, nsec c, lgw c).
Definition sshape (s : req) : list (Z * Z * f32 * Z * Z * Z) * Z * Z * Z * Z := (map cshape (comps s), nret s, maxnom s, rn s, rk s).
Definition CS (a b : comp) : Prop := cshape a = cshape b.
Definition SS (a b : req) : Prop := sshape a = sshape b.

Lemma CS_fields a b : CS a b ->
  nitems a = nitems b /\ cstate a = cstate b /\ ssr a = ssr b /\ ssz a = ssz b /\ nsec a = nsec b /\ lgw a = lgw b.
Proof. unfold CS, cshape. intro H. inversion H. splits; auto. Qed.

Lemma CS_intro a b : nitems a = nitems b -> cstate a = cstate b -> ssr a = ssr b -> ssz a = ssz b -> nsec a = nsec b -> lgw a = lgw b -> CS a b.
Proof. unfold CS, cshape. intros. congruence. Qed.

Lemma CS_nom a b : CS a b -> nom_cap a = nom_cap b.
Proof. intro H. destruct (CS_fields a b H) as (_ & _ & _ & E1 & E2 & _). unfold nom_cap. congruence. Qed.

Lemma shapes_sum_nom : forall a b, map cshape a = map cshape b -> sum_nom a = sum_nom b.
Proof.
  induction a as [|x a IH]; intros [|y b] H; try discriminate; [reflexivity|]. cbn [map] in H. inversion H.
  rewrite !sum_nom_cons. rewrite (IH b) by assumption. f_equal. unfold nom_cap. congruence.
Qed.
Lemma shapes_sum_items : forall a b, map cshape a = map cshape b -> sum_items a = sum_items b.
Proof.
  induction a as [|x a IH]; intros [|y b] H; try discriminate; [reflexivity|]. cbn [map] in H. inversion H.
  rewrite !sum_items_cons. rewrite (IH b) by assumption. f_equal. assumption.
Qed.
Lemma shapes_length a b : map cshape a = map cshape b -> length a = length b.
Proof. intro H. rewrite <- (map_length cshape a), <- (map_length cshape b). now rewrite H. Qed.

Lemma shapes_nth a b h : map cshape a = map cshape b -> (h < length a)%nat -> CS (nth h a dummy) (nth h b dummy).
Proof.
  intros H L. unfold CS. rewrite <- !(map_nth cshape). rewrite H. reflexivity.
Qed.

Lemma map_upd_nth {A B} (f : A -> B) (g : A -> A) (g' : B -> B) : (forall x, f (g x) = g' (f x)) ->
  forall n l, map f (upd_nth n g l) = upd_nth n g' (map f l).
Proof. intros H n l. revert n. induction l as [|x l IH]; intros [|n]; simpl; auto; now rewrite ?H, ?IH. Qed.

Lemma shapes_upd a b h x y : map cshape a = map cshape b -> CS x y ->
  map cshape (upd_nth h (fun _ => x) a) = map cshape (upd_nth h (fun _ => y) b).
Proof.
  intros H C. rewrite (map_upd_nth cshape (fun _ => x) (fun _ => cshape x)) by reflexivity.
  rewrite (map_upd_nth cshape (fun _ => y) (fun _ => cshape y)) by reflexivity. unfold CS in C. now rewrite H, C.
Qed.

(* ---------- compactor operations preserve shape equality ---------- *)
Lemma ensure_sections_CS a b : CS a b -> CS (fst (ensure_sections a)) (fst (ensure_sections b)) /\ snd (ensure_sections a) = snd (ensure_sections b).
Proof.
  intro H. destruct (CS_fields a b H) as (E1 & E2 & E3 & E4 & E5 & E6). unfold ensure_sections. rewrite E2, E3, E5.
  destruct ((2 ^ (nsec b - 1) <=? cstate b) && (4 <=? nearest_even (f32_div (ssr b) sqrt2f))); cbn [fst snd]; split; auto;
    try (apply CS_intro; cbn [nitems items cstate ssr ssz nsec lgw]; auto; try congruence; exact E1).
Qed.

Lemma ensure_loop_CS : forall fuel a b, CS a b -> CS (ensure_loop fuel a) (ensure_loop fuel b).
Proof.
  induction fuel as [|f IH]; intros a b H; cbn [ensure_loop]; auto.
  destruct (ensure_sections_CS a b H) as (H1 & H2).
  destruct (ensure_sections a) as [a' ga]. destruct (ensure_sections b) as [b' gb]. cbn [fst snd] in *. subst gb.
  destruct ga; auto.
Qed.

Lemma csort_CS c : CS (csort c) c.
Proof. destruct (csort_spec c) as (_ & _ & _ & F4 & F5 & F6 & F7 & _ & F9 & F10). apply CS_intro; auto. Qed.

Lemma CS_trans a b c : CS a b -> CS b c -> CS a c.
Proof. unfold CS. congruence. Qed.
Lemma CS_sym a b : CS a b -> CS b a.
Proof. unfold CS. congruence. Qed.

Definition merge_pre (c o : comp) : comp :=
  csort (ensure_loop 64 (mkcomp (lgw c) (coin c) (srt c) (ssr c) (ssz c) (nsec c) (Z.lor (cstate c) (cstate o)) (items c))).

Lemma comp_merge_fields h c o :
  cstate (comp_merge h c o) = cstate (merge_pre c o) /\ ssr (comp_merge h c o) = ssr (merge_pre c o) /\
  ssz (comp_merge h c o) = ssz (merge_pre c o) /\ nsec (comp_merge h c o) = nsec (merge_pre c o) /\
  lgw (comp_merge h c o) = lgw (merge_pre c o).
Proof. unfold comp_merge, merge_pre, set_items. cbn [cstate ssr ssz nsec lgw]. splits; reflexivity. Qed.

Lemma comp_merge_CS h1 h2 a b oa ob : par_ok a -> par_ok b -> 0 <= cstate oa -> 0 <= cstate ob ->
  comp_sorted a -> comp_sorted b -> comp_sorted oa -> comp_sorted ob ->
  CS a b -> CS oa ob -> CS (comp_merge h1 a oa) (comp_merge h2 b ob).
Proof.
  intros Pa Pb Soa Sob Sa Sb Ssa Ssb H Ho.
  destruct (comp_merge_spec h1 a oa Pa Soa Sa Ssa) as (M1 & _).
  destruct (comp_merge_spec h2 b ob Pb Sob Sb Ssb) as (N1 & _).
  destruct (CS_fields a b H) as (E1 & E2 & E3 & E4 & E5 & E6). destruct (CS_fields oa ob Ho) as (F1 & F2 & _).
  destruct (comp_merge_fields h1 a oa) as (A1 & A2 & A3 & A4 & A5).
  destruct (comp_merge_fields h2 b ob) as (B1 & B2 & B3 & B4 & B5).
  assert (C3 : CS (merge_pre a oa) (merge_pre b ob)).
  { unfold merge_pre. eapply CS_trans; [apply csort_CS|]. eapply CS_trans; [|apply CS_sym, csort_CS].
    apply ensure_loop_CS. apply CS_intro; unfold nitems in *; cbn [items cstate ssr ssz nsec lgw]; auto; congruence. }
  destruct (CS_fields _ _ C3) as (G1 & G2 & G3 & G4 & G5 & G6).
  apply CS_intro; try congruence.
  unfold nitems in *. rewrite (len_perm _ _ M1), (len_perm _ _ N1), !len_app. lia.
Qed.

(* the result of a compaction, up to shape: shapes of the two compactors, number promoted, capacity growth *)
Definition RR (r1 r2 : (comp * comp) * (Z * Z)) : Prop :=
  CS (fst (fst r1)) (fst (fst r2)) /\ CS (snd (fst r1)) (snd (fst r2)) /\ snd r1 = snd r2.

Lemma compact_with_RR h1 h2 a b na nb c1 c2 : par_ok a -> par_ok b -> nom_cap a <= nitems a -> nom_cap b <= nitems b ->
  ssorted (items a) -> ssorted (items b) -> ssorted (items na) -> ssorted (items nb) ->
  CS a b -> CS na nb -> RR (compact_with h1 a na c1) (compact_with h2 b nb c2).
Proof.
  intros Pa Pb Ca Cb Sa Sb Sna Snb H Hn.
  pose proof (compact_with_spec h1 a na c1 Pa Ca Sa Sna) as [[A1 A2] _ (A3 & A4 & A5 & A6) (A7 & A8 & A9) A10 _ _ _].
  pose proof (compact_with_spec h2 b nb c2 Pb Cb Sb Snb) as [[B1 B2] _ (B3 & B4 & B5 & B6) (B7 & B8 & B9) B10 _ _ _].
  destruct (CS_fields a b H) as (E1 & E2 & E3 & E4 & E5 & E6). destruct (CS_fields na nb Hn) as (F1 & F2 & F3 & F4 & F5 & F6).
  (* the number promoted: half the length of the range, which is nitems - non_compact whatever the mode *)
  destruct (range_lists h1 a Pa Ca) as (_ & La). destruct (range_lists h2 b Pb Cb) as (_ & Lb).
  assert (NUM : len (crange h1 a) = len (crange h2 b)).
  { rewrite La, Lb. unfold comp_range. rewrite E1, E2, E4, E5. unfold nom_cap. rewrite E4, E5.
    destruct h1, h2; cbn [fst snd]; lia. }
  rewrite !compact_with_eq in *. cbv zeta in *. cbn [fst snd] in *.
  set (a1 := mkcomp (lgw a) c1 (srt a) (ssr a) (ssz a) (nsec a) (cstate a + 1) (ckept h1 a)) in *.
  set (b1 := mkcomp (lgw b) c2 (srt b) (ssr b) (ssz b) (nsec b) (cstate b + 1) (ckept h2 b)) in *.
  assert (C1 : CS a1 b1).
  { apply CS_intro; unfold a1, b1, nitems; cbn [items cstate ssr ssz nsec lgw]; auto; try congruence.
    (* kept = nitems - range *)
    destruct (range_lists h1 a Pa Ca) as (I1 & _). destruct (range_lists h2 b Pb Cb) as (I2 & _).
    assert (len (items a) = len (ckept h1 a) + len (crange h1 a)) by (rewrite I1 at 1; destruct h1; rewrite len_app; lia).
    assert (len (items b) = len (ckept h2 b) + len (crange h2 b)) by (rewrite I2 at 1; destruct h2; rewrite len_app; lia).
    unfold nitems in E1. lia. }
  destruct (ensure_sections_CS a1 b1 C1) as (C2 & _).
  unfold RR. cbn [fst snd]. splits; auto.
  - apply CS_intro; unfold set_items; cbn [cstate ssr ssz nsec lgw]; auto.
    unfold set_items in A8, B8. rewrite A8, B8, NUM. lia.
  - rewrite NUM. f_equal. rewrite (CS_nom _ _ C2), (CS_nom a b H). reflexivity.
Qed.

(* ---------- the sketch ---------- *)
Lemma SS_fields a b : SS a b ->
  map cshape (comps a) = map cshape (comps b) /\ nret a = nret b /\ maxnom a = maxnom b /\ rn a = rn b /\ rk a = rk b.
Proof. unfold SS, sshape. intro H. inversion H. splits; auto. Qed.

Lemma SS_intro a b : map cshape (comps a) = map cshape (comps b) -> nret a = nret b -> maxnom a = maxnom b ->
  rn a = rn b -> rk a = rk b -> SS a b.
Proof. unfold SS, sshape. intros. congruence. Qed.

Lemma grow_with_SS a b c1 c2 : SS a b -> SS (grow_with a c1) (grow_with b c2).
Proof.
  intro H. destruct (SS_fields a b H) as (E1 & E2 & E3 & E4 & E5).
  assert (EL : len (comps a) = len (comps b)) by (unfold len; now rewrite (shapes_length _ _ E1)).
  assert (EM : map cshape (comps a ++ [new_comp (len (comps a)) (rk a) c1]) = map cshape (comps b ++ [new_comp (len (comps b)) (rk b) c2])).
  { rewrite !map_app, E1, EL, E5. reflexivity. }
  unfold grow_with. apply SS_intro; cbn [comps nret maxnom rn rk]; auto. now apply shapes_sum_nom.
Qed.

Lemma grow_tsim ic a b : SS a b -> tsim SS (grow ic a) (grow ic b).
Proof.
  intro H. unfold grow. destruct ic.
  - constructor. intros c1 c2. constructor. now apply grow_with_SS.
  - constructor. now apply grow_with_SS.
Qed.

Lemma compact_tsim h1 h2 a b na nb : par_ok a -> par_ok b -> nom_cap a <= nitems a -> nom_cap b <= nitems b ->
  ssorted (items a) -> ssorted (items b) -> ssorted (items na) -> ssorted (items nb) ->
  CS a b -> CS na nb -> tsim RR (compact h1 a na) (compact h2 b nb).
Proof.
  intros Pa Pb Ca Cb Sa Sb Sna Snb H Hn. unfold compact.
  destruct (CS_fields a b H) as (_ & E2 & _). rewrite E2. destruct (Z.odd (cstate b)).
  - constructor. now apply compact_with_RR.
  - constructor. intros c1 c2. constructor. now apply compact_with_RR.
Qed.

Lemma sorted_at s h : Inv s -> (h < length (comps s))%nat -> srt (getc s h) = true -> ssorted (items (getc s h)).
Proof.
  intros I HL S. unfold getc in *. apply (Forall_nth_in comp_sorted (comps s) h dummy (i_srt0 s I) HL). exact S.
Qed.

Lemma srt_above s h : Inv s -> (1 <= h < length (comps s))%nat -> srt (getc s h) = true.
Proof.
  intros [_ NE _ _ _ _ _ S1 _] H. unfold getc. destruct (comps s) as [|c r]; [congruence|]. cbn [tl length] in *.
  destruct h as [|h]; [lia|]. cbn [nth]. apply (Forall_nth_in (fun c => srt c = true) r h dummy S1). lia.
Qed.

Lemma compress_loop_tsim ic : forall fuel h a b, Inv a -> Inv b -> SS a b ->
  tsim SS (compress_loop ic fuel h a) (compress_loop ic fuel h b).
Proof.
  induction fuel as [|f IH]; intros h a b Ia Ib H; cbn [compress_loop]; [now constructor|].
  destruct (SS_fields a b H) as (E1 & E2 & E3 & E4 & E5).
  pose proof (shapes_length _ _ E1) as EL. rewrite <- EL.
  destruct (Nat.ltb_spec h (length (comps a))) as [HL|HL]; [|now constructor].
  assert (Ch : CS (getc a h) (getc b h)) by (apply shapes_nth; auto).
  rewrite <- (CS_nom _ _ Ch). destruct (CS_fields _ _ Ch) as (N1 & _). rewrite <- N1.
  destruct (Z.leb_spec (nom_cap (getc a h)) (nitems (getc a h))) as [CAP|CAP]; [|now apply IH].
  (* sorting level 0 *)
  set (a1 := if (h =? 0)%nat then setc a 0%nat (csort (getc a 0%nat)) else a).
  set (b1 := if (h =? 0)%nat then setc b 0%nat (csort (getc b 0%nat)) else b).
  assert (H1 : Inv a1 /\ Inv b1 /\ SS a1 b1 /\ length (comps a1) = length (comps a) /\
               srt (getc a1 h) = true /\ srt (getc b1 h) = true /\ CS (getc a1 h) (getc a h) /\ CS (getc b1 h) (getc b h)).
  { unfold a1, b1. destruct h as [|h]; cbn [Nat.eqb].
    - destruct (sort0_spec a Ia) as (A1 & A2 & A3 & A4 & A5 & A6 & _).
      destruct (sort0_spec b Ib) as (B1 & B2 & B3 & B4 & B5 & B6 & _).
      assert (X : forall s, Inv s -> map cshape (comps (setc s 0%nat (csort (getc s 0%nat)))) = map cshape (comps s)).
      { intros s [_ NE _ _ _ _ _ _ _]. unfold setc, set_comps, getc; cbn [comps]. destruct (comps s) as [|c r]; [congruence|].
        cbn [upd_nth nth map]. f_equal. apply csort_CS. }
      splits; auto.
      + apply SS_intro; unfold setc, set_comps; cbn [nret maxnom rn rk]; auto.
        change (comps {| rk := rk a; hra := hra a; maxnom := maxnom a; nret := nret a; rn := rn a;
                         comps := upd_nth 0 (fun _ => csort (getc a 0%nat)) (comps a); rmin := rmin a; rmax := rmax a |})
          with (comps (setc a 0%nat (csort (getc a 0%nat)))).
        change (comps {| rk := rk b; hra := hra b; maxnom := maxnom b; nret := nret b; rn := rn b;
                         comps := upd_nth 0 (fun _ => csort (getc b 0%nat)) (comps b); rmin := rmin b; rmax := rmax b |})
          with (comps (setc b 0%nat (csort (getc b 0%nat)))).
        rewrite (X a Ia), (X b Ib). exact E1.
      + apply (shapes_nth _ _ 0%nat (X a Ia)). rewrite A3. exact HL.
      + apply (shapes_nth _ _ 0%nat (X b Ib)). rewrite B3. lia.
    - splits; auto; try reflexivity.
      + apply srt_above; auto. lia.
      + apply srt_above; auto. lia. }
  destruct H1 as (Ia1 & Ib1 & H1 & LEN1 & SRTa & SRTb & CSa & CSb).
  destruct (SS_fields a1 b1 H1) as (F1 & F2 & F3 & F4 & F5).
  pose proof (shapes_length _ _ F1) as FL. rewrite <- FL.
  apply tsim_bind_leaf with (R := SS).
  { destruct (length (comps a1) <=? h + 1)%nat; [now apply grow_tsim|now constructor]. }
  intros a2 b2 La2 Lb2 H2.
  (* both have level h + 1 now *)
  assert (K : Inv a2 /\ Inv b2 /\ (S h < length (comps a2))%nat /\ getc a2 h = getc a1 h /\ getc b2 h = getc b1 h).
  { destruct (Nat.leb_spec (length (comps a1)) (h + 1)) as [TOP|TOP].
    - apply grow_leaf in La2 as [ca ->]. apply grow_leaf in Lb2 as [cb ->].
      destruct (grow_with_spec a1 ca Ia1) as (I2a & _ & Ea & _). destruct (grow_with_spec b1 cb Ib1) as (I2b & _ & Eb & _).
      splits; auto.
      + rewrite Ea, app_length. simpl. lia.
      + unfold getc. rewrite Ea, app_nth1 by lia. reflexivity.
      + unfold getc. rewrite Eb, app_nth1 by lia. reflexivity.
    - apply leaf_ret_inv in La2. apply leaf_ret_inv in Lb2. subst. splits; auto. lia. }
  destruct K as (Ia2 & Ib2 & LEN2 & Ga & Gb).
  destruct (SS_fields a2 b2 H2) as (G1 & G2 & G3 & G4 & G5).
  pose proof (shapes_length _ _ G1) as GL.
  assert (C2h : CS (getc a2 h) (getc b2 h)) by (apply shapes_nth; auto; lia).
  assert (C2n : CS (getc a2 (S h)) (getc b2 (S h))) by (apply shapes_nth; auto).
  assert (CAPa : nom_cap (getc a2 h) <= nitems (getc a2 h)).
  { rewrite Ga. rewrite (CS_nom _ _ CSa). destruct (CS_fields _ _ CSa) as (X & _). rewrite X. exact CAP. }
  assert (CAPb : nom_cap (getc b2 h) <= nitems (getc b2 h)).
  { rewrite <- (CS_nom _ _ C2h). destruct (CS_fields _ _ C2h) as (X & _). rewrite <- X. exact CAPa. }
  assert (SRa : srt (getc a2 h) = true) by (rewrite Ga; exact SRTa).
  assert (SRb : srt (getc b2 h) = true) by (rewrite Gb; exact SRTb).
  apply tsim_bind_leaf with (R := RR).
  { apply compact_tsim; auto.
    - apply (Forall_nth_in par_ok (comps a2) h dummy (i_par a2 Ia2)). lia.
    - apply (Forall_nth_in par_ok (comps b2) h dummy (i_par b2 Ib2)). lia.
    - apply sorted_at; auto. lia.
    - apply sorted_at; auto. lia.
    - apply sorted_at; auto. apply srt_above; auto. lia.
    - apply sorted_at; auto; [lia|]. apply srt_above; auto. lia. }
  intros ra rb Lra Lrb (R1 & R2 & R3).
  destruct (compact_step a2 h ra Ia2 LEN2 CAPa SRa Lra) as (Ia3 & _).
  destruct (compact_step b2 h rb Ib2 ltac:(lia) CAPb SRb Lrb) as (Ib3 & _).
  apply IH; auto.
  apply SS_intro; cbn [comps nret maxnom rn rk]; auto; try congruence.
  apply shapes_upd; auto. apply shapes_upd; auto.
Qed.

Lemma compress_tsim ic a b : Inv a -> Inv b -> SS a b -> tsim SS (compress ic a) (compress ic b).
Proof.
  intros Ia Ib H. unfold compress. destruct (SS_fields a b H) as (E1 & _).
  rewrite (shapes_length _ _ E1), (shapes_sum_items _ _ E1). now apply compress_loop_tsim.
Qed.

(* the state of update() just before "if (num_retained_ == max_nom_size_) compress()" *)
Definition upd_state (s : req) (x : Z) : req :=
  let s1 := upd_minmax s x x in
  mkreq (rk s1) (hra s1) (maxnom s1) (nret s1 + 1) (rn s1 + 1)
        (upd_nth 0 (fun c => append (hra s1) c x) (comps s1)) (rmin s1) (rmax s1).

Lemma update_eq ic s x : update ic s x = if nret (upd_state s x) =? maxnom (upd_state s x) then compress ic (upd_state s x) else Ret (upd_state s x).
Proof. reflexivity. Qed.

Lemma upd_state_Inv s x : Inv s -> Inv (upd_state s x).
Proof.
  intro I. unfold upd_state. cbv zeta. destruct (upd_minmax_fields s x x) as (E1 & E2 & E3 & E4 & E5 & E6).
  set (s1 := upd_minmax s x x) in *. destruct I as [K NE LG RT NM W S0 S1 PA].
  destruct (comps s) as [|c0 r] eqn:EC; [congruence|].
  destruct (append_spec (hra s1) c0 x) as (A1 & A2 & A3 & A4 & A5 & A6 & A7 & A8 & A9).
  inversion S0 as [|? ? Sc Sr]; subst. inversion PA as [|? ? Pc Pr]; subst.
  cbn [lgw_from tl] in *. destruct LG as (LG0 & LG1).
  constructor; cbn [rk nret maxnom rn comps]; rewrite ?E1; cbn [upd_nth tl]; auto.
  - rewrite E3. exact K.
  - discriminate.
  - cbn [lgw_from]. rewrite A3. auto.
  - rewrite E5, RT, !sum_items_cons, A2. lia.
  - rewrite E6, NM, !sum_nom_cons. unfold nom_cap. rewrite A4, A5. reflexivity.
  - rewrite E2, <- W, !Rs_cons. unfold Rc. rewrite !cnt_true, A3, LG0.
    fold (nitems (append (hra s1) c0 x)) (nitems c0). rewrite A2. change (2 ^ 0) with 1. lia.
Qed.

Lemma upd_state_SS a b x y : Inv a -> SS a b -> SS (upd_state a x) (upd_state b y).
Proof.
  intros Ia H. destruct (SS_fields a b H) as (E1 & E2 & E3 & E4 & E5).
  destruct (upd_minmax_fields a x x) as (A1 & A2 & A3 & A4 & A5 & A6).
  destruct (upd_minmax_fields b y y) as (B1 & B2 & B3 & B4 & B5 & B6).
  unfold upd_state. cbv zeta. apply SS_intro; cbn [comps nret maxnom rn rk]; try congruence.
  rewrite A1, B1. destruct (comps a) as [|ca ra]; destruct (comps b) as [|cb rb]; try discriminate; [reflexivity|].
  cbn [upd_nth map] in *. inversion E1. f_equal.
  destruct (append_spec (hra (upd_minmax a x x)) ca x) as (_ & P2 & P3 & P4 & P5 & P6 & _ & P8 & _).
  destruct (append_spec (hra (upd_minmax b y y)) cb y) as (_ & Q2 & Q3 & Q4 & Q5 & Q6 & _ & Q8 & _).
  unfold cshape. congruence.
Qed.

Theorem update_tsim ic a b x y : Inv a -> Inv b -> SS a b -> tsim SS (update ic a x) (update ic b y).
Proof.
  intros Ia Ib H. rewrite !update_eq. pose proof (upd_state_SS a b x y Ia H) as H2.
  destruct (SS_fields _ _ H2) as (_ & E2 & E3 & _). rewrite E2, E3.
  destruct (nret (upd_state b y) =? maxnom (upd_state b y)).
  - apply compress_tsim; auto using upd_state_Inv.
  - now constructor.
Qed.

Lemma grow_to_tsim ic : forall fuel a b n, Inv a -> Inv b -> SS a b -> tsim SS (grow_to ic fuel a n) (grow_to ic fuel b n).
Proof.
  induction fuel as [|f IH]; intros a b n Ia Ib H; cbn [grow_to]; [now constructor|].
  destruct (SS_fields a b H) as (E1 & _). rewrite (shapes_length _ _ E1).
  destruct (length (comps b) <? n)%nat; [|now constructor].
  apply tsim_bind_leaf with (R := SS); [now apply grow_tsim|].
  intros a' b' La Lb H'. apply grow_leaf in La as [ca ->]. apply grow_leaf in Lb as [cb ->].
  apply IH; auto; now apply grow_with_spec.
Qed.

Lemma merge_comps_shapes h1 h2 : forall a b oa ob (i : Z),
  Forall par_ok a -> Forall par_ok b -> Forall par_ok oa -> Forall par_ok ob ->
  Forall comp_sorted a -> Forall comp_sorted b -> Forall comp_sorted oa -> Forall comp_sorted ob ->
  map cshape a = map cshape b -> map cshape oa = map cshape ob ->
  map cshape (merge_comps h1 a oa) = map cshape (merge_comps h2 b ob).
Proof.
  induction a as [|x a IH]; intros [|y b] oa ob i Pa Pb Poa Pob Sa Sb Soa Sob H Ho; try discriminate; [reflexivity|].
  destruct oa as [|u oa]; destruct ob as [|v ob]; try discriminate.
  - change (merge_comps h1 (x :: a) []) with (x :: a). change (merge_comps h2 (y :: b) []) with (y :: b). exact H.
  - change (merge_comps h1 (x :: a) (u :: oa)) with (comp_merge h1 x u :: merge_comps h1 a oa).
    change (merge_comps h2 (y :: b) (v :: ob)) with (comp_merge h2 y v :: merge_comps h2 b ob).
    cbn [map] in *.
    assert (Hx : CS x y) by (unfold CS, cshape; inversion H; congruence).
    assert (Ha : map cshape a = map cshape b) by (injection H; intros; assumption).
    assert (Hu : CS u v) by (unfold CS, cshape; inversion Ho; congruence).
    assert (Hoa : map cshape oa = map cshape ob) by (injection Ho; intros; assumption).
    inversion Pa; inversion Pb; inversion Poa; inversion Pob; inversion Sa; inversion Sb; inversion Soa; inversion Sob; subst.
    f_equal.
    + apply comp_merge_CS; auto.
      * match goal with P : par_ok u |- _ => exact (proj1 (proj2 (proj2 P))) end.
      * match goal with P : par_ok v |- _ => exact (proj1 (proj2 (proj2 P))) end.
    + apply (IH b oa ob i); auto.
Qed.

(* the state of merge() just before "if (num_retained_ >= max_nom_size_) compress()" *)
Definition merged_state (s2 o : req) : req :=
  let cs := merge_comps (hra s2) (comps s2) (comps o) in
  mkreq (rk s2) (hra s2) (sum_nom cs) (sum_items cs) (rn s2 + rn o) cs (rmin s2) (rmax s2).

Lemma merged_state_Inv s2 o : Inv s2 -> Inv o -> (length (comps o) <= length (comps s2))%nat -> Inv (merged_state s2 o).
Proof.
  intros [Kk NEc LG RT NM W S0 S1 PA] [Kko NEco LGo RTo NMo Wo S0o S1o PAo] LE. unfold merged_state. cbv zeta.
  set (cs := merge_comps (hra s2) (comps s2) (comps o)).
  destruct (merge_comps_spec (hra s2) (comps s2) (comps o) 0 PA S0 PAo S0o LG LGo) as (R1' & R2' & R3' & R4' & R5' & R6' & R7' & R8' & R9').
  fold cs in R1', R2', R3', R4', R5', R6', R7', R8', R9'.
  rewrite (firstn_all2 (comps o) LE) in R5'.
  assert (NEcs : cs <> []) by (intro X; rewrite X in R1'; destruct (comps s2); [congruence|discriminate]).
  constructor; cbn [rk nret maxnom rn comps]; auto.
  - rewrite R5', W, Wo. reflexivity.
  - destruct cs as [|m r] eqn:Ecs; [congruence|]. cbn [tl].
    destruct (comps s2) as [|c2 r2] eqn:E2c; [congruence|]. cbn [tl] in S1.
    destruct (comps o) as [|o0 ro] eqn:Eoc; [congruence|].
    unfold cs in Ecs. change (merge_comps (hra s2) (c2 :: r2) (o0 :: ro)) with (comp_merge (hra s2) c2 o0 :: merge_comps (hra s2) r2 ro) in Ecs.
    inversion Ecs; subst.
    destruct (merge_comps_spec (hra s2) r2 ro 1) as (_ & _ & _ & _ & _ & _ & Q & _); auto.
    + now inversion PA. + now inversion S0. + now inversion PAo. + now inversion S0o.
    + cbn [lgw_from] in LG. tauto. + cbn [lgw_from] in LGo. tauto.
Qed.

Theorem merge_tsim ic a b oa ob : Inv a -> Inv b -> Inv oa -> Inv ob -> SS a b -> SS oa ob ->
  tsim SS (merge ic a oa) (merge ic b ob).
Proof.
  intros Ia Ib Ioa Iob H Ho. unfold merge.
  destruct (SS_fields a b H) as (E1 & E2 & E3 & E4 & E5). destruct (SS_fields oa ob Ho) as (F1 & F2 & F3 & F4 & F5).
  assert (Z1 : (rn oa =? 0) = (rn ob =? 0)) by (now rewrite F4).
  rewrite Z1. destruct (rn ob =? 0); [now constructor|].
  rewrite (shapes_length _ _ F1).
  destruct (upd_minmax_fields a (rmin oa) (rmax oa)) as (A1 & A2 & A3 & A4 & A5 & A6).
  destruct (upd_minmax_fields b (rmin ob) (rmax ob)) as (B1 & B2 & B3 & B4 & B5 & B6).
  assert (Ia1 : Inv (upd_minmax a (rmin oa) (rmax oa))) by (apply (Inv_fields a _); auto).
  assert (Ib1 : Inv (upd_minmax b (rmin ob) (rmax ob))) by (apply (Inv_fields b _); auto).
  assert (H1 : SS (upd_minmax a (rmin oa) (rmax oa)) (upd_minmax b (rmin ob) (rmax ob))) by (apply SS_intro; congruence).
  apply tsim_bind_leaf with (R := SS); [now apply grow_to_tsim|].
  intros a2 b2 La Lb H2.
  destruct (grow_to_spec ic _ _ _ _ Ia1 (Nat.le_add_l _ _) La) as (Ia2 & _ & LENa & _).
  destruct (grow_to_spec ic _ _ _ _ Ib1 (Nat.le_add_l _ _) Lb) as (Ib2 & _ & LENb & _).
  fold (merged_state a2 oa). fold (merged_state b2 ob).
  assert (LEa : (length (comps oa) <= length (comps a2))%nat) by (rewrite LENa, (shapes_length _ _ F1); lia).
  assert (LEb : (length (comps ob) <= length (comps b2))%nat) by lia.
  pose proof (merged_state_Inv a2 oa Ia2 Ioa LEa) as Ia3. pose proof (merged_state_Inv b2 ob Ib2 Iob LEb) as Ib3.
  destruct (SS_fields a2 b2 H2) as (G1 & G2 & G3 & G4 & G5).
  assert (H3 : SS (merged_state a2 oa) (merged_state b2 ob)).
  { assert (EM : map cshape (merge_comps (hra a2) (comps a2) (comps oa)) = map cshape (merge_comps (hra b2) (comps b2) (comps ob))).
    { apply (merge_comps_shapes (hra a2) (hra b2) _ _ _ _ 0); auto; try apply (i_par _ Ia2); try apply (i_par _ Ib2);
        try apply (i_par _ Ioa); try apply (i_par _ Iob); try apply (i_srt0 _ Ia2); try apply (i_srt0 _ Ib2);
        try apply (i_srt0 _ Ioa); try apply (i_srt0 _ Iob). }
    unfold merged_state. cbv zeta. apply SS_intro; cbn [comps nret maxnom rn rk]; auto; try congruence.
    - now apply shapes_sum_items.
    - now apply shapes_sum_nom. }
  destruct (SS_fields _ _ H3) as (_ & K2 & K3 & _). rewrite K2, K3.
  destruct (maxnom (merged_state b2 ob) <=? nret (merged_state b2 ob)); [now apply compress_tsim|now constructor].
Qed.

Theorem req_new_tsim ic k h1 h2 : tsim SS (req_new ic k h1) (req_new ic k h2).
Proof. unfold req_new. apply grow_tsim. reflexivity. Qed.

(* ---------- what it means for the coins the runner replays ---------- *)
(* any two executions of the same operation from the same state: same number of coins consumed, same shape *)
Theorem update_flips_independent ic s log x : reach ic s log ->
  forall cs1 cs2 s1 r1 s2 r2, replay (update ic s x) cs1 = Some (s1, r1) -> replay (update ic s x) cs2 = Some (s2, r2) ->
  (length cs1 - length r1 = length cs2 - length r2)%nat /\ sshape s1 = sshape s2.
Proof.
  intros R cs1 cs2 s1 r1 s2 r2 H1 H2. pose proof (r_inv s log (reach_Rel ic s log R)) as I.
  destruct (tsim_paths SS _ _ (update_tsim ic s s x x I I eq_refl) _ _ _ _ _ _ H1 H2) as (A & _ & _ & B). auto.
Qed.

Theorem merge_flips_independent ic s l1 o l2 : reach ic s l1 -> reach ic o l2 ->
  forall cs1 cs2 s1 r1 s2 r2, replay (merge ic s o) cs1 = Some (s1, r1) -> replay (merge ic s o) cs2 = Some (s2, r2) ->
  (length cs1 - length r1 = length cs2 - length r2)%nat /\ sshape s1 = sshape s2.
Proof.
  intros R Ro cs1 cs2 s1 r1 s2 r2 H1 H2. pose proof (r_inv s l1 (reach_Rel ic s l1 R)) as I.
  pose proof (r_inv o l2 (reach_Rel ic o l2 Ro)) as Io.
  destruct (tsim_paths SS _ _ (merge_tsim ic s s o o I I Io Io eq_refl eq_refl) _ _ _ _ _ _ H1 H2) as (A & _ & _ & B). auto.
Qed.
