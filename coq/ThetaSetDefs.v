(* ThetaSetDefs.v — executable model of the Theta/Tuple set operations (no proofs here).
   Mirrors theta_union_base_impl.hpp, theta_intersection_base_impl.hpp, theta_set_difference_base_impl.hpp,
   theta_jaccard_similarity_base.hpp and bounds_on_ratios_in_theta_sketched_sets.hpp.  Like the C++ templates
   (Entry / ExtractKey / Policy) the model is polymorphic in the payload type [S] carried by each key and in the
   combine policy [comb internal incoming] used by union and intersection; no algebraic property of [comb] is
   assumed ([S = unit] for Theta sketches, a summary type for Tuple sketches).

   Interface (stable; reused by the Tuple family):
     input                 abstract input/result sketch {theta; empty; ordered; seed_hash; entries : list (N * S)}
     input_of_sketch / input_of_compact / mk_result / compact_copy
     union_st, union_new, union_update, union_result, union_reset
     inter_st, inter_new, inter_update, inter_result, inter_has_result
     a_not_b
     jaccard, exactly_equal, ratio_bounds        (results as [jval]: exact quotients of naturals or constants)
     spec_union, spec_inter, spec_a_not_b        (L0: the set-algebra definitions on keys)
   The hash tables inside the operations are the Theta table of ThetaDefs.v ([sketch S]: same find / insert /
   resize / rebuild code in C++: theta_update_sketch_base).  std::nth_element is the abstract function [sel]
   (postcondition KSmallest.nth_post), std::sort is a sort by key (keys are distinct). *)
From Coq Require Import ZArith NArith List Bool.
From DS Require Import Word Murmur3 RunnerLib OpenAddr KSmallest Canon ThetaDefs.
Import ListNotations.
Local Open Scope N_scope.

Section SetOps.
  Variable S : Type.
  Variable sel : nat -> list (N * S) -> list (N * S).   (* std::nth_element, see ThetaDefs.v *)
  Variable comb : S -> S -> S.                          (* policy_(internal, incoming) as a function *)

  (* ---------------------------------------------------------------------------------------------- *)
  (** * Input / result sketches *)

  (* what a set operation reads from a sketch of any physical form: get_theta64(), is_empty(), is_ordered(),
     get_seed_hash(), and the entries in iteration order (get_num_retained() = their number) *)
  Record input := mk_input {
    in_theta : N; in_empty : bool; in_ordered : bool; in_seed_hash : N; in_entries : list (N * S) }.

  Definition in_num (i : input) : N := N.of_nat (length (in_entries i)).
  Definition in_keys (i : input) : list N := map fst (in_entries i).

  Definition input_of_sketch (sh : N) (s : sketch S) : input :=
    mk_input (get_theta64 S s) (is_empty s) (is_ordered S s) sh (entries S s).

  Definition input_of_compact (sh : N) (c : compact S) : input :=
    mk_input (c_theta c) (c_empty c) (c_ordered c) sh (c_entries c).

  (* compact_sketch(is_empty, is_ordered, seed_hash, theta, entries): ordered || entries.size() <= 1 *)
  Definition mk_result (e o : bool) (sh th : N) (ents : list (N * S)) : input :=
    mk_input th e (o || (length ents <=? 1)%nat) sh ents.

  (* compact_sketch(const Other& other, bool ordered) *)
  Definition compact_copy (a : input) (ordered : bool) : input :=
    mk_input (in_theta a) (in_empty a) (in_ordered a || ordered) (in_seed_hash a)
      (if in_empty a then []
       else if ordered && negb (in_ordered a) then msort fst (in_entries a) else in_entries a).

  (* ---------------------------------------------------------------------------------------------- *)
  (** * Union (theta_union_base) *)

  Record union_st := mk_union {
    u_table : sketch S;      (* table_ (lg_cur, lg_nom, rf, theta_, is_empty_, entries) *)
    u_theta : N;             (* union_theta_ *)
    u_sh : N                 (* compute_seed_hash(table_.seed_) *)
  }.

  (* builder.build(): table(starting_lg_size, lg_k, rf, p, starting_theta, seed), union_theta_ = table_.theta_ *)
  Definition union_new (lgk r th0 sh : N) : union_st := mk_union (new_sketch S lgk r th0) th0 sh.

  (* insert a new entry / policy_(existing, incoming) *)
  Definition pay (w : S) (o : option S) : S := match o with None => w | Some v => comb v w end.

  (* the loop over the incoming entries; [ThetaDefs.update] = find + (insert | payload update), with the
     resize / rebuild of insert; an ordered input stops at the first entry that is not below both thetas *)
  Fixpoint union_loop (ut : N) (ordered : bool) (t : sketch S) (l : list (N * S)) : sketch S :=
    match l with
    | [] => t
    | (h, w) :: r =>
        if (h <? ut) && (h <? theta t) then union_loop ut ordered (update S sel t h (pay w)) r
        else if ordered then t else union_loop ut ordered t r
    end.

  (* update(sketch); None = throws (seed hash mismatch), nothing modified *)
  Definition union_update (u : union_st) (i : input) : option union_st :=
    if in_empty i then Some u
    else if negb (in_seed_hash i =? u_sh u) then None
    else
      let ut := N.min (u_theta u) (in_theta i) in
      let t := union_loop ut (in_ordered i) (set_nonempty S (u_table u)) (in_entries i) in
      Some (mk_union t (N.min ut (theta t)) (u_sh u)).

  (* get_result(ordered).  [old] selects the code before fixes/02_union_empty_theta.patch, which reported
     union_theta_ (the starting theta of a p < 1 union) for a union that saw only empty inputs — an empty sketch
     with theta < MAX (see Regression_thetaset.v); the repaired code reports MAX_THETA. *)
  Definition union_result_gen (old : bool) (u : union_st) (ordered : bool) : input :=
    let t := u_table u in
    if is_empty t then mk_result true true (u_sh u) (if old then u_theta u else max_theta) []
    else
      let th := N.min (u_theta u) (theta t) in
      let ents := if theta t <=? u_theta u then entries S t
                  else filter (fun e => fst e <? th) (entries S t) in
      let k := knom S t in
      let l' := sel k ents in
      let th' := if (k <? length ents)%nat then match nth_error l' k with Some p => fst p | None => th end else th in
      let ents' := if (k <? length ents)%nat then firstn k l' else ents in
      mk_result false ordered (u_sh u) th' (if ordered then msort fst ents' else ents').

  Definition union_result := union_result_gen false.

  Definition union_reset (u : union_st) : union_st :=
    mk_union (reset S (u_table u)) (theta0 (u_table u)) (u_sh u).

  (* ---------------------------------------------------------------------------------------------- *)
  (** * Intersection (theta_intersection_base) *)

  Record inter_st := mk_inter {
    i_valid : bool;          (* is_valid_ *)
    i_table : sketch S;      (* table_: only lg_cur, lg_nom, theta_, is_empty_, num_entries_, entries are used *)
    i_sh : N
  }.

  (* common_defs.hpp lg_size_from_count(n, 15/16): log2(n) + (n > floor(2^(log2 n + 1) * 15/16) ? 2 : 1) *)
  Definition lg_size_from_count (n : N) : N :=
    let lg := N.log2 n in lg + (if 15 * 2 ^ (lg + 1) / 16 <? n then 2 else 1).

  (* hash_table(0, 0, X1, 1, theta, seed, allocator, is_empty): no slots allocated *)
  Definition empty_table (th : N) (e : bool) : sketch S := mk_sketch S 0 0 0 th th e 0 [].

  (* hash_table(lg, lg - 1, X1, 1, theta, seed, allocator, is_empty) with lg = lg_size_from_count(n) *)
  Definition sized_table (n th : N) (e : bool) : sketch S :=
    let lg := lg_size_from_count n in mk_sketch S lg (lg - 1) 0 th th e 0 (repeat None (tsize lg)).

  Definition inter_new (sh : N) : inter_st := mk_inter false (empty_table max_theta false) sh.

  Definition with_theta_empty (t : sketch S) (th : N) (e : bool) : sketch S :=
    mk_sketch S (lg_cur t) (lg_nom t) (rf t) (theta0 t) th e (num t) (slots t).

  (* first update: copy the incoming entries; None = "duplicate key" / "no empty slots" *)
  Fixpoint copy_loop (t : sketch S) (l : list (N * S)) : option (sketch S) :=
    match l with
    | [] => Some t
    | e :: r =>
        match tfind S (lg_cur t) (slots t) (fst e) with
        | Some (i, false) => copy_loop (insert S sel t i e) r
        | _ => None
        end
    end.

  (* later updates: scan the incoming entries below theta, look each up, collect policy_(found, incoming);
     an ordered input stops at the first entry not below theta.  None = "max matches exceeded" / find failed.
     (The in-place payload change of the old table is not modelled: the old table is discarded, and with
     distinct incoming keys no slot is hit twice.  The count checks after the loop compare the number of
     iterations with get_num_retained(), which is the same list here.) *)
  Fixpoint match_loop (th : N) (ordered : bool) (t : sketch S) (maxm : N) (l acc : list (N * S)) : option (list (N * S)) :=
    match l with
    | [] => Some (rev acc)
    | (h, w) :: r =>
        if h <? th then
          match tfind S (lg_cur t) (slots t) h with
          | Some (i, true) =>
              match nth i (slots t) None with
              | Some (_, v) =>
                  if N.of_nat (length acc) =? maxm then None
                  else match_loop th ordered t maxm r ((h, comb v w) :: acc)
              | None => None
              end
          | Some (_, false) => match_loop th ordered t maxm r acc
          | None => None
          end
        else if ordered then Some (rev acc) else match_loop th ordered t maxm r acc
    end.

  (* re-insert the matched entries: find(key).first, insert (the found flag is not looked at) *)
  Fixpoint put_loop (t : sketch S) (l : list (N * S)) : option (sketch S) :=
    match l with
    | [] => Some t
    | e :: r =>
        match tfind S (lg_cur t) (slots t) (fst e) with
        | Some (i, _) => put_loop (insert S sel t i e) r
        | None => None
        end
    end.

  (* update(sketch); None = throws.
     [old] selects the code before fixes/02_intersection_empty_order.patch: "no matches and theta == MAX" set
     table_.is_empty_ inside update(), which made every later input be ignored (the result then depended on the
     order of the inputs, see Regression_thetaset.v); the repaired code derives that emptiness in get_result(). *)
  Definition inter_update_gen (old : bool) (x : inter_st) (i : input) : option inter_st :=
    let t := i_table x in
    if is_empty t then Some x
    else if negb (in_empty i) && negb (in_seed_hash i =? i_sh x) then None
    else
      let e := is_empty t || in_empty i in
      let th := if e then max_theta else N.min (theta t) (in_theta i) in
      let t1 := with_theta_empty t th e in
      if i_valid x && (num t =? 0) then Some (mk_inter (i_valid x) t1 (i_sh x))
      else if in_num i =? 0 then Some (mk_inter true (empty_table th e) (i_sh x))
      else if negb (i_valid x) then
        match copy_loop (sized_table (in_num i) th e) (in_entries i) with
        | Some t' => if num t' =? in_num i then Some (mk_inter true t' (i_sh x)) else None
        | None => None
        end
      else
        match match_loop th (in_ordered i) t1 (N.min (num t) (in_num i)) (in_entries i) [] with
        | None => None
        | Some [] => Some (mk_inter true (empty_table th (e || (old && (th =? max_theta)))) (i_sh x))
        | Some m =>
            match put_loop (sized_table (N.of_nat (length m)) th e) m with
            | Some t' => Some (mk_inter true t' (i_sh x))
            | None => None
            end
        end.

  Definition inter_update := inter_update_gen false.

  (* get_result(ordered); None = throws (no update yet) *)
  Definition inter_result_gen (old : bool) (x : inter_st) (ordered : bool) : option input :=
    if negb (i_valid x) then None
    else
      let t := i_table x in
      let ents := if 0 <? num t then entries S t else [] in
      let e := is_empty t || (negb old && (num t =? 0) && (theta t =? max_theta)) in
      Some (mk_result e ordered (i_sh x) (theta t) (if ordered then msort fst ents else ents)).

  Definition inter_result := inter_result_gen false.

  Definition inter_has_result (x : inter_st) : bool := i_valid x.

  (* ---------------------------------------------------------------------------------------------- *)
  (** * A-not-B (theta_set_difference_base::compute) *)

  (* std::set_difference(a, b, conditional_back_inserter(key < theta), comparator) *)
  Fixpoint set_diff (th : N) (a : list (N * S)) : list (N * S) -> list (N * S) :=
    fix aux (b : list (N * S)) : list (N * S) :=
      match a, b with
      | [], _ => []
      | _, [] => filter (fun e => fst e <? th) a
      | x :: ra, y :: rb =>
          if fst x <? fst y then (if fst x <? th then x :: set_diff th ra b else set_diff th ra b)
          else if fst y <? fst x then aux rb
          else set_diff th ra rb
      end.

  (* the key-only table of the hash-based path: hash_table(lg, lg, X1, 1, 0, 0) — lg_cur = lg_nom, so crossing
     the 1/2 load threshold calls resize() with factor 1 (a same-size rehash), never rebuild() *)
  Definition key_table (n : N) : sketch unit :=
    let lg := lg_size_from_count n in mk_sketch unit lg lg 0 0 0 true 0 (repeat None (tsize lg)).

  Fixpoint b_loop (th : N) (ordered : bool) (t : sketch unit) (l : list (N * S)) : option (sketch unit) :=
    match l with
    | [] => Some t
    | (h, _) :: r =>
        if h <? th then
          match tfind unit (lg_cur t) (slots t) h with
          | Some (i, _) => b_loop th ordered (insert unit sel_sort t i (h, tt)) r
          | None => None
          end
        else if ordered then Some t else b_loop th ordered t r
    end.

  Fixpoint a_loop (th : N) (ordered : bool) (t : sketch unit) (l : list (N * S)) : option (list (N * S)) :=
    match l with
    | [] => Some []
    | (h, w) :: r =>
        if h <? th then
          match tfind unit (lg_cur t) (slots t) h with
          | Some (_, found) =>
              match a_loop th ordered t r with
              | Some rest => Some (if found then rest else (h, w) :: rest)
              | None => None
              end
          | None => None
          end
        else if ordered then Some [] else a_loop th ordered t r
    end.

  Definition diff_hash (th : N) (a b : input) : option (list (N * S)) :=
    match b_loop th (in_ordered b) (key_table (in_num b)) (in_entries b) with
    | Some t => a_loop th (in_ordered a) t (in_entries a)
    | None => None
    end.

  Definition diff_sort (th : N) (a b : input) : list (N * S) := set_diff th (in_entries a) (in_entries b).

  (* compute(a, b, ordered) for an a_not_b object built with seed hash [sh]; None = throws *)
  Definition a_not_b (sh : N) (a b : input) (ordered : bool) : option input :=
    if in_empty a || ((0 <? in_num a) && in_empty b) then Some (compact_copy a ordered)
    else if negb (in_seed_hash a =? sh) then None
    else if negb (in_seed_hash b =? sh) then None
    else
      let th := N.min (in_theta a) (in_theta b) in
      let oents :=
        if in_num b =? 0 then Some (filter (fun e => fst e <? th) (in_entries a))
        else if in_ordered a && in_ordered b then Some (diff_sort th a b)
        else diff_hash th a b in
      match oents with
      | None => None
      | Some ents =>
          let e := in_empty a || ((length ents =? 0)%nat && (th =? max_theta)) in
          Some (mk_result e (in_ordered a || ordered) sh th
                  (if ordered && negb (in_ordered a) then msort fst ents else ents))
      end.

  (* ---------------------------------------------------------------------------------------------- *)
  (** * Ratio bounds and Jaccard similarity *)

  (* a returned double: a constant, the quotient (double)b / (double)a of two counts (a > 0), or a value
     that goes through libm (approximate binomial bounds; not modelled) *)
  Inductive jval := JConst (bits : N) | JFrac (b a : N) | JLibm.

  Definition d_zero : N := 0.
  Definition d_half : N := 0x3fe0000000000000.
  Definition d_one : N := 0x3ff0000000000000.

  (* get_theta() == 1.0 : (double)theta64 / (double)MAX_THETA with (double)MAX_THETA = 2^63; theta64 rounds
     to 2^63 from 2^63 - 512 on (ties to even) *)
  Definition f_is_one (th : N) : bool := 2 ^ 63 - 512 <=? th.

  Definition count_a_of (A B : input) : N :=
    if in_theta A =? in_theta B then in_num A
    else N.of_nat (length (filter (fun e => fst e <? in_theta B) (in_entries A))).

  (* bounds_on_ratios_in_theta_sketched_sets::{lower_bound,estimate,upper_bound}_for_b_over_a(A, B);
     None = throws (theta_b > theta_a, a < b, f out of range) *)
  Definition ratio_bound (at_zero : N) (A B : input) : option jval :=
    if in_theta A <? in_theta B then None
    else
      let ca := count_a_of A B in let cb := in_num B in
      if ca =? 0 then Some (JConst at_zero)
      else if (ca <? cb) || (in_theta B =? 0) then None
      else if f_is_one (in_theta B) then Some (JFrac cb ca) else Some JLibm.

  Definition ratio_estimate (A B : input) : option jval :=
    if in_theta A <? in_theta B then None
    else
      let ca := count_a_of A B in
      if ca =? 0 then Some (JConst d_half) else Some (JFrac (in_num B) ca).

  Definition ratio_bounds (A B : input) : option (jval * jval * jval) :=
    match ratio_bound d_zero A B, ratio_estimate A B, ratio_bound d_one A B with
    | Some l, Some e, Some u => Some (l, e, u)
    | _, _, _ => None
    end.

  (* ceiling_power_of_2 on uint32 (0 -> 0 by wrap-around) and the union size of compute_union *)
  Definition ceil_pow2_32 (n : N) : N := if n =? 0 then 0 else (2 ^ N.log2_up n) mod 2 ^ 32.
  Definition jaccard_lgk (ca cb : N) : N :=
    N.min (N.max (N.log2 (ceil_pow2_32 ((ca + cb) mod 2 ^ 32))) 5) 26.

  (* compute_union(a, b, seed): default builder (resize factor X8, p = 1); None = throws *)
  Definition compute_union (sh : N) (a b : input) : option input :=
    let u0 := union_new (jaccard_lgk (in_num a) (in_num b)) 3 max_theta sh in
    match union_update u0 a with
    | Some u1 => match union_update u1 b with
                 | Some u2 => Some (union_result u2 false)
                 | None => None
                 end
    | None => None
    end.

  Definition identical_sets (a b u : input) : bool :=
    (in_num u =? in_num a) && (in_num u =? in_num b) && (in_theta u =? in_theta a) && (in_theta u =? in_theta b).

  Definition j_ones : jval * jval * jval := (JConst d_one, JConst d_one, JConst d_one).
  Definition j_zeros : jval * jval * jval := (JConst d_zero, JConst d_zero, JConst d_zero).

  (* jaccard(a, b, seed); [same] = the two arguments are the same object *)
  Definition jaccard (sh : N) (same : bool) (a b : input) : option (jval * jval * jval) :=
    if same then Some j_ones
    else if in_empty a && in_empty b then Some j_ones
    else if in_empty a || in_empty b then Some j_zeros
    else
      match compute_union sh a b with
      | None => None
      | Some u =>
          if identical_sets a b u then Some j_ones
          else
            match inter_update (inter_new sh) a with
            | Some x1 =>
                match inter_update x1 b with
                | Some x2 =>
                    match inter_update x2 u with
                    | Some x3 =>
                        match inter_result x3 false with
                        | Some i => ratio_bounds u i
                        | None => None
                        end
                    | None => None
                    end
                | None => None
                end
            | None => None
            end
      end.

  Definition exactly_equal (sh : N) (same : bool) (a b : input) : option bool :=
    if same then Some true
    else if in_empty a && in_empty b then Some true
    else if in_empty a || in_empty b then Some false
    else
      match compute_union sh a b with
      | None => None
      | Some u => Some (identical_sets a b u)
      end.

  (* ---------------------------------------------------------------------------------------------- *)
  (** * L0: the set-algebra specification, on keys *)

  Definition all_keys (ins : list input) : list N := flat_map in_keys ins.

  (* min over the non-empty inputs' thetas, starting from th0 *)
  Definition min_theta (th0 : N) (ins : list input) : N :=
    fold_left (fun m i => if in_empty i then m else N.min m (in_theta i)) ins th0.

  Definition keys_below (th : N) (l : list N) : list N := sortN (nodup N.eq_dec (filter (fun h => h <? th) l)).

  (* union of [ins] into a union object of nominal size k and starting theta th0: (theta, is_empty, keys) *)
  Definition spec_union (k : nat) (th0 : N) (ins : list input) : N * bool * list N :=
    let thm := min_theta th0 ins in
    let V := keys_below thm (all_keys ins) in
    if forallb in_empty ins then (max_theta, true, [])
    else if (k <? length V)%nat then (nth k V 0, false, firstn k V) else (thm, false, V).

  Definition mem (h : N) (l : list N) : bool := existsb (N.eqb h) l.

  (* intersection of a non-empty list of inputs: (theta, is_empty, keys) *)
  Definition spec_inter (ins : list input) : N * bool * list N :=
    if existsb in_empty ins then (max_theta, true, [])
    else
      let th := min_theta max_theta ins in
      let ks := match ins with
                | [] => []
                | a :: r => keys_below th (filter (fun h => forallb (fun i => mem h (in_keys i)) r) (in_keys a))
                end in
      (th, (length ks =? 0)%nat && (th =? max_theta), ks).

  (* A-not-B past the early returns: (theta, is_empty, keys) *)
  Definition spec_a_not_b (a b : input) : N * bool * list N :=
    let th := N.min (in_theta a) (in_theta b) in
    let ks := keys_below th (filter (fun h => negb (mem h (in_keys b))) (in_keys a)) in
    (th, (length ks =? 0)%nat && (th =? max_theta), ks).

  (* exact-mode Jaccard: (|A n B|, |A u B|) on keys; set equality on keys; counts behind the ratio B / A *)
  Definition spec_jaccard (a b : input) : N * N :=
    (N.of_nat (length (filter (fun h => mem h (in_keys b)) (in_keys a))),
     N.of_nat (length (nodup N.eq_dec (in_keys a ++ in_keys b)))).
  Definition spec_equal (a b : input) : bool :=
    forallb (fun h => mem h (in_keys b)) (in_keys a) && forallb (fun h => mem h (in_keys a)) (in_keys b).
  Definition spec_ratio (A B : input) : N * N :=
    (in_num B, N.of_nat (length (filter (fun h => h <? in_theta B) (in_keys A)))).
End SetOps.

Arguments in_theta {S}. Arguments in_empty {S}. Arguments in_ordered {S}. Arguments in_seed_hash {S}.
Arguments in_entries {S}. Arguments in_num {S}. Arguments in_keys {S}.
Arguments u_table {S}. Arguments u_theta {S}. Arguments u_sh {S}.
Arguments i_valid {S}. Arguments i_table {S}. Arguments i_sh {S}.

(* ================================================================================================ *)
(** * The double (double)b / (double)a for naturals b, 0 < a (both below 2^53): correctly rounded quotient *)

Definition fdiv_bits (b a : N) : N :=
  if (b =? 0) || (a =? 0) then 0
  else
    let num := b * 2 ^ 128 in
    let q := num / a in
    let sticky := negb (num mod a =? 0) in
    let l := N.log2 q in
    let sh := l - 52 in
    let d := q / 2 ^ sh in
    let rem := q mod 2 ^ sh in
    let half := 2 ^ (sh - 1) in
    let up := (half <? rem) || ((rem =? half) && (sticky || N.odd d)) in
    let d1 := if up then d + 1 else d in
    let '(m, l1) := if d1 =? 2 ^ 53 then (2 ^ 52, l + 1) else (d1, l) in
    (l1 + 1023 - 128) * 2 ^ 52 + (m - 2 ^ 52).

Example fdiv_bits_examples :
  fdiv_bits 1 1 = 0x3ff0000000000000 /\ fdiv_bits 1 2 = 0x3fe0000000000000 /\ fdiv_bits 1 3 = 0x3fd5555555555555 /\
  fdiv_bits 2 3 = 0x3fe5555555555555 /\ fdiv_bits 1 10 = 0x3fb999999999999a /\ fdiv_bits 0 7 = 0 /\
  fdiv_bits 3 2 = 0x3ff8000000000000 /\ fdiv_bits 1000 1 = 0x408f400000000000.
Proof. vm_compute. repeat split; reflexivity. Qed.

(* ================================================================================================ *)
(** * Theta instance and line protocol *)

Definition tinput := input unit.
Definition comb_unit (_ _ : unit) : unit := tt.

Definition t_union_update := union_update unit sel_sort comb_unit.
Definition t_union_result := union_result unit sel_sort.
Definition t_inter_update := inter_update unit sel_sort comb_unit.
Definition t_inter_result := inter_result unit.
Definition t_a_not_b := a_not_b unit.
Definition t_jaccard := jaccard unit sel_sort comb_unit.
Definition t_exactly_equal := exactly_equal unit sel_sort comb_unit.

(* registers: sketches (update / compact) and set-operation objects with the ghost log of what they were fed *)
Inductive sreg :=
| SU (seed : N) (s : tsk)                            (* update_theta_sketch *)
| SC (c : tinput)                                    (* compact_theta_sketch (any origin) *)
| SUn (k : N) (th0 : N) (u : union_st unit) (log : list tinput)    (* theta_union, inputs since construction/reset *)
| SIn (x : inter_st unit) (log : list tinput).       (* theta_intersection, inputs since construction *)

(* the physical forms a sketch can be presented in; as an *input* each is one of: the sketch itself,
   its ordered compact form, its unordered compact form
     0 as stored                         1 compact(ordered)                 2 compact(unordered)
     3 wrap(serialize(compact unordered))            4 wrap(serialize_compressed(compact ordered))
     5 deserialize(serialize(compact unordered))     6 deserialize(serialize_compressed(compact ordered))
     7 wrap(serialize(compact ordered)) *)
Definition as_input (g : sreg) : option tinput :=
  match g with
  | SU seed s => Some (input_of_sketch unit (compute_seed_hash seed) s)
  | SC c => Some c
  | _ => None
  end.

Definition present (g : sreg) (form : Z) : option tinput :=
  match as_input g with
  | None => None
  | Some i =>
      match form with
      | 0%Z => Some i
      | 1%Z | 4%Z | 6%Z | 7%Z => Some (compact_copy unit i true)
      | 2%Z | 3%Z | 5%Z => Some (compact_copy unit i false)
      | _ => None
      end
  end.

Local Open Scope Z_scope.

Definition in_summary (i : tinput) : line :=
  [Nz (in_theta i); bz (in_empty i); bz (in_ordered i); Nz (in_num i)] ++ map Nz (sortN (in_keys i)).

Definition spec_line (sp : N * bool * list N) : line :=
  let '(th, e, ks) := sp in [Nz th; bz e; nz (length ks)] ++ map Nz ks.

Definition sk_summary (s : tsk) : line :=
  [Nz (get_theta64 unit s); bz (is_empty s); bz (is_ordered unit s); Nz (num s)].

Definition jval_line (exact : bool) (v : jval) : line :=
  match v with
  | JConst b => [1; Nz b]
  | JFrac b a => [1; Nz (fdiv_bits b a)]
  | JLibm => if exact then [-4] else [0]
  end.

(* estimate always; the two bounds only when they do not go through libm by the visible rule [exact] *)
Definition jtriple_line (exact : bool) (t : jval * jval * jval) : line :=
  let '(l, e, u) := t in
  jval_line true e ++ (if exact then bz true :: jval_line true l ++ jval_line true u else [bz false]).

Definition wf_p (lgk rfz pbits : Z) : bool :=
  (5 <=? lgk) && (lgk <=? 26) && (0 <=? rfz) && (rfz <=? 3) && (0 <=? pbits) && p_accepted (zN pbits).

Fixpoint bulk (seed : N) (s : tsk) (start : N) (n : nat) : tsk :=
  match n with
  | O => s
  | Datatypes.S n' =>
      bulk seed (update unit sel_sort s (hash64 seed (bytes8 (w64 start)) / 2)%N unit_upd) (start + 1)%N n'
  end.

Definition store (s : list (Z * sreg)) (dst : list Z) (i : tinput) : list (Z * sreg) :=
  match dst with d :: _ => reg_set s d (SC i) | [] => s end.

Definition step (s : list (Z * sreg)) (o e : line) : list (Z * sreg) * outline :=
  match o with
  (* ---- sketches ---- *)
  | 1 :: r :: lgk :: rfz :: pbits :: seed :: _ =>
      if wf_p lgk rfz pbits then
        let g := new_sketch unit (zN lgk) (zN rfz) (starting_theta (zN pbits)) in
        (reg_set s r (SU (z_to_u64 seed) g), (sk_summary g, []))
      else (s, (refused, []))
  | 2 :: r :: kind :: args =>
      match reg_get s r with
      | Some (SU seed k) =>
          match canon_input kind args with
          | None => (s, (sk_summary k, []))
          | Some bytes =>
              let g := update unit sel_sort k (hash64 seed bytes / 2)%N unit_upd in
              (reg_set s r (SU seed g), (sk_summary g, []))
          end
      | _ => (s, (refused, []))
      end
  | 8 :: r :: start :: count :: _ =>                     (* update((int64) start .. start+count-1) *)
      match reg_get s r with
      | Some (SU seed k) =>
          let g := bulk seed k (z_to_u64 start) (zn count) in (reg_set s r (SU seed g), (sk_summary g, []))
      | _ => (s, (refused, []))
      end
  | 3 :: r :: _ =>
      match reg_get s r with
      | Some (SU seed k) => let g := trim unit sel_sort k in (reg_set s r (SU seed g), (sk_summary g, []))
      | _ => (s, (refused, []))
      end
  | 4 :: r :: _ =>
      match reg_get s r with
      | Some (SU seed k) => let g := reset unit k in (reg_set s r (SU seed g), (sk_summary g, []))
      | _ => (s, (refused, []))
      end
  | 5 :: r :: r2 :: ord :: _ =>                          (* r2 := compact(r, ordered) *)
      match option_map (fun i => compact_copy unit i (negb (ord =? 0))) (match reg_get s r with Some g => as_input g | None => None end) with
      | Some c => (reg_set s r2 (SC c), (in_summary c, []))
      | None => (s, (refused, []))
      end
  | 7 :: r :: form :: _ =>                               (* query r presented in a form *)
      match (match reg_get s r with Some g => present g form | None => None end) with
      | Some i => (s, (in_summary i, []))
      | None => (s, (refused, []))
      end
  (* ---- union ---- *)
  | 10 :: r :: lgk :: rfz :: pbits :: seed :: _ =>
      if wf_p lgk rfz pbits then
        let th0 := starting_theta (zN pbits) in
        (reg_set s r (SUn (2 ^ zN lgk) th0 (union_new unit (zN lgk) (zN rfz) th0 (compute_seed_hash (z_to_u64 seed))) []),
         (ok, []))
      else (s, (refused, []))
  | 11 :: r :: a :: form :: _ =>
      match reg_get s r, (match reg_get s a with Some g => present g form | None => None end) with
      | Some (SUn k th0 u log), Some i =>
          match t_union_update u i with
          | Some u' => (reg_set s r (SUn k th0 u' (log ++ [i])), (ok, []))
          | None => (s, (refused, []))
          end
      | _, _ => (s, (refused, []))
      end
  | 12 :: r :: ord :: dst =>
      match reg_get s r with
      | Some (SUn k th0 u log) =>
          let res := t_union_result u (negb (ord =? 0)) in
          (store s dst res, (in_summary res, spec_line (spec_union unit (N.to_nat k) th0 log)))
      | _ => (s, (refused, []))
      end
  | 13 :: r :: _ =>
      match reg_get s r with
      | Some (SUn k th0 u log) => (reg_set s r (SUn k th0 (union_reset unit u) []), (ok, []))
      | _ => (s, (refused, []))
      end
  (* operator objects as values: kind 0 copy-construct dst from src, 1 copy-assign, 2 move-construct, 3 move-assign
     (1, 3: dst must already hold an object of the same kind; 2, 3: src is gone afterwards and must differ from dst).
     Assignment = copy of the state *)
  | 14 :: dst :: src :: kind :: _ =>
      match reg_get s src, reg_get s dst with
      | Some (SUn k th0 u log), d =>
          let dst_ok := match d with Some (SUn _ _ _ _) => true | _ => false end in
          let moving := (kind =? 2) || (kind =? 3) in
          if ((kind =? 1) || (kind =? 3)) && negb dst_ok then (s, (refused, []))
          else if moving && (dst =? src) then (s, (refused, []))
          else (reg_set (if moving then reg_del s src else s) dst (SUn k th0 u log), (ok, []))
      | _, _ => (s, (refused, []))
      end
  | 15 :: r :: lgk :: rfz :: pbits :: seed :: _ =>       (* u = builder.build(): move-assignment from a fresh object *)
      match reg_get s r with
      | Some (SUn _ _ _ _) =>
          if wf_p lgk rfz pbits then
            let th0 := starting_theta (zN pbits) in
            (reg_set s r (SUn (2 ^ zN lgk) th0 (union_new unit (zN lgk) (zN rfz) th0 (compute_seed_hash (z_to_u64 seed))) []),
             (ok, []))
          else (s, (refused, []))
      | _ => (s, (refused, []))
      end
  (* ---- intersection ---- *)
  | 20 :: r :: seed :: _ =>
      (reg_set s r (SIn (inter_new unit (compute_seed_hash (z_to_u64 seed))) []), (ok, []))
  | 21 :: r :: a :: form :: _ =>
      match reg_get s r, (match reg_get s a with Some g => present g form | None => None end) with
      | Some (SIn x log), Some i =>
          match t_inter_update x i with
          | Some x' => (reg_set s r (SIn x' (log ++ [i])), (ok, []))
          | None => (s, (refused, []))
          end
      | _, _ => (s, (refused, []))
      end
  | 22 :: r :: ord :: dst =>
      match reg_get s r with
      | Some (SIn x log) =>
          match t_inter_result x (negb (ord =? 0)) with
          | Some res => (store s dst res, (in_summary res, spec_line (spec_inter unit log)))
          | None => (s, (refused, []))
          end
      | _ => (s, (refused, []))
      end
  | 23 :: r :: _ =>
      match reg_get s r with
      | Some (SIn x log) => (s, ([bz (inter_has_result unit x)], [bz (negb (length log =? 0)%nat)]))
      | _ => (s, (refused, []))
      end
  | 24 :: dst :: src :: kind :: _ =>
      match reg_get s src, reg_get s dst with
      | Some (SIn x log), d =>
          let dst_ok := match d with Some (SIn _ _) => true | _ => false end in
          let moving := (kind =? 2) || (kind =? 3) in
          if ((kind =? 1) || (kind =? 3)) && negb dst_ok then (s, (refused, []))
          else if moving && (dst =? src) then (s, (refused, []))
          else (reg_set (if moving then reg_del s src else s) dst (SIn x log), (ok, []))
      | _, _ => (s, (refused, []))
      end
  | 25 :: r :: seed :: _ =>                               (* in = theta_intersection(seed) *)
      match reg_get s r with
      | Some (SIn _ _) => (reg_set s r (SIn (inter_new unit (compute_seed_hash (z_to_u64 seed))) []), (ok, []))
      | _ => (s, (refused, []))
      end
  (* ---- A-not-B ---- *)
  | 30 :: seed :: a :: fa :: b :: fb :: ord :: dst =>
      match (match reg_get s a with Some g => present g fa | None => None end),
            (match reg_get s b with Some g => present g fb | None => None end) with
      | Some ia, Some ib =>
          match t_a_not_b (compute_seed_hash (z_to_u64 seed)) ia ib (negb (ord =? 0)) with
          | Some res =>
              let early := in_empty ia || ((0 <? in_num ia)%N && in_empty ib) in
              (store s dst res,
               (in_summary res,
                if early then 1 :: spec_line (in_theta ia, in_empty ia, sortN (in_keys ia))
                else 0 :: spec_line (spec_a_not_b unit ia ib)))
          | None => (s, (refused, []))
          end
      | _, _ => (s, (refused, []))
      end
  (* ---- Jaccard, exactly_equal, ratio bounds ---- *)
  | 40 :: seed :: a :: fa :: b :: fb :: _ =>
      match (match reg_get s a with Some g => present g fa | None => None end),
            (match reg_get s b with Some g => present g fb | None => None end) with
      | Some ia, Some ib =>
          let same := (a =? b) && (fa =? 0) && (fb =? 0) in
          match t_jaccard (compute_seed_hash (z_to_u64 seed)) same ia ib with
          | Some (l, m, u) =>
              let exact := f_is_one (in_theta ia) && f_is_one (in_theta ib) in
              (s, (jtriple_line exact (l, m, u),
                   [bz exact; bz same; bz (in_empty ia); bz (in_empty ib);
                    Nz (fst (spec_jaccard unit ia ib)); Nz (snd (spec_jaccard unit ia ib))]))
          | None => (s, (refused, []))
          end
      | _, _ => (s, (refused, []))
      end
  | 41 :: seed :: a :: fa :: b :: fb :: _ =>
      match (match reg_get s a with Some g => present g fa | None => None end),
            (match reg_get s b with Some g => present g fb | None => None end) with
      | Some ia, Some ib =>
          let same := (a =? b) && (fa =? 0) && (fb =? 0) in
          match t_exactly_equal (compute_seed_hash (z_to_u64 seed)) same ia ib with
          | Some r =>
              (s, ([bz r], [bz (f_is_one (in_theta ia) && f_is_one (in_theta ib)); bz same; bz (in_empty ia); bz (in_empty ib);
                            bz (spec_equal unit ia ib)]))
          | None => (s, (refused, []))
          end
      | _, _ => (s, (refused, []))
      end
  | 42 :: a :: fa :: b :: fb :: _ =>                     (* ratio bounds of B over A *)
      match (match reg_get s a with Some g => present g fa | None => None end),
            (match reg_get s b with Some g => present g fb | None => None end) with
      | Some ia, Some ib =>
          match ratio_bounds unit ia ib with
          | Some (l, m, u) =>
              (s, (jtriple_line (f_is_one (in_theta ib)) (l, m, u),
                   [bz (f_is_one (in_theta ib)); Nz (fst (spec_ratio unit ia ib)); Nz (snd (spec_ratio unit ia ib))]))
          | None => (s, (refused, []))
          end
      | _, _ => (s, (refused, []))
      end
  | _ => (s, ([-2], []))
  end.

Definition run (ops : list opline) : list outline := run_case step [] ops.
