(* FiSerProofs.v — the serialized image of the frequent-items sketch (FiDefs.sk_serialize / sk_deserialize, the byte
   layout compared with the C++ on every run): deserialize (serialize s) is the semantic round trip sk_roundtrip s
   (fresh sketch of the same sizes, counters re-inserted in iterator order, total and offset restored), hence —
   with FiRefine — a reachable sketch that is not "purged empty" comes back as a reachable sketch for the same stream. *)
From Coq Require Import ZArith NArith List Bool Lia Arith PeanoNat Permutation.
From DS Require Import Word Murmur3 RunnerLib FiDefs FiProofs FiMapProofs FiDelProofs FiIterProofs FiRefine.
Import ListNotations.
Local Open Scope Z_scope.

Ltac Zify.zify_post_hook ::= Z.div_mod_to_equations.

Lemma le_enc_length n v : length (le_enc n v) = n.
Proof. revert v. induction n as [|n IH]; intros v; simpl; auto. Qed.

Lemma le_dec_enc n : forall v, 0 <= v < 256 ^ Z.of_nat n -> le_dec (le_enc n v) = v.
Proof.
  induction n as [|n IH]; intros v Hv.
  - simpl in *. lia.
  - rewrite Nat2Z.inj_succ, Z.pow_succ_r in Hv by lia.
    cbn [le_enc le_dec]. rewrite IH by lia. lia.
Qed.

Lemma split_at_app (a b : list Z) n : length a = n -> split_at n (a ++ b) = Some (a, b).
Proof.
  intros H. unfold split_at. rewrite app_length.
  replace (n <=? length a + length b)%nat with true by (symmetry; apply Nat.leb_le; lia).
  subst n. now rewrite firstn_app, firstn_all, Nat.sub_diag, skipn_app, skipn_all, Nat.sub_diag, app_nil_r.
Qed.

Lemma split_at_cons4 a b c d (l : list Z) : split_at 4 (a :: b :: c :: d :: l) = Some ([a; b; c; d], l).
Proof. reflexivity. Qed.

Lemma de_weights_spec (ws : list Z) rest : Forall (fun w => 0 <= w < 2 ^ 64) ws ->
  de_weights (length ws) (flat_map (le_enc 8) ws ++ rest) = Some (ws, rest).
Proof.
  induction 1 as [|w ws Hw Hws IH]; [reflexivity|].
  cbn [length de_weights flat_map]. rewrite <- app_assoc.
  rewrite (split_at_app _ _ 8 (le_enc_length 8 w)). rewrite IH.
  rewrite le_dec_enc; [reflexivity|]. change (256 ^ Z.of_nat 8) with (2 ^ 64). exact Hw.
Qed.

Definition item_ok (kind : Z) (x : item) : Prop :=
  if kind =? 2 then Z.of_nat (length x) < 2 ^ 32 else exists v, x = [v] /\ 0 <= v < 2 ^ 64.

Lemma de_items_spec kind (xs : list item) rest : Forall (item_ok kind) xs ->
  de_items kind (length xs) (flat_map (ser_item kind) xs ++ rest) = Some (xs, rest).
Proof.
  induction 1 as [|x xs Hx Hxs IH]; [reflexivity|].
  cbn [length de_items flat_map]. unfold item_ok in Hx.
  destruct (kind =? 2) eqn:Ek.
  - replace (ser_item kind x) with (le_enc 4 (nz (length x)) ++ x) by (unfold ser_item; now rewrite Ek).
    rewrite <- !app_assoc. rewrite (split_at_app _ _ 4 (le_enc_length 4 _)).
    change (nz (length x)) with (Z.of_nat (length x)).
    rewrite le_dec_enc by (change (256 ^ Z.of_nat 4) with (2 ^ 32); lia).
    rewrite Nat2Z.id, (split_at_app x _ (length x) eq_refl), IH. reflexivity.
  - destruct Hx as [v [-> Hv]].
    replace (ser_item kind [v]) with (le_enc 8 v) by (unfold ser_item; now rewrite Ek).
    rewrite <- app_assoc.
    rewrite (split_at_app _ _ 8 (le_enc_length 8 _)), IH.
    rewrite le_dec_enc; [reflexivity|]. change (256 ^ Z.of_nat 8) with (2 ^ 64). exact Hv.
Qed.

Lemma flat_map_map {A B C} (f : B -> list C) (g : A -> B) (l : list A) :
  flat_map f (map g l) = flat_map (fun x => f (g x)) l.
Proof. induction l; simpl; auto. now rewrite IHl. Qed.

Lemma replay_combine kind (es : list (cell item)) s0 :
  fold_left (fun s xw => upd kind s (fst xw) (snd xw)) (combine (map (ck item) es) (map (cv item) es)) s0 =
  sk_replay item item_eqb (fi_hash kind) s0 es.
Proof. unfold sk_replay, upd. revert s0. induction es as [|c es IH]; intros s0; simpl; auto. Qed.

(* the values fit their fields (no overflow of the weight type, fewer than 2^32 counters, sizes are bytes) *)
Record SerOk (kind : Z) (s : sk) : Prop := {
  so_tot : 0 <= sk_tot _ s < 2 ^ 64;
  so_off : 0 <= sk_off _ s < 2 ^ 64;
  so_nact : 0 <= nact _ (sk_map _ s) < 2 ^ 32;
  so_len : nact _ (sk_map _ s) = Z.of_nat (length (entries item (sk_map _ s)));
  so_lg : (3 <= lgc _ (sk_map _ s) <= lgm _ (sk_map _ s))%N;
  so_cv : Forall (fun c => 0 <= cv _ c < 2 ^ 64) (entries item (sk_map _ s));
  so_ck : Forall (fun c => item_ok kind (ck _ c)) (entries item (sk_map _ s))
}.

Theorem ser_roundtrip kind (s : sk) : SerOk kind s ->
  sk_deserialize kind (sk_serialize kind s) = Some (sk_roundtrip item item_eqb (fi_hash kind) s).
Proof.
  intros [Ht Ho Hn Hl [Hg1 Hg2] Hcv Hck]. unfold sk_serialize, sk_roundtrip.
  set (m := sk_map _ s) in *.
  assert (Elg : (Nz (lgm _ m) <? Nz (lgc _ m)) = false) by (unfold Nz; apply Z.ltb_ge; lia).
  assert (Elc : (Nz (lgc _ m) <? 3) = false) by (unfold Nz; apply Z.ltb_ge; lia).
  assert (Em : zN (Nz (lgm _ m)) = lgm _ m) by (unfold zN, Nz; apply N2Z.id).
  assert (Ec : zN (Nz (lgc _ m)) = lgc _ m) by (unfold zN, Nz; apply N2Z.id).
  destruct (nact _ m =? 0) eqn:E0.
  - cbn [sk_deserialize]. change (Z.land 5 5 =? 0) with false. cbn [negb].
    rewrite Elg, Elc. cbn [Z.eqb negb orb Pos.eqb]. now rewrite Em, Ec.
  - set (es := entries item m) in *.
    cbn [app sk_deserialize]. change (Z.land 0 5 =? 0) with true. cbn [negb].
    rewrite Elg, Elc. cbn [Z.eqb negb orb Pos.eqb].
    rewrite (split_at_app _ _ 4 (le_enc_length 4 _)).
    rewrite split_at_cons4.
    rewrite (split_at_app _ _ 8 (le_enc_length 8 _)).
    rewrite (split_at_app _ _ 8 (le_enc_length 8 _)).
    rewrite le_dec_enc by (change (256 ^ Z.of_nat 4) with (2 ^ 32); lia).
    rewrite Hl, Nat2Z.id.
    replace (flat_map (fun c => le_enc 8 (cv _ c)) es) with (flat_map (le_enc 8) (map (cv item) es))
      by (rewrite flat_map_map; reflexivity).
    replace (flat_map (fun c => ser_item kind (ck _ c)) es) with (flat_map (ser_item kind) (map (ck item) es))
      by (rewrite flat_map_map; reflexivity).
    rewrite <- (map_length (cv item) es) at 1.
    rewrite de_weights_spec by (rewrite Forall_map; exact Hcv).
    rewrite <- (app_nil_r (flat_map (ser_item kind) (map (ck item) es))).
    rewrite <- (map_length (ck item) es) at 1.
    rewrite de_items_spec by (rewrite Forall_map; exact Hck).
    rewrite replay_combine, Em, Ec.
    rewrite !le_dec_enc by (change (256 ^ Z.of_nat 8) with (2 ^ 64); lia).
    reflexivity.
Qed.
