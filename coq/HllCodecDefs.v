(* HllCodecDefs.v — executable model of the hll_sketch serialization (no proofs here).
   Layout (little endian), from HllUtil.hpp (hll_constants) and the writers CouponList::serialize / HllArray::serialize:
     byte 0 preamble ints (2 list, 3 set, 10 HLL)   byte 1 serial version 1   byte 2 family 7   byte 3 lg_k
     byte 4 lg of the coupon array (list: 3, set: lg table size) or of the aux table (HLL_4 with exceptions, else 0)
     byte 5 flags: 4 empty, 8 compact, 16 out of order, 32 started full size
     byte 6 list: coupon count; set: 0; HLL: cur_min     byte 7 mode (0 list, 1 set, 2 HLL) | target type (0 HLL_4, 1 HLL_6, 2 HLL_8) << 2
     list: coupons from byte 8 (compact: the count stored coupons; updatable: all 8 slots)
     set : bytes 8-11 coupon count, coupons from byte 12 (compact: the non-empty slots in table order; updatable: the whole table)
     HLL : 8-15 hipAccum, 16-23 kxq0, 24-31 kxq1 (binary64), 32-35 num_at_cur_min, 36-39 aux count, from 40 the register
           byte array (HLL_4 2^(lg_k-1), HLL_6 3*2^lg_k/4 + 1, HLL_8 2^lg_k bytes), then for HLL_4 the aux pairs
           (compact: the non-empty table cells in table order; updatable: the whole table, or an all-zero table of
           4 << LG_AUX_ARR_INTS[lg_k] bytes when there is no aux map).
   Two decoders, field by field as the two readers of the code (hll_sketch::deserialize(bytes, len) and (istream&)) WITH the
   checks of the repaired readers (fixes/11_hll_reader_bounds.patch): lg_k in 4..21 (set: 8..21), list count <= 8, set count
   within the 3/4 load of the largest table, updatable set table <= 2^lg_k cells, num_at_cur_min <= k, aux only for HLL_4,
   aux count <= k, aux table lg <= lg_k + 1, every count = the number of entries actually present (no empty coupon / pair in a compact image).
   kxq0 / kxq1 are carried exactly (units 2^-31 / 2^-63) by HllDefs; their binary64 patterns are computed here ([kbits]).
   hipAccum is not modelled: its pattern is an input of the encoder (read from the object by the harness). *)
From Coq Require Import ZArith NArith List Bool.
From DS Require Import Word Murmur3 RunnerLib HllDefs.
From DS Require KllCodecDefs.
Import ListNotations.
Local Open Scope N_scope.

(* ---------- little endian ---------- *)
Definition le32 (x : N) : list N := [x mod 256; x / 256 mod 256; x / 65536 mod 256; x / 16777216 mod 256].
Definition le64 (x : N) : list N := le32 (x mod 4294967296) ++ le32 (x / 4294967296 mod 4294967296).

Fixpoint rd_le (bs : list N) : N :=
  match bs with
  | [] => 0
  | b :: r => b + 256 * rd_le r
  end.

Fixpoint rd32s (bs : list N) : list N :=
  match bs with
  | a :: b :: c :: d :: t => (a + 256 * b + 65536 * c + 16777216 * d) :: rd32s t
  | _ => []
  end.

Definition take (n : N) (bs : list N) : option (list N * list N) :=
  if n <=? lenN bs then Some (firstn (N.to_nat n) bs, skipn (N.to_nat n) bs) else None.

(* ---------- binary64 pattern of K * 2^-e, 0 <= K < 2^53 (exact) ---------- *)
Definition kbits (e : Z) (K : Z) : N :=
  if (K =? 0)%Z then 0 else Z.to_N (KllCodecDefs.dbl_bits K - e * 2 ^ 52)%Z.
Definition kunbits (e : Z) (u : N) : option Z :=
  if u =? 0 then Some 0%Z else KllCodecDefs.dbl_int (Z.of_N u + e * 2 ^ 52)%Z.

(* ---------- header bytes ---------- *)
Definition ty_code (t : tgt) : N := match t with T4 => 0 | T6 => 1 | T8 => 2 end.
Definition mode_byte (m : N) (t : tgt) : N := m + 4 * ty_code t.
Definition flags_byte (empty compact ooo full : bool) : N :=
  (if empty then 4 else 0) + (if compact then 8 else 0) + (if ooo then 16 else 0) + (if full then 32 else 0).

Definition aux_lg (ax : option auxmap) : N := match ax with Some a => a_lg a | None => 0 end.
Definition aux_cnt (ax : option auxmap) : N := match ax with Some a => a_cnt a | None => 0 end.

(* ---------- encoder ---------- *)
Definition enc_aux (compact : bool) (lgk : N) (ax : option auxmap) : list N :=
  match ax with
  | Some a => flat_map le32 (if compact then nonzero (a_ent a) else a_ent a)
  | None => if compact then [] else zerosN (4 * 2 ^ lg_aux_arr_ints lgk)
  end.

Definition enc_with (compact : bool) (hip k0 k1 : N) (i : impl) : list N :=
  match i with
  | IList l =>
      [2; 1; 7; l_lgk l; 3; flags_byte (l_cnt l =? 0) compact (l_ooo l) false; l_cnt l mod 256; mode_byte 0 (l_ty l)]
      ++ flat_map le32 (if compact then nonzero (l_arr l) else l_arr l)
  | ISet s =>
      [3; 1; 7; s_lgk s; s_lg s; flags_byte (s_cnt s =? 0) compact (s_ooo s) false; 0; mode_byte 1 (s_ty s)]
      ++ le32 (s_cnt s) ++ flat_map le32 (if compact then nonzero (s_arr s) else s_arr s)
  | IHll h =>
      [10; 1; 7; h_lgk h; aux_lg (h_aux h); flags_byte (sk_is_empty i) compact (h_ooo h) (h_full h); h_curmin h;
       mode_byte 2 (h_ty h)]
      ++ le64 hip ++ le64 k0 ++ le64 k1 ++ le32 (h_numat h) ++ le32 (aux_cnt (h_aux h)) ++ h_bytes h
      ++ (match h_ty h with T4 => enc_aux compact (h_lgk h) (h_aux h) | _ => [] end)
  end.

Definition k0_of (i : impl) : N := match i with IHll h => kbits 31 (h_kxq0 h) | _ => 0 end.
Definition k1_of (i : impl) : N := match i with IHll h => kbits 63 (h_kxq1 h) | _ => 0 end.

Definition enc (compact : bool) (hip : N) (i : impl) : list N := enc_with compact hip (k0_of i) (k1_of i) i.

(* get_compact_serialization_bytes / get_updatable_serialization_bytes *)
Definition enc_size (compact : bool) (i : impl) : N :=
  match i with
  | IList l => 8 + 4 * (if compact then l_cnt l else 8)
  | ISet s => 12 + 4 * (if compact then s_cnt s else 2 ^ s_lg s)
  | IHll h => 40 + arr_bytes (h_ty h) (h_lgk h) +
              match h_ty h with
              | T4 => match h_aux h with
                      | Some a => 4 * (if compact then a_cnt a else 2 ^ a_lg a)
                      | None => if compact then 0 else 4 * 2 ^ lg_aux_arr_ints (h_lgk h)
                      end
              | _ => 0
              end
  end.

(* ---------- decoders ---------- *)
(* decoded object: the sketch, and the three doubles exactly as read *)
Record dstate := { d_impl : impl; d_hip : N; d_k0 : N; d_k1 : N }.

Definition ty_of_code (c : N) : option tgt :=
  match c with 0 => Some T4 | 1 => Some T6 | 2 => Some T8 | _ => None end.
Definition flag (f m : N) : bool := negb (N.land f m =? 0).

(* ceiling_power_of_2 (n >= 1, below 2^31) and HllUtil::computeLgArrInts for SET (init 5) / HLL aux (init from the table) *)
Definition ceil_pow2 (n : N) : N := if n <=? 1 then 1 else 2 ^ (N.log2 (n - 1) + 1).
Definition compute_lg (init count : N) : option N :=
  if count =? 0 then None                                  (* simpleIntLog2(0) throws *)
  else let c := ceil_pow2 count in
       let c' := if 3 * c <? 4 * count then 2 * c else c in
       Some (N.max init (N.log2 c')).

Definition pad_to (n : N) (l : list N) : list N := firstn (N.to_nat n) (l ++ zerosN n).

(* the 8 header bytes shared by the three kinds *)
Definition hdr_ok (pre : N) (h : list N) : bool :=
  (getN h 0 =? pre) && (getN h 1 =? 1) && (getN h 2 =? 7).

Definition insert_all (s : cset) (cs : list N) : option cset :=
  ofold (fun s c => match set_insert s c with Some (s', _) => Some s' | None => None end) cs s.

Definition aux_empty (lg : N) : auxmap := {| a_lg := lg; a_cnt := 0; a_ent := zerosN (2 ^ lg) |}.
Definition aux_add_pairs (lgk : N) (a : auxmap) (pairs : list N) : option auxmap :=
  ofold (fun a p => aux_must_add a lgk (N.land (c_low26 p) (N.ones lgk)) (c_val p)) pairs a.

(* ----- LIST ----- *)
Definition dec_list (stream : bool) (bs : list N) : option (dstate * list N) :=
  match take 8 bs with
  | None => None
  | Some (h, r) =>
      if negb (hdr_ok 2 h) then None else
      if negb (N.land (getN h 7) 3 =? 0) then None else
      match ty_of_code (N.land (N.shiftr (getN h 7) 2) 3) with
      | None => None
      | Some ty =>
          let lgk := getN h 3 in
          let f := getN h 5 in
          let compact := flag f 8 in let ooo := flag f 16 in let empty := flag f 4 in
          let cnt := getN h 6 in
          if negb ((4 <=? lgk) && (lgk <=? 21)) then None else
          if 8 <? cnt then None else
          let in_image := if compact then cnt else 8 in
          (* the stream reader reads nothing from a compact image flagged empty; the bytes reader needs the whole
             advertised array in the buffer but copies only [cnt] coupons, and none when the image is flagged empty *)
          let need := if stream && empty && compact then 0 else in_image in
          match take (4 * need) r with
          | None => None
          | Some (cb, r') =>
              let cps := rd32s cb in
              let arr :=
                if stream then pad_to 8 cps
                else (if empty then zerosN 8 else pad_to 8 (firstn (N.to_nat cnt) cps)) in
              (* the count must be the number of coupons present *)
              if negb (lenN (nonzero arr) =? cnt) then None else
              Some ({| d_impl := IList {| l_lgk := lgk; l_ty := ty; l_ooo := ooo; l_cnt := cnt; l_arr := arr |};
                       d_hip := 0; d_k0 := 0; d_k1 := 0 |}, r')
          end
      end
  end.

(* ----- SET ----- *)
Definition dec_set (stream : bool) (bs : list N) : option (dstate * list N) :=
  match take 12 bs with
  | None => None
  | Some (h, r) =>
      if negb (hdr_ok 3 h) then None else
      if negb (N.land (getN h 7) 3 =? 1) then None else
      match ty_of_code (N.land (N.shiftr (getN h 7) 2) 3) with
      | None => None
      | Some ty =>
          let lgk := getN h 3 in
          let compact := flag (getN h 5) 8 in
          let cnt := rd_le (skipn 8 h) in
          if negb ((8 <=? lgk) && (lgk <=? 21)) then None else
          if 3 * 2 ^ (lgk - 3) <? 4 * cnt then None else
          match (if getN h 4 <? 5 then compute_lg 5 cnt else Some (getN h 4)) with
          | None => None
          | Some lg =>
              if compact then
                match take (4 * cnt) r with
                | None => None
                | Some (cb, r') =>
                    if existsb (N.eqb 0) (rd32s cb) then None else
                    match insert_all (set_new lgk ty) (rd32s cb) with
                    | Some s => if s_cnt s =? cnt then Some ({| d_impl := ISet s; d_hip := 0; d_k0 := 0; d_k1 := 0 |}, r') else None
                    | None => None
                    end
                end
              else
                if lgk <? lg then None else
                match take (4 * 2 ^ lg) r with
                | None => None
                | Some (cb, r') =>
                    if negb (lenN (nonzero (rd32s cb)) =? cnt) then None else
                    Some ({| d_impl := ISet {| s_lgk := lgk; s_ty := ty; s_ooo := false; s_lg := lg; s_cnt := cnt; s_arr := rd32s cb |};
                             d_hip := 0; d_k0 := 0; d_k1 := 0 |}, r')
                end
          end
      end
  end.

(* ----- HLL ----- *)
Definition kz (e : Z) (u : N) : Z := match kunbits e u with Some k => k | None => 0%Z end.

Definition dec_aux (stream compact : bool) (lgk lgbyte cnt : N) (r : list N) : option (option auxmap * list N) :=
  if compact then
    match compute_lg (lg_aux_arr_ints lgk) cnt with
    | None => None
    | Some lg =>
        match take (4 * cnt) r with
        | None => None
        | Some (cb, r') =>
            if existsb (N.eqb 0) (rd32s cb) then None else
            match aux_add_pairs lgk (aux_empty lg) (rd32s cb) with
            | Some a => if a_cnt a =? cnt then Some (Some a, r') else None
            | None => None
            end
        end
    end
  else
    if lgk + 1 <? lgbyte then None else
    match take (4 * 2 ^ lgbyte) r with
    | None => None
    | Some (cb, r') =>
        match aux_add_pairs lgk (aux_empty lgbyte) (nonzero (rd32s cb)) with
        | Some a => if a_cnt a =? cnt then Some (Some a, r') else None
        | None => None
        end
    end.

(* the aux area after the register array: the aux map (HLL_4 with exceptions), or the unused area of an updatable HLL_4
   image: the stream reader consumes it, the bytes reader does not look at it (reserved padding) *)
Definition dec_aux_area (stream compact : bool) (ty : tgt) (lgk lgbyte auxcnt : N) (r1 : list N) : option (option auxmap * list N) :=
  if 0 <? auxcnt then dec_aux stream compact lgk lgbyte auxcnt r1
  else if tgt_eqb ty T4 && negb compact then
    let lgb := if 0 <? lgbyte then lgbyte else lg_aux_arr_ints lgk in
    if stream then match take (4 * 2 ^ lgb) r1 with Some (_, r2) => Some (None, r2) | None => None end
    else Some (None, skipn (N.to_nat (4 * 2 ^ lgb)) r1)
  else Some (None, r1).

Definition dec_hll (stream : bool) (bs : list N) : option (dstate * list N) :=
  match take 40 bs with
  | None => None
  | Some (h, r) =>
      if negb (hdr_ok 10 h) then None else
      if negb (N.land (getN h 7) 3 =? 2) then None else
      match ty_of_code (N.land (N.shiftr (getN h 7) 2) 3) with
      | None => None
      | Some ty =>
          let lgk := getN h 3 in
          let f := getN h 5 in
          let compact := flag f 8 in let ooo := flag f 16 in let full := flag f 32 in
          let curmin := getN h 6 in
          let hip := rd_le (firstn 8 (skipn 8 h)) in
          let k0 := rd_le (firstn 8 (skipn 16 h)) in
          let k1 := rd_le (firstn 8 (skipn 24 h)) in
          let numat := rd_le (firstn 4 (skipn 32 h)) in
          let auxcnt := rd_le (firstn 4 (skipn 36 h)) in
          if negb ((4 <=? lgk) && (lgk <=? 21)) then None else
          if 2 ^ lgk <? numat then None else
          if (0 <? auxcnt) && negb (tgt_eqb ty T4) then None else
          if 2 ^ lgk <? auxcnt then None else
          if tgt_eqb ty T4 && negb compact && (lgk + 1 <? getN h 4) then None else
          match take (arr_bytes ty lgk) r with
          | None => None
          | Some (ab, r1) =>
              let oaux := dec_aux_area stream compact ty lgk (getN h 4) auxcnt r1 in
              match oaux with
              | None => None
              | Some (ax, r2) =>
                  Some ({| d_impl := IHll {| h_lgk := lgk; h_ty := ty; h_full := full; h_ooo := ooo; h_rebuild := false;
                                             h_bytes := ab; h_curmin := curmin; h_numat := numat;
                                             h_kxq0 := kz 31 k0; h_kxq1 := kz 63 k1; h_aux := ax |};
                           d_hip := if ooo then 0 else hip; d_k0 := k0; d_k1 := k1 |}, r2)
              end
          end
      end
  end.

(* HllSketchImplFactory::deserialize: dispatch on the first byte *)
Definition dec_gen (stream : bool) (bs : list N) : option (dstate * list N) :=
  match bs with
  | [] => None
  | b :: _ => if b =? 10 then dec_hll stream bs else if b =? 3 then dec_set stream bs else if b =? 2 then dec_list stream bs else None
  end.

Definition dec_stream (bs : list N) : option (dstate * list N) := dec_gen true bs.
Definition dec_bytes (bs : list N) : option dstate :=
  match dec_gen false bs with Some (d, _) => Some d | None => None end.

(* ---------- line protocol: the operations of HllDefs plus the codec operations ----------
   codec state = registers of HllDefs + for decoded registers the doubles as read (hip, kxq0, kxq1 patterns)
     20 r compact          E hip : R = the image (serialize_compact / serialize_updatable of r)
     21 r2 r compact via   E hip : r2 := deserialize(serialize(r)) through the bytes (via 0) or stream (via 1) reader; R 1 / -1
     22 r2 via bytes             : r2 := deserialize(bytes); R = 1 (bytes) | 1 consumed (stream) | -1
     23 r                  E hip k0 k1 : codec-level dump of r (see [dump])
     24 lgk ty coupons           : harness only: F = updatable image of a fresh sketch fed the coupons; R = 1 *)
Definition ctab := list (Z * (N * N * N)).
Definition cstate : Type := list (Z * reg) * ctab.

Definition zN32 (z : Z) : N := zN z.

Definition doubles_of (t : ctab) (r : Z) (hip : N) (i : impl) : N * N * N :=
  match reg_get t r with
  | Some d => d
  | None => (hip, k0_of i, k1_of i)
  end.

Definition dump (i : impl) (d : N * N * N) : line :=
  let '(hip, k0, k1) := d in
  let head := [Nz (sk_lgk i); Z_of_tgt (sk_ty i);
               match i with IList _ => 0%Z | ISet _ => 1%Z | IHll _ => 2%Z end; bz (sk_ooo i)] in
  match i with
  | IList l => head ++ Nz (l_cnt l) :: map Nz (l_arr l)
  | ISet s => head ++ Nz (s_cnt s) :: Nz (s_lg s) :: map Nz (sort_distinct (nonzero (s_arr s)))
  | IHll h => head ++ [bz (h_full h); Nz (h_curmin h); Nz (h_numat h); Nz hip; Nz k0; Nz k1; Nz (aux_lg (h_aux h)); Nz (aux_cnt (h_aux h))]
                   ++ map Nz (match h_aux h with Some a => sort_distinct (nonzero (a_ent a)) | None => [] end)
                   ++ map Nz (h_bytes h)
  end.

Definition dec_via (via : Z) (bs : list N) : option (dstate * N) :=
  if (via =? 0)%Z then match dec_bytes bs with Some d => Some (d, 0) | None => None end
  else match dec_stream bs with Some (d, rest) => Some (d, lenN bs - lenN rest) | None => None end.

Definition regs_of_update (o : line) : list Z :=
  match o with
  | 1%Z :: r :: _ => [r]
  | 2%Z :: m :: rest => firstn (zn m) rest
  | 3%Z :: m :: rest => firstn (zn m) rest
  | 4%Z :: m :: rest => firstn (zn m) rest
  | 7%Z :: _ :: r2 :: _ => [r2]
  | 8%Z :: _ :: r2 :: _ => [r2]
  | 9%Z :: r :: _ => [r]
  | _ => []
  end.

Definition cstep (cs : cstate) (o e : line) : cstate * outline :=
  let '(s, t) := cs in
  match o with
  | 20%Z :: r :: compact :: _ =>
      match reg_get s r with
      | Some x =>
          let '(hip, k0, k1) := doubles_of t r (zN (hd 0%Z e)) (r_impl x) in
          (cs, (map Nz (enc_with (negb (compact =? 0)%Z) (zN (hd 0%Z e)) k0 k1 (r_impl x)), []))
      | None => (cs, (refused, []))
      end
  | 21%Z :: r2 :: r :: compact :: via :: _ =>
      match reg_get s r with
      | Some x =>
          let '(hip, k0, k1) := doubles_of t r (zN (hd 0%Z e)) (r_impl x) in
          match dec_via via (enc_with (negb (compact =? 0)%Z) (zN (hd 0%Z e)) k0 k1 (r_impl x)) with
          | Some (d, _) =>
              ((reg_set s r2 {| r_impl := d_impl d; r_g := r_g x |}, reg_set t r2 (d_hip d, d_k0 d, d_k1 d)), (ok, []))
          | None => (cs, (refused, []))
          end
      | None => (cs, (refused, []))
      end
  | 22%Z :: r2 :: via :: bytes =>
      match dec_via via (map zN bytes) with
      | Some (d, consumed) =>
          ((reg_set s r2 {| r_impl := d_impl d; r_g := ghost_new (sk_lgk (d_impl d)) |}, reg_set t r2 (d_hip d, d_k0 d, d_k1 d)),
           ((if (via =? 0)%Z then [1%Z] else [1%Z; Nz consumed]), []))
      | None => (cs, (refused, []))
      end
  | 23%Z :: r :: _ =>
      match reg_get s r with
      | Some x => (cs, (dump (r_impl x) (doubles_of t r (zN (hd 0%Z e)) (r_impl x)), []))
      | None => (cs, (refused, []))
      end
  | 24%Z :: _ => (cs, (ok, []))                        (* image of a scratch sketch, read by the oracle only (F line) *)
  | _ =>
      let '(s', out) := step s o e in
      ((s', fold_left (fun t r => reg_del t r) (regs_of_update o) t), out)
  end.

Definition crun (ops : list opline) : list outline := run_case cstep ([], []) ops.
