(* ThetaSetANotB.v — A-not-B (theta_set_difference_base::compute): the three ways of computing the difference
   (plain filter when B has no entries, std::set_difference on two ordered inputs, hash table of B's keys
   otherwise) all produce  filter (keep th (keys B)) (entries A);  the result is a well-formed sketch whose
   (theta, is_empty, sorted keys) is the L0 specification spec_a_not_b; early returns copy A; a seed-hash
   mismatch is refused. *)
From Coq Require Import ZArith NArith List Bool Lia Permutation Sorted Arith.
From DS Require Import Word RunnerLib OpenAddr KSmallest Canon ThetaDefs ThetaProofs ThetaRefine ThetaFacts ThetaSetDefs ThetaSetWf.
Import ListNotations.
Local Open Scope N_scope.

Section ANotB.
  Variable S : Type.

  Definition keep (th : N) (bk : list N) (e : N * S) : bool := (fst e <? th) && negb (mem (fst e) bk).

  (* ---- small facts ---- *)
  Lemma mem_cons h k l : mem h (k :: l) = (h =? k) || mem h l.
  Proof. reflexivity. Qed.

  Lemma keep_nil th e : keep th [] e = (fst e <? th).
  Proof. unfold keep. cbn [mem existsb negb]. apply andb_true_r. Qed.

  Lemma keep_cons_ne th k l e : fst e <> k -> keep th (k :: l) e = keep th l e.
  Proof.
    intros Hne. unfold keep. rewrite mem_cons. apply N.eqb_neq in Hne. rewrite Hne. reflexivity.
  Qed.

  Lemma keep_cons_eq th k l e : fst e = k -> keep th (k :: l) e = false.
  Proof.
    intros He. unfold keep. rewrite mem_cons. apply N.eqb_eq in He. rewrite He. cbn [orb negb]. apply andb_false_r.
  Qed.

  Lemma filter_keep_nil th (l : list (N * S)) : filter (keep th []) l = filter (fun e => fst e <? th) l.
  Proof. apply filter_ext. intros e. apply keep_nil. Qed.

  Lemma ss_tail (x : N * S) l : StronglySorted (klt fst) (x :: l) ->
    StronglySorted (klt fst) l /\ forall e, In e l -> fst x < fst e.
  Proof.
    intros H. inversion H; subst. split; auto. intros e He. rewrite Forall_forall in H3. apply (H3 e He).
  Qed.

  Lemma filter_klt_sorted (f : N * S -> bool) l : StronglySorted (klt fst) l -> StronglySorted (klt fst) (filter f l).
  Proof.
    induction 1 as [|a r Hs IH Hf]; cbn [filter]; [constructor|]. destruct (f a); auto.
    constructor; auto. rewrite Forall_forall in *. intros x Hx. apply filter_In in Hx. apply Hf. tauto.
  Qed.

  Lemma short_klt_sorted (l : list (N * S)) : (length l <= 1)%nat -> StronglySorted (klt fst) l.
  Proof. destruct l as [|a [|b l]]; cbn [length]; intros H; try lia; repeat constructor. Qed.

  (* ---- 1. std::set_difference on two strictly increasing lists ---- *)
  Theorem set_diff_spec th a : forall b, StronglySorted (klt fst) a -> StronglySorted (klt fst) b ->
    set_diff S th a b = filter (keep th (map fst b)) a.
  Proof.
    induction a as [|x ra IH1]; intros b Ha Hb.
    - destruct b; reflexivity.
    - destruct (ss_tail _ _ Ha) as [Hra Hxa].
      induction b as [|y rb IH2].
      + cbn [map]. rewrite filter_keep_nil. reflexivity.
      + destruct (ss_tail _ _ Hb) as [Hrb Hyb].
        cbn [set_diff].
        change ((fix aux (b : list (N * S)) : list (N * S) :=
                   match b with
                   | [] => filter (fun e => fst e <? th) (x :: ra)
                   | y :: rb =>
                       if fst x <? fst y then (if fst x <? th then x :: set_diff S th ra b else set_diff S th ra b)
                       else if fst y <? fst x then aux rb
                       else set_diff S th ra rb
                   end) rb) with (set_diff S th (x :: ra) rb).
        destruct (N.ltb_spec (fst x) (fst y)) as [Hxy|Hxy].
        * (* x is below every key of b *)
          rewrite (IH1 (y :: rb) Hra Hb). cbn [filter].
          assert (Ek : keep th (map fst (y :: rb)) x = (fst x <? th)).
          { unfold keep. assert (Em : mem (fst x) (map fst (y :: rb)) = false).
            { apply mem_false. intros Hin. apply in_map_iff in Hin. destruct Hin as (e & Ee & [<-|He]); [lia|].
              specialize (Hyb e He). lia. }
            rewrite Em. apply andb_true_r. }
          rewrite Ek. reflexivity.
        * destruct (N.ltb_spec (fst y) (fst x)) as [Hyx|Hyx].
          -- (* y is below every key of a: drop it *)
             rewrite (IH2 Hrb). cbn [map]. apply filter_ext_in. intros e He. symmetry. apply keep_cons_ne.
             destruct He as [<-|He]; [lia|]. specialize (Hxa e He). lia.
          -- (* same key: drop both *)
             assert (Exy : fst x = fst y) by lia.
             rewrite (IH1 rb Hra Hrb). cbn [filter map]. rewrite (keep_cons_eq th (fst y) _ x Exy).
             apply filter_ext_in. intros e He. symmetry. apply keep_cons_ne. specialize (Hxa e He). lia.
  Qed.

  (* ---- 2. the hash-based path ---- *)
  Lemma keys_insert_iff (t t' : sketch unit) h :
    Permutation (entries unit t') ((h, tt) :: entries unit t) ->
    forall x, In x (keys unit t') <-> x = h \/ In x (keys unit t).
  Proof.
    intros Hp x. unfold keys. rewrite (perm_in_iff x (Permutation_map fst Hp)). cbn [map fst In].
    split; intros [H|H]; auto.
  Qed.

  Lemma b_loop_ok th ordered n : forall (l : list (N * S)) (t : sketch unit),
    SInv t -> lg_cur t <= lg_nom t -> rf t = 0 ->
    num t + N.of_nat (length l) <= n -> n < 2 ^ lg_cur t ->
    NoDup (map fst l) -> (forall h, In h (map fst l) -> ~ In h (keys unit t)) ->
    (ordered = true -> StronglySorted (klt fst) l) ->
    exists t', b_loop S th ordered t l = Some t' /\ SInv t' /\ num t' <= n /\ lg_cur t' = lg_cur t /\
      forall h, In h (keys unit t') <-> In h (keys unit t) \/ (In h (map fst l) /\ h < th).
  Proof.
    induction l as [|[h w] r IH]; intros t HS Hlg Hrf Hn Hcap Hnd Hdis Hord.
    - exists t. cbn [b_loop length map In] in *. split; [reflexivity|]. split; [exact HS|]. split; [lia|].
      split; [reflexivity|]. intros x. tauto.
    - cbn [b_loop]. cbn [map fst length] in *. inversion Hnd as [|? ? Hnh Hnd']; subst.
      destruct (N.ltb_spec h th) as [Hlt|Hge].
      + assert (Hnin : ~ In h (keys unit t)) by (apply Hdis; cbn [In]; auto).
        destruct (tfind_absent unit t h HS) as (j & Hj & Hfind & _); auto; [lia|].
        rewrite Hfind.
        assert (Hroom : num t + 1 < 2 ^ lg_cur t) by lia.
        destruct (insert_keeps unit sel_sort t h tt _ HS Hroom Hnin Hfind (or_intror (conj Hlg Hrf)))
          as (HS' & Hp & Hnum' & Hcfg).
        set (t1 := insert unit sel_sort t (tprobe (lg_cur t) h j) (h, tt)) in *.
        destruct Hcfg as (Ec & En & Er & _).
        pose proof (keys_insert_iff t t1 h Hp) as Hk1.
        destruct (IH t1) as (t' & Hb & HS'' & Hnum'' & Hlg'' & Hiff); auto.
        * rewrite Ec, En. exact Hlg.
        * rewrite Er. exact Hrf.
        * rewrite Hnum'. lia.
        * rewrite Ec. exact Hcap.
        * intros x Hx Hin. apply Hk1 in Hin. destruct Hin as [->|Hin]; [contradiction|].
          apply (Hdis x); cbn [In]; auto.
        * intros Ho. specialize (Hord Ho). apply ss_tail in Hord. tauto.
        * exists t'. split; [exact Hb|]. split; [exact HS''|]. split; [exact Hnum''|]. split; [congruence|].
          intros x. rewrite Hiff, Hk1. cbn [In]. split.
          -- intros [[->|H]|[H1 H2]]; auto.
          -- intros [H|[[<-|H1] H2]]; auto.
      + destruct ordered.
        * exists t. split; [reflexivity|]. split; [exact HS|]. split; [lia|]. split; [reflexivity|].
          intros x. split; [auto|]. intros [H|[[<-|H1] H2]]; auto; [lia|].
          exfalso. destruct (ss_tail _ _ (Hord eq_refl)) as [_ Hall].
          apply in_map_iff in H1. destruct H1 as (e & <- & He). specialize (Hall e He). cbn [fst] in Hall. lia.
        * destruct (IH t) as (t' & Hb & HS'' & Hnum'' & Hlg'' & Hiff); auto.
          -- lia.
          -- intros x Hx. apply Hdis. cbn [In]. auto.
          -- discriminate.
          -- exists t'. split; [exact Hb|]. split; [exact HS''|]. split; [exact Hnum''|]. split; [exact Hlg''|].
             intros x. rewrite Hiff. cbn [In]. split.
             ++ intros [H|[H1 H2]]; auto.
             ++ intros [H|[[<-|H1] H2]]; auto. lia.
  Qed.

  Lemma a_loop_ok th ordered (t : sketch unit) bk :
    SInv t -> num t < 2 ^ lg_cur t -> (forall h, In h (keys unit t) <-> In h bk /\ h < th) ->
    forall l : list (N * S), (ordered = true -> StronglySorted (klt fst) l) ->
    a_loop S th ordered t l = Some (filter (keep th bk) l).
  Proof.
    intros HS Hfree Hiff. induction l as [|[h w] r IH]; intros Hord; [reflexivity|].
    cbn [a_loop filter]. unfold keep at 1. cbn [fst].
    destruct (N.ltb_spec h th) as [Hlt|Hge].
    - cbn [andb]. destruct (in_dec N.eq_dec h (keys unit t)) as [Hin|Hnin].
      + destruct (tfind_present unit t h HS Hin) as (i & v & Hfind & _). rewrite Hfind.
        rewrite IH by (intros Ho; specialize (Hord Ho); apply ss_tail in Hord; tauto).
        assert (Em : mem h bk = true) by (apply mem_In; apply Hiff in Hin; tauto).
        rewrite Em. reflexivity.
      + destruct (tfind_absent unit t h HS Hfree Hnin) as (j & _ & Hfind & _). rewrite Hfind.
        rewrite IH by (intros Ho; specialize (Hord Ho); apply ss_tail in Hord; tauto).
        assert (Em : mem h bk = false) by (apply mem_false; intros Hb; apply Hnin, Hiff; auto).
        rewrite Em. reflexivity.
    - cbn [andb]. destruct ordered.
      + destruct (ss_tail _ _ (Hord eq_refl)) as [_ Hall]. rewrite filter_all_false; [reflexivity|].
        apply Forall_forall. intros e He. specialize (Hall e He). cbn [fst] in Hall. unfold keep.
        assert (E : (fst e <? th) = false) by (apply N.ltb_ge; lia). rewrite E. reflexivity.
      + apply IH. discriminate.
  Qed.

  Lemma key_table_ok n : 0 < n ->
    let t := key_table n in
    SInv t /\ lg_cur t <= lg_nom t /\ rf t = 0 /\ num t = 0 /\ n < 2 ^ lg_cur t /\ keys unit t = [].
  Proof.
    intros Hn t. destruct (lg_size_ok n Hn) as (_ & H1 & H2). unfold t, key_table.
    split; [apply sinv_fresh|]. cbn [lg_cur lg_nom rf num]. repeat split; try lia.
    unfold keys, entries. cbn [slots]. rewrite occupied_repeat_None. reflexivity.
  Qed.

  Theorem diff_hash_spec th (a b : input S) : wf a -> wf b -> 0 < in_num b ->
    diff_hash S th a b = Some (filter (keep th (in_keys b)) (in_entries a)).
  Proof.
    intros Ha Hb Hn. unfold diff_hash.
    destruct (key_table_ok (in_num b) Hn) as (HS & Hlg & Hrf & Hnum & Hcap & Hk).
    destruct (b_loop_ok th (in_ordered b) (in_num b) (in_entries b) (key_table (in_num b))) as (t' & Hbl & HS' & Hnum' & Hlg' & Hiff); auto.
    - rewrite Hnum. unfold in_num. lia.
    - apply (wf_nodup S b Hb).
    - intros h _. rewrite Hk. auto.
    - apply (wf_sorted S b Hb).
    - rewrite Hbl. apply a_loop_ok; auto.
      + rewrite Hlg'. lia.
      + intros h. rewrite Hiff, Hk. unfold in_keys. cbn [In]. tauto.
      + apply (wf_sorted S a Ha).
  Qed.

  (* ---- 3. the sort-based and the hash-based path agree ---- *)
  Theorem a_not_b_paths_agree th (a b : input S) : wf a -> wf b -> in_ordered a = true -> in_ordered b = true ->
    0 < in_num b -> diff_hash S th a b = Some (diff_sort S th a b).
  Proof.
    intros Ha Hb Hoa Hob Hn. rewrite diff_hash_spec by auto. unfold diff_sort.
    rewrite set_diff_spec; [reflexivity| |].
    - apply (wf_sorted S a Ha Hoa).
    - apply (wf_sorted S b Hb Hob).
  Qed.

  (* ---- 4. the result past the early returns ---- *)
  Lemma a_not_b_ents th (a b : input S) : wf a -> wf b ->
    (if in_num b =? 0 then Some (filter (fun e => fst e <? th) (in_entries a))
     else if in_ordered a && in_ordered b then Some (diff_sort S th a b)
     else diff_hash S th a b) = Some (filter (keep th (in_keys b)) (in_entries a)).
  Proof.
    intros Ha Hb. destruct (N.eqb_spec (in_num b) 0) as [E|E].
    - assert (Ek : in_keys b = []).
      { unfold in_num in E. unfold in_keys. destruct (in_entries b); [reflexivity|cbn [length] in E; lia]. }
      rewrite Ek, filter_keep_nil. reflexivity.
    - assert (Hn : 0 < in_num b) by lia.
      destruct (in_ordered a) eqn:Eoa; destruct (in_ordered b) eqn:Eob; cbn [andb];
        try (apply diff_hash_spec; auto).
      rewrite <- a_not_b_paths_agree by auto. apply diff_hash_spec; auto.
  Qed.

  Theorem a_not_b_spec sh (a b : input S) ordered : wf a -> wf b -> in_seed_hash a = sh -> in_seed_hash b = sh ->
    in_empty a = false -> (in_num a = 0 \/ in_empty b = false) ->
    exists res, a_not_b S sh a b ordered = Some res /\
      (in_theta res, in_empty res, sortN (in_keys res)) = spec_a_not_b S a b /\
      (forall e, In e (in_entries res) -> In e (in_entries a)) /\
      in_ordered res = (in_ordered a || ordered || (length (in_entries res) <=? 1)%nat) /\
      in_seed_hash res = sh /\ wf res.
  Proof.
    intros Ha Hb Hsa Hsb Hea Hcase. unfold a_not_b.
    assert (E1 : in_empty a || ((0 <? in_num a) && in_empty b) = false).
    { rewrite Hea. cbn [orb]. destruct Hcase as [E|E]; rewrite E; [reflexivity|apply andb_false_r]. }
    rewrite E1, Hsa, Hsb, N.eqb_refl. cbn [negb].
    set (th := N.min (in_theta a) (in_theta b)).
    rewrite (a_not_b_ents th a b Ha Hb).
    set (ents := filter (keep th (in_keys b)) (in_entries a)).
    set (ents' := if ordered && negb (in_ordered a) then msort fst ents else ents).
    assert (Hperm : Permutation ents' ents).
    { unfold ents'. destruct (ordered && negb (in_ordered a)); [apply msort_perm|reflexivity]. }
    assert (Hlen : length ents' = length ents) by (apply Permutation_length, Hperm).
    assert (Hnd : NoDup (map fst ents)) by (apply NoDup_map_filter, (wf_nodup S a Ha)).
    assert (Hnd' : NoDup (map fst ents')).
    { eapply Permutation_NoDup; [symmetry; apply Permutation_map, Hperm|exact Hnd]. }
    assert (Hin : forall e, In e ents' <-> In e (in_entries a) /\ keep th (in_keys b) e = true).
    { intros e. rewrite (perm_in_iff e Hperm). unfold ents. apply filter_In. }
    assert (Hkeys : forall h, In h (map fst ents') <->
                      In h (filter (fun h => negb (mem h (in_keys b))) (in_keys a)) /\ h < th).
    { intros h. rewrite in_map_iff, filter_In. change (in_keys a) with (map fst (in_entries a)). rewrite in_map_iff. split.
      - intros (e & <- & He). apply Hin in He. destruct He as [He Hk]. unfold keep in Hk.
        apply andb_true_iff in Hk. destruct Hk as [Hk1 Hk2]. apply N.ltb_lt in Hk1.
        split; [split|]; auto. exists e. auto.
      - intros [[(e & <- & He) Hm] Hlt]. exists e. split; auto. apply Hin. split; auto.
        unfold keep. rewrite Hm. apply N.ltb_lt in Hlt. rewrite Hlt. reflexivity. }
    pose proof (sortN_keys_unique (map fst ents') th _ Hnd' Hkeys) as Hks.
    eexists. split; [reflexivity|]. unfold mk_result. cbn [in_theta in_empty in_ordered in_seed_hash in_entries].
    fold ents'. unfold in_keys at 1. cbn [in_entries].
    split; [|split; [|split; [|split]]].
    - unfold spec_a_not_b. fold th. rewrite <- Hks.
      rewrite (Permutation_length (sortN_perm _)), map_length, Hlen, Hea. reflexivity.
    - intros e He. apply Hin in He. tauto.
    - reflexivity.
    - reflexivity.
    - constructor; unfold in_keys; cbn [in_theta in_empty in_ordered in_entries].
      + exact Hnd'.
      + intros h Hh. apply Hkeys in Hh. destruct Hh as [Hh Hlt]. apply filter_In in Hh. destruct Hh as [Hh _].
        apply (wf_range S a Ha) in Hh. lia.
      + intros Ho. unfold ents' in *. destruct (in_ordered a) eqn:Eoa.
        * rewrite andb_false_r. apply filter_klt_sorted, (wf_sorted S a Ha Eoa).
        * cbn [orb negb] in Ho. rewrite andb_true_r. destruct ordered.
          -- apply msort_strict. exact Hnd.
          -- cbn [orb] in Ho. apply short_klt_sorted. apply Nat.leb_le in Ho. exact Ho.
      + rewrite Hea. cbn [orb]. intros He. apply andb_true_iff in He. destruct He as [He1 He2].
        apply Nat.eqb_eq in He1. apply N.eqb_eq in He2. split; [|exact He2].
        rewrite <- Hlen in He1. destruct ents'; [reflexivity|discriminate].
  Qed.

  (* ---- 5. the early returns copy A ---- *)
  Theorem a_not_b_early sh (a b : input S) ordered : in_empty a = true \/ (0 < in_num a /\ in_empty b = true) ->
    a_not_b S sh a b ordered = Some (compact_copy S a ordered).
  Proof.
    intros H. unfold a_not_b.
    assert (E : in_empty a || ((0 <? in_num a) && in_empty b) = true).
    { destruct H as [E|[H1 H2]]; [rewrite E; reflexivity|]. apply N.ltb_lt in H1. rewrite H1, H2. apply orb_true_r. }
    rewrite E. reflexivity.
  Qed.

  Theorem compact_copy_same (a : input S) ordered : wf a -> let c := compact_copy S a ordered in
    in_theta c = in_theta a /\ in_empty c = in_empty a /\ Permutation (in_entries c) (in_entries a) /\
    (ordered = true -> in_ordered c = true) /\ wf c.
  Proof.
    intros Ha c.
    assert (Hperm : Permutation (in_entries c) (in_entries a)).
    { unfold c, compact_copy. cbn [in_entries]. destruct (in_empty a) eqn:E.
      - destruct (wf_empty S a Ha E) as [-> _]. constructor.
      - destruct (ordered && negb (in_ordered a)); [apply msort_perm|reflexivity]. }
    split; [reflexivity|]. split; [reflexivity|]. split; [exact Hperm|].
    split; [intros ->; unfold c, compact_copy; cbn [in_ordered]; apply orb_true_r|].
    assert (Hpk : Permutation (in_keys c) (in_keys a)) by (apply Permutation_map, Hperm).
    constructor.
    - eapply Permutation_NoDup; [symmetry; exact Hpk|apply (wf_nodup S a Ha)].
    - intros h Hh. apply (perm_in_iff h Hpk) in Hh. apply (wf_range S a Ha h Hh).
    - unfold c, compact_copy. cbn [in_ordered in_entries]. intros Ho.
      destruct (in_empty a); [constructor|].
      destruct (in_ordered a) eqn:Eo.
      + rewrite andb_false_r. apply (wf_sorted S a Ha Eo).
      + cbn [orb] in Ho. subst ordered. cbn [andb negb]. apply msort_strict, (wf_nodup S a Ha).
    - unfold c, compact_copy. cbn [in_empty in_entries in_theta]. intros E. rewrite E.
      split; [reflexivity|]. apply (wf_empty S a Ha E).
  Qed.

  (* ---- 6. seed hash mismatch ---- *)
  Theorem a_not_b_seed_refused sh (a b : input S) ordered : in_empty a = false ->
    (in_num a = 0 \/ in_empty b = false) -> (in_seed_hash a <> sh \/ in_seed_hash b <> sh) ->
    a_not_b S sh a b ordered = None.
  Proof.
    intros Hea Hcase Hseed. unfold a_not_b.
    assert (E1 : in_empty a || ((0 <? in_num a) && in_empty b) = false).
    { rewrite Hea. cbn [orb]. destruct Hcase as [E|E]; rewrite E; [reflexivity|apply andb_false_r]. }
    rewrite E1.
    destruct (N.eqb_spec (in_seed_hash a) sh) as [Ea|Ea]; cbn [negb]; [|reflexivity].
    destruct (N.eqb_spec (in_seed_hash b) sh) as [Eb|Eb]; cbn [negb]; [|reflexivity].
    destruct Hseed; contradiction.
  Qed.
End ANotB.

Arguments keep {S}.
