(* LedgerCoreProofs.v — facts about the ledger judge (LedgerCore.v): range constructions/destructions on a block
   whose constructed slots form a range, lookup/replace/remove algebra on tiny ledgers. *)
From Coq Require Import ZArith NArith List Bool Lia.
From DS Require Import LedgerCore.
Import ListNotations.
Local Open Scope N_scope.

Lemma repeatN_add {A} (x : A) a b : repeatN x (a + b) = repeatN x a ++ repeatN x b.
Proof. unfold repeatN. rewrite N2Nat.inj_add. apply repeat_app. Qed.

Lemma repeatN_length {A} (x : A) n : length (repeatN x n) = N.to_nat n.
Proof. apply repeat_length. Qed.

Lemma repeatN_0 {A} (x : A) : repeatN x 0 = [].
Proof. reflexivity. Qed.

Lemma fill_here_rep v c z : fill_here v c (repeat (negb v) c ++ z) = Some (repeat v c ++ z).
Proof.
  induction c as [|c IH]; simpl; [reflexivity|].
  destruct v; simpl in *; rewrite IH; reflexivity.
Qed.

Lemma chk_fill_nat_app v a c z :
  chk_fill_nat v (length a) c (a ++ repeat (negb v) c ++ z) = Some (a ++ repeat v c ++ z).
Proof.
  induction a as [|x a IH]; simpl.
  - destruct c; simpl; [reflexivity|]. apply (fill_here_rep v (S c) z).
  - rewrite IH. reflexivity.
Qed.

Lemma chk_fill_seg v lo c a z : length a = N.to_nat lo ->
  chk_fill v lo c (a ++ repeatN (negb v) c ++ z) = Some (a ++ repeatN v c ++ z).
Proof. intros H. unfold chk_fill, repeatN. rewrite <- H. apply chk_fill_nat_app. Qed.

(* ---- the constructed range ---- *)
Lemma rng_length size lo hi : lo <= hi -> hi <= size -> length (rng size lo hi) = N.to_nat size.
Proof. intros. unfold rng. rewrite !app_length, !repeatN_length. lia. Qed.

Lemma rng_empty size x : x <= size -> rng size x x = repeatN false size.
Proof.
  intros H. unfold rng. rewrite N.sub_diag, repeatN_0. simpl.
  rewrite <- repeatN_add. f_equal. lia.
Qed.

Lemma rng_empty_eq size x y : x <= size -> y <= size -> rng size x x = rng size y y.
Proof. intros. rewrite !rng_empty by assumption. reflexivity. Qed.

Lemma rng_cons_below size lo hi c : c <= lo -> lo <= hi -> hi <= size ->
  chk_fill true (lo - c) c (rng size lo hi) = Some (rng size (lo - c) hi).
Proof.
  intros H1 H2 H3. unfold rng.
  replace (repeatN false lo) with (repeatN false (lo - c) ++ repeatN (negb true) c)
    by (simpl negb; rewrite <- repeatN_add; f_equal; lia).
  rewrite <- app_assoc. rewrite chk_fill_seg by (rewrite repeatN_length; reflexivity).
  f_equal. f_equal. rewrite app_assoc, <- repeatN_add. f_equal. f_equal. lia.
Qed.

Lemma rng_cons_above size lo hi c : lo <= hi -> hi + c <= size ->
  chk_fill true hi c (rng size lo hi) = Some (rng size lo (hi + c)).
Proof.
  intros H1 H2. unfold rng.
  replace (repeatN false (size - hi)) with (repeatN (negb true) c ++ repeatN false (size - (hi + c)))
    by (simpl negb; rewrite <- repeatN_add; f_equal; lia).
  rewrite (app_assoc (repeatN false lo)).
  rewrite chk_fill_seg by (rewrite app_length, !repeatN_length; lia).
  f_equal. rewrite <- app_assoc. f_equal. rewrite app_assoc, <- repeatN_add. f_equal. f_equal. lia.
Qed.

Lemma rng_dest_prefix size lo hi c : lo + c <= hi -> hi <= size ->
  chk_fill false lo c (rng size lo hi) = Some (rng size (lo + c) hi).
Proof.
  intros H1 H2. unfold rng.
  replace (repeatN true (hi - lo)) with (repeatN (negb false) c ++ repeatN true (hi - (lo + c)))
    by (simpl negb; rewrite <- repeatN_add; f_equal; lia).
  rewrite <- app_assoc. rewrite chk_fill_seg by (rewrite repeatN_length; reflexivity).
  f_equal. rewrite app_assoc, <- repeatN_add. reflexivity.
Qed.

Lemma rng_dest_suffix size lo hi c : lo + c <= hi -> hi <= size ->
  chk_fill false (hi - c) c (rng size lo hi) = Some (rng size lo (hi - c)).
Proof.
  intros H1 H2. unfold rng.
  replace (repeatN true (hi - lo)) with (repeatN true (hi - c - lo) ++ repeatN (negb false) c)
    by (simpl negb; rewrite <- repeatN_add; f_equal; lia).
  rewrite <- app_assoc. rewrite (app_assoc (repeatN false lo)).
  rewrite chk_fill_seg by (rewrite app_length, !repeatN_length; lia).
  f_equal. rewrite <- app_assoc. f_equal. f_equal. rewrite <- repeatN_add. f_equal. lia.
Qed.

Lemma rng_dest_all size lo hi : lo <= hi -> hi <= size ->
  chk_fill false lo (hi - lo) (rng size lo hi) = Some (rng size hi hi).
Proof. intros. rewrite rng_dest_prefix by lia. f_equal. f_equal. lia. Qed.

Lemma firstn_repeat {A} (x : A) a b : (a <= b)%nat -> firstn a (repeat x b) = repeat x a.
Proof. revert b; induction a as [|a IH]; intros [|b] H; simpl; try lia; auto. f_equal. apply IH. lia. Qed.

Lemma skipn_repeat {A} (x : A) a b : skipn a (repeat x b) = repeat x (b - a).
Proof. revert b; induction a as [|a IH]; intros [|b]; simpl; auto. Qed.

Lemma forallb_repeat_id n : forallb (fun x : bool => x) (repeat true n) = true.
Proof. induction n; simpl; auto. Qed.

Lemma all_true_seg x c a z : length a = N.to_nat x -> all_true x c (a ++ repeatN true c ++ z) = true.
Proof.
  intros H. unfold all_true. rewrite <- H.
  rewrite skipn_app, skipn_all, Nat.sub_diag. simpl.
  rewrite firstn_app, repeatN_length, Nat.sub_diag. simpl. rewrite app_nil_r.
  rewrite firstn_all2 by (rewrite repeatN_length; lia).
  rewrite repeatN_length, Nat.eqb_refl. simpl. apply forallb_repeat_id.
Qed.

Lemma all_true_rng size lo hi x c : lo <= x -> x + c <= hi -> hi <= size ->
  all_true x c (rng size lo hi) = true.
Proof.
  intros H1 H2 H3. unfold rng.
  replace (repeatN true (hi - lo)) with (repeatN true (x - lo) ++ repeatN true c ++ repeatN true (hi - (x + c)))
    by (rewrite <- !repeatN_add; f_equal; lia).
  rewrite <- !app_assoc. rewrite (app_assoc (repeatN false lo)).
  apply all_true_seg. rewrite app_length, !repeatN_length. lia.
Qed.

Lemma forallb_negb_repeat n : forallb negb (repeat false n) = true.
Proof. induction n; simpl; auto. Qed.

Lemma none_true_rng size x : x <= size -> none_true (rng size x x) = true.
Proof. intros. rewrite rng_empty by assumption. apply forallb_negb_repeat. Qed.

Lemma filter_id_repeat b n : length (filter (fun x : bool => x) (repeat b n)) = if b then n else 0%nat.
Proof. induction n; destruct b; simpl in *; auto. Qed.

Lemma count_true_rng size lo hi : lo <= hi -> hi <= size -> count_true (rng size lo hi) = hi - lo.
Proof.
  intros. unfold count_true, rng, repeatN. rewrite !filter_app, !app_length, !filter_id_repeat. lia.
Qed.

(* ---- tiny ledgers ---- *)
Lemma lookup_hd b x L : lookup ((b, x) :: L) b = Some x.
Proof. simpl. now rewrite N.eqb_refl. Qed.

Lemma upd_map_hd b x L f m' : f (b_map x) = Some m' ->
  upd_map ((b, x) :: L) b f = Some ((b, {| b_ty := b_ty x; b_size := b_size x; b_map := m' |}) :: L).
Proof. intros H. unfold upd_map. rewrite lookup_hd, H. simpl. now rewrite N.eqb_refl. Qed.

Lemma upd_map_snd a b x y L f m' : a <> b -> f (b_map y) = Some m' ->
  upd_map ((a, x) :: (b, y) :: L) b f = Some ((a, x) :: (b, {| b_ty := b_ty y; b_size := b_size y; b_map := m' |}) :: L).
Proof.
  intros Hne H. unfold upd_map. simpl. destruct (N.eqb_spec a b); [contradiction|].
  rewrite N.eqb_refl, H. reflexivity.
Qed.

(* ---- generic effect lemmas in terms of lookup / replace / remove ---- *)
Definition setmap (x : blk) (m : bitmap) : blk := {| b_ty := b_ty x; b_size := b_size x; b_map := m |}.

Lemma lookup_replace_other L a b y : a <> b -> lookup (replace L a y) b = lookup L b.
Proof.
  intros H. induction L as [|[k x] t IH]; simpl; auto.
  destruct (N.eqb_spec k a) as [->|Hk]; simpl.
  - destruct (N.eqb_spec a b); [contradiction|reflexivity].
  - rewrite IH. reflexivity.
Qed.

Lemma lookup_replace_same L a x y : lookup L a = Some x -> lookup (replace L a y) a = Some y.
Proof.
  induction L as [|[k z] t IH]; simpl; [discriminate|].
  destruct (N.eqb_spec k a) as [->|Hk]; simpl.
  - now rewrite N.eqb_refl.
  - destruct (N.eqb_spec k a); [contradiction|]. auto.
Qed.

Lemma apply_cons X L b x lo n m : lookup L b = Some x -> chk_fill true lo n (b_map x) = Some m ->
  apply X L (Cons b lo n) = Some (replace L b (setmap x m)).
Proof. intros H1 H2. simpl. unfold upd_map. now rewrite H1, H2. Qed.

Lemma apply_dest X L b x lo n m : lookup L b = Some x -> chk_fill false lo n (b_map x) = Some m ->
  apply X L (Dest b lo n) = Some (replace L b (setmap x m)).
Proof. intros H1 H2. simpl. unfold upd_map. now rewrite H1, H2. Qed.

Lemma apply_fromx X L sb slo db dlo n sx x m : lookup X sb = Some sx -> all_true slo n (b_map sx) = true ->
  lookup L db = Some x -> chk_fill true dlo n (b_map x) = Some m ->
  apply X L (FromX sb slo db dlo n) = Some (replace L db (setmap x m)).
Proof. intros H1 H2 H3 H4. simpl. unfold src_ok, upd_map. now rewrite H1, H2, H3, H4. Qed.

Lemma apply_movd X L sb db src dst slo dlo n m1 m2 :
  sb <> db -> lookup L sb = Some src -> lookup L db = Some dst ->
  all_true slo n (b_map src) = true ->
  chk_fill true dlo n (b_map dst) = Some m1 -> chk_fill false slo n (b_map src) = Some m2 ->
  apply X L (MovD sb slo db dlo n) = Some (replace (replace L db (setmap dst m1)) sb (setmap src m2)).
Proof.
  intros Hne H1 H2 H3 H4 H5. simpl. unfold src_ok, upd_map. rewrite H1, H3, H2, H4.
  rewrite lookup_replace_other by congruence. rewrite H1. simpl. rewrite H5. reflexivity.
Qed.

Lemma apply_alloc X L ty b n : lookup L b = None ->
  apply X L (Alloc ty b n) = Some ((b, mkblk ty n 0 0) :: L).
Proof.
  intros H. simpl. rewrite H. unfold mkblk. rewrite rng_empty by lia. reflexivity.
Qed.

Lemma apply_dealloc X L b x n : lookup L b = Some x -> b_size x = n -> none_true (b_map x) = true ->
  apply X L (Dealloc b n) = Some (remove L b).
Proof. intros H1 H2 H3. simpl. rewrite H1, H2, N.eqb_refl, H3. reflexivity. Qed.

Lemma mkblk_empty_eq ty size x y : x <= size -> y <= size -> mkblk ty size x x = mkblk ty size y y.
Proof. intros. unfold mkblk. f_equal. now apply rng_empty_eq. Qed.

Lemma setmap_mkblk ty size lo hi lo' hi' : setmap (mkblk ty size lo hi) (rng size lo' hi') = mkblk ty size lo' hi'.
Proof. reflexivity. Qed.

Lemma live_slots_one b ty size lo hi : lo <= hi -> hi <= size -> live_slots [(b, mkblk ty size lo hi)] = hi - lo.
Proof. intros. unfold live_slots. simpl. rewrite count_true_rng by assumption. lia. Qed.

Lemma replace_hd b x L y : replace ((b, x) :: L) b y = (b, y) :: L.
Proof. simpl. now rewrite N.eqb_refl. Qed.
Lemma replace_tl a x L b y : a <> b -> replace ((a, x) :: L) b y = (a, x) :: replace L b y.
Proof. intros H. simpl. now rewrite (proj2 (N.eqb_neq a b) H). Qed.
Lemma lookup_tl a x L b : a <> b -> lookup ((a, x) :: L) b = lookup L b.
Proof. intros H. simpl. now rewrite (proj2 (N.eqb_neq a b) H). Qed.
Lemma remove_hd b x L : remove ((b, x) :: L) b = remove L b.
Proof. simpl. now rewrite N.eqb_refl. Qed.
Lemma remove_tl a x L b : a <> b -> remove ((a, x) :: L) b = (a, x) :: remove L b.
Proof. intros H. simpl. now rewrite (proj2 (N.eqb_neq a b) H). Qed.
Lemma remove_nil b : remove [] b = [].
Proof. reflexivity. Qed.
Lemma replace_nil b y : replace [] b y = [].
Proof. reflexivity. Qed.

Ltac led_simpl :=
  repeat (rewrite replace_hd || rewrite lookup_hd || rewrite remove_hd || rewrite remove_nil || rewrite replace_nil
          || (rewrite replace_tl by (solve [congruence | lia])) || (rewrite lookup_tl by (solve [congruence | lia]))
          || (rewrite remove_tl by (solve [congruence | lia]))).

(* ---- positional versions for ledgers of one or two range blocks ---- *)
Ltac eqb_simpl :=
  repeat match goal with
  | |- context [N.eqb ?a ?a] => rewrite (N.eqb_refl a)
  | H : ?a <> ?b |- context [N.eqb ?a ?b] => rewrite (proj2 (N.eqb_neq a b) H)
  | H : ?a <> ?b |- context [N.eqb ?b ?a] => rewrite (proj2 (N.eqb_neq b a) (not_eq_sym H))
  end.

Section Positional.
  Variable X : ledger.

  Lemma cons1_above b ty size lo hi c : lo <= hi -> hi + c <= size ->
    apply X [(b, mkblk ty size lo hi)] (Cons b hi c) = Some [(b, mkblk ty size lo (hi + c))].
  Proof.
    intros. erewrite apply_cons; [|apply lookup_hd|apply rng_cons_above; assumption].
    now led_simpl.
  Qed.

  Lemma cons1_below b ty size lo hi c : c <= lo -> lo <= hi -> hi <= size ->
    apply X [(b, mkblk ty size lo hi)] (Cons b (lo - c) c) = Some [(b, mkblk ty size (lo - c) hi)].
  Proof.
    intros. erewrite apply_cons; [|apply lookup_hd|apply rng_cons_below; assumption].
    now led_simpl.
  Qed.

  Lemma dest1_prefix b ty size lo hi c : lo + c <= hi -> hi <= size ->
    apply X [(b, mkblk ty size lo hi)] (Dest b lo c) = Some [(b, mkblk ty size (lo + c) hi)].
  Proof.
    intros. erewrite apply_dest; [|apply lookup_hd|apply rng_dest_prefix; assumption].
    now led_simpl.
  Qed.

  Lemma dest1_suffix b ty size lo hi c : lo + c <= hi -> hi <= size ->
    apply X [(b, mkblk ty size lo hi)] (Dest b (hi - c) c) = Some [(b, mkblk ty size lo (hi - c))].
  Proof.
    intros. erewrite apply_dest; [|apply lookup_hd|apply rng_dest_suffix; assumption].
    now led_simpl.
  Qed.

  Lemma dest2_fst_suffix a ty size lo hi c b y : lo + c <= hi -> hi <= size ->
    apply X [(a, mkblk ty size lo hi); (b, y)] (Dest a (hi - c) c) = Some [(a, mkblk ty size lo (hi - c)); (b, y)].
  Proof.
    intros. erewrite apply_dest; [|apply lookup_hd|apply rng_dest_suffix; assumption].
    now led_simpl.
  Qed.

  Lemma alloc0 ty b n : apply X [] (Alloc ty b n) = Some [(b, mkblk ty n 0 0)].
  Proof. now apply apply_alloc. Qed.

  Lemma alloc1 b x ty b' n : b' <> b -> apply X [(b, x)] (Alloc ty b' n) = Some [(b', mkblk ty n 0 0); (b, x)].
  Proof. intros. apply apply_alloc. now led_simpl. Qed.

  Lemma alloc2 a x b y ty b' n : b' <> a -> b' <> b ->
    apply X [(a, x); (b, y)] (Alloc ty b' n) = Some [(b', mkblk ty n 0 0); (a, x); (b, y)].
  Proof. intros. apply apply_alloc. now led_simpl. Qed.

  Lemma dealloc1 b ty size x : x <= size -> apply X [(b, mkblk ty size x x)] (Dealloc b size) = Some [].
  Proof.
    intros. erewrite apply_dealloc; [|apply lookup_hd|reflexivity|apply none_true_rng; assumption].
    now led_simpl.
  Qed.

  Lemma dealloc2_fst a ty size x b y : a <> b -> x <= size ->
    apply X [(a, mkblk ty size x x); (b, y)] (Dealloc a size) = Some [(b, y)].
  Proof.
    intros. erewrite apply_dealloc; [|apply lookup_hd|reflexivity|apply none_true_rng; assumption].
    now led_simpl.
  Qed.

  Lemma dealloc2_snd a y b ty size x : a <> b -> x <= size ->
    apply X [(a, y); (b, mkblk ty size x x)] (Dealloc b size) = Some [(a, y)].
  Proof.
    intros. erewrite apply_dealloc with (x := mkblk ty size x x); [| |reflexivity|apply none_true_rng; eassumption].
    - now led_simpl.
    - now led_simpl.
  Qed.

  (* move-construct [n] slots from the bottom of the source range onto the top of the destination range *)
  Lemma movd_dst_fst d tyd szd lod hid s tys szs los his n :
    d <> s -> los + n <= his -> his <= szs -> lod <= hid -> hid + n <= szd ->
    apply X [(d, mkblk tyd szd lod hid); (s, mkblk tys szs los his)] (MovD s los d hid n)
    = Some [(d, mkblk tyd szd lod (hid + n)); (s, mkblk tys szs (los + n) his)].
  Proof.
    intros. rewrite (apply_movd X _ s d (mkblk tys szs los his) (mkblk tyd szd lod hid) los hid n (rng szd lod (hid + n)) (rng szs (los + n) his)).
    - led_simpl. reflexivity.
    - congruence.
    - now led_simpl.
    - now led_simpl.
    - apply all_true_rng; lia.
    - apply rng_cons_above; assumption.
    - apply rng_dest_prefix; assumption.
  Qed.

  Lemma movd_dst_snd d tyd szd lod hid s tys szs los his n :
    d <> s -> los + n <= his -> his <= szs -> lod <= hid -> hid + n <= szd ->
    apply X [(s, mkblk tys szs los his); (d, mkblk tyd szd lod hid)] (MovD s los d hid n)
    = Some [(s, mkblk tys szs (los + n) his); (d, mkblk tyd szd lod (hid + n))].
  Proof.
    intros. rewrite (apply_movd X _ s d (mkblk tys szs los his) (mkblk tyd szd lod hid) los hid n (rng szd lod (hid + n)) (rng szs (los + n) his)).
    - led_simpl. reflexivity.
    - congruence.
    - now led_simpl.
    - now led_simpl.
    - apply all_true_rng; lia.
    - apply rng_cons_above; assumption.
    - apply rng_dest_prefix; assumption.
  Qed.

  (* copy/move-construct from another object's range *)
  Lemma fromx1_above sb tys szs los his slo b ty size lo hi n :
    lookup X sb = Some (mkblk tys szs los his) -> los <= slo -> slo + n <= his -> his <= szs ->
    lo <= hi -> hi + n <= size ->
    apply X [(b, mkblk ty size lo hi)] (FromX sb slo b hi n) = Some [(b, mkblk ty size lo (hi + n))].
  Proof.
    intros HX. intros. erewrite apply_fromx; [|exact HX|apply all_true_rng; assumption|apply lookup_hd|apply rng_cons_above; assumption].
    now led_simpl.
  Qed.

  Lemma fromx1_below sb tys szs los his slo b ty size lo hi n :
    lookup X sb = Some (mkblk tys szs los his) -> los <= slo -> slo + n <= his -> his <= szs ->
    n <= lo -> lo <= hi -> hi <= size ->
    apply X [(b, mkblk ty size lo hi)] (FromX sb slo b (lo - n) n) = Some [(b, mkblk ty size (lo - n) hi)].
  Proof.
    intros HX. intros. erewrite apply_fromx; [|exact HX|apply all_true_rng; assumption|apply lookup_hd|apply rng_cons_below; assumption].
    now led_simpl.
  Qed.

  Lemma fromx2_fst_above sb tys szs los his slo b ty size lo hi n c y :
    lookup X sb = Some (mkblk tys szs los his) -> los <= slo -> slo + n <= his -> his <= szs ->
    lo <= hi -> hi + n <= size ->
    apply X [(b, mkblk ty size lo hi); (c, y)] (FromX sb slo b hi n) = Some [(b, mkblk ty size lo (hi + n)); (c, y)].
  Proof.
    intros HX. intros. erewrite apply_fromx; [|exact HX|apply all_true_rng; assumption|apply lookup_hd|apply rng_cons_above; assumption].
    now led_simpl.
  Qed.
End Positional.

Lemma apply_all_app X L es1 es2 L1 : apply_all X L es1 = Some L1 -> apply_all X L (es1 ++ es2) = apply_all X L1 es2.
Proof.
  revert L. induction es1 as [|e r IH]; intros L H; simpl in *.
  - now inversion H.
  - destruct (apply X L e); [|discriminate]. auto.
Qed.

(* ---- what an accepted effect means (soundness of the judge) ---- *)
Lemma fill_here_spec v : forall c m m', fill_here v c m = Some m' ->
  forall i, (i < c)%nat -> nth i m v = negb v /\ nth i m' (negb v) = v.
Proof.
  induction c as [|c IH]; intros m m' H i Hi; [lia|].
  simpl in H. destruct m as [|x t]; [discriminate|].
  destruct (Bool.eqb x v) eqn:Ex; [discriminate|].
  destruct (fill_here v c t) as [t'|] eqn:Et; [|discriminate]. injection H as <-.
  destruct i as [|i]; simpl.
  - split; auto. destruct x, v; simpl in *; congruence.
  - apply (IH t t' Et). lia.
Qed.

Lemma chk_fill_nat_spec v c : forall lo m m', chk_fill_nat v lo c m = Some m' ->
  forall i, (lo <= i < lo + c)%nat -> nth i m v = negb v /\ nth i m' (negb v) = v.
Proof.
  induction lo as [|lo IH]; intros m m' H i Hi; simpl in H.
  - apply (fill_here_spec v c m m' H). lia.
  - destruct m as [|x t]; [discriminate|].
    destruct (chk_fill_nat v lo c t) as [t'|] eqn:Et; [|discriminate]. injection H as <-.
    destruct i as [|i]; [lia|]. simpl. apply (IH t t' Et). lia.
Qed.

(* an accepted release names a live block, with the size it was allocated with, holding no constructed slot *)
Theorem accepted_dealloc X L b n L' : apply X L (Dealloc b n) = Some L' ->
  exists x, lookup L b = Some x /\ b_size x = n /\ none_true (b_map x) = true.
Proof.
  simpl. destruct (lookup L b) as [x|]; [|discriminate].
  destruct (N.eqb_spec (b_size x) n); [|discriminate]. simpl.
  destruct (none_true (b_map x)) eqn:E; [|discriminate]. intros _. exists x. auto.
Qed.

(* an accepted construction hits only slots of a live block that were NOT constructed; they are constructed afterwards *)
Theorem accepted_cons X L b lo n L' : apply X L (Cons b lo n) = Some L' ->
  exists x x', lookup L b = Some x /\ lookup L' b = Some x' /\
    forall i, (N.to_nat lo <= i < N.to_nat lo + N.to_nat n)%nat -> nth i (b_map x) true = false /\ nth i (b_map x') false = true.
Proof.
  simpl. unfold upd_map. destruct (lookup L b) as [x|] eqn:Hl; [|discriminate].
  destruct (chk_fill true lo n (b_map x)) as [m'|] eqn:Hc; [|discriminate]. intros E; injection E as <-.
  exists x, (setmap x m'). repeat split; auto.
  - eapply lookup_replace_same; eauto.
  - apply (chk_fill_nat_spec true _ _ _ _ Hc i H).
  - apply (chk_fill_nat_spec true _ _ _ _ Hc i H).
Qed.

(* an accepted destruction hits only constructed slots; they are unconstructed afterwards *)
Theorem accepted_dest X L b lo n L' : apply X L (Dest b lo n) = Some L' ->
  exists x x', lookup L b = Some x /\ lookup L' b = Some x' /\
    forall i, (N.to_nat lo <= i < N.to_nat lo + N.to_nat n)%nat -> nth i (b_map x) false = true /\ nth i (b_map x') true = false.
Proof.
  simpl. unfold upd_map. destruct (lookup L b) as [x|] eqn:Hl; [|discriminate].
  destruct (chk_fill false lo n (b_map x)) as [m'|] eqn:Hc; [|discriminate]. intros E; injection E as <-.
  exists x, (setmap x m'). repeat split; auto.
  - eapply lookup_replace_same; eauto.
  - apply (chk_fill_nat_spec false _ _ _ _ Hc i H).
  - apply (chk_fill_nat_spec false _ _ _ _ Hc i H).
Qed.

(* an accepted allocation uses a block id that is not live *)
Theorem accepted_alloc X L ty b n L' : apply X L (Alloc ty b n) = Some L' -> lookup L b = None /\ lookup L' b = Some (mkblk ty n 0 0).
Proof.
  intros H. destruct (lookup L b) eqn:Hl; [simpl in H; rewrite Hl in H; discriminate|].
  rewrite (apply_alloc X L ty b n Hl) in H. injection H as <-. split; auto. apply lookup_hd.
Qed.
