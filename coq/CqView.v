(* CqView.v — the sorted view and the iterator of the classic quantiles sketch (model CqDefs.v) against the
   base buffer and the levels. *)
From Coq Require Import ZArith List Bool Lia Permutation Sorted.
From DS Require Import RunnerLib SortedView CqDefs CqProofs.
Import ListNotations.
Local Open Scope Z_scope.

(* ---------- the comparator std::less<int64_t> is a strict weak order ---------- *)
Lemma zlt_irrefl : forall a, Z.ltb a a = false.
Proof. intro. apply Z.ltb_irrefl. Qed.
Lemma zlt_trans : forall a b c, Z.ltb a b = true -> Z.ltb b c = true -> Z.ltb a c = true.
Proof. intros a b c. rewrite !Z.ltb_lt. lia. Qed.
Lemma zle_trans : forall a b c, Z.ltb b a = false -> Z.ltb c b = false -> Z.ltb c a = false.
Proof. intros a b c. rewrite !Z.ltb_ge. lia. Qed.
Definition zswo : strict_weak Z.ltb := mk_strict_weak Z Z.ltb zlt_irrefl zlt_trans zle_trans.

Notation zsorted_e := (sorted_e Z Z.ltb).
Notation zsorted_t := (sorted_t Z Z.ltb).

Lemma ssorted_sorted_t l : ssorted l <-> zsorted_t l.
Proof.
  unfold sorted_t. split; induction 1; constructor; auto.
  - eapply Forall_impl; [|eassumption]. unfold le. intros b Hb. apply Z.ltb_ge. exact Hb.
  - eapply Forall_impl; [|eassumption]. unfold le. intros b Hb. apply Z.ltb_ge in Hb. exact Hb.
Qed.

(* ---------- the weighted listing: what a correct iterator yields ---------- *)
Definition sum_weights (l : list (Z * Z)) : Z := fold_right (fun e a => snd e + a) 0 l.

Lemma sum_weights_app a b : sum_weights (a ++ b) = sum_weights a + sum_weights b.
Proof. unfold sum_weights. induction a; simpl; lia. Qed.

Lemma sum_weights_const l w : sum_weights (map (fun x : Z => (x, w)) l) = w * len l.
Proof.
  induction l as [|x l IH]; [unfold sum_weights, len; cbn [map fold_right length Z.of_nat]; lia|].
  rewrite len_cons. unfold sum_weights in *. cbn [map fold_right snd]. rewrite IH. lia.
Qed.

Lemma lv_spec_length : forall lv w, len (lv_spec w lv) = len (concat lv).
Proof.
  induction lv as [|l r IH]; intro w; [reflexivity|].
  cbn [lv_spec concat]. rewrite !len_app, IH. unfold len. now rewrite map_length.
Qed.

Lemma lv_spec_sum : forall lv w, sum_weights (lv_spec w lv) = wlv w lv.
Proof.
  induction lv as [|l r IH]; intro w; [reflexivity|].
  cbn [lv_spec wlv]. rewrite sum_weights_app, sum_weights_const, IH. reflexivity.
Qed.

Lemma lv_spec_in : forall lv w x w', In (x, w') (lv_spec w lv) <->
  exists h, In x (nth h lv []) /\ w' = w * 2 ^ Z.of_nat h.
Proof.
  induction lv as [|l r IH]; intros w x w'; cbn [lv_spec].
  - split; [intros []|]. intros (h & H & _). destruct h; destruct H.
  - rewrite in_app_iff, IH, in_map_iff. split.
    + intros [(y & E & H)|(h & H & E)].
      * inversion E; subst. exists 0%nat. simpl. split; [assumption|lia].
      * exists (S h). simpl nth. split; [assumption|]. rewrite Nat2Z.inj_succ, Z.pow_succ_r by lia. lia.
    + intros ([|h] & H & E).
      * left. exists x. simpl in H. split; [|assumption]. f_equal. simpl in E. lia.
      * right. exists h. simpl in H. split; [assumption|]. rewrite Nat2Z.inj_succ, Z.pow_succ_r in E by lia. lia.
Qed.

Lemma lv_spec_items : forall lv w, map fst (lv_spec w lv) = concat lv.
Proof.
  induction lv as [|l r IH]; intro w; [reflexivity|].
  cbn [lv_spec concat]. rewrite map_app, IH, map_map. simpl. now rewrite map_id.
Qed.

Lemma lv_spec_pos : forall lv w, 0 < w -> Forall (fun e => 0 < snd e) (lv_spec w lv).
Proof.
  induction lv as [|l r IH]; intros w H; cbn [lv_spec]; [constructor|].
  apply Forall_app; split; [|apply IH; lia]. rewrite Forall_map. apply Forall_forall. auto.
Qed.

Lemma iter_spec_length s : len (iter_spec s) = retained s.
Proof. unfold iter_spec, retained. rewrite len_app, lv_spec_length. unfold len. now rewrite map_length. Qed.

Lemma iter_spec_sum s : sum_weights (iter_spec s) = len (cbb s) + wlv 2 (clv s).
Proof. unfold iter_spec. rewrite sum_weights_app, sum_weights_const, lv_spec_sum. lia. Qed.

Lemma iter_spec_items s : map fst (iter_spec s) = items s.
Proof. unfold iter_spec, items. rewrite map_app, lv_spec_items, map_map. simpl. now rewrite map_id. Qed.

Lemma iter_spec_pos s : Forall (fun e => 0 < snd e) (iter_spec s).
Proof.
  unfold iter_spec. apply Forall_app; split; [|apply lv_spec_pos; lia].
  rewrite Forall_map. apply Forall_forall. simpl. intros; lia.
Qed.

(* ---------- the sorted view is a sorted arrangement of the weighted listing ---------- *)
Definition all_sorted (lv : list (list Z)) : Prop := Forall (fun l => ssorted l) lv.

Lemma lv_ok_all_sorted k : forall lv bp, lv_ok k bp lv -> all_sorted lv.
Proof.
  induction lv as [|l r IH]; intros bp H; [constructor|].
  destruct H as [H1 H2]. constructor; [|eapply IH; eauto].
  destruct (Z.odd bp); [tauto|subst; constructor].
Qed.

Lemma add_levels_perm : forall lv es w, Permutation (add_levels es w lv) (es ++ lv_spec (2 * w) lv).
Proof.
  induction lv as [|l r IH]; intros es w; cbn [add_levels lv_spec]; [now rewrite app_nil_r|].
  etransitivity; [apply IH|]. rewrite app_assoc. apply Permutation_app_tail.
  destruct l as [|x l]; [simpl; now rewrite app_nil_r|]. apply sv_add_perm.
Qed.

Lemma add_levels_sorted : forall lv es w, zsorted_e es -> all_sorted lv -> zsorted_e (add_levels es w lv).
Proof.
  induction lv as [|l r IH]; intros es w He Hl; cbn [add_levels]; auto.
  inversion Hl; subst. apply IH; auto.
  destruct l as [|x l]; auto.
  apply (sv_add_sorted Z Z.ltb zswo); auto. now apply ssorted_sorted_t.
Qed.

Definition view_entries (s : cq) : list (entry Z) := add_levels (sv_add Z Z.ltb [] (cbb s) 1) 1 (clv s).

Lemma sv_add_nil items w : sv_add Z Z.ltb [] items w = map (fun x => (x, w)) items.
Proof. unfold sv_add. destruct (map _ items); reflexivity. Qed.

Lemma view_entries_perm s : Permutation (view_entries s) (iter_spec s).
Proof. unfold view_entries, iter_spec. rewrite sv_add_nil. apply (add_levels_perm (clv s) _ 1). Qed.

Lemma view_entries_sorted s : ssorted (cbb s) -> all_sorted (clv s) -> zsorted_e (view_entries s).
Proof.
  intros Hb Hl. apply add_levels_sorted; auto. rewrite sv_add_nil.
  apply (map_pair_sorted Z Z.ltb). now apply ssorted_sorted_t.
Qed.

Lemma view_total s : v_total (sorted_view s) = len (cbb s) + wlv 2 (clv s).
Proof.
  unfold sorted_view, sv_finish. cbn [v_total]. fold (view_entries s).
  rewrite (sv_total_perm Z _ _ (view_entries_perm s)). apply iter_spec_sum.
Qed.

Lemma view_weights_pos s : weights_pos Z (view_entries s).
Proof. eapply Permutation_Forall; [symmetry; apply view_entries_perm|]. apply iter_spec_pos. Qed.

Lemma view_weights_nonneg s : weights_nonneg Z (view_entries s).
Proof. eapply Forall_impl; [|apply view_weights_pos]. simpl; intros; lia. Qed.

(* the estimator: weighted count of the retained items satisfying p *)
Fixpoint Rlv (p : Z -> bool) (w : Z) (lv : list (list Z)) : Z :=
  match lv with
  | [] => 0
  | l :: r => w * cnt p l + Rlv p (2 * w) r
  end.
Definition Rest (p : Z -> bool) (s : cq) : Z := cnt p (cbb s) + Rlv p 2 (clv s).

Lemma svwsum_const p l w : SortedView.wsum Z p (map (fun x => (x, w)) l) = w * cnt p l.
Proof.
  induction l as [|x l IHl]; [rewrite cnt_nil; simpl; lia|].
  rewrite cnt_cons. simpl. simpl in IHl. rewrite IHl. destruct (p x); lia.
Qed.

Lemma svwsum_lv_spec p : forall lv w, SortedView.wsum Z p (lv_spec w lv) = Rlv p w lv.
Proof.
  induction lv as [|l r IH]; intro w; [reflexivity|].
  cbn [lv_spec Rlv]. rewrite wsum_app, IH, svwsum_const. reflexivity.
Qed.

(* the rank numerator the sketch returns is the estimator *)
Theorem view_rank_is_R s x incl : ssorted (cbb s) -> all_sorted (clv s) ->
  rank_num Z Z.ltb (sorted_view s) x incl = Rest (below Z Z.ltb x incl) s.
Proof.
  intros Hb Hl. unfold sorted_view. fold (view_entries s).
  rewrite (rank_num_spec Z Z.ltb zswo) by now apply view_entries_sorted.
  rewrite (wsum_perm Z _ _ _ (view_entries_perm s)). unfold iter_spec, Rest.
  rewrite wsum_app, svwsum_lv_spec, svwsum_const. lia.
Qed.

Lemma view_items s : Permutation (map fst (v_entries (sorted_view s))) (items s).
Proof.
  unfold sorted_view, sv_finish. cbn [v_entries]. rewrite sv_cum_items. fold (view_entries s).
  rewrite <- (iter_spec_items s). apply Permutation_map, view_entries_perm.
Qed.

(* ---------- two sorted arrangements of the same multiset are equal (std::sort is determined) ---------- *)
Lemma sorted_perm_eq : forall a b, ssorted a -> ssorted b -> Permutation a b -> a = b.
Proof.
  induction a as [|x a IH]; intros b Ha Hb P.
  - apply Permutation_nil in P. now subst.
  - destruct b as [|y b]; [apply Permutation_sym, Permutation_nil in P; discriminate|].
    inversion Ha as [|? ? Ha' Fa]; inversion Hb as [|? ? Hb' Fb]; subst.
    assert (x = y).
    { assert (In x (y :: b)) by (eapply Permutation_in; [exact P|now left]).
      assert (In y (x :: a)) by (eapply Permutation_in; [symmetry; exact P|now left]).
      rewrite Forall_forall in Fa, Fb.
      destruct H as [->|H]; auto. destruct H0 as [->|H0]; auto.
      specialize (Fa _ H0). specialize (Fb _ H). lia. }
    subst y. f_equal. apply IH; auto. eapply Permutation_cons_inv; eauto.
Qed.

(* ===================== queries on a reachable sketch ===================== *)
Definition qstate (s : cq) : cq := sort_bb s.
Definition qview (s : cq) : view Z := sorted_view (qstate s).

Lemma qstate_fields s : Permutation (cbb (qstate s)) (cbb s) /\ clv (qstate s) = clv s /\ cn (qstate s) = cn s /\
  ck (qstate s) = ck s /\ cbp (qstate s) = cbp s.
Proof.
  unfold qstate, sort_bb. destruct (csorted s); [repeat split; reflexivity|].
  cbn [cbb clv cn ck cbp]. repeat split; auto. apply isort_perm.
Qed.

Lemma qstate_sorted s : Inv s -> ssorted (cbb (qstate s)).
Proof.
  intro I. unfold qstate, sort_bb. destruct (csorted s) eqn:E; [apply (i_srt s I E)|]. cbn [cbb]. apply isort_sorted.
Qed.

Lemma qstate_items_perm s : Permutation (items (qstate s)) (items s).
Proof.
  destruct (qstate_fields s) as (P & E & _). unfold items. rewrite E. now apply Permutation_app_tail.
Qed.

Lemma reach_q s log : reach s log -> reach (qstate s) log.
Proof. apply reach_sort. Qed.

Lemma q_entries_sorted s log : reach s log -> zsorted_e (view_entries (qstate s)).
Proof.
  intro H. pose proof (r_inv _ _ (reach_Rel _ _ H)) as I. apply view_entries_sorted.
  - now apply qstate_sorted.
  - destruct (qstate_fields s) as (_ & E & _). rewrite E. eapply lv_ok_all_sorted. apply (i_lv s I).
Qed.

Lemma qview_total s log : reach s log -> v_total (qview s) = cn s.
Proof.
  intro H. unfold qview. rewrite view_total.
  pose proof (r_inv _ _ (reach_Rel _ _ (reach_q _ _ H))) as I. rewrite (Inv_weight _ I).
  destruct (qstate_fields s) as (_ & _ & E & _). exact E.
Qed.

Lemma view_entries_nonempty s : 0 < len (cbb s) + wlv 2 (clv s) -> view_entries s <> [].
Proof.
  intros H E. pose proof (view_total s) as T. unfold sorted_view, sv_finish in T. cbn [v_total] in T.
  fold (view_entries s) in T. rewrite E in T. simpl in T. lia.
Qed.

Lemma q_entries_nonempty s log : reach s log -> 0 < cn s -> view_entries (qstate s) <> [].
Proof.
  intros H Hn. apply view_entries_nonempty.
  pose proof (r_inv _ _ (reach_Rel _ _ (reach_q _ _ H))) as I. rewrite (Inv_weight _ I).
  destruct (qstate_fields s) as (_ & _ & E & _). lia.
Qed.

(* nothing compacted yet (bit_pattern = 0): the sorted base buffer is the sorted input *)
Lemma exact_view s log : reach s log -> cbp s = 0 ->
  qview s = sv_finish Z (map (fun y => (y, 1)) (isort log)).
Proof.
  intros H Z0. pose proof (reach_Rel _ _ (reach_q _ _ H)) as R.
  destruct (qstate_fields s) as (P & El & _ & _ & Eb).
  destruct (exact_bb _ _ R ltac:(rewrite Eb; exact Z0)) as [E1 P1].
  unfold qview, sorted_view. rewrite E1. cbn [add_levels]. rewrite sv_add_nil.
  f_equal. f_equal. apply sorted_perm_eq.
  - apply qstate_sorted. apply (r_inv _ _ (reach_Rel _ _ H)).
  - apply isort_sorted.
  - etransitivity; [exact P1|]. symmetry. apply isort_perm.
Qed.

(* ===================== statements used by Properties_C07_cq ===================== *)
Section Reachable.
  Variables (s : cq) (log : list Z).
  Hypothesis R : reach s log.

  Lemma P_view_spec d : zsorted_t (map fst (v_entries (qview s))) /\ v_total (qview s) = cn s /\
    (0 < cn s -> snd (last (v_entries (qview s)) d) = cn s) /\
    Permutation (map fst (v_entries (qview s))) (items s).
  Proof.
    split; [|split; [|split]].
    - unfold qview, sorted_view. apply view_sorted. eapply q_entries_sorted; eauto.
    - eapply qview_total; eauto.
    - intro Hn. rewrite <- (qview_total _ _ R). unfold qview, sorted_view. apply view_last_is_total.
      eapply q_entries_nonempty; eauto.
    - etransitivity; [apply view_items|apply qstate_items_perm].
  Qed.

  Lemma P_rank_monotone x y incl : x <= y -> rank_num Z Z.ltb (qview s) x incl <= rank_num Z Z.ltb (qview s) y incl.
  Proof.
    intro H. unfold qview, sorted_view. apply (rank_monotone Z Z.ltb zswo).
    - eapply q_entries_sorted; eauto.
    - apply view_weights_nonneg.
    - unfold le. apply Z.ltb_ge. lia.
  Qed.

  Lemma P_rank_incl_ge_excl x : rank_num Z Z.ltb (qview s) x false <= rank_num Z Z.ltb (qview s) x true.
  Proof.
    unfold qview, sorted_view. apply (rank_incl_ge_excl Z Z.ltb zswo); [eapply q_entries_sorted; eauto|apply view_weights_nonneg].
  Qed.

  Lemma P_rank_bounds x incl : 0 <= rank_num Z Z.ltb (qview s) x incl <= cn s.
  Proof.
    rewrite <- (qview_total _ _ R). unfold qview, sorted_view.
    apply (rank_bounds Z Z.ltb zswo); [eapply q_entries_sorted; eauto|apply view_weights_nonneg].
  Qed.

  Lemma P_rank_is_estimator x incl :
    rank_num Z Z.ltb (qview s) x incl = Rest (below Z Z.ltb x incl) s.
  Proof.
    pose proof (r_inv _ _ (reach_Rel _ _ R)) as I.
    destruct (qstate_fields s) as (P & E & _).
    unfold qview. rewrite view_rank_is_R.
    - unfold Rest. rewrite E, (cnt_perm _ _ _ P). reflexivity.
    - now apply qstate_sorted.
    - rewrite E. eapply lv_ok_all_sorted. apply (i_lv s I).
  Qed.

  Lemma P_quantile_monotone w1 w2 incl q1 q2 : w1 <= w2 ->
    quantile_w Z (qview s) w1 incl = Some q1 -> quantile_w Z (qview s) w2 incl = Some q2 -> q1 <= q2.
  Proof.
    intros Hw H1 H2. pose proof (quantile_monotone Z Z.ltb zswo (qview s) w1 w2 incl q1 q2) as H.
    unfold le in H. rewrite Z.ltb_ge in H. apply H; auto.
    unfold qview, sorted_view, sv_finish. cbn [v_entries]. apply (sv_cum_sorted Z Z.ltb). eapply q_entries_sorted; eauto.
  Qed.

  Lemma P_quantile_incl_le_excl w q1 q2 :
    quantile_w Z (qview s) w true = Some q1 -> quantile_w Z (qview s) w false = Some q2 -> q1 <= q2.
  Proof.
    intros H1 H2. pose proof (quantile_incl_le_excl Z Z.ltb zswo (qview s) w q1 q2) as H.
    unfold le in H. rewrite Z.ltb_ge in H. apply H; auto.
    unfold qview, sorted_view, sv_finish. cbn [v_entries]. apply (sv_cum_sorted Z Z.ltb). eapply q_entries_sorted; eauto.
  Qed.

  Lemma P_quantile_in_retained w incl q : quantile_w Z (qview s) w incl = Some q -> In q (items s).
  Proof.
    intro H. apply quantile_in_view in H. destruct (P_view_spec (0, 0)) as (_ & _ & _ & P).
    eapply Permutation_in; eauto.
  Qed.

  Lemma P_quantile_answers w incl : 0 < cn s -> exists q, quantile_w Z (qview s) w incl = Some q.
  Proof.
    intro Hn. apply quantile_nonempty_answers. unfold qview, sorted_view, sv_finish. cbn [v_entries].
    intro E. apply (f_equal (@length _)) in E. rewrite sv_cum_length in E. simpl in E.
    apply length_zero_iff_nil in E. revert E. eapply q_entries_nonempty; eauto.
  Qed.

  Lemma P_cdf sp incl c : cdf_num Z Z.ltb (qview s) sp incl = Some c ->
    c = map (fun x => rank_num Z Z.ltb (qview s) x incl) sp ++ [cn s] /\ StronglySorted Z.le (0 :: c).
  Proof.
    intro H. split.
    - rewrite <- (qview_total _ _ R). now apply cdf_is_rank.
    - unfold qview, sorted_view in *. eapply (cdf_monotone Z Z.ltb zswo); eauto.
      + eapply q_entries_sorted; eauto.
      + apply view_weights_nonneg.
  Qed.

  Lemma P_pmf sp incl p : 0 < cn s -> pmf_num Z Z.ltb (qview s) sp incl = Some p ->
    Forall (fun z => 0 <= z) p /\
    QArith_base.Qeq (fold_right QArith_base.Qplus (QArith_base.inject_Z 0)
       (map (fun z => QArith_base.Qdiv (QArith_base.inject_Z z) (QArith_base.inject_Z (cn s))) p)) (QArith_base.inject_Z 1).
  Proof.
    intros Hn H. split.
    - unfold qview, sorted_view in *. eapply (pmf_nonneg Z Z.ltb zswo); eauto.
      + eapply q_entries_sorted; eauto.
      + apply view_weights_nonneg.
    - rewrite <- (qview_total _ _ R). eapply pmf_sums_to_one; eauto. rewrite (qview_total _ _ R). exact Hn.
  Qed.

  (* exactness while nothing has been compacted *)
  Hypothesis Exact : cbp s = 0.

  Lemma P_exact_rank x incl : rank_num Z Z.ltb (qview s) x incl = cnt (below Z Z.ltb x incl) log.
  Proof.
    rewrite (exact_view _ _ R Exact). rewrite (exact_rank Z Z.ltb zswo).
    - unfold count. fold (len (filter (below Z Z.ltb x incl) (isort log))).
      change (len (filter (below Z Z.ltb x incl) (isort log))) with (cnt (below Z Z.ltb x incl) (isort log)).
      apply cnt_perm, isort_perm.
    - apply ssorted_sorted_t, isort_sorted.
  Qed.

  Lemma P_exact_quantile_incl w d : 1 <= w <= len log ->
    quantile_w Z (qview s) w true = Some (nth (Z.to_nat (w - 1)) (isort log) d).
  Proof.
    intro H. rewrite (exact_view _ _ R Exact). apply exact_quantile_incl.
    rewrite (Permutation_length (isort_perm log)). exact H.
  Qed.

  Lemma P_exact_quantile_excl w d : 0 <= w < len log ->
    quantile_w Z (qview s) w false = Some (nth (Z.to_nat w) (isort log) d).
  Proof.
    intro H. rewrite (exact_view _ _ R Exact). apply exact_quantile_excl.
    rewrite (Permutation_length (isort_perm log)). exact H.
  Qed.
End Reachable.

(* ===================== the iterator as coded ===================== *)
Lemma skipn_nth {A} (d : A) : forall n l, (n < length l)%nat -> skipn n l = nth n l d :: skipn (S n) l.
Proof.
  induction n as [|n IH]; intros [|x l] H; simpl in *; try lia; auto.
  apply IH. lia.
Qed.

Lemma bitlen_div2 z : 0 < z -> bitlen z = S (bitlen (z / 2)).
Proof.
  intro H. apply Nat.le_antisymm.
  - apply bitlen_least; [lia|]. rewrite pow2_S. pose proof (bitlen_lt (z / 2) ltac:(lia)). lia.
  - pose proof (bitlen_pos z H) as P. destruct (bitlen z) as [|L'] eqn:E; [lia|].
    apply le_n_S. apply bitlen_least; [lia|].
    pose proof (bitlen_lt z ltac:(lia)) as Lt. rewrite E, pow2_S in Lt. lia.
Qed.

Section Iterator.
  Variable s : cq.
  Hypothesis I : Inv s.

  Let k := ck s.
  Let lv := clv s.

  Lemma it_run_at_end fuel i : it_level i = fst (it_end s) -> it_index i = snd (it_end s) -> it_run fuel s i = [].
  Proof. intros H1 H2. destruct fuel; cbn [it_run]; rewrite H1, H2, !Z.eqb_refl; reflexivity. Qed.

  Lemma it_run_step fuel i : (it_level i =? fst (it_end s)) && (it_index i =? snd (it_end s)) = false ->
    it_run (S fuel) s i = it_deref s i :: it_run fuel s (it_next s i).
  Proof. intro H. cbn [it_run]. rewrite H. reflexivity. Qed.

  (* ---------- exact mode: only the base buffer ---------- *)
  Lemma run_bb_exact : cbp s = 0 -> forall m i fuel, i = len (cbb s) - Z.of_nat m -> 0 <= i -> (m <= fuel)%nat ->
    it_run fuel s (mkiter (-1) i 0 1) = map (fun x => (x, 1)) (skipn (Z.to_nat i) (cbb s)).
  Proof.
    intro Z0. destruct (Inv_div s I) as [D1 D2]. pose proof (i_n s I) as N. rewrite Z0 in *.
    assert (El : clv s = []) by (apply length_zero_iff_nil; rewrite (i_len s I), Z0; reflexivity).
    assert (Eend : it_end s = (-1, len (cbb s))).
    { unfold it_end. rewrite D1. simpl. f_equal. lia. }
    induction m as [|m IH]; intros i fuel Hi H0 Hf.
    - rewrite it_run_at_end by (rewrite Eend; simpl; lia).
      rewrite skipn_all2 by (unfold len in *; lia). reflexivity.
    - destruct fuel as [|fuel]; [lia|].
      rewrite it_run_step.
      + assert (Lt : (Z.to_nat i < length (cbb s))%nat) by (unfold len in *; lia).
        rewrite (skipn_nth 0 _ _ Lt). cbn [map]. f_equal.
        replace (S (Z.to_nat i)) with (Z.to_nat (i + 1)) by lia.
        rewrite <- (IH (i + 1) fuel) by lia. f_equal.
        unfold it_next. cbn [it_level it_index it_bp it_w]. rewrite El.
        change (len (@nil (list Z))) with 0. change (0 <? 0) with false. rewrite andb_false_r. reflexivity.
      + rewrite Eend. cbn [it_level it_index fst snd]. apply andb_false_iff. right. apply Z.eqb_neq. lia.
  Qed.

  (* ---------- estimation mode ---------- *)
  Hypothesis Est : 0 < cbp s.

  Lemma it_end_est : it_end s = (len lv, 0).
  Proof. unfold it_end. destruct (Inv_div s I) as [D1 _]. rewrite D1. destruct (Z.eqb_spec (cbp s) 0); [lia|reflexivity]. Qed.

  Lemma len_lv_pos : 0 < len lv.
  Proof.
    unfold len, lv. rewrite (i_len s I). pose proof (bitlen_pos _ Est). lia.
  Qed.

  (* the k items of level L from index i on, then the search for the next level *)
  Lemma run_level (L : nat) b w : (L < length lv)%nat -> len (nth L lv []) = k ->
    forall m i fuel, (1 <= m)%nat -> i = k - Z.of_nat m -> 0 <= i -> (m <= fuel)%nat ->
    it_run fuel s (mkiter (Z.of_nat L) i b w) =
    map (fun x => (x, w)) (skipn (Z.to_nat i) (nth L lv [])) ++
    it_run (fuel - m) s (next_level (S (length lv)) (Z.of_nat L) b w).
  Proof.
    intros HL Hk. induction m as [|m IH]; intros i fuel Hm Hi H0 Hf; [lia|].
    destruct fuel as [|fuel]; [lia|].
    assert (NotEnd : (Z.of_nat L =? fst (it_end s)) && (i =? snd (it_end s)) = false).
    { rewrite it_end_est. cbn [fst snd]. apply andb_false_iff. left. apply Z.eqb_neq. unfold len. lia. }
    rewrite it_run_step by exact NotEnd.
    assert (Lt : (Z.to_nat i < length (nth L lv []))%nat) by (unfold len in Hk; lia).
    rewrite (skipn_nth 0 _ _ Lt). cbn [map app]. f_equal.
    - unfold it_deref. cbn [it_level it_index it_w]. destruct (Z.eqb_spec (Z.of_nat L) (-1)); [lia|].
      rewrite Nat2Z.id. reflexivity.
    - unfold it_next. cbn [it_level it_index it_bp it_w].
      destruct (Z.eqb_spec (Z.of_nat L) (-1)); [lia|]. cbn [andb orb].
      destruct (Z.leb_spec 0 (Z.of_nat L)); [|lia]. cbn [andb].
      destruct m as [|m].
      + (* last item of the level *)
        destruct (Z.eqb_spec (i + 1) (ck s)); [|unfold k in *; lia].
        rewrite skipn_all2 by (unfold len in Hk; lia). cbn [map app]. f_equal. lia.
      + destruct (Z.eqb_spec (i + 1) (ck s)); [unfold k in *; lia|].
        replace (S (Z.to_nat i)) with (Z.to_nat (i + 1)) by lia.
        rewrite (IH (i + 1) fuel) by lia. reflexivity.
  Qed.

  (* after level |pre| (finished or empty): the remaining levels *)
  Lemma scan : forall suf pre l b w F fuel, lv = pre ++ l :: suf -> lv_ok k (b / 2) suf -> 0 <= b ->
    length suf = bitlen (b / 2) -> (length suf < F)%nat -> (Z.to_nat (len (concat suf)) <= fuel)%nat ->
    it_run fuel s (next_level F (Z.of_nat (length pre)) b w) = lv_spec (2 * w) suf.
  Proof.
    induction suf as [|l' suf IH]; intros pre l b w F fuel Hlv Hok Hb Hlen HF Hfuel.
    - destruct F as [|F]; [lia|]. simpl in Hok. cbn [next_level].
      destruct (Z.ltb_spec 0 (Z.of_nat (length pre) + 1)); [|lia]. rewrite Hok. cbn [Z.eqb lv_spec].
      apply it_run_at_end; rewrite it_end_est; cbn [it_level it_index fst snd]; [|reflexivity].
      rewrite Hlv. unfold len. rewrite app_length. simpl. lia.
    - destruct F as [|F]; [simpl in HF; lia|]. cbn [next_level].
      destruct (Z.ltb_spec 0 (Z.of_nat (length pre) + 1)); [|lia].
      set (b' := b / 2) in *. destruct Hok as [Hl' Hok'].
      assert (Pos : 0 < b').
      { destruct (Z.eq_dec b' 0) as [E0|]; [rewrite E0 in Hlen; simpl in Hlen; discriminate|lia]. }
      destruct (Z.eqb_spec b' 0); [lia|].
      assert (Hlv' : lv = (pre ++ [l]) ++ l' :: suf) by (rewrite <- app_assoc; exact Hlv).
      assert (Lpre : Z.of_nat (length (pre ++ [l])) = Z.of_nat (length pre) + 1) by (rewrite app_length; simpl; lia).
      assert (Hlen' : length suf = bitlen (b' / 2)).
      { rewrite (bitlen_div2 b' Pos) in Hlen. simpl in Hlen. lia. }
      cbn [concat] in Hfuel. rewrite len_app in Hfuel. pose proof (len_nonneg l'). pose proof (len_nonneg (concat suf)).
      destruct (Z.odd b') eqn:O.
      + destruct Hl' as [Hk' _].
        assert (HL : (length (pre ++ [l]) < length lv)%nat) by (rewrite Hlv', !app_length; simpl; lia).
        assert (Hn : nth (length (pre ++ [l])) lv [] = l').
        { rewrite Hlv'. rewrite app_nth2 by lia. rewrite Nat.sub_diag. reflexivity. }
        rewrite <- Lpre.
        assert (Kp : 1 <= k) by (pose proof (valid_k_pos _ (i_k s I)); unfold k; lia).
        rewrite (run_level (length (pre ++ [l])) b' (2 * w) HL ltac:(rewrite Hn; exact Hk') (Z.to_nat k) 0 fuel) by lia.
        rewrite Hn. cbn [Z.to_nat skipn lv_spec]. f_equal.
        apply (IH (pre ++ [l]) l' b' (2 * w)); auto; try lia.
        rewrite Hlv in *. rewrite !app_length in *. simpl. simpl in HL. lia.
      + subst l'. rewrite <- Lpre. cbn [lv_spec map app]. cbn [length] in HF.
        apply (IH (pre ++ [l]) [] b' (2 * w)); auto; try lia.
  Qed.

  (* begin() with an empty base buffer: skip to the first full level *)
  Lemma begin_spec : forall suf pre b w F fuel, lv = pre ++ suf -> lv_ok k b suf -> 0 < b ->
    length suf = bitlen b -> (length suf <= F)%nat -> (Z.to_nat (len (concat suf)) <= fuel)%nat ->
    it_run fuel s (begin_skip F (Z.of_nat (length pre)) b w) = lv_spec w suf.
  Proof.
    induction suf as [|l suf IH]; intros pre b w F fuel Hlv Hok Hb Hlen HF Hfuel.
    - pose proof (bitlen_pos b Hb). simpl in Hlen. lia.
    - destruct F as [|F]; [simpl in HF; lia|]. cbn [begin_skip]. destruct Hok as [Hl Hok].
      assert (Hlen' : length suf = bitlen (b / 2)).
      { rewrite (bitlen_div2 b Hb) in Hlen. simpl in Hlen. lia. }
      cbn [concat] in Hfuel. rewrite len_app in Hfuel. pose proof (len_nonneg l). pose proof (len_nonneg (concat suf)).
      pose proof (odd_div2 b) as E.
      destruct (Z.odd b) eqn:O.
      + destruct Hl as [Hk' _].
        assert (HL : (length pre < length lv)%nat) by (rewrite Hlv, app_length; simpl; lia).
        assert (Hn : nth (length pre) lv [] = l).
        { rewrite Hlv. rewrite app_nth2 by lia. rewrite Nat.sub_diag. reflexivity. }
        assert (Kp : 1 <= k) by (pose proof (valid_k_pos _ (i_k s I)); unfold k; lia).
        rewrite (run_level (length pre) b w HL ltac:(rewrite Hn; exact Hk') (Z.to_nat k) 0 fuel) by lia.
        rewrite Hn. cbn [Z.to_nat skipn lv_spec]. f_equal.
        apply (scan suf pre l b w); auto; try lia.
        rewrite Hlv, app_length. simpl. lia.
      + subst l. cbn [lv_spec map app].
        assert (Hlv' : lv = (pre ++ [[]]) ++ suf) by (rewrite <- app_assoc; exact Hlv).
        assert (Lpre : Z.of_nat (length (pre ++ [[]])) = Z.of_nat (length pre) + 1) by (rewrite app_length; simpl; lia).
        rewrite <- Lpre. apply (IH (pre ++ [[]]) (b / 2) (2 * w)); auto; try lia.
        simpl in HF. lia.
  Qed.

  (* the base buffer items from index i on, then the search for the first level *)
  Lemma run_bb : forall m i fuel, (1 <= m)%nat -> i = len (cbb s) - Z.of_nat m -> 0 <= i -> (m <= fuel)%nat ->
    it_run fuel s (mkiter (-1) i (cbp s) 1) =
    map (fun x => (x, 1)) (skipn (Z.to_nat i) (cbb s)) ++
    it_run (fuel - m) s (next_level (S (length lv)) (-1) (cbp s) 1).
  Proof.
    induction m as [|m IH]; intros i fuel Hm Hi H0 Hf; [lia|].
    destruct fuel as [|fuel]; [lia|].
    assert (NotEnd : (-1 =? fst (it_end s)) && (i =? snd (it_end s)) = false).
    { rewrite it_end_est. cbn [fst snd]. apply andb_false_iff. left. apply Z.eqb_neq. pose proof len_lv_pos. lia. }
    rewrite it_run_step by exact NotEnd.
    assert (Lt : (Z.to_nat i < length (cbb s))%nat) by (unfold len in *; lia).
    rewrite (skipn_nth 0 _ _ Lt). cbn [map app]. f_equal.
    unfold it_next. cbn [it_level it_index it_bp it_w].
    change (-1 =? -1) with true. change (0 <=? -1) with false. cbn [andb]. rewrite orb_false_r.
    pose proof len_lv_pos as LP. fold lv. destruct (Z.ltb_spec 0 (len lv)); [|lia]. rewrite andb_true_r.
    destruct m as [|m].
    - destruct (Z.eqb_spec (i + 1) (len (cbb s))); [|lia].
      rewrite skipn_all2 by (unfold len in *; lia). cbn [map app]. f_equal. lia.
    - destruct (Z.eqb_spec (i + 1) (len (cbb s))); [lia|].
      replace (S (Z.to_nat i)) with (Z.to_nat (i + 1)) by lia.
      rewrite (IH (i + 1) fuel) by lia. reflexivity.
  Qed.

  (* from the end of the base buffer into the levels *)
  Lemma first_level fuel : (Z.to_nat (len (concat lv)) <= fuel)%nat ->
    it_run fuel s (next_level (S (length lv)) (-1) (cbp s) 1) = lv_spec 2 lv.
  Proof.
    intro Hfuel. cbn [next_level]. change (-1 + 1) with 0. change (0 <? 0) with false. cbv iota.
    destruct (Z.eqb_spec (cbp s) 0); [lia|].
    pose proof (i_lv s I) as V. pose proof (i_len s I) as Ln. fold lv k in V, Ln.
    destruct lv as [|l suf] eqn:Elv; [pose proof (bitlen_pos _ Est); simpl in Ln; lia|].
    destruct V as [Hl Hok].
    assert (Hlen' : length suf = bitlen (cbp s / 2)).
    { rewrite (bitlen_div2 _ Est) in Ln. simpl in Ln. lia. }
    cbn [concat] in Hfuel. rewrite len_app in Hfuel. pose proof (len_nonneg l). pose proof (len_nonneg (concat suf)).
    destruct (Z.odd (cbp s)) eqn:O.
    - destruct Hl as [Hk' _].
      assert (Kp : 1 <= k) by (pose proof (valid_k_pos _ (i_k s I)); unfold k; lia).
      change (mkiter 0 0 (cbp s) (2 * 1)) with (mkiter (Z.of_nat 0) 0 (cbp s) (2 * 1)).
      assert (HL : (0 < length lv)%nat) by (rewrite Elv; simpl; lia).
      pose proof (run_level 0 (cbp s) (2 * 1) HL) as RL. rewrite Elv in RL. cbn [nth] in RL.
      rewrite (RL Hk' (Z.to_nat k) 0 fuel) by lia. clear RL.
      cbn [Z.to_nat skipn lv_spec]. change (2 * 1) with 2. f_equal.
      change (Z.of_nat 0) with (Z.of_nat (length (@nil (list Z)))).
      apply (scan suf [] l (cbp s) 2); auto; try lia.
    - subst l. cbn [lv_spec map app]. change (2 * 1) with 2.
      change (next_level (length ([] :: suf)) 0 (cbp s) 2)
        with (next_level (length ([] :: suf)) (Z.of_nat (length (@nil (list Z)))) (cbp s) 2).
      apply (scan suf [] [] (cbp s) 2); auto; try lia.
  Qed.
End Iterator.

(* the iterator as coded yields exactly the base buffer with weight 1 followed by level i with weight 2^(i+1) *)
Theorem iterate_spec s : Inv s -> iterate s = iter_spec s.
Proof.
  intro I. unfold iterate, iter_spec. destruct (Inv_div s I) as [D1 D2].
  pose proof (i_bp s I) as B. pose proof (len_nonneg (cbb s)) as NB. pose proof (len_nonneg (concat (clv s))) as NL.
  unfold retained. unfold it_begin. rewrite D1, D2.
  destruct (Z.eq_dec (cbp s) 0) as [Z0|NZ].
  - (* exact mode *)
    rewrite Z0. rewrite andb_false_r.
    assert (El : clv s = []) by (apply length_zero_iff_nil; rewrite (i_len s I), Z0; reflexivity).
    rewrite El. cbn [lv_spec]. rewrite app_nil_r. change (len (concat (@nil (list Z)))) with 0.
    rewrite (run_bb_exact s I Z0 (Z.to_nat (len (cbb s))) 0) by lia. reflexivity.
  - assert (Est : 0 < cbp s) by lia.
    destruct (Z.ltb_spec 0 (cbp s)); [|lia]. rewrite andb_true_r.
    destruct (Z.eqb_spec (len (cbb s)) 0) as [E0|E0].
    + (* empty base buffer: begin() skips to the first full level *)
      apply len_zero_nil in E0. rewrite E0. cbn [map app].
      change (len (@nil Z)) with 0.
      change (begin_skip (length (clv s)) 0 (cbp s) 2)
        with (begin_skip (length (clv s)) (Z.of_nat (length (@nil (list Z)))) (cbp s) 2).
      apply (begin_spec s I Est (clv s) [] (cbp s) 2); auto; try lia.
      * apply (i_lv s I).
      * apply (i_len s I).
    + rewrite (run_bb s I Est (Z.to_nat (len (cbb s))) 0) by lia.
      cbn [Z.to_nat skipn]. f_equal. apply first_level; auto. lia.
Qed.

(* ---------- statements about the levels in terms of the bits of bit_pattern ---------- *)
Lemma lv_ok_testbit k : forall lv bp, 0 <= bp -> lv_ok k bp lv -> forall i,
  if Z.testbit bp (Z.of_nat i) then len (nth i lv []) = k /\ ssorted (nth i lv []) else nth i lv [] = [].
Proof.
  induction lv as [|l r IH]; intros bp H0 H i.
  - simpl in H. subst bp. rewrite Z.bits_0. destruct i; reflexivity.
  - destruct H as [H1 H2]. destruct i as [|i].
    + change (Z.of_nat 0) with 0. rewrite Z.bit0_odd. exact H1.
    + rewrite Nat2Z.inj_succ, <- Z.div2_bits by lia. cbn [nth].
      apply IH; [lia|exact H2].
Qed.

Lemma valid_k_check k : valid_k k -> check_k k = true.
Proof.
  intros (j & Hj & ->).
  assert (C : j = 1 \/ j = 2 \/ j = 3 \/ j = 4 \/ j = 5 \/ j = 6 \/ j = 7 \/ j = 8 \/ j = 9 \/ j = 10 \/
              j = 11 \/ j = 12 \/ j = 13 \/ j = 14 \/ j = 15) by lia.
  repeat (destruct C as [->|C]; [reflexivity|]). subst. reflexivity.
Qed.

Section Reachable2.
  Variables (s : cq) (log : list Z).
  Hypothesis R : reach s log.

  Lemma P_iterator : iterate s = iter_spec s /\ len (iterate s) = compute_retained_items (ck s) (cn s) /\
    sum_weights (iterate s) = cn s /\
    (forall x w, In (x, w) (iterate s) <->
       (In x (cbb s) /\ w = 1) \/ exists i, In x (nth i (clv s) []) /\ w = 2 ^ (Z.of_nat i + 1)).
  Proof.
    pose proof (r_inv _ _ (reach_Rel _ _ R)) as I. pose proof (iterate_spec s I) as E. rewrite E.
    split; [reflexivity|]. split; [|split].
    - rewrite iter_spec_length. apply Inv_retained. exact I.
    - rewrite iter_spec_sum. apply Inv_weight. exact I.
    - intros x w. unfold iter_spec. rewrite in_app_iff, in_map_iff, lv_spec_in. split.
      + intros [(y & Ey & Hy)|(h & Hh & Eh)].
        * inversion Ey; subst. left. auto.
        * right. exists h. split; [assumption|]. rewrite Z.pow_add_r by lia. lia.
      + intros [[Hx ->]|(h & Hh & ->)].
        * left. exists x. auto.
        * right. exists h. split; [assumption|]. rewrite Z.pow_add_r by lia. lia.
  Qed.

  Lemma P_levels : length (clv s) = bitlen (cbp s) /\ forall i,
    if Z.testbit (cbp s) (Z.of_nat i) then len (nth i (clv s) []) = ck s /\ ssorted (nth i (clv s) [])
    else nth i (clv s) [] = [].
  Proof.
    pose proof (r_inv _ _ (reach_Rel _ _ R)) as I. split; [apply (i_len s I)|].
    apply lv_ok_testbit; [apply (i_bp s I)|apply (i_lv s I)].
  Qed.
End Reachable2.
