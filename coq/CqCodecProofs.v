(* CqCodecProofs.v — the image of a classic quantiles sketch decodes to the sketch it was written from; documented
   images of every accepted form decode to their content; what the decoder accepts is bounded by the bytes it is given
   (model CqCodecDefs.v).  The byte-level lemmas are those of KllCodecProofs.v, restated for the definitions here. *)
From Coq Require Import ZArith List Bool Lia Permutation Sorted.
From DS Require Import RunnerLib SortedView CqDefs CqProofs CqView CqCodecDefs.
Import ListNotations.
Local Open Scope Z_scope.

(* ===================== little endian ===================== *)
Lemma le_length n : forall x, length (le n x) = n.
Proof. induction n as [|n IH]; intro x; simpl; auto. Qed.

Lemma from_le_le n : forall x, 0 <= x < 256 ^ Z.of_nat n -> from_le (le n x) = x.
Proof.
  induction n as [|n IH]; intros x H.
  - simpl in *. lia.
  - rewrite Nat2Z.inj_succ, Z.pow_succ_r in H by lia. cbn [le from_le]. rewrite IH.
    + pose proof (Z.div_mod x 256 ltac:(lia)). lia.
    + split; [apply Z.div_pos; lia|apply Z.div_lt_upper_bound; lia].
Qed.

Lemma from_le_le_mod n : forall x, from_le (le n x) = x mod 256 ^ Z.of_nat n.
Proof.
  induction n as [|n IH]; intro x.
  - simpl. now rewrite Z.mod_1_r.
  - cbn [le from_le]. rewrite IH, Nat2Z.inj_succ, Z.pow_succ_r by lia.
    rewrite (Z.mul_comm 256), Z.rem_mul_r by lia. lia.
Qed.

Definition is_byte (b : Z) : Prop := 0 <= b < 256.

Lemma from_le_bound : forall bs, Forall is_byte bs -> 0 <= from_le bs < 256 ^ Z.of_nat (length bs).
Proof.
  induction 1 as [|b r Hb Hr IH]; [simpl; lia|].
  cbn [from_le length]. rewrite Nat2Z.inj_succ, Z.pow_succ_r by lia. unfold is_byte in Hb. lia.
Qed.

Lemma take_app n (a b : list Z) : length a = n -> take n (a ++ b) = Some (a, b).
Proof.
  intro H. unfold take. rewrite app_length. replace (n <=? length a + length b)%nat with true by (symmetry; apply Nat.leb_le; lia).
  subst n. now rewrite firstn_app, Nat.sub_diag, firstn_all, skipn_app, Nat.sub_diag, skipn_all, app_nil_r.
Qed.

Lemma take_len n bs a r : take n bs = Some (a, r) -> bs = a ++ r /\ length a = n.
Proof.
  unfold take. destruct (Nat.leb_spec n (length bs)); [|discriminate]. intros [= <- <-].
  split; [symmetry; apply firstn_skipn|apply firstn_length_le; assumption].
Qed.

(* ===================== items ===================== *)
Definition item_ok (kind v : Z) : Prop :=
  if kind =? 1 then Z.abs v < 2 ^ 53 else if kind =? 3 then - 2 ^ 63 < v <= 2 ^ 63 else - 2 ^ 63 <= v < 2 ^ 63.

Lemma i64_roundtrip v : - 2 ^ 63 <= v < 2 ^ 63 -> dec_i64 (enc_i64 v) = v.
Proof.
  intro H. unfold dec_i64, enc_i64. rewrite from_le_le_mod. change (256 ^ Z.of_nat 8) with (2 ^ 64).
  destruct (Z.ltb_spec (v mod 2 ^ 64) (2 ^ 63)) as [L|G].
  - destruct (Z.lt_ge_cases v 0) as [N|P].
    + rewrite <- (Z.mod_add v 1 (2 ^ 64)) in L by lia. rewrite Z.mod_small in L; lia.
    + rewrite Z.mod_small; lia.
  - destruct (Z.lt_ge_cases v 0) as [N|P].
    + rewrite <- (Z.mod_add v 1 (2 ^ 64)) by lia. rewrite Z.mod_small; lia.
    + rewrite Z.mod_small in G; lia.
Qed.

(* binary64 pattern of an integer and back *)
Lemma dbl_int_bits v : v <> 0 -> Z.abs v < 2 ^ 53 -> dbl_int (dbl_bits v) = Some v /\ 0 <= dbl_bits v < 2 ^ 64.
Proof.
  intros NZ H. unfold dbl_bits. destruct (Z.eqb_spec v 0) as [|_]; [contradiction|].
  set (a := Z.abs v). assert (Ha : 1 <= a < 2 ^ 53) by (unfold a; lia).
  set (e := Z.log2 a). destruct (Z.log2_spec a ltac:(lia)) as [L1 L2]. fold e in L1, L2.
  assert (He : 0 <= e <= 52).
  { split; [apply Z.log2_nonneg|]. assert (e < 53); [|lia]. apply (Z.pow_lt_mono_r_iff 2); lia. }
  set (P := 2 ^ (52 - e)).
  assert (HP : 2 ^ e * P = 2 ^ 52). { unfold P. rewrite <- Z.pow_add_r by lia. f_equal. lia. }
  assert (P1 : 1 <= P) by (unfold P; pose proof (Z.pow_pos_nonneg 2 (52 - e)); lia).
  set (man := a * P - 2 ^ 52).
  assert (Hm : 0 <= man < 2 ^ 52). { unfold man. rewrite Z.pow_succ_r in L2 by lia. nia. }
  set (sg := if v <? 0 then 1 else 0).
  assert (ES : (if v <? 0 then 2 ^ 63 else 0) = sg * 2 ^ 63) by (unfold sg; destruct (v <? 0); lia).
  rewrite ES. set (U := sg * 2 ^ 63 + (e + 1023) * 2 ^ 52 + man).
  assert (Hsg : 0 <= sg <= 1) by (unfold sg; destruct (v <? 0); lia).
  assert (F1 : (U =? 0) = false) by (apply Z.eqb_neq; unfold U; nia).
  assert (F2 : U / 2 ^ 63 = sg).
  { symmetry. apply (Z.div_unique U (2 ^ 63) sg ((e + 1023) * 2 ^ 52 + man)); [nia|unfold U; lia]. }
  assert (F3 : U mod 2 ^ 63 = (e + 1023) * 2 ^ 52 + man).
  { symmetry. apply (Z.mod_unique U (2 ^ 63) sg); [nia|unfold U; lia]. }
  assert (F4 : ((e + 1023) * 2 ^ 52 + man) / 2 ^ 52 = e + 1023).
  { symmetry. apply (Z.div_unique _ (2 ^ 52) (e + 1023) man); lia. }
  assert (F5 : U mod 2 ^ 52 = man).
  { symmetry. apply (Z.mod_unique U (2 ^ 52) (sg * 2048 + e + 1023)); [lia|unfold U; lia]. }
  split; [|unfold U; nia].
  unfold dbl_int. rewrite F1. cbv zeta. rewrite F2, F3, F4, F5.
  replace (e + 1023 - 1023) with e by lia.
  replace ((e <? 0) || (52 <? e)) with false by (symmetry; apply orb_false_iff; split; apply Z.ltb_ge; lia).
  fold P. replace (2 ^ 52 + man) with (a * P) by (unfold man; lia).
  rewrite Z.mod_mul, Z.div_mul by lia. cbn [Z.eqb].
  f_equal. unfold sg, a. destruct (Z.ltb_spec v 0); simpl Z.eqb; cbv iota; lia.
Qed.

Lemma item_roundtrip kind v : item_ok kind v -> length (item_enc kind v) = 8%nat /\ item_dec kind (item_enc kind v) = Some v.
Proof.
  unfold item_ok, item_enc, item_dec. destruct (kind =? 1).
  - intro H. split; [apply le_length|]. destruct (Z.eq_dec v 0) as [->|NZ]; [reflexivity|].
    destruct (dbl_int_bits v NZ H) as [A B]. rewrite from_le_le by (change (256 ^ Z.of_nat 8) with (2 ^ 64); exact B). exact A.
  - destruct (kind =? 3).
    + intro H. split; [apply le_length|]. rewrite i64_roundtrip by lia. f_equal. lia.
    + intro H. split; [apply le_length|]. now rewrite i64_roundtrip.
Qed.

Lemma item_enc_length kind v : length (item_enc kind v) = 8%nat.
Proof. unfold item_enc, enc_i64. destruct (kind =? 1); [|destruct (kind =? 3)]; apply le_length. Qed.

Lemma take_items_enc kind : forall vs rest, Forall (item_ok kind) vs ->
  take_items kind (length vs) (flat_map (item_enc kind) vs ++ rest) = Some (vs, rest).
Proof.
  induction vs as [|v vs IH]; intros rest H; [reflexivity|].
  inversion H; subst. destruct (item_roundtrip kind v H2) as [L D].
  cbn [length flat_map take_items]. rewrite <- app_assoc, (take_app 8 _ _ L), D, IH by assumption. reflexivity.
Qed.

Lemma take_items_len kind : forall n bs vs r, take_items kind n bs = Some (vs, r) ->
  exists p, bs = p ++ r /\ length p = (8 * n)%nat /\ length vs = n.
Proof.
  induction n as [|n IH]; intros bs vs r H; cbn [take_items] in H.
  - inversion H; subst. exists []. auto.
  - destruct (take 8 bs) as [[b r0]|] eqn:T; [|discriminate]. apply take_len in T as [-> Lb].
    destruct (item_dec kind b); [|discriminate]. destruct (take_items kind n r0) as [[vs' r']|] eqn:E; [|discriminate].
    inversion H; subst. destruct (IH _ _ _ E) as (p & -> & Lp & Lv).
    exists (b ++ p). rewrite app_assoc, app_length. simpl. repeat split; auto; lia.
Qed.

Lemma flat_map_len8 kind (l : list Z) : length (flat_map (item_enc kind) l) = (8 * length l)%nat.
Proof. induction l as [|x l IH]; [reflexivity|]. cbn [flat_map length]. rewrite app_length, item_enc_length, IH. lia. Qed.

Lemma k_bytes k : 0 <= k < 65536 -> k mod 256 + 256 * (k / 256 mod 256) = k.
Proof. intro H. rewrite (Z.mod_small (k / 256)) by (split; [apply Z.div_pos; lia|apply Z.div_lt_upper_bound; lia]). pose proof (Z.div_mod k 256 ltac:(lia)). lia. Qed.

Lemma valid_k_lt k : valid_k k -> 2 <= k < 65536.
Proof.
  intro V. pose proof (valid_k_pos k V). destruct V as (j & Hj & ->). split; [assumption|].
  assert (2 ^ j <= 2 ^ 15) by (apply Z.pow_le_mono_r; lia). change (2 ^ 15) with 32768 in *. lia.
Qed.

(* ===================== levels ===================== *)
Lemma read_levels_enc kind k : 0 <= k -> forall lv bp rest, lv_ok k bp lv -> Forall (item_ok kind) (concat lv) ->
  read_levels kind (Z.to_nat k) (length lv) bp (flat_map (item_enc kind) (concat lv) ++ rest) = Some (lv, rest).
Proof.
  intro Hk. induction lv as [|l r IH]; intros bp rest Hok Hf; [reflexivity|].
  destruct Hok as [Hl Hr]. cbn [concat] in Hf. apply Forall_app in Hf as [Fl Fr].
  cbn [length read_levels concat]. rewrite flat_map_app, <- app_assoc.
  destruct (Z.odd bp).
  - destruct Hl as [Ll _]. assert (Ek : Z.to_nat k = length l) by (unfold len in Ll; lia).
    rewrite Ek at 1. rewrite take_items_enc by assumption. rewrite (IH _ _ Hr Fr). reflexivity.
  - subst l. cbn [flat_map app]. rewrite (IH _ _ Hr Fr). reflexivity.
Qed.

(* number of set bits among the lowest nl *)
Fixpoint setbits (nl : nat) (pat : Z) : nat :=
  match nl with
  | O => O
  | S n' => ((if Z.odd pat then 1 else 0) + setbits n' (pat / 2))%nat
  end.

Lemma read_levels_len kind k : forall nl pat bs lv r, read_levels kind k nl pat bs = Some (lv, r) ->
  exists p, bs = p ++ r /\ length p = (8 * (k * setbits nl pat))%nat /\ length lv = nl /\
            length (concat lv) = (k * setbits nl pat)%nat.
Proof.
  induction nl as [|nl IH]; intros pat bs lv r H; cbn [read_levels] in H.
  - inversion H; subst. exists []. cbn. repeat split; lia.
  - cbn [setbits]. destruct (Z.odd pat).
    + destruct (take_items kind k bs) as [[l r0]|] eqn:T; [|discriminate].
      destruct (read_levels kind k nl (pat / 2) r0) as [[ls r']|] eqn:E; [|discriminate]. inversion H; subst.
      destruct (take_items_len _ _ _ _ _ T) as (p1 & -> & L1 & Lv). destruct (IH _ _ _ _ E) as (p2 & -> & L2 & L3 & L4).
      exists (p1 ++ p2). rewrite app_assoc, app_length. cbn [concat length]. rewrite app_length. repeat split; auto; lia.
    + destruct (read_levels kind k nl (pat / 2) bs) as [[ls r']|] eqn:E; [|discriminate]. inversion H; subst.
      destruct (IH _ _ _ _ E) as (p2 & -> & L2 & L3 & L4). exists p2. cbn [concat length app]. repeat split; auto; lia.
Qed.

(* ===================== documented images decode to their content ===================== *)
Definition Fits (kind : Z) (s : cq) : Prop :=
  cn s < 2 ^ 64 /\ Forall (item_ok kind) (cbb s) /\ Forall (item_ok kind) (concat (clv s)) /\
  item_ok kind (cmin s) /\ item_ok kind (cmax s).

(* the flags and preamble a non-empty image of serial version sv may carry *)
Definition doc_header_ok (sv fl : Z) : Prop :=
  bit fl 2 = false /\ ((sv = 3) \/ ((sv = 1 \/ sv = 2) /\ bit fl 3 = false)).

Lemma doc_header_valid sv fl : doc_header_ok sv fl -> header_valid (pre_of sv) fl sv = true.
Proof.
  intros [E [ -> | [ [ -> | -> ] C ] ] ]; unfold header_valid, header_sw, pre_of; rewrite E, ?C.
  - destruct (bit fl 3); reflexivity.
  - reflexivity.
  - reflexivity.
Qed.

Definition doc_compact (sv fl : Z) : bool := (sv =? 2) || bit fl 3.
Definition doc_pad_len (sv fl : Z) (s : cq) : nat :=
  if (cbp s =? 0) || doc_compact sv fl then O else (8 * Z.to_nat (2 * ck s - len (cbb s)))%nat.

Definition doc_body (kind sv : Z) (unused pad : list Z) (s : cq) : list Z :=
  le 8 (cn s) ++ item_enc kind (cmin s) ++ item_enc kind (cmax s) ++ (if sv =? 1 then unused else []) ++
  flat_map (item_enc kind) (cbb s) ++ pad ++ flat_map (item_enc kind) (concat (clv s)).

Lemma enc_doc_shape kind sv fl unused pad s rest :
  cq_enc_doc kind sv fl unused pad s ++ rest =
  pre_of sv :: sv :: 8 :: fl :: ck s mod 256 :: (ck s / 256) mod 256 :: 0 :: 0 :: (doc_body kind sv unused pad s ++ rest).
Proof. reflexivity. Qed.

Theorem dec_doc kind sv fl unused pad s rest :
  Inv s -> 0 < cn s -> Fits kind s -> doc_header_ok sv fl -> (sv = 1 -> length unused = 8%nat) -> length pad = doc_pad_len sv fl s ->
  cq_dec kind (cq_enc_doc kind sv fl unused pad s ++ rest) =
  Some (mkcq (ck s) (cn s) (cbp s) (cbb s) (clv s) (cmin s) (cmax s) (bit fl 4), rest).
Proof.
  intros I Hn (Fn & Fb & Fl & Fmi & Fma) Hd Lu Lp.
  pose proof I as [K B N Lb V Ln _]. pose proof (valid_k_lt _ K) as K2. destruct (Inv_div s I) as [D1 D2].
  rewrite enc_doc_shape. unfold cq_dec. cbv beta iota. rewrite (k_bytes (ck s)) by lia. rewrite (valid_k_check _ K). cbn [negb].
  assert (SV : (sv =? 1) || (sv =? 2) || (sv =? 3) = true).
  { destruct Hd as [_ [ -> | [ [ -> | -> ] _ ] ] ]; reflexivity. }
  rewrite SV. change (8 =? 8) with true. cbn [negb]. rewrite (doc_header_valid _ _ Hd). cbn [negb].
  destruct Hd as [E2 Hsv]. rewrite E2. unfold doc_body.
  rewrite <- !app_assoc. rewrite (take_app 8) by apply le_length.
  rewrite from_le_le by (change (256 ^ Z.of_nat 8) with (2 ^ 64); lia).
  change (item_enc kind (cmin s) ++ item_enc kind (cmax s) ++ ?X) with (item_enc kind (cmin s) ++ item_enc kind (cmax s) ++ X).
  assert (T2 : forall X, take_items kind 2 (item_enc kind (cmin s) ++ item_enc kind (cmax s) ++ X) = Some ([cmin s; cmax s], X)).
  { intro X. pose proof (take_items_enc kind [cmin s; cmax s] X ltac:(repeat constructor; assumption)) as H.
    cbn [flat_map length] in H. rewrite <- !app_assoc in H. rewrite app_nil_l in H. exact H. }
  rewrite T2.
  assert (T3 : forall X, (if sv =? 1 then take 8 ((if sv =? 1 then unused else []) ++ X) else Some ([], (if sv =? 1 then unused else []) ++ X))
                         = Some ((if sv =? 1 then unused else []), X)).
  { intro X. destruct (Z.eqb_spec sv 1) as [E1|_]; [apply take_app; exact (Lu E1)|reflexivity]. }
  rewrite T3. unfold levels_needed. rewrite D1, D2.
  replace (Z.to_nat (len (cbb s))) with (length (cbb s)) by (unfold len; lia).
  rewrite take_items_enc by assumption.
  assert (EX : (if (bitlen (cbp s) =? 0)%nat || ((sv =? 2) || bit fl 3) then 0 else 2 * ck s - len (cbb s)) =
               Z.of_nat (length pad) / 8).
  { rewrite Lp. unfold doc_pad_len, doc_compact.
    assert (Z0 : (bitlen (cbp s) =? 0)%nat = (cbp s =? 0)).
    { destruct (Z.eqb_spec (cbp s) 0) as [->|NZ]; [reflexivity|]. pose proof (bitlen_pos (cbp s) ltac:(lia)).
      destruct (bitlen (cbp s)); [lia|reflexivity]. }
    rewrite Z0. destruct ((cbp s =? 0) || ((sv =? 2) || bit fl 3)); [reflexivity|].
    replace (Z.of_nat (8 * Z.to_nat (2 * ck s - len (cbb s)))) with ((2 * ck s - len (cbb s)) * 8) by lia.
    rewrite Z.div_mul; lia. }
  rewrite EX.
  assert (P8 : (8 * Z.to_nat (Z.of_nat (length pad) / 8))%nat = length pad).
  { rewrite Lp. unfold doc_pad_len. destruct ((cbp s =? 0) || doc_compact sv fl); [reflexivity|].
    replace (Z.of_nat (8 * Z.to_nat (2 * ck s - len (cbb s)))) with ((2 * ck s - len (cbb s)) * 8) by lia.
    rewrite Z.div_mul by lia. lia. }
  rewrite P8, (take_app (length pad)) by reflexivity.
  rewrite <- Ln. rewrite (read_levels_enc kind (ck s) ltac:(lia) _ _ _ V Fl). reflexivity.
Qed.

(* ===================== the sketch's own images ===================== *)
Definition norm (s : cq) : cq := if cn s =? 0 then cq_new (ck s) else ser_state s.

Lemma isort_forall (P : Z -> Prop) l : Forall P l -> Forall P (isort l).
Proof. intro H. eapply Permutation_Forall; [symmetry; apply isort_perm|exact H]. Qed.

Lemma isort_sorted_id : forall l, ssorted l -> isort l = l.
Proof.
  induction l as [|x r IH]; intro H; [reflexivity|]. inversion H as [|? ? Hr Fx]; subst.
  cbn [isort]. rewrite (IH Hr). destruct r as [|y r']; [reflexivity|]. cbn [insert].
  inversion Fx; subst. destruct (Z.ltb_spec x y); [reflexivity|].
  assert (x = y) by lia. subst y. f_equal.
  (* x :: r' with x <= everything in r': inserting x in front again *)
  clear IH H Fx H2 H0. revert Hr. generalize r' as t. intros t Ht. inversion Ht as [|? ? Ht' Ft]; subst.
  clear Ht. induction t as [|z t IHt]; [reflexivity|]. cbn [insert]. inversion Ft; subst.
  destruct (Z.ltb_spec x z); [reflexivity|]. assert (x = z) by lia. subst z. f_equal. apply IHt; auto.
  inversion Ht'; assumption.
Qed.

Lemma enc_is_doc kind s : cn s <> 0 -> cq_enc kind s = cq_enc_doc kind 3 24 [] [] (ser_state s).
Proof.
  intro NZ. unfold cq_enc, cq_enc_doc, flags_of, ser_state, pre_of. cbn [ck cn cbb clv cmin cmax].
  destruct (Z.eqb_spec (cn s) 0); [contradiction|]. cbn [Z.eqb app]. reflexivity.
Qed.

Lemma ser_state_Inv s : Inv s -> Inv (ser_state s).
Proof.
  intros [K B N Lb V Ln Sr]. assert (Ll : len (isort (cbb s)) = len (cbb s)) by (unfold len; now rewrite isort_length).
  constructor; unfold ser_state; cbn [ck cn cbp cbb clv csorted]; auto; try lia. intros _. apply isort_sorted.
Qed.

Theorem dec_enc kind s rest : Inv s -> (0 < cn s -> Fits kind s) ->
  cq_dec kind (cq_enc kind s ++ rest) = Some (norm s, rest).
Proof.
  intros I F. pose proof (i_k s I) as K. pose proof (valid_k_lt _ K) as K2. unfold norm.
  destruct (Z.eqb_spec (cn s) 0) as [Z0|NZ].
  - unfold cq_enc, flags_of. rewrite Z0. cbn [Z.eqb le app]. unfold cq_dec.
    rewrite (k_bytes (ck s)) by lia. rewrite (valid_k_check _ K). reflexivity.
  - pose proof (i_n s I). pose proof (i_bp s I). pose proof (len_nonneg (cbb s)).
    assert (Hn : 0 < cn s) by nia. destruct (F Hn) as (Fn & Fb & Fl & Fmi & Fma).
    rewrite (enc_is_doc kind s NZ).
    rewrite (dec_doc kind 3 24 [] [] (ser_state s) rest (ser_state_Inv s I)).
    + reflexivity.
    + exact Hn.
    + repeat split; unfold ser_state; cbn [cn cbb clv cmin cmax]; auto. now apply isort_forall.
    + split; [reflexivity|left; reflexivity].
    + intro; discriminate.
    + unfold doc_pad_len, doc_compact. change (bit 24 3) with true. rewrite !orb_true_r. reflexivity.
Qed.

(* re-serialization gives the same image *)
Theorem enc_norm kind s : cq_enc kind (norm s) = cq_enc kind s.
Proof.
  unfold norm. destruct (Z.eqb_spec (cn s) 0) as [Z0|NZ].
  - unfold cq_enc, flags_of, cq_new. cbn [cn ck]. rewrite Z0. reflexivity.
  - unfold cq_enc, flags_of, ser_state. cbn [cn ck cbb clv cmin cmax].
    rewrite (isort_sorted_id (isort (cbb s))) by apply isort_sorted. reflexivity.
Qed.

(* the image has exactly the advertised size *)
Theorem enc_size kind s : Inv s -> len (cq_enc kind s) = serialized_size s.
Proof.
  intro I. unfold cq_enc, serialized_size. rewrite <- (Inv_retained s I). unfold retained.
  destruct (Z.eqb_spec (cn s) 0); [reflexivity|].
  unfold len. rewrite !app_length, !flat_map_len8, !item_enc_length, isort_length, !le_length. cbn [length]. lia.
Qed.

(* ===================== what an accepted image must contain (C11) ===================== *)
(* the number of bytes the reader consumes, as a function of the first 16 bytes *)
Definition image_len (bytes : list Z) : nat :=
  match bytes with
  | pre :: sv :: fam :: flags :: k0 :: k1 :: _ :: _ :: rest =>
      if bit flags 2 then 8%nat else
      let k := k0 + 256 * k1 in
      let n := from_le (firstn 8 rest) in
      let compact := (sv =? 2) || bit flags 3 in
      let nl := levels_needed k n in
      let bbn := n mod (2 * k) in
      let extra := if (nl =? 0)%nat || compact then 0 else 2 * k - bbn in
      (32 + (if (sv =? 1)%Z then 8 else 0) + 8 * Z.to_nat bbn + 8 * Z.to_nat extra + 8 * (Z.to_nat k * setbits nl (n / (2 * k))))%nat
  | _ => O
  end.

Lemma dec_short kind bytes : (length bytes < 8)%nat -> cq_dec kind bytes = None.
Proof.
  intro H. do 8 (destruct bytes as [|? bytes]; [reflexivity|]). simpl in H. lia.
Qed.

(* Lemma A: an accepted image is exactly image_len bytes followed by the rest; its content fits into it *)
Theorem dec_len kind bytes s rest : cq_dec kind bytes = Some (s, rest) ->
  exists p, bytes = p ++ rest /\ length p = image_len bytes /\
    (8 * (length (cbb s) + length (concat (clv s))) <= image_len bytes)%nat /\
    length (clv s) = levels_needed (ck s) (cn s).
Proof.
  intro H. destruct (Nat.lt_ge_cases (length bytes) 8) as [Sh|Lg]; [rewrite (dec_short _ _ Sh) in H; discriminate|].
  do 8 (destruct bytes as [|? bytes]; [simpl in Lg; lia|]). clear Lg.
  rename z into pre, z0 into sv, z1 into fam, z2 into flags, z3 into k0, z4 into k1.
  unfold cq_dec in H. cbv beta iota in H. unfold image_len. cbv beta iota.
  set (k := k0 + 256 * k1) in *.
  destruct (check_k k) eqn:CK; [|discriminate]. cbn [negb] in H.
  destruct ((sv =? 1) || (sv =? 2) || (sv =? 3)); [|discriminate]. cbn [negb] in H.
  destruct (fam =? 8); [|discriminate]. cbn [negb] in H.
  destruct (header_valid pre flags sv); [|discriminate]. cbn [negb] in H.
  destruct (bit flags 2).
  - inversion H; subst. exists [pre; sv; fam; flags; k0; k1; z5; z6]. cbn. repeat split; lia.
  - destruct (take 8 bytes) as [[bn r1]|] eqn:T1; [|discriminate]. apply take_len in T1 as [-> L1].
    rewrite firstn_app, L1, Nat.sub_diag, firstn_O, app_nil_r, firstn_all2 by lia.
    set (n := from_le bn) in *.
    destruct (take_items kind 2 r1) as [[[|lo [|hi [|? ?]]] r2]|] eqn:T2; try discriminate.
    destruct (take_items_len _ _ _ _ _ T2) as (p2 & -> & L2 & _).
    set (compact := (sv =? 2) || bit flags 3) in *.
    destruct (if sv =? 1 then take 8 r2 else Some ([], r2)) as [[u r3]|] eqn:T3; [|discriminate].
    assert (E3 : exists p3, r2 = p3 ++ r3 /\ length p3 = (if (sv =? 1)%Z then 8%nat else 0%nat)).
    { destruct (sv =? 1); [apply take_len in T3 as [-> L3]; eauto|inversion T3; subst; exists []; auto]. }
    destruct E3 as (p3 & -> & L3).
    destruct (take_items kind (Z.to_nat (n mod (2 * k))) r3) as [[bb r4]|] eqn:T4; [|discriminate].
    destruct (take_items_len _ _ _ _ _ T4) as (p4 & -> & L4 & Lbb).
    set (extra := if (levels_needed k n =? 0)%nat || compact then 0 else 2 * k - n mod (2 * k)) in *.
    destruct (take (8 * Z.to_nat extra) r4) as [[e5 r5]|] eqn:T5; [|discriminate]. apply take_len in T5 as [-> L5].
    destruct (read_levels kind (Z.to_nat k) (levels_needed k n) (n / (2 * k)) r5) as [[lv r6]|] eqn:T6; [|discriminate].
    destruct (read_levels_len _ _ _ _ _ _ _ T6) as (p6 & -> & L6 & L7 & L8).
    inversion H; subst. cbn [cbb clv ck cn].
    exists (pre :: sv :: fam :: flags :: k0 :: k1 :: z5 :: z6 :: bn ++ p2 ++ p3 ++ p4 ++ e5 ++ p6).
    split; [cbn [app]; rewrite <- !app_assoc; reflexivity|].
    split; [cbn [length]; rewrite !app_length; lia|]. split; [lia|exact L7].
Qed.

(* the first 16 bytes decide how long the image is *)
Lemma image_len_16 (a b c : list Z) : length a = 16%nat -> image_len (a ++ b) = image_len (a ++ c).
Proof.
  intro H. do 16 (destruct a as [|? a]; [discriminate|]). destruct a; [|discriminate]. reflexivity.
Qed.

Lemma image_len_nonempty bytes : (8 <= length bytes)%nat -> bit (nth 3 bytes 0) 2 = false -> (32 <= image_len bytes)%nat.
Proof.
  intros H B. do 8 (destruct bytes as [|? bytes]; [simpl in H; lia|]). cbn [nth] in B. unfold image_len. rewrite B.
  match goal with |- (32 <= 32 + ?a + ?b + ?c + ?d)%nat => generalize a, b, c, d; intros; lia end.
Qed.

Lemma firstn_split16 {A} (l : list A) m : (16 <= m)%nat -> firstn m l = firstn 16 l ++ firstn (m - 16) (skipn 16 l).
Proof.
  intro H. rewrite <- (firstn_skipn 16 l) at 1. rewrite firstn_app.
  destruct (Nat.le_gt_cases 16 (length l)) as [L|L].
  - rewrite firstn_length_le by assumption. rewrite firstn_all2 by (rewrite firstn_length_le; lia). reflexivity.
  - rewrite !(firstn_all2 (n:=16) l) by lia. rewrite (skipn_all2 (n:=16) l) by lia. rewrite !firstn_nil, !app_nil_r.
    apply firstn_all2. lia.
Qed.

(* every strict prefix of the image of a sketch is rejected *)
Theorem dec_prefix kind s m : Inv s -> (0 < cn s -> Fits kind s) -> (m < length (cq_enc kind s))%nat ->
  cq_dec kind (firstn m (cq_enc kind s)) = None.
Proof.
  intros I F Hm. set (img := cq_enc kind s) in *.
  destruct (cq_dec kind (firstn m img)) as [[s' r]|] eqn:E; [exfalso|reflexivity].
  destruct (dec_len _ _ _ _ E) as (p & Ep & Lp & _).
  assert (Lm : length (firstn m img) = m) by (apply firstn_length_le; lia).
  assert (M1 : (image_len (firstn m img) <= m)%nat).
  { rewrite <- Lm at 2. rewrite Ep at 2. rewrite app_length. lia. }
  pose proof (dec_enc kind s [] I F) as R. rewrite app_nil_r in R. fold img in R.
  destruct (dec_len _ _ _ _ R) as (q & Eq & Lq & _). rewrite app_nil_r in Eq.
  assert (Li : length img = image_len img) by (rewrite Eq at 1; exact Lq).
  destruct (Nat.lt_ge_cases m 8) as [S8|G8].
  { rewrite dec_short in E by lia. discriminate. }
  destruct (Z.eqb_spec (cn s) 0) as [Z0|NZ].
  { unfold img, cq_enc in Hm. rewrite Z0 in Hm. cbn in Hm. lia. }
  assert (FB : bit (nth 3 (firstn m img) 0) 2 = false).
  { unfold img, cq_enc, flags_of. destruct (Z.eqb_spec (cn s) 0); [contradiction|].
    do 4 (destruct m as [|m]; [lia|]). reflexivity. }
  pose proof (image_len_nonempty (firstn m img) ltac:(lia) FB) as G32.
  destruct (Nat.lt_ge_cases m 16) as [S16|G16]; [lia|].
  assert (L16 : length (firstn 16 img) = 16%nat) by (apply firstn_length_le; lia).
  rewrite (firstn_split16 img m G16) in M1.
  rewrite (image_len_16 _ _ (skipn 16 img) L16), firstn_skipn in M1. lia.
Qed.

(* bytes of an image are bytes, so n < 2^64 and there are at most 63 levels *)
Lemma levels_needed_le k n : 1 <= k -> 0 <= n < 2 ^ 64 -> (levels_needed k n <= 63)%nat.
Proof.
  intros Hk Hn. unfold levels_needed. apply bitlen_least.
  - apply Z.div_pos; lia.
  - change (2 ^ Z.of_nat 63) with (2 ^ 63). apply Z.div_lt_upper_bound; [lia|]. change (2 ^ 64) with (2 * 2 ^ 63) in Hn. nia.
Qed.

Theorem dec_bounded kind bytes s rest : Forall is_byte bytes -> cq_dec kind bytes = Some (s, rest) ->
  (8 * (length (cbb s) + length (concat (clv s))) <= length bytes)%nat /\ (length (clv s) <= 63)%nat /\
  (length rest <= length bytes)%nat /\ valid_k (ck s).
Proof.
  intros Hb H. destruct (dec_len _ _ _ _ H) as (p & Ep & Lp & C & Ll).
  assert (Lb : length bytes = (image_len bytes + length rest)%nat) by (rewrite Ep at 1; rewrite app_length; lia).
  split; [lia|]. split; [|split; [lia|]].
  - (* k and n are read from the bytes *)
    destruct (Nat.lt_ge_cases (length bytes) 8) as [Sh|Lg]; [rewrite (dec_short _ _ Sh) in H; discriminate|].
    do 8 (destruct bytes as [|? bytes]; [simpl in Lg; lia|]).
    unfold cq_dec in H. cbv beta iota in H. set (k := z3 + 256 * z4) in *.
    destruct (check_k k) eqn:CK; [|discriminate]. cbn [negb] in H. apply check_k_valid, valid_k_pos in CK.
    destruct ((z0 =? 1) || (z0 =? 2) || (z0 =? 3)); [|discriminate]. cbn [negb] in H.
    destruct (z1 =? 8); [|discriminate]. cbn [negb] in H.
    destruct (header_valid z z2 z0); [|discriminate]. cbn [negb] in H.
    destruct (bit z2 2); [inversion H; subst; simpl; lia|].
    destruct (take 8 bytes) as [[bn r1]|] eqn:T1; [|discriminate]. pose proof T1 as T1'. apply take_len in T1' as [E1 L1].
    assert (Bn : 0 <= from_le bn < 2 ^ 64).
    { assert (Fb : Forall is_byte bn).
      { do 8 (apply Forall_inv_tail in Hb). rewrite E1 in Hb. apply Forall_app in Hb. tauto. }
      pose proof (from_le_bound bn Fb) as X. rewrite L1 in X. exact X. }
    destruct (take_items kind 2 r1) as [[[|lo [|hi [|? ?]]] r2]|]; try discriminate.
    destruct (if z0 =? 1 then take 8 r2 else Some ([], r2)) as [[u r3]|]; [|discriminate].
    destruct (take_items kind _ r3) as [[bb r4]|]; [|discriminate].
    destruct (take _ r4) as [[e5 r5]|]; [|discriminate].
    destruct (read_levels kind _ _ _ r5) as [[lv r6]|] eqn:T6; [|discriminate].
    inversion H; subst. cbn [clv ck cn] in *. rewrite Ll. apply levels_needed_le; lia.
  - destruct (Nat.lt_ge_cases (length bytes) 8) as [Sh|Lg]; [rewrite (dec_short _ _ Sh) in H; discriminate|].
    do 8 (destruct bytes as [|? bytes]; [simpl in Lg; lia|]).
    unfold cq_dec in H. cbv beta iota in H. set (k := z3 + 256 * z4) in *.
    destruct (check_k k) eqn:CK; [|discriminate]. cbn [negb] in H. apply check_k_valid in CK.
    destruct ((z0 =? 1) || (z0 =? 2) || (z0 =? 3)); [|discriminate]. cbn [negb] in H.
    destruct (z1 =? 8); [|discriminate]. cbn [negb] in H.
    destruct (header_valid z z2 z0); [|discriminate]. cbn [negb] in H.
    destruct (bit z2 2); [inversion H; subst; exact CK|].
    destruct (take 8 bytes) as [[bn r1]|]; [|discriminate].
    destruct (take_items kind 2 r1) as [[[|lo [|hi [|? ?]]] r2]|]; try discriminate.
    destruct (if z0 =? 1 then take 8 r2 else Some ([], r2)) as [[u r3]|]; [|discriminate].
    destruct (take_items kind _ r3) as [[bb r4]|]; [|discriminate].
    destruct (take _ r4) as [[e5 r5]|]; [|discriminate].
    destruct (read_levels kind _ _ _ r5) as [[lv r6]|]; [|discriminate].
    inversion H; subst. exact CK.
Qed.


(* ===================== the restored sketch against the original ===================== *)
Lemma Inv_n0 s : Inv s -> cn s = 0 -> cbp s = 0 /\ cbb s = [] /\ clv s = [].
Proof.
  intros [K B N Lb V Ln _] Z0. pose proof (valid_k_pos _ K). pose proof (len_nonneg (cbb s)).
  assert (E1 : cbp s = 0) by nia. assert (E2 : len (cbb s) = 0) by nia.
  split; [exact E1|]. split; [now apply len_zero_nil|]. apply length_zero_iff_nil. rewrite Ln, E1. reflexivity.
Qed.

(* the restored sketch is a reachable sketch again (so everything proved for reachable sketches holds for it and for
   whatever is done with it afterwards) *)
Theorem norm_reach s log : reach s log -> reach (norm s) log.
Proof.
  intro R. pose proof (reach_Rel _ _ R) as [I Nl _ _ _]. unfold norm.
  destruct (Z.eqb_spec (cn s) 0) as [Z0|NZ].
  - rewrite Z0 in Nl. symmetry in Nl. apply len_zero_nil in Nl. subst log.
    apply reach_new. apply valid_k_check. apply (i_k s I).
  - destruct (csorted s) eqn:E.
    + assert (Es : ser_state s = s).
      { unfold ser_state. rewrite (isort_sorted_id _ (i_srt s I E)). destruct s; cbn in *. now subst. }
      rewrite Es. exact R.
    + assert (Es : ser_state s = sort_bb s) by (unfold ser_state, sort_bb; now rewrite E).
      rewrite Es. now apply reach_sort.
Qed.

Lemma qstate_bb s : Inv s -> cbb (qstate s) = isort (cbb s).
Proof.
  intro I. unfold qstate, sort_bb. destruct (csorted s) eqn:E; [|reflexivity].
  symmetry. apply isort_sorted_id. apply (i_srt s I E).
Qed.

(* every query (rank, quantile, CDF, PMF, sorted view) answers from the same sorted view *)
Theorem qview_norm s log : reach s log -> qview (norm s) = qview s.
Proof.
  intro R. pose proof (r_inv _ _ (reach_Rel _ _ R)) as I.
  pose proof (r_inv _ _ (reach_Rel _ _ (norm_reach _ _ R))) as I'.
  unfold qview, sorted_view. rewrite (qstate_bb _ I), (qstate_bb _ I').
  destruct (qstate_fields s) as (_ & E1 & _). destruct (qstate_fields (norm s)) as (_ & E2 & _). rewrite E1, E2.
  unfold norm. destruct (Z.eqb_spec (cn s) 0) as [Z0|NZ].
  - destruct (Inv_n0 s I Z0) as (_ & -> & ->). reflexivity.
  - unfold ser_state. cbn [cbb clv]. rewrite (isort_sorted_id (isort (cbb s))) by apply isort_sorted. reflexivity.
Qed.

Theorem norm_fields s log : reach s log ->
  ck (norm s) = ck s /\ cn (norm s) = cn s /\ cbp (norm s) = cbp s /\ clv (norm s) = clv s /\
  cbb (norm s) = isort (cbb s) /\ (0 < cn s -> cmin (norm s) = cmin s /\ cmax (norm s) = cmax s).
Proof.
  intro R. pose proof (r_inv _ _ (reach_Rel _ _ R)) as I. unfold norm.
  destruct (Z.eqb_spec (cn s) 0) as [Z0|NZ].
  - destruct (Inv_n0 s I Z0) as (E1 & E2 & E3). unfold cq_new. cbn [ck cn cbp clv cbb]. rewrite E1, E2, E3, Z0.
    repeat split; auto; lia.
  - unfold ser_state. cbn. repeat split; reflexivity.
Qed.
