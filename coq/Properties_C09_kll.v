(* Properties_C09_kll.v — C09 (and the layout side of C10) for the KLL sketch over int64 and integer-valued double
   items: the image written by serialize (model KllCodecDefs.kll_enc, compared byte for byte with the code on every
   run) decodes (model kll_dec of deserialize(bytes)) to exactly the sketch it was written from.
   Statements only; proofs in KllCodecProofs.v.  [Fits]: every value fits the integer width of its field
   (k, min_k < 2^16, n < 2^64, num_levels < 256, items_size_ < 2^32, items within int64 / |v| < 2^53 for doubles).
   NOT modelled: string items; the stream overloads (compared with the bytes form on the implementation by the oracle). *)
From Coq Require Import ZArith List Bool Lia.
From DS Require Import RunnerLib SortedView KllDefs KllProofs KllSpace KllView KllTop KllCodecDefs KllCodecProofs Regression_C09_kll.
Import ListNotations.
Local Open Scope Z_scope.

(* every reachable sketch (any history of updates and merges, any coins; empty, single item, exact, estimating):
   its image decodes to exactly the same state - configuration, n, min_k, level structure, every retained item, min,
   max, sorted flag - so that it answers every query identically and behaves identically from then on *)
Theorem C09_kll_image_roundtrip : forall kind s log, reach s log -> Fits kind s ->
  kll_dec kind (kll_enc kind s) = Some s.
Proof. exact reach_roundtrip_all. Qed.

(* ... hence the restored sketch re-serializes to the same image, byte for byte *)
Theorem C09_kll_reserialize_identical : forall kind s log, reach s log -> Fits kind s ->
  option_map (kll_enc kind) (kll_dec kind (kll_enc kind s)) = Some (kll_enc kind s).
Proof. intros kind s log R F. now rewrite (reach_roundtrip_all kind s log R F). Qed.

(* the same for any state satisfying the invariants of KllProofs (not only reachable ones) *)
Theorem C09_kll_image_roundtrip_inv : forall kind s, Inv s -> Space s -> Fits kind s -> 2 <= nn s ->
  kll_dec kind (kll_enc kind s) = Some s.
Proof. exact dec_enc_full. Qed.

(* every reachable empty sketch (fresh, or with level zero flagged sorted by a query) round-trips exactly; this is the
   decoder with the repair fixes/09_kll_empty_flag.patch, the decoder as coded before is refuted in
   Regression_C09_kll.C09_kll_empty_flag_as_coded_refuted *)
Theorem C09_kll_empty_roundtrip : forall kind s log, reach s log -> nn s = 0 ->
  kll_dec kind (kll_enc kind s) = Some s.
Proof. exact reach_roundtrip_empty. Qed.

(* the shape behind the single-item form: a reachable sketch with n = 1 has one level holding its item, which is its
   min and max, and min_k = k (none of this is stored in the 16-byte image) *)
Theorem C09_kll_single_item_shape : forall s log, reach s log -> nn s = 1 ->
  exists v, levels s = [[v]] /\ mn s = v /\ mx s = v /\ min_k s = kk s.
Proof. exact KllTop.reach_single_shape. Qed.

(* items: int64 two's complement and the IEEE-754 binary64 pattern of an integer, 8 bytes little endian, and back *)
Theorem C09_kll_item_roundtrip : forall kind v, item_ok kind v ->
  length (item_enc kind v) = 8%nat /\ item_dec kind (item_enc kind v) = Some v.
Proof. exact item_roundtrip. Qed.

(* the image has exactly the advertised size (get_serialized_size_bytes) *)
Theorem C09_kll_image_size : forall kind s, len (kll_enc kind s) =
  if nn s =? 0 then 8 else if nn s =? 1 then 8 + 8 * num_retained s
  else 20 + 4 * len (levels s) + 8 * (num_retained s + 2).
Proof. exact enc_size. Qed.

(* non-vacuity: the 64-byte image of a 3-item sketch, byte for byte what the code writes (cf. checks/fam_kllcodec.py) *)
Example C09_kll_nonvacuous :
  let s3 := mkkll 8 8 3 8 [[2; 1; 0]] false 0 2 in
  kll_enc 0 s3 = [5; 1; 15; 0; 8; 0; 8; 0;  3; 0; 0; 0; 0; 0; 0; 0;  8; 0; 1; 0;  5; 0; 0; 0;
                  0; 0; 0; 0; 0; 0; 0; 0;  2; 0; 0; 0; 0; 0; 0; 0;
                  2; 0; 0; 0; 0; 0; 0; 0;  1; 0; 0; 0; 0; 0; 0; 0;  0; 0; 0; 0; 0; 0; 0; 0] /\
  kll_dec 0 (kll_enc 0 s3) = Some s3 /\ le 8 (dbl_bits (-3)) = [0; 0; 0; 0; 0; 0; 8; 192].
Proof. vm_compute. repeat split; reflexivity. Qed.

Print Assumptions C09_kll_image_roundtrip.
Print Assumptions C09_kll_reserialize_identical.
Print Assumptions C09_kll_image_roundtrip_inv.
Print Assumptions C09_kll_empty_roundtrip.
Print Assumptions C09_kll_single_item_shape.
Print Assumptions C09_kll_item_roundtrip.
Print Assumptions C09_kll_image_size.
