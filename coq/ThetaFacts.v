(* ThetaFacts.v — consequences of the refinement for every reachable state of the concrete model:
   the statements used by Properties_C01.v. *)
From Coq Require Import ZArith NArith List Bool Lia Permutation Sorted Arith.
From DS Require Import Word RunnerLib OpenAddr KSmallest Canon ThetaDefs ThetaProofs ThetaRefine.
Import ListNotations.
Local Open Scope N_scope.

(* L0: the retained set of a hash-threshold sample *)
Definition below (t h : N) : bool := (0 <? h) && (h <? t).
Definition sample (t : N) (seen : list N) : list N := nodup N.eq_dec (filter (below t) seen).

Lemma in_sample t seen h : In h (sample t seen) <-> In h seen /\ 0 < h < t.
Proof.
  unfold sample, below. rewrite nodup_In, filter_In, andb_true_iff, N.ltb_lt, N.ltb_lt. tauto.
Qed.

Lemma sample_nodup t seen : NoDup (sample t seen).
Proof. apply NoDup_nodup. Qed.

Section Facts.
  Variable S : Type.
  Variable sel : nat -> list (N * S) -> list (N * S).
  Hypothesis sel_ok : forall k l, (k < length l)%nat -> nth_post fst k l (sel k l).
  Variables lgn r th0 : N.
  Hypothesis lgn_ge : 5 <= lgn.

  Notation run := (run_ops S sel lgn r th0).
  Notation TInv := (TInv S lgn r th0).
  Notation AInv := (AInv S lgn th0).
  Notation abs := (abs S).

  Lemma run_snoc ops o : run (ops ++ [o]) = step_op S sel (run ops) o.
  Proof. unfold run_ops. now rewrite fold_left_app. Qed.

  Theorem run_inv ops : TInv (run ops) /\ AInv (abs (run ops)) (seen_of ops).
  Proof.
    destruct (run_refines S sel sel_ok lgn r th0 lgn_ge ops) as [Hr HT]. split; auto.
    now apply a_reach_inv in Hr.
  Qed.

  (* ---- exact sample ---- *)
  Theorem refines ops : let s := run ops in
    NoDup (keys S s) /\ (forall h, In h (keys S s) <-> In h (seen_of ops) /\ 0 < h < theta s) /\
    num s = N.of_nat (length (keys S s)).
  Proof.
    intros s. destruct (run_inv ops) as [HT HA]. fold s in HT, HA.
    destruct HA as [Hnd Hset _ _ _ _ _]. destruct HT as [_ _ _ _ Hnum _ _].
    split; [exact Hnd|]. split; [exact Hset|]. unfold keys. now rewrite map_length.
  Qed.

  Theorem refines_sample ops : let s := run ops in
    Permutation (keys S s) (sample (theta s) (seen_of ops)) /\
    num s = N.of_nat (length (sample (theta s) (seen_of ops))) /\
    sortN (keys S s) = sortN (sample (theta s) (seen_of ops)).
  Proof.
    intros s. destruct (refines ops) as (Hnd & Hset & Hnum). fold s in Hnd, Hset, Hnum.
    assert (Hp : Permutation (keys S s) (sample (theta s) (seen_of ops))).
    { apply NoDup_Permutation; auto using sample_nodup. intros h. rewrite in_sample. apply Hset. }
    split; [exact Hp|]. split; [now rewrite <- (Permutation_length Hp)|].
    apply strict_sorted_unique; try (apply sortN_strict; auto using sample_nodup).
    intros x. rewrite (perm_in_iff x (sortN_perm _)), (perm_in_iff x (sortN_perm _)). apply perm_in_iff, Hp.
  Qed.

  (* ---- theta ---- *)
  Theorem theta_step_monotone ops o : o <> OpReset -> theta (run (ops ++ [o])) <= theta (run ops).
  Proof.
    intros Hne. rewrite run_snoc. destruct (run_inv ops) as [HT HA].
    destruct (refine_step S sel sel_ok lgn r th0 lgn_ge (run ops) o HT (ai_nodup _ _ _ _ _ HA)) as [Hst _].
    apply (a_theta_monotone S lgn r th0 _ _ _ _ HA Hst Hne).
  Qed.

  Definition no_reset (ops : list (op S)) : Prop := Forall (fun o => o <> OpReset) ops.

  Theorem theta_monotone ops ops2 : no_reset ops2 -> theta (run (ops ++ ops2)) <= theta (run ops).
  Proof.
    induction ops2 as [|o ops2 IH] using rev_ind; intros Hnr.
    - rewrite app_nil_r. lia.
    - apply Forall_app in Hnr. destruct Hnr as [Hnr Ho]. inversion Ho; subst.
      rewrite app_assoc. etransitivity; [apply theta_step_monotone; auto|]. apply IH; auto.
  Qed.

  Theorem theta_le_start ops : theta (run ops) <= th0.
  Proof. destruct (run_inv ops) as [_ HA]. apply (ai_le _ _ _ _ _ HA). Qed.

  Theorem theta_is_start_or_hash ops : theta (run ops) = th0 \/ In (theta (run ops)) (seen_of ops).
  Proof. destruct (run_inv ops) as [_ HA]. apply (ai_src _ _ _ _ _ HA). Qed.

  Theorem theta_lt_start_implies_k ops : theta (run ops) < th0 -> 2 ^ lgn <= num (run ops).
  Proof.
    intros Hlt. destruct (run_inv ops) as [HT HA]. pose proof (ai_k _ _ _ _ _ HA Hlt) as Hk.
    destruct HT as [_ _ _ _ Hnum _ _]. rewrite Hnum. exact Hk.
  Qed.

  Theorem empty_iff_nothing_offered ops : is_empty (run ops) = true <-> seen_of ops = [].
  Proof. destruct (run_inv ops) as [_ HA]. apply (ai_empty _ _ _ _ _ HA). Qed.

  (* the reported theta *)
  Theorem reported_theta ops : let s := run ops in
    (seen_of ops = [] -> get_theta64 S s = max_theta /\ num s = 0) /\
    (seen_of ops <> [] -> get_theta64 S s = theta s).
  Proof.
    intros s. pose proof (empty_iff_nothing_offered ops) as He. fold s in He. unfold get_theta64. split; intros H.
    - rewrite (proj2 He H). split; auto. destruct (refines ops) as (_ & Hset & Hnum). fold s in Hset, Hnum.
      rewrite Hnum. destruct (keys S s) as [|k l]; auto. exfalso. destruct (proj1 (Hset k)) as [Hin _]; [simpl; auto|].
      rewrite H in Hin. destruct Hin.
    - destruct (is_empty s) eqn:E; auto. exfalso. apply H, He. reflexivity.
  Qed.

  Lemma seen_grows ops ops2 : no_reset ops2 -> exists l, seen_of (ops ++ ops2) = l ++ seen_of ops.
  Proof.
    induction ops2 as [|o ops2 IH] using rev_ind; intros Hnr.
    - exists []. now rewrite app_nil_r.
    - apply Forall_app in Hnr. destruct Hnr as [Hnr Ho]. inversion Ho; subst. destruct (IH Hnr) as [l Hl].
      rewrite app_assoc, seen_of_snoc, Hl. destruct o as [h f| |]; simpl; [exists (h / 2 :: l)|exists l|congruence]; auto.
  Qed.

  Theorem reported_theta_monotone ops ops2 : th0 <= max_theta -> no_reset ops2 ->
    get_theta64 S (run (ops ++ ops2)) <= get_theta64 S (run ops).
  Proof.
    intros Hmax Hnr. pose proof (theta_monotone ops ops2 Hnr) as Hm.
    pose proof (theta_le_start (ops ++ ops2)) as Hle.
    destruct (seen_grows ops ops2 Hnr) as [l Hl].
    unfold get_theta64. destruct (is_empty (run ops)) eqn:E1; destruct (is_empty (run (ops ++ ops2))) eqn:E2; try lia.
    exfalso. apply empty_iff_nothing_offered in E2. rewrite Hl in E2. apply app_eq_nil in E2. destruct E2 as [_ E2].
    apply empty_iff_nothing_offered in E2. congruence.
  Qed.

  (* ---- exact counting while the distinct hashes fit the nominal size ---- *)
  Theorem exact_when_fits ops :
    N.of_nat (length (sample th0 (seen_of ops))) <= 2 ^ lgn ->
    theta (run ops) = th0 /\ num (run ops) = N.of_nat (length (sample th0 (seen_of ops))).
  Proof.
    intros Hfit. set (s := run ops).
    destruct (refines_sample ops) as (_ & Hnum & _). fold s in Hnum.
    assert (Hth : theta s = th0).
    { destruct (N.eq_dec (theta s) th0) as [E|Hne]; auto. exfalso.
      pose proof (theta_le_start ops) as Hle. fold s in Hle. assert (Hlt : theta s < th0) by lia.
      pose proof (theta_lt_start_implies_k ops Hlt) as Hk. fold s in Hk.
      destruct (run_inv ops) as [_ HA]. fold s in HA.
      pose proof (ai_pos _ _ _ _ _ HA Hlt) as Hpos. cbn [a_theta ThetaProofs.abs] in Hpos.
      destruct (theta_is_start_or_hash ops) as [E|Hin]; [fold s in E; lia|]. fold s in Hin.
      assert (Hincl : incl (theta s :: sample (theta s) (seen_of ops)) (sample th0 (seen_of ops))).
      { intros x [<-|Hx]; apply in_sample; [split; auto; lia|]. apply in_sample in Hx. split; [tauto|lia]. }
      assert (Hnd : NoDup (theta s :: sample (theta s) (seen_of ops))).
      { constructor; [|apply sample_nodup]. rewrite in_sample. lia. }
      pose proof (NoDup_incl_length Hnd Hincl) as Hl. simpl in Hl. lia. }
    split; auto. now rewrite Hnum, Hth.
  Qed.

  (* ---- trim ---- *)
  Theorem trim_le_k ops : num (run (ops ++ [OpTrim])) <= 2 ^ lgn.
  Proof.
    rewrite run_snoc. simpl. destruct (run_inv ops) as [HT HA]. set (s := run ops) in *.
    pose proof (ai_nodup _ _ _ _ _ HA) as Hnd.
    destruct (refine_trim S sel sel_ok lgn r th0 lgn_ge s HT Hnd) as [Hst HT'].
    destruct HT' as [_ _ _ _ Hnum' _ _]. rewrite Hnum'.
    inversion Hst as [| | | | |a Hle Ha Hb|a theta' ents' Hkn Hrb Ha Hb|]; subst.
    - unfold alen, kN, ThetaProofs.abs in Hle. cbn [a_ents] in Hle. exact Hle.
    - destruct (rebuild_rel_spec S lgn _ _ _ Hnd Hrb) as (_ & _ & Hlen). rewrite Hlen. unfold knat, kN. lia.
  Qed.

  (* ---- the failure branches of the model are unreachable ---- *)
  (* find always terminates with a slot: "key not found and no empty slots" cannot happen *)
  Theorem find_total ops h : tfind S (lg_cur (run ops)) (slots (run ops)) h <> None.
  Proof.
    destruct (run_inv ops) as [HT HA]. set (s := run ops) in *. pose proof (tinv_few S lgn r th0 lgn_ge s HT) as Hfew.
    pose proof HT as [_ _ _ Hpi _ _ _]. pose proof Hpi as [Hlen _].
    destruct (in_dec N.eq_dec h (keys S s)) as [Hin|Hnin].
    - unfold keys, entries in Hin. apply in_keys_iff in Hin. destruct Hin as (i & Hi & Hg). rewrite Hlen in Hi.
      unfold tfind. rewrite (find_present S _ _ (slots s) i h Hpi Hi Hg). discriminate.
    - destruct (find_absent S _ _ (tprobe_lt _) (tprobe_inj _) (slots s) h Hpi) as (j & Hj & Hfind & _).
      + destruct (exists_empty S (slots s) Hfew) as (x & Hx & Hn). exists x. rewrite <- Hlen. auto.
      + apply absent_slots; auto.
      + unfold tfind. rewrite Hfind. discriminate.
  Qed.

  (* rebuild is only reached in the full-size table with more than k entries, where nth_element is defined *)
  Theorem rebuild_precondition ops : let s := run ops in
    (* from insert: the count after insertion exceeds the capacity and the table is not below nominal size *)
    (capacity (lg_cur s) lgn < num s + 1 -> lgn < lg_cur s -> lg_cur s = lgn + 1 /\ 2 ^ lgn < num s + 1) /\
    (* from trim *)
    (2 ^ lgn < num s -> lg_cur s = lgn + 1).
  Proof.
    intros s. destruct (run_inv ops) as [HT _]. fold s in HT. destruct HT as [_ _ _ _ _ Hcap [[_ Hle] _]].
    split.
    - intros Hc Hl. assert (E : lg_cur s = lgn + 1) by lia. split; auto. rewrite E in Hc.
      destruct (cap_full lgn lgn_ge) as [Hk _]. lia.
    - intros Hk. destruct (N.leb_spec (lg_cur s) lgn) as [Hs|Hs]; [|lia].
      pose proof (cap_small_lt_k lgn lgn_ge (lg_cur s) Hs). lia.
  Qed.

  (* ---- compact forms ---- *)
  (* well-formed compact sketch: distinct keys, no entries when empty, strictly increasing when flagged ordered *)
  Definition cwf (c : compact S) : Prop :=
    NoDup (map fst (c_entries c)) /\ (c_empty c = true -> c_entries c = []) /\
    (c_ordered c = true -> StronglySorted (klt fst) (c_entries c)).

  Lemma msort_strict (l : list (N * S)) : NoDup (map fst l) -> StronglySorted (klt fst) (msort fst l).
  Proof.
    intros Hnd. apply sorted_nodup_strict; [apply msort_sorted|].
    eapply Permutation_NoDup; [symmetry; apply Permutation_map, msort_perm|exact Hnd].
  Qed.

  Lemma short_sorted (l : list (N * S)) : (length l <= 1)%nat -> StronglySorted (klt fst) l.
  Proof. destruct l as [|a [|b l]]; simpl; intros H; try lia; repeat constructor. Qed.

  Theorem compact_same ops ordered : let s := run ops in let c := compact_of S s ordered in
    c_theta c = get_theta64 S s /\ c_empty c = is_empty s /\
    Permutation (c_entries c) (entries S s) /\
    (ordered = true -> c_ordered c = true) /\ cwf c.
  Proof.
    intros s c. destruct (refines ops) as (Hnd & Hset & Hnum). fold s in Hnd, Hset, Hnum.
    pose proof (reported_theta ops) as [Hemp0 _]. fold s in Hemp0.
    pose proof (empty_iff_nothing_offered ops) as Hiff. fold s in Hiff.
    assert (Hnil : is_empty s = true -> entries S s = []).
    { intros E. destruct (Hemp0 (proj1 Hiff E)) as [_ Hn]. rewrite Hnum in Hn. unfold keys in Hn.
      rewrite map_length in Hn. destruct (entries S s); auto. simpl in Hn. lia. }
    assert (Hperm : Permutation (c_entries c) (entries S s)).
    { unfold c, compact_of. cbn [c_entries]. destruct (is_empty s) eqn:E; [rewrite Hnil; auto|].
      destruct (ordered && negb (is_ordered S s)); [apply msort_perm|reflexivity]. }
    split; [reflexivity|]. split; [reflexivity|]. split; [exact Hperm|].
    split; [intros ->; unfold c, compact_of; cbn [c_ordered]; apply orb_true_r|].
    split; [|split].
    - eapply Permutation_NoDup; [symmetry; apply Permutation_map, Hperm|exact Hnd].
    - unfold c, compact_of. cbn [c_empty c_entries]. intros ->. reflexivity.
    - unfold c, compact_of. cbn [c_ordered c_entries]. intros Hord.
      destruct (is_empty s); [constructor|].
      destruct (is_ordered S s) eqn:Eo.
      + rewrite andb_false_r. apply short_sorted. unfold is_ordered in Eo. apply negb_true_iff, N.ltb_ge in Eo.
        unfold keys in Hnum. rewrite map_length in Hnum. lia.
      + simpl in Hord. subst ordered. simpl. apply msort_strict. exact Hnd.
  Qed.

  Theorem compact_of_compact_same (c : compact S) ordered : cwf c -> let c2 := compact_of_compact S c ordered in
    c_theta c2 = c_theta c /\ c_empty c2 = c_empty c /\ Permutation (c_entries c2) (c_entries c) /\
    (ordered = true -> c_ordered c2 = true) /\ cwf c2.
  Proof.
    intros (Hnd & Hemp & Hord) c2.
    assert (Hperm : Permutation (c_entries c2) (c_entries c)).
    { unfold c2, compact_of_compact. cbn [c_entries]. destruct (c_empty c) eqn:E; [rewrite Hemp; auto|].
      destruct (ordered && negb (c_ordered c)); [apply msort_perm|reflexivity]. }
    split; [reflexivity|]. split; [reflexivity|]. split; [exact Hperm|].
    split; [intros ->; unfold c2, compact_of_compact; cbn [c_ordered]; apply orb_true_r|].
    split; [|split].
    - eapply Permutation_NoDup; [symmetry; apply Permutation_map, Hperm|exact Hnd].
    - unfold c2, compact_of_compact. cbn [c_empty c_entries]. intros ->. reflexivity.
    - unfold c2, compact_of_compact. cbn [c_ordered c_entries]. intros Ho.
      destruct (c_empty c); [constructor|].
      destruct (c_ordered c) eqn:Eo.
      + rewrite andb_false_r. auto.
      + simpl in Ho. subst ordered. simpl. apply msort_strict. exact Hnd.
  Qed.
End Facts.

(* the executable instance of nth_element (sort by key) meets the postcondition *)
Lemma sel_sort_ok S : forall k (l : list (N * S)), (k < length l)%nat -> nth_post fst k l (sel_sort k l).
Proof. intros k l H. unfold sel_sort. now apply msort_nth_post. Qed.
