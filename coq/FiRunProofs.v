(* FiRunProofs.v — the line-protocol interpreter FiDefs.step / FiDefs.run (the function that is extracted and whose R lines
   are compared with the C++): every register always holds a sketch that brackets the ghost log of true weights, and every
   query answer (R tokens) satisfies the property against the ground truth (S tokens) — for EVERY script, provided each
   serialize operation is applied to a sketch whose fields fit the image (no overflow) and that is not "purged empty"
   (the known finding). *)
From Coq Require Import ZArith NArith List Bool Lia Arith PeanoNat Permutation.
From DS Require Import Word Murmur3 RunnerLib FiDefs FiProofs FiMapProofs FiDelProofs FiIterProofs FiRefine FiSerProofs.
Import ListNotations.
Local Open Scope Z_scope.

(* ---------------- registers ---------------- *)
Lemma reg_get_del {A} (s : list (Z * A)) r r' : reg_get (reg_del s r) r' = if Z.eqb r r' then None else reg_get s r'.
Proof.
  induction s as [|[k v] t IH]; simpl.
  - now destruct (Z.eqb r r').
  - destruct (Z.eqb_spec k r) as [->|Hne]; simpl.
    + rewrite IH. destruct (Z.eqb_spec r r'); auto.
    + rewrite IH. destruct (Z.eqb_spec k r') as [->|]; auto.
      destruct (Z.eqb_spec r r'); [congruence|reflexivity].
Qed.

Lemma reg_get_set {A} (s : list (Z * A)) r v r' :
  reg_get (reg_set s r v) r' = if Z.eqb r r' then Some v else reg_get s r'.
Proof. unfold reg_set. simpl. rewrite reg_get_del. now destruct (Z.eqb r r'). Qed.

(* ---------------- the ghost log ---------------- *)
Notation keys := (map (@fst item Z)).

Lemma log_get_add l x w y : log_get (log_add l x w) y = log_get l y + (if item_eqb x y then w else 0).
Proof. apply (a_get_add item item_eqb item_eqb_spec). Qed.

Lemma log_total_add l x w : log_total (log_add l x w) = log_total l + w.
Proof. apply (a_sum_add item item_eqb). Qed.

Lemma log_nodup_add l x w : NoDup (keys l) -> NoDup (keys (log_add l x w)).
Proof. apply (nodup_add item item_eqb item_eqb_spec). Qed.

Lemma log_merge_spec (b : glog) : forall a, NoDup (keys a) -> NoDup (keys b) ->
  NoDup (keys (log_merge a b)) /\
  (forall y, log_get (log_merge a b) y = log_get a y + log_get b y) /\
  log_total (log_merge a b) = log_total a + log_total b.
Proof.
  unfold log_merge. induction b as [|[k v] b IH]; intros a Na Nb; simpl.
  - repeat split; auto; intros; unfold log_get, log_total; simpl; lia.
  - inversion Nb as [|? ? Hk Nb']; subst.
    destruct (IH (log_add a k v) (log_nodup_add a k v Na) Nb') as (N' & G' & T').
    split; [exact N'|]. split.
    + intros y. rewrite G', log_get_add.
      change (log_get ((k, v) :: b) y) with (if item_eqb k y then v else log_get b y).
      destruct (item_eqb k y) eqn:E; [|lia].
      apply item_eqb_spec in E. subst y.
      assert (E0 : log_get b k = 0) by (apply (a_get_notin item item_eqb item_eqb_spec); exact Hk). lia.
    + rewrite T', log_total_add. unfold log_total. simpl. lia.
Qed.

(* ---------------- the invariant of the register file ---------------- *)
Definition FullOk (f : full) : Prop :=
  NoDup (keys (f_log f)) /\
  SkInv item item_eqb (fi_hash (f_kind f)) (f_sk f) (log_get (f_log f)) (log_total (f_log f)).

Definition RegsOk (s : regs) : Prop := forall r f, reg_get s r = Some f -> FullOk f.

Lemma RegsOk_set s r f : RegsOk s -> FullOk f -> RegsOk (reg_set s r f).
Proof.
  intros H Hf r' f' Hg. rewrite reg_get_set in Hg. destruct (Z.eqb r r'); [inversion Hg; subst; exact Hf|eauto].
Qed.

Lemma RegsOk_del s r : RegsOk s -> RegsOk (reg_del s r).
Proof. intros H r' f' Hg. rewrite reg_get_del in Hg. destruct (Z.eqb r r'); [discriminate|eauto]. Qed.

(* side condition of a serialize operation *)
Definition ser_safe (f : full) : Prop :=
  SerOk (f_kind f) (f_sk f) /\ (nact _ (sk_map _ (f_sk f)) <> 0 \/ sk_tot _ (f_sk f) = 0).

Definition op_safe (s : regs) (o : line) : Prop :=
  match o with
  | opc :: r :: _ => (opc = 7 \/ opc = 17) -> forall f, reg_get s r = Some f -> ser_safe f
  | _ => True
  end.

(* what the answer of a query (opcode 3) and of a dump (opcode 5) must satisfy: R tokens against S tokens *)
Definition query_ok (out : outline) : Prop :=
  match out with
  | ([est; lb; ub; off; tot; _], [tw; ttl]) => lb <= tw <= ub /\ lb <= est <= ub /\ ub - lb = off /\ tot = ttl
  | _ => True
  end.
Definition dump_ok (out : outline) : Prop :=
  match out with
  | (_ :: tot :: _, [ttl]) => tot = ttl
  | _ => True
  end.
Definition out_ok (o : line) (out : outline) : Prop :=
  match o with
  | opc :: _ => (opc = 3 -> query_ok out) /\ (opc = 5 -> dump_ok out)
  | [] => True
  end.

(* ---------------- the operations ---------------- *)
Lemma op_new_ok s r kind lgmax lgstart : RegsOk s -> RegsOk (fst (op_new s r kind lgmax lgstart)).
Proof.
  intros H. unfold op_new.
  destruct ((lgmax <? lgstart) || negb ((0 <=? kind) && (kind <=? 2))) eqn:E; simpl.
  - now apply RegsOk_del.
  - apply RegsOk_set; auto. apply orb_false_iff in E. destruct E as [E _]. apply Z.ltb_ge in E.
    split; [constructor|]. simpl.
    eapply SkInv_ext; [| |apply (SkInv_new item item_eqb item_eqb_spec)]; [reflexivity|reflexivity|].
    unfold zN. lia.
Qed.

Lemma op_update_ok s r w x : RegsOk s -> RegsOk (fst (op_update s r w x)).
Proof.
  intros H. unfold op_update. destruct (reg_get s r) as [f|] eqn:Hg; [|exact H].
  destruct (Z.ltb_spec w 0) as [Hneg|Hw]; [exact H|]. simpl.
  apply RegsOk_set; auto. destruct (H r f Hg) as [Nd K]. split; simpl.
  - destruct (w =? 0); [exact Nd|now apply log_nodup_add].
  - unfold upd.
    pose proof (SkInv_update item item_eqb item_eqb_spec (fi_hash (f_kind f)) (f_sk f) _ _ x w K Hw) as K'.
    eapply SkInv_ext; [| |exact K'].
    + intros y. cbv beta. destruct (Z.eqb_spec w 0) as [->|]; [destruct (item_eqb x y); lia|now rewrite log_get_add].
    + destruct (Z.eqb_spec w 0) as [->|]; [lia|now rewrite log_total_add].
Qed.

Lemma op_query_ok s r x : RegsOk s -> fst (op_query s r x) = s /\ query_ok (snd (op_query s r x)).
Proof.
  intros H. unfold op_query. destruct (reg_get s r) as [f|] eqn:Hg; [|split; [reflexivity|exact I]].
  split; [reflexivity|]. destruct (H r f Hg) as [_ K]. simpl.
  destruct (SkInv_getters item item_eqb item_eqb_spec (fi_hash (f_kind f)) (f_sk f) _ _ x K) as (A & B & C & D).
  auto.
Qed.

Lemma op_merge_ok s r w : RegsOk s -> RegsOk (fst (op_merge s r w)).
Proof.
  intros H. unfold op_merge. destruct (reg_get s r) as [f|] eqn:Hf; [|exact H].
  destruct (reg_get s w) as [g|] eqn:Hg; [|exact H].
  destruct (Z.eqb_spec (f_kind f) (f_kind g)) as [Ek|]; [|exact H]. simpl.
  apply RegsOk_set; auto. destruct (H r f Hf) as [Nf Kf]. destruct (H w g Hg) as [Ng Kg].
  destruct (log_merge_spec (f_log g) (f_log f) Nf Ng) as (N' & G' & T').
  split; [exact N'|]. simpl. rewrite <- Ek in Kg.
  eapply SkInv_ext; [| |apply (SkInv_merge item item_eqb item_eqb_spec _ _ _ _ _ _ _ Kf Kg)].
  - intros y. cbv beta. now rewrite G'.
  - now rewrite T'.
Qed.

Lemma op_roundtrip_ok s r w : RegsOk s -> (forall f, reg_get s r = Some f -> ser_safe f) ->
  RegsOk (fst (op_roundtrip s r w)).
Proof.
  intros H Hs. unfold op_roundtrip. destruct (reg_get s r) as [f|] eqn:Hf; [|exact H].
  destruct (Hs f eq_refl) as [Ok Hne]. rewrite (ser_roundtrip _ _ Ok). simpl.
  apply RegsOk_set; auto. destruct (H r f Hf) as [Nf Kf]. split; [exact Nf|]. simpl.
  apply (SkInv_roundtrip item item_eqb item_eqb_spec); auto.
  destruct Hne as [Hne|Ht]; [now left|right]. rewrite <- (k_tot _ _ _ _ _ _ Kf). exact Ht.
Qed.

Lemma op_copy_ok s r w : RegsOk s -> RegsOk (fst (op_copy s r w)).
Proof.
  intros H. unfold op_copy. destruct (reg_get s r) as [f|] eqn:Hf; [|exact H]. simpl.
  apply RegsOk_set; eauto.
Qed.

Lemma op_dump_ok s r : RegsOk s -> fst (op_dump s r) = s /\ dump_ok (snd (op_dump s r)).
Proof.
  intros H. unfold op_dump. destruct (reg_get s r) as [f|] eqn:Hg; [|split; [reflexivity|exact I]].
  split; [reflexivity|]. destruct (H r f Hg) as [_ K]. simpl. exact (k_tot _ _ _ _ _ _ K).
Qed.

Lemma op_freq_ok s r et x : fst (op_freq s r et x) = s.
Proof. unfold op_freq. destruct (reg_get s r); [|reflexivity]. destruct x as [|? [|? ?]]; reflexivity. Qed.

(* ---------------- one step, every script ---------------- *)
Theorem step_ok s o e : RegsOk s -> op_safe s o ->
  RegsOk (fst (step s o e)) /\ out_ok o (snd (step s o e)).
Proof.
  intros H Hsafe. unfold step, out_ok.
  destruct o as [|opc [|r rest]]; try (split; [exact H|]; try exact I; split; intros; exact I).
  destruct (Z.eqb_spec opc 1) as [->|N1].
  { split; [|split; intros; discriminate].
    destruct rest as [|kind [|lgmax [|lgstart ?]]]; try exact H. now apply op_new_ok. }
  destruct (Z.eqb_spec opc 5) as [->|N5].
  { destruct (op_dump_ok s r H) as [E D]. rewrite E. split; [exact H|]. split; [intros; discriminate|intros _; exact D]. }
  destruct rest as [|w x]; [split; [exact H|split; intros; [exact I|contradiction]]|].
  destruct ((opc =? 2) || (opc =? 12)) eqn:E2.
  { split; [now apply op_update_ok|]. apply orb_true_iff in E2. split; intros ->; [destruct E2; discriminate|contradiction]. }
  destruct (Z.eqb_spec opc 3) as [->|N3].
  { destruct (op_query_ok s r x H) as [E Q]. rewrite E. split; [exact H|]. split; [intros _; exact Q|intros; discriminate]. }
  assert (Hout : forall out : outline, (opc = 3 -> query_ok out) /\ (opc = 5 -> dump_ok out)) by (intros; split; intros; contradiction).
  destruct ((opc =? 4) || (opc =? 14)) eqn:E4; [split; [now apply op_merge_ok|apply Hout]|].
  destruct (Z.eqb_spec opc 6) as [->|N6]; [rewrite op_freq_ok; split; [exact H|apply Hout]|].
  destruct ((opc =? 7) || (opc =? 17)) eqn:E7.
  { split; [|apply Hout]. apply op_roundtrip_ok; auto. apply Hsafe.
    apply orb_true_iff in E7. destruct E7 as [E|E]; apply Z.eqb_eq in E; auto. }
  destruct (Z.eqb_spec opc 8) as [->|N8]; [split; [now apply op_copy_ok|apply Hout]|].
  split; [exact H|apply Hout].
Qed.

(* a whole script: the serialize side condition holds whenever a serialize is executed *)
Fixpoint script_safe (s : regs) (ops : list opline) : Prop :=
  match ops with
  | [] => True
  | (o, e) :: r => op_safe s o /\ script_safe (fst (step s o e)) r
  end.

Lemma run_case_ok ops : forall s, RegsOk s -> script_safe s ops ->
  Forall2 (fun oe out => out_ok (fst oe) out) ops (run_case step s ops).
Proof.
  induction ops as [|[o e] ops IH]; intros s H Hs; simpl; [constructor|].
  destruct Hs as [Ho Hs]. destruct (step_ok s o e H Ho) as [H' Hout].
  destruct (step s o e) as [s' out] eqn:E. simpl in *. constructor; auto.
Qed.

Theorem run_ok ops : script_safe [] ops -> Forall2 (fun oe out => out_ok (fst oe) out) ops (run ops).
Proof. intros Hs. apply run_case_ok; auto. intros r f Hg. discriminate. Qed.
