(* KllUnbiasedRun.v — C08 for whole scripts: register files, merges between registers, copies, queries.
   [mrun ops] is the tree of ALL coin outcomes of the script ops (KllDefs.mrun; the extracted runner follows one path
   of it, theorem run_is_a_path).  [spec_run ops] is the specification: what every register has been given, a function
   of the script alone.  Main result (kll_run_invariant): the tree is uniform, every outcome agrees with the
   specification on registers/kinds/logs and holds reachable sketches, and for every register and every predicate p
   the estimator summed over all outcomes is 2^depth times the number of given items satisfying p. *)
From Coq Require Import ZArith List Bool Lia Permutation Sorted.
From DS Require Import RunnerLib SortedView KllDefs KllProofs KllSpace KllView KllUnbiased.
Import ListNotations.
Local Open Scope Z_scope.

(* ===================== association lists ===================== *)
Lemma reg_get_del {A} (s : list (Z * A)) r r' : reg_get (reg_del s r) r' = if r =? r' then None else reg_get s r'.
Proof.
  induction s as [|[k v] t IH]; simpl.
  - destruct (r =? r'); reflexivity.
  - destruct (k =? r) eqn:E1.
    + rewrite IH. apply Z.eqb_eq in E1. subst k. destruct (r =? r') eqn:E2; [reflexivity|]. reflexivity.
    + simpl. rewrite IH. destruct (r =? r') eqn:E2; [|reflexivity].
      apply Z.eqb_eq in E2. subst r'. rewrite E1. reflexivity.
Qed.

Lemma reg_get_set {A} (s : list (Z * A)) r v r' : reg_get (reg_set s r v) r' = if r =? r' then Some v else reg_get s r'.
Proof. unfold reg_set. simpl. rewrite reg_get_del. destruct (r =? r'); reflexivity. Qed.

(* ===================== the specification of a script ===================== *)
Definition aspec : Type := list (Z * (Z * list Z)).          (* register -> (kind, items given, newest first) *)

Definition valid_k (k : Z) : bool := (8 <=? k) && (k <=? 65535).

Definition spec_step (a : aspec) (o : kop) : aspec :=
  match o with
  | ONew r kind k => if valid_k k then reg_set a r (kind, []) else a
  | OUpd r v => match reg_get a r with Some (kind, log) => reg_set a r (kind, v :: log) | None => a end
  | OMrg r r2 mode =>
      match reg_get a r, reg_get a r2 with
      | Some (k1, l1), Some (k2, l2) =>
          if (r =? r2) || negb (k1 =? k2) then a else
          let a' := reg_set a r (k1, l2 ++ l1) in if mode =? 1 then reg_del a' r2 else a'
      | _, _ => a
      end
  | OCopy r r2 => match reg_get a r2 with Some g => reg_set a r g | None => a end
  | _ => a
  end.

Fixpoint spec_from (a : aspec) (ops : list line) : aspec :=
  match ops with
  | [] => a
  | o :: r => spec_from (spec_step a (parse o)) r
  end.
Definition spec_run (ops : list line) : aspec := spec_from [] ops.

Lemma spec_from_app a x y : spec_from a (x ++ y) = spec_from (spec_from a x) y.
Proof. revert a; induction x as [|o x IH]; intro a; simpl; auto. Qed.

(* ===================== register files ===================== *)
Definition absg (g : reg) : Z * list Z := (r_kind g, r_log g).
Definition agree (s : st) (a : aspec) : Prop := forall r, option_map absg (reg_get s r) = reg_get a r.
Definition sreach (s : st) : Prop := forall r g, reg_get s r = Some g -> reach (r_sk g) (rev (r_log g)).
Definition gsh (g1 g2 : reg) : Prop := r_kind g1 = r_kind g2 /\ sh (r_sk g1) (r_sk g2).
Definition lift2 (P : reg -> reg -> Prop) (s1 s2 : st) : Prop :=
  forall r, match reg_get s1 r, reg_get s2 r with
            | Some g1, Some g2 => P g1 g2
            | None, None => True
            | _, _ => False
            end.
Definition ssim : st -> st -> Prop := lift2 gsh.

(* the estimator of a register / the true count of a register *)
Definition F (p : Z -> bool) (r : Z) (s : st) : Z := match reg_get s r with Some g => Rp p (r_sk g) | None => 0 end.
Definition T (p : Z -> bool) (r : Z) (a : aspec) : Z := match reg_get a r with Some (_, log) => cnt p log | None => 0 end.

Definition mstep_k (s : st) (o : kop) : M st := bind (mstep_op s o) (fun so => Ret (fst so)).
Lemma mstep_st_k s o : mstep_st s o = mstep_k s (parse o).
Proof. reflexivity. Qed.

Definition is_query (o : kop) : Prop :=
  match o with ONew _ _ _ | OUpd _ _ | OMrg _ _ _ | OCopy _ _ => False | _ => True end.

(* a query leaves every register as it is or sorts its level 0 *)
Definition gsort (g g' : reg) : Prop := g' = g \/ g' = mkreg (r_kind g) (sort_level_zero (r_sk g)) (r_log g).

Lemma lift2_refl (P : reg -> reg -> Prop) s : (forall g, P g g) -> lift2 P s s.
Proof. intros H r. destruct (reg_get s r); auto. Qed.

Lemma with_sk_gsort s r g : reg_get s r = Some g -> lift2 gsort s (with_sk s r g (sort_level_zero (r_sk g))).
Proof.
  intros H r'. unfold with_sk. rewrite reg_get_set. destruct (Z.eqb_spec r r') as [<-|N].
  - rewrite H. now right.
  - destruct (reg_get s r'); auto. now left.
Qed.

Lemma pstep_query s o : is_query o -> lift2 gsort s (fst (pstep s o)).
Proof.
  assert (RF : lift2 gsort s s) by (apply lift2_refl; now left).
  destruct o; cbn [is_query]; intro Q; try contradiction; cbn [pstep]; try exact RF;
    destruct (reg_get s r) as [g|] eqn:E; try exact RF.
  - (* ORank *) destruct (nn (r_sk g) =? 0); [exact RF|]. now apply with_sk_gsort.
  - (* OQuant *) destruct ((nn (r_sk g) =? 0) || (j <? 0) || (2 ^ t <? j)); [exact RF|].
    destruct (quantile_w Z _ _ true); [|exact RF]. destruct (quantile_w Z _ _ false); [|exact RF]. now apply with_sk_gsort.
  - (* OCdf *) destruct (nn (r_sk g) =? 0); [exact RF|].
    destruct (cdf_num Z Z.ltb _ splits true); [destruct (cdf_num Z Z.ltb _ splits false)|]; now apply with_sk_gsort.
  - (* OCdfNan *) destruct (nn (r_sk g) =? 0); [exact RF|]. now apply with_sk_gsort.
  - (* OView *) now apply with_sk_gsort.
Qed.

Lemma sort_level_zero_sh sk : sh (sort_level_zero sk) sk.
Proof.
  unfold sort_level_zero. destruct (l0s sk); [apply sh_refl|]. apply sh_intro; cbn [kk cap nn levels]; auto.
  destruct (levels sk) as [|l0 r]; [reflexivity|]. apply lens_cons; [|reflexivity].
  apply Permutation_length, isort_perm.
Qed.

Lemma Rp_sort_level_zero p sk : Rp p (sort_level_zero sk) = Rp p sk.
Proof.
  unfold Rp, sort_level_zero. destruct (l0s sk); [reflexivity|]. cbn [levels].
  destruct (levels sk) as [|l0 r]; [reflexivity|]. cbn [Rlv]. now rewrite (cnt_perm _ _ _ (isort_perm l0)).
Qed.

Lemma gsort_facts g g' : gsort g g' ->
  absg g' = absg g /\ gsh g' g /\ (forall p, Rp p (r_sk g') = Rp p (r_sk g)) /\
  (reach (r_sk g) (rev (r_log g)) -> reach (r_sk g') (rev (r_log g'))).
Proof.
  intros [->| ->].
  - repeat split; auto; apply sh_refl.
  - cbn [r_sk r_kind r_log]. split; [reflexivity|]. split; [split; [reflexivity|apply sort_level_zero_sh]|].
    split; [intro p; apply Rp_sort_level_zero|apply reach_sort].
Qed.

(* ===================== one operation: shapes ===================== *)
Lemma ssim_get s1 s2 r : ssim s1 s2 ->
  match reg_get s1 r, reg_get s2 r with Some g1, Some g2 => gsh g1 g2 | None, None => True | _, _ => False end.
Proof. intro H. apply H. Qed.

Lemma ssim_set s1 s2 r g1 g2 : ssim s1 s2 -> gsh g1 g2 -> ssim (reg_set s1 r g1) (reg_set s2 r g2).
Proof. intros H G r'. rewrite !reg_get_set. destruct (r =? r'); [exact G|apply H]. Qed.

Lemma ssim_del s1 s2 r : ssim s1 s2 -> ssim (reg_del s1 r) (reg_del s2 r).
Proof. intros H r'. rewrite !reg_get_del. destruct (r =? r'); [exact I|apply H]. Qed.

Lemma ssim_query s1 s2 s1' s2' : ssim s1 s2 -> lift2 gsort s1 s1' -> lift2 gsort s2 s2' -> ssim s1' s2'.
Proof.
  intros H A B r. specialize (H r). specialize (A r). specialize (B r).
  destruct (reg_get s1 r) as [g1|], (reg_get s2 r) as [g2|], (reg_get s1' r) as [g1'|], (reg_get s2' r) as [g2'|];
    try contradiction; auto.
  destruct (gsort_facts _ _ A) as (_ & [A1 A2] & _). destruct (gsort_facts _ _ B) as (_ & [B1 B2] & _).
  destruct H as [H1 H2]. split; [congruence|]. eapply sh_trans; [exact A2|]. eapply sh_trans; [exact H2|]. apply sh_sym, B2.
Qed.

Lemma mstep_k_sim o s1 s2 : ssim s1 s2 -> msim ssim (mstep_k s1 o) (mstep_k s2 o).
Proof.
  intro H. unfold mstep_k.
  destruct o; try (cbn [mstep_op bind]; constructor; cbn [fst];
                   apply (ssim_query s1 s2); [exact H|apply pstep_query; exact I|apply pstep_query; exact I]).
  - (* ONew *) cbn [mstep_op bind pstep]. constructor. destruct ((8 <=? k) && (k <=? 65535)); cbn [fst]; [|exact H].
    apply ssim_set; [exact H|]. split; [reflexivity|apply sh_refl].
  - (* OUpd *) cbn [mstep_op]. pose proof (ssim_get _ _ r H) as G.
    destruct (reg_get s1 r) as [g1|], (reg_get s2 r) as [g2|]; try contradiction.
    + destruct G as [G1 G2].
      apply (msim_bind (fun x y : st * outline => ssim (fst x) (fst y)) ssim).
      * apply (msim_bind sh (fun x y : st * outline => ssim (fst x) (fst y))); [apply update_sim; exact G2|].
        intros a b Hab. constructor. cbn [fst]. apply ssim_set; [exact H|]. split; [exact G1|exact Hab].
      * intros x y X. constructor. exact X.
    + cbn [bind]. constructor. exact H.
  - (* OMrg *) cbn [mstep_op]. pose proof (ssim_get _ _ r H) as G. pose proof (ssim_get _ _ r2 H) as G'.
    destruct (reg_get s1 r) as [g1|], (reg_get s2 r) as [g2|]; try contradiction;
      [|cbn [bind]; constructor; exact H].
    destruct (reg_get s1 r2) as [h1|], (reg_get s2 r2) as [h2|]; try contradiction;
      [|cbn [bind]; constructor; exact H].
    destruct G as [G1 G2]. destruct G' as [G1' G2']. rewrite G1, G1'.
    destruct ((r =? r2) || negb (r_kind g2 =? r_kind h2)); [cbn [bind]; constructor; exact H|].
    apply (msim_bind (fun x y : st * outline => ssim (fst x) (fst y)) ssim).
    + apply (msim_bind sh (fun x y : st * outline => ssim (fst x) (fst y))); [apply merge_sim; assumption|].
      intros a b Hab. constructor. cbn [fst].
      assert (X : ssim (reg_set s1 r (mkreg (r_kind g2) a (r_log h1 ++ r_log g1))) (reg_set s2 r (mkreg (r_kind g2) b (r_log h2 ++ r_log g2)))).
      { apply ssim_set; [exact H|]. split; [reflexivity|exact Hab]. }
      destruct (mode =? 1); [now apply ssim_del|exact X].
    + intros x y X. constructor. exact X.
  - (* OCopy *) cbn [mstep_op bind pstep]. constructor. pose proof (ssim_get _ _ r2 H) as G.
    destruct (reg_get s1 r2) as [g1|], (reg_get s2 r2) as [g2|]; try contradiction; cbn [fst]; [|exact H].
    now apply ssim_set.
Qed.

(* ===================== one operation: its outcomes ===================== *)
Lemma mstep_k_leaf o s s' : leaf (mstep_k s o) s' ->
  match o with
  | OUpd r v =>
      match reg_get s r with
      | Some g => exists sk', leaf (update (r_sk g) v) sk' /\ s' = reg_set s r (mkreg (r_kind g) sk' (v :: r_log g))
      | None => s' = s
      end
  | OMrg r r2 mode =>
      match reg_get s r, reg_get s r2 with
      | Some g, Some g2 =>
          if (r =? r2) || negb (r_kind g =? r_kind g2) then s' = s else
          exists sk', leaf (merge (r_sk g) (r_sk g2)) sk' /\
                      s' = (let s1 := reg_set s r (mkreg (r_kind g) sk' (r_log g2 ++ r_log g)) in
                            if mode =? 1 then reg_del s1 r2 else s1)
      | _, _ => s' = s
      end
  | _ => s' = fst (pstep s o)
  end.
Proof.
  unfold mstep_k. intro L. apply leaf_bind in L as ([s1 out] & L1 & L2). apply leaf_ret_inv in L2. cbn [fst] in L2. subst s'.
  destruct o; cbn [mstep_op] in L1; try (apply leaf_ret_inv in L1; now rewrite <- L1).
  - destruct (reg_get s r) as [g|]; [|apply leaf_ret_inv in L1; now inversion L1].
    apply leaf_bind in L1 as (sk' & La & Lb). apply leaf_ret_inv in Lb. inversion Lb; subst. eauto.
  - destruct (reg_get s r) as [g|]; [|apply leaf_ret_inv in L1; now inversion L1].
    destruct (reg_get s r2) as [g2|]; [|apply leaf_ret_inv in L1; now inversion L1].
    destruct ((r =? r2) || negb (r_kind g =? r_kind g2)); [apply leaf_ret_inv in L1; now inversion L1|].
    apply leaf_bind in L1 as (sk' & La & Lb). apply leaf_ret_inv in Lb. inversion Lb; subst. eauto.
Qed.

Lemma agree_get s a r : agree s a ->
  match reg_get s r with Some g => reg_get a r = Some (r_kind g, r_log g) | None => reg_get a r = None end.
Proof. intro H. specialize (H r). destruct (reg_get s r); simpl in H; auto. Qed.

Lemma agree_set s a r g : agree s a -> agree (reg_set s r g) (reg_set a r (absg g)).
Proof. intros H r'. rewrite !reg_get_set. destruct (r =? r'); [reflexivity|apply H]. Qed.

Lemma agree_del s a r : agree s a -> agree (reg_del s r) (reg_del a r).
Proof. intros H r'. rewrite !reg_get_del. destruct (r =? r'); [reflexivity|apply H]. Qed.

Lemma agree_query s s' a : agree s a -> lift2 gsort s s' -> agree s' a.
Proof.
  intros H Q r. specialize (H r). specialize (Q r).
  destruct (reg_get s r) as [g|], (reg_get s' r) as [g'|]; try contradiction; auto.
  destruct (gsort_facts _ _ Q) as (E & _). simpl in *. now rewrite E.
Qed.

Lemma mstep_k_agree o s a s' : agree s a -> leaf (mstep_k s o) s' -> agree s' (spec_step a o).
Proof.
  intros H L. apply mstep_k_leaf in L.
  destruct o; try (subst s'; cbn [spec_step]; apply (agree_query s); [exact H|apply pstep_query; exact I]).
  - (* ONew *) subst s'. cbn [pstep spec_step]. unfold valid_k. destruct ((8 <=? k) && (k <=? 65535)); cbn [fst]; [|exact H].
    apply (agree_set s a r (mkreg kind (kll_new k) [])). exact H.
  - (* OUpd *) pose proof (agree_get s a r H) as G. cbn [spec_step]. destruct (reg_get s r) as [g|]; rewrite G; [|now subst].
    destruct L as (sk' & _ & ->). apply (agree_set s a r (mkreg (r_kind g) sk' (v :: r_log g))). exact H.
  - (* OMrg *) pose proof (agree_get s a r H) as G. pose proof (agree_get s a r2 H) as G2. cbn [spec_step].
    destruct (reg_get s r) as [g|]; rewrite G; [|now subst].
    destruct (reg_get s r2) as [g2|]; rewrite G2; [|now subst].
    destruct ((r =? r2) || negb (r_kind g =? r_kind g2)); [now subst|].
    destruct L as (sk' & _ & ->). cbn zeta.
    pose proof (agree_set s a r (mkreg (r_kind g) sk' (r_log g2 ++ r_log g)) H) as X.
    destruct (mode =? 1); [now apply agree_del|exact X].
  - (* OCopy *) subst s'. pose proof (agree_get s a r2 H) as G. cbn [pstep spec_step].
    destruct (reg_get s r2) as [g2|]; rewrite G; cbn [fst]; [|exact H]. apply (agree_set s a r g2 H).
Qed.

Lemma sreach_set s r g : sreach s -> reach (r_sk g) (rev (r_log g)) -> sreach (reg_set s r g).
Proof. intros H G r' g'. rewrite reg_get_set. destruct (r =? r'); [intros [= <-]; exact G|apply H]. Qed.

Lemma sreach_del s r : sreach s -> sreach (reg_del s r).
Proof. intros H r' g'. rewrite reg_get_del. destruct (r =? r'); [discriminate|apply H]. Qed.

Lemma sreach_query s s' : sreach s -> lift2 gsort s s' -> sreach s'.
Proof.
  intros H Q r g' E. specialize (Q r). rewrite E in Q. destruct (reg_get s r) as [g|] eqn:E0; [|contradiction].
  destruct (gsort_facts _ _ Q) as (_ & _ & _ & X). apply X, (H r g E0).
Qed.

Lemma mstep_k_reach o s s' : sreach s -> leaf (mstep_k s o) s' -> sreach s'.
Proof.
  intros H L. apply mstep_k_leaf in L.
  destruct o; try (subst s'; apply (sreach_query s); [exact H|apply pstep_query; exact I]).
  - (* ONew *) subst s'. cbn [pstep]. destruct ((8 <=? k) && (k <=? 65535)) eqn:V; cbn [fst]; [|exact H].
    apply andb_true_iff in V as [A B]. apply Z.leb_le in A, B.
    apply sreach_set; [exact H|]. cbn [r_sk r_log rev]. apply reach_new. lia.
  - (* OUpd *) destruct (reg_get s r) as [g|] eqn:E; [|now subst].
    destruct L as (sk' & L & ->). apply sreach_set; [exact H|]. cbn [r_sk r_log rev]. eapply reach_update; [apply (H r g E)|exact L].
  - (* OMrg *) destruct (reg_get s r) as [g|] eqn:E; [|now subst]. destruct (reg_get s r2) as [g2|] eqn:E2; [|now subst].
    destruct ((r =? r2) || negb (r_kind g =? r_kind g2)); [now subst|].
    destruct L as (sk' & L & ->). cbn zeta.
    assert (X : sreach (reg_set s r (mkreg (r_kind g) sk' (r_log g2 ++ r_log g)))).
    { apply sreach_set; [exact H|]. cbn [r_sk r_log]. rewrite rev_app_distr.
      eapply reach_merge; [apply (H r g E)|apply (H r2 g2 E2)|exact L]. }
    destruct (mode =? 1); [now apply sreach_del|exact X].
  - (* OCopy *) subst s'. cbn [pstep]. destruct (reg_get s r2) as [g2|] eqn:E2; cbn [fst]; [|exact H].
    apply sreach_set; [exact H|apply (H r2 g2 E2)].
Qed.

(* ===================== one operation: what exact arithmetic predicts ===================== *)
(* the effect of an operation on a register-indexed quantity that is additive over the items given
   (val = the estimator, or the true count); b v = the contribution of a new item v *)
Definition vstep (a : aspec) (o : kop) (b : Z -> Z) (val : Z -> Z) (r' : Z) : Z :=
  match o with
  | ONew r kind k => if valid_k k && (r =? r') then 0 else val r'
  | OUpd r v => match reg_get a r with
                | Some _ => if r =? r' then val r' + b v else val r'
                | None => val r'
                end
  | OMrg r r2 mode =>
      match reg_get a r, reg_get a r2 with
      | Some (k1, _), Some (k2, _) =>
          if (r =? r2) || negb (k1 =? k2) then val r' else
          if r =? r' then val r + val r2 else if (mode =? 1) && (r2 =? r') then 0 else val r'
      | _, _ => val r'
      end
  | OCopy r r2 => match reg_get a r2 with
                  | Some _ => if r =? r' then val r2 else val r'
                  | None => val r'
                  end
  | _ => val r'
  end.

Lemma T_set p a r kind log r' : T p r' (reg_set a r (kind, log)) = if r =? r' then cnt p log else T p r' a.
Proof. unfold T. rewrite reg_get_set. destruct (r =? r'); reflexivity. Qed.

Lemma T_del p a r r' : T p r' (reg_del a r) = if r =? r' then 0 else T p r' a.
Proof. unfold T. rewrite reg_get_del. destruct (r =? r'); reflexivity. Qed.

Lemma F_set p s r g r' : F p r' (reg_set s r g) = if r =? r' then Rp p (r_sk g) else F p r' s.
Proof. unfold F. rewrite reg_get_set. destruct (r =? r'); reflexivity. Qed.

Lemma F_del p s r r' : F p r' (reg_del s r) = if r =? r' then 0 else F p r' s.
Proof. unfold F. rewrite reg_get_del. destruct (r =? r'); reflexivity. Qed.

(* the specification follows vstep ... *)
Lemma spec_step_T p a o r' : T p r' (spec_step a o) = vstep a o (fun v => b2z (p v)) (fun r => T p r a) r'.
Proof.
  destruct o; cbn [spec_step vstep]; try reflexivity.
  - destruct (valid_k k); cbn [andb]; [|reflexivity]. rewrite T_set, cnt_nil. reflexivity.
  - destruct (reg_get a r) as [[kind log]|] eqn:E; [|reflexivity]. rewrite T_set, cnt_cons.
    destruct (Z.eqb_spec r r') as [<-|N]; [|reflexivity]. unfold T. rewrite E. unfold b2z. destruct (p v); lia.
  - destruct (reg_get a r) as [[k1 l1]|] eqn:E; [|reflexivity]. destruct (reg_get a r2) as [[k2 l2]|] eqn:E2; [|reflexivity].
    destruct ((r =? r2) || negb (k1 =? k2)) eqn:C; [reflexivity|]. apply orb_false_iff in C as [C _].
    assert (X : T p r' (reg_set a r (k1, l2 ++ l1)) = if r =? r' then T p r a + T p r2 a else T p r' a).
    { rewrite T_set. destruct (r =? r'); [|reflexivity]. unfold T. rewrite E, E2, cnt_app. lia. }
    destruct (mode =? 1); cbn [andb]; [|exact X]. rewrite T_del, X.
    destruct (Z.eqb_spec r2 r') as [<-|N]; [|reflexivity]. now rewrite C.
  - destruct (reg_get a r2) as [[k2 l2]|] eqn:E2; [|reflexivity]. rewrite T_set. unfold T at 2. now rewrite E2.
Qed.

Lemma F_query p s s' r : lift2 gsort s s' -> F p r s' = F p r s.
Proof.
  intro Q. specialize (Q r). unfold F. destruct (reg_get s r) as [g|], (reg_get s' r) as [g'|]; try contradiction; auto.
  destruct (gsort_facts _ _ Q) as (_ & _ & X & _). apply X.
Qed.

Lemma Rp_new p k : Rp p (kll_new k) = 0.
Proof. unfold Rp. simpl. rewrite cnt_nil. lia. Qed.

(* ... and so does the implementation, summed over the coins of the operation *)
Lemma mstep_k_sum p o s a r' : agree s a -> sreach s ->
  msum (F p r') (mstep_k s o) = pow2 (dep (mstep_k s o)) * vstep a o (fun v => b2z (p v)) (fun r => F p r s) r'.
Proof.
  intros H SR. unfold mstep_k.
  destruct o; try (cbn [mstep_op bind msum dep vstep fst]; rewrite pow2_0, Z.mul_1_l; apply F_query, pstep_query; exact I).
  - (* ONew *) cbn [mstep_op bind msum dep vstep pstep]. rewrite pow2_0, Z.mul_1_l. unfold valid_k.
    destruct ((8 <=? k) && (k <=? 65535)); cbn [fst andb]; [|reflexivity]. rewrite F_set. cbn [r_sk]. now rewrite Rp_new.
  - (* OUpd *) pose proof (agree_get s a r H) as G. cbn [mstep_op vstep].
    destruct (reg_get s r) as [g|] eqn:E; rewrite G; [|cbn [bind msum dep fst]; rewrite pow2_0; lia].
    rewrite !msum_bind, !dep_bind. cbn [msum dep fst]. rewrite !Nat.add_0_r.
    rewrite (msum_ext_leaf _ (fun sk' => if r =? r' then Rp p sk' else F p r' s)) by (intros; apply F_set).
    destruct (Z.eqb_spec r r') as [<-|N].
    + rewrite update_sum. unfold F. now rewrite E.
    + rewrite msum_const by apply update_uniform. reflexivity.
  - (* OMrg *) pose proof (agree_get s a r H) as G. pose proof (agree_get s a r2 H) as G2. cbn [mstep_op vstep].
    destruct (reg_get s r) as [g|] eqn:E; rewrite G; [|cbn [bind msum dep fst]; rewrite pow2_0; lia].
    destruct (reg_get s r2) as [g2|] eqn:E2; rewrite G2; [|cbn [bind msum dep fst]; rewrite pow2_0; lia].
    destruct ((r =? r2) || negb (r_kind g =? r_kind g2)) eqn:C; [cbn [bind msum dep fst]; rewrite pow2_0; lia|].
    apply orb_false_iff in C as [C _].
    rewrite !msum_bind, !dep_bind. cbn [msum dep fst]. rewrite !Nat.add_0_r.
    rewrite (msum_ext_leaf _ (fun sk' => if r =? r' then Rp p sk' else if (mode =? 1) && (r2 =? r') then 0 else F p r' s)).
    2:{ intros sk' _. destruct (mode =? 1); cbn [andb]; rewrite ?F_del, F_set; cbn [r_sk]; [|reflexivity].
        destruct (Z.eqb_spec r2 r') as [<-|N]; [now rewrite C|reflexivity]. }
    destruct (Z.eqb_spec r r') as [<-|N].
    + rewrite merge_sum. { unfold F. now rewrite E, E2. }
      apply i_w. eapply r_inv, reach_Rel, (SR r2 g2 E2).
    + rewrite msum_const by apply merge_uniform. reflexivity.
  - (* OCopy *) pose proof (agree_get s a r2 H) as G. cbn [mstep_op bind msum dep vstep pstep]. rewrite pow2_0, Z.mul_1_l.
    destruct (reg_get s r2) as [g2|] eqn:E2; rewrite G; cbn [fst]; [|reflexivity]. rewrite F_set. unfold F at 2. now rewrite E2.
Qed.

(* vstep is affine in val with coefficients fixed by the specification: it commutes with the sum over outcomes *)
Lemma vstep_linear p a o b r' (m : M st) : uniform m ->
  (forall r, msum (F p r) m = pow2 (dep m) * T p r a) ->
  msum (fun s => vstep a o b (fun r => F p r s) r') m = pow2 (dep m) * vstep a o b (fun r => T p r a) r'.
Proof.
  intros U J. destruct o; cbn [vstep]; try apply J.
  - destruct (valid_k k && (r =? r')); [rewrite msum_const by assumption; lia|apply J].
  - destruct (reg_get a r); [|apply J]. destruct (r =? r'); [|apply J]. rewrite msum_add_const, J by assumption. ring.
  - destruct (reg_get a r) as [[k1 l1]|]; [|apply J]. destruct (reg_get a r2) as [[k2 l2]|]; [|apply J].
    destruct ((r =? r2) || negb (k1 =? k2)); [apply J|]. destruct (r =? r').
    + rewrite msum_plus, !J. ring.
    + destruct ((mode =? 1) && (r2 =? r')); [rewrite msum_const by assumption; lia|apply J].
  - destruct (reg_get a r2); [|apply J]. destruct (r =? r'); apply J.
Qed.

(* ===================== whole scripts ===================== *)
Lemma mrun_from_app m x y : mrun_from m (x ++ y) = mrun_from (mrun_from m x) y.
Proof. revert m; induction x as [|o x IH]; intro m; simpl; auto. Qed.

Lemma mrun_snoc ops o : mrun (ops ++ [o]) = bind (mrun ops) (fun s => mstep_st s o).
Proof. unfold mrun. rewrite mrun_from_app. reflexivity. Qed.

Lemma spec_snoc ops o : spec_run (ops ++ [o]) = spec_step (spec_run ops) (parse o).
Proof. unfold spec_run. rewrite spec_from_app. reflexivity. Qed.

Theorem kll_run_invariant : forall ops,
  msim ssim (mrun ops) (mrun ops) /\
  (forall s, leaf (mrun ops) s -> agree s (spec_run ops) /\ sreach s) /\
  (forall p r, msum (F p r) (mrun ops) = pow2 (dep (mrun ops)) * T p r (spec_run ops)).
Proof.
  induction ops as [|o ops IH] using rev_ind.
  - split; [|split].
    + constructor. intro r. exact I.
    + intros s L. apply leaf_ret_inv in L. subst s. split; [intro r; reflexivity|intros r g; discriminate].
    + intros p r. cbn. lia.
  - destruct IH as (SIM & LF & SUM). rewrite mrun_snoc, spec_snoc.
    assert (U : uniform (mrun ops)) by (eapply msim_uniform_l; exact SIM).
    split; [|split].
    + eapply msim_bind; [exact SIM|]. intros a b Hab. rewrite !mstep_st_k. now apply mstep_k_sim.
    + intros s' L. apply leaf_bind in L as (s & L1 & L2). destruct (LF s L1) as [A R]. rewrite mstep_st_k in L2.
      split; [eapply mstep_k_agree; eauto|eapply mstep_k_reach; eauto].
    + intros p r'.
      destruct (msum_bind_scaled (F p r') (fun s => mstep_st s o)
                  (fun s => vstep (spec_run ops) (parse o) (fun v => b2z (p v)) (fun r => F p r s) r') (mrun ops)
                  (dep (mstep_st (first (mrun ops)) o))) as [D S].
      { intros s L. destruct (LF s L) as [A R].
        assert (E : dep (mstep_st s o) = dep (mstep_st (first (mrun ops)) o)).
        { rewrite !mstep_st_k. apply (msim_dep ssim), mstep_k_sim. eapply msim_leaf; [exact SIM|exact L|apply first_leaf]. }
        split; [exact E|]. rewrite <- E, mstep_st_k. now apply mstep_k_sum. }
      rewrite S, D, vstep_linear, spec_step_T, pow2_add by auto. ring.
Qed.

(* ===================== the statements of C08 ===================== *)
(* what get_rank returns (numerator) for register r after the script, and the true rank of the specification *)
Definition rank_of (s : st) (r x : Z) (incl : bool) : Z :=
  match reg_get s r with Some g => rank_num Z Z.ltb (qview (r_sk g)) x incl | None => 0 end.
Definition true_rank (a : aspec) (r x : Z) (incl : bool) : Z := T (below Z Z.ltb x incl) r a.

Theorem kll_unbiased ops r x incl :
  msum (fun s => rank_of s r x incl) (mrun ops) = pow2 (dep (mrun ops)) * true_rank (spec_run ops) r x incl.
Proof.
  destruct (kll_run_invariant ops) as (_ & LF & SUM). unfold true_rank. rewrite <- SUM.
  apply msum_ext_leaf. intros s L. destruct (LF s L) as [_ R]. unfold rank_of, F.
  destruct (reg_get s r) as [g|] eqn:E; [|reflexivity]. apply (P_rank_is_estimator _ _ (R r g E)).
Qed.

Theorem kll_flips_fixed ops :
  uniform (mrun ops) /\
  (forall cs s rest, replay (mrun ops) cs = Some (s, rest) -> length cs = (dep (mrun ops) + length rest)%nat) /\
  (forall cs, (dep (mrun ops) <= length cs)%nat -> exists s, replay (mrun ops) cs = Some (s, skipn (dep (mrun ops)) cs)).
Proof.
  destruct (kll_run_invariant ops) as (SIM & _ & _).
  assert (U : uniform (mrun ops)) by (eapply msim_uniform_l; exact SIM).
  split; [exact U|]. split; [apply replay_uniform; exact U|apply replay_total; exact U].
Qed.

(* the same, as an explicit enumeration of all coin vectors given to the runner's replay *)
Theorem kll_unbiased_enum ops r x incl :
  zsum (map (outcome (fun s => rank_of s r x incl) (mrun ops)) (coins (dep (mrun ops)))) =
  pow2 (dep (mrun ops)) * true_rank (spec_run ops) r x incl.
Proof. rewrite <- msum_enum by apply kll_flips_fixed. apply kll_unbiased. Qed.

Lemma cnt_ext p q l : (forall y, p y = q y) -> cnt p l = cnt q l.
Proof. intro H. induction l as [|y l IH]; [reflexivity|]. rewrite !cnt_cons, IH, H. reflexivity. Qed.

(* operation 6 of the script reports exactly these two quantities (R tokens: estimated rank numerators,
   S tokens: the true ranks of the specification) and draws no coin *)
Theorem rank_query_reports s a r x g : agree s a -> reg_get s r = Some g -> nn (r_sk g) <> 0 ->
  exists s' e, mstep s [6; r; x] =
    Ret (s', ([rank_of s r x true; rank_of s r x false; e],
              [true_rank a r x true; true_rank a r x false; len (r_log g)])).
Proof.
  intros A E N. pose proof (agree_get s a r A) as G. rewrite E in G.
  unfold mstep, parse, mstep_op, pstep. rewrite E. destruct (Z.eqb_spec (nn (r_sk g)) 0) as [Z0|_]; [contradiction|].
  eexists. eexists. unfold rank_of, true_rank, T. rewrite E, G. unfold qview, qstate.
  assert (C1 : cnt (below Z Z.ltb x true) (r_log g) = count_if (fun y => y <=? x) (r_log g)).
  { apply cnt_ext. intro y. unfold below. symmetry. apply Z.leb_antisym. }
  assert (C2 : cnt (below Z Z.ltb x false) (r_log g) = count_if (fun y => y <? x) (r_log g)) by reflexivity.
  rewrite C1, C2. reflexivity.
Qed.

(* ===================== the extracted runner follows one path of the tree ===================== *)
Lemma replay_app {A} (m : M A) : forall cs a rest t, replay m cs = Some (a, rest) -> replay m (cs ++ t) = Some (a, rest ++ t).
Proof.
  induction m as [a0|k IH]; intros cs a rest t H; simpl in *.
  - inversion H; subst. reflexivity.
  - destruct cs as [|c cs]; [discriminate|]. simpl. now apply IH.
Qed.

Fixpoint run_state (s : st) (ops : list opline) : st :=
  match ops with
  | [] => s
  | (o, e) :: r => run_state (fst (step s o e)) r
  end.

(* every operation was given exactly the coins it draws (what the harness reports; otherwise the runner answers -3) *)
Fixpoint coins_ok (s : st) (ops : list opline) : Prop :=
  match ops with
  | [] => True
  | (o, e) :: r => (exists x, replay (mstep s o) e = Some (x, [])) /\ coins_ok (fst (step s o e)) r
  end.

Lemma run_path_from : forall ops s, coins_ok s ops -> forall m pre, replay m pre = Some (s, []) ->
  replay (mrun_from m (map fst ops)) (pre ++ concat (map snd ops)) = Some (run_state s ops, []).
Proof.
  induction ops as [|[o e] ops IH]; intros s OK m pre H; simpl.
  - now rewrite app_nil_r.
  - destruct OK as [[x X] OK]. rewrite app_assoc. apply IH.
    + exact OK.
    + rewrite replay_bind, (replay_app m pre s [] e H). cbn [app]. unfold mstep_st. rewrite replay_bind, X. cbn [replay].
      unfold step. rewrite X. reflexivity.
Qed.

Theorem run_is_a_path ops : coins_ok [] ops ->
  replay (mrun (map fst ops)) (concat (map snd ops)) = Some (run_state [] ops, []).
Proof. intro OK. apply (run_path_from ops [] OK (Ret []) []). reflexivity. Qed.
