(* Murmur3.v — MurmurHash3_x64_128 as published (Austin Appleby), over byte lists.
   Mirrors common/include/MurmurHash3.h line by line. *)
From Coq Require Import NArith List.
From DS Require Import Word.
Import ListNotations.
Local Open Scope N_scope.

Definition c1 : N := 0x87c37b91114253d5.
Definition c2 : N := 0x4cf5ad432745937f.

Definition fmix64 (k : N) : N :=
  let k := xor64 k (shr64 k 33) in
  let k := mul64 k 0xff51afd7ed558ccd in
  let k := xor64 k (shr64 k 33) in
  let k := mul64 k 0xc4ceb9fe1a85ec53 in
  xor64 k (shr64 k 33).

Definition mix_k1 (k1 : N) : N := mul64 (rotl64 (mul64 k1 c1) 31) c2.
Definition mix_k2 (k2 : N) : N := mul64 (rotl64 (mul64 k2 c2) 33) c1.

Definition body_step (h : N * N) (k1 k2 : N) : N * N :=
  let '(h1, h2) := h in
  let h1 := xor64 h1 (mix_k1 k1) in
  let h1 := rotl64 h1 27 in
  let h1 := add64 h1 h2 in
  let h1 := add64 (mul64 h1 5) 0x52dce729 in
  let h2 := xor64 h2 (mix_k2 k2) in
  let h2 := rotl64 h2 31 in
  let h2 := add64 h2 h1 in
  let h2 := add64 (mul64 h2 5) 0x38495ab5 in
  (h1, h2).

(* consume full 16-byte blocks; fuel = number of bytes (more than enough) *)
Fixpoint body (fuel : nat) (bs : list N) (h : N * N) : (N * N) * list N :=
  match fuel with
  | O => (h, bs)
  | S f =>
    match bs with
    | b0::b1::b2::b3::b4::b5::b6::b7::b8::b9::b10::b11::b12::b13::b14::b15::r =>
        body f r (body_step h (le_bytes_to_N [b0;b1;b2;b3;b4;b5;b6;b7])
                               (le_bytes_to_N [b8;b9;b10;b11;b12;b13;b14;b15]))
    | _ => (h, bs)
    end
  end.

Definition tail (t : list N) (h : N * N) : N * N :=
  let '(h1, h2) := h in
  let k1 := le_bytes_to_N (firstn 8 t) in
  let k2 := le_bytes_to_N (skipn 8 t) in
  let h2 := if (8 <? N.of_nat (length t)) then xor64 h2 (mix_k2 k2) else h2 in
  let h1 := if (0 <? N.of_nat (length t)) then xor64 h1 (mix_k1 k1) else h1 in
  (h1, h2).

Definition murmur3_x64_128 (bs : list N) (seed : N) : N * N :=
  let len := N.of_nat (length bs) in
  let '(h, t) := body (length bs) bs (w64 seed, w64 seed) in
  let '(h1, h2) := tail t h in
  let h1 := xor64 h1 len in
  let h2 := xor64 h2 len in
  let h1 := add64 h1 h2 in
  let h2 := add64 h2 h1 in
  let h1 := fmix64 h1 in
  let h2 := fmix64 h2 in
  let h1 := add64 h1 h2 in
  let h2 := add64 h2 h1 in
  (h1, h2).

Definition compute_seed_hash (seed : N) : N :=
  w16 (fst (murmur3_x64_128 (N_to_le_bytes 8 seed) 0)).

(* value computed by /repo for update((int64)1) with seed 9001 *)
Example murmur_repo_vector :
  murmur3_x64_128 (N_to_le_bytes 8 1) 9001 = (811507182322053675, 16783237272830240613).
Proof. vm_compute. reflexivity. Qed.

(* seed hash of DEFAULT_SEED documented across the DataSketches implementations *)
Example seed_hash_default : compute_seed_hash 9001 = 37836.
Proof. vm_compute. reflexivity. Qed.
