(* BoundsExact.v — bit-exact facts about the binary64 instance: exactness outside estimation mode and the
   special cases theta = 1 / zero samples of binomial_bounds. *)
From Coq Require Import ZArith List Bool Floats Lia.
From DS Require Import RunnerLib BoundsDefs BoundsProofs BoundsFloatDiv.
Local Open Scope Z_scope.

(* est = n / 1.0 = n, and min/max of equal arguments *)
Lemma bb_theta_one n :
  bb_est fops n PrimFloat.one = fofZ n /\
  bb_lb fops n PrimFloat.one (fofZ n) = fofZ n /\
  bb_ub fops n PrimFloat.one (fofZ n) = fofZ n.
Proof.
  assert (E : bb_est fops n PrimFloat.one = fofZ n) by (unfold bb_est; cbn [ndiv nofZ fops]; apply fdiv_one).
  unfold bb_lb, bb_ub. rewrite E. cbn [nofZ fops].
  rewrite (cmax_same fops (fofZ n)), (cmin_same fops (fofZ n)). auto.
Qed.

Lemma approx_theta_one n sd pw : approx_lb n PrimFloat.one sd pw = Exact 1 (fofZ n) /\ approx_ub n PrimFloat.one sd pw = Exact 1 (fofZ n).
Proof. split; reflexivity. Qed.

(* zero samples: estimate and lower bound are +0 for every theta > 0, whatever branch computes the inner value 0 *)
Lemma bb_zero_samples theta : PrimFloat.ltb PrimFloat.zero theta = true ->
  bb_est fops 0 theta = PrimFloat.zero /\ bb_lb fops 0 theta PrimFloat.zero = PrimFloat.zero.
Proof.
  intros H. assert (E : bb_est fops 0 theta = PrimFloat.zero) by (unfold bb_est; cbn [ndiv nofZ fops]; rewrite fofZ_0; now apply fdiv_zero_pos).
  split; [exact E|]. unfold bb_lb. rewrite E. cbn [nofZ fops]. rewrite fofZ_0.
  rewrite (cmax_same fops PrimFloat.zero), (cmin_same fops PrimFloat.zero). reflexivity.
Qed.
Lemma approx_lb_zero_samples theta sd pw :
  approx_lb 0 theta sd pw = Exact 1 PrimFloat.zero \/ approx_lb 0 theta sd pw = Exact 2 PrimFloat.zero.
Proof. unfold approx_lb. destruct (PrimFloat.eqb theta 1); [left | right]; reflexivity. Qed.

(* theta_sketch / tuple_sketch outside estimation mode *)
Lemma estimation_mode_false theta64 empty : theta64 <= max_theta -> estimation_mode theta64 empty = false ->
  theta64 = max_theta \/ empty = true.
Proof.
  unfold estimation_mode. intros H E. apply andb_false_iff in E. destruct E as [E|E].
  - apply Z.ltb_ge in E. left. lia.
  - right. now destruct empty.
Qed.

Lemma sketch_exact_theta_max n m il iu :
  let theta := theta_frac max_theta in
  sk_est fops n theta = fofZ n /\ sk_lb fops false m theta il = fofZ m /\ sk_ub fops false m theta iu = fofZ m.
Proof.
  cbv zeta. rewrite theta_frac_max. unfold sk_est. split; [apply bb_theta_one | split; reflexivity].
Qed.

Lemma sketch_exact_empty theta il iu : PrimFloat.ltb PrimFloat.zero theta = true ->
  sk_est fops 0 theta = fofZ 0 /\ sk_lb fops false 0 theta il = fofZ 0 /\ sk_ub fops false 0 theta iu = fofZ 0.
Proof.
  intros H. unfold sk_est. destruct (bb_zero_samples theta H) as [E _]. rewrite E, fofZ_0. repeat split; reflexivity.
Qed.

(* the ordering holds in both modes when the plain bounds are asked (m = n) *)
Lemma sketch_order estmode n theta il iu :
  (estmode = false -> theta = PrimFloat.one \/ (n = 0 /\ PrimFloat.ltb PrimFloat.zero theta = true)) ->
  PrimFloat.ltb (sk_est fops n theta) (sk_lb fops estmode n theta il) = false /\
  PrimFloat.ltb (sk_ub fops estmode n theta iu) (sk_est fops n theta) = false.
Proof.
  intros H. destruct estmode.
  - split; [apply f_bb_lb_le_est | apply f_bb_est_le_ub].
  - destruct (H eq_refl) as [-> | [-> Hp]]; unfold sk_lb, sk_ub, sk_est.
    + destruct (bb_theta_one n) as [E _]. rewrite E. cbn [nofZ fops]. split; apply fltb_irrefl.
    + destruct (bb_zero_samples theta Hp) as [E _]. rewrite E. cbn [nofZ fops]. rewrite fofZ_0. split; apply fltb_irrefl.
Qed.

(* "not less" as "less or equal" when no NaN is involved *)
Lemma sketch_order_leb estmode n theta il iu :
  (estmode = false -> theta = PrimFloat.one \/ (n = 0 /\ PrimFloat.ltb PrimFloat.zero theta = true)) ->
  fisnan (sk_est fops n theta) = false -> fisnan (sk_lb fops estmode n theta il) = false -> fisnan (sk_ub fops estmode n theta iu) = false ->
  PrimFloat.leb (sk_lb fops estmode n theta il) (sk_est fops n theta) = true /\
  PrimFloat.leb (sk_est fops n theta) (sk_ub fops estmode n theta iu) = true.
Proof.
  intros H He Hl Hu. destruct (sketch_order estmode n theta il iu H) as [A B].
  split; apply fnot_ltb_leb; auto.
Qed.
