(* Properties_C10_ebpps.v — being filled in *)
From Coq Require Import NArith List.
From DS Require Import EbppsCodecDefs.
Theorem C10_ebpps_stub : sk_empty (empty_sk 3) = true.
Proof. reflexivity. Qed.
Print Assumptions C10_ebpps_stub.
