(* Properties_C10_ebpps.v — the EBPPS sketch image keeps the documented little-endian layout (comment above
   get_serialized_size_bytes in ebpps_sketch_impl.hpp): every field of the image sits at its documented offset with the
   documented value, so a reader written only from that comment ([rd n off] = the little-endian number in bytes
   off .. off+n-1) recovers the content.  There is one serial version (1); no legacy format is accepted.
   Only statements; proofs live in EbppsCodecProofs.v. *)
From Coq Require Import NArith List Bool Lia Arith.
From DS Require Import Word ThetaCodecDefs EbppsCodecDefs EbppsCodecProofs.
Import ListNotations.
Local Open Scope N_scope.

(* byte 0: preamble longs (1 = empty, 5 otherwise); byte 1: serial version 1; byte 2: family id 19;
   byte 3: flags (4 = EMPTY, 8 = HAS_PARTIAL_ITEM, else 0); bytes 4..7: k *)
Theorem C10_ebpps_first_long : forall s rest, wf s ->
  let img := enc s ++ rest in
  rd 1 0 img = Some (if sk_empty s then 1 else 5) /\ rd 1 1 img = Some 1 /\ rd 1 2 img = Some 19 /\
  rd 1 3 img = Some (sk_flags s) /\ rd 4 4 img = Some (e_k s).
Proof. exact layout_first_long. Qed.

Theorem C10_ebpps_flags : forall s,
  sk_flags s = (if sk_empty s then 4 else match e_part s with Some _ => 8 | None => 0 end).
Proof. reflexivity. Qed.

(* an empty sketch is the first long alone *)
Theorem C10_ebpps_empty_image : forall s, sk_empty s = true -> enc s = [1; 1; 19; 4] ++ u32 (e_k s).
Proof. exact enc_empty. Qed.

(* non-empty: bytes 8..15 n, 16..23 cumulative weight, 24..31 maximum weight, 32..39 rho, 40..47 C,
   48 + 8 i .. the i-th full item, and the partial item right after the last full item *)
Theorem C10_ebpps_nonempty_fields : forall s rest, wf s -> sk_empty s = false ->
  let img := enc s ++ rest in
  rd 8 8 img = Some (e_n s) /\ rd 8 16 img = Some (e_cw s) /\ rd 8 24 img = Some (e_wmax s) /\ rd 8 32 img = Some (e_rho s) /\
  rd 8 40 img = Some (e_c s) /\
  (forall i x, nth_error (e_data s) i = Some x -> rd 8 (48 + 8 * i) img = Some x) /\
  (forall p, e_part s = Some p -> rd 8 (48 + 8 * length (e_data s)) img = Some p).
Proof. exact layout_nonempty. Qed.

(* the readers accept serial version 1 and family 19 only, and the preamble-longs byte must agree with the EMPTY flag *)
Theorem C10_ebpps_versions : forall pre ver fam fl k, header_ok pre ver fam fl k = true ->
  ver = 1 /\ fam = 19 /\ 1 <= k /\ k <= MAX_K /\
  (if N.testbit fl 2 then pre = 1 /\ N.testbit fl 3 = false else pre = 5).
Proof.
  intros pre ver fam fl k H. unfold header_ok in H. rewrite !andb_true_iff in H.
  destruct H as ((((Hk0 & Hk1) & Hp) & Hf) & Hv).
  apply negb_true_iff, N.eqb_neq in Hk0. apply N.leb_le in Hk1. apply N.eqb_eq in Hf, Hv.
  repeat split; auto; try lia.
  destruct (N.testbit fl 2).
  - apply andb_true_iff in Hp. destruct Hp as [Hp1 Hp2]. apply N.eqb_eq in Hp1. apply negb_true_iff in Hp2. auto.
  - now apply N.eqb_eq in Hp.
Qed.

(* non-vacuity: the image of k = 4, n = 3, W = 3.0, w_max = 1.0, rho = 1.0, C = 2.5, items 7 and -1, partial item 5 *)
Definition C10_ex : esk :=
  {| e_k := 4; e_n := 3; e_cw := 4613937818241073152; e_wmax := 4607182418800017408; e_rho := 4607182418800017408;
     e_c := 4612811918334230528; e_data := [7; 18446744073709551615]; e_part := Some 5 |}.
Example C10_ebpps_nonvacuous :
  enc C10_ex = [5; 1; 19; 8; 4; 0; 0; 0] ++ [3; 0; 0; 0; 0; 0; 0; 0] ++ [0; 0; 0; 0; 0; 0; 8; 64] ++ [0; 0; 0; 0; 0; 0; 240; 63] ++
               [0; 0; 0; 0; 0; 0; 240; 63] ++ [0; 0; 0; 0; 0; 0; 4; 64] ++ [7; 0; 0; 0; 0; 0; 0; 0] ++
               [255; 255; 255; 255; 255; 255; 255; 255] ++ [5; 0; 0; 0; 0; 0; 0; 0] /\
  rd 8 40 (enc C10_ex) = Some 4612811918334230528 /\ rd 8 64 (enc C10_ex) = Some 5.
Proof. vm_compute. repeat split. Qed.

Print Assumptions C10_ebpps_first_long.
Print Assumptions C10_ebpps_flags.
Print Assumptions C10_ebpps_empty_image.
Print Assumptions C10_ebpps_nonempty_fields.
Print Assumptions C10_ebpps_versions.
