(* EbppsProofs.v — lemmas about the exact-arithmetic (Q) instance of the EBPPS model (EbppsDefs.v).
   Everything here is for ARBITRARY choice streams whose unit draws lie in the open interval (0,1). *)
From Coq Require Import ZArith List Bool QArith Qround Lia Lqa Psatz.
From DS Require Import RunnerLib EbppsDefs.
Import ListNotations.
Local Open Scope Q_scope.

Ltac splits := repeat match goal with |- _ /\ _ => split end.
Ltac qs := cbn [num n0 n1 nadd nsub nmul ndiv nltb nleb neqb nint nnat nofZ nfinite tok tunit tidxZ tdflt QOps] in *.

(* ---------- booleans on Q ---------- *)
Lemma qleb_spec a b : BoolSpec (a <= b) (b < a) (Qle_bool a b).
Proof.
  destruct (Qle_bool a b) eqn:E; constructor.
  - now apply Qle_bool_iff.
  - apply Qnot_le_lt. intro H. apply Qle_bool_iff in H. congruence.
Qed.

Lemma qeqb_spec a b : BoolSpec (a == b) (~ a == b) (Qeq_bool a b).
Proof.
  destruct (Qeq_bool a b) eqn:E; constructor.
  - now apply Qeq_bool_iff.
  - now apply Qeq_bool_neq.
Qed.

(* ---------- floor ---------- *)
Definition fl (q : Q) : Q := inject_Z (Qfloor q).

Lemma fl_le q : fl q <= q. Proof. apply Qfloor_le. Qed.
Lemma fl_lt q : q < fl q + 1.
Proof. unfold fl. pose proof (Qlt_floor q) as H. rewrite inject_Z_plus in H. exact H. Qed.

Lemma floor_unique q z : inject_Z z <= q -> q < inject_Z z + 1 -> Qfloor q = z.
Proof.
  intros H1 H2.
  assert (A : (Qfloor q <= z)%Z).
  { apply Z.lt_succ_r. rewrite Zlt_Qlt. unfold Z.succ. rewrite inject_Z_plus.
    eapply Qle_lt_trans; [apply Qfloor_le|]. exact H2. }
  assert (B : (z <= Qfloor q)%Z).
  { apply Z.lt_succ_r. rewrite Zlt_Qlt. unfold Z.succ. rewrite inject_Z_plus.
    eapply Qle_lt_trans; [exact H1|]. pose proof (Qlt_floor q) as H. rewrite inject_Z_plus in H. exact H. }
  lia.
Qed.

Lemma floor_nonneg q : 0 <= q -> (0 <= Qfloor q)%Z.
Proof. intro H. change 0%Z with (Qfloor 0). now apply Qfloor_resp_le. Qed.

Lemma floor_mono a b : a <= b -> (Qfloor a <= Qfloor b)%Z.
Proof. apply Qfloor_resp_le. Qed.

Lemma inj_eq a b : inject_Z a == inject_Z b -> a = b.
Proof. apply inject_Z_injective. Qed.

Lemma floor_pos q : 1 <= q -> (1 <= Qfloor q)%Z.
Proof. intro H. change 1%Z with (Qfloor 1). now apply Qfloor_resp_le. Qed.

Lemma floor_plus1 q : Qfloor (q + 1) = (Qfloor q + 1)%Z.
Proof.
  apply floor_unique.
  - rewrite inject_Z_plus. pose proof (fl_le q). unfold fl in *. change (inject_Z 1) with 1. lra.
  - rewrite inject_Z_plus. pose proof (fl_lt q). unfold fl in *. change (inject_Z 1) with 1. lra.
Qed.

Lemma frac_cases q : q == fl q \/ fl q < q.
Proof. pose proof (fl_le q). destruct (Qlt_le_dec (fl q) q); [right|left]; auto. now apply Qle_antisym. Qed.

Lemma div_lt_l a c u : 0 < c -> a / c < u -> a < u * c.
Proof.
  intros Hc H. apply (Qmult_lt_compat_r _ _ c) in H; auto.
  assert (E : a / c * c == a) by (field; lra). now rewrite E in H.
Qed.

Lemma div_le_r a c u : 0 < c -> u <= a / c -> u * c <= a.
Proof.
  intros Hc H. apply (Qmult_le_compat_r _ _ c) in H; [|lra].
  assert (E : a / c * c == a) by (field; lra). now rewrite E in H.
Qed.

Lemma to_nat_floor_ge1 q : 1 <= q -> (1 <= Z.to_nat (Qfloor q))%nat.
Proof. intro H. apply floor_pos in H. lia. Qed.

Lemma floor_add_same c t : 0 <= t -> (c - fl c) + t < 1 -> Qfloor (c + t) = Qfloor c.
Proof.
  intros Ht H. pose proof (fl_le c). unfold fl in *. apply floor_unique; lra.
Qed.

Lemma floor_add_next c t : 1 <= (c - fl c) + t -> (c - fl c) + t < 2 -> Qfloor (c + t) = (Qfloor c + 1)%Z.
Proof.
  intros H1 H2. unfold fl in *. apply floor_unique; rewrite inject_Z_plus; change (inject_Z 1) with 1; lra.
Qed.

(* ---------- list helpers ---------- *)
Section Lists.
  Variable Item : Type.
  Variable P : Item -> Prop.

  Lemma set_nth_length i (x : Item) l : length (set_nth Item i x l) = length l.
  Proof. apply upd_nth_length. Qed.

  Lemma set_nth_Forall i x l : Forall P l -> P x -> Forall P (set_nth Item i x l).
  Proof.
    unfold set_nth. revert i. induction l as [|a t IH]; intros [|i] H Hx; simpl; auto.
    - inversion H; subst. constructor; auto.
    - inversion H; subst. constructor; auto.
  Qed.

  Lemma swap_nth_length i j l : length (swap_nth Item i j l) = length l.
  Proof.
    unfold swap_nth. destruct (nth_error l i), (nth_error l j); auto.
    now rewrite !set_nth_length.
  Qed.

  Lemma nth_error_Forall l i x : Forall P l -> nth_error l i = Some x -> P x.
  Proof. intros H E. apply nth_error_In in E. rewrite Forall_forall in H. auto. Qed.

  Lemma swap_nth_Forall i j l : Forall P l -> Forall P (swap_nth Item i j l).
  Proof.
    intro H. unfold swap_nth.
    destruct (nth_error l i) eqn:Ei; auto. destruct (nth_error l j) eqn:Ej; auto.
    apply set_nth_Forall; [apply set_nth_Forall|]; eauto using nth_error_Forall.
  Qed.

  Lemma firstn_Forall n l : Forall P l -> Forall P (firstn n l).
  Proof.
    revert n; induction l as [|a t IH]; intros [|n] H; simpl; auto.
    inversion H; subst. constructor; auto.
  Qed.

  Lemma removelast_Forall l : Forall P l -> Forall P (removelast l).
  Proof. intro H. rewrite removelast_firstn_len. now apply firstn_Forall. Qed.

  Lemma removelast_len (l : list Item) : length (removelast l) = (length l - 1)%nat.
  Proof. rewrite removelast_firstn_len, firstn_length. lia. Qed.

  Lemma Forall_snoc l x : Forall P l -> P x -> Forall P (l ++ [x]).
  Proof. intros. apply Forall_app. split; auto. Qed.
End Lists.

(* ---------- the choice stream ---------- *)
Definition tok_ok (t : Q * nat) : Prop := 0 < fst t /\ fst t < 1.
Definition cs_ok (s : cs QOps) : Prop :=
  Forall tok_ok (c_rem s) /\ c_ub s = false /\ c_trap s = false /\ c_site s = 0%Z.

Lemma draw_unit_ok s u s' : draw_unit QOps s = (u, s') -> cs_ok s -> 0 < u /\ u < 1 /\ cs_ok s'.
Proof.
  unfold draw_unit, draw. intros E (Hr & Hu & Ht & Hs).
  destruct (c_rem s) as [|t r] eqn:Er; inversion E; subst; clear E; qs.
  - cbn. repeat split; auto; reflexivity.
  - inversion Hr; subst. destruct H1. repeat split; auto.
Qed.

Lemma draw_idx_ok m s r s' : draw_idx QOps (S m) s = (r, s') -> cs_ok s -> (r < S m)%nat /\ cs_ok s'.
Proof.
  unfold draw_idx, draw. intros E (Hr & Hu & Ht & Hs).
  assert (B : forall z, (Z.to_nat (z mod Z.of_nat (S m)) < S m)%nat).
  { intro z. pose proof (Z.mod_pos_bound z (Z.of_nat (S m))). lia. }
  destruct (c_rem s) as [|t r0] eqn:Er; inversion E; subst; clear E; qs.
  - split; [first [apply B | cbn; lia]|]. repeat split; auto.
  - inversion Hr; subst. split; [first [apply B | cbn; lia]|]. repeat split; auto.
Qed.

Lemma note_site_false z s : note_site QOps false z s = s.
Proof. reflexivity. Qed.

Lemma cs_ok_elim s : cs_ok s -> c_ub s = false /\ c_trap s = false /\ c_site s = 0%Z.
Proof. intros (_ & A & B & C). auto. Qed.

Lemma cs_ok_init toks : Forall tok_ok toks -> cs_ok (Build_cs QOps toks false false false 0).
Proof. intro H. repeat split; auto. Qed.

Global Opaque cs_ok.

Section Sample.
  Variable Item : Type.
  Variable P : Item -> Prop.
  Notation qsample := (sample QOps Item).

  (* floor(c) full items, a partial item iff c is not integral *)
  Definition Shape (sm : qsample) : Prop :=
    0 <= sc sm /\ length (sdata sm) = Z.to_nat (Qfloor (sc sm)) /\ (spart sm = None <-> sc sm == fl (sc sm)).

  Definition AllP (sm : qsample) : Prop := Forall P (sdata sm) /\ (forall x, spart sm = Some x -> P x).

  (* ----- subsample ----- *)
  Lemma sub_loop_ok cnt : forall i d s d' s',
    sub_loop QOps Item cnt i d s = (d', s') -> (cnt + i < length d)%nat -> Forall P d -> cs_ok s ->
    length d' = length d /\ Forall P d' /\ cs_ok s'.
  Proof.
    induction cnt as [|c IH]; intros i d s d' s' E Hl HP Hs; simpl in E.
    - inversion E; subst; auto.
    - destruct (draw_idx QOps (length d - i) s) as [r s1] eqn:Ed.
      destruct (length d - i)%nat as [|m] eqn:Em; [lia|].
      apply draw_idx_ok in Ed; auto. destruct Ed as [_ Hs1].
      apply IH in E; auto.
      + rewrite swap_nth_length in E. destruct E as (A & B & C). auto.
      + rewrite swap_nth_length. lia.
      + now apply swap_nth_Forall.
  Qed.

  Lemma subsample_ok m d s d' s' :
    subsample QOps Item m d s = (d', s') -> (m <= length d)%nat -> Forall P d -> cs_ok s ->
    length d' = m /\ Forall P d' /\ cs_ok s'.
  Proof.
    unfold subsample. intros E Hm HP Hs.
    destruct (Nat.eqb_spec m (length d)).
    - inversion E; subst; auto.
    - destruct (Nat.ltb_spec (length d) m); [lia|].
      destruct (sub_loop QOps Item m 0 d s) as [d1 s1] eqn:El. inversion E; subst; clear E.
      apply sub_loop_ok in El; auto; [|lia]. destruct El as (A & B & C).
      split; [|split; auto using firstn_Forall].
      rewrite firstn_length. lia.
  Qed.

  (* ----- move_one_to_partial / swap_with_partial ----- *)
  Lemma move_one_ok d p s d' p' s' :
    move_one QOps Item d p s = (d', p', s') -> (1 <= length d)%nat -> Forall P d -> cs_ok s ->
    length d' = (length d - 1)%nat /\ Forall P d' /\ (exists x, p' = Some x /\ P x) /\ cs_ok s'.
  Proof.
    unfold move_one. intros E Hl HP Hs.
    destruct (draw_idx QOps (length d) s) as [r s1] eqn:Ed.
    destruct (length d) as [|m] eqn:Em; [lia|].
    apply draw_idx_ok in Ed; auto. destruct Ed as [Hr Hs1].
    set (d1 := swap_nth Item r (S m - 1) d) in *.
    assert (L1 : length d1 = S m) by (unfold d1; now rewrite swap_nth_length).
    assert (F1 : Forall P d1) by (unfold d1; now apply swap_nth_Forall).
    destruct (nth_error d1 (S m - 1)) as [x|] eqn:En.
    - inversion E; subst; clear E. rewrite removelast_len, L1.
      splits; auto using removelast_Forall.
      exists x. split; auto. eapply nth_error_Forall; eauto.
    - apply nth_error_None in En. lia.
  Qed.

  Lemma swap_with_partial_ok d p s d' p' s' :
    swap_with_partial QOps Item d p s = (d', p', s') -> (1 <= length d)%nat -> Forall P d ->
    (forall y, p = Some y -> P y) -> cs_ok s ->
    (length d' = match p with Some _ => length d | None => (length d - 1)%nat end) /\
    Forall P d' /\ (exists x, p' = Some x /\ P x) /\ cs_ok s'.
  Proof.
    unfold swap_with_partial. intros E Hl HP Hp Hs.
    destruct p as [y|].
    - destruct (draw_idx QOps (length d) s) as [r s1] eqn:Ed.
      destruct (length d) as [|m] eqn:Em; [lia|].
      apply draw_idx_ok in Ed; auto. destruct Ed as [Hr Hs1].
      destruct (nth_error d r) as [x|] eqn:En.
      + inversion E; subst; clear E. rewrite set_nth_length.
        splits; auto.
        * apply set_nth_Forall; auto.
        * exists x. split; auto. eapply nth_error_Forall; eauto.
      + apply nth_error_None in En. lia.
    - eapply move_one_ok; eauto.
  Qed.
  (* ----- downsample ----- *)
  Lemma shape_mk nc d (x : Item) :
    0 <= nc -> length d = Z.to_nat (Qfloor nc) ->
    Shape (Build_sample QOps Item nc d (if Qeq_bool nc (inject_Z (Qfloor nc)) then None else Some x)).
  Proof.
    intros H0 Hl. unfold Shape; cbn [sc sdata spart]. splits; auto.
    destruct (qeqb_spec nc (inject_Z (Qfloor nc))) as [He|He]; split; intro H; auto; try discriminate.
    unfold fl in H. contradiction.
  Qed.

  Lemma allp_mk nc d (x : Item) (b : bool) :
    Forall P d -> P x -> AllP (Build_sample QOps Item nc d (if b then None else Some x)).
  Proof.
    intros Hd Hx. split; cbn [sdata spart]; auto. intros y Hy. destruct b; inversion Hy; subst; auto.
  Qed.

  Lemma downsample_spec theta sm s sm' s' :
    downsample QOps Item theta sm s = (sm', s') ->
    0 < theta -> 0 < sc sm -> Shape sm -> AllP sm -> cs_ok s ->
    Shape sm' /\ AllP sm' /\ cs_ok s' /\ (theta < 1 -> sc sm' == theta * sc sm) /\ (1 <= theta -> sm' = sm).
  Proof.
    unfold downsample. qs. intros E Ht Hc (Hc0 & Hlen & Hpart) (HPd & HPp) Hs.
    destruct (qleb_spec 1 theta) as [H1|H1].
    { inversion E; subst. splits; auto; try (split; auto). intro; lra. }
    remember (sc sm) as c eqn:Ec. remember (theta * c) as nc eqn:Enc.
    assert (Hnc : 0 < nc /\ nc < c) by (subst nc; split; nra).
    destruct (draw_unit QOps s) as [u s1] eqn:Eu. apply draw_unit_ok in Eu; auto. destruct Eu as (Hu0 & Hu1 & Hs1).
    pose proof (fl_le c) as Fc1. pose proof (fl_lt c) as Fc2. pose proof (fl_le nc) as Fn1. pose proof (fl_lt nc) as Fn2.
    unfold fl in Fc1, Fc2, Fn1, Fn2.
    assert (Zn : (0 <= Qfloor nc)%Z) by (apply floor_nonneg; lra).
    assert (Znc : (Qfloor nc <= Qfloor c)%Z) by (apply floor_mono; lra).
    (* a non-integral c has a partial item *)
    assert (Hsome : inject_Z (Qfloor c) < c -> exists y, spart sm = Some y /\ P y).
    { intro Hf. destruct (spart sm) as [y|] eqn:Ep; [exists y; auto|].
      exfalso. assert (c == fl c) by (apply Hpart; auto). unfold fl in *. lra. }
    (* it suffices to produce the right number of items and a partial item *)
    assert (K : forall d p s2, length d = Z.to_nat (Qfloor nc) -> Forall P d -> (exists x, p = Some x /\ P x) -> cs_ok s2 ->
              (Build_sample QOps Item nc d (if Qeq_bool nc (inject_Z (Qfloor nc)) then None else p), s2) = (sm', s') ->
              Shape sm' /\ AllP sm' /\ cs_ok s' /\ (theta < 1 -> sc sm' == nc) /\ (1 <= theta -> sm' = sm)).
    { intros d p s2 Hl Hd (x & -> & Hx) Hs2 E2. inversion E2; subst sm' s'. splits; auto.
      - apply shape_mk; auto; lra.
      - apply allp_mk; auto.
      - intros _. cbn [sc]. reflexivity.
      - intro; lra. }
    destruct (qeqb_spec (inject_Z (Qfloor nc)) 0) as [Hz|Hz].
    - (* no full item survives *)
      assert (Z0 : Qfloor nc = 0%Z) by (apply inj_eq; exact Hz).
      destruct (qleb_spec u ((c - inject_Z (Qfloor c)) / c)) as [Hle|Hlt]; cbn [negb] in E.
      + apply div_le_r in Hle; auto.
        destruct Hsome as (y & Ey & Py); [nra|].
        eapply (K [] (spart sm) s1); eauto. rewrite Z0; reflexivity.
      + apply div_lt_l in Hlt; auto.
        destruct (swap_with_partial QOps Item (sdata sm) (spart sm) s1) as [[d1 p1] s2] eqn:Esw.
        apply swap_with_partial_ok in Esw; auto.
        * destruct Esw as (_ & _ & Hx & Hs2). eapply (K [] p1 s2); eauto. rewrite Z0; reflexivity.
        * rewrite Hlen. apply to_nat_floor_ge1. destruct (Qlt_le_dec c 1); auto.
          exfalso. assert (Hf0 : Qfloor c = 0%Z) by (apply floor_unique; change (inject_Z 0) with 0; lra).
          rewrite Hf0 in Hlt. change (inject_Z 0) with 0 in Hlt. nra.
    - assert (Zn1 : (1 <= Qfloor nc)%Z).
      { assert (Qfloor nc <> 0%Z) by (intro H; apply Hz; rewrite H; reflexivity). lia. }
      destruct (qeqb_spec (inject_Z (Qfloor nc)) (inject_Z (Qfloor c))) as [Hsame|Hdiff].
      + (* no item deleted *)
        apply inj_eq in Hsame.
        destruct Hsome as (y & Ey & Py); [rewrite <- Hsame; lra|].
        match type of E with context [Qle_bool u ?a] => destruct (Qle_bool u a) end; cbn [negb] in E.
        * eapply (K (sdata sm) (spart sm) s1); eauto. now rewrite Hsame.
        * destruct (swap_with_partial QOps Item (sdata sm) (spart sm) s1) as [[d1 p1] s2] eqn:Esw.
          apply swap_with_partial_ok in Esw; auto; [|rewrite Hlen; lia].
          destruct Esw as (Hl1 & Hd1 & Hx & Hs2). rewrite Ey in Hl1.
          eapply (K d1 p1 s2); eauto. now rewrite Hl1, Hlen, Hsame.
      + assert (Zlt : (Qfloor nc < Qfloor c)%Z).
        { assert (Qfloor nc <> Qfloor c) by (intro H; apply Hdiff; rewrite H; reflexivity). lia. }
        destruct (qleb_spec (theta * (c - inject_Z (Qfloor c))) u) as [Hge|Hlt]; cbn [negb] in E.
        * destruct (subsample QOps Item (S (Z.to_nat (Qfloor (inject_Z (Qfloor nc))))) (sdata sm) s1) as [d1 s2] eqn:Esub.
          rewrite Qfloor_Z in Esub.
          apply subsample_ok in Esub; auto; [|rewrite Hlen; lia].
          destruct Esub as (Hl1 & Hd1 & Hs2).
          destruct (move_one QOps Item d1 (spart sm) s2) as [[d2 p2] s3] eqn:Emv.
          apply move_one_ok in Emv; auto; [|lia].
          destruct Emv as (Hl2 & Hd2 & Hx & Hs3).
          eapply (K d2 p2 s3); eauto. lia.
        * destruct Hsome as (y & Ey & Py); [nra|].
          destruct (subsample QOps Item (Z.to_nat (Qfloor (inject_Z (Qfloor nc)))) (sdata sm) s1) as [d1 s2] eqn:Esub.
          rewrite Qfloor_Z in Esub.
          apply subsample_ok in Esub; auto; [|rewrite Hlen; lia].
          destruct Esub as (Hl1 & Hd1 & Hs2).
          destruct (swap_with_partial QOps Item d1 (spart sm) s2) as [[d2 p2] s3] eqn:Esw.
          apply swap_with_partial_ok in Esw; auto; [|lia].
          destruct Esw as (Hl2 & Hd2 & Hx & Hs3). rewrite Ey in Hl2.
          eapply (K d2 p2 s3); eauto. lia.
  Qed.
  (* ----- merge of a one-item sample ----- *)
  Lemma shape_intro c d p :
    0 <= c -> length d = Z.to_nat (Qfloor c) -> (p = None <-> c == fl c) ->
    Shape (Build_sample QOps Item c d p).
  Proof. intros. unfold Shape; cbn [sc sdata spart]. auto. Qed.

  Lemma smerge_spec theta it sm s sm' s' :
    smerge QOps Item sm (replace_content QOps Item it theta) s = (sm', s') ->
    0 < theta -> theta <= 1 -> Shape sm -> AllP sm -> P it -> cs_ok s ->
    Shape sm' /\ AllP sm' /\ cs_ok s' /\ sc sm' == sc sm + theta.
  Proof.
    intros E Ht0 Ht1 (Hc0 & Hlen & Hpart) (HPd & HPp) Hit Hs.
    remember (sc sm) as c eqn:Ec.
    pose proof (fl_le c) as Fc1. pose proof (fl_lt c) as Fc2.
    assert (Hsome : fl c < c -> exists y, spart sm = Some y /\ P y).
    { intro Hf. destruct (spart sm) as [y|] eqn:Ep; [exists y; auto|].
      exfalso. assert (c == fl c) by (apply Hpart; auto). lra. }
    assert (Hnone : c == fl c -> spart sm = None) by (apply Hpart).
    unfold replace_content in E. qs.
    destruct (qeqb_spec theta 1) as [T1|T1].
    - (* a full item *)
      assert (F1 : Qfloor theta = 1%Z) by (apply floor_unique; change (inject_Z 1) with 1; lra).
      unfold smerge in E. cbn [sc sdata spart] in E. qs. rewrite <- Ec in E. rewrite F1 in E.
      change (inject_Z 1) with 1 in E.
      assert (Fn : Qfloor (c + theta) = (Qfloor c + 1)%Z) by (apply floor_add_next; lra).
      destruct (qeqb_spec (c - inject_Z (Qfloor c)) 0) as [Hi|Hi]; cbn [andb] in E.
      + destruct (qeqb_spec (theta - 1) 0) as [_|Hn]; [|exfalso; apply Hn; lra].
        inversion E; subst sm' s'; clear E. cbn [sc]. splits; auto; try reflexivity.
        * apply shape_intro; [lra| |].
          -- rewrite app_length, Hlen, Fn. cbn [length]. pose proof (floor_nonneg c Hc0). lia.
          -- split; auto. intros _. unfold fl. rewrite Fn, inject_Z_plus. change (inject_Z 1) with 1. lra.
        * split; cbn [sdata spart]; [apply Forall_snoc; auto|discriminate].
      + assert (Hf : fl c < c) by (destruct (frac_cases c); auto; exfalso; apply Hi; unfold fl in *; lra).
        destruct (qeqb_spec (c - inject_Z (Qfloor c) + (theta - 1)) 1) as [Ha|_]; [unfold fl in *; lra|].
        destruct (qeqb_spec (c + theta) (inject_Z (Qfloor (c + theta)))) as [Hb|_].
        { exfalso. rewrite Fn, inject_Z_plus in Hb. change (inject_Z 1) with 1 in Hb. unfold fl in *. lra. }
        cbn [orb] in E.
        destruct (qleb_spec 1 (c - inject_Z (Qfloor c) + (theta - 1))) as [Hc1|_]; [unfold fl in *; lra|].
        cbn [negb] in E.
        destruct (draw_unit QOps s) as [u s1] eqn:Eu. apply draw_unit_ok in Eu; auto. destruct Eu as (Hu0 & Hu1 & Hs1).
        destruct (qleb_spec u ((c - inject_Z (Qfloor c)) / (c - inject_Z (Qfloor c) + (theta - 1)))) as [_|Hlt].
        2:{ exfalso. apply div_lt_l in Hlt; unfold fl in *; nra. }
        cbn [negb] in E. inversion E; subst sm' s'; clear E. cbn [sc]. splits; auto; try reflexivity.
        * apply shape_intro; [lra| |].
          -- rewrite app_length, Hlen, Fn. cbn [length]. pose proof (floor_nonneg c Hc0). lia.
          -- split; intro H.
             ++ apply Hpart in H. unfold fl in *. lra.
             ++ exfalso. unfold fl in H. rewrite Fn, inject_Z_plus in H. change (inject_Z 1) with 1 in H. unfold fl in *. lra.
        * split; cbn [sdata spart]; [apply Forall_snoc; auto|auto].
    - (* a partial item *)
      assert (T2 : theta < 1) by (destruct (Qlt_le_dec theta 1); auto; exfalso; apply T1; lra).
      assert (F0 : Qfloor theta = 0%Z) by (apply floor_unique; change (inject_Z 0) with 0; lra).
      unfold smerge in E. cbn [sc sdata spart] in E. qs. rewrite <- Ec in E. rewrite F0 in E.
      change (inject_Z 0) with 0 in E. rewrite app_nil_r in E.
      destruct (qeqb_spec (theta - 0) 0) as [Hz|_]; [lra|]. rewrite andb_false_r in E.
      unfold fl in *.
      set (cf := c - inject_Z (Qfloor c)) in *.
      assert (Hcf : 0 <= cf /\ cf < 1) by (unfold cf; lra).
      destruct (Qlt_le_dec (cf + theta) 1) as [Lt1|Ge1].
      + (* no new full item *)
        assert (Fn : Qfloor (c + theta) = Qfloor c) by (apply floor_add_same; unfold fl; fold cf; lra).
        destruct (qeqb_spec (cf + (theta - 0)) 1) as [Ha|_]; [lra|].
        destruct (qeqb_spec (c + theta) (inject_Z (Qfloor (c + theta)))) as [Hb|Hb]; [rewrite Fn in Hb; unfold cf in *; lra|].
        cbn [orb] in E.
        destruct (qleb_spec 1 (cf + (theta - 0))) as [Hc1|_]; [lra|]. cbn [negb] in E.
        destruct (draw_unit QOps s) as [u s1] eqn:Eu. apply draw_unit_ok in Eu; auto. destruct Eu as (Hu0 & Hu1 & Hs1).
        assert (Sh : forall p, (exists x, p = Some x /\ P x) ->
                     Shape (Build_sample QOps Item (c + theta) (sdata sm) p) /\ AllP (Build_sample QOps Item (c + theta) (sdata sm) p)).
        { intros p (x & -> & Hx). split.
          - apply shape_intro; [lra|now rewrite Fn|]. split; [discriminate|]. intro H. exfalso. apply Hb. exact H.
          - split; cbn [sdata spart]; auto. intros y Hy; inversion Hy; subst; auto. }
        destruct (qleb_spec u (cf / (cf + (theta - 0)))) as [Hle|Hlt]; cbn [negb] in E.
        * inversion E; subst sm' s'; clear E. cbn [sc].
          destruct (Sh (spart sm)) as [A B]; [|splits; auto; reflexivity].
          apply Hsome. apply div_le_r in Hle; [|lra]. unfold cf in *. nra.
        * inversion E; subst sm' s'; clear E. cbn [sc].
          destruct (Sh (Some it)) as [A B]; [eauto|splits; auto; reflexivity].
      + assert (Fn : Qfloor (c + theta) = (Qfloor c + 1)%Z) by (apply floor_add_next; unfold fl; fold cf; lra).
        assert (Hf : inject_Z (Qfloor c) < c) by (unfold cf in *; lra).
        destruct (Hsome Hf) as (y & Ey & Py).
        assert (Ln : length (sdata sm ++ [y]) = Z.to_nat (Qfloor (c + theta)) /\ length (sdata sm ++ [it]) = Z.to_nat (Qfloor (c + theta))).
        { rewrite !app_length, Hlen, Fn. cbn [length]. pose proof (floor_nonneg c Hc0). lia. }
        destruct Ln as [Ln1 Ln2].
        destruct (qeqb_spec (cf + (theta - 0)) 1) as [Ha|Ha].
        * (* exactly one: the sum is integral *)
          cbn [orb] in E.
          destruct (draw_unit QOps s) as [u s1] eqn:Eu. apply draw_unit_ok in Eu; auto. destruct Eu as (Hu0 & Hu1 & Hs1).
          assert (Hint : c + theta == inject_Z (Qfloor (c + theta))).
          { rewrite Fn, inject_Z_plus. change (inject_Z 1) with 1. unfold cf in *. lra. }
          rewrite Ey in E. cbn [app_opt] in E.
          destruct (Qle_bool u cf); inversion E; subst sm' s'; clear E; cbn [sc]; splits; auto; try reflexivity.
          -- apply shape_intro; [lra|auto|]. split; auto.
          -- split; cbn [sdata spart]; [apply Forall_snoc; auto|discriminate].
          -- apply shape_intro; [lra|auto|]. split; auto.
          -- split; cbn [sdata spart]; [apply Forall_snoc; auto|discriminate].
        * destruct (qeqb_spec (c + theta) (inject_Z (Qfloor (c + theta)))) as [Hb|Hb].
          { exfalso. rewrite Fn, inject_Z_plus in Hb. change (inject_Z 1) with 1 in Hb. apply Ha. unfold cf in *. lra. }
          cbn [orb] in E.
          destruct (qleb_spec 1 (cf + (theta - 0))) as [_|Hc1]; [|lra]. cbn [negb] in E.
          destruct (draw_unit QOps s) as [u s1] eqn:Eu. apply draw_unit_ok in Eu; auto. destruct Eu as (Hu0 & Hu1 & Hs1).
          rewrite Ey in E.
          destruct (Qle_bool u _); inversion E; subst sm' s'; clear E; cbn [sc]; splits; auto; try reflexivity.
          -- apply shape_intro; [lra|auto|]. split; [discriminate|]. intro H; exfalso; apply Hb; exact H.
          -- split; cbn [sdata spart]; [apply Forall_snoc; auto|]. intros z Hz; inversion Hz; subst; auto.
          -- apply shape_intro; [lra|auto|]. split; [discriminate|]. intro H; exfalso; apply Hb; exact H.
          -- split; cbn [sdata spart]; [apply Forall_snoc; auto|]. intros z Hz; inversion Hz; subst; auto.
  Qed.
End Sample.

(* ---------- the sketch ---------- *)
Definition is_min (r a b : Q) : Prop := r <= a /\ r <= b /\ (r == a \/ r == b).

Lemma nmin_is_min a b : is_min (nmin QOps a b) a b.
Proof.
  unfold nmin, is_min; qs. destruct (qleb_spec a b); cbn [negb]; splits; try lra;
    first [left; reflexivity | right; reflexivity].
Qed.

Lemma nmax_spec a b : a <= nmax QOps a b /\ b <= nmax QOps a b /\ (nmax QOps a b = a \/ nmax QOps a b = b).
Proof.
  unfold nmax; qs. destruct (qleb_spec b a); cbn [negb]; splits; try lra; auto.
Qed.

Section Sketch.
  Variable Item : Type.
  Variable P : Item -> Prop.
  Notation qsketch := (sketch QOps Item).

  Lemma shape_ok_true sm : Shape Item sm -> shape_ok QOps Item sm = true.
  Proof.
    intros (H0 & Hl & Hp). unfold shape_ok. qs. rewrite Qfloor_Z, Hl, Nat.eqb_refl. cbn [andb].
    destruct (qeqb_spec (sc sm - inject_Z (Qfloor (sc sm))) 0) as [E|E]; cbn [negb].
    - assert (H : spart sm = None) by (apply Hp; unfold fl; lra). now rewrite H.
    - destruct (spart sm) eqn:Ep; auto. exfalso. apply E.
      assert (H : sc sm == fl (sc sm)) by now apply Hp. unfold fl in *; lra.
  Qed.

  Lemma feed_spec k wm it dw th cw rho sm s cw' rho' sm' s' :
    feed QOps Item k wm it dw th (cw, rho, sm) s = ((cw', rho', sm'), s') ->
    let nr := nmin QOps (1 / wm) (inject_Z k / (cw + dw)) in
    0 <= cw -> 0 < dw -> 0 < rho -> 0 < nr -> (0 < cw -> nr <= rho) ->
    th nr == nr * dw -> nr * dw <= 1 ->
    sc sm == rho * cw -> Shape Item sm -> AllP Item P sm -> P it -> cs_ok s ->
    cw' = cw + dw /\ rho' = nr /\ sc sm' == nr * (cw + dw) /\ Shape Item sm' /\ AllP Item P sm' /\ cs_ok s'.
  Proof.
    intros E nr Hcw Hdw Hrho Hnr Hle Hth Hth1 Hc Hsh HP Hit Hs.
    unfold feed in E. qs. fold nr in E.
    destruct (if negb (Qle_bool cw 0) then downsample QOps Item (nr / rho) sm s else (sm, s)) as [sm1 s1] eqn:Ed.
    assert (D : Shape Item sm1 /\ AllP Item P sm1 /\ cs_ok s1 /\ sc sm1 == nr * cw).
    { destruct (qleb_spec cw 0) as [Hz|Hpos]; cbn [negb] in Ed.
      - inversion Ed; subst sm1 s1. splits; auto. nra.
      - apply downsample_spec with (P := P) in Ed; auto.
        + destruct Ed as (A & B & C & D1 & D2). splits; auto.
          destruct (Qlt_le_dec (nr / rho) 1) as [Hlt|Hge].
          * rewrite (D1 Hlt), Hc. field. lra.
          * rewrite (D2 Hge). apply div_le_r in Hge; auto. specialize (Hle Hpos). rewrite Hc. nra.
        + apply Qlt_shift_div_l; lra.
        + rewrite Hc. nra. }
    destruct D as (Sh1 & P1 & Hs1 & Hc1).
    rewrite (shape_ok_true sm Hsh), (shape_ok_true sm1 Sh1) in E. cbn [andb negb] in E.
    rewrite note_site_false in E.
    destruct (smerge QOps Item sm1 (replace_content QOps Item it (th nr)) s1) as [sm2 s2] eqn:Em.
    apply smerge_spec with (P := P) in Em; auto.
    - destruct Em as (Sh2 & P2 & Hs2 & Hc2).
      rewrite (shape_ok_true sm2 Sh2) in E. cbn [andb negb] in E. rewrite note_site_false in E.
      inversion E; subst. splits; auto. rewrite Hc2, Hc1, Hth. ring.
    - rewrite Hth. nra.
    - rewrite Hth. exact Hth1.
  Qed.
End Sketch.
