(* EbppsCodecProofs.v — the EBPPS sketch image (EbppsCodecDefs.v): well-formed content, layout of the image, round trips
   through both readers, advertised size, rejection of strict prefixes, bounds on what the readers accept from
   arbitrary bytes.  Reuses the little-endian / rd lemmas of ThetaCodecProofs2.v. *)
From Coq Require Import NArith ZArith List Bool Arith Lia.
From DS Require Import Word RunnerLib ThetaCodecDefs ThetaCodecProofs ThetaCodecProofs2 EbppsCodecDefs.
Import ListNotations.
Local Open Scope N_scope.

Definition lt64 (e : N) : Prop := e < two64.

(* what the sample of a non-empty sketch looks like: C is a non-negative finite double below 2^32 and not zero, there are
   floor(C) full items, and a partial item iff C has a fractional part (this is C18_shape at the bit level) *)
Definition wf_sample (c : N) (data : list N) (p : option N) : Prop :=
  c < two64 /\ c_negative c = false /\ c_below_2_32 c = true /\ c_is_zero c = false /\
  Forall lt64 data /\ length data = N.to_nat (c_floor c) /\
  match p with Some x => x < two64 /\ c_has_frac c = true | None => c_has_frac c = false end.

(* every sketch the C++ can hold: k in 1..MAX_K; an empty sketch is exactly ebpps_sketch(k); a non-empty one has 64-bit
   patterns in every field and a well-formed sample *)
Definition wf (s : esk) : Prop :=
  1 <= e_k s /\ e_k s <= MAX_K /\
  if sk_empty s then s = empty_sk (e_k s)
  else e_n s < two64 /\ e_cw s < two64 /\ e_wmax s < two64 /\ e_rho s < two64 /\
       wf_sample (e_c s) (e_data s) (e_part s).

(* the bit-level reading of C is never unfolded in this file *)
Global Opaque c_floor c_has_frac c_negative c_below_2_32 c_is_zero.

(* ---------- generic byte lemmas ---------- *)
Lemma rd_skip n (a l : list N) off : rd n (length a + off) (a ++ l) = rd n off l.
Proof.
  unfold rd. rewrite app_length.
  destruct (Nat.leb_spec (length a + off + n) (length a + length l)) as [H|H];
    destruct (Nat.leb_spec (off + n) (length l)) as [H'|H']; try lia; auto.
  f_equal. f_equal. rewrite skipn_app, skipn_all2 by lia. cbn [app].
  replace (length a + off - length a)%nat with off by lia. reflexivity.
Qed.

Lemma rd_flat i : forall longs rest v, Forall lt64 longs -> nth_error longs i = Some v ->
  rd 8 (8 * i) (flat_map u64 longs ++ rest) = Some v.
Proof.
  induction i as [|i IH]; intros [|e r] rest v HF Hn; try discriminate; inversion HF; subst; cbn [flat_map nth_error] in *.
  - injection Hn as <-. rewrite <- app_assoc.
    rewrite (rd_app 8 0 [] (u64 e) _ eq_refl (N_to_le_bytes_length _ _) : rd 8 0 (u64 e ++ _) = _).
    now rewrite u64_rt.
  - rewrite <- app_assoc. replace (8 * S i)%nat with (length (u64 e) + 8 * i)%nat
      by (unfold u64; rewrite N_to_le_bytes_length; lia).
    rewrite rd_skip. now apply IH.
Qed.

Lemma opt_list_flat_length p : length (flat_map u64 (opt_list p)) = match p with Some _ => 8%nat | None => 0%nat end.
Proof. destruct p; reflexivity. Qed.

Lemma Forall_opt p : match p with Some x => x < two64 | None => True end -> Forall lt64 (opt_list p).
Proof. destruct p; cbn; auto. Qed.

(* ---------- the first preamble long ---------- *)
Lemma head_rd a b c d k tl : a < 256 -> b < 256 -> c < 256 -> d < 256 -> k < two32 ->
  let img := [a; b; c; d] ++ u32 k ++ tl in
  rd 1 0 img = Some a /\ rd 1 1 img = Some b /\ rd 1 2 img = Some c /\ rd 1 3 img = Some d /\ rd 4 4 img = Some k /\
  skipn 8 img = tl /\ (8 <= length img)%nat.
Proof.
  intros Ha Hb Hc Hd Hk img. subst img.
  refine (conj _ (conj _ (conj _ (conj _ (conj _ (conj _ _)))))).
  7: { rewrite !app_length. unfold u32. rewrite N_to_le_bytes_length. cbn [length]. lia. }
  6: { apply (skipn_app2 8 [a; b; c; d] (u32 k)). unfold u32. rewrite N_to_le_bytes_length. reflexivity. }
  all: cbn [app].
  - eapply (rd_at 1 0 _ [] [_]); try reflexivity. now apply le1.
  - eapply (rd_at 1 1 _ [_] [_]); try reflexivity. now apply le1.
  - eapply (rd_at 1 2 _ [_; _] [_]); try reflexivity. now apply le1.
  - eapply (rd_at 1 3 _ [_; _; _] [_]); try reflexivity. now apply le1.
  - eapply (rd_at 4 4 _ [_; _; _; _] (u32 k)); try reflexivity. now apply u32_rt.
Qed.

Lemma wf_k32 s : wf s -> e_k s < two32.
Proof. intros (_ & H & _). unfold MAX_K, two32 in *. lia. Qed.

Lemma wf_header_ok_nonempty s fl : wf s -> fl = 0 \/ fl = 8 -> header_ok 5 1 19 fl (e_k s) = true.
Proof.
  intros (H1 & H2 & _) Hfl. unfold header_ok.
  assert (E1 : (e_k s =? 0) = false) by (apply N.eqb_neq; lia).
  assert (E2 : (e_k s <=? MAX_K) = true) by (now apply N.leb_le).
  rewrite E1, E2. destruct Hfl as [-> | ->]; reflexivity.
Qed.

Lemma wf_header_ok_empty s : wf s -> header_ok 1 1 19 4 (e_k s) = true.
Proof.
  intros (H1 & H2 & _). unfold header_ok.
  assert (E1 : (e_k s =? 0) = false) by (apply N.eqb_neq; lia).
  assert (E2 : (e_k s <=? MAX_K) = true) by (now apply N.leb_le).
  now rewrite E1, E2.
Qed.

Lemma flags_nonempty s : sk_empty s = false ->
  (sk_flags s = 0 \/ sk_flags s = 8) /\ N.testbit (sk_flags s) 2 = false /\
  N.testbit (sk_flags s) 3 = match e_part s with Some _ => true | None => false end.
Proof. intros E. unfold sk_flags. rewrite E. destruct (e_part s); cbn; auto. Qed.

(* ---------- the sample ---------- *)
Definition sample_bytes (c : N) (data : list N) (p : option N) : list N :=
  flat_map u64 ([c] ++ data ++ opt_list p).

Definition sample_need (c : N) : N := 8 + 8 * c_floor c + (if c_has_frac c then 8 else 0).

Lemma sample_bytes_length c data p : wf_sample c data p ->
  N.of_nat (length (sample_bytes c data p)) = sample_need c.
Proof.
  intros (_ & _ & _ & _ & _ & Hl & Hp). unfold sample_bytes, sample_need.
  rewrite flat_u64_length, !app_length. cbn [length]. rewrite Hl.
  destruct p as [x|]; [destruct Hp as [_ ->] | rewrite Hp]; cbn [opt_list length]; lia.
Qed.

Lemma dec_sample_rt c data p rest : wf_sample c data p ->
  dec_sample (match p with Some _ => true | None => false end) (sample_bytes c data p ++ rest) =
  Some (c, data, p, length (sample_bytes c data p)).
Proof.
  intros W. pose proof (sample_bytes_length _ _ _ W) as HL.
  destruct W as (Hc & Hn & Hb & Hz & Hd & Hl & Hp).
  unfold dec_sample, sample_bytes in *. cbn [app flat_map] in *. rewrite <- !app_assoc in *.
  rewrite (rd_app 8 0 [] (u64 c) _ eq_refl (N_to_le_bytes_length _ _) : rd 8 0 (u64 c ++ _) = _).
  rewrite u64_rt by assumption. cbn [bind]. rewrite Hn, Hb, Hz. cbn [negb].
  assert (Hlen : (N.of_nat (length (u64 c ++ flat_map u64 (data ++ opt_list p) ++ rest)) <? 8 + 8 * c_floor c) = false).
  { apply N.ltb_ge. rewrite !app_length, flat_u64_length, app_length. unfold u64. rewrite N_to_le_bytes_length. lia. }
  rewrite Hlen. rewrite skipn_app_exact by apply N_to_le_bytes_length.
  rewrite flat_map_app, <- app_assoc. rewrite <- Hl, rd_entries_flat by assumption. cbn [bind].
  destruct p as [x|].
  - destruct Hp as [Hx Hf]. rewrite Hf. cbn [opt_list flat_map]. rewrite !app_nil_r.
    rewrite (app_assoc (u64 c) (flat_map u64 data) (u64 x ++ rest)).
    rewrite (rd_app 8 (8 + 8 * length data) (u64 c ++ flat_map u64 data) (u64 x) rest).
    + rewrite u64_rt by assumption. cbn [bind]. f_equal. f_equal.
      rewrite !app_length, flat_u64_length. unfold u64. rewrite !N_to_le_bytes_length. lia.
    + rewrite app_length, flat_u64_length. unfold u64. rewrite N_to_le_bytes_length. lia.
    + apply N_to_le_bytes_length.
  - rewrite Hp. cbn [opt_list flat_map]. f_equal. f_equal.
    rewrite app_nil_r, app_length, flat_u64_length. unfold u64. rewrite N_to_le_bytes_length. lia.
Qed.

(* ARBITRARY bytes: what the sample reader accepts lies inside the bytes it was given *)
Lemma dec_sample_bounded flp b c data p used : dec_sample flp b = Some (c, data, p, used) ->
  rd 8 0 b = Some c /\ c_negative c = false /\ c_below_2_32 c = true /\
  length data = N.to_nat (c_floor c) /\
  used = (8 + 8 * length data + match p with Some _ => 8 | None => 0 end)%nat /\ (used <= length b)%nat /\
  (match p with Some _ => c_has_frac c = true /\ flp = true | None => c_has_frac c = false /\ flp = false end).
Proof.
  unfold dec_sample. destruct (rd 8 0 b) as [c0|] eqn:Ec; [|discriminate]. cbn [bind].
  destruct (c_negative c0) eqn:En; [discriminate|].
  destruct (c_below_2_32 c0) eqn:Eb; [|discriminate]. cbn [negb].
  destruct (c_is_zero c0) eqn:Ez; [discriminate|].
  destruct (N.ltb_spec (N.of_nat (length b)) (8 + 8 * c_floor c0)) as [|Hlen]; [discriminate|].
  destruct (rd_entries (N.to_nat (c_floor c0)) (skipn 8 b)) as [d|] eqn:Ed; [|discriminate]. cbn [bind].
  apply rd_entries_some in Ed. destruct Ed as [Hld _].
  destruct (c_has_frac c0) eqn:Ef.
  - destruct (rd 8 (8 + 8 * N.to_nat (c_floor c0)) b) as [x|] eqn:Ex; [|discriminate]. cbn [bind].
    destruct flp; [|discriminate]. intros H; injection H as <- <- <- <-.
    apply rd_some_len in Ex. repeat split; auto; lia.
  - destruct flp; [discriminate|]. intros H; injection H as <- <- <- <-.
    repeat split; auto; lia.
Qed.

(* ARBITRARY bytes: fewer bytes than C announces are rejected *)
Lemma dec_sample_short flp b : (forall c, rd 8 0 b = Some c -> N.of_nat (length b) < sample_need c) ->
  dec_sample flp b = None.
Proof.
  intros H. destruct (dec_sample flp b) as [[[[c data] p] used]|] eqn:E; [|reflexivity]. exfalso.
  apply dec_sample_bounded in E. destruct E as (Ec & _ & _ & Hl & Hu & Hub & Hp).
  specialize (H c Ec). unfold sample_need in H.
  destruct p as [x|]; destruct Hp as [Hf _]; rewrite Hf in H; lia.
Qed.

(* ---------- the image of a non-empty sketch ---------- *)
Definition longs (s : esk) : list N := [e_n s; e_cw s; e_wmax s; e_rho s].

Lemma enc_nonempty s : sk_empty s = false ->
  enc s = [5; 1; 19; sk_flags s] ++ u32 (e_k s) ++ flat_map u64 (longs s) ++ sample_bytes (e_c s) (e_data s) (e_part s).
Proof.
  intros E. unfold enc, longs, sample_bytes. rewrite E.
  change ([e_n s; e_cw s; e_wmax s; e_rho s; e_c s] ++ e_data s ++ opt_list (e_part s))
    with ([e_n s; e_cw s; e_wmax s; e_rho s] ++ ([e_c s] ++ e_data s ++ opt_list (e_part s))).
  now rewrite flat_map_app.
Qed.

Lemma enc_empty s : sk_empty s = true -> enc s = [1; 1; 19; 4] ++ u32 (e_k s).
Proof. intros E. unfold enc. now rewrite E. Qed.

Lemma longs_lt s : wf s -> sk_empty s = false -> Forall lt64 (longs s).
Proof.
  intros (_ & _ & H) E. rewrite E in H. destruct H as (A & B & C & D & _). unfold longs. repeat constructor; auto.
Qed.

Lemma wf_sample_of s : wf s -> sk_empty s = false -> wf_sample (e_c s) (e_data s) (e_part s).
Proof. intros (_ & _ & H) E. rewrite E in H. apply H. Qed.

Lemma esk_eta s : {| e_k := e_k s; e_n := e_n s; e_cw := e_cw s; e_wmax := e_wmax s; e_rho := e_rho s; e_c := e_c s;
                     e_data := e_data s; e_part := e_part s |} = s.
Proof. destruct s; reflexivity. Qed.

(* the fixed-size part of a non-empty image, read from [enc s ++ rest] or from any prefix of it that contains it *)
Lemma nonempty_fields s tl : wf s -> sk_empty s = false ->
  let img := [5; 1; 19; sk_flags s] ++ u32 (e_k s) ++ flat_map u64 (longs s) ++ tl in
  rd 1 0 img = Some 5 /\ rd 1 1 img = Some 1 /\ rd 1 2 img = Some 19 /\ rd 1 3 img = Some (sk_flags s) /\
  rd 4 4 img = Some (e_k s) /\
  rd 8 8 img = Some (e_n s) /\ rd 8 16 img = Some (e_cw s) /\ rd 8 24 img = Some (e_wmax s) /\ rd 8 32 img = Some (e_rho s) /\
  skipn 40 img = tl /\ (40 <= length img)%nat.
Proof.
  intros W E img. subst img.
  destruct (flags_nonempty s E) as (Hfl & _ & _).
  assert (Hf256 : sk_flags s < 256) by (destruct Hfl as [-> | ->]; reflexivity).
  destruct (head_rd 5 1 19 (sk_flags s) (e_k s) (flat_map u64 (longs s) ++ tl)) as (A & B & C & D & K & S8 & L8);
    try reflexivity; auto using wf_k32.
  pose proof (longs_lt s W E) as HF.
  set (hd := [5; 1; 19; sk_flags s] ++ u32 (e_k s)).
  assert (H8 : length hd = 8%nat)
    by (unfold hd; rewrite app_length; unfold u32; rewrite N_to_le_bytes_length; reflexivity).
  assert (Himg : [5; 1; 19; sk_flags s] ++ u32 (e_k s) ++ flat_map u64 (longs s) ++ tl = hd ++ flat_map u64 (longs s) ++ tl)
    by (unfold hd; now rewrite <- app_assoc).
  assert (R : forall i v, nth_error (longs s) i = Some v ->
            rd 8 (8 + 8 * i) ([5; 1; 19; sk_flags s] ++ u32 (e_k s) ++ flat_map u64 (longs s) ++ tl) = Some v).
  { intros i v Hn. rewrite Himg.
    replace (8 + 8 * i)%nat with (length hd + 8 * i)%nat by (rewrite H8; reflexivity).
    rewrite rd_skip. now apply rd_flat. }
  split; [exact A|]. split; [exact B|]. split; [exact C|]. split; [exact D|]. split; [exact K|].
  split; [apply (R 0%nat); reflexivity|]. split; [apply (R 1%nat); reflexivity|].
  split; [apply (R 2%nat); reflexivity|]. split; [apply (R 3%nat); reflexivity|].
  split.
  - rewrite Himg, app_assoc. apply skipn_app_exact.
    rewrite app_length, H8, flat_u64_length. reflexivity.
  - rewrite !app_length, flat_u64_length. unfold u32. rewrite N_to_le_bytes_length. cbn [length longs]. lia.
Qed.

(* ---------- round trips ---------- *)
Theorem roundtrip_bytes s : wf s -> forall rest, dec_bytes (enc s ++ rest) = Some s.
Proof.
  intros W rest. destruct (sk_empty s) eqn:E.
  - rewrite (enc_empty s E), <- app_assoc.
    destruct (head_rd 1 1 19 4 (e_k s) rest) as (A & B & C & D & K & S8 & L8); try reflexivity; auto using wf_k32.
    unfold dec_bytes. destruct (Nat.ltb_spec (length ([1; 1; 19; 4] ++ u32 (e_k s) ++ rest)) 8) as [|_]; [lia|].
    rewrite A, B, C, D, K. cbn [bind]. rewrite (wf_header_ok_empty s W). cbn [negb].
    destruct (Nat.ltb_spec (length ([1; 1; 19; 4] ++ u32 (e_k s) ++ rest)) (8 * N.to_nat 1)) as [H|_]; [cbn in H; lia|].
    cbn [N.testbit]. destruct W as (_ & _ & H). rewrite E in H. now rewrite <- H.
  - rewrite (enc_nonempty s E), <- !app_assoc.
    pose proof (wf_sample_of s W E) as WS.
    destruct (nonempty_fields s (sample_bytes (e_c s) (e_data s) (e_part s) ++ rest) W E)
      as (A & B & C & D & K & N8 & N16 & N24 & N32 & S40 & L40).
    destruct (flags_nonempty s E) as (Hfl & Hb2 & Hb3).
    unfold dec_bytes.
    match goal with |- context [(length ?l <? 8)%nat] => destruct (Nat.ltb_spec (length l) 8) as [|_]; [lia|] end.
    rewrite A, B, C, D, K. cbn [bind]. rewrite (wf_header_ok_nonempty s _ W Hfl). cbn [negb].
    match goal with |- context [(length ?l <? 8 * N.to_nat 5)%nat] =>
      destruct (Nat.ltb_spec (length l) (8 * N.to_nat 5)) as [H|_]; [cbn in H; lia|] end.
    rewrite Hb2, N8, N16, N24, N32. cbn [bind]. rewrite S40, Hb3, (dec_sample_rt _ _ _ rest WS). cbn [bind mk].
    now rewrite esk_eta.
Qed.

Theorem roundtrip_stream s : wf s -> forall rest, dec_stream (enc s ++ rest) = Some (s, length (enc s)).
Proof.
  intros W rest. destruct (sk_empty s) eqn:E.
  - rewrite (enc_empty s E), <- app_assoc.
    destruct (head_rd 1 1 19 4 (e_k s) rest) as (A & B & C & D & K & S8 & L8); try reflexivity; auto using wf_k32.
    unfold dec_stream. rewrite A, B, C, D, K. cbn [bind]. rewrite (wf_header_ok_empty s W). cbn [negb N.testbit].
    destruct W as (_ & _ & H). rewrite E in H. rewrite <- H. f_equal. f_equal.
    rewrite app_length. unfold u32. rewrite N_to_le_bytes_length. reflexivity.
  - rewrite (enc_nonempty s E), <- !app_assoc.
    pose proof (wf_sample_of s W E) as WS.
    destruct (nonempty_fields s (sample_bytes (e_c s) (e_data s) (e_part s) ++ rest) W E)
      as (A & B & C & D & K & N8 & N16 & N24 & N32 & S40 & L40).
    destruct (flags_nonempty s E) as (Hfl & Hb2 & Hb3).
    unfold dec_stream. rewrite A, B, C, D, K. cbn [bind]. rewrite (wf_header_ok_nonempty s _ W Hfl). cbn [negb].
    rewrite Hb2, N8, N16, N24, N32. cbn [bind]. rewrite S40, Hb3, (dec_sample_rt _ _ _ rest WS). cbn [bind mk snd].
    rewrite esk_eta. f_equal.
Qed.

(* ---------- the advertised size ---------- *)
Theorem enc_size s : wf s -> N.of_nat (length (enc s)) = serialized_size s.
Proof.
  intros W. unfold serialized_size. destruct (sk_empty s) eqn:E.
  - rewrite (enc_empty s E), app_length. unfold u32. rewrite N_to_le_bytes_length. reflexivity.
  - pose proof (wf_sample_of s W E) as WS. pose proof (sample_bytes_length _ _ _ WS) as HL.
    destruct WS as (_ & _ & _ & Hz & _ & Hl & Hp). rewrite Hz.
    rewrite (enc_nonempty s E), !app_length, flat_u64_length. unfold u32. rewrite N_to_le_bytes_length.
    cbn [length longs]. unfold sample_need in HL. rewrite Hl.
    destruct (e_part s) as [x|]; [destruct Hp as [_ Hf] | rename Hp into Hf]; rewrite Hf in HL; lia.
Qed.

Theorem enc_hdr_form h s : firstn h (enc_hdr h s) = repeat 0 h /\ skipn h (enc_hdr h s) = enc s /\
  length (enc_hdr h s) = (h + length (enc s))%nat.
Proof.
  unfold enc_hdr. repeat split.
  - apply firstn_app_exact, repeat_length.
  - apply skipn_app_exact, repeat_length.
  - now rewrite app_length, repeat_length.
Qed.

(* ---------- strict prefixes ---------- *)
Lemma firstn_firstn_app {A} n (a b : list A) : (length a <= n)%nat -> firstn n (a ++ b) = a ++ firstn (n - length a) b.
Proof. intros H. rewrite firstn_app, firstn_all2 by assumption. reflexivity. Qed.

Theorem prefix_bytes s n : wf s -> (n < length (enc s))%nat -> dec_bytes (firstn n (enc s)) = None.
Proof.
  intros W Hn. unfold dec_bytes.
  destruct (Nat.ltb_spec (length (firstn n (enc s))) 8) as [|H8]; [reflexivity|].
  rewrite firstn_length in H8.
  destruct (sk_empty s) eqn:E.
  - exfalso. rewrite (enc_empty s E), app_length in *. unfold u32 in *. rewrite N_to_le_bytes_length in *. cbn [length] in *. lia.
  - pose proof (wf_sample_of s W E) as WS. pose proof (sample_bytes_length _ _ _ WS) as HL.
    destruct (flags_nonempty s E) as (Hfl & Hb2 & Hb3).
    rewrite (enc_nonempty s E) in *.
    set (S := sample_bytes (e_c s) (e_data s) (e_part s)) in *.
    destruct (nonempty_fields s S W E) as (A & B & C & D & K & N8 & N16 & N24 & N32 & S40 & L40).
    set (img := [5; 1; 19; sk_flags s] ++ u32 (e_k s) ++ flat_map u64 (longs s) ++ S) in *.
    assert (Hn8 : (8 <= n)%nat) by lia.
    rewrite !rd_firstn by lia. rewrite A, B, C, D, K. cbn [bind].
    rewrite (wf_header_ok_nonempty s _ W Hfl). cbn [negb].
    destruct (Nat.ltb_spec (length (firstn n img)) (8 * N.to_nat 5)) as [|H40]; [reflexivity|].
    rewrite firstn_length in H40. cbn in H40.
    rewrite Hb2. rewrite !rd_firstn by lia. rewrite N8, N16, N24, N32. cbn [bind].
    rewrite dec_sample_short; [reflexivity|].
    intros c Hc.
    assert (Hsk : skipn 40 (firstn n img) = firstn (n - 40) S).
    { rewrite <- S40. rewrite skipn_firstn_comm. reflexivity. }
    rewrite Hsk in *.
    assert (HlenS : length img = (40 + length S)%nat).
    { unfold img. rewrite !app_length, flat_u64_length. unfold u32. rewrite N_to_le_bytes_length. cbn [length longs]. lia. }
    assert (Hm : (n - 40 < length S)%nat) by lia.
    rewrite firstn_length, Nat.min_l by lia.
    assert (c = e_c s).
    { apply rd_some_len in Hc as Hc'. rewrite firstn_length in Hc'.
      rewrite rd_firstn in Hc by lia.
      unfold S, sample_bytes in Hc. cbn [app flat_map] in Hc.
      rewrite (rd_app 8 0 [] (u64 (e_c s)) _ eq_refl (N_to_le_bytes_length _ _) : rd 8 0 (u64 (e_c s) ++ _) = _) in Hc.
      destruct WS as (Hc64 & _). rewrite u64_rt in Hc by assumption. now injection Hc as <-. }
    subst c. lia.
Qed.

Lemma bind_none_r {A B} (o : option A) : bind o (fun _ : A => @None B) = None.
Proof. destruct o; reflexivity. Qed.

Theorem prefix_stream s n : wf s -> (n < length (enc s))%nat -> dec_stream (firstn n (enc s)) = None.
Proof.
  intros W Hn. unfold dec_stream.
  destruct (Nat.ltb_spec n 8) as [H8|H8].
  { assert (R : rd 4 4 (firstn n (enc s)) = None) by (apply rd_short; rewrite firstn_length; lia).
    rewrite R. cbn [bind].
    repeat (match goal with |- context [bind (rd ?a ?b ?c) _] => destruct (rd a b c) end; cbn [bind]); auto. }
  destruct (sk_empty s) eqn:E.
  - exfalso. rewrite (enc_empty s E), app_length in *. unfold u32 in *. rewrite N_to_le_bytes_length in *. cbn [length] in *. lia.
  - pose proof (wf_sample_of s W E) as WS. pose proof (sample_bytes_length _ _ _ WS) as HL.
    destruct (flags_nonempty s E) as (Hfl & Hb2 & Hb3).
    rewrite (enc_nonempty s E) in *.
    set (S := sample_bytes (e_c s) (e_data s) (e_part s)) in *.
    destruct (nonempty_fields s S W E) as (A & B & C & D & K & N8 & N16 & N24 & N32 & S40 & L40).
    set (img := [5; 1; 19; sk_flags s] ++ u32 (e_k s) ++ flat_map u64 (longs s) ++ S) in *.
    rewrite !(rd_firstn 1) by lia. rewrite (rd_firstn 4) by lia. rewrite A, B, C, D, K. cbn [bind].
    rewrite (wf_header_ok_nonempty s _ W Hfl). cbn [negb]. rewrite Hb2.
    destruct (Nat.ltb_spec n 40) as [H40|H40].
    { assert (R : rd 8 32 (firstn n img) = None) by (apply rd_short; rewrite firstn_length; lia).
      rewrite R.
      repeat (match goal with |- context [bind (rd ?a ?b ?c) _] => destruct (rd a b c) end; cbn [bind]); auto. }
    rewrite !(rd_firstn 8) by lia. rewrite N8, N16, N24, N32. cbn [bind].
    rewrite dec_sample_short; [reflexivity|].
    intros c Hc.
    assert (Hsk : skipn 40 (firstn n img) = firstn (n - 40) S).
    { rewrite <- S40. rewrite skipn_firstn_comm. reflexivity. }
    rewrite Hsk in *.
    assert (HlenS : length img = (40 + length S)%nat).
    { unfold img. rewrite !app_length, flat_u64_length. unfold u32. rewrite N_to_le_bytes_length. cbn [length longs]. lia. }
    assert (Hm : (n - 40 < length S)%nat) by lia.
    rewrite firstn_length, Nat.min_l by lia.
    assert (c = e_c s).
    { apply rd_some_len in Hc as Hc'. rewrite firstn_length in Hc'.
      rewrite rd_firstn in Hc by lia.
      unfold S, sample_bytes in Hc. cbn [app flat_map] in Hc.
      rewrite (rd_app 8 0 [] (u64 (e_c s)) _ eq_refl (N_to_le_bytes_length _ _) : rd 8 0 (u64 (e_c s) ++ _) = _) in Hc.
      destruct WS as (Hc64 & _). rewrite u64_rt in Hc by assumption. now injection Hc as <-. }
    subst c. lia.
Qed.

(* ---------- ARBITRARY bytes: what is accepted is bounded by what was given ---------- *)
Definition content_bytes (s : esk) : nat :=
  (48 + 8 * length (e_data s) + match e_part s with Some _ => 8 | None => 0 end)%nat.

Theorem bytes_accept_bounded bytes s : dec_bytes bytes = Some s ->
  (1 <= e_k s /\ e_k s <= MAX_K) /\ (8 <= length bytes)%nat /\
  (s = empty_sk (e_k s) \/
   ((content_bytes s <= length bytes)%nat /\ length (e_data s) = N.to_nat (c_floor (e_c s)) /\
    c_negative (e_c s) = false /\ c_below_2_32 (e_c s) = true /\
    (match e_part s with Some _ => c_has_frac (e_c s) = true | None => c_has_frac (e_c s) = false end))).
Proof.
  unfold dec_bytes. destruct (Nat.ltb_spec (length bytes) 8) as [|H8]; [discriminate|].
  destruct (rd 1 0 bytes) as [pre|]; [|discriminate]. destruct (rd 1 1 bytes) as [ver|]; [|discriminate].
  destruct (rd 1 2 bytes) as [fam|]; [|discriminate]. destruct (rd 1 3 bytes) as [fl|]; [|discriminate].
  destruct (rd 4 4 bytes) as [k|]; [|discriminate]. cbn [bind].
  destruct (header_ok pre ver fam fl k) eqn:Hh; [|discriminate]. cbn [negb].
  assert (Hk : 1 <= k /\ k <= MAX_K).
  { unfold header_ok in Hh. rewrite !andb_true_iff in Hh. destruct Hh as ((((Hk0 & Hk1) & _) & _) & _).
    apply negb_true_iff, N.eqb_neq in Hk0. apply N.leb_le in Hk1. lia. }
  destruct (Nat.ltb_spec (length bytes) (8 * N.to_nat pre)) as [|Hpre]; [discriminate|].
  destruct (N.testbit fl 2).
  - intros H; injection H as <-. cbn [e_k empty_sk]. repeat split; auto; lia.
  - destruct (rd 8 8 bytes) as [n|]; [|discriminate]. destruct (rd 8 16 bytes) as [cw|]; [|discriminate].
    destruct (rd 8 24 bytes) as [wm|]; [|discriminate]. destruct (rd 8 32 bytes) as [rho|] eqn:E32; [|discriminate].
    cbn [bind]. destruct (dec_sample (N.testbit fl 3) (skipn 40 bytes)) as [[[[c data] p] used]|] eqn:Es; [|discriminate].
    cbn [bind mk]. intros H; injection H as <-. cbn [e_k e_data e_part e_c].
    apply dec_sample_bounded in Es. destruct Es as (_ & Hng & Hb & Hl & Hu & Hub & Hp).
    apply rd_some_len in E32. rewrite skipn_length in Hub.
    split; [lia|]. split; [lia|]. right. unfold content_bytes. cbn [e_data e_part].
    repeat split; auto; try lia. destruct p; apply Hp.
Qed.

Theorem stream_accept_bounded bytes s used : dec_stream bytes = Some (s, used) ->
  (1 <= e_k s /\ e_k s <= MAX_K) /\ (used <= length bytes)%nat /\
  ((s = empty_sk (e_k s) /\ used = 8%nat) \/
   (used = content_bytes s /\ length (e_data s) = N.to_nat (c_floor (e_c s)) /\
    c_negative (e_c s) = false /\ c_below_2_32 (e_c s) = true /\
    (match e_part s with Some _ => c_has_frac (e_c s) = true | None => c_has_frac (e_c s) = false end))).
Proof.
  unfold dec_stream.
  destruct (rd 1 0 bytes) as [pre|]; [|discriminate]. destruct (rd 1 1 bytes) as [ver|]; [|discriminate].
  destruct (rd 1 2 bytes) as [fam|]; [|discriminate]. destruct (rd 1 3 bytes) as [fl|]; [|discriminate].
  destruct (rd 4 4 bytes) as [k|] eqn:E4; [|discriminate]. cbn [bind].
  destruct (header_ok pre ver fam fl k) eqn:Hh; [|discriminate]. cbn [negb].
  assert (Hk : 1 <= k /\ k <= MAX_K).
  { unfold header_ok in Hh. rewrite !andb_true_iff in Hh. destruct Hh as ((((Hk0 & Hk1) & _) & _) & _).
    apply negb_true_iff, N.eqb_neq in Hk0. apply N.leb_le in Hk1. lia. }
  apply rd_some_len in E4.
  destruct (N.testbit fl 2).
  - intros H; injection H as <- <-. cbn [e_k empty_sk]. repeat split; auto; lia.
  - destruct (rd 8 8 bytes) as [n|]; [|discriminate]. destruct (rd 8 16 bytes) as [cw|]; [|discriminate].
    destruct (rd 8 24 bytes) as [wm|]; [|discriminate]. destruct (rd 8 32 bytes) as [rho|] eqn:E32; [|discriminate].
    cbn [bind]. destruct (dec_sample (N.testbit fl 3) (skipn 40 bytes)) as [[[[c data] p] u]|] eqn:Es; [|discriminate].
    cbn [bind mk snd]. intros H; injection H as <- <-. cbn [e_k e_data e_part e_c].
    apply dec_sample_bounded in Es. destruct Es as (_ & Hng & Hb & Hl & Hu & Hub & Hp).
    apply rd_some_len in E32. rewrite skipn_length in Hub.
    split; [lia|]. split; [lia|]. right. unfold content_bytes. cbn [e_data e_part].
    repeat split; auto; try lia. destruct p; apply Hp.
Qed.

(* ---------- the documented layout ---------- *)
Theorem layout_first_long s rest : wf s ->
  let img := enc s ++ rest in
  rd 1 0 img = Some (if sk_empty s then 1 else 5) /\ rd 1 1 img = Some 1 /\ rd 1 2 img = Some 19 /\
  rd 1 3 img = Some (sk_flags s) /\ rd 4 4 img = Some (e_k s).
Proof.
  intros W img. subst img. destruct (sk_empty s) eqn:E.
  - rewrite (enc_empty s E), <- app_assoc.
    destruct (head_rd 1 1 19 4 (e_k s) rest) as (A & B & C & D & K & _); try reflexivity; auto using wf_k32.
    unfold sk_flags. rewrite E. auto.
  - rewrite (enc_nonempty s E), <- !app_assoc.
    destruct (nonempty_fields s (sample_bytes (e_c s) (e_data s) (e_part s) ++ rest) W E) as (A & B & C & D & K & _).
    auto.
Qed.

Theorem layout_nonempty s rest : wf s -> sk_empty s = false ->
  let img := enc s ++ rest in
  rd 8 8 img = Some (e_n s) /\ rd 8 16 img = Some (e_cw s) /\ rd 8 24 img = Some (e_wmax s) /\ rd 8 32 img = Some (e_rho s) /\
  rd 8 40 img = Some (e_c s) /\
  (forall i x, nth_error (e_data s) i = Some x -> rd 8 (48 + 8 * i) img = Some x) /\
  (forall p, e_part s = Some p -> rd 8 (48 + 8 * length (e_data s)) img = Some p).
Proof.
  intros W E img. subst img. rewrite (enc_nonempty s E), <- !app_assoc.
  pose proof (wf_sample_of s W E) as WS.
  set (tl := sample_bytes (e_c s) (e_data s) (e_part s) ++ rest).
  destruct (nonempty_fields s tl W E) as (A & B & C & D & K & N8 & N16 & N24 & N32 & S40 & L40).
  set (img := [5; 1; 19; sk_flags s] ++ u32 (e_k s) ++ flat_map u64 (longs s) ++ tl) in *.
  assert (H40 : exists pre, img = pre ++ tl /\ length pre = 40%nat).
  { exists ([5; 1; 19; sk_flags s] ++ u32 (e_k s) ++ flat_map u64 (longs s)). split.
    - unfold img. now rewrite <- !app_assoc.
    - rewrite !app_length, flat_u64_length. unfold u32. rewrite N_to_le_bytes_length. reflexivity. }
  destruct H40 as (pre & Himg & Hpre).
  destruct WS as (Hc & _ & _ & _ & Hd & _ & Hp).
  assert (HF : Forall lt64 ([e_c s] ++ e_data s ++ opt_list (e_part s))).
  { apply Forall_app. split; [repeat constructor; auto|]. apply Forall_app. split; auto.
    apply Forall_opt. destruct (e_part s); [apply Hp|exact I]. }
  assert (R : forall i v, nth_error ([e_c s] ++ e_data s ++ opt_list (e_part s)) i = Some v ->
              rd 8 (40 + 8 * i) img = Some v).
  { intros i v Hn. rewrite Himg, <- Hpre, rd_skip. unfold tl, sample_bytes. now apply rd_flat. }
  repeat split; auto.
  - apply (R 0%nat). reflexivity.
  - intros i x Hn. replace (48 + 8 * i)%nat with (40 + 8 * S i)%nat by lia. apply R.
    cbn [app nth_error]. rewrite nth_error_app1; auto. apply nth_error_Some. congruence.
  - intros p Ep. replace (48 + 8 * length (e_data s))%nat with (40 + 8 * S (length (e_data s)))%nat by lia. apply R.
    cbn [app nth_error]. rewrite nth_error_app2 by lia. rewrite Nat.sub_diag, Ep. reflexivity.
Qed.
