(* ThetaSetPayload.v — what the polymorphic set operations do with the payloads, without any assumption on the policy:
   intersection: the summary of a surviving key is the policy folded over the inputs' summaries of that key in presentation
   order, the first input's summary being the seed ([inter_summary_spec]); A-not-B keeps A's entries verbatim
   (ThetaSetANotB.a_not_b_spec, restated); the operations are functions of the operand VALUE (rvalue = lvalue in the model). *)
From Coq Require Import ZArith NArith List Bool Lia Permutation Sorted Arith.
From DS Require Import Word RunnerLib OpenAddr KSmallest Canon ThetaDefs ThetaProofs ThetaRefine ThetaFacts
  ThetaSetDefs ThetaSetWf ThetaSetUnion ThetaSetInter ThetaSetANotB.
Import ListNotations.
Local Open Scope N_scope.

(* the search loop answers "found" only at a slot holding the key *)
Lemma find_from_true {V} probe (t : table V) key : forall fuel j i,
  find_from probe t key j fuel = Some (i, true) -> exists v, nth i t None = Some (key, v).
Proof.
  induction fuel as [|f IH]; intros j i H; [discriminate|]. cbn [find_from] in H.
  destruct (nth (probe key j) t None) as [[k v]|] eqn:E; [|discriminate].
  destruct (N.eqb_spec k key) as [->|_].
  - injection H as <-. eauto.
  - eapply IH; eauto.
Qed.

Section Payload.
  Variable S : Type.
  Variable sel : nat -> list (N * S) -> list (N * S).
  Variable comb : S -> S -> S.
  Notation input := (input S).

  Fixpoint plookup (h : N) (l : list (N * S)) : option S :=
    match l with
    | [] => None
    | (k, v) :: r => if k =? h then Some v else plookup h r
    end.

  Lemma plookup_in h x (l : list (N * S)) : NoDup (map fst l) -> In (h, x) l -> plookup h l = Some x.
  Proof.
    induction l as [|[k v] r IH]; intros Hnd Hin; [destruct Hin|]. cbn [map fst] in Hnd. inversion Hnd; subst.
    cbn [plookup]. destruct Hin as [E|Hin].
    - injection E as -> ->. now rewrite N.eqb_refl.
    - destruct (N.eqb_spec k h) as [->|_]; [|auto]. exfalso. apply H1. apply in_map_iff. exists (h, x). auto.
  Qed.

  (* the summary the intersection of [ins] holds for key h: policy folded in presentation order, seeded by the first input *)
  Definition isum_step (h : N) (acc : option S) (i : input) : option S :=
    match acc, plookup h (in_entries i) with Some v, Some w => Some (comb v w) | _, _ => None end.
  Definition inter_summary (ins : list input) (h : N) : option S :=
    match ins with
    | [] => None
    | a :: r => fold_left (isum_step h) r (plookup h (in_entries a))
    end.

  Lemma inter_summary_snoc ins i h : ins <> [] -> inter_summary (ins ++ [i]) h = isum_step h (inter_summary ins h) i.
  Proof. destruct ins as [|a r]; [congruence|]. intros _. cbn [app inter_summary]. now rewrite fold_left_app. Qed.

  (* every matched entry is policy(table's summary, incoming summary) *)
  Lemma match_loop_pay th o (t : sketch S) maxm (l0 : list (N * S)) : forall l acc m,
    (forall e, In e l -> In e l0) ->
    (forall e, In e acc -> exists v w, In (fst e, v) (entries S t) /\ In (fst e, w) l0 /\ snd e = comb v w) ->
    match_loop S comb th o t maxm l acc = Some m ->
    forall e, In e m -> exists v w, In (fst e, v) (entries S t) /\ In (fst e, w) l0 /\ snd e = comb v w.
  Proof.
    induction l as [|[h w] r IH]; intros acc m Hsub Hacc H.
    - cbn [match_loop] in H. injection H as <-. intros e He. apply in_rev in He. auto.
    - cbn [match_loop] in H.
      assert (Hsub' : forall e, In e r -> In e l0) by (intros e He; apply Hsub; right; exact He).
      destruct (h <? th).
      + destruct (tfind S (lg_cur t) (slots t) h) as [[i [|]]|] eqn:Ef; [| |discriminate].
        * destruct (nth i (slots t) None) as [[k v]|] eqn:En; [|discriminate].
          destruct (N.of_nat (length acc) =? maxm); [discriminate|].
          unfold tfind, find in Ef. destruct (find_from_true _ _ _ _ _ _ Ef) as [v' Hn']. rewrite En in Hn'. injection Hn' as -> ->.
          eapply (IH ((h, comb v' w) :: acc)); eauto.
          intros e [<-|He]; [|auto]. cbn [fst snd]. exists v', w. split; [|split; [apply Hsub; left; reflexivity|reflexivity]].
          unfold entries. apply in_occupied_iff. exists i. split; [|exact En].
          destruct (Nat.ltb_spec i (length (slots t))); auto. rewrite nth_overflow in En by lia. discriminate.
        * eapply IH; eauto.
      + destruct o.
        * injection H as <-. intros e He. apply in_rev in He. auto.
        * eapply IH; eauto.
  Qed.

  Definition PInv (ins : list input) (x : inter_st S) : Prop :=
    forall h v, In (h, v) (entries S (i_table x)) -> inter_summary ins h = Some v.

  Lemma entries_empty_table' th e : entries S (empty_table S th e) = [].
  Proof. reflexivity. Qed.

  Lemma payload_step sh ins x i x' : IState S sh ins x -> PInv ins x -> Forall wf ins -> Forall (theta_ok S) ins ->
    wf i -> seed_ok sh i -> inter_update S sel comb x i = Some x' -> PInv (ins ++ [i]) x'.
  Proof.
    intros [Hnil Hcons] HP Hwfs Htos Hwf Hseed Hu.
    assert (D : ins = [] \/ ins <> []) by (destruct ins; [left|right]; congruence).
    destruct D as [E|Hne].
    - (* first update *)
      subst ins. rewrite (Hnil eq_refl) in Hu. cbn [app].
      unfold inter_update, inter_update_gen, inter_new in Hu. cbv zeta in Hu.
      cbn [i_table i_valid i_sh empty_table is_empty theta num andb orb negb] in Hu.
      destruct (negb (in_empty i) && negb (in_seed_hash i =? sh)); [discriminate|].
      destruct (in_num i =? 0) eqn:E0.
      + injection Hu as <-. intros h v Hin. destruct Hin.
      + apply N.eqb_neq in E0. assert (Hpos : 0 < in_num i) by lia.
        set (e := in_empty i) in *. set (th := if e then max_theta else N.min max_theta (in_theta i)) in *.
        destruct (lg_size_never_rebuilds S sel (in_entries i) (in_num i) th e (wf_nodup _ _ Hwf) Hpos eq_refl)
          as (t' & Hc & _ & _ & Hperm & Hnum & _).
        rewrite Hc, Hnum, N.eqb_refl in Hu. injection Hu as <-. cbn [i_table].
        intros h v Hin. cbn [inter_summary fold_left]. apply plookup_in; [apply (wf_nodup _ _ Hwf)|].
        eapply Permutation_in; eauto.
    - specialize (Hcons Hne). destruct Hcons as [Hv Hsh Hem Hth Hshape Hnd Hnum Hnilx Hkeys].
      destruct x as [vld t sh']. cbn [i_valid i_sh i_table] in *. subst vld sh'.
      unfold PInv in *. cbn [i_table] in HP.
      unfold inter_update, inter_update_gen in Hu. cbv zeta in Hu. cbn [i_table i_valid i_sh andb negb] in Hu.
      destruct (is_empty t) eqn:Et.
      + injection Hu as <-. cbn [i_table]. intros h v Hin. rewrite Hnilx in Hin by congruence. destruct Hin.
      + destruct (negb (in_empty i) && negb (in_seed_hash i =? sh)); [discriminate|]. cbn [orb] in Hu.
        set (e := in_empty i) in *. set (th := if e then max_theta else N.min (theta t) (in_theta i)) in *.
        destruct (num t =? 0) eqn:En.
        * injection Hu as <-. cbn [i_table]. intros h v Hin. exfalso.
          apply N.eqb_eq in En. rewrite En in Hnum. change (entries S (with_theta_empty S t th e)) with (entries S t) in Hin.
          destruct (entries S t); [destruct Hin|cbn [length] in Hnum; lia].
        * destruct (in_num i =? 0) eqn:E0.
          -- injection Hu as <-. intros h v Hin. destruct Hin.
          -- apply N.eqb_neq in En, E0.
             destruct Hshape as [(_ & B & _)|(HS & Hfree)]; [congruence|].
             set (t1 := with_theta_empty S t th e) in *.
             assert (HS1 : SInv t1) by (apply sinv_flags; exact HS).
             destruct (match_loop_spec S sel comb th (in_ordered i) t1 (in_entries i) _ HS1 Hfree (wf_nodup _ _ Hwf)
                         (wf_sorted _ _ Hwf) eq_refl) as (m & Hm & Hndm & _ & _).
             change (N.min (num t1) (N.of_nat (length (in_entries i)))) with (N.min (num t) (in_num i)) in Hm.
             rewrite Hm in Hu.
             pose proof (match_loop_pay th (in_ordered i) t1 _ (in_entries i) (in_entries i) [] m
                           (fun e H => H) (fun e (H : In e []) => match H with end) Hm) as Hpay.
             assert (Hfin : forall h v, In (h, v) m -> inter_summary (ins ++ [i]) h = Some v).
             { intros h v Hin. destruct (Hpay (h, v) Hin) as (v0 & w & Hv0 & Hw & Ec). cbn [fst snd] in *.
               rewrite inter_summary_snoc by exact Hne. unfold isum_step.
               rewrite (HP h v0 Hv0). rewrite (plookup_in h w (in_entries i) (wf_nodup _ _ Hwf) Hw). now rewrite Ec. }
             destruct m as [|p m'].
             ++ injection Hu as <-. intros h v Hin. destruct Hin.
             ++ set (m := p :: m') in *.
                assert (Hpos : 0 < N.of_nat (length m)) by (unfold m; cbn [length]; lia).
                destruct (lg_size_never_rebuilds S sel m _ th e Hndm Hpos eq_refl) as (t' & _ & Hp & _ & Hperm & _).
                rewrite Hp in Hu. injection Hu as <-. cbn [i_table]. intros h v Hin. apply Hfin.
                eapply Permutation_in; eauto.
  Qed.

  (* for every sequence of inputs: each entry of the result carries the policy folded over the inputs' summaries of its key *)
  Theorem inter_summary_spec sh ins : Forall wf ins -> Forall (theta_ok S) ins -> Forall (seed_ok sh) ins ->
    exists x, inter_fold S sel comb (inter_new S sh) ins = Some x /\
      forall ordered res, inter_result S x ordered = Some res ->
        forall h v, In (h, v) (in_entries res) -> inter_summary ins h = Some v.
  Proof.
    intros Hwf Hto Hseed.
    assert (G : exists x, inter_fold S sel comb (inter_new S sh) ins = Some x /\ IState S sh ins x /\ PInv ins x).
    { induction ins as [|i ins IH] using rev_ind.
      - exists (inter_new S sh). split; [reflexivity|]. split; [split; [auto|congruence]|]. intros h v [].
      - apply Forall_app in Hwf, Hto, Hseed. destruct Hwf as [Hwf Hwi], Hto as [Hto Hti], Hseed as [Hseed Hsi].
        inversion Hwi; subst. inversion Hsi; subst.
        destruct (IH Hwf Hto Hseed) as (x & Hf & HI & HP).
        destruct (inter_update_preserves S sel comb sh ins x i HI Hwf Hto) as (x' & Hu & HI'); auto.
        exists x'. rewrite inter_fold_snoc, Hf. split; [exact Hu|]. split; [exact HI'|].
        eapply payload_step; eauto. }
    destruct G as (x & Hf & _ & HP). exists x. split; [exact Hf|].
    intros ordered res Hr h v Hin. unfold inter_result, inter_result_gen in Hr.
    destruct (negb (i_valid x)); [discriminate|]. injection Hr as <-. unfold mk_result in Hin. cbn [in_entries] in Hin.
    apply (HP h v).
    destruct (0 <? num (i_table x)); [|destruct ordered; destruct Hin].
    destruct ordered; [eapply Permutation_in; [apply msort_perm|exact Hin]|exact Hin].
  Qed.

  (* A-not-B keeps A's entries (key and payload) verbatim: every entry of the result is an entry of A, and every entry of A
     whose key is below the result theta and not in B is in the result *)
  Theorem a_not_b_payloads sh (a b : input) ordered : wf a -> wf b -> in_seed_hash a = sh -> in_seed_hash b = sh ->
    in_empty a = false -> (in_num a = 0 \/ in_empty b = false) ->
    exists res, a_not_b S sh a b ordered = Some res /\
      forall e, In e (in_entries res) <-> In e (in_entries a) /\ fst e < in_theta res /\ ~ In (fst e) (in_keys b).
  Proof.
    intros Ha Hb Hsa Hsb Hea Hcase.
    destruct (a_not_b_spec S sh a b ordered Ha Hb Hsa Hsb Hea Hcase) as (res & Hr & Hobs & Hsub & _ & _ & Hwr).
    exists res. split; [exact Hr|]. intros e.
    assert (Hth : in_theta res = N.min (in_theta a) (in_theta b)) by (unfold spec_a_not_b in Hobs; congruence).
    assert (Hks : sortN (in_keys res) = keys_below (N.min (in_theta a) (in_theta b)) (filter (fun h => negb (mem h (in_keys b))) (in_keys a)))
      by (unfold spec_a_not_b in Hobs; congruence).
    assert (Hkin : forall h, In h (in_keys res) <-> In h (in_keys a) /\ ~ In h (in_keys b) /\ h < in_theta res).
    { intros h. rewrite <- (perm_in_iff h (sortN_perm (in_keys res))), Hks, in_keys_below, filter_In, negb_true_iff, mem_false, Hth. tauto. }
    split.
    - intros He. split; [apply Hsub, He|]. assert (Hk : In (fst e) (in_keys res)) by (unfold in_keys; now apply in_map).
      apply Hkin in Hk. tauto.
    - intros (Hina & Hlt & Hnb).
      assert (Hk : In (fst e) (in_keys res)) by (apply Hkin; repeat split; auto; unfold in_keys; now apply in_map).
      unfold in_keys in Hk. apply in_map_iff in Hk. destruct Hk as (e' & Efst & He').
      assert (e' = e); [|subst; exact He'].
      pose proof (Hsub e' He') as Hina'. pose proof (wf_nodup _ _ Ha) as Hnd. unfold in_keys in Hnd.
      destruct e as [h x], e' as [h' x']. cbn [fst] in *. subst h'.
      pose proof (plookup_in h x _ Hnd Hina) as P1. pose proof (plookup_in h x' _ Hnd Hina') as P2. congruence.
  Qed.

  (* value category: the model's operations are functions of the operand value — an operand handed over by rvalue
     reference (its summaries moved) is the same argument as the one handed over by const reference *)
  Theorem operand_value_only (u : union_st S) (x : inter_st S) sh (a a' b : input) o : a = a' ->
    union_update S sel comb u a = union_update S sel comb u a' /\
    inter_update S sel comb x a = inter_update S sel comb x a' /\
    a_not_b S sh a b o = a_not_b S sh a' b o.
  Proof. intros ->. auto. Qed.
End Payload.
