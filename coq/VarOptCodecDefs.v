(* VarOptCodecDefs.v — executable model of the serialized images of var_opt_sketch<int64_t> and var_opt_union<int64_t>
   (sampling/include/var_opt_sketch_impl.hpp, var_opt_union_impl.hpp): the writers (bytes and stream forms write the
   same image) and BOTH readers of each type, field by field.  No proofs here.

   Sketch image (little endian; layout comment of var_opt_sketch_impl.hpp):
     byte 0  preamble longs (low 6 bits: 1 empty, 3 warm-up i.e. r = 0, 4 full) | resize factor << 6
     byte 1  serial version = 2 | byte 2 family id = 13 | byte 3 flags (4 = empty, 128 = gadget) | bytes 4..7 k
     unless empty: 8..15 n | 16..19 h | 20..23 r | (full only) 24..31 total weight of R (double)
       then h weights (doubles), then iff gadget ceil(h/8) bytes of marks (bit i & 7 of byte i / 8), then the h items
       of H and the r items of R (int64, 8 bytes each).
   Union image: byte 0 preamble longs (1 empty, 4 otherwise) | 1 serial version = 2 | 2 family id = 14 | 3 flags
     (4 = empty) | 4..7 max_k; unless empty: 8..15 n | 16..23 outer tau numerator (double) | 24..31 outer tau
     denominator | the gadget's sketch image.
   Doubles are carried as their 64-bit patterns.  The readers are modelled as REPAIRED: h + r is compared with k
   without the uint32 wrap (fixes/11_varopt_hr_sum_wrap.patch; the old comparison is [counts_ok_old], see
   Regression_varoptcodec.v), the union bytes reader checks 32 bytes before the second..fourth preamble longs
   (commit 26c891c).  A read outside the supplied bytes is a rejection ([take] returns None). *)
From Coq Require Import NArith ZArith List Bool Arith.
From DS Require Import Word RunnerLib ThetaCodecDefs.
Import ListNotations.
Local Open Scope N_scope.

(* ---- content of a sketch as far as the image is concerned ---- *)
Record vs := mkvs {
  s_rf : N;                 (* resize factor, 0..3 *)
  s_gadget : bool;          (* marks_ != nullptr *)
  s_k : N;
  s_n : N;
  s_totr : N;               (* total_wt_r_ (bit pattern); 0 while r = 0 *)
  s_wts : list N;           (* the h weights of H (bit patterns), array order *)
  s_marks : list bool;      (* the h marks of H iff gadget, else [] *)
  s_hitems : list N;        (* the h items of H (two's complement patterns) *)
  s_ritems : list N         (* the r items of R *)
}.

Definition hcount (s : vs) : N := N.of_nat (length (s_wts s)).
Definition rcount (s : vs) : N := N.of_nat (length (s_ritems s)).
Definition sk_empty (s : vs) : bool := (hcount s =? 0) && (rcount s =? 0).
Definition pre_longs (s : vs) : N := if sk_empty s then 1 else if rcount s =? 0 then 3 else 4.
Definition sk_flags (s : vs) : N := (if s_gadget s then 128 else 0) + (if sk_empty s then 4 else 0).

(* marks: bit (i & 7) of byte (i / 8) *)
Fixpoint byte_of_bits (bs : list bool) : N :=
  match bs with
  | [] => 0
  | b :: t => (if b then 1 else 0) + 2 * byte_of_bits t
  end.
Fixpoint pack_marks_f (fuel : nat) (ms : list bool) : list N :=
  match fuel with
  | O => []
  | S f => match ms with
           | [] => []
           | _ => byte_of_bits (firstn 8 ms) :: pack_marks_f f (skipn 8 ms)
           end
  end.
Definition pack_marks (ms : list bool) : list N := pack_marks_f (length ms) ms.

Fixpoint bits_of_byte (n : nat) (b : N) : list bool :=
  match n with
  | O => []
  | S n' => N.odd b :: bits_of_byte n' (N.div2 b)
  end.
Fixpoint unpack_marks (h : nat) (bytes : list N) : list bool :=
  match bytes with
  | [] => []
  | b :: t => bits_of_byte (Nat.min 8 h) (w8 b) ++ unpack_marks (h - 8) t
  end.
Definition marks_bytes (h : N) : N := N.shiftr h 3 + (if 0 <? N.land h 7 then 1 else 0).

Definition enc_sk (s : vs) : list N :=
  [pre_longs s + 64 * s_rf s; 2; 13; sk_flags s] ++ u32 (s_k s) ++
  (if sk_empty s then [] else
     u64 (s_n s) ++ u32 (hcount s) ++ u32 (rcount s) ++
     (if rcount s =? 0 then [] else u64 (s_totr s)) ++
     flat_map u64 (s_wts s) ++
     (if s_gadget s then pack_marks (s_marks s) else []) ++
     flat_map u64 (s_hitems s) ++ flat_map u64 (s_ritems s)).

(* get_serialized_size_bytes() for a fixed-size arithmetic item type (8 bytes) *)
Definition sk_size (s : vs) : N :=
  if sk_empty s then 8 else
  8 * pre_longs s + 8 * hcount s + (if s_gadget s then marks_bytes (hcount s) else 0) + 8 * (hcount s + rcount s).

(* serialize(header_size_bytes): that many reserved zero bytes, then the image *)
Definition enc_sk_header (hdr : nat) (s : vs) : list N := repeat 0 hdr ++ enc_sk s.

(* ---- readers ---- *)
Definition MAX_K : N := 2147483646.
Definition k_ok (k : N) : bool := negb (k =? 0) && (k <=? MAX_K).
(* double > 0.0 and not NaN (+inf passes), on the bit pattern *)
Definition pos_double (b : N) : bool := (0 <? b) && (b <=? 9218868437227405312).

Definition take (n : nat) (l : list N) : option (list N * list N) :=
  if (n <=? length l)%nat then Some (firstn n l, skipn n l) else None.
Definition get (n : nat) (l : list N) : option (N * list N) :=
  match take n l with Some (a, r) => Some (le_bytes_to_N a, r) | None => None end.

Notation "'dol' ( x , y ) <- o ; k" := (bind o (fun p => let '(x, y) := p in k))
  (at level 200, x name, y name, right associativity).

(* check_preamble_longs *)
Definition pre_ok (empty : bool) (pre : N) : bool := if empty then pre =? 1 else (pre =? 3) || (pre =? 4).
(* validate_and_get_target_size, repaired (h + r in 64 bits) and as it was (uint32 sum) *)
Definition counts_ok (pre k n h r : N) : bool :=
  if n <=? k then (pre =? 3) && (n =? h) && (r =? 0) else (pre =? 4) && (h + r =? k).
Definition counts_ok_old (pre k n h r : N) : bool :=
  if n <=? k then (pre =? 3) && (n =? h) && (r =? 0) else (pre =? 4) && (w32 (h + r) =? k).

Definition mk_empty (rf : N) (gad : bool) (k : N) : vs := mkvs rf gad k 0 0 [] [] [] [].

(* everything after the first preamble long of a non-empty image; [l] = the bytes that follow it *)
Definition dec_tail_gen (cok : N -> N -> N -> N -> N -> bool) (pre rf : N) (gad : bool) (k : N) (l5 : list N)
  : option (vs * list N) :=
  dol (n, l6) <- get 8 l5; dol (h, l7) <- get 4 l6; dol (r, l8) <- get 4 l7;
  if negb (k_ok k) then None else
  if negb (cok pre k n h r) then None else
  dol (totr, l9) <- (if pre =? 4 then get 8 l8 else Some (0, l8));
  if (pre =? 4) && negb (pos_double totr && negb (r =? 0)) then None else
  dol (wb, l10) <- take (8 * N.to_nat h) l9; do wts <- rd_entries (N.to_nat h) wb;
  if negb (forallb pos_double wts) then None else
  dol (marks, l11) <- (if gad then dol (mb, l) <- take (N.to_nat (marks_bytes h)) l10; Some (unpack_marks (N.to_nat h) mb, l)
                       else Some ([], l10));
  dol (hb, l12) <- take (8 * N.to_nat h) l11; do hitems <- rd_entries (N.to_nat h) hb;
  dol (rb, l13) <- take (8 * N.to_nat r) l12; do ritems <- rd_entries (N.to_nat r) rb;
  Some (mkvs rf gad k n totr wts marks hitems ritems, l13).
Definition dec_tail := dec_tail_gen counts_ok.

(* deserialize(istream): the decoded sketch and the bytes not consumed *)
Definition dec_sk_stream_gen cok (bytes : list N) : option (vs * list N) :=
  dol (b0, l1) <- get 1 bytes; dol (ver, l2) <- get 1 l1; dol (fam, l3) <- get 1 l2; dol (fl, l4) <- get 1 l3;
  dol (k, l5) <- get 4 l4;
  let pre := N.land b0 63 in let rf := N.shiftr b0 6 in
  let empty := N.testbit fl 2 in let gad := N.testbit fl 7 in
  if negb (pre_ok empty pre) then None else
  if negb ((fam =? 13) && (ver =? 2)) then None else
  if empty then (if k_ok k then Some (mk_empty rf gad k, l5) else None)
  else dec_tail_gen cok pre rf gad k l5.
Definition dec_sk_stream := dec_sk_stream_gen counts_ok.

(* deserialize(bytes, size): trailing bytes are ignored *)
Definition dec_sk_bytes_gen cok (bytes : list N) : option vs :=
  if (length bytes <? 8)%nat then None else
  dol (b0, l1) <- get 1 bytes; dol (ver, l2) <- get 1 l1; dol (fam, l3) <- get 1 l2; dol (fl, l4) <- get 1 l3;
  dol (k, l5) <- get 4 l4;
  let pre := N.land b0 63 in let rf := N.shiftr b0 6 in
  let empty := N.testbit fl 2 in let gad := N.testbit fl 7 in
  if negb (pre_ok empty pre) then None else
  if negb ((fam =? 13) && (ver =? 2)) then None else
  if N.of_nat (length bytes) <? 8 * pre then None else
  if empty then (if k_ok k then Some (mk_empty rf gad k) else None)
  else match dec_tail_gen cok pre rf gad k l5 with Some (s, _) => Some s | None => None end.
Definition dec_sk_bytes := dec_sk_bytes_gen counts_ok.

(* ---- union ---- *)
Record vun := mkvun { u_n : N; u_numer : N; u_denom : N; u_maxk : N; u_gadget : vs }.

(* the gadget of a freshly constructed union: DEFAULT_RESIZE_FACTOR = X8 (3), marks allocated *)
Definition empty_gadget (max_k : N) : vs := mk_empty 3 true max_k.

Definition enc_un (u : vun) : list N :=
  if u_n u =? 0 then [1; 2; 14; 4] ++ u32 (u_maxk u)
  else [4; 2; 14; 0] ++ u32 (u_maxk u) ++ u64 (u_n u) ++ u64 (u_numer u) ++ u64 (u_denom u) ++ enc_sk (u_gadget u).
Definition un_size (u : vun) : N := if u_n u =? 0 then 8 else 32 + sk_size (u_gadget u).
Definition enc_un_header (hdr : nat) (u : vun) : list N := repeat 0 hdr ++ enc_un u.

Definition un_pre_ok (empty : bool) (pre : N) : bool := if empty then pre =? 1 else pre =? 4.

Definition dec_un_stream (bytes : list N) : option (vun * list N) :=
  dol (pre, l1) <- get 1 bytes; dol (ver, l2) <- get 1 l1; dol (fam, l3) <- get 1 l2; dol (fl, l4) <- get 1 l3;
  dol (mk, l5) <- get 4 l4;
  let empty := N.testbit fl 2 in
  if negb (un_pre_ok empty pre) then None else
  if negb ((fam =? 14) && (ver =? 2)) then None else
  if negb (k_ok mk) then None else
  if empty then Some (mkvun 0 0 0 mk (empty_gadget mk), l5) else
  dol (n, l6) <- get 8 l5; dol (numer, l7) <- get 8 l6; dol (denom, l8) <- get 8 l7;
  dol (g, l9) <- dec_sk_stream l8;
  Some (mkvun n numer denom mk g, l9).

Definition dec_un_bytes (bytes : list N) : option vun :=
  if (length bytes <? 8)%nat then None else
  dol (pre, l1) <- get 1 bytes; dol (ver, l2) <- get 1 l1; dol (fam, l3) <- get 1 l2; dol (fl, l4) <- get 1 l3;
  dol (mk, l5) <- get 4 l4;
  let empty := N.testbit fl 2 in
  if negb (un_pre_ok empty pre) then None else
  if negb ((fam =? 14) && (ver =? 2)) then None else
  if negb (k_ok mk) then None else
  if empty then Some (mkvun 0 0 0 mk (empty_gadget mk)) else
  if (length bytes <? 32)%nat then None else
  dol (n, l6) <- get 8 l5; dol (numer, l7) <- get 8 l6; dol (denom, l8) <- get 8 l7;
  match dec_sk_bytes l8 with Some g => Some (mkvun n numer denom mk g) | None => None end.

(* ---- line protocol (harness/drv_varoptcodec.cpp) ----
   1 r k rf (item wbits)*        build a sketch; E = content; R = image bytes
   2 u max_k r*                  build a union from sketch registers; E = content; R = image bytes
   5 kind r path cut pos val nt  image of sketch (kind 0) / union (kind 1) r, truncated to cut bytes (cut < 0: whole), byte pos
                                 replaced by val (pos < 0: none), nt bytes 0xA5 appended, read through path 0 (bytes) / 1 (stream)
   3 kind path byte*             explicit image
   content of a sketch: rf gadget k n totr h r wts.. marks.. hitems.. ritems..; of a union: n numer denom max_k + gadget content
   a decoded object is shown as 1 [bytes consumed] reserialized_equal content *)
Local Open Scope Z_scope.

Definition show_sk (s : vs) : list Z :=
  [Nz (s_rf s); bz (s_gadget s); Nz (s_k s); Nz (s_n s); Nz (s_totr s); Nz (hcount s); Nz (rcount s)] ++
  map Nz (s_wts s) ++ map bz (s_marks s) ++ map Nz (s_hitems s) ++ map Nz (s_ritems s).
Definition show_un (u : vun) : list Z :=
  [Nz (u_n u); Nz (u_numer u); Nz (u_denom u); Nz (u_maxk u)] ++ show_sk (u_gadget u).

Definition sk_of_tokens (e : list Z) : option (vs * list Z) :=
  match e with
  | rf :: gad :: k :: n :: totr :: h :: r :: t =>
      let hn := Z.to_nat h in let rn := Z.to_nat r in
      let wts := firstn hn t in let t1 := skipn hn t in
      let nm := if gad =? 0 then O else hn in
      let marks := firstn nm t1 in let t2 := skipn nm t1 in
      let hit := firstn hn t2 in let t3 := skipn hn t2 in
      let rit := firstn rn t3 in let t4 := skipn rn t3 in
      Some (mkvs (zN rf) (negb (gad =? 0)) (zN k) (zN n) (zN totr) (map zN wts) (map (fun m => negb (m =? 0)) marks)
                 (map zN hit) (map zN rit), t4)
  | _ => None
  end.
Definition un_of_tokens (e : list Z) : option vun :=
  match e with
  | n :: numer :: denom :: mk :: t =>
      match sk_of_tokens t with
      | Some (g, _) => Some (mkvun (zN n) (zN numer) (zN denom) (zN mk) g)
      | None => None
      end
  | _ => None
  end.

Definition set_nth (n : nat) (v : N) (l : list N) : list N := upd_nth n (fun _ => v) l.
Definition mangle (img : list N) (cut pos val ntrail : Z) : list N :=
  let a := if cut <? 0 then img else firstn (Z.to_nat cut) img in
  let b := if pos <? 0 then a else set_nth (Z.to_nat pos) (zN val) a in
  b ++ repeat 165%N (Z.to_nat ntrail).

Fixpoint list_eqb (a b : list N) : bool :=
  match a, b with
  | [], [] => true
  | x :: s, y :: t => N.eqb x y && list_eqb s t
  | _, _ => false
  end.
(* does the decoded object re-serialize to the bytes it was read from? *)
Definition reser (img bytes : list N) : Z := bz (list_eqb img (firstn (length img) bytes)).

Definition show_dec (kind path : Z) (bytes : list N) : list Z :=
  if kind =? 0 then
    if path =? 0 then match dec_sk_bytes bytes with Some s => 1 :: reser (enc_sk s) bytes :: show_sk s | None => refused end
    else match dec_sk_stream bytes with
         | Some (s, rest) => 1 :: Z.of_nat (length bytes - length rest) :: reser (enc_sk s) bytes :: show_sk s
         | None => refused end
  else
    if path =? 0 then match dec_un_bytes bytes with Some u => 1 :: reser (enc_un u) bytes :: show_un u | None => refused end
    else match dec_un_stream bytes with
         | Some (u, rest) => 1 :: Z.of_nat (length bytes - length rest) :: reser (enc_un u) bytes :: show_un u
         | None => refused end.

Record cst := mkcst { c_sk : list (Z * vs); c_un : list (Z * vun) }.

Definition step (st : cst) (o e : line) : cst * outline :=
  match o with
  | 1 :: r :: _ =>
      match sk_of_tokens e with
      | Some (s, _) => (mkcst (reg_set (c_sk st) r s) (c_un st), (map Nz (enc_sk s), []))
      | None => (st, (refused, []))
      end
  | 2 :: u :: _ =>
      match un_of_tokens e with
      | Some v => (mkcst (c_sk st) (reg_set (c_un st) u v), (map Nz (enc_un v), []))
      | None => (st, (refused, []))
      end
  | 5 :: kind :: r :: path :: cut :: pos :: val :: ntrail :: _ =>
      let img := if kind =? 0 then match reg_get (c_sk st) r with Some s => Some (enc_sk s) | None => None end
                 else match reg_get (c_un st) r with Some u => Some (enc_un u) | None => None end in
      match img with
      | Some i => (st, (show_dec kind path (mangle i cut pos val ntrail), []))
      | None => (st, (refused, []))
      end
  | 3 :: kind :: path :: bytes => (st, (show_dec kind path (map zN bytes), []))
  | _ => (st, ([-2], []))
  end.

Definition run (ops : list opline) : list outline := run_case step (mkcst [] []) ops.
