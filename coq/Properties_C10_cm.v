(* Properties_C10_cm.v — the count-min sketch image keeps the documented little-endian layout. Only statements;
   proofs live in CodecCmProofs.v. The model is CodecCmDefs.v (extracted and compared with the C++ on every run).
   [rd k off img] is the little-endian unsigned integer in the k bytes at offset off. *)
From Coq Require Import NArith List Bool Lia Arith.
From DS Require Import Word ThetaCodecDefs CodecCmDefs CodecCmProofs.
Import ListNotations.
Local Open Scope N_scope.

(* byte 0 preamble longs = 2, byte 1 serial version = 1, byte 2 family id = 18, byte 3 flags (only bit 0 = empty is
   ever set), bytes 4..7 unused = 0, bytes 8..11 number of buckets, byte 12 number of hashes, bytes 13..14 seed
   hash, byte 15 unused = 0; an empty sketch stops there (16 bytes); otherwise bytes 16..23 hold the total weight
   and cell i (row major) sits at offset 24 + 8*i. *)
Theorem C10_cm_layout : forall s rest, wf s ->
  let img := enc s ++ rest in
  nth 0 img 0 = 2 /\ nth 1 img 0 = 1 /\ nth 2 img 0 = 18 /\
  N.testbit (nth 3 img 0) 0 = cm_empty s /\ (nth 3 img 0 = 0 \/ nth 3 img 0 = 1) /\
  nth 4 img 0 = 0 /\ nth 5 img 0 = 0 /\ nth 6 img 0 = 0 /\ nth 7 img 0 = 0 /\
  rd 4 8 img = Some (c_nb s) /\ rd 1 12 img = Some (c_nh s) /\ rd 2 13 img = Some (c_seed_hash s) /\
  rd 1 15 img = Some 0 /\
  (cm_empty s = true -> length (enc s) = 16%nat) /\
  (cm_empty s = false ->
     rd 8 16 img = Some (c_total s) /\
     length (enc s) = (24 + 8 * length (c_cells s))%nat /\
     forall i, (i < length (c_cells s))%nat -> rd 8 (24 + 8 * i) img = Some (nth i (c_cells s) 0)).
Proof. exact cm_layout. Qed.

(* non-vacuity *)
Definition C10_ex : cm := {| c_nh := 2; c_nb := 3; c_seed_hash := 37836; c_total := 5; c_cells := [1; 0; 4; 2; 3; 0] |}.
Example C10_ex_wf : wf C10_ex.
Proof.
  unfold wf. cbn [C10_ex c_nh c_nb c_seed_hash c_total c_cells].
  repeat split; try reflexivity; try discriminate; repeat (apply Forall_cons; [reflexivity|]); apply Forall_nil.
Qed.
Example C10_ex_fields :
  let img := enc C10_ex in
  cm_empty C10_ex = false /\ length img = 72%nat /\
  rd 4 8 img = Some 3 /\ rd 1 12 img = Some 2 /\ rd 2 13 img = Some 37836 /\ rd 8 16 img = Some 5 /\
  rd 8 24 img = Some 1 /\ rd 8 40 img = Some 4 /\ rd 8 56 img = Some 3 /\ rd 8 64 img = Some 0 /\ rd 8 65 img = None.
Proof. vm_compute. repeat split. Qed.

Print Assumptions C10_cm_layout.
