(* TDigestQuantile.v — get_quantile over exact rationals: range, end points and monotonicity in the rank, for every state that
   get_quantile can see (a compressed non-empty digest: [Good]), hence for every reachable digest.  About the REPAIRED
   interpolation (TDigestDefs.q_loop / weighted_average); the code as found is refuted in Regression_tdigest.v. *)
From Coq Require Import ZArith List Bool QArith Lia Lqa Psatz Sorting.Sorted.
From DS Require Import RunnerLib TDigestDefs TDigestProofs.
Import ListNotations.
Local Open Scope Q_scope.

Section Quantile.
  Variable ln : Q -> Q.
  Variables pinf ninf : Q.
  Notation QO := (qops ln pinf ninf).
  Notation cq := (centroid QO).
  Notation mean := (c_mean QO).
  Notation wt := (c_w QO).
  Notation mle := (mle ln pinf ninf).
  Notation wpos := (wpos ln pinf ninf).

  Local Lemma Lt a b : nltb QO a b = true <-> a < b. Proof. apply ltb_lt. Qed.
  Local Lemma Ge a b : nltb QO a b = false <-> b <= a. Proof. apply ltb_ge. Qed.
  Local Lemma Le a b : nleb QO a b = true <-> a <= b. Proof. apply leb_le. Qed.
  Local Lemma Gt a b : nleb QO a b = false <-> b < a. Proof. apply leb_gt. Qed.

  Ltac qr := unfold nhalf, n0, n1, n2 in *;
             change (nadd QO) with Qplus in *; change (nsub QO) with Qminus in *; change (nmul QO) with Qmult in *;
             change (ndiv QO) with Qdiv in *; change (nofZ QO) with inject_Z in *; change (num QO) with Q in *;
             change (inject_Z 0) with 0 in *; change (inject_Z 1) with 1 in *; change (inject_Z 2) with 2 in *.

  (* ---- the clamped weighted average ---- *)
  Lemma wa_range x1 w1 x2 w2 : x1 <= x2 ->
    x1 <= weighted_average QO x1 w1 x2 w2 /\ weighted_average QO x1 w1 x2 w2 <= x2.
  Proof.
    intro H. unfold weighted_average. cbv zeta.
    rewrite (nmin_le ln pinf ninf x1 x2 H).
    destruct (nmax_spec ln pinf ninf x1 x2) as (Hm & H1 & H2).
    set (hi := nmax QO x1 x2) in *. set (x := ndiv QO _ _). clearbody hi x.
    assert (Hhi : hi == x2). { apply Qle_antisym; auto. destruct Hm as [E|E]; rewrite E; auto. apply Qle_refl. }
    destruct (nltb QO x x1) eqn:A; [split; [apply Qle_refl|auto]|]. apply Ge in A.
    destruct (nltb QO hi x) eqn:B.
    - split; [lra|]. rewrite Hhi. apply Qle_refl.
    - apply Ge in B. split; [auto|]. rewrite <- Hhi. auto.
  Qed.

  Lemma frac_le (x1 x2 a b a' b' : Q) : x1 <= x2 -> 0 < b + a -> b + a == b' + a' -> a <= a' ->
    (x1 * b + x2 * a) / (b + a) <= (x1 * b' + x2 * a') / (b' + a').
  Proof.
    intros Hx Hpos Heq Ha. rewrite <- Heq. unfold Qdiv. apply Qmult_le_compat_r.
    - nra.
    - apply Qinv_le_0_compat. lra.
  Qed.

  Lemma wa_mono x1 x2 a b a' b' : x1 <= x2 -> 0 < b + a -> b + a == b' + a' -> a <= a' ->
    weighted_average QO x1 b x2 a <= weighted_average QO x1 b' x2 a'.
  Proof.
    intros Hx Hpos Heq Ha. pose proof (frac_le x1 x2 a b a' b' Hx Hpos Heq Ha) as F.
    unfold weighted_average. cbv zeta. qr.
    set (x := (x1 * b + x2 * a) / (b + a)) in *. set (y := (x1 * b' + x2 * a') / (b' + a')) in *. clearbody x y.
    rewrite (nmin_le ln pinf ninf x1 x2 Hx).
    destruct (nmax_spec ln pinf ninf x1 x2) as (_ & H1 & H2). set (hi := nmax QO x1 x2) in *. clearbody hi. qr.
    destruct (nltb QO x x1) eqn:A; destruct (nltb QO y x1) eqn:B;
      destruct (nltb QO hi x) eqn:C; destruct (nltb QO hi y) eqn:D;
      try apply Lt in A; try apply Ge in A; try apply Lt in B; try apply Ge in B;
      try apply Lt in C; try apply Ge in C; try apply Lt in D; try apply Ge in D; qr; lra.
  Qed.

  (* ---- one step of the interpolation loop: the target weight lies between the centres of ci and cj ---- *)
  Definition seg (ci cj : cq) (weight wsf : Q) : option Q :=
    let dw := ndiv QO (nofZ QO (wt ci + wt cj)) (n2 QO) in
    let l1 := (wt ci =? 1)%Z in
    let r1 := (wt cj =? 1)%Z in
    if l1 && nltb QO (nsub QO weight wsf) (nhalf QO) then Some (mean ci) else
    let left_weight := if l1 then nhalf QO else n0 QO in
    if r1 && nleb QO (nsub QO (nadd QO wsf dw) weight) (nhalf QO) then Some (mean cj) else
    let right_weight := if r1 then nhalf QO else n0 QO in
    let w1 := nsub QO (nsub QO weight wsf) left_weight in
    let w2 := nsub QO (nsub QO (nadd QO wsf dw) weight) right_weight in
    Some (weighted_average QO (mean ci) w2 (mean cj) w1).

  Definition dwq (ci cj : cq) : Q := ndiv QO (nofZ QO (wt ci + wt cj)) (n2 QO).

  Lemma q_loop_cons ci cj t weight wsf :
    q_loop QO (ci :: cj :: t) weight wsf =
    if nltb QO weight (nadd QO wsf (dwq ci cj)) then seg ci cj weight wsf
    else q_loop QO (cj :: t) weight (nadd QO wsf (dwq ci cj)).
  Proof. reflexivity. Qed.

  Lemma dwq_val ci cj : dwq ci cj == (inject_Z (wt ci) + inject_Z (wt cj)) * (1 # 2).
  Proof. unfold dwq. qr. rewrite inject_Z_plus. reflexivity. Qed.

  Definition hw (c : cq) : Q := if (wt c =? 1)%Z then 1 # 2 else 0.   (* left_weight / right_weight *)

  (* half of the weight beyond the singleton allowance: 0 for a singleton, >= 1 otherwise *)
  Lemma hw_gap c : (1 <= wt c)%Z ->
    (wt c = 1%Z /\ inject_Z (wt c) * (1 # 2) - hw c == 0) \/ (wt c <> 1%Z /\ hw c == 0 /\ 1 <= inject_Z (wt c) * (1 # 2)).
  Proof.
    intro H. unfold hw. destruct (Z.eqb_spec (wt c) 1) as [E|E].
    - left. split; auto. rewrite E. reflexivity.
    - right. split; auto. split; [reflexivity|].
      assert (2 <= inject_Z (wt c)). { change 2 with (inject_Z 2). rewrite <- Zle_Qle. lia. }
      lra.
  Qed.

  (* the three outcomes of a step, with the arithmetic facts that select them (a = weight - wsf) *)
  Lemma seg_cases ci cj weight wsf :
    let a := weight - wsf in
    let dw := dwq ci cj in
    (wt ci = 1%Z /\ a < 1 # 2 /\ seg ci cj weight wsf = Some (mean ci)) \/
    (~ (wt ci = 1%Z /\ a < 1 # 2) /\ wt cj = 1%Z /\ dw - a <= 1 # 2 /\ seg ci cj weight wsf = Some (mean cj)) \/
    (~ (wt ci = 1%Z /\ a < 1 # 2) /\ ~ (wt cj = 1%Z /\ dw - a <= 1 # 2) /\
     exists z1 z2, seg ci cj weight wsf = Some (weighted_average QO (mean ci) z2 (mean cj) z1) /\
                   z1 == a - hw ci /\ z2 == dw - a - hw cj).
  Proof.
    cbv zeta. unfold seg. cbv zeta. fold (dwq ci cj). unfold hw.
    assert (Hh : nhalf QO == 1 # 2) by reflexivity.
    destruct (Z.eqb_spec (wt ci) 1) as [Ei|Ei]; cbn [andb].
    - destruct (nltb QO (nsub QO weight wsf) (nhalf QO)) eqn:A.
      + left. apply Lt in A. qr. split; [exact Ei|]. split; [lra|reflexivity].
      + right. apply Ge in A.
        assert (N1 : ~ (wt ci = 1%Z /\ weight - wsf < 1 # 2)). { intros [_ X]. qr. lra. }
        destruct (Z.eqb_spec (wt cj) 1) as [Ej|Ej]; cbn [andb].
        * destruct (nleb QO (nsub QO (nadd QO wsf (dwq ci cj)) weight) (nhalf QO)) eqn:B.
          -- left. apply Le in B. qr. split; [exact N1|]. split; [exact Ej|]. split; [lra|reflexivity].
          -- right. apply Gt in B. split; [exact N1|]. split. { intros [_ X]. qr. lra. }
             eexists. eexists. split; [reflexivity|]. qr. split; lra.
        * right. split; [exact N1|]. split. { intros [X _]. contradiction. }
          eexists. eexists. split; [reflexivity|]. qr. split; lra.
    - right. assert (N1 : ~ (wt ci = 1%Z /\ weight - wsf < 1 # 2)). { intros [X _]. contradiction. }
      destruct (Z.eqb_spec (wt cj) 1) as [Ej|Ej]; cbn [andb].
      + destruct (nleb QO (nsub QO (nadd QO wsf (dwq ci cj)) weight) (nhalf QO)) eqn:B.
        * left. apply Le in B. qr. split; [exact N1|]. split; [exact Ej|]. split; [lra|reflexivity].
        * right. apply Gt in B. split; [exact N1|]. split. { intros [_ X]. qr. lra. }
          eexists. eexists. split; [reflexivity|]. qr. split; lra.
      + right. split; [exact N1|]. split. { intros [X _]. contradiction. }
        eexists. eexists. split; [reflexivity|]. qr. split; lra.
  Qed.

  Lemma seg_range ci cj weight wsf r : mean ci <= mean cj -> seg ci cj weight wsf = Some r -> mean ci <= r /\ r <= mean cj.
  Proof.
    intros Hm E. destruct (seg_cases ci cj weight wsf) as [(_ & _ & S)|[(_ & _ & _ & S)|(_ & _ & z1 & z2 & S & _)]];
      rewrite S in E; inversion E; subst r.
    - split; [apply Qle_refl|auto].
    - split; [auto|apply Qle_refl].
    - apply wa_range; auto.
  Qed.

  Lemma seg_total ci cj weight wsf : exists r, seg ci cj weight wsf = Some r.
  Proof.
    destruct (seg_cases ci cj weight wsf) as [(_ & _ & S)|[(_ & _ & _ & S)|(_ & _ & z1 & z2 & S & _)]]; rewrite S; eauto.
  Qed.

  Lemma seg_mono ci cj w1 w2 wsf r1 r2 : (1 <= wt ci)%Z -> (1 <= wt cj)%Z -> mean ci <= mean cj ->
    w1 <= w2 -> w2 < wsf + dwq ci cj ->
    seg ci cj w1 wsf = Some r1 -> seg ci cj w2 wsf = Some r2 -> r1 <= r2.
  Proof.
    intros Hi Hj Hm H12 Hend E1 E2.
    pose proof (seg_range ci cj w1 wsf r1 Hm E1) as [R1a R1b].
    pose proof (seg_range ci cj w2 wsf r2 Hm E2) as [R2a R2b].
    pose proof (dwq_val ci cj) as Hdw.
    destruct (seg_cases ci cj w1 wsf) as [(A1 & A2 & S1)|[(A1 & A2 & A3 & S1)|(A1 & A2 & z1 & z2 & S1 & Z1 & Z2)]];
      rewrite S1 in E1; inversion E1; subst r1; clear E1.
    - exact R2a.
    - destruct (seg_cases ci cj w2 wsf) as [(B1 & B2 & S2)|[(B1 & B2 & B3 & S2)|(B1 & B2 & y1 & y2 & S2 & Y1 & Y2)]];
        rewrite S2 in E2; inversion E2; subst r2; clear E2.
      + exfalso. apply A1. split; auto. lra.
      + apply Qle_refl.
      + exfalso. apply B2. split; auto. lra.
    - destruct (seg_cases ci cj w2 wsf) as [(B1 & B2 & S2)|[(B1 & B2 & B3 & S2)|(B1 & B2 & y1 & y2 & S2 & Y1 & Y2)]];
        rewrite S2 in E2; inversion E2; subst r2; clear E2.
      + exfalso. apply A1. split; auto. lra.
      + exact R1b.
      + apply wa_mono; auto; try lra.
        destruct (hw_gap ci Hi) as [(Ei & Gi)|(Ei & Gi & Gi')]; destruct (hw_gap cj Hj) as [(Ej & Gj)|(Ej & Gj & Gj')].
        * (* two singletons: one of the two early exits was taken *)
          exfalso. destruct (Qlt_le_dec (w1 - wsf) (1 # 2)) as [X|X]; [apply A1; split; auto|].
          apply A2. split; auto. rewrite Ei, Ej in Hdw. change (inject_Z 1) with 1 in Hdw. lra.
        * lra.
        * lra.
        * lra.
  Qed.

  (* ---- the loop ---- *)
  Definition le_all (mx : Q) (l : list cq) : Prop := Forall (fun c => mean c <= mx) l.

  Lemma last_In (l : list cq) d : l <> [] -> In (last l d) l.
  Proof.
    intro H. destruct (@exists_last _ l H) as (l0 & a0 & E0). rewrite E0, last_last. apply in_or_app. right. left. reflexivity.
  Qed.
  Lemma last_cons_default : forall (t : list cq) c d, last (c :: t) d = last t c.
  Proof.
    induction t as [|a t IH]; intros c d; [reflexivity|].
    change (last (c :: a :: t) d) with (last (a :: t) d). change (last (a :: t) c) with (last (a :: t) c).
    rewrite (IH a d), (IH a c). reflexivity.
  Qed.
  Lemma SS_le_last l : forall d, StronglySorted mle l -> le_all (mean (last l d)) l.
  Proof.
    intros d Hs. induction Hs as [|x l Hl IHl Hx]; [constructor|].
    destruct l as [|y l'].
    - constructor; [apply Qle_refl|constructor].
    - constructor.
      + rewrite Forall_forall in Hx. apply (Hx (last (y :: l') d)). apply last_In. discriminate.
      + exact IHl.
  Qed.

  Lemma q_loop_range weight mx : forall cs c0 wsf r, StronglySorted mle (c0 :: cs) -> le_all mx (c0 :: cs) ->
    q_loop QO (c0 :: cs) weight wsf = Some r -> mean c0 <= r /\ r <= mx.
  Proof.
    induction cs as [|cj t IH]; intros c0 wsf r Hs Hmx E; [discriminate|].
    rewrite q_loop_cons in E.
    inversion Hs as [|? ? Hs' Hall]; subst. inversion Hall as [|? ? H0j _]; subst.
    inversion Hmx as [|? ? _ Hmx']; subst. inversion Hmx' as [|? ? Hjx _]; subst.
    destruct (nltb QO weight _) eqn:C.
    - destruct (seg_range c0 cj weight wsf r H0j E) as [A B]. split; auto. eapply Qle_trans; eauto.
    - destruct (IH cj _ r Hs' Hmx' E) as [A B]. split; auto. eapply Qle_trans; eauto.
  Qed.

  Lemma q_loop_mono : forall cs c0 wsf w1 w2 r1 r2, wpos (c0 :: cs) -> StronglySorted mle (c0 :: cs) ->
    w1 <= w2 ->
    q_loop QO (c0 :: cs) w1 wsf = Some r1 -> q_loop QO (c0 :: cs) w2 wsf = Some r2 -> r1 <= r2.
  Proof.
    induction cs as [|cj t IH]; intros c0 wsf w1 w2 r1 r2 Hw Hs H12 E1 E2; [discriminate|].
    rewrite q_loop_cons in E1, E2.
    inversion Hs as [|? ? Hs' Hall]; subst. inversion Hall as [|? ? H0j _]; subst.
    inversion Hw as [|? ? Hw0 Hw']; subst. inversion Hw' as [|? ? Hwj _]; subst.
    destruct (nltb QO w1 _) eqn:C1; destruct (nltb QO w2 _) eqn:C2.
    - apply Lt in C2. qr. exact (seg_mono c0 cj w1 w2 wsf r1 r2 Hw0 Hwj H0j H12 C2 E1 E2).
    - destruct (seg_range c0 cj w1 wsf r1 H0j E1) as [_ B].
      pose proof (SS_le_last (cj :: t) cj Hs') as Hall'.
      destruct (q_loop_range w2 _ t cj _ r2 Hs' Hall' E2) as [A _]. eapply Qle_trans; eauto.
    - exfalso. apply Ge in C1. apply Lt in C2. qr. lra.
    - eapply (IH cj _ w1 w2); eauto.
  Qed.

  (* where the loop ends: the centre of the last centroid *)
  Fixpoint endpos (c0 : cq) (cs : list cq) (wsf : Q) : Q :=
    match cs with
    | [] => wsf
    | cj :: t => endpos cj t (wsf + dwq c0 cj)
    end.

  Lemma q_loop_some weight : forall cs c0 wsf, wsf <= weight -> weight < endpos c0 cs wsf ->
    exists r, q_loop QO (c0 :: cs) weight wsf = Some r.
  Proof.
    induction cs as [|cj t IH]; intros c0 wsf H0 H; cbn [endpos] in H.
    - exfalso. lra.
    - rewrite q_loop_cons. destruct (nltb QO weight _) eqn:C.
      + apply seg_total.
      + apply Ge in C. apply IH; auto.
  Qed.

  Lemma endpos_val : forall cs c0 wsf,
    endpos c0 cs wsf == wsf - inject_Z (wt c0) * (1 # 2) + inject_Z (sumw QO (c0 :: cs)) - inject_Z (wt (last cs c0)) * (1 # 2).
  Proof.
    induction cs as [|cj t IH]; intros c0 wsf; cbn [endpos].
    - change (sumw QO [c0]) with (wt c0 + 0)%Z. rewrite Z.add_0_r. cbn [last]. lra.
    - rewrite IH. change (sumw QO (c0 :: cj :: t)) with (wt c0 + sumw QO (cj :: t))%Z.
      rewrite inject_Z_plus, dwq_val, last_cons_default. lra.
  Qed.

  Lemma sumw_nonneg (l : list cq) : wpos l -> (0 <= sumw QO l)%Z.
  Proof. induction 1 as [|x l Hx _ IH]; [reflexivity|]. change (sumw QO (x :: l)) with (wt x + sumw QO l)%Z. lia. Qed.

  (* ---- get_quantile on a compressed non-empty digest ---- *)
  Notation Good := (Good ln pinf ninf).

  Lemma good_shape mn mx cs cw : Good mn mx cs cw ->
    exists c0 t, cs = c0 :: t /\ wt c0 = 1%Z /\ mean c0 == mn /\
      wt (last t c0) = 1%Z /\ mean (last t c0) == mx /\ wpos cs /\ StronglySorted mle cs /\ cw = sumw QO cs.
  Proof.
    intros [C W (f & t & Ef & Mf) (la & t2 & El & Ml)]. exists f, t.
    assert (Hl : last t f = la).
    { rewrite <- (last_cons_default t f f), <- Ef, El. apply last_last. }
    rewrite Hl. repeat split; auto.
    - exact (ci_first _ _ _ _ C f t Ef).
    - exact (ci_last _ _ _ _ C la t2 El).
    - exact (ci_pos _ _ _ _ C).
    - exact (ci_sorted _ _ _ _ C).
  Qed.

  Definition wsf0 (cs : list cq) : Q := ndiv QO (nofZ QO (wt (cnth QO cs 0))) (n2 QO).

  (* the four ways get_quantile answers *)
  Lemma qc_char mn mx cs cw r : Good mn mx cs cw ->
    let weight := r * inject_Z cw in
    let q := quantile_core QO mn mx cs cw r in
    (q == mn /\ mn == mx) \/
    (2 <= inject_Z cw /\
     ((weight < 1 /\ q = mn) \/
      (1 <= weight /\ inject_Z cw - 1 < weight /\ q = mx) \/
      (1 <= weight /\ weight <= inject_Z cw - 1 /\ q_loop QO cs weight (wsf0 cs) = Some q))).
  Proof.
    intros G. destruct (good_shape mn mx cs cw G) as (c0 & t & -> & W0 & M0 & Wl & Ml & Hp & Hs & Hcw).
    cbv zeta. destruct t as [|c1 t'].
    - left. cbn [last] in *. unfold quantile_core. cbn [length Nat.eqb cnth nth]. split; [exact M0|]. rewrite <- M0. exact Ml.
    - right.
      assert (Hcw2 : 2 <= inject_Z cw).
      { subst cw. change (sumw QO (c0 :: c1 :: t')) with (wt c0 + (wt c1 + sumw QO t'))%Z.
        inversion Hp as [|? ? _ Hp1]; subst. inversion Hp1 as [|? ? H1 Hp2]; subst. pose proof (sumw_nonneg t' Hp2).
        change 2 with (inject_Z 2). rewrite <- Zle_Qle. lia. }
      split; [exact Hcw2|].
      assert (Hlast : last (c0 :: c1 :: t') (dflt QO) = last (c1 :: t') c0) by apply last_cons_default.
      unfold quantile_core, last_c, wsf0. cbn [length Nat.eqb cnth nth]. rewrite Hlast, W0, Wl.
      change (nltb QO (n1 QO) (nofZ QO 1)) with false. cbn [andb].
      destruct (nltb QO (nmul QO r (nofZ QO cw)) (n1 QO)) eqn:A.
      { left. apply Lt in A. qr. split; [exact A|reflexivity]. }
      apply Ge in A.
      destruct (nltb QO (nsub QO (nofZ QO cw) (n1 QO)) (nmul QO r (nofZ QO cw))) eqn:B.
      { right. left. apply Lt in B. qr. repeat split; auto. }
      apply Ge in B. right. right. qr.
      assert (Hw : 1 / 2 == 1 # 2) by reflexivity.
      destruct (q_loop_some (r * inject_Z cw) (c1 :: t') c0 (1 / 2)) as (q & Eq).
      + lra.
      + rewrite endpos_val, W0, Wl, <- Hcw. change (inject_Z 1) with 1. lra.
      + rewrite Eq. repeat split; auto.
  Qed.

  (* the statement after the loop of get_quantile (which averages the WEIGHT of the last centroid with max_) cannot execute:
     once min / max have answered for weight < 1 and weight > total - 1, the loop always finds its segment *)
  Theorem quantile_fallthrough_unreachable mn mx cs cw r : Good mn mx cs cw -> (2 <= length cs)%nat ->
    1 <= r * inject_Z cw -> r * inject_Z cw <= inject_Z cw - 1 ->
    q_loop QO cs (r * inject_Z cw) (wsf0 cs) <> None.
  Proof.
    intros G Hl A B. destruct (good_shape mn mx cs cw G) as (c0 & t & -> & W0 & M0 & Wl & Ml & Hp & Hs & Hcw).
    destruct t as [|c1 t']; [simpl in Hl; lia|].
    unfold wsf0. cbn [cnth nth]. rewrite W0. qr.
    assert (Hw : 1 / 2 == 1 # 2) by reflexivity.
    destruct (q_loop_some (r * inject_Z cw) (c1 :: t') c0 (1 / 2)) as (q & Eq).
    - lra.
    - rewrite endpos_val, W0, Wl, <- Hcw. change (inject_Z 1) with 1. lra.
    - rewrite Eq. discriminate.
  Qed.

  Lemma good_mn_le_mx mn mx cs cw : Good mn mx cs cw -> mn <= mx.
  Proof.
    intro G. destruct (good_shape mn mx cs cw G) as (c0 & t & -> & W0 & M0 & Wl & Ml & Hp & Hs & Hcw).
    rewrite <- M0, <- Ml. pose proof (SS_le_last (c0 :: t) c0 Hs) as H. rewrite last_cons_default in H.
    inversion H; auto.
  Qed.

  Lemma good_le_all mn mx cs cw : Good mn mx cs cw -> le_all mx cs.
  Proof.
    intro G. destruct (good_shape mn mx cs cw G) as (c0 & t & -> & W0 & M0 & Wl & Ml & Hp & Hs & Hcw).
    pose proof (SS_le_last (c0 :: t) c0 Hs) as H. rewrite last_cons_default in H.
    eapply Forall_impl; [|exact H]. cbv beta. intros a Ha. rewrite <- Ml. exact Ha.
  Qed.

  Theorem quantile_core_range mn mx cs cw r : Good mn mx cs cw ->
    mn <= quantile_core QO mn mx cs cw r /\ quantile_core QO mn mx cs cw r <= mx.
  Proof.
    intro G. pose proof (good_mn_le_mx _ _ _ _ G) as Hmm.
    destruct (qc_char mn mx cs cw r G) as [[E1 E2]|(_ & [(_ & E)|[(_ & _ & E)|(_ & _ & E)]])].
    - rewrite E1. split; [apply Qle_refl|exact Hmm].
    - rewrite E. split; [apply Qle_refl|exact Hmm].
    - rewrite E. split; [exact Hmm|apply Qle_refl].
    - destruct (good_shape mn mx cs cw G) as (c0 & t & -> & W0 & M0 & Wl & Ml & Hp & Hs & Hcw).
      destruct (q_loop_range _ mx t c0 _ _ Hs (good_le_all _ _ _ _ G) E) as [A B]. split; [|exact B].
      eapply Qle_trans; [|exact A]. apply Qle_lteq. right. symmetry. exact M0.
  Qed.

  Theorem quantile_core_mono mn mx cs cw r1 r2 : Good mn mx cs cw -> r1 <= r2 ->
    quantile_core QO mn mx cs cw r1 <= quantile_core QO mn mx cs cw r2.
  Proof.
    intros G H12.
    destruct (quantile_core_range mn mx cs cw r1 G) as [L1 U1]. destruct (quantile_core_range mn mx cs cw r2 G) as [L2 U2].
    destruct (qc_char mn mx cs cw r1 G) as [[E1 E2]|(Hcw & C1)].
    { rewrite E1. exact L2. }
    destruct (qc_char mn mx cs cw r2 G) as [[F1 F2]|(_ & C2)].
    { apply Qle_trans with mx; [exact U1|]. apply Qle_lteq. right. symmetry. apply Qeq_trans with mn; assumption. }
    assert (Hw : r1 * inject_Z cw <= r2 * inject_Z cw) by nra.
    destruct C1 as [(A1 & E1)|[(A1 & A2 & E1)|(A1 & A2 & E1)]].
    - rewrite E1. exact L2.
    - destruct C2 as [(B1 & E2)|[(B1 & B2 & E2)|(B1 & B2 & E2)]].
      + exfalso. lra.
      + rewrite E1, E2. apply Qle_refl.
      + exfalso. lra.
    - destruct C2 as [(B1 & E2)|[(B1 & B2 & E2)|(B1 & B2 & E2)]].
      + exfalso. lra.
      + rewrite E2. exact U1.
      + destruct (good_shape mn mx cs cw G) as (c0 & t & -> & W0 & M0 & Wl & Ml & Hp & Hs & _).
        exact (q_loop_mono t c0 _ _ _ _ _ Hp Hs Hw E1 E2).
  Qed.

  Theorem quantile_core_0 mn mx cs cw : Good mn mx cs cw -> quantile_core QO mn mx cs cw 0 == mn.
  Proof.
    intro G. destruct (qc_char mn mx cs cw 0 G) as [[E1 E2]|(Hcw & [(_ & E)|[(A & _)|(A & _)]])]; auto.
    - rewrite E. reflexivity.
    - exfalso. lra.
    - exfalso. lra.
  Qed.

  Theorem quantile_core_1 mn mx cs cw : Good mn mx cs cw -> quantile_core QO mn mx cs cw 1 == mx.
  Proof.
    intro G. destruct (qc_char mn mx cs cw 1 G) as [[E1 E2]|(Hcw & [(A & _)|[(_ & _ & E)|(_ & A & _)]])].
    - rewrite E1. exact E2.
    - exfalso. lra.
    - rewrite E. reflexivity.
    - exfalso. lra.
  Qed.

  (* ---- the public get_quantile on any reachable digest ---- *)
  Notation Inv := (Inv ln pinf ninf).

  Lemma td_quantile_eq (s : td QO) r q : snd (td_quantile QO s r) = Some q ->
    td_is_empty QO s = false /\
    let s' := td_compress QO s in q = quantile_core QO (t_min QO s') (t_max QO s') (t_cents QO s') (t_cw QO s') r.
  Proof.
    unfold td_quantile. destruct (td_is_empty QO s); [discriminate|].
    destruct (_ || _); [discriminate|]. cbn [snd]. intro H. inversion H. auto.
  Qed.

  Theorem td_quantile_range s vs r q : Inv s vs -> snd (td_quantile QO s r) = Some q ->
    t_min QO s <= q /\ q <= t_max QO s.
  Proof.
    intros I H. destruct (td_quantile_eq s r q H) as [Hne ->]. cbv zeta.
    pose proof (compress_Good ln pinf ninf s vs I Hne) as G. cbv zeta in G.
    pose proof (quantile_core_range _ _ _ _ r G) as [A B].
    pose proof (Inv_compress ln pinf ninf s vs I) as I'.
    assert (Hvs : vs <> []). { intro X. apply (i_empty _ _ _ _ _ I) in X. congruence. }
    destruct (i_gmin _ _ _ _ _ I Hvs) as [(x & Hx & Ex) Lx]. destruct (i_gmin _ _ _ _ _ I' Hvs) as [(x' & Hx' & Ex') Lx'].
    destruct (i_gmax _ _ _ _ _ I Hvs) as [(y & Hy & Ey) Ly]. destruct (i_gmax _ _ _ _ _ I' Hvs) as [(y' & Hy' & Ey') Ly'].
    split.
    - eapply Qle_trans; [|exact A]. rewrite <- Ex'. apply Lx. exact Hx'.
    - eapply Qle_trans; [exact B|]. rewrite <- Ey'. apply Ly. exact Hy'.
  Qed.

  Theorem td_quantile_mono s vs r1 r2 q1 q2 : Inv s vs -> r1 <= r2 ->
    snd (td_quantile QO s r1) = Some q1 -> snd (td_quantile QO s r2) = Some q2 -> q1 <= q2.
  Proof.
    intros I H12 H1 H2. destruct (td_quantile_eq s r1 q1 H1) as [Hne ->]. destruct (td_quantile_eq s r2 q2 H2) as [_ ->].
    cbv zeta. apply quantile_core_mono; auto. exact (compress_Good ln pinf ninf s vs I Hne).
  Qed.

  Theorem td_quantile_ends s vs : Inv s vs -> vs <> [] ->
    exists q0 q1, snd (td_quantile QO s 0) = Some q0 /\ snd (td_quantile QO s 1) = Some q1 /\
                  q0 == t_min QO s /\ q1 == t_max QO s.
  Proof.
    intros I Hvs.
    assert (Hne : td_is_empty QO s = false).
    { destruct (td_is_empty QO s) eqn:E; auto. apply (i_empty _ _ _ _ _ I) in E. contradiction. }
    pose proof (compress_Good ln pinf ninf s vs I Hne) as G. cbv zeta in G.
    pose proof (Inv_compress ln pinf ninf s vs I) as I'.
    destruct (i_gmin _ _ _ _ _ I Hvs) as [(x & Hx & Ex) Lx]. destruct (i_gmin _ _ _ _ _ I' Hvs) as [(x' & Hx' & Ex') Lx'].
    destruct (i_gmax _ _ _ _ _ I Hvs) as [(y & Hy & Ey) Ly]. destruct (i_gmax _ _ _ _ _ I' Hvs) as [(y' & Hy' & Ey') Ly'].
    assert (Emin : t_min QO (td_compress QO s) == t_min QO s).
    { apply Qle_antisym; [rewrite <- Ex; apply Lx'; exact Hx|rewrite <- Ex'; apply Lx; exact Hx']. }
    assert (Emax : t_max QO (td_compress QO s) == t_max QO s).
    { apply Qle_antisym; [rewrite <- Ey'; apply Ly; exact Hy'|rewrite <- Ey; apply Ly'; exact Hy]. }
    unfold td_quantile. rewrite Hne.
    change (nltb QO 0 (n0 QO) || nltb QO (n1 QO) 0) with false. change (nltb QO 1 (n0 QO) || nltb QO (n1 QO) 1) with false.
    cbn [snd]. eexists. eexists. split; [reflexivity|]. split; [reflexivity|]. split.
    - rewrite (quantile_core_0 _ _ _ _ G). exact Emin.
    - rewrite (quantile_core_1 _ _ _ _ G). exact Emax.
  Qed.
End Quantile.
