(* Properties_C11_cm.v — truncated or corrupted count-min images: every strict prefix of an image is rejected by both
   readers; what a reader accepts from ARBITRARY bytes is bounded by the bytes it was given, with the one documented
   exception of the EMPTY flag (the table is then built from the header fields alone). Only statements; proofs live
   in CodecCmProofs.v. The model is CodecCmDefs.v (the readers as repaired by fixes/11_count_min_reader_checks.patch;
   the unrepaired readers are in Regression_cmcodec.v); a read outside the supplied bytes is [rd] returning None,
   which makes the reader reject. *)
From Coq Require Import NArith List Bool Lia Arith.
From DS Require Import Word ThetaCodecDefs CodecCmDefs CodecCmProofs.
Import ListNotations.
Local Open Scope N_scope.

(* every strict prefix of the image of a well-formed sketch is rejected by both readers, whatever seed hash is
   expected *)
Theorem C11_cm_prefix_rejected : forall s, wf s -> forall e n, (n < length (enc s))%nat ->
  dec_bytes e (firstn n (enc s)) = None /\ dec_stream e (firstn n (enc s)) = None.
Proof. exact cm_prefix_rejected. Qed.

(* ARBITRARY bytes: the stream reader never consumes more than it was given *)
Theorem C11_cm_stream_used_bounded : forall e bytes s used,
  dec_stream e bytes = Some (s, used) -> (used <= length bytes)%nat.
Proof. exact cm_stream_used_bounded. Qed.

(* ARBITRARY bytes with the empty flag clear: the weight and every cell of an accepted sketch were inside the
   supplied bytes (the table size is checked against the remaining length before the table is built) *)
Theorem C11_cm_bytes_nonempty_bounded : forall e bytes s,
  dec_bytes e bytes = Some s -> N.testbit (nth 3 bytes 0) 0 = false ->
  (24 + 8 * length (c_cells s) <= length bytes)%nat.
Proof. exact cm_bytes_nonempty_bounded. Qed.

Theorem C11_cm_stream_nonempty_bounded : forall e bytes s used,
  dec_stream e bytes = Some (s, used) -> N.testbit (nth 3 bytes 0) 0 = false ->
  (24 + 8 * length (c_cells s) <= length bytes)%nat /\ used = (24 + 8 * length (c_cells s))%nat.
Proof. exact cm_stream_nonempty_bounded. Qed.

(* ARBITRARY bytes, either flag: an accepted sketch carries the expected seed hash and passed the constructor's
   checks (at least 3 buckets, fewer than 2^30 cells in uint32 arithmetic) with a full table *)
Theorem C11_cm_bytes_accepts_ctor : forall e bytes s, dec_bytes e bytes = Some s ->
  c_seed_hash s = e /\ 3 <= c_nb s /\ N.of_nat (length (c_cells s)) = ncells (c_nh s) (c_nb s) /\
  ncells (c_nh s) (c_nb s) < 1073741824.
Proof. exact cm_bytes_accepts_ctor. Qed.

Theorem C11_cm_stream_accepts_ctor : forall e bytes s used, dec_stream e bytes = Some (s, used) ->
  c_seed_hash s = e /\ 3 <= c_nb s /\ N.of_nat (length (c_cells s)) = ncells (c_nh s) (c_nb s) /\
  ncells (c_nh s) (c_nb s) < 1073741824.
Proof. exact cm_stream_accepts_ctor. Qed.

(* THE DOCUMENTED EXCEPTION (known finding "allocation from an unchecked count"): with the EMPTY flag set, the
   16 header bytes alone - followed by anything or nothing - make both readers build a table of nh*nb cells, for
   any nh < 256 and nb with nh*nb < 2^30: the size of what is built is not bounded by the input length. *)
Theorem C11_cm_empty_image_cells_unbounded : forall nh nb sh rest,
  nh < 256 -> 3 <= nb -> nb < two32 -> nh * nb < 1073741824 -> sh < 65536 ->
  length (empty_image nh nb sh) = 16%nat /\
  exists s, dec_bytes sh (empty_image nh nb sh ++ rest) = Some s /\
            dec_stream sh (empty_image nh nb sh ++ rest) = Some (s, 16%nat) /\
            length (c_cells s) = N.to_nat (nh * nb).
Proof. exact cm_empty_image_cells_unbounded. Qed.

(* non-vacuity *)
Definition C11_ex : cm := {| c_nh := 2; c_nb := 3; c_seed_hash := 37836; c_total := 5; c_cells := [1; 0; 4; 2; 3; 0] |}.
Example C11_ex_wf : wf C11_ex.
Proof.
  unfold wf. cbn [C11_ex c_nh c_nb c_seed_hash c_total c_cells].
  repeat split; try reflexivity; try discriminate; repeat (apply Forall_cons; [reflexivity|]); apply Forall_nil.
Qed.
Example C11_ex_prefixes :
  length (enc C11_ex) = 72%nat /\
  dec_bytes 37836 (enc C11_ex) = Some C11_ex /\
  dec_bytes 37836 (firstn 71 (enc C11_ex)) = None /\ dec_stream 37836 (firstn 71 (enc C11_ex)) = None /\
  dec_bytes 37836 (firstn 60 (enc C11_ex)) = None /\ dec_stream 37836 (firstn 60 (enc C11_ex)) = None /\
  dec_bytes 37836 (firstn 16 (enc C11_ex)) = None /\ dec_stream 37836 (firstn 16 (enc C11_ex)) = None /\
  dec_bytes 37836 (firstn 15 (enc C11_ex)) = None /\ dec_stream 37836 (firstn 15 (enc C11_ex)) = None.
Proof. vm_compute. repeat split. Qed.
(* corrupted bucket count (0xffff buckets claimed in a 72-byte image): rejected by both readers;
   corrupted family byte 19: rejected *)
Example C11_ex_corrupted :
  let img := firstn 8 (enc C11_ex) ++ [255; 255; 0; 0] ++ skipn 12 (enc C11_ex) in
  let img2 := set_nth 2 19 (enc C11_ex) in
  length img = 72%nat /\ dec_bytes 37836 img = None /\ dec_stream 37836 img = None /\
  dec_bytes 37836 img2 = None /\ dec_stream 37836 img2 = None.
Proof. vm_compute. repeat split. Qed.
(* the uint8 wrap of check_header_validity: the switch value is (flags & 1) + 2*ver + 4*fam + 32*(pre & 0x3f) in
   a uint8, and 4*82 mod 256 = 4*18, so family byte 82 (also 146, 210) passes for family 18: header_ok accepts it
   and the image still decodes *)
Example C11_ex_family_wrap :
  header_ok 2 1 82 0 = true /\ header_ok 2 1 19 0 = false /\
  dec_bytes 37836 (set_nth 2 82 (enc C11_ex)) = Some C11_ex.
Proof. vm_compute. repeat split. Qed.
(* the exception on a concrete header: 16 bytes claiming 255 x 4000000 cells are accepted with the empty flag;
   the same header with the flag clear is rejected *)
Example C11_ex_empty_header :
  (exists s, dec_bytes 37836 (empty_image 255 4000000 37836) = Some s /\ length (c_cells s) = N.to_nat 1020000000) /\
  dec_bytes 37836 (set_nth 3 0 (empty_image 255 4000000 37836)) = None /\
  dec_stream 37836 (set_nth 3 0 (empty_image 255 4000000 37836)) = None.
Proof.
  split; [|split; vm_compute; reflexivity].
  destruct (C11_cm_empty_image_cells_unbounded 255 4000000 37836 []) as (_ & s & Hb & _ & Hl); try reflexivity.
  - discriminate.
  - rewrite app_nil_r in Hb. exists s. split; assumption.
Qed.

Print Assumptions C11_cm_prefix_rejected.
Print Assumptions C11_cm_stream_used_bounded.
Print Assumptions C11_cm_bytes_nonempty_bounded.
Print Assumptions C11_cm_stream_nonempty_bounded.
Print Assumptions C11_cm_bytes_accepts_ctor.
Print Assumptions C11_cm_stream_accepts_ctor.
Print Assumptions C11_cm_empty_image_cells_unbounded.
