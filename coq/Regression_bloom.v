(* Regression_bloom.v — the three defects of filters/include/bloom_filter_impl.hpp that fixes/15_*.patch repair, kept as
   theorems about the code BEFORE the repairs ([wstep false] / [frun false], the [fx = false] variant of BloomDefs.v):
   each [_refuted] theorem exhibits a history on which the property of Properties_C15.v fails for the old code, and shows
   that the same history satisfies it in the repaired model.  Witnesses are checked by vm_compute with the XXH64 instance. *)
From Coq Require Import ZArith NArith List Bool Lia.
From DS Require Import Word XXHash64 RunnerLib BloomDefs BloomProofs.
Import ListNotations.

Definition o (l : list Z) : opline := (l, []).

(* what the property oracle checks on a transcript: S = [must; hazard; all bits set] on a query line *)
Definition no_false_negative (outs : list outline) : Prop :=
  Forall (fun out : outline => match out with (R, [1; _; _]%Z) => R = [1]%Z | _ => True end) outs.
(* S = [read_only; incompatible] on union / intersect / invert / reset lines *)
Definition readonly_writes_refused (outs : list outline) : Prop :=
  Forall (fun out : outline => match out with (R, [1; _]%Z) => R = refused | _ => True end) outs.

Ltac forall_dec := repeat (constructor; try exact I; try reflexivity).

(* ---------------------------------------------------------------------------------------------------------------- *)
(* 1. update through a filter in caller memory never marked the stored count                                          *)
(*    (fixes/15_bloom_update_marks_memory_dirty.patch)                                                               *)
(* ---------------------------------------------------------------------------------------------------------------- *)
Local Open Scope Z_scope.

(* block 101 of 48 bytes; initialize_by_size(100 bits, 3 hashes, seed 123) in it; update(uint64 5);
   wrap / writable_wrap / deserialize of the same block; query(5) in each *)
Definition hist_wrap_after_update : list opline :=
  map o [[2; 101; 48]; [3; 1; 101; 100; 3; 123]; [4; 1; 0; 5];
         [16; 2; 101]; [5; 2; 0; 5]; [17; 3; 101]; [5; 3; 0; 5]; [15; 4; 101; 0]; [5; 4; 0; 5]].

Theorem wrap_after_update_refuted :
  exists ops, ~ no_false_negative (run_old ops) /\ no_false_negative (run ops).
Proof.
  exists hist_wrap_after_update. split.
  - intros Hf. vm_compute in Hf.
    inversion Hf as [|? ? _ Hf1]; subst. inversion Hf1 as [|? ? _ Hf2]; subst. inversion Hf2 as [|? ? _ Hf3]; subst.
    inversion Hf3 as [|? ? _ Hf4]; subst. inversion Hf4 as [|? ? Hbad _]; subst. discriminate Hbad.
  - vm_compute. forall_dec.
Qed.

Local Open Scope N_scope.

(* the same at the level of one object: after update() the count stored in the memory is neither the dirty marker nor exact,
   and both kinds of wrap and deserialize of that memory answer "absent" (old code); C15_memory_image_always_consistent
   and C15_no_false_negative_in_any_view hold for the repaired code *)
Definition r_s0 : cst := mkS (mkF 123 3 128 false false 0 (Some 101%Z) 0) 0 0.
Definition r_idx := indices_of xxh64 (s_f r_s0).
Definition r_x : item := N_to_le_bytes 8 5.

Theorem memory_image_consistent_refuted :
  exists ops, is_wview r_s0 /\ inv 128 r_s0 /\ minv r_s0 /\ Forall (op_ok 128) ops /\
    ~ minv (frun false r_idx ops r_s0) /\
    squery r_idx (wrap_view (frun false r_idx ops r_s0) true) r_x = false /\
    squery r_idx (wrap_view (frun false r_idx ops r_s0) false) r_x = false /\
    squery r_idx (deser_view (frun false r_idx ops r_s0)) r_x = false /\
    squery r_idx (wrap_view (frun true r_idx ops r_s0) true) r_x = true.
Proof.
  exists [FUpdate r_x]. split; [split; [discriminate|reflexivity]|].
  split; [apply fresh_inv|]. split; [apply fresh_minv|]. split; [repeat constructor|].
  split.
  - intros [_ Hd]. vm_compute in Hd. specialize (Hd eq_refl). discriminate Hd.
  - vm_compute. repeat split; reflexivity.
Qed.

(* ---------------------------------------------------------------------------------------------------------------- *)
(* 2. query_and_update on a filter whose cached count is stale stored the stale count and cleared is_dirty_            *)
(*    (fixes/15_bloom_qau_keeps_dirty.patch)                                                                         *)
(* ---------------------------------------------------------------------------------------------------------------- *)
Local Open Scope Z_scope.

(* an OWNED filter: update(5); query_and_update(5); query(5) *)
Definition hist_qau_on_dirty : list opline :=
  map o [[1; 1; 100; 3; 123]; [4; 1; 0; 5]; [6; 1; 0; 5]; [5; 1; 0; 5]; [11; 1]].

(* deserialize of a dirty image, then query_and_update: 0xFFFFFFFFFFFFFFFF + 1 wraps to 0 *)
Definition hist_qau_after_dirty_deserialize : list opline :=
  map o [[1; 1; 64; 1; 123]; [4; 1; 0; 5]; [2; 101; 64]; [14; 1; 101; 0]; [15; 2; 101; 0]; [6; 2; 0; 6];
         [5; 2; 0; 5]; [5; 2; 0; 6]].

Theorem qau_on_dirty_refuted :
  exists ops, ~ no_false_negative (run_old ops) /\ no_false_negative (run ops).
Proof.
  exists hist_qau_on_dirty. split.
  - intros Hf. vm_compute in Hf.
    inversion Hf as [|? ? _ Hf1]; subst. inversion Hf1 as [|? ? _ Hf2]; subst. inversion Hf2 as [|? ? _ Hf3]; subst.
    inversion Hf3 as [|? ? Hbad _]; subst. discriminate Hbad.
  - vm_compute. forall_dec.
Qed.

Theorem qau_after_dirty_deserialize_refuted :
  exists ops, ~ no_false_negative (run_old ops) /\ no_false_negative (run ops).
Proof.
  exists hist_qau_after_dirty_deserialize. split.
  - intros Hf. vm_compute in Hf.
    do 6 (match type of Hf with Forall _ (_ :: _) => inversion Hf as [|? ? _ Hf']; subst; clear Hf; rename Hf' into Hf end).
    inversion Hf as [|? ? Hbad _]; subst. discriminate Hbad.
  - vm_compute. forall_dec.
Qed.

(* get_bits_used() after that history reports 0 although 3 bits are set (old code), 3 in the repaired model *)
Theorem qau_on_dirty_count_refuted :
  nth 4 (run_old hist_qau_on_dirty) ([], []) = ([0], [3]) /\ nth 4 (run hist_qau_on_dirty) ([], []) = ([3], [3]).
Proof. vm_compute. split; reflexivity. Qed.

Local Open Scope N_scope.

(* the exact negation of C15_no_false_negative_in_any_view for the old code; the view is the filter itself *)
Theorem no_false_negative_refuted_old :
  ~ (forall (H : list N -> N -> N) s0 pre ins post x v,
       let idx := indices_of H (s_f s0) in
       let cap := f_cap (s_f s0) in
       cap <> 0 -> cap < two64 -> f_nh (s_f s0) <> 0 ->
       inv cap s0 -> f_ro (s_f s0) = false ->
       inserts ins x -> Forall monotone post -> Forall (op_ok cap) (pre ++ ins :: post) ->
       view_of idx cap (frun false idx (pre ++ ins :: post) s0) v -> squery idx v x = true).
Proof.
  intros P.
  specialize (P xxh64 (mkS (mkF 123 3 128 false false 0 None 0) 0 0) [FUpdate r_x] (FQau r_x) [] r_x
                (frun false r_idx [FUpdate r_x; FQau r_x] (mkS (mkF 123 3 128 false false 0 None 0) 0 0))).
  cbv zeta in P.
  assert (E : squery (indices_of xxh64 (mkF 123 3 128 false false 0 None 0))
                (frun false r_idx [FUpdate r_x; FQau r_x] (mkS (mkF 123 3 128 false false 0 None 0) 0 0)) r_x = false)
    by (vm_compute; reflexivity).
  cbn [s_f f_cap f_nh f_ro app] in P. rewrite E in P.
  assert (T : false = true); [|discriminate T].
  apply P.
  - discriminate.
  - reflexivity.
  - discriminate.
  - apply fresh_inv.
  - reflexivity.
  - right. reflexivity.
  - constructor.
  - repeat constructor.
  - apply V_copy; reflexivity.
Qed.

(* ---------------------------------------------------------------------------------------------------------------- *)
(* 3. union_with / intersect / invert through a read-only wrap were not refused                                       *)
(*    (fixes/15_bloom_readonly_setops_refused.patch)                                                                 *)
(* ---------------------------------------------------------------------------------------------------------------- *)
Local Open Scope Z_scope.

(* serialize a non-empty filter into block 101, wrap it read-only, union_with / invert / intersect through the wrap *)
Definition hist_readonly_setops : list opline :=
  map o [[1; 1; 100; 3; 123]; [6; 1; 0; 5]; [2; 101; 48]; [14; 1; 101; 0]; [16; 2; 101];
         [1; 3; 100; 3; 123]; [6; 3; 0; 77]; [7; 2; 3]; [13; 2]; [9; 2]; [8; 2; 3]; [16; 4; 101]; [5; 4; 0; 5]; [11; 4]].

Theorem readonly_setops_refuted :
  exists ops, ~ readonly_writes_refused (run_old ops) /\ readonly_writes_refused (run ops).
Proof.
  exists hist_readonly_setops. split.
  - intros Hf. vm_compute in Hf.
    do 7 (match type of Hf with Forall _ (_ :: _) => inversion Hf as [|? ? _ Hf']; subst; clear Hf; rename Hf' into Hf end).
    inversion Hf as [|? ? Hbad _]; subst. discriminate Hbad.
  - vm_compute. forall_dec.
Qed.

(* ... and they wrote into the "const" memory: the bit array seen through the read-only wrap changed (old code) *)
Theorem readonly_setops_wrote_memory_old :
  nth 8 (run_old hist_readonly_setops) ([], []) = ([4; 6; 28; 98; 113; 115], []) /\
  nth 8 (run hist_readonly_setops) ([], []) = ([4; 98; 115], []).
Proof. vm_compute. split; reflexivity. Qed.

Theorem readonly_setops_not_refused_old : forall f bits o,
  core_union false f bits o <> None /\ core_intersect false f bits o <> None /\ core_invert false f bits <> None.
Proof. exact readonly_setops_not_refused. Qed.

(* ---------------------------------------------------------------------------------------------------------------- *)
(* 4. deserialize / wrap computed the capacity as num_longs << 6 on uint32_t                                          *)
(*    (fixes/15_bloom_deserialize_capacity_64bit.patch)                                                              *)
(* ---------------------------------------------------------------------------------------------------------------- *)
Local Open Scope N_scope.

(* an (empty) filter of 2^32 + 64 bits -- a size the constructor accepts -- is restored with capacity 64 by the old code;
   the repaired code restores the capacity (C15_deserialize_serialize_empty) *)
Definition big_f : filt := mkF 123 3 (2 ^ 32 + 64) false false 0 None 0.

Theorem deserialize_capacity_refuted :
  exists f, cfg_ok f /\ f_nh f <> 0 /\ f_cap f <= MAX_BITS /\ is_empty f = true /\
    new_owned (f_cap f) (f_nh f) (f_seed f) = Some f /\
    (forall stream, option_map f_cap (deser_filt false (serialize f 0) stream) = Some 64) /\
    option_map f_cap (wrap_filt false (serialize f 0) 0%Z false) = Some 64 /\
    (forall stream, option_map f_cap (deser_filt true (serialize f 0) stream) = Some (f_cap f)).
Proof.
  exists big_f. split; [|split; [|split; [|split; [|split; [|split; [|split]]]]]].
  - unfold cfg_ok. cbn. repeat split; try reflexivity; discriminate.
  - discriminate.
  - unfold MAX_BITS. cbn. discriminate.
  - reflexivity.
  - vm_compute. reflexivity.
  - intros [|]; vm_compute; reflexivity.
  - vm_compute. reflexivity.
  - intros [|]; vm_compute; reflexivity.
Qed.

(* a filter of exactly 2^32 bits could not be restored at all: the truncated capacity is 0 and the constructor refuses it *)
Theorem deserialize_capacity_refused_old :
  deser_filt false (serialize (mkF 123 3 (2 ^ 32) false false 0 None 0) 0) false = None /\
  option_map f_cap (deser_filt true (serialize (mkF 123 3 (2 ^ 32) false false 0 None 0) 0) false) = Some (2 ^ 32).
Proof. vm_compute. split; reflexivity. Qed.

(* for a non-empty filter the truncated capacity changes every index: an image of 2^26 + 1 longs (2^32 + 64 bits) is
   restored as a filter that takes its indices modulo 64 (run against /repo: 0 of 100 inserted items were reported) *)
Lemma parse_old_capacity : forall d ro wrap stream c nh seed nbs nbytes,
  parse false d ro wrap stream = PFull c nh seed nbs nbytes -> c = round_cap (w32 (N.shiftl (rd d 16 4) 6)).
Proof.
  intros d ro wrap stream c nh seed nbs nbytes Hp. unfold parse in Hp.
  repeat match type of Hp with (if ?b then _ else _) = _ => destruct b; try discriminate Hp end.
  congruence.
Qed.

Theorem deserialize_capacity_indices_old : forall c nh seed nbs nbytes d,
  parse false d false false false = PFull c nh seed nbs nbytes -> rd d 16 4 = 67108865 -> c = 64.
Proof.
  intros c nh seed nbs nbytes d Hp Hn. rewrite (parse_old_capacity _ _ _ _ _ _ _ _ _ Hp), Hn. vm_compute. reflexivity.
Qed.

Print Assumptions wrap_after_update_refuted.
Print Assumptions deserialize_capacity_refuted.
Print Assumptions deserialize_capacity_refused_old.
Print Assumptions deserialize_capacity_indices_old.
Print Assumptions memory_image_consistent_refuted.
Print Assumptions qau_on_dirty_refuted.
Print Assumptions qau_after_dirty_deserialize_refuted.
Print Assumptions qau_on_dirty_count_refuted.
Print Assumptions no_false_negative_refuted_old.
Print Assumptions readonly_setops_refuted.
Print Assumptions readonly_setops_wrote_memory_old.
Print Assumptions readonly_setops_not_refused_old.
