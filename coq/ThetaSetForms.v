(* ThetaSetForms.v — the sketches the API hands to the set operations are well-formed inputs, and every physical
   form of one sketch is the same sample: an update sketch reached by ANY history of update/trim/reset (C01), its
   compact forms (ordered or not), and compact copies of those. *)
From Coq Require Import ZArith NArith List Bool Lia Permutation Sorted Arith.
From DS Require Import Word RunnerLib OpenAddr KSmallest Canon ThetaDefs ThetaProofs ThetaRefine ThetaFacts ThetaSetDefs ThetaSetWf ThetaSetANotB.
Import ListNotations.
Local Open Scope N_scope.

Section Forms.
  Variable S : Type.
  Variable sel : nat -> list (N * S) -> list (N * S).
  Hypothesis sel_ok : forall k l, (k < length l)%nat -> nth_post fst k l (sel k l).
  Variables lgn r th0 : N.
  Hypothesis lgn_ge : 5 <= lgn.
  Notation run := (run_ops S sel lgn r th0).

  (* an update sketch, as the set operations see it *)
  Theorem wf_input_of_sketch sh ops : wf (input_of_sketch S sh (run ops)).
  Proof.
    set (s := run ops).
    destruct (refines S sel sel_ok lgn r th0 lgn_ge ops) as (Hnd & Hset & Hnum). fold s in Hnd, Hset, Hnum.
    destruct (reported_theta S sel sel_ok lgn r th0 lgn_ge ops) as [Hemp Hnon]. fold s in Hemp, Hnon.
    pose proof (empty_iff_nothing_offered S sel sel_ok lgn r th0 lgn_ge ops) as Hiff. fold s in Hiff.
    assert (Hnil : is_empty s = true -> entries S s = []).
    { intros E. destruct (Hemp (proj1 Hiff E)) as [_ Hn]. rewrite Hnum in Hn. unfold keys in Hn. rewrite map_length in Hn.
      destruct (entries S s); auto. simpl in Hn. lia. }
    constructor; unfold input_of_sketch, in_keys; cbn [in_theta in_empty in_ordered in_entries].
    - exact Hnd.
    - intros h Hh. pose proof Hh as Hh2. apply Hset in Hh. destruct Hh as [Hseen Hr]. rewrite Hnon; auto.
      intros E. rewrite E in Hseen. destruct Hseen.
    - intros Ho. apply short_klt_sorted. unfold is_ordered in Ho. apply negb_true_iff, N.ltb_ge in Ho.
      unfold keys in Hnum. rewrite map_length in Hnum. lia.
    - intros E. split; [now apply Hnil|]. apply Hemp, Hiff, E.
  Qed.

  (* every compact form of it (ordered or not, and compact copies of compact forms) is well formed and is the
     same sample: same theta, same emptiness, same keys *)
  Theorem forms_same_sample sh ops o1 o2 :
    let i := input_of_sketch S sh (run ops) in
    let c1 := compact_copy S i o1 in
    let c2 := compact_copy S c1 o2 in
    wf c1 /\ wf c2 /\ same_sample i c1 /\ same_sample i c2 /\
    (o1 = true -> in_ordered c1 = true) /\ (o2 = true -> in_ordered c2 = true).
  Proof.
    intros i c1 c2. pose proof (wf_input_of_sketch sh ops) as Hwi. fold i in Hwi.
    destruct (compact_copy_same S i o1 Hwi) as (Ht1 & He1 & Hp1 & Ho1 & Hw1). fold c1 in Ht1, He1, Hp1, Ho1, Hw1.
    destruct (compact_copy_same S c1 o2 Hw1) as (Ht2 & He2 & Hp2 & Ho2 & Hw2). fold c2 in Ht2, He2, Hp2, Ho2, Hw2.
    split; [exact Hw1|]. split; [exact Hw2|]. split; [|split; [|split; [exact Ho1|exact Ho2]]].
    - split; [congruence|]. split; [congruence|]. intros h. unfold in_keys. symmetry.
      apply perm_in_iff, Permutation_map, Hp1.
    - split; [congruence|]. split; [congruence|]. intros h. unfold in_keys. symmetry.
      apply perm_in_iff, Permutation_map. eapply perm_trans; eauto.
  Qed.
End Forms.
