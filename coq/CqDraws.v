(* CqDraws.v — the number and the arities of the random draws of the classic quantiles sketch do not depend on their
   outcomes (nor on the item values): every control decision of update / merge reads only k, n, bit_pattern and the
   sizes of the buffers, and those evolve independently of the outcomes. *)
From Coq Require Import ZArith List Bool Lia.
From DS Require Import RunnerLib SortedView CqDefs CqProofs CqView CqUnbiased.
Import ListNotations.
Local Open Scope Z_scope.

(* a branch of the choice tree: the arities of the draws made along it and the result *)
Inductive path {A} : M A -> list Z -> A -> Prop :=
| path_ret a : path (Ret a) [] a
| path_draw n k c ar a : 0 <= c < n -> path (k c) ar a -> path (Draw n k) (n :: ar) a.

Lemma path_ret_inv {A} (a b : A) ar : path (Ret a) ar b -> ar = [] /\ b = a.
Proof. inversion 1; auto. Qed.

Lemma path_draw_inv {A} n (k : Z -> M A) ar b : path (Draw n k) ar b ->
  exists c ar', 0 <= c < n /\ ar = n :: ar' /\ path (k c) ar' b.
Proof. inversion 1; subst; eauto. Qed.

Lemma path_bind {A B} (m : M A) (f : A -> M B) ar b :
  path (bind m f) ar b -> exists a ar1 ar2, path m ar1 a /\ path (f a) ar2 b /\ ar = ar1 ++ ar2.
Proof.
  revert ar b; induction m as [a|n k IH]; cbn [bind]; intros ar b H.
  - exists a, [], ar. repeat split; auto. constructor.
  - apply path_draw_inv in H as (c & ar' & Hc & -> & H). apply IH in H as (a & ar1 & ar2 & H1 & H2 & ->).
    exists a, (n :: ar1), ar2. repeat split; auto. econstructor; eauto.
Qed.

Lemma path_leaf {A} (m : M A) ar a : path m ar a -> leaf m a.
Proof. induction 1; econstructor; eauto. Qed.

Lemma leaf_path {A} (m : M A) a : leaf m a -> exists ar, path m ar a.
Proof. induction 1 as [a|n k c a Hc _ [ar IH]]; [exists []; constructor|exists (n :: ar); econstructor; eauto]. Qed.

(* replaying reported outcomes consumes exactly one token per draw of the branch *)
Lemma replay_path {A} (m : M A) : forall cs a rest, replay m cs = Some (a, rest) ->
  exists ar, path m ar a /\ length cs = (length ar + length rest)%nat.
Proof.
  induction m as [a0|n k IH]; cbn [replay]; intros cs a rest H.
  - inversion H; subst. exists []. split; [constructor|reflexivity].
  - destruct cs as [|c cs]; [discriminate|].
    destruct ((0 <=? c) && (c <? n)) eqn:E; [|discriminate].
    apply andb_true_iff in E as [E1 E2]. apply Z.leb_le in E1. apply Z.ltb_lt in E2.
    apply IH in H as (ar & P & L). exists (n :: ar). split; [econstructor; eauto|simpl; lia].
Qed.

(* two computations make the same draws (same number, same arities) along ALL their branches and end in related results *)
Definition DetR {A B} (Rab : A -> B -> Prop) (m1 : M A) (m2 : M B) : Prop :=
  forall ar1 a1 ar2 a2, path m1 ar1 a1 -> path m2 ar2 a2 -> ar1 = ar2 /\ Rab a1 a2.

Lemma DetR_ret {A B} (Rab : A -> B -> Prop) a b : Rab a b -> DetR Rab (Ret a) (Ret b).
Proof. intros H ar1 a1 ar2 a2 P1 P2. apply path_ret_inv in P1 as [-> ->]. apply path_ret_inv in P2 as [-> ->]. auto. Qed.

Lemma DetR_bind {A B A' B'} (R1 : A -> B -> Prop) (R2 : A' -> B' -> Prop) m1 m2 (f1 : A -> M A') (f2 : B -> M B') :
  DetR R1 m1 m2 -> (forall a b, R1 a b -> DetR R2 (f1 a) (f2 b)) -> DetR R2 (bind m1 f1) (bind m2 f2).
Proof.
  intros H1 H2 ar1 a1 ar2 a2 P1 P2.
  apply path_bind in P1 as (x & u1 & v1 & P1 & Q1 & ->). apply path_bind in P2 as (y & u2 & v2 & P2 & Q2 & ->).
  destruct (H1 _ _ _ _ P1 P2) as [-> Rxy]. destruct (H2 _ _ Rxy _ _ _ _ Q1 Q2) as [-> Rab]. auto.
Qed.

Lemma DetR_draw {A B} (Rab : A -> B -> Prop) n (k1 : Z -> M A) (k2 : Z -> M B) :
  (forall c1 c2, DetR Rab (k1 c1) (k2 c2)) -> DetR Rab (Draw n k1) (Draw n k2).
Proof.
  intros H ar1 a1 ar2 a2 P1 P2.
  apply path_draw_inv in P1 as (c1 & u1 & _ & -> & P1). apply path_draw_inv in P2 as (c2 & u2 & _ & -> & P2).
  destruct (H c1 c2 _ _ _ _ P1 P2) as [-> Rab']. auto.
Qed.

Definition any {A B} : A -> B -> Prop := fun _ _ => True.
Definition same_len {A B} (a : list A) (b : list B) : Prop := length a = length b.

Lemma zip_det b1 b2 : DetR (@any (list Z) (list Z)) (zip b1) (zip b2).
Proof. unfold zip. apply DetR_draw. intros. apply DetR_ret. exact I. Qed.

Lemma zip_stride_det b1 b2 stride : DetR (@any (list Z) (list Z)) (zip_stride b1 stride) (zip_stride b2 stride).
Proof. unfold zip_stride. apply DetR_draw. intros. apply DetR_ret. exact I. Qed.

(* ---------- what the control flow reads ---------- *)
Definition ctl (s : cq) : Z * Z * Z * nat * nat := (ck s, cn s, cbp s, length (cbb s), length (clv s)).
Definition Csim (s1 s2 : cq) : Prop := ctl s1 = ctl s2.

Lemma Csim_fields s1 s2 : Csim s1 s2 ->
  ck s1 = ck s2 /\ cn s1 = cn s2 /\ cbp s1 = cbp s2 /\ length (cbb s1) = length (cbb s2) /\ length (clv s1) = length (clv s2).
Proof. unfold Csim, ctl. intro H. inversion H. auto. Qed.

Lemma carry_in_det : forall lv1 lv2 c1 c2 bp, same_len lv1 lv2 ->
  DetR same_len (carry_in c1 bp lv1) (carry_in c2 bp lv2).
Proof.
  unfold same_len. induction lv1 as [|l1 r1 IH]; intros [|l2 r2] c1 c2 bp H; try discriminate; cbn [carry_in].
  - apply DetR_ret. reflexivity.
  - simpl in H. destruct (Z.odd bp).
    + eapply DetR_bind; [apply zip_det|]. intros a b _.
      eapply DetR_bind; [apply IH; lia|]. intros a' b' H'. apply DetR_ret. unfold same_len in *. simpl. lia.
    + apply DetR_ret. simpl. lia.
Qed.

Lemma carry_at_det : forall start lv1 lv2 c1 c2 bp, same_len lv1 lv2 ->
  DetR same_len (carry_at start c1 bp lv1) (carry_at start c2 bp lv2).
Proof.
  induction start as [|st IH]; intros lv1 lv2 c1 c2 bp H; cbn [carry_at]; [now apply carry_in_det|].
  unfold same_len in H. destruct lv1 as [|l1 r1], lv2 as [|l2 r2]; try discriminate.
  - apply DetR_ret. reflexivity.
  - simpl in H. eapply DetR_bind; [apply IH; unfold same_len; lia|].
    intros a b H'. apply DetR_ret. unfold same_len in *. simpl. lia.
Qed.

Lemma propagate_det start k1 k2 b1 b2 upd s1 s2 : Csim s1 s2 ->
  DetR Csim (propagate start k1 b1 upd s1) (propagate start k2 b2 upd s2).
Proof.
  intro H. destruct (Csim_fields _ _ H) as (Ek & En & Eb & Ebb & Elv). unfold propagate.
  apply (DetR_bind (@any (list Z) (list Z))).
  - destruct upd; [apply zip_det|apply DetR_ret; exact I].
  - intros c1 c2 _. rewrite Eb. eapply DetR_bind; [apply carry_at_det; exact Elv|].
    intros a b H'. apply DetR_ret. unfold Csim, ctl, set_lv, same_len in *. cbn [ck cn cbp cbb clv].
    rewrite ?Ek, ?En, ?Ebb, ?H'. reflexivity.
Qed.

Lemma grow_levels_det s1 s2 : Csim s1 s2 -> Csim (grow_levels s1) (grow_levels s2).
Proof.
  intro H. destruct (Csim_fields _ _ H) as (Ek & En & Eb & Ebb & Elv). unfold grow_levels.
  rewrite Ek, En, Elv. destruct (Nat.eqb _ 0); [exact H|]. destruct (Nat.leb _ _); [exact H|].
  unfold Csim, ctl, set_lv. cbn [ck cn cbp cbb clv]. rewrite ?app_length, ?Ek, ?En, ?Eb, ?Ebb, ?Elv. reflexivity.
Qed.

Lemma update_det s1 s2 x1 x2 : Csim s1 s2 -> DetR Csim (update s1 x1) (update s2 x2).
Proof.
  intro H. destruct (Csim_fields _ _ H) as (Ek & En & Eb & Ebb & Elv). unfold update.
  assert (El : len (cbb s1 ++ [x1]) = len (cbb s2 ++ [x2])) by (unfold len; rewrite !app_length, Ebb; reflexivity).
  rewrite El, Ek. destruct (Z.eqb _ _).
  - unfold process_full.
    match goal with |- DetR _ (bind (propagate _ _ _ _ (grow_levels ?A)) _) (bind (propagate _ _ _ _ (grow_levels ?B)) _) =>
      assert (G : Csim (grow_levels A) (grow_levels B)) end.
    { apply grow_levels_det. unfold Csim, ctl. cbn [ck cn cbp cbb clv]. rewrite ?app_length, ?Ek, ?En, ?Eb, ?Ebb, ?Elv. reflexivity. }
    eapply DetR_bind; [apply propagate_det; exact G|].
    intros a b H'. apply DetR_ret. destruct (Csim_fields _ _ H') as (Fk & Fn & Fb & Fbb & Flv).
    unfold Csim, ctl. cbn [ck cn cbp cbb clv]. rewrite ?Fk, ?Fn, ?Fb, ?Flv. reflexivity.
  - apply DetR_ret. unfold Csim, ctl. cbn [ck cn cbp cbb clv]. rewrite ?app_length, ?Ek, ?En, ?Eb, ?Ebb, ?Elv. reflexivity.
Qed.

Lemma updates_det : forall xs1 xs2 s1 s2, same_len xs1 xs2 -> Csim s1 s2 -> DetR Csim (updates s1 xs1) (updates s2 xs2).
Proof.
  unfold same_len. induction xs1 as [|x1 r1 IH]; intros [|x2 r2] s1 s2 H Hs; try discriminate; cbn [updates].
  - now apply DetR_ret.
  - simpl in H. eapply DetR_bind; [apply update_det; exact Hs|]. intros a b H'. apply IH; [lia|exact H'].
Qed.

Lemma merge_levels_det (f1 f2 : nat -> list Z -> cq -> M cq) :
  (forall lvl l1 l2 t1 t2, Csim t1 t2 -> DetR Csim (f1 lvl l1 t1) (f2 lvl l2 t2)) ->
  forall src1 src2 lvl pat t1 t2, same_len src1 src2 -> Csim t1 t2 ->
  DetR Csim (merge_levels f1 lvl pat src1 t1) (merge_levels f2 lvl pat src2 t2).
Proof.
  intro Hf. unfold same_len. induction src1 as [|l1 r1 IH]; intros [|l2 r2] lvl pat t1 t2 H Ht; try discriminate; cbn [merge_levels].
  - now apply DetR_ret.
  - simpl in H. apply (DetR_bind Csim).
    + destruct (Z.odd pat); [now apply Hf|now apply DetR_ret].
    + intros a b H'. apply IH; [lia|exact H'].
Qed.

Lemma merge_with_det f1 f2 tgt1 tgt2 src1 src2 :
  (forall lvl l1 l2 t1 t2, Csim t1 t2 -> DetR Csim (f1 lvl l1 t1) (f2 lvl l2 t2)) ->
  Csim tgt1 tgt2 -> Csim src1 src2 -> DetR Csim (merge_with f1 tgt1 src1) (merge_with f2 tgt2 src2).
Proof.
  intros Hf Ht Hs. destruct (Csim_fields _ _ Hs) as (Ek & En & Eb & Ebb & Elv).
  destruct (Csim_fields _ _ Ht) as (Tk & Tn & Tb & Tbb & Tlv).
  unfold merge_with. rewrite En. destruct (Z.eqb _ 0); [now apply DetR_ret|].
  eapply DetR_bind; [apply updates_det; [exact Ebb|exact Ht]|].
  intros a b H'. destruct (Csim_fields _ _ H') as (Fk & Fn & Fb & Fbb & Flv).
  rewrite Tn, Eb, Fk.
  eapply DetR_bind.
  - apply merge_levels_det; [exact Hf|exact Elv|].
    unfold Csim, ctl, set_lv, grow_to. cbn [ck cn cbp cbb clv]. rewrite ?app_length, ?repeat_length, ?Fk, ?Fn, ?Fb, ?Fbb, ?Flv. reflexivity.
  - intros a' b' H''. apply DetR_ret. destruct (Csim_fields _ _ H'') as (Gk & Gn & Gb & Gbb & Glv).
    unfold Csim, ctl, finish_merge. cbn [ck cn cbp cbb clv]. rewrite ?Gk, ?Gb, ?Gbb, ?Glv. reflexivity.
Qed.

Theorem merge_det s1 s2 o1 o2 : Csim s1 s2 -> Csim o1 o2 -> DetR Csim (merge s1 o1) (merge s2 o2).
Proof.
  intros Hs Ho. destruct (Csim_fields _ _ Hs) as (Sk & Sn & Sb & Sbb & Slv).
  destruct (Csim_fields _ _ Ho) as (Ok & On & Ob & Obb & Olv).
  unfold merge, is_estimation_mode, standard_merge, downsampling_merge. rewrite On, Ob, Sb, Sk, Ok.
  assert (Std : forall lvl l1 l2 t1 t2, Csim t1 t2 ->
            DetR Csim (propagate lvl l1 [] false t1) (propagate lvl l2 [] false t2)).
  { intros. now apply propagate_det. }
  assert (Down : forall fac lg lvl l1 l2 t1 t2, Csim t1 t2 ->
            DetR Csim (bind (zip_stride l1 fac) (fun down => propagate (lvl + lg) down [] false t1))
                      (bind (zip_stride l2 fac) (fun down => propagate (lvl + lg) down [] false t2))).
  { intros. eapply DetR_bind; [apply zip_stride_det|]. intros. now apply propagate_det. }
  destruct (Z.eqb _ 0); [now apply DetR_ret|].
  destruct (negb (cbp o2 =? 0)); cbn [negb].
  2: { apply updates_det; [exact Obb|exact Hs]. }
  destruct (negb (cbp s2 =? 0)).
  - destruct (Z.eqb _ _); [apply merge_with_det; auto|].
    destruct (Z.ltb _ _); apply merge_with_det; auto; intros; apply Down; auto.
  - destruct (Z.leb _ _); [apply updates_det; [exact Sbb|exact Ho]|].
    apply merge_with_det; auto; intros; apply Down; auto.
Qed.

Lemma sort_bb_det s1 s2 : Csim s1 s2 -> Csim (sort_bb s1) (sort_bb s2).
Proof.
  intro H. destruct (Csim_fields _ _ H) as (Ek & En & Eb & Ebb & Elv).
  unfold sort_bb, Csim, ctl. destruct (csorted s1), (csorted s2); cbn [ck cn cbp cbb clv]; rewrite ?isort_length, ?Ek, ?En, ?Eb, ?Ebb, ?Elv; reflexivity.
Qed.

(* two histories of the same shape (same tree, same k's; any item values) *)
Inductive same_shape : prog -> prog -> Prop :=
| ss_new k : same_shape (PNew k) (PNew k)
| ss_upd q1 q2 x1 x2 : same_shape q1 q2 -> same_shape (PUpd q1 x1) (PUpd q2 x2)
| ss_merge a1 a2 b1 b2 : same_shape a1 a2 -> same_shape b1 b2 -> same_shape (PMerge a1 b1) (PMerge a2 b2)
| ss_query q1 q2 : same_shape q1 q2 -> same_shape (PQuery q1) (PQuery q2).

Lemma same_shape_refl q : same_shape q q.
Proof. induction q; constructor; auto. Qed.

Theorem exec_det q1 q2 : same_shape q1 q2 -> DetR Csim (exec q1) (exec q2).
Proof.
  induction 1; cbn [exec].
  - apply DetR_ret. reflexivity.
  - eapply DetR_bind; [eassumption|]. intros. now apply update_det.
  - eapply DetR_bind; [eassumption|]. intros s1 s2 Hs. eapply DetR_bind; [eassumption|]. intros o1 o2 Ho. now apply merge_det.
  - eapply DetR_bind; [eassumption|]. intros. apply DetR_ret. now apply sort_bb_det.
Qed.

(* any two outcome sequences of the same history draw the same number of choices with the same arities *)
Theorem draws_independent_of_outcomes q ar1 s1 ar2 s2 :
  path (exec q) ar1 s1 -> path (exec q) ar2 s2 -> ar1 = ar2 /\ ctl s1 = ctl s2.
Proof. intros P1 P2. exact (exec_det q q (same_shape_refl q) _ _ _ _ P1 P2). Qed.
