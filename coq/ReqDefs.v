(* ReqDefs.v — executable model of req/include/req_sketch_impl.hpp + req_compactor_impl.hpp (no proofs here).
   Items are integers with the usual order (the harness instantiates req_sketch<int64_t>, req_sketch<double> fed
   integer values, and a string type under a reversed comparator through an order isomorphism).
   Every FRESH coin the code draws (random_utils::random_bit() in req_compactor::compact when state_ is even) is a
   [Flip] node of the choice monad [M]; the runner replays the coins the implementation reported.  The reused
   (negated) coin of odd compactions is computed from the stored coin_, exactly as coded.

   items c : list Z — the range [begin(), end()) of a compactor in ADDRESS order.  In HRA mode the buffer is filled
   from the top, so append() puts the new item in FRONT and a compaction removes a PREFIX; in LRA mode append() adds
   at the back and a compaction removes a SUFFIX.

   section_size_raw_ is a binary32 value; it is modelled exactly by integer arithmetic on (mantissa, exponent)
   pairs (positive normal numbers only, round to nearest even).  Op 20 of the line protocol compares the model's
   section-size schedule with the one the machine's float unit computes.

   Two repairs are part of the model that is extracted and run against the code:
   - fixes/07_req_empty_iterator.patch: the iterator constructor skips leading empty compactors (the iterator as
     originally coded is [iterate_old] in Regression_req.v);
   - fixes/08_req_unset_coin.patch: the compactor constructor draws its initial coin_ (parameter [ic] = true of the
     section [Sketch]; ic = false is the original "coin_(false)", whose bias is a theorem in Regression_req.v). *)
From Coq Require Import ZArith List Bool Lia Floats Uint63.
From DS Require Import RunnerLib SortedView FloatBits.
Import ListNotations.
Local Open Scope Z_scope.

(* ---------- choice monad ---------- *)
Inductive M (A : Type) : Type :=
| Ret (a : A)
| Flip (k : bool -> M A).
Arguments Ret {A}.
Arguments Flip {A}.

Fixpoint bind {A B} (m : M A) (f : A -> M B) : M B :=
  match m with
  | Ret a => f a
  | Flip k => Flip (fun c => bind (k c) f)
  end.

(* replay with the coins reported by the implementation (token 0 = false, anything else = true) *)
Fixpoint replay {A} (m : M A) (cs : list Z) : option (A * list Z) :=
  match m with
  | Ret a => Some (a, cs)
  | Flip k => match cs with
              | [] => None
              | c :: r => replay (k (negb (c =? 0))) r
              end
  end.

Definition len {A} (l : list A) : Z := Z.of_nat (length l).

(* ---------- binary32 (positive normal numbers): value = mantissa * 2^exponent, 2^23 <= mantissa < 2^24 ---------- *)
Definition f32 : Type := (Z * Z)%type.
Definition two23 : Z := 8388608.
Definition two24 : Z := 16777216.

(* the binary32 nearest (ties to even) to the positive rational num/den *)
Definition f32_round (num den : Z) : f32 :=
  let scaled := fun e : Z => if 0 <=? e then (num, den * 2 ^ e) else (num * 2 ^ (- e), den) in
  let e0 := Z.log2 num - Z.log2 den - 23 in
  let e := if fst (scaled e0) <? two23 * snd (scaled e0) then e0 - 1 else e0 in
  let n := fst (scaled e) in
  let d := snd (scaled e) in
  let m := n / d in
  let r := n mod d in
  let m' := if (d <? 2 * r) || ((d =? 2 * r) && Z.odd m) then m + 1 else m in
  if m' =? two24 then (two23, e + 1) else (m', e).

Definition f32_div (a b : f32) : f32 :=
  let q := f32_round (fst a) (fst b) in (fst q, snd q + snd a - snd b).
Definition f32_of_Z (k : Z) : f32 := f32_round k 1.
Definition sqrt2f : f32 := (11863283, -23).               (* sqrtf(2) = 0x3FB504F3 *)
Definition f32_bits (v : f32) : Z := (snd v + 150) * two23 + (fst v - two23).

(* nearest_even(value) = static_cast<uint32_t>(round(value / 2)) << 1; round = half away from zero *)
Definition nearest_even (v : f32) : Z :=
  let m := fst v in
  let e := snd v in
  2 * (if 0 <=? e then (m * 2 ^ e + 1) / 2 else (m + 2 ^ (- e)) / 2 ^ (- e + 1)).

(* ---------- sorted runs ---------- *)
Fixpoint insert (x : Z) (l : list Z) : list Z :=
  match l with
  | [] => [x]
  | y :: r => if x <? y then x :: l else y :: insert x r
  end.
Fixpoint isort (l : list Z) : list Z :=          (* std::sort on integers: the sorted permutation *)
  match l with
  | [] => []
  | x :: r => insert x (isort r)
  end.

(* items at even / odd positions (0-based) *)
Fixpoint evens (l : list Z) : list Z :=
  match l with
  | [] => []
  | x :: r => x :: match r with [] => [] | _ :: r' => evens r' end
  end.
Definition odds (l : list Z) : list Z := match l with [] => [] | _ :: r => evens r end.

(* std::inplace_merge / std::merge (first range a, second range b): an element of b is taken only if strictly smaller *)
Fixpoint smerge (a : list Z) : list Z -> list Z :=
  fix inner (b : list Z) : list Z :=
    match a, b with
    | [], _ => b
    | _, [] => a
    | x :: a', y :: b' => if y <? x then y :: inner b' else x :: smerge a' b
    end.

(* ---------- req_compactor ---------- *)
Record comp := mkcomp {
  lgw : Z;            (* lg_weight_ *)
  coin : bool;        (* coin_ *)
  srt : bool;         (* sorted_ *)
  ssr : f32;          (* section_size_raw_ *)
  ssz : Z;            (* section_size_ *)
  nsec : Z;           (* num_sections_ *)
  cstate : Z;         (* state_ *)
  items : list Z      (* [begin(), end()) *)
}.

(* the constructor; c = initial coin_ (see [grow]) *)
Definition new_comp (lg k : Z) (c : bool) : comp := mkcomp lg c true (f32_of_Z k) k 3 0 [].

Definition nitems (c : comp) : Z := len (items c).
Definition nom_cap (c : comp) : Z := 2 * nsec c * ssz c.                (* MULTIPLIER * num_sections_ * section_size_ *)

Definition set_items (c : comp) (l : list Z) (s : bool) : comp :=
  mkcomp (lgw c) (coin c) s (ssr c) (ssz c) (nsec c) (cstate c) l.

Definition append (hra : bool) (c : comp) (x : Z) : comp :=
  let l := if hra then x :: items c else items c ++ [x] in
  set_items c l (if 1 <? len l then false else srt c).

Definition csort (c : comp) : comp := if srt c then c else set_items c (isort (items c)) true.

(* ensure_enough_sections: (compactor, whether it grew) *)
Definition ensure_sections (c : comp) : comp * bool :=
  let r := f32_div (ssr c) sqrt2f in
  let ne := nearest_even r in
  if (2 ^ (nsec c - 1) <=? cstate c) && (4 <=? ne)
  then (mkcomp (lgw c) (coin c) (srt c) r ne (2 * nsec c) (cstate c) (items c), true)
  else (c, false).

Fixpoint ensure_loop (fuel : nat) (c : comp) : comp :=      (* while (ensure_enough_sections()) {} *)
  match fuel with
  | O => c
  | S f => let (c', g) := ensure_sections c in if g then ensure_loop f c' else c
  end.

(* req_compactor::merge *)
Definition comp_merge (hra : bool) (c o : comp) : comp :=
  let c1 := mkcomp (lgw c) (coin c) (srt c) (ssr c) (ssz c) (nsec c) (Z.lor (cstate c) (cstate o)) (items c) in
  let c2 := csort (ensure_loop 64 c1) in
  let oi := if srt o then items o else isort (items o) in
  let l := match items c2 with
           | [] => oi
           | _ => if hra then smerge oi (items c2) else smerge (items c2) oi
           end in
  set_items c2 l (srt c2).

(* count_trailing_zeros_in_u64(~state_): the number of trailing one bits *)
Fixpoint tones (fuel : nat) (s : Z) : Z :=
  match fuel with
  | O => 0
  | S f => if Z.odd s then 1 + tones f (s / 2) else 0
  end.

(* compute_compaction_range: (low, high) *)
Definition comp_range (hra : bool) (c : comp) : Z * Z :=
  let secs := Z.min (tones 64 (cstate c) + 1) (nsec c) in
  let nc := nom_cap c / 2 + (nsec c - secs) * ssz c in
  let nc := if Z.odd (nitems c - nc) then nc + 1 else nc in
  if hra then (0, nitems c - nc) else (nc, nitems c).

(* compact(next) once the coin is known: (this, next, number promoted, growth of the nominal capacity) *)
Definition compact_with (hra : bool) (c nx : comp) (cn : bool) : (comp * comp) * (Z * Z) :=
  let cap0 := nom_cap c in
  let lo := Z.to_nat (fst (comp_range hra c)) in
  let hi := Z.to_nat (snd (comp_range hra c)) in
  let range := firstn (hi - lo) (skipn lo (items c)) in
  let promoted := if cn then odds range else evens range in
  let nxl := if hra then smerge promoted (items nx) else smerge (items nx) promoted in
  let kept := if hra then skipn hi (items c) else firstn lo (items c) in
  let c1 := mkcomp (lgw c) cn (srt c) (ssr c) (ssz c) (nsec c) (cstate c + 1) kept in
  let c2 := fst (ensure_sections c1) in
  ((c2, set_items nx nxl (srt nx)), (len range / 2, nom_cap c2 - cap0)).

Definition compact (hra : bool) (c nx : comp) : M ((comp * comp) * (Z * Z)) :=
  if Z.odd (cstate c) then Ret (compact_with hra c nx (negb (coin c)))       (* for odd flip coin *)
  else Flip (fun b => Ret (compact_with hra c nx b)).                         (* random coin flip *)

(* compute_weight without the factor: position of upper_bound (inclusive) / lower_bound (exclusive) *)
Fixpoint pos_scan (p : Z -> bool) (l : list Z) : Z :=
  match l with
  | [] => 0
  | y :: r => if p y then 0 else 1 + pos_scan p r
  end.
Definition comp_weight (c : comp) (x : Z) (incl : bool) : Z :=
  pos_scan (if incl then (fun y => x <? y) else (fun y => negb (y <? x))) (items c) * 2 ^ lgw c.

(* ---------- req_sketch ---------- *)
Record req := mkreq {
  rk : Z;               (* k_ *)
  hra : bool;           (* hra_ *)
  maxnom : Z;           (* max_nom_size_ *)
  nret : Z;             (* num_retained_ *)
  rn : Z;               (* n_ *)
  comps : list comp;    (* compactors_ *)
  rmin : Z; rmax : Z    (* min_item_, max_item_ (meaningful when n > 0) *)
}.

Definition sum_nom (cs : list comp) : Z := fold_right (fun c a => nom_cap c + a) 0 cs.
Definition sum_items (cs : list comp) : Z := fold_right (fun c a => nitems c + a) 0 cs.

Fixpoint merge_comps (h : bool) (a b : list comp) : list comp :=
  match a, b with
  | c :: a', o :: b' => comp_merge h c o :: merge_comps h a' b'
  | _, _ => a
  end.

Definition dummy : comp := new_comp 0 4 false.
Definition getc (s : req) (h : nat) : comp := nth h (comps s) dummy.
Definition set_comps (s : req) (cs : list comp) : req :=
  mkreq (rk s) (hra s) (maxnom s) (nret s) (rn s) cs (rmin s) (rmax s).
Definition setc (s : req) (h : nat) (c : comp) : req := set_comps s (upd_nth h (fun _ => c) (comps s)).

Definition upd_minmax (s : req) (lo hi : Z) : req :=
  if rn s =? 0 then mkreq (rk s) (hra s) (maxnom s) (nret s) (rn s) (comps s) lo hi
  else mkreq (rk s) (hra s) (maxnom s) (nret s) (rn s) (comps s)
             (if lo <? rmin s then lo else rmin s) (if rmax s <? hi then hi else rmax s).

(* the constructor: k_ = std::max<uint8_t>(k & -2, MIN_K), both arguments converted to uint8_t *)
Definition eff_k (k : Z) : Z := Z.max ((Z.land k (-2)) mod 256) 4.

(* grow() once the initial coin of the new compactor is known: push a compactor with lg_weight = number of levels;
   update_max_nom_size() *)
Definition grow_with (s : req) (c : bool) : req :=
  let cs := comps s ++ [new_comp (len (comps s)) (rk s) c] in
  mkreq (rk s) (hra s) (sum_nom cs) (nret s) (rn s) cs (rmin s) (rmax s).

Section Sketch.
  (* ic = true: the compactor constructor draws its initial coin_ (repair fixes/08_req_unset_coin.patch);
     ic = false: coin_ starts as false, as originally coded (kept for Regression_req.v) *)
  Variable ic : bool.

  Definition grow (s : req) : M req :=
    if ic then Flip (fun c => Ret (grow_with s c)) else Ret (grow_with s false).

  Definition req_new (k : Z) (h : bool) : M req := grow (mkreq (eff_k k) h 0 0 0 [] 0 0).

  (* compress(): for (h = 0; h < compactors_.size(); ++h) ... ; LAZY_COMPRESSION = false *)
  Fixpoint compress_loop (fuel : nat) (h : nat) (s : req) : M req :=
    match fuel with
    | O => Ret s
    | S f =>
        if (h <? length (comps s))%nat then
          if nom_cap (getc s h) <=? nitems (getc s h) then
            let s1 := if (h =? 0)%nat then setc s 0%nat (csort (getc s 0%nat)) else s in
            bind (if (length (comps s1) <=? h + 1)%nat then grow s1 else Ret s1) (fun s2 =>
            bind (compact (hra s2) (getc s2 h) (getc s2 (S h))) (fun r =>
              let cs := upd_nth (S h) (fun _ => snd (fst r)) (upd_nth h (fun _ => fst (fst r)) (comps s2)) in
              compress_loop f (S h)
                (mkreq (rk s2) (hra s2) (maxnom s2 + snd (snd r)) (nret s2 - fst (snd r)) (rn s2) cs (rmin s2) (rmax s2))))
          else compress_loop f (S h) s
        else Ret s
    end.

  (* enough fuel: every iteration moves to the next level and a level is added only by a compaction that promotes
     at least one item into it *)
  Definition compress (s : req) : M req :=
    compress_loop (length (comps s) + Z.to_nat (sum_items (comps s)) + 2) 0 s.

  Definition update (s : req) (x : Z) : M req :=
    let s1 := upd_minmax s x x in
    let s2 := mkreq (rk s1) (hra s1) (maxnom s1) (nret s1 + 1) (rn s1 + 1)
                    (upd_nth 0 (fun c => append (hra s1) c x) (comps s1)) (rmin s1) (rmax s1) in
    if nret s2 =? maxnom s2 then compress s2 else Ret s2.

  Fixpoint grow_to (fuel : nat) (s : req) (n : nat) : M req :=   (* while (get_num_levels() < other.get_num_levels()) grow(); *)
    match fuel with
    | O => Ret s
    | S f => if (length (comps s) <? n)%nat then bind (grow s) (fun s' => grow_to f s' n) else Ret s
    end.

  (* merge (HRA/LRA mismatch is refused by the caller [step]) *)
  Definition merge (s o : req) : M req :=
    if rn o =? 0 then Ret s else
    let s1 := upd_minmax s (rmin o) (rmax o) in
    bind (grow_to (length (comps o)) s1 (length (comps o))) (fun s2 =>
    let cs := merge_comps (hra s2) (comps s2) (comps o) in
    let s3 := mkreq (rk s2) (hra s2) (sum_nom cs) (sum_items cs) (rn s2 + rn o) cs (rmin s2) (rmax s2) in
    if maxnom s3 <=? nret s3 then compress s3 else Ret s3).
End Sketch.

(* ---------- iterator (with the repair: the constructor skips leading empty compactors) ---------- *)
(* operator++ as coded: at the end of a compactor it moves to begin() of the next one WITHOUT looking whether that
   one is empty; dereferencing there is undefined -> None *)
Fixpoint iter_levels (cs : list comp) : option (list (Z * Z)) :=
  match cs with
  | [] => Some []
  | c :: r =>
      match items c with
      | [] => None
      | _ => match iter_levels r with
             | Some t => Some (map (fun x => (x, 2 ^ lgw c)) (items c) ++ t)
             | None => None
             end
      end
  end.

Fixpoint skip_empty (cs : list comp) : list comp :=
  match cs with
  | [] => []
  | c :: r => match items c with [] => skip_empty r | _ => cs end
  end.

Definition iterate (s : req) : option (list (Z * Z)) := iter_levels (skip_empty (comps s)).

(* ---------- queries ---------- *)
Definition sort_level_zero (s : req) : req := set_comps s (upd_nth 0 csort (comps s)).

(* get_rank: sum of compute_weight over the compactors (sorting level 0 as a side effect) *)
Definition rank_w (s : req) (x : Z) (incl : bool) : Z :=
  fold_right (fun c a => comp_weight c x incl + a) 0 (comps s).

Fixpoint add_comps (es : list (entry Z)) (cs : list comp) : list (entry Z) :=
  match cs with
  | [] => es
  | c :: r => add_comps (sv_add Z Z.ltb es (items c) (2 ^ lgw c)) r
  end.

(* get_sorted_view() of a sketch whose level 0 has been sorted *)
Definition sorted_view (s : req) : view Z := sv_finish Z (add_comps [] (comps s)).

(* ---------- the published rank bounds (binary64, as coded: get_rank_lb / get_rank_ub / is_exact_rank / get_RSE) ---------- *)
Definition fz (z : Z) : PrimFloat.float := PrimFloat.of_uint63 (Uint63.of_Z z).      (* exact for 0 <= z < 2^53 *)
Definition fmax (a b : PrimFloat.float) : PrimFloat.float := if PrimFloat.ltb a b then b else a.     (* std::max *)
Definition fmin (a b : PrimFloat.float) : PrimFloat.float := if PrimFloat.ltb b a then b else a.     (* std::min *)
Definition rel_factor : PrimFloat.float := PrimFloat.sqrt (PrimFloat.div (bits_to_float 4587539518665278253) (fz 3)).  (* sqrt(0.0512 / INIT_NUM_SECTIONS) *)
Definition fixed_factor : PrimFloat.float := bits_to_float 4590717258562350875.                       (* FIXED_RSE_FACTOR = 0.084 *)

(* is_exact_rank: base_cap = k * INIT_NUM_SECTIONS, the part of level 0 that is never compacted *)
Definition is_exact_rank (k levels : Z) (rank : PrimFloat.float) (n : Z) (h : bool) : bool :=
  let base := k * 3 in
  if (levels =? 1) || (n <=? base) then true else
  let th := PrimFloat.div (fz base) (fz n) in
  if h then PrimFloat.leb (PrimFloat.sub (fz 1) th) rank else PrimFloat.leb rank th.

Definition rank_lb (k levels : Z) (rank : PrimFloat.float) (sd n : Z) (h : bool) : PrimFloat.float :=
  if is_exact_rank k levels rank n h then rank else
  let relative := PrimFloat.mul (PrimFloat.div rel_factor (fz k)) (if h then PrimFloat.sub (fz 1) rank else rank) in
  let fixed := PrimFloat.div fixed_factor (fz k) in
  fmax (PrimFloat.sub rank (PrimFloat.mul (fz sd) relative)) (PrimFloat.sub rank (PrimFloat.mul (fz sd) fixed)).

Definition rank_ub (k levels : Z) (rank : PrimFloat.float) (sd n : Z) (h : bool) : PrimFloat.float :=
  if is_exact_rank k levels rank n h then rank else
  let relative := PrimFloat.mul (PrimFloat.div rel_factor (fz k)) (if h then PrimFloat.sub (fz 1) rank else rank) in
  let fixed := PrimFloat.div fixed_factor (fz k) in
  fmin (PrimFloat.add rank (PrimFloat.mul (fz sd) relative)) (PrimFloat.add rank (PrimFloat.mul (fz sd) fixed)).

(* (double) j / (double) 2^t *)
Definition dyadic (j t : Z) : PrimFloat.float := PrimFloat.div (fz j) (fz (2 ^ t)).

(* ---------- line protocol ---------- *)
Record reg := mkreg { r_kind : Z; r_sk : req; r_log : list Z }.   (* r_log: ghost, every accepted item (newest first) *)
Definition st := list (Z * reg).

Fixpoint msort (fuel : nat) (l : list Z) : list Z :=       (* ground truth only (S lines) *)
  match fuel with
  | O => isort l
  | S f => match l with
           | [] | [_] => l
           | _ => smerge (msort f (evens l)) (msort f (odds l))
           end
  end.

Fixpoint sort_pairs_ins (p : Z * Z) (l : list (Z * Z)) : list (Z * Z) :=
  match l with
  | [] => [p]
  | q :: r => if (fst p <? fst q) || ((fst p =? fst q) && (snd p <=? snd q)) then p :: l else q :: sort_pairs_ins p r
  end.
Fixpoint sort_pairs (l : list (Z * Z)) : list (Z * Z) :=
  match l with [] => [] | p :: r => sort_pairs_ins p (sort_pairs r) end.

Definition flat_pairs (l : list (Z * Z)) : list Z := flat_map (fun p => [fst p; snd p]) l.
Definition count_if (p : Z -> bool) (l : list Z) : Z := len (filter p l).
Definition lmin (l : list Z) : Z := match l with [] => 0 | x :: r => fold_left Z.min r x end.
Definition lmax (l : list Z) : Z := match l with [] => 0 | x :: r => fold_left Z.max r x end.

Definition with_sk (s : st) (r : Z) (g : reg) (sk : req) : st := reg_set s r (mkreg (r_kind g) sk (r_log g)).

Definition run_m {A} (m : M A) (e : line) (s : st) (f : A -> st * outline) : st * outline :=
  match replay m e with
  | Some (a, []) => f a
  | _ => (s, ([-3], []))
  end.

(* the section-size schedule of a compactor created with section size k: (bits of section_size_raw_, section_size_)
   after 0, 1, 2, ... successful ensure_enough_sections (state condition ignored) *)
Fixpoint schedule (fuel : nat) (raw : f32) (sz : Z) : list Z :=
  match fuel with
  | O => []
  | S f => f32_bits raw :: sz ::
           (let r := f32_div raw sqrt2f in
            let ne := nearest_even r in
            if 4 <=? ne then schedule f r ne else [])
  end.

Definition est (sk : req) : Z := bz (2 <=? length (comps sk))%nat.

Definition step (s : st) (o e : line) : st * outline :=
  match o with
  | 1 :: r :: kind :: k :: h :: _ =>                      (* new sketch *)
      if (0 <=? k) && (k <=? 65535)
      then run_m (req_new true k (negb (h =? 0))) e s (fun sk => (reg_set s r (mkreg kind sk []), (ok, [])))
      else (s, (refused, []))
  | 2 :: r :: v :: _ =>                                   (* update *)
      match reg_get s r with
      | Some g => run_m (update true (r_sk g) v) e s
                    (fun sk => (reg_set s r (mkreg (r_kind g) sk (v :: r_log g)), (ok, [])))
      | None => (s, (refused, []))
      end
  | 3 :: r :: _ =>                                        (* update with NaN (double sketches): ignored *)
      match reg_get s r with
      | Some g => (s, (ok, []))
      | None => (s, (refused, []))
      end
  | 4 :: r :: r2 :: mode :: _ =>                          (* merge r2 into r; mode 1: rvalue, r2 is dropped *)
      match reg_get s r, reg_get s r2 with
      | Some g, Some g2 =>
          if (r =? r2) || negb (r_kind g =? r_kind g2) || negb (Bool.eqb (hra (r_sk g)) (hra (r_sk g2)))
          then (s, (refused, [])) else
          run_m (merge true (r_sk g) (r_sk g2)) e s
            (fun sk => let s' := reg_set s r (mkreg (r_kind g) sk (r_log g2 ++ r_log g)) in
                       ((if mode =? 1 then reg_del s' r2 else s'), (ok, [])))
      | _, _ => (s, (refused, []))
      end
  | 5 :: r :: _ =>                                        (* observe *)
      match reg_get s r with
      | Some g =>
          let sk := r_sk g in
          match iterate sk with
          | Some it =>
              let it := sort_pairs it in
              let hdr := [rn sk; nret sk; bz (rn sk =? 0); est sk; rk sk; bz (hra sk)] in
              let mm := if rn sk =? 0 then [] else [rmin sk; rmax sk] in
              (s, (hdr ++ mm ++ [len it] ++ flat_pairs it,
                   [len (r_log g); lmin (r_log g); lmax (r_log g); maxnom sk]))
          | None => (s, ([-4], []))
          end
      | None => (s, (refused, []))
      end
  | 6 :: r :: x :: _ =>                                   (* rank numerators: inclusive, exclusive *)
      match reg_get s r with
      | Some g =>
          if rn (r_sk g) =? 0 then (s, (refused, [])) else
          let sk := sort_level_zero (r_sk g) in
          let ri := PrimFloat.div (fz (rank_w sk x true)) (fz (rn sk)) in          (* get_rank(x, true) *)
          let re := PrimFloat.div (fz (rank_w sk x false)) (fz (rn sk)) in
          let lv := len (comps sk) in
          let bnd := fun sd => [float_to_bits (rank_lb (rk sk) lv ri sd (rn sk) (hra sk));
                                float_to_bits (rank_ub (rk sk) lv ri sd (rn sk) (hra sk))] in
          (with_sk s r g sk,
           ([rank_w sk x true; rank_w sk x false; est sk; float_to_bits ri; float_to_bits re] ++ bnd 1 ++ bnd 2 ++ bnd 3,
            [count_if (fun y => y <=? x) (r_log g); count_if (fun y => y <? x) (r_log g); len (r_log g)]))
      | None => (s, (refused, []))
      end
  | 7 :: r :: j :: t :: _ =>                              (* quantiles at rank j / 2^t: inclusive, exclusive *)
      match reg_get s r with
      | Some g =>
          if (rn (r_sk g) =? 0) || (j <? 0) || (2 ^ t <? j) then (s, (refused, [])) else
          let sk := sort_level_zero (r_sk g) in
          let v := sorted_view sk in
          let n := v_total v in
          match quantile_w Z v (weight_of_rank j t n true) true, quantile_w Z v (weight_of_rank j t n false) false with
          | Some a, Some b =>
              let sl := msort 64 (r_log g) in
              let nl := len sl in
              let wi := weight_of_rank j t nl true in
              let we := weight_of_rank j t nl false in
              (with_sk s r g sk,
               ([a; b; est sk],
                [nth (Z.to_nat (Z.max 0 (wi - 1))) sl 0; nth (Z.to_nat (Z.min we (nl - 1))) sl 0]))
          | _, _ => (s, (refused, []))
          end
      | None => (s, (refused, []))
      end
  | 8 :: r :: splits =>                                   (* CDF numerators inclusive ++ exclusive *)
      match reg_get s r with
      | Some g =>
          if rn (r_sk g) =? 0 then (s, (refused, [])) else
          let sk := sort_level_zero (r_sk g) in
          let v := sorted_view sk in
          match cdf_num Z Z.ltb v splits true, cdf_num Z Z.ltb v splits false with
          | Some a, Some b => (with_sk s r g sk, (a ++ b, []))
          | _, _ => (with_sk s r g sk, (refused, []))
          end
      | None => (s, (refused, []))
      end
  | 9 :: r :: _ =>                                        (* CDF with a NaN split point (double sketches): refused *)
      match reg_get s r with
      | Some g =>
          if rn (r_sk g) =? 0 then (s, (refused, [])) else
          (with_sk s r g (sort_level_zero (r_sk g)), (refused, []))
      | None => (s, (refused, []))
      end
  | 10 :: r :: _ =>                                       (* sorted view listing, ties collapsed *)
      match reg_get s r with
      | Some g =>
          let sk := sort_level_zero (r_sk g) in
          let v := sorted_view sk in
          (with_sk s r g sk, (v_total v :: flat_pairs (groups Z Z.ltb (v_entries v)), []))
      | None => (s, (refused, []))
      end
  | 13 :: r :: r2 :: _ =>                                 (* r := copy of r2 *)
      match reg_get s r2 with
      | Some g2 => (reg_set s r g2, (ok, []))
      | None => (s, (refused, []))
      end
  | 20 :: k :: _ =>                                       (* section-size schedule of section size k (float32 check) *)
      if (4 <=? k) && (k <=? 65535) then (s, (schedule 64 (f32_of_Z k) k, [])) else (s, (refused, []))
  | 21 :: k :: j :: t :: h :: n :: _ =>                   (* get_RSE(k, j / 2^t, hra, n) = get_rank_lb(k, 2, rank, 1, n, hra) *)
      if (0 <=? k) && (k <=? 65535) && (0 <=? j) && (j <=? 2 ^ t) && (0 <=? t) && (t <=? 40) && (0 <=? n)
      then (s, ([float_to_bits (rank_lb k 2 (dyadic j t) 1 n (negb (h =? 0)))], []))
      else (s, (refused, []))
  | 22 :: r :: j :: t :: sd :: _ =>                       (* get_rank_lower_bound / upper_bound (j / 2^t, sd) *)
      match reg_get s r with
      | Some g =>
          if (0 <=? j) && (j <=? 2 ^ t) && (0 <=? t) && (t <=? 40) && (0 <=? sd) && (sd <=? 255) then
            let sk := r_sk g in
            let lv := len (comps sk) in
            (s, ([float_to_bits (rank_lb (rk sk) lv (dyadic j t) sd (rn sk) (hra sk));
                  float_to_bits (rank_ub (rk sk) lv (dyadic j t) sd (rn sk) (hra sk))], []))
          else (s, (refused, []))
      | None => (s, (refused, []))
      end
  | 97 :: _ => (s, (ok, []))                              (* harness: report leftover scripted coins (F only) *)
  | 98 :: _ => (s, (ok, []))                              (* harness: scripted coins *)
  | 99 :: _ => (s, (ok, []))                              (* harness: reseed the coin source *)
  | _ => (s, ([-2], []))
  end.

Definition run (ops : list opline) : list outline := run_case step [] ops.
