(* BoundsDefs.v — executable model of the estimate / confidence-bound code of the distinct-count sketches (C06).
   No proofs here.

   Layer 1 (generic over a number structure [NumOps], instantiated with binary64 and with Q): the CLAMP expressions
   exactly as coded — std::min / std::max / fmax / "if (result < check) result = check" around the inner
   approximations — for binomial_bounds (Theta, Tuple), CouponList, HllArray, cpc_confidence and the ICON estimator.
   The inner approximation is an ARGUMENT of these functions: the ordering theorems hold for any value of it.

   Layer 2 (binary64 only, compared BIT FOR BIT with the code): the parts of the inner functions that use only
   + - * / sqrt and table lookups on the TRANSLATED tables (gen/BoundTablesGen.v): binomial_bounds branch structure
   with cont_classic_lb/ub, HllUtil::getRelErr, the cpc_confidence eps, the ICON polynomial, the coupon cubic
   interpolation, erf/normal_cdf of bounds_binomial_proportions. Branches through log/pow/exp are marked [Libm]
   and are not compared. *)
From Coq Require Import ZArith NArith List Bool Floats Uint63 QArith Qround.
From DS Require Import RunnerLib FloatBits.
From DS.gen Require Import BoundTablesGen.
Import ListNotations.
Local Open Scope Z_scope.

(* ------------------------------------------------------------------------------------------------ *)
(* number structure                                                                                   *)
(* ------------------------------------------------------------------------------------------------ *)
Record NumOps (T : Type) : Type := mkNum {
  nzero : T; none : T;
  nadd : T -> T -> T; nsub : T -> T -> T; nmul : T -> T -> T; ndiv : T -> T -> T;
  nltb : T -> T -> bool;       (* C++ operator<  *)
  nleb : T -> T -> bool;       (* C++ operator<= *)
  nisnan : T -> bool;
  nofZ : Z -> T;               (* conversion of an unsigned integer (below 2^63) *)
  nceil : T -> T
}.
Arguments nzero {T}. Arguments none {T}. Arguments nadd {T}. Arguments nsub {T}. Arguments nmul {T}.
Arguments ndiv {T}. Arguments nltb {T}. Arguments nleb {T}. Arguments nisnan {T}. Arguments nofZ {T}. Arguments nceil {T}.

Section Generic.
  Context {T : Type} (O : NumOps T).

  (* std::min(a, b) = (b < a) ? b : a ;  std::max(a, b) = (a < b) ? b : a *)
  Definition cmin (a b : T) : T := if nltb O b a then b else a.
  Definition cmax (a b : T) : T := if nltb O a b then b else a.
  (* C fmax (glibc): isgreaterequal(x,y) ? x : isless(x,y) ? y : isnan(y) ? x : y *)
  Definition cfmax (x y : T) : T :=
    if nleb O y x then x else if nltb O x y then y else if nisnan O y then x else y.

  (* ---- binomial_bounds::get_lower_bound / get_upper_bound around the inner approximation [inner] ---- *)
  Definition bb_est (n : Z) (theta : T) : T := ndiv O (nofZ O n) theta.
  Definition bb_lb (n : Z) (theta inner : T) : T := cmin (bb_est n theta) (cmax (nofZ O n) inner).
  Definition bb_ub (n : Z) (theta inner : T) : T := cmax (bb_est n theta) inner.

  (* ---- theta_sketch / tuple_sketch: get_estimate, get_lower_bound, get_upper_bound ----
     [estmode] = theta64 < MAX_THETA && !is_empty ; [m] = number of (subset) entries, m = n for the plain bounds *)
  Definition sk_est (n : Z) (theta : T) : T := bb_est n theta.
  Definition sk_lb (estmode : bool) (m : Z) (theta inner : T) : T :=
    if estmode then bb_lb m theta inner else nofZ O m.
  Definition sk_ub (estmode : bool) (m : Z) (theta inner : T) : T :=
    if estmode then bb_ub m theta inner else nofZ O m.

  (* ---- CouponList (LIST and SET mode of hll_sketch) : [cubic] = CubicInterpolation::usingXAndYTables(count),
          [r] = numStdDev * COUPON_RSE ---- *)
  Definition coupon_est (cubic : T) (count : Z) : T := cfmax cubic (nofZ O count).
  Definition coupon_lb (cubic r : T) (count : Z) : T := cfmax (ndiv O cubic (nadd O (none O) r)) (nofZ O count).
  Definition coupon_ub (cubic r : T) (count : Z) : T := cfmax (ndiv O cubic (nsub O (none O) r)) (nofZ O count).

  (* ---- HllArray::getLowerBound / getUpperBound : [est] = getEstimate() (HIP accumulator or composite),
          [re] = getRelErr(...), [nnz] = number of non-zero registers as the code computes it ---- *)
  Definition hll_num_nonzeros (lgk cur_min num_at_cur_min : Z) : Z :=
    if cur_min =? 0 then 2 ^ lgk - num_at_cur_min else 2 ^ lgk.
  Definition hll_lb (est re : T) (nnz : Z) : T := cfmax (ndiv O est (nadd O (none O) re)) (nofZ O nnz).
  Definition hll_ub (est re : T) : T := ndiv O est (nadd O (none O) re).

  (* ---- cpc_confidence.hpp : get_{hip,icon}_confidence_{lb,ub} : [est] = HIP or ICON estimate, [eps] = kappa * rel ---- *)
  Definition cpc_lb (c : Z) (est eps : T) : T :=
    if c =? 0 then nzero O else
    let r := ndiv O est (nadd O (none O) eps) in
    if nltb O r (nofZ O c) then nofZ O c else r.
  Definition cpc_ub (c : Z) (est eps : T) : T :=
    if c =? 0 then nzero O else nceil O (ndiv O est (nsub O (none O) eps)).

  (* ---- icon_estimator.hpp : final clamp  if (result >= double_c) return result; else return double_c ---- *)
  Definition icon_clamp (result : T) (c : Z) : T := if nleb O (nofZ O c) result then result else nofZ O c.

  (* ---- HIP accumulation (HllArray::hipAndKxQIncrementalUpdate, cpc_sketch::update_hip): acc += k / kxq ---- *)
  Definition hip_step (k acc kxq : T) : T := nadd O acc (ndiv O k kxq).
End Generic.

(* ------------------------------------------------------------------------------------------------ *)
(* exact rational instance (theorems)                                                                  *)
(* ------------------------------------------------------------------------------------------------ *)
Definition Qltb (a b : Q) : bool := negb (Qle_bool b a).
Definition Qceil (a : Q) : Q := inject_Z (- Qfloor (- a)).
Definition qops : NumOps Q :=
  mkNum Q 0%Q 1%Q Qplus Qminus Qmult Qdiv Qltb Qle_bool (fun _ => false) inject_Z Qceil.

(* ------------------------------------------------------------------------------------------------ *)
(* binary64 instance (extracted, bit-exact)                                                            *)
(* ------------------------------------------------------------------------------------------------ *)
Definition fofZ (z : Z) : float := PrimFloat.of_uint63 (Uint63.of_Z z).
Definition fisnan (x : float) : bool := negb (PrimFloat.eqb x x).

(* ceil() of <cmath> on binary64 *)
Definition fceil (x : float) : float :=
  match Prim2SF x with
  | S754_finite s m e =>
      if 0 <=? e then x else
      let q := Z.shiftr (Zpos m) (- e) in
      let exact := Z.eqb (Z.shiftl q (- e)) (Zpos m) in
      if s then (if q =? 0 then PrimFloat.opp PrimFloat.zero else PrimFloat.opp (fofZ q))
      else fofZ (if exact then q else q + 1)
  | _ => x
  end.

Definition fops : NumOps float :=
  mkNum float PrimFloat.zero PrimFloat.one PrimFloat.add PrimFloat.sub PrimFloat.mul PrimFloat.div
        PrimFloat.ltb PrimFloat.leb fisnan fofZ fceil.

Definition fnth (l : list float) (i : Z) : float := nth (Z.to_nat i) l PrimFloat.nan.
Definition znth (l : list Z) (i : Z) : Z := nth (Z.to_nat i) l (-1).

Local Open Scope float_scope.
(* literals that are not exactly representable are given as the hexadecimal value of the nearest double *)
Definition c_half : float := 0.5.
Definition c_two : float := 2.
Definition c_four : float := 4.
Definition c_1em5 : float := 0x1.4f8b588e368f1p-17.       (* 1e-5 *)
Definition c_360 : float := 360.
Definition c_10000 : float := 10000.
Definition c_8192 : float := 8192.                         (* 1 << 13 *)
Definition c_66_774757 : float := 0x1.0b1959e625636p+6.    (* 66.774757 *)
Definition c_5_7 : float := 0x1.6cccccccccccdp+2.          (* 5.7 *)
Definition c_5_6 : float := 0x1.6666666666666p+2.          (* 5.6 *)
Definition c_0_794 : float := 0x1.968a43713bd1fp-1.        (* 0.7940236163830469 *)
Definition c_1em100 : float := 0x1.bff2ee48e053p-333.      (* 1e-100 *)
Definition c_500 : float := 500.
Definition c_0_673 : float := 0x1.589374bc6a7f0p-1.        (* 0.673 *)
Definition c_0_697 : float := 0x1.64dd2f1a9fbe7p-1.        (* 0.697 *)
Definition c_0_709 : float := 0x1.6b020c49ba5e3p-1.        (* 0.709 *)
Definition c_0_7213 : float := 0x1.714e3bcd35a86p-1.       (* 0.7213 *)
Definition c_1_079 : float := 0x1.14395810624ddp+0.        (* 1.079 *)
Definition c_0_64 : float := 0x1.47ae147ae147bp-1.         (* 0.64 *)
Definition c_0_718 : float := 0x1.6f9db22d0e560p-1.        (* 0.718 *)
Definition c_0_672 : float := 0x1.5810624dd2f1bp-1.        (* 0.672 *)

(* a value the model computed bit-exactly, or a branch through libm (log / pow / exp) that is not modelled *)
Inductive approx : Type := Exact (branch : Z) (v : float) | Libm (branch : Z).

(* ---- binomial_bounds.hpp ---- *)
Definition cont_classic_lb (n : Z) (theta k : float) : float :=
  let n_hat := (fofZ n - c_half) / theta in
  let b := k * PrimFloat.sqrt ((1 - theta) / theta) in
  let d := c_half * b * PrimFloat.sqrt (b * b + c_four * n_hat) in
  let center := n_hat + c_half * (b * b) in
  center - d.

Definition cont_classic_ub (n : Z) (theta k : float) : float :=
  let n_hat := (fofZ n + c_half) / theta in
  let b := k * PrimFloat.sqrt ((1 - theta) / theta) in
  let d := c_half * b * PrimFloat.sqrt (b * b + c_four * n_hat) in
  let center := n_hat + c_half * (b * b) in
  center + d.

Definition equiv_index (n sd : Z) : Z := (3 * n + (sd - 1))%Z.

(* ---- exact binomial tails: special_n_star / special_n_prime_b / special_n_prime_f.
   [pw] = std::pow(p, num_samples) is the only libm value; it is read from the environment. The loops use + * / only.
   None = the function throws, or the fuel (far above any reachable trip count) ran out. ---- *)
Definition tail_fuel : nat := Z.to_nat 60000.
Fixpoint nstar_loop (fuel : nat) (n : Z) (q delta cur tot : float) (m : Z) : option Z :=
  match fuel with
  | O => None
  | S f =>
      if PrimFloat.leb tot delta then
        let cur' := (cur * q * fofZ m) / fofZ ((m + 1) - n) in
        nstar_loop f n q delta cur' (tot + cur') (m + 1)%Z
      else Some (m - 1)%Z
  end.
Definition special_n_star (n : Z) (p delta pw : float) : option Z :=
  let q := 1 - p in
  if PrimFloat.leb c_500 (fofZ n / p) then None
  else if PrimFloat.leb pw c_1em100 then None
  else nstar_loop tail_fuel n q delta pw pw n.
Fixpoint nprime_loop (fuel : nat) (n : Z) (q omd cur tot : float) (m : Z) : option Z :=
  match fuel with
  | O => None
  | S f =>
      if PrimFloat.ltb tot omd then
        let cur' := (cur * q * fofZ m) / fofZ ((m + 1) - n) in
        nprime_loop f n q omd cur' (tot + cur') (m + 1)%Z
      else Some m
  end.
Definition special_n_prime_b (n : Z) (p delta pw : float) : option Z :=
  let q := 1 - p in
  let omd := 1 - delta in
  if PrimFloat.leb pw c_1em100 then None
  else nprime_loop tail_fuel n q omd pw pw n.
(* [pw1] = std::pow(p, num_samples + 1) *)
Definition special_n_prime_f (n : Z) (p delta pw1 : float) : option Z :=
  if PrimFloat.leb c_500 (fofZ n / p) then None else special_n_prime_b (n + 1) p delta pw1.
Definition delta_of (sd : Z) : float := fnth delta_of_num_std_devs sd.

(* compute_approx_binomial_lower_bound; branch numbers: 1 theta==1, 2 n==0, 3 n==1 (log), 4 n>120 (gaussian),
   5 theta > 1-1e-5, 6 theta < n/360 (gaussian with the equivalence table), 7 exact tail (bit-exact given pow(theta, n)) *)
Definition approx_lb (n : Z) (theta : float) (sd : Z) (pw : float) : approx :=
  if PrimFloat.eqb theta 1 then Exact 1 (fofZ n)
  else if (n =? 0)%Z then Exact 2 0
  else if (n =? 1)%Z then Libm 3
  else if (120 <? n)%Z then Exact 4 (cont_classic_lb n theta (fofZ sd) - c_half)
  else if PrimFloat.ltb (1 - c_1em5) theta then Exact 5 (fofZ n)
  else if PrimFloat.ltb theta (fofZ n / c_360)
       then Exact 6 (cont_classic_lb n theta (fnth lb_equiv_table (equiv_index n sd)) - c_half)
  else match special_n_star n theta (delta_of sd) pw with
       | Some m => Exact 7 (fofZ m)
       | None => Libm 7
       end.

(* compute_approx_binomial_upper_bound; branch 2 (n==0) goes through log; n==1 is handled by the general branches *)
Definition approx_ub (n : Z) (theta : float) (sd : Z) (pw1 : float) : approx :=
  if PrimFloat.eqb theta 1 then Exact 1 (fofZ n)
  else if (n =? 0)%Z then Libm 2
  else if (120 <? n)%Z then Exact 4 (cont_classic_ub n theta (fofZ sd) + c_half)
  else if PrimFloat.ltb (1 - c_1em5) theta then Exact 5 (fofZ (n + 1))
  else if PrimFloat.ltb theta (fofZ n / c_360)
       then Exact 6 (cont_classic_ub n theta (fnth ub_equiv_table (equiv_index n sd)) + c_half)
  else match special_n_prime_f n theta (delta_of sd) pw1 with
       | Some m => Exact 7 (fofZ m)
       | None => Libm 7
       end.

(* check_theta: throws when theta < 0 || theta > 1 *)
Definition theta_ok (theta : float) : bool := negb (PrimFloat.ltb theta 0) && negb (PrimFloat.ltb 1 theta).
Definition sd_ok (sd : Z) : bool := ((1 <=? sd) && (sd <=? 3))%Z.

(* theta_sketch::get_theta : static_cast<double>(theta64) / static_cast<double>(MAX_THETA) *)
Definition max_theta : Z := 9223372036854775807.
Definition theta_frac (theta64 : Z) : float := fofZ theta64 / fofZ max_theta.
Definition estimation_mode (theta64 : Z) (empty : bool) : bool := (theta64 <? max_theta)%Z && negb empty.

(* ---- HllUtil::getRelErr / RelativeErrorTables::getRelErr ---- *)
Definition hll_lgk_ok (lgk : Z) : bool := ((hll_MIN_LOG_K <=? lgk) && (lgk <=? hll_MAX_LOG_K))%Z.
Definition hll_rel_err (upper ooo : bool) (lgk sd : Z) : float :=
  if (12 <? lgk)%Z then
    let rse := if ooo then hll_NON_HIP_RSE_FACTOR else hll_HIP_RSE_FACTOR in
    ((if upper then (- 1) else 1) * (fofZ sd * rse)) / PrimFloat.sqrt (fofZ (2 ^ lgk))
  else
    let idx := ((lgk - 4) * 3 + (sd - 1))%Z in
    match ooo, upper with
    | false, false => fnth hll_HIP_LB idx
    | false, true => fnth hll_HIP_UB idx
    | true, false => fnth hll_NON_HIP_LB idx
    | true, true => fnth hll_NON_HIP_UB idx
    end.

Definition coupon_rse : float := hll_COUPON_RSE_FACTOR / c_8192.

(* ---- CubicInterpolation::usingXAndYTables (coupon estimator of LIST/SET mode) ---- *)
Definition cubic_interpolate (x0 y0 x1 y1 x2 y2 x3 y3 x : float) : float :=
  let l0n := (x - x1) * (x - x2) * (x - x3) in
  let l1n := (x - x0) * (x - x2) * (x - x3) in
  let l2n := (x - x0) * (x - x1) * (x - x3) in
  let l3n := (x - x0) * (x - x1) * (x - x2) in
  let l0d := (x0 - x1) * (x0 - x2) * (x0 - x3) in
  let l1d := (x1 - x0) * (x1 - x2) * (x1 - x3) in
  let l2d := (x2 - x0) * (x2 - x1) * (x2 - x3) in
  let l3d := (x3 - x0) * (x3 - x1) * (x3 - x2) in
  let t0 := y0 * l0n / l0d in
  let t1 := y1 * l1n / l1d in
  let t2 := y2 * l2n / l2d in
  let t3 := y3 * l3n / l3d in
  t0 + t1 + t2 + t3.

(* recursiveFindStraddle: None = an exception (invariant violated) *)
Fixpoint find_straddle (fuel : nat) (xs : Z -> float) (l r : Z) (x : float) : option Z :=
  match fuel with
  | O => None
  | S f =>
      if (r <=? l)%Z then None
      else if PrimFloat.ltb x (xs l) || PrimFloat.leb (xs r) x then None
      else if (l + 1 =? r)%Z then Some l
      else let m := (l + (r - l) / 2)%Z in
           if PrimFloat.leb (xs m) x then find_straddle f xs m r x else find_straddle f xs l m x
  end.

Definition coupon_cubic (count : Z) : option float :=
  let x := fofZ count in
  let len := Z.of_nat (length coupon_xArr) in
  if PrimFloat.ltb x (fnth coupon_xArr 0) || PrimFloat.ltb (fnth coupon_xArr (len - 1)) x then None
  else if PrimFloat.eqb x (fnth coupon_xArr (len - 1)) then Some (fnth coupon_yArr (len - 1))
  else match find_straddle 64 (fnth coupon_xArr) 0 (len - 1) x with
       | None => None
       | Some off =>
           let o := if (off =? 0)%Z then off else if (off =? coupon_numEntries - 2)%Z then (off - 2)%Z else (off - 1)%Z in
           Some (cubic_interpolate (fnth coupon_xArr o) (fnth coupon_yArr o)
                                   (fnth coupon_xArr (o + 1)) (fnth coupon_yArr (o + 1))
                                   (fnth coupon_xArr (o + 2)) (fnth coupon_yArr (o + 2))
                                   (fnth coupon_xArr (o + 3)) (fnth coupon_yArr (o + 3)) x)
       end.

(* ---- HllArray::getHllRawEstimate / getCompositeEstimate (CubicInterpolation::usingXArrAndYStride on the translated
        CompositeInterpolationXTable); [lin] = getHllBitMapEstimate() goes through log and is read from the environment.
        None = the code throws ---- *)
Definition hll_correction (lgk : Z) : float :=
  if (lgk =? 4)%Z then c_0_673 else if (lgk =? 5)%Z then c_0_697 else if (lgk =? 6)%Z then c_0_709
  else c_0_7213 / (1 + c_1_079 / fofZ (2 ^ lgk)).
Definition hll_raw_estimate (lgk : Z) (kxq0 kxq1 : float) : float :=
  (hll_correction lgk * fofZ (2 ^ lgk) * fofZ (2 ^ lgk)) / (kxq0 + kxq1).
(* the x arrays are translated as binary64 bit patterns; [composite_x lgk i] = xArr[i] of the row of lg_k *)
Definition composite_x (lgk : Z) (i : Z) : float :=
  bits_to_float (znth (nth (Z.to_nat (lgk - hll_MIN_LOG_K)) composite_xArrs_bits []) i).
Definition composite_ystride (lgk : Z) : float := fofZ (znth composite_yStrides (lgk - hll_MIN_LOG_K)).
Definition composite_interp (xs : Z -> float) (len : Z) (ystride x : float) : option float :=
  let lenm1 := (len - 1)%Z in
  if (len <? 4)%Z || PrimFloat.ltb x (xs 0%Z) || PrimFloat.ltb (xs lenm1) x then None
  else if PrimFloat.eqb x (xs lenm1) then Some (ystride * fofZ lenm1)
  else match find_straddle 64 xs 0 lenm1 x with
       | None => None
       | Some off =>
           if (off <? 0)%Z || (len - 2 <? off)%Z then None else
           let o := if (off =? 0)%Z then off else if (off =? len - 2)%Z then (off - 2)%Z else (off - 1)%Z in
           Some (cubic_interpolate (xs o) (ystride * fofZ o)
                                   (xs (o + 1)%Z) (ystride * fofZ (o + 1))
                                   (xs (o + 2)%Z) (ystride * fofZ (o + 2))
                                   (xs (o + 3)%Z) (ystride * fofZ (o + 3)) x)
       end.
Definition hll_composite (lgk : Z) (kxq0 kxq1 lin : float) : option float :=
  let raw := hll_raw_estimate lgk kxq0 kxq1 in
  let xs := composite_x lgk in
  let len := composite_numXArrValues in
  let lenm1 := (len - 1)%Z in
  let ystride := composite_ystride lgk in
  if PrimFloat.ltb raw (xs 0%Z) then Some 0
  else if PrimFloat.ltb (xs lenm1) raw then
    let finalY := ystride * fofZ lenm1 in
    let factor := finalY / xs lenm1 in
    Some (raw * factor)
  else match composite_interp xs len ystride raw with
       | None => None
       | Some adj =>
           if PrimFloat.ltb (fofZ (3 * 2 ^ lgk)) adj then Some adj else
           let avg := (adj + lin) / c_two in
           let cross := if (lgk =? 4)%Z then c_0_718 else if (lgk =? 5)%Z then c_0_672 else c_0_64 in
           Some (if PrimFloat.ltb (cross * fofZ (2 ^ lgk)) avg then adj else lin)
       end.

(* ---- cpc_confidence.hpp : eps = kappa * (x / sqrt(k)), x from the table (lg_k <= 14) or the asymptotic constant ---- *)
Definition cpc_eps (table : list Z) (asym : float) (lgk kappa : Z) : float :=
  let x := if (lgk <=? 14)%Z then fofZ (znth table (3 * (lgk - 4) + (kappa - 1))) / c_10000 else asym in
  let rel := x / PrimFloat.sqrt (fofZ (2 ^ lgk)) in
  fofZ kappa * rel.
(* lower bounds use the HIGH side tables, upper bounds the LOW side tables (as coded) *)
Definition cpc_eps_lb (merged : bool) (lgk kappa : Z) : float :=
  if merged then cpc_eps cpc_ICON_HIGH_SIDE_DATA cpc_ICON_ERROR_CONSTANT lgk kappa
  else cpc_eps cpc_HIP_HIGH_SIDE_DATA cpc_HIP_ERROR_CONSTANT lgk kappa.
Definition cpc_eps_ub (merged : bool) (lgk kappa : Z) : float :=
  if merged then cpc_eps cpc_ICON_LOW_SIDE_DATA cpc_ICON_ERROR_CONSTANT lgk kappa
  else cpc_eps cpc_HIP_LOW_SIDE_DATA cpc_HIP_ERROR_CONSTANT lgk kappa.

(* ---- icon_estimator.hpp ---- *)
Definition icon_ncoef : Z := (1 + icon_POLYNOMIAL_DEGREE)%Z.
(* evaluate_polynomial: Horner from the last coefficient down, two roundings per step *)
Fixpoint horner (cs_rev : list float) (total x : float) : float :=
  match cs_rev with
  | [] => total
  | c :: r => horner r (total * x + c) x
  end.
Definition evaluate_polynomial (coefs : list float) (start num : Z) (x : float) : float :=
  let seg := firstn (Z.to_nat num) (skipn (Z.to_nat start) coefs) in
  match rev seg with
  | [] => PrimFloat.nan
  | last :: r => horner r last x
  end.
Definition icon_lgk_ok (lgk : Z) : bool := ((icon_MIN_LOG_K <=? lgk) && (lgk <=? icon_MAX_LOG_K))%Z.
(* branches: 1 c<2, 2 exponential approximation 0.794.. * k * pow(2, c/k) with [pw] = pow(2.0, c/k) read from the environment,
   3 polynomial; the branch selection (c > 5.7k resp. 5.6k) is part of the model *)
Definition icon_estimate (lgk c : Z) (pw : float) : approx :=
  if (c <? 2)%Z then Exact 1 (if (c =? 0)%Z then 0 else 1)
  else
    let dk := fofZ (2 ^ lgk) in
    let dc := fofZ c in
    let thr := if (lgk <? 14)%Z then c_5_7 else c_5_6 in
    if PrimFloat.ltb (thr * dk) dc then Exact 2 (c_0_794 * dk * pw)
    else
      let factor := evaluate_polynomial icon_coefficients (icon_ncoef * (lgk - icon_MIN_LOG_K)) icon_ncoef (dc / (c_two * dk)) in
      let ratio := dc / dk in
      let term := 1 + (ratio * ratio * ratio / c_66_774757) in
      let result := dc * factor * term in
      Exact 3 (icon_clamp fops result c).

(* ---- bounds_binomial_proportions.hpp : the parts without pow/exp ---- *)
Definition erf_of_nonneg (x : float) : float :=
  (* 0.0705230784 0.0092705272 0.0002765672 0.0422820123 0.0001520143 0.0000430638 *)
  let a1 := 0x1.20dcceb575bc4p-4 in let a3 := 0x1.2fc6d19201c06p-7 in let a5 := 0x1.220071442ee6cp-12 in
  let a2 := 0x1.5a5fce8133c57p-5 in let a4 := 0x1.3ecc0e4e05f94p-13 in let a6 := 0x1.693ece6b0942bp-15 in
  let x2 := x * x in let x3 := x2 * x in let x4 := x2 * x2 in let x5 := x2 * x3 in let x6 := x3 * x3 in
  let sum := 1 + a1 * x + a2 * x2 + a3 * x3 + a4 * x4 + a5 * x5 + a6 * x6 in
  let sum2 := sum * sum in let sum4 := sum2 * sum2 in let sum8 := sum4 * sum4 in let sum16 := sum8 * sum8 in
  1 - 1 / sum16.
Definition bbp_erf (x : float) : float :=
  if PrimFloat.ltb x 0 then (- 1) * erf_of_nonneg ((- 1) * x) else erf_of_nonneg x.
Definition bbp_normal_cdf (x : float) : float := c_half * (1 + bbp_erf (x / PrimFloat.sqrt c_two)).
Definition bbp_estimate (n k : Z) : float := if (n =? 0)%Z then c_half else fofZ k / fofZ n.

(* ---- bounds_on_ratios_in_sampled_sets.hpp (NUM_STD_DEVS = 2.0). The approximate bounds on p go through exp/pow
        (bounds_binomial_proportions) and are read from the environment, evaluated at the kappa the model computes ---- *)
Definition c_0_01 : float := 0x1.47ae147ae147bp-7.          (* 0.01 *)
Definition hacky_adjuster (f : float) : float :=
  let tmp := PrimFloat.sqrt (1 - f) in
  if PrimFloat.leb f c_half then tmp else tmp + c_0_01 * (f - c_half).
Definition ratio_kappa (f : float) : float := c_two * hacky_adjuster f.
(* check_inputs: throws when a < b or f > 1 or f <= 0 (NaN passes, as coded) *)
Definition ratio_inputs_ok (a b : Z) (f : float) : bool :=
  negb (a <? b)%Z && negb (PrimFloat.ltb 1 f) && negb (PrimFloat.leb f 0).
Definition ratio_lb (a b : Z) (f inner : float) : float :=
  if (a =? 0)%Z then 0 else if PrimFloat.eqb f 1 then fofZ b / fofZ a else inner.
Definition ratio_ub (a b : Z) (f inner : float) : float :=
  if (a =? 0)%Z then 1 else if PrimFloat.eqb f 1 then fofZ b / fofZ a else inner.
Definition ratio_est (a b : Z) : float := if (a =? 0)%Z then c_half else fofZ b / fofZ a.
(* bounds_on_ratios_in_theta_sketched_sets: the choice of (count_a, count_b, f) from the two sketches:
   count_a = entries of A below theta(B) (all of them when the thetas are equal), count_b = retained of B, f = theta(B) *)
Definition ratio_count_a (n_a theta64_a theta64_b below : Z) : Z := if (theta64_a =? theta64_b)%Z then n_a else below.
Local Close Scope float_scope.

(* ------------------------------------------------------------------------------------------------ *)
(* line protocol                                                                                       *)
(* ------------------------------------------------------------------------------------------------ *)
Definition fb (x : float) : Z := float_to_bits x.
Definition bf (z : Z) : float := bits_to_float z.

(* bit i of the mismatch mask is set when the model computed the inner value exactly and the implementation's differs *)
Definition mism (bit : Z) (a : approx) (impl_bits : Z) : Z :=
  match a with
  | Exact _ v => if fb v =? impl_bits then 0 else 2 ^ bit
  | Libm _ => 0
  end.
Definition branch_of (a : approx) : Z := match a with Exact b _ => b | Libm b => b end.

(* bounds of one (m, theta) for sd = 1,2,3 given the implementation's inner values [ilb1; iub1; ilb2; iub2; ilb3; iub3] *)
Definition bb_triple (estmode : bool) (m : Z) (theta : float) (e : list Z) : list Z * Z * list Z :=
  match e with
  | [l1; u1; l2; u2; l3; u3; pwb; pw1b] =>
      let pw := bf pwb in let pw1 := bf pw1b in
      let one sd l u := [fb (sk_lb fops estmode m theta (bf l)); fb (sk_ub fops estmode m theta (bf u))] in
      let mask :=
        if estmode then
          mism 0 (approx_lb m theta 1 pw) l1 + mism 1 (approx_ub m theta 1 pw1) u1 +
          mism 2 (approx_lb m theta 2 pw) l2 + mism 3 (approx_ub m theta 2 pw1) u2 +
          mism 4 (approx_lb m theta 3 pw) l3 + mism 5 (approx_ub m theta 3 pw1) u3
        else 0 in
      (one 1 l1 u1 ++ one 2 l2 u2 ++ one 3 l3 u3, mask,
       [branch_of (approx_lb m theta 1 pw); branch_of (approx_ub m theta 1 pw1);
        branch_of (approx_lb m theta 2 pw); branch_of (approx_ub m theta 2 pw1);
        branch_of (approx_lb m theta 3 pw); branch_of (approx_ub m theta 3 pw1)])
  | _ => ([], -3, [])
  end.

Definition sketch_bounds (n theta64 : Z) (empty : bool) (m : Z) (e : list Z) : outline :=
  let theta := theta_frac theta64 in
  let em := estimation_mode theta64 empty in
  let mm := Z.min m n in
  let '(bs, mask, br) := bb_triple em mm theta e in
  if mask =? -3 then ([-3], [])
  else ([n; bz em; fb (sk_est fops n theta)] ++ bs ++ [mask], br).

Definition hll_bounds (e : list Z) : outline :=
  match e with
  | [mode; lgk; ooo; count; cur_min; num_at; est; cubic; kxq0; kxq1; lin; comp] =>
      if (mode =? 2) then
        let o := negb (ooo =? 0) in
        let nnz := hll_num_nonzeros lgk cur_min num_at in
        let one sd := [fb (hll_lb fops (bf est) (hll_rel_err false o lgk sd) nnz);
                       fb (hll_ub fops (bf est) (hll_rel_err true o lgk sd))] in
        let cm := match hll_composite lgk (bf kxq0) (bf kxq1) (bf lin) with Some v => v | None => PrimFloat.nan end in
        let mask := if fb cm =? comp then 0 else 2 in
        (one 1 ++ one 2 ++ one 3 ++ [est; mask], [nnz; fb (hll_raw_estimate lgk (bf kxq0) (bf kxq1))])
      else
        let cm := match coupon_cubic count with Some v => v | None => PrimFloat.nan end in
        let mask := if fb cm =? cubic then 0 else 1 in
        let c := bf cubic in
        let one sd := [fb (coupon_lb fops c (PrimFloat.mul (fofZ sd) coupon_rse) count);
                       fb (coupon_ub fops c (PrimFloat.mul (fofZ sd) coupon_rse) count)] in
        (one 1 ++ one 2 ++ one 3 ++ [fb (coupon_est fops c count); mask], [count])
  | _ => ([-3], [])
  end.

Definition cpc_bounds (e : list Z) : outline :=
  match e with
  | [lgk; c; merged; est] =>
      let mg := negb (merged =? 0) in
      let one k := [fb (cpc_lb fops c (bf est) (cpc_eps_lb mg lgk k)); fb (cpc_ub fops c (bf est) (cpc_eps_ub mg lgk k))] in
      (one 1 ++ one 2 ++ one 3, [])
  | _ => ([-3], [])
  end.

Definition step (s : unit) (o e : line) : unit * outline :=
  match o with
  | [1; n; tb] =>                           (* binomial_bounds on (n, theta), sd = 1..3; env = inner values *)
      let theta := bf tb in
      if theta_ok theta then
        let '(bs, mask, br) := bb_triple true n theta e in
        if mask =? -3 then (s, ([-3], [])) else (s, ([fb (bb_est fops n theta)] ++ bs ++ [mask], br))
      else (s, (refused, []))
  | [2; n; tb; sd] =>                       (* argument validation of binomial_bounds *)
      if theta_ok (bf tb) && sd_ok sd then (s, (ok, [])) else (s, (refused, []))
  | 3 :: kind :: n :: theta64 :: empty :: m :: _ =>   (* compact theta / tuple sketch with given (n, theta64, empty) *)
      (s, sketch_bounds n theta64 (negb (empty =? 0)) m e)
  | 4 :: _ =>                               (* real theta / tuple sketch or set-operation result; env = n theta64 empty m inner* *)
      match e with
      | n :: theta64 :: empty :: m :: inner => (s, sketch_bounds n theta64 (negb (empty =? 0)) m inner)
      | _ => (s, ([-3], []))
      end
  | [5; upper; ooo; lgk; sd] =>             (* hll_sketch::get_rel_err *)
      if hll_lgk_ok lgk then (s, ([fb (hll_rel_err (negb (upper =? 0)) (negb (ooo =? 0)) lgk sd)], []))
      else (s, (refused, []))
  | 6 :: _ => (s, hll_bounds e)             (* hll sketch / union result / poked HllArray; env = state and estimate *)
  | [7; lgk; c] =>                          (* compute_icon_estimate; env = implementation's value *)
      if icon_lgk_ok lgk then
        match e with
        | [v; pw] => let a := icon_estimate lgk c (bf pw) in
                 (s, ([mism 0 a v], branch_of a :: match a with Exact _ x => [fb x] | Libm _ => [] end))
        | _ => (s, ([-3], []))
        end
      else (s, (refused, []))
  | 8 :: _ => (s, cpc_bounds e)             (* cpc sketch / union result / poked sketch *)
  | [9; n; k] =>                            (* bounds_binomial_proportions::estimate_unknown_p *)
      if n <? k then (s, (refused, [])) else (s, ([fb (bbp_estimate n k)], []))
  | [12; a; b; fbits] =>                    (* bounds_on_ratios_in_sampled_sets; env = kappa, inner lb, inner ub *)
      let f := bf fbits in
      if ratio_inputs_ok a b f then
        match e with
        | [kp; il; iu] =>
            let mask := if (a =? 0) || PrimFloat.eqb f PrimFloat.one || (fb (ratio_kappa f) =? kp) then 0 else 1 in
            (s, ([fb (ratio_est a b); fb (ratio_lb a b f (bf il)); fb (ratio_ub a b f (bf iu)); mask], []))
        | _ => (s, ([-3], []))
        end
      else (s, (refused, []))
  | 13 :: _ =>                              (* bounds_on_ratios_in_theta_sketched_sets on real sketches A, B *)
      match e with
      | [n_a; t_a; n_b; t_b; below; kp; il; iu] =>
          if t_a <? t_b then (s, (refused, [])) else
          let ca := ratio_count_a n_a t_a t_b below in
          let f := theta_frac t_b in
          if ca =? 0 then (s, ([fb c_half; fb PrimFloat.zero; fb PrimFloat.one; 0], [ca; n_b]))
          else if ratio_inputs_ok ca n_b f then
            let mask := if PrimFloat.eqb f PrimFloat.one || (fb (ratio_kappa f) =? kp) then 0 else 1 in
            (s, ([fb (ratio_est ca n_b); fb (ratio_lb ca n_b f (bf il)); fb (ratio_ub ca n_b f (bf iu)); mask], [ca; n_b]))
          else (s, (refused, []))
      | _ => (s, ([-3], []))
      end
  | [10; xb] =>                             (* bounds_binomial_proportions::erf, normal_cdf *)
      (s, ([fb (bbp_erf (bf xb)); fb (bbp_normal_cdf (bf xb))], []))
  | _ => (s, ([-2], []))
  end.

Definition run (ops : list opline) : list outline := run_case step tt ops.
