(* ThetaSetErase.v — the key-level behaviour of the polymorphic set operations does not depend on the payloads: erasing the
   payloads of the inputs (S -> unit, i.e. looking at a Tuple sketch as a Theta sketch) and running the Theta operations
   gives the same theta, emptiness, order flag, seed hash and keys as running the operations at payload type S with ANY
   combine policy.  Also: the order flag of every result as a function of the inputs' flags and the request. *)
From Coq Require Import ZArith NArith List Bool Lia Permutation Sorted Arith.
From DS Require Import Word RunnerLib OpenAddr KSmallest Canon ThetaDefs ThetaProofs ThetaRefine ThetaFacts
  ThetaSetDefs ThetaSetWf ThetaSetUnion ThetaSetInter ThetaSetANotB.
Import ListNotations.
Local Open Scope N_scope.

Section Erase.
  Variable S : Type.
  Notation input := (input S).

  Definition erase_entries (l : list (N * S)) : list (N * unit) := map (fun e => (fst e, tt)) l.
  Definition erase (i : input) : ThetaSetDefs.input unit :=
    mk_input unit (in_theta i) (in_empty i) (in_ordered i) (in_seed_hash i) (erase_entries (in_entries i)).

  Lemma erase_keys i : in_keys (erase i) = in_keys i.
  Proof. unfold in_keys, erase, erase_entries. cbn [in_entries]. rewrite map_map. reflexivity. Qed.

  Lemma erase_num i : in_num (erase i) = in_num i.
  Proof. unfold in_num, erase, erase_entries. cbn [in_entries]. now rewrite map_length. Qed.

  Lemma erase_sorted (l : list (N * S)) : StronglySorted (klt fst) l -> StronglySorted (klt fst) (erase_entries l).
  Proof.
    induction 1 as [|a r Hs IH Hf]; [constructor|]. cbn [erase_entries map]. constructor; [exact IH|].
    rewrite Forall_forall in *. intros x Hx. apply in_map_iff in Hx. destruct Hx as (y & <- & Hy). apply (Hf y Hy).
  Qed.

  Lemma erase_wf i : wf i -> wf (erase i).
  Proof.
    intros [H1 H2 H3 H4]. constructor; rewrite ?erase_keys; cbn [erase in_theta in_ordered in_empty in_entries]; auto.
    - intros Ho. apply erase_sorted, H3, Ho.
    - intros He. destruct (H4 He) as [-> Ht]. split; [reflexivity|exact Ht].
  Qed.

  Lemma erase_seed_ok sh i : seed_ok sh i -> seed_ok sh (erase i).
  Proof. intros [H|H]; [left|right]; exact H. Qed.

  Lemma erase_theta_ok i : theta_ok S i -> theta_ok unit (erase i).
  Proof. exact (fun H => H). Qed.

  (* the specifications only look at theta, emptiness and keys *)
  Lemma all_keys_erase ins : all_keys unit (map erase ins) = all_keys S ins.
  Proof. unfold all_keys. induction ins as [|i r IH]; [reflexivity|]. cbn [map flat_map]. now rewrite erase_keys, IH. Qed.

  Lemma min_theta_erase ins : forall m, min_theta unit m (map erase ins) = min_theta S m ins.
  Proof. induction ins as [|i r IH]; intros m; [reflexivity|]. cbn [map min_theta fold_left]. apply IH. Qed.

  Lemma spec_union_erase k th0 ins : spec_union unit k th0 (map erase ins) = spec_union S k th0 ins.
  Proof.
    unfold spec_union. rewrite all_keys_erase, min_theta_erase.
    replace (forallb in_empty (map erase ins)) with (forallb in_empty ins); [reflexivity|].
    induction ins as [|i r IH]; [reflexivity|]. cbn [map forallb]. now rewrite IH.
  Qed.

  Lemma spec_inter_erase ins : spec_inter unit (map erase ins) = spec_inter S ins.
  Proof.
    unfold spec_inter. rewrite min_theta_erase.
    replace (existsb in_empty (map erase ins)) with (existsb in_empty ins)
      by (induction ins as [|i r IH]; [reflexivity|]; cbn [map existsb]; now rewrite IH).
    destruct (existsb in_empty ins); [reflexivity|].
    destruct ins as [|a r]; [reflexivity|]. cbn [map]. rewrite erase_keys.
    replace (filter (fun h => forallb (fun i => mem h (in_keys i)) (map erase r)) (in_keys a))
      with (filter (fun h => forallb (fun i : input => mem h (in_keys i)) r) (in_keys a)); [reflexivity|].
    apply filter_ext. intros h. induction r as [|j r IH]; [reflexivity|]. cbn [map forallb]. now rewrite erase_keys, IH.
  Qed.

  Lemma spec_a_not_b_erase a b : spec_a_not_b unit (erase a) (erase b) = spec_a_not_b S a b.
  Proof. unfold spec_a_not_b. now rewrite !erase_keys. Qed.
End Erase.

Arguments erase {S}.

(* ---- the order flag of the results ---- *)
Section Flags.
  Variable S : Type.
  Variable sel : nat -> list (N * S) -> list (N * S).
  Variable comb : S -> S -> S.

  (* union: get_result(ordered) is flagged ordered iff ordered was requested or at most one entry is returned *)
  Lemma union_result_ordered u o : let res := union_result S sel u o in
    in_ordered res = (o || (length (in_entries res) <=? 1)%nat) \/ (in_empty res = true /\ in_ordered res = true /\ in_entries res = []).
  Proof.
    unfold union_result, union_result_gen. destruct (is_empty (u_table u)); unfold mk_result; cbn [in_ordered in_entries in_empty]; auto.
  Qed.

  Lemma inter_result_ordered x o res : inter_result S x o = Some res ->
    in_ordered res = (o || (length (in_entries res) <=? 1)%nat).
  Proof.
    unfold inter_result, inter_result_gen. destruct (negb (i_valid x)); [discriminate|]. intros H. injection H as <-.
    unfold mk_result. reflexivity.
  Qed.

  (* A-not-B: past the early returns the flag is (A's flag || requested || at most one entry) — ThetaSetANotB.a_not_b_spec;
     on the early returns it is A's flag || requested *)
  Lemma a_not_b_early_ordered (a : input S) o : in_ordered (compact_copy S a o) = (in_ordered a || o).
  Proof. reflexivity. Qed.
End Flags.

(* ---- erasure theorems: the keys, theta, emptiness and order flag of a result at payload type S are those of the Theta
   result on the erased inputs ---- *)
Section EraseOps.
  Variable S : Type.
  Variable sel : nat -> list (N * S) -> list (N * S).
  Hypothesis sel_ok : forall k l, (k < length l)%nat -> nth_post fst k l (sel k l).
  Variable selu : nat -> list (N * unit) -> list (N * unit).
  Hypothesis selu_ok : forall k l, (k < length l)%nat -> nth_post fst k l (selu k l).
  Variable comb : S -> S -> S.
  Notation input := (input S).
  Notation obs res := (in_theta res, in_empty res, sortN (in_keys res)).

  Lemma len_of_sorted_keys {A B} (r1 : ThetaSetDefs.input A) (r2 : ThetaSetDefs.input B) :
    sortN (in_keys r1) = sortN (in_keys r2) -> length (in_entries r1) = length (in_entries r2).
  Proof.
    intros H. rewrite <- (map_length fst (in_entries r1)), <- (map_length fst (in_entries r2)).
    fold (in_keys r1). fold (in_keys r2).
    rewrite <- (Permutation_length (sortN_perm (in_keys r1))), <- (Permutation_length (sortN_perm (in_keys r2))). now rewrite H.
  Qed.

  Theorem union_erase lgk r th0 sh ins : 5 <= lgk -> Forall wf ins -> Forall (seed_ok sh) ins ->
    exists u u1, union_fold S sel comb (union_new S lgk r th0 sh) ins = Some u /\
      union_fold unit selu comb_unit (union_new unit lgk r th0 sh) (map erase ins) = Some u1 /\
      forall o, let res := union_result S sel u o in let res1 := union_result unit selu u1 o in
        obs res = obs res1 /\ in_ordered res = in_ordered res1 /\ in_seed_hash res = in_seed_hash res1.
  Proof.
    intros Hk Hwf Hseed.
    destruct (union_spec S sel sel_ok comb lgk r th0 sh Hk ins Hwf Hseed) as (u & Hf & Hres).
    destruct (union_spec unit selu selu_ok comb_unit lgk r th0 sh Hk (map erase ins)) as (u1 & Hf1 & Hres1).
    { rewrite Forall_map. eapply Forall_impl; [|exact Hwf]. intros i. apply erase_wf. }
    { rewrite Forall_map. eapply Forall_impl; [|exact Hseed]. intros i. apply erase_seed_ok. }
    exists u, u1. split; [exact Hf|]. split; [exact Hf1|]. intros o.
    destruct (Hres o) as (E & _ & _ & Hsh & _). destruct (Hres1 o) as (E1 & _ & _ & Hsh1 & _). cbv zeta in *.
    rewrite spec_union_erase in E1. assert (Eobs : obs (union_result S sel u o) = obs (union_result unit selu u1 o)) by congruence.
    split; [exact Eobs|]. split; [|congruence].
    assert (Hlen : length (in_entries (union_result S sel u o)) = length (in_entries (union_result unit selu u1 o))).
    { apply len_of_sorted_keys. congruence. }
    assert (Hemp : in_empty (union_result S sel u o) = in_empty (union_result unit selu u1 o)) by congruence.
    destruct (union_result_ordered S sel u o) as [A|(A1 & A2 & A3)]; destruct (union_result_ordered unit selu u1 o) as [B|(B1 & B2 & B3)]; cbv zeta in *.
    - rewrite A, B, Hlen. reflexivity.
    - rewrite A, B2. rewrite Hlen, B3. cbn. apply orb_true_r.
    - rewrite A2, B. rewrite <- Hlen, A3. cbn. symmetry. apply orb_true_r.
    - congruence.
  Qed.

  Theorem inter_erase sh ins : ins <> [] -> Forall wf ins -> Forall (theta_ok S) ins -> Forall (seed_ok sh) ins ->
    exists x x1, inter_fold S sel comb (inter_new S sh) ins = Some x /\
      inter_fold unit selu comb_unit (inter_new unit sh) (map erase ins) = Some x1 /\
      forall o, exists res res1, inter_result S x o = Some res /\ inter_result unit x1 o = Some res1 /\
        obs res = obs res1 /\ in_ordered res = in_ordered res1 /\ in_seed_hash res = in_seed_hash res1.
  Proof.
    intros Hne Hwf Hto Hseed.
    destruct (inter_spec S sel comb sh ins Hne Hwf Hto Hseed) as (x & Hf & _ & Hres).
    destruct (inter_spec unit selu comb_unit sh (map erase ins)) as (x1 & Hf1 & _ & Hres1).
    { destruct ins; [congruence|discriminate]. }
    { rewrite Forall_map. eapply Forall_impl; [|exact Hwf]. intros i. apply erase_wf. }
    { rewrite Forall_map. eapply Forall_impl; [|exact Hto]. intros i. apply erase_theta_ok. }
    { rewrite Forall_map. eapply Forall_impl; [|exact Hseed]. intros i. apply erase_seed_ok. }
    exists x, x1. split; [exact Hf|]. split; [exact Hf1|]. intros o.
    destruct (Hres o) as (res & Hr & E & _ & Hsh & _). destruct (Hres1 o) as (res1 & Hr1 & E1 & _ & Hsh1 & _).
    rewrite spec_inter_erase in E1. exists res, res1. split; [exact Hr|]. split; [exact Hr1|].
    assert (Eobs : obs res = obs res1) by congruence. split; [exact Eobs|]. split; [|congruence].
    rewrite (inter_result_ordered S x o res Hr), (inter_result_ordered unit x1 o res1 Hr1).
    rewrite (len_of_sorted_keys res res1) by congruence. reflexivity.
  Qed.

  Theorem a_not_b_erase sh (a b : input) o : wf a -> wf b -> in_seed_hash a = sh -> in_seed_hash b = sh ->
    in_empty a = false -> (in_num a = 0 \/ in_empty b = false) ->
    exists res res1, a_not_b S sh a b o = Some res /\ a_not_b unit sh (erase a) (erase b) o = Some res1 /\
      obs res = obs res1 /\ in_ordered res = in_ordered res1 /\ in_seed_hash res = in_seed_hash res1.
  Proof.
    intros Ha Hb Hsa Hsb Hea Hcase.
    destruct (a_not_b_spec S sh a b o Ha Hb Hsa Hsb Hea Hcase) as (res & Hr & E & _ & Ho & Hs & _).
    destruct (a_not_b_spec unit sh (erase a) (erase b) o (erase_wf S a Ha) (erase_wf S b Hb) Hsa Hsb Hea) as (res1 & Hr1 & E1 & _ & Ho1 & Hs1 & _).
    { rewrite erase_num. exact Hcase. }
    rewrite spec_a_not_b_erase in E1. exists res, res1. split; [exact Hr|]. split; [exact Hr1|].
    assert (Eobs : obs res = obs res1) by congruence. split; [exact Eobs|]. split; [|congruence].
    rewrite Ho, Ho1. rewrite (len_of_sorted_keys res res1) by congruence. reflexivity.
  Qed.
End EraseOps.
