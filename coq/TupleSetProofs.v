(* TupleSetProofs.v — filter, A-not-B and intersection of tuple sketches (model: TupleDefs.v Section SetOps).
   [cwf] (ThetaFacts.v) = well-formed compact form: distinct keys, no entries when empty, strictly increasing when
   flagged ordered.  No assumption on the policy [comb]. *)
From Coq Require Import ZArith NArith List Bool Lia Permutation Sorted Arith.
From DS Require Import Word RunnerLib OpenAddr KSmallest Canon ThetaDefs ThetaProofs ThetaRefine ThetaFacts TupleDefs.
Import ListNotations.
Local Open Scope N_scope.

Section SetFacts.
  Variable S : Type.
  Variable comb : S -> S -> S.
  Notation compact := (compact S).
  Notation cwf := (cwf S).
  Notation lookup := (lookup S).

  (* ---- lookup ---- *)
  Lemma lookup_in h v l : lookup h l = Some v -> In (h, v) l.
  Proof.
    induction l as [|[k w] l IH]; simpl; [discriminate|]. destruct (N.eqb_spec k h) as [->|E].
    - intros H. inversion H. auto.
    - auto.
  Qed.

  Lemma in_lookup h v l : NoDup (map fst l) -> In (h, v) l -> lookup h l = Some v.
  Proof.
    induction l as [|[k w] l IH]; simpl; intros Hnd Hin; [contradiction|]. inversion Hnd; subst.
    destruct Hin as [E|Hin].
    - inversion E; subst. now rewrite N.eqb_refl.
    - destruct (N.eqb_spec k h) as [->|E]; [|auto]. exfalso. apply H1. change h with (fst (h, v)). now apply in_map.
  Qed.

  Lemma lookup_none h l : lookup h l = None <-> ~ In h (map fst l).
  Proof.
    induction l as [|[k w] l IH]; simpl; [tauto|]. destruct (N.eqb_spec k h) as [->|E].
    - split; [discriminate|]. intros H. exfalso. auto.
    - rewrite IH. tauto.
  Qed.

  Lemma short_sorted' (l : list (N * S)) : (length l <= 1)%nat -> StronglySorted (klt fst) l.
  Proof. destruct l as [|a [|b l]]; simpl; intros H; try lia; repeat constructor. Qed.

  (* ---- filter ---- *)
  Theorem filter_spec (p : S -> bool) (c : compact) : let f := filter_c S p c in
    c_theta f = c_theta c /\
    c_entries f = filter (fun e => p (snd e)) (c_entries c) /\
    (forall h v, In (h, v) (c_entries f) <-> In (h, v) (c_entries c) /\ p v = true) /\
    c_empty f = negb (c_est S c) && (length (c_entries f) =? 0)%nat /\
    (c_est S c = true -> c_empty f = false) /\
    (cwf c -> cwf f).
  Proof.
    intros f. unfold f, filter_c, mk_cs. cbn [c_theta c_entries c_empty c_ordered].
    split; [reflexivity|]. split; [reflexivity|]. split; [|split; [reflexivity|split]].
    - intros h v. rewrite filter_In. simpl. tauto.
    - intros ->. reflexivity.
    - intros (Hnd & Hemp & Hord). split; [|split].
      + now apply NoDup_map_filter.
      + intros He. destruct (filter (fun e => p (snd e)) (c_entries c)) eqn:E; [reflexivity|].
        simpl in He. rewrite andb_false_r in He. discriminate.
      + intros Ho. apply orb_true_iff in Ho. destruct Ho as [Ho|Ho].
        * specialize (Hord Ho). clear -Hord. induction Hord as [|a l Hs IH Hf]; simpl; [constructor|].
          destruct (p (snd a)); [|exact IH]. constructor; [exact IH|].
          rewrite Forall_forall in *. intros x Hx. apply filter_In in Hx. apply Hf. tauto.
        * apply short_sorted'. now apply Nat.leb_le.
  Qed.

  (* ---- loops with the early stop of ordered inputs ---- *)
  Lemma scan_lt_false th l : scan_lt S false th l = filter (fun e => fst e <? th) l.
  Proof. induction l as [|e l IH]; simpl; auto. destruct (fst e <? th); now rewrite IH. Qed.

  Lemma scan_lt_sorted th l : StronglySorted (klt fst) l -> scan_lt S true th l = filter (fun e => fst e <? th) l.
  Proof.
    induction 1 as [|a l Hs IH Hf]; simpl; auto. destruct (N.ltb_spec (fst a) th) as [E|E]; [now rewrite IH|].
    symmetry. apply filter_all_false. eapply Forall_impl; [|exact Hf]. intros x Hx. unfold klt in Hx. apply N.ltb_ge. lia.
  Qed.

  Lemma scan_lt_wf o th l : (o = true -> StronglySorted (klt fst) l) -> scan_lt S o th l = filter (fun e => fst e <? th) l.
  Proof. destruct o; intros H; [apply scan_lt_sorted; auto|apply scan_lt_false]. Qed.

  (* ---- std::set_difference on strictly increasing ranges ---- *)
  Lemma sorted_head_lt (a : N * S) l x : StronglySorted (klt fst) (a :: l) -> In x l -> fst a < fst x.
  Proof. intros H Hx. inversion H; subst. rewrite Forall_forall in H3. exact (H3 x Hx). Qed.

  Lemma set_diff_spec a : forall b, StronglySorted (klt fst) a -> StronglySorted (klt fst) b ->
    forall x, In x (set_diff S a b) <-> In x a /\ ~ In (fst x) (map fst b).
  Proof.
    induction a as [|x a IHa]; intros b Ha Hb z.
    - destruct b; simpl; tauto.
    - induction b as [|y b IHb].
      + simpl. tauto.
      + assert (Ha' : StronglySorted (klt fst) a) by (inversion Ha; auto).
        assert (Hb' : StronglySorted (klt fst) b) by (inversion Hb; auto).
        cbn [set_diff]. destruct (N.ltb_spec (fst x) (fst y)) as [E1|E1]; [|destruct (N.ltb_spec (fst y) (fst x)) as [E2|E2]].
        * (* x is below every key of b *)
          cbn [In]. rewrite (IHa (y :: b) Ha' Hb z). split.
          -- intros [<-|[Hz Hn]]; [|tauto]. split; [auto|]. cbn [map In]. intros [E|Hin]; [lia|].
             apply in_map_iff in Hin. destruct Hin as (w & Ew & Hw). pose proof (sorted_head_lt y b w Hb Hw). lia.
          -- intros [[<-|Hz] Hn]; tauto.
        * (* y is below every key of a *)
          change ((fix aux (b0 : list (N * S)) : list (N * S) :=
                     match b0 with
                     | [] => x :: a
                     | y0 :: b' => if fst x <? fst y0 then x :: set_diff S a b0
                                   else if fst y0 <? fst x then aux b' else set_diff S a b'
                     end) b) with (set_diff S (x :: a) b).
          rewrite (IHb Hb'). cbn [map In]. split; [|tauto]. intros [Hz Hn]. split; [exact Hz|].
          intros [E|Hin]; [|tauto]. destruct Hz as [<-|Hz]; [lia|]. pose proof (sorted_head_lt x a z Ha Hz). lia.
        * (* same key: x is dropped *)
          assert (E : fst x = fst y) by lia. rewrite (IHa b Ha' Hb' z). cbn [map In]. split.
          -- intros [Hz Hn]. split; [auto|]. intros [E'|Hin]; [|tauto]. pose proof (sorted_head_lt x a z Ha Hz). lia.
          -- intros [[<-|Hz] Hn]; [exfalso; apply Hn; auto|tauto].
  Qed.

  (* ---- A-not-B ---- *)
  Definition anb_early (a b : compact) : bool :=
    c_empty a || ((0 <? length (c_entries a))%nat && c_empty b).

  Theorem a_not_b_early a b ordered : cwf a -> anb_early a b = true ->
    let c := a_not_b S a b ordered in
    c_theta c = c_theta a /\ c_empty c = c_empty a /\ Permutation (c_entries c) (c_entries a) /\ cwf c.
  Proof.
    intros Ha He c. unfold c, a_not_b. fold (anb_early a b). rewrite He.
    destruct (compact_of_compact_same S a ordered Ha) as (H1 & H2 & H3 & _ & H5). auto.
  Qed.

  (* keys: those of A below min(theta_A, theta_B) that B does not hold; summaries: A's, untouched *)
  Theorem a_not_b_spec a b ordered : cwf a -> cwf b -> anb_early a b = false ->
    let c := a_not_b S a b ordered in
    c_theta c = N.min (c_theta a) (c_theta b) /\
    forall h v, In (h, v) (c_entries c) <->
                In (h, v) (c_entries a) /\ h < N.min (c_theta a) (c_theta b) /\ ~ In h (map fst (c_entries b)).
  Proof.
    intros (Hnda & Hea & Hoa) (Hndb & Heb & Hob) He c. unfold c, a_not_b. fold (anb_early a b). rewrite He.
    set (th := N.min (c_theta a) (c_theta b)).
    cbv zeta. unfold mk_cs. cbn [c_theta c_entries]. split; [reflexivity|]. intros h v.
    match goal with |- In _ (if _ then msort fst ?e else ?e) <-> _ => set (ents := e) end.
    assert (Hents : In (h, v) ents <-> In (h, v) (c_entries a) /\ h < th /\ ~ In h (map fst (c_entries b))).
    { unfold ents. destruct (length (c_entries b) =? 0)%nat eqn:Eb.
      - apply Nat.eqb_eq in Eb. destruct (c_entries b); [|discriminate]. rewrite filter_In. simpl. rewrite N.ltb_lt. tauto.
      - destruct (c_ordered a && c_ordered b) eqn:Eo.
        + apply andb_true_iff in Eo. destruct Eo as [Eoa Eob]. rewrite filter_In.
          rewrite (set_diff_spec _ _ (Hoa Eoa) (Hob Eob)). simpl. rewrite N.ltb_lt. tauto.
        + rewrite (scan_lt_wf _ th _ Hoa), (scan_lt_wf _ th _ Hob). rewrite !filter_In. simpl. rewrite N.ltb_lt.
          split.
          * intros [[Hin Hlt] Hl]. split; [auto|]. split; [auto|]. intros Hb.
            destruct (lookup h (filter (fun e => fst e <? th) (c_entries b))) eqn:El; [discriminate|].
            apply lookup_none in El. apply El. apply in_keys_filter_lt. auto.
          * intros (Hin & Hlt & Hn). split; [auto|].
            destruct (lookup h (filter (fun e => fst e <? th) (c_entries b))) eqn:El; [|reflexivity].
            exfalso. apply Hn. apply lookup_in in El. apply filter_In in El. destruct El as [El _].
            change h with (fst (h, s)). now apply in_map. }
    destruct (ordered && negb (c_ordered a)); [|exact Hents].
    rewrite <- Hents. apply perm_in_iff. apply msort_perm.
  Qed.

  (* ---- intersection ---- *)
  Lemma inter_scan_in o th ents l h v' :
    In (h, v') (inter_scan S comb o th ents l) ->
    exists cur vin, lookup h ents = Some cur /\ In (h, vin) l /\ h < th /\ v' = comb cur vin.
  Proof.
    induction l as [|[k w] l IH]; simpl; [contradiction|].
    destruct (N.ltb_spec k th) as [E|E].
    - destruct (lookup k ents) as [cur|] eqn:El.
      + intros [H|H].
        * inversion H; subst. exists cur, w. auto.
        * destruct (IH H) as (c0 & v0 & ? & ? & ? & ?). exists c0, v0. auto.
      + intros H. destruct (IH H) as (c0 & v0 & ? & ? & ? & ?). exists c0, v0. auto.
    - destruct o; [contradiction|]. intros H. destruct (IH H) as (c0 & v0 & ? & ? & ? & ?). exists c0, v0. auto.
  Qed.

  Lemma inter_scan_keys o th ents l : incl (map fst (inter_scan S comb o th ents l)) (map fst l).
  Proof.
    intros h Hin. apply in_map_iff in Hin. destruct Hin as ([k v] & E & Hin). simpl in E. subst k.
    destruct (inter_scan_in _ _ _ _ _ _ Hin) as (_ & vin & _ & Hl & _). change h with (fst (h, vin)). now apply in_map.
  Qed.

  Lemma inter_scan_nodup o th ents l : NoDup (map fst l) -> NoDup (map fst (inter_scan S comb o th ents l)).
  Proof.
    induction l as [|[k w] l IH]; simpl; intros Hnd; [constructor|]. inversion Hnd; subst.
    destruct (k <? th).
    - destruct (lookup k ents); [|auto]. simpl. constructor; [|auto]. intros Hin. apply H1. eapply inter_scan_keys; eauto.
    - destruct o; [constructor|auto].
  Qed.

  Definition inter_run (cs : list compact) : inter_st S := fold_left (inter_update S comb) cs (inter_new S).

  (* the summaries the inputs hold for key h, in presentation order; None when some input does not hold h *)
  Fixpoint summaries (h : N) (cs : list compact) : option (list S) :=
    match cs with
    | [] => Some []
    | c :: r => match lookup h (c_entries c), summaries h r with
                | Some v, Some vs => Some (v :: vs)
                | _, _ => None
                end
    end.

  Lemma summaries_snoc h cs c :
    summaries h (cs ++ [c]) = match summaries h cs, lookup h (c_entries c) with
                              | Some vs, Some v => Some (vs ++ [v])
                              | _, _ => None
                              end.
  Proof.
    induction cs as [|d cs IH]; simpl.
    - destruct (lookup h (c_entries c)); reflexivity.
    - rewrite IH. destruct (lookup h (c_entries d)); [|reflexivity].
      destruct (summaries h cs); [|reflexivity]. destruct (lookup h (c_entries c)); reflexivity.
  Qed.

  Record IInv (cs : list compact) (st : inter_st S) : Prop := {
    ii_nodup : NoDup (map fst (i_ents st));
    ii_valid : i_valid st = false -> cs = [];
    ii_start : cs = [] -> st = inter_new S;
    ii_empty : i_empty st = true -> i_ents st = [];
    ii_sum : forall h v, In (h, v) (i_ents st) ->
             exists v1 vs, summaries h cs = Some (v1 :: vs) /\ v = fold_left comb vs v1
  }.

  Lemma iinv_step cs st c : cwf c -> IInv cs st -> IInv (cs ++ [c]) (inter_update S comb st c).
  Proof.
    intros (Hndc & Hec & Hoc) [Hnd Hval Hstart Hemp Hsum].
    assert (Hne : cs ++ [c] = [] -> False) by (destruct cs; discriminate).
    assert (Hnil : forall e th, IInv (cs ++ [c]) (mk_inter true e th [])).
    { intros e th. constructor; cbn [i_ents i_valid i_empty map];
        [constructor | discriminate | intros H; exfalso; auto | reflexivity | intros h v []]. }
    unfold inter_update. destruct (i_empty st) eqn:Ee.
    - (* already the empty set: nothing changes *)
      constructor; auto.
      + intros Hv. specialize (Hval Hv). subst cs. rewrite (Hstart eq_refl) in Ee. discriminate.
      + intros H. exfalso. auto.
      + intros h v Hin. rewrite (Hemp eq_refl) in Hin. contradiction.
    - destruct (i_valid st && (length (i_ents st) =? 0)%nat); [apply Hnil|].
      destruct (length (c_entries c) =? 0)%nat eqn:Elc; [apply Hnil|].
      assert (Hcne : c_empty c = false).
      { destruct (c_empty c) eqn:E; [|reflexivity]. rewrite (Hec eq_refl) in Elc. discriminate. }
      destruct (i_valid st) eqn:Ev; cbn [negb].
      + (* intersection with the current state *)
        rewrite Hcne. cbn [orb].
        set (m := inter_scan S comb (c_ordered c) (N.min (i_theta st) (c_theta c)) (i_ents st) (c_entries c)).
        assert (Hm : IInv (cs ++ [c]) (mk_inter true false (N.min (i_theta st) (c_theta c)) m)).
        { constructor; cbn [i_ents i_valid i_empty]; try (intros; discriminate).
          - apply inter_scan_nodup. exact Hndc.
          - intros H. exfalso. auto.
          - intros h v Hin. destruct (inter_scan_in _ _ _ _ _ _ Hin) as (cur & vin & Hl & Hinc & _ & ->).
            destruct (Hsum h cur (lookup_in _ _ _ Hl)) as (v1 & vs & Hs & ->).
            exists v1, (vs ++ [vin]). rewrite summaries_snoc, Hs, (in_lookup _ _ _ Hndc Hinc).
            split; [reflexivity|]. now rewrite fold_left_app. }
        destruct m eqn:Em; [apply Hnil|exact Hm].
      + (* first update: the input is copied *)
        rewrite Hcne. specialize (Hval eq_refl). subst cs. constructor; cbn [i_ents i_valid i_empty]; try (intros; discriminate).
        * exact Hndc.
        * intros h v Hin. exists v, []. simpl. rewrite (in_lookup _ _ _ Hndc Hin). auto.
  Qed.

  Lemma iinv_run cs : Forall cwf cs -> IInv cs (inter_run cs).
  Proof.
    induction cs as [|c cs IH] using rev_ind; intros Hwf.
    - constructor; simpl; try tauto; try constructor; try discriminate.
    - apply Forall_app in Hwf. destruct Hwf as [Hcs Hc]. inversion Hc; subst.
      unfold inter_run. rewrite fold_left_app. simpl. apply iinv_step; [assumption|]. apply IH. exact Hcs.
  Qed.

  (* every key of an intersection is held by EVERY input, and its summary is the policy folded over the inputs'
     summaries of that key in presentation order, starting from the first input's summary (copied): the combined
     summary is kept at every stage *)
  Theorem inter_summary cs h v : Forall cwf cs -> In (h, v) (i_ents (inter_run cs)) ->
    exists v1 vs, summaries h cs = Some (v1 :: vs) /\ v = fold_left comb vs v1.
  Proof. intros Hwf. apply (ii_sum _ _ (iinv_run cs Hwf)). Qed.

  Theorem inter_result_entries cs ordered c : inter_result S (inter_run cs) ordered = Some c ->
    Permutation (c_entries c) (i_ents (inter_run cs)) /\ c_theta c = i_theta (inter_run cs) /\
    c_empty c = i_empty (inter_run cs) || ((length (i_ents (inter_run cs)) =? 0)%nat && (i_theta (inter_run cs) =? max_theta)).
  Proof.
    unfold inter_result. destruct (i_valid (inter_run cs)); [|discriminate]. intros H. inversion H; subst c.
    unfold mk_cs. cbn [c_entries c_theta c_empty]. split; [|auto]. destruct ordered; [apply msort_perm|reflexivity].
  Qed.

  (* get_result is refused exactly before the first update *)
  Theorem inter_has_result cs ordered : Forall cwf cs ->
    (inter_result S (inter_run cs) ordered = None <-> cs = []).
  Proof.
    intros Hwf. pose proof (iinv_run cs Hwf) as [_ Hval Hstart _ _]. unfold inter_result.
    destruct (i_valid (inter_run cs)) eqn:E.
    - split; [discriminate|]. intros ->. simpl in E. discriminate.
    - split; auto.
  Qed.
End SetFacts.
