(* Properties_C07_req.v — C07 for the REQ sketch: weight conservation, exact extremes, coherent answers.
   "reach ic s log": s is ANY state produced by a sequence of updates and merges of reachable sketches (any k in
   [0, 65535] as the constructor adjusts it, both accuracy modes, any merge tree or DAG of same-mode sketches, queries
   interleaved) under ANY outcome of the internal coin flips, and log is the list of all items it has been given.
   ic = true is the model that is extracted and run against the code (the compactor constructor draws its first coin,
   fixes/08_req_unset_coin.patch); every theorem here also holds for ic = false (coin_ = false as originally coded).
   Statements only; proofs in ReqProofs.v, ReqView.v, ReqSpace.v, SortedView.v. *)
From Coq Require Import ZArith List Bool Lia Permutation Sorted QArith.
From DS Require Import RunnerLib SortedView ReqDefs ReqProofs ReqView ReqSpace Regression_req.
Import ListNotations.
Local Open Scope Z_scope.

(* sum over the compactors of 2^lg_weight * number of items = n *)
Theorem C07_req_weight_conserved : forall ic s log, reach ic s log -> Rs (fun _ => true) (comps s) = rn s.
Proof. intros ic s log R. exact (i_w s (r_inv s log (reach_Rel ic s log R))). Qed.

(* n = number of accepted items *)
Theorem C07_req_n_counts_accepted : forall ic s log, reach ic s log -> rn s = len log.
Proof. intros ic s log R. exact (r_n s log (reach_Rel ic s log R)). Qed.

(* min_item_ / max_item_ are exactly the stream's extremes *)
Theorem C07_req_min_max_exact : forall ic s log, reach ic s log -> log <> [] -> is_min (rmin s) log /\ is_max (rmax s) log.
Proof. intros ic s log R H. destruct (reach_Rel ic s log R) as [_ _ A B _ _ _]. split; auto. Qed.

(* compactor i has lg_weight i; every compactor above level 0 is flagged sorted and is sorted, level 0 when flagged *)
Theorem C07_req_compactors_sorted : forall ic s log, reach ic s log ->
  lgw_from 0 (comps s) /\
  (forall h, (1 <= h < length (comps s))%nat -> ssorted (items (nth h (comps s) dummy))) /\
  (srt (nth 0 (comps s) dummy) = true -> ssorted (items (nth 0 (comps s) dummy))).
Proof. exact P_compactors_sorted. Qed.

(* the retained items are a sub-multiset of the inputs: under every predicate (in particular "= y") no more
   retained items satisfy it than input items *)
Theorem C07_req_retained_sub_inputs : forall ic s log, reach ic s log ->
  forall p, cnt p (all_items (comps s)) <= cnt p log.
Proof. intros ic s log R. exact (r_sub s log (reach_Rel ic s log R)). Qed.

(* num_retained_ and max_nom_size_ are the sums over the compactors; after every update and merge the retained
   count is below the nominal capacity (the sketch's space bound: compress() leaves every compactor below its
   nominal capacity, which uses that the binary32 section-size schedule never shrinks a nominal capacity) *)
Theorem C07_req_space_bound : forall ic s log, reach ic s log ->
  nret s = sum_items (comps s) /\ maxnom s = sum_nom (comps s) /\ nret s < maxnom s.
Proof. exact P_space. Qed.

(* a compaction is only started on a compactor for which compute_compaction_range yields at least two items and
   leaves at least one ("compaction range error" is unreachable): stated for every compactor that compress() compacts *)
Theorem C07_req_compaction_range_ok : forall h c, par_ok c -> nom_cap c <= nitems c ->
  0 <= fst (comp_range h c) /\ snd (comp_range h c) <= nitems c /\ 2 <= snd (comp_range h c) - fst (comp_range h c) /\
  Z.even (snd (comp_range h c) - fst (comp_range h c)) = true /\ 0 < nitems c - (snd (comp_range h c) - fst (comp_range h c)).
Proof. intros h c P N. destruct (range_ok h c P N) as (A & B & C & D & E & F & _). auto. Qed.

(* a non-empty reachable sketch has no empty compactor (what operator++ of the iterator relies on) *)
Theorem C07_req_no_empty_compactor : forall ic s log, reach ic s log -> 0 < rn s -> Forall nonempty (comps s).
Proof. intros ic s log R. exact (r_ne s log (reach_Rel ic s log R)). Qed.

(* the iterator (with the repaired constructor) never runs into an empty compactor; it yields exactly num_retained
   entries, each retained item with weight 2^lg_weight of its compactor, and the weights sum to n *)
Theorem C07_req_iterator_spec : forall ic s log, reach ic s log ->
  exists l, iterate s = Some l /\ len l = nret s /\ sum_weights l = rn s /\ map fst l = all_items (comps s) /\
  (forall x w, In (x, w) l <-> exists c, In c (comps s) /\ In x (items c) /\ w = 2 ^ lgw c).
Proof. exact P_iterator. Qed.

(* the iterator AS ORIGINALLY CODED is undefined on a reachable (empty) sketch: finding F3 *)
Theorem C07_req_iterator_as_coded_refuted :
  exists s log, reach true s log /\ rn s = 0 /\ iterate_old s = None /\ iterate s = Some [].
Proof. exact C07_req_empty_iterator_refuted. Qed.

(* sorted view: ordered, total cumulative weight n, a rearrangement of the retained items *)
Theorem C07_req_sorted_view_spec : forall ic s log, reach ic s log -> forall d,
  zsorted_t (map fst (v_entries (qview s))) /\ v_total (qview s) = rn s /\
  (0 < rn s -> snd (last (v_entries (qview s)) d) = rn s) /\
  Permutation (map fst (v_entries (qview s))) (all_items (comps s)).
Proof. intros ic s log R. exact (P_view_spec s log (reach_Rel ic s log R)). Qed.

(* get_rank (numerator; computed by summing over the compactors) *)
Theorem C07_req_rank_monotone : forall ic s log, reach ic s log -> forall x y incl, x <= y ->
  qrank s x incl <= qrank s y incl.
Proof. intros ic s log R. exact (P_rank_monotone s log (reach_Rel ic s log R)). Qed.

Theorem C07_req_rank_incl_ge_excl : forall ic s log, reach ic s log -> forall x, qrank s x false <= qrank s x true.
Proof. intros ic s log R. exact (P_rank_incl_ge_excl s log (reach_Rel ic s log R)). Qed.

Theorem C07_req_rank_within_0_n : forall ic s log, reach ic s log -> forall x incl, 0 <= qrank s x incl <= rn s.
Proof. intros ic s log R. exact (P_rank_bounds s log (reach_Rel ic s log R)). Qed.

(* what get_rank returns is the weighted count of retained items below x ... *)
Theorem C07_req_rank_is_estimator : forall ic s log, reach ic s log -> forall x incl,
  qrank s x incl = Rs (below x incl) (comps s).
Proof. intros ic s log R. exact (P_rank_is_estimator s log (reach_Rel ic s log R)). Qed.

(* ... and it agrees with the rank read off the sorted view (which get_CDF / get_PMF use) *)
Theorem C07_req_view_rank_is_get_rank : forall ic s log, reach ic s log -> forall x incl,
  rank_num Z Z.ltb (qview s) x incl = qrank s x incl.
Proof. intros ic s log R. exact (P_view_rank_is_rank s log (reach_Rel ic s log R)). Qed.

(* quantiles: monotone in the rank (weight), inclusive <= exclusive, always a retained item, always answered on a
   non-empty sketch *)
Theorem C07_req_quantile_monotone : forall ic s log, reach ic s log -> forall w1 w2 incl q1 q2, w1 <= w2 ->
  quantile_w Z (qview s) w1 incl = Some q1 -> quantile_w Z (qview s) w2 incl = Some q2 -> q1 <= q2.
Proof. intros ic s log R. exact (P_quantile_monotone s log (reach_Rel ic s log R)). Qed.

Theorem C07_req_quantile_incl_le_excl : forall ic s log, reach ic s log -> forall w q1 q2,
  quantile_w Z (qview s) w true = Some q1 -> quantile_w Z (qview s) w false = Some q2 -> q1 <= q2.
Proof. intros ic s log R. exact (P_quantile_incl_le_excl s log (reach_Rel ic s log R)). Qed.

Theorem C07_req_quantile_in_retained : forall ic s log, reach ic s log -> forall w incl q,
  quantile_w Z (qview s) w incl = Some q -> In q (all_items (comps s)).
Proof. intros ic s log R. exact (P_quantile_in_retained s log (reach_Rel ic s log R)). Qed.

Theorem C07_req_quantile_answers : forall ic s log, reach ic s log -> forall w incl, 0 < rn s ->
  exists q, quantile_w Z (qview s) w incl = Some q.
Proof. intros ic s log R. exact (P_quantile_answers s log (reach_Rel ic s log R)). Qed.

(* CDF = get_rank at the split points followed by n, non-decreasing; PMF masses non-negative and summing to one *)
Theorem C07_req_cdf_is_rank : forall ic s log, reach ic s log -> forall sp incl c,
  cdf_num Z Z.ltb (qview s) sp incl = Some c ->
  c = map (fun x => qrank s x incl) sp ++ [rn s] /\ StronglySorted Z.le (0 :: c).
Proof. intros ic s log R. exact (P_cdf s log (reach_Rel ic s log R)). Qed.

Theorem C07_req_pmf_sums_to_one : forall ic s log, reach ic s log -> forall sp incl p, 0 < rn s ->
  pmf_num Z Z.ltb (qview s) sp incl = Some p ->
  Forall (fun z => 0 <= z) p /\
  (fold_right Qplus (inject_Z 0) (map (fun z => inject_Z z / inject_Z (rn s)) p) == inject_Z 1)%Q.
Proof. intros ic s log R. exact (P_pmf s log (reach_Rel ic s log R)). Qed.

(* invalid queries are refused: empty sketch, rank outside [0, 1], split points not strictly increasing, NaN,
   merging sketches of different accuracy modes *)
Theorem C07_req_empty_sketch_refuses : forall st r g e, reg_get st r = Some g -> rn (r_sk g) = 0 ->
  (forall x, step st [6; r; x] e = (st, (refused, []))) /\
  (forall j t, step st [7; r; j; t] e = (st, (refused, []))) /\
  (forall sp, step st (8 :: r :: sp) e = (st, (refused, []))).
Proof.
  intros st r g e H N. unfold step. rewrite H, N. simpl. repeat split; intros; reflexivity.
Qed.

Theorem C07_req_bad_rank_refused : forall st r g j t e, reg_get st r = Some g -> j < 0 \/ 2 ^ t < j ->
  step st [7; r; j; t] e = (st, (refused, [])).
Proof.
  intros st r g j t e H B. unfold step. rewrite H.
  replace ((rn (r_sk g) =? 0) || (j <? 0) || (2 ^ t <? j)) with true; [reflexivity|].
  symmetry. rewrite !orb_true_iff, !Z.ltb_lt. tauto.
Qed.

Theorem C07_req_bad_splits_refused : forall st r g sp e, reg_get st r = Some g ->
  splits_ok Z Z.ltb sp = false -> fst (snd (step st (8 :: r :: sp) e)) = refused.
Proof.
  intros st r g sp e H B. unfold step. rewrite H. destruct (rn (r_sk g) =? 0); [reflexivity|].
  rewrite (cdf_bad_splits_rejected Z Z.ltb _ sp true B). reflexivity.
Qed.

Theorem C07_req_nan_refused_or_ignored : forall st r g e, reg_get st r = Some g ->
  (forall rest, fst (snd (step st (9 :: r :: rest) e)) = refused) /\        (* NaN split point *)
  step st [3; r] e = (st, (ok, [])).                                        (* NaN update: state unchanged *)
Proof.
  intros st r g e H. unfold step. rewrite H. split; [|reflexivity].
  intro rest. destruct (rn (r_sk g) =? 0); reflexivity.
Qed.

Theorem C07_req_mixed_mode_merge_refused : forall st r r2 g g2 mode e, reg_get st r = Some g -> reg_get st r2 = Some g2 ->
  hra (r_sk g) <> hra (r_sk g2) -> step st [4; r; r2; mode] e = (st, (refused, [])).
Proof.
  intros st r r2 g g2 mode e H H2 D. unfold step. rewrite H, H2.
  replace (Bool.eqb (hra (r_sk g)) (hra (r_sk g2))) with false; [now rewrite !orb_true_r|].
  symmetry. apply eqb_false_iff. exact D.
Qed.

(* while nothing has been compacted (a single compactor) every rank and quantile is the true value of the input multiset *)
Theorem C07_req_exact_rank : forall ic s log, reach ic s log -> length (comps s) = 1%nat -> forall x incl,
  qrank s x incl = cnt (below x incl) log.
Proof. intros ic s log R. exact (P_exact_rank s log (reach_Rel ic s log R)). Qed.

Theorem C07_req_exact_quantile : forall ic s log, reach ic s log -> length (comps s) = 1%nat -> forall d,
  (forall w, 1 <= w <= len log -> quantile_w Z (qview s) w true = Some (nth (Z.to_nat (w - 1)) (isort log) d)) /\
  (forall w, 0 <= w < len log -> quantile_w Z (qview s) w false = Some (nth (Z.to_nat w) (isort log) d)).
Proof.
  intros ic s log R S d. pose proof (reach_Rel ic s log R) as Q.
  split; intros w H; [now apply P_exact_quantile_incl|now apply P_exact_quantile_excl].
Qed.

(* non-vacuity: a concrete reachable estimating sketch (24 updates, a merge into a fresh sketch, 26 updates) *)
Example C07_req_nonvacuous : exists s, witness = Some s /\ rn s = 50 /\ nret s = 33 /\ length (comps s) = 2%nat /\
  option_map (fun l => (len l, sum_weights l)) (iterate s) = Some (33, 50) /\ qrank s 16 true = 18.
Proof. exact witness_values. Qed.

Print Assumptions C07_req_weight_conserved.
Print Assumptions C07_req_n_counts_accepted.
Print Assumptions C07_req_min_max_exact.
Print Assumptions C07_req_compactors_sorted.
Print Assumptions C07_req_retained_sub_inputs.
Print Assumptions C07_req_space_bound.
Print Assumptions C07_req_compaction_range_ok.
Print Assumptions C07_req_no_empty_compactor.
Print Assumptions C07_req_iterator_spec.
Print Assumptions C07_req_iterator_as_coded_refuted.
Print Assumptions C07_req_sorted_view_spec.
Print Assumptions C07_req_rank_monotone.
Print Assumptions C07_req_rank_incl_ge_excl.
Print Assumptions C07_req_rank_within_0_n.
Print Assumptions C07_req_rank_is_estimator.
Print Assumptions C07_req_view_rank_is_get_rank.
Print Assumptions C07_req_quantile_monotone.
Print Assumptions C07_req_quantile_incl_le_excl.
Print Assumptions C07_req_quantile_in_retained.
Print Assumptions C07_req_quantile_answers.
Print Assumptions C07_req_cdf_is_rank.
Print Assumptions C07_req_pmf_sums_to_one.
Print Assumptions C07_req_empty_sketch_refuses.
Print Assumptions C07_req_bad_rank_refused.
Print Assumptions C07_req_bad_splits_refused.
Print Assumptions C07_req_nan_refused_or_ignored.
Print Assumptions C07_req_mixed_mode_merge_refused.
Print Assumptions C07_req_exact_rank.
Print Assumptions C07_req_exact_quantile.
