(* TDigestCodecProofs.v — lemmas about the t-digest image codec (TDigestCodecDefs.v): the sequential reader, extension of the
   input (what a reader accepts it accepts with anything appended, leaving the appended bytes unread), round trip of the native
   format, sizes, strict prefixes, bounds on what is accepted from arbitrary bytes, reading of the reference formats. *)
From Coq Require Import NArith ZArith List Bool Arith Lia.
From DS Require Import Word RunnerLib TDigestCodecDefs.
Import ListNotations.
Local Open Scope N_scope.

(* ---------- little-endian words ---------- *)
Lemma le_len k : forall x, length (N_to_le_bytes k x) = k.
Proof. induction k as [|k IH]; intros x; cbn [N_to_le_bytes length]; [reflexivity|now rewrite IH]. Qed.

Lemma w8_w8 x : w8 (w8 x) = w8 x.
Proof. unfold w8. rewrite <- N.land_assoc. reflexivity. Qed.

Lemma w8_small x : x < 256 -> w8 x = x.
Proof. intro H. unfold w8. change 255 with (N.ones 8). rewrite N.land_ones. apply N.mod_small. exact H. Qed.

Lemma lor_low_high x : N.lor (w8 x) (N.shiftl (N.shiftr x 8) 8) = x.
Proof.
  unfold w8. change 255 with (N.ones 8). apply N.bits_inj. intros n.
  rewrite N.lor_spec, N.land_spec.
  destruct (N.lt_ge_cases n 8) as [H|H].
  - rewrite N.shiftl_spec_low by assumption. rewrite N.ones_spec_low by assumption.
    now rewrite andb_true_r, orb_false_r.
  - rewrite N.shiftl_spec_high' by assumption. rewrite N.shiftr_spec'.
    rewrite N.ones_spec_high by assumption. rewrite andb_false_r. cbn [orb].
    f_equal. lia.
Qed.

Lemma le_rt k : forall x, x < 2 ^ (8 * N.of_nat k) -> le_bytes_to_N (N_to_le_bytes k x) = x.
Proof.
  induction k as [|k IH]; intros x Hx.
  - cbn in Hx. cbn [N_to_le_bytes le_bytes_to_N]. lia.
  - cbn [N_to_le_bytes le_bytes_to_N]. rewrite w8_w8. rewrite IH.
    + apply lor_low_high.
    + rewrite N.shiftr_div_pow2. apply N.div_lt_upper_bound; [discriminate|].
      rewrite <- N.pow_add_r. replace (8 + 8 * N.of_nat k) with (8 * N.of_nat (S k)) by lia. exact Hx.
Qed.

Definition be_bytes (k : nat) (x : N) : list N := rev (N_to_le_bytes k x).
Lemma be_len k x : length (be_bytes k x) = k.
Proof. unfold be_bytes. rewrite rev_length. apply le_len. Qed.

(* ---------- take / rd ---------- *)
Lemma firstn_app_exact {A} (a r : list A) : firstn (length a) (a ++ r) = a.
Proof. rewrite firstn_app, Nat.sub_diag, firstn_all, firstn_O, app_nil_r. reflexivity. Qed.
Lemma skipn_app_exact {A} (a r : list A) : skipn (length a) (a ++ r) = r.
Proof. rewrite skipn_app, Nat.sub_diag, skipn_all. reflexivity. Qed.
Lemma take_app n (a r : list N) : length a = n -> take n (a ++ r) = Some (a, r).
Proof.
  intro H. unfold take. rewrite app_length.
  destruct (Nat.leb_spec n (length a + length r)) as [_|X]; [|lia].
  rewrite <- H. rewrite firstn_app_exact, skipn_app_exact; reflexivity.
Qed.

Lemma take_some n l a r : take n l = Some (a, r) -> l = a ++ r /\ length a = n.
Proof.
  unfold take. destruct (Nat.leb_spec n (length l)) as [H|H]; [|discriminate].
  intro E. inversion E; subst. split; [symmetry; apply firstn_skipn|]. apply firstn_length_le. exact H.
Qed.

Lemma take_none n l : (length l < n)%nat -> take n l = None.
Proof. intro H. unfold take. destruct (Nat.leb_spec n (length l)); [lia|reflexivity]. Qed.

Lemma rd_le_enc n x r : x < 2 ^ (8 * N.of_nat n) -> rd_le n (N_to_le_bytes n x ++ r) = Some (x, r).
Proof. intro H. unfold rd_le. rewrite take_app by apply le_len. cbn [bind]. rewrite le_rt by exact H. reflexivity. Qed.

Lemma rd_be_enc n x r : x < 2 ^ (8 * N.of_nat n) -> rd_be n (be_bytes n x ++ r) = Some (x, r).
Proof.
  intro H. unfold rd_be. rewrite take_app by apply be_len. cbn [bind]. unfold be_bytes. rewrite rev_involutive, le_rt by exact H.
  reflexivity.
Qed.

Lemma rd_le_some n l v r : rd_le n l = Some (v, r) -> exists a, l = a ++ r /\ length a = n.
Proof.
  unfold rd_le. destruct (take n l) as [[a r']|] eqn:E; [|discriminate]. cbn [bind]. intro H. inversion H; subst.
  exists a. apply take_some. exact E.
Qed.
Lemma rd_be_some n l v r : rd_be n l = Some (v, r) -> exists a, l = a ++ r /\ length a = n.
Proof.
  unfold rd_be. destruct (take n l) as [[a r']|] eqn:E; [|discriminate]. cbn [bind]. intro H. inversion H; subst.
  exists a. apply take_some. exact E.
Qed.

(* ---------- extension of the input ---------- *)
(* a reader is extensible when accepting l and leaving r implies accepting l ++ e with the same result and leaving r ++ e *)
Definition ext {A} (f : list N -> option (A * list N)) : Prop :=
  forall l v r e, f l = Some (v, r) -> f (l ++ e) = Some (v, r ++ e).

Lemma take_ext n : ext (take n).
Proof.
  intros l a r e H. destruct (take_some _ _ _ _ H) as [-> Hl]. rewrite <- app_assoc. apply take_app. exact Hl.
Qed.
Lemma rd_le_ext n : ext (rd_le n).
Proof.
  intros l v r e H. unfold rd_le in *. destruct (take n l) as [[a r']|] eqn:E; [|discriminate].
  rewrite (take_ext n _ _ _ e E). cbn [bind] in *. inversion H; subst. reflexivity.
Qed.
Lemma rd_be_ext n : ext (rd_be n).
Proof.
  intros l v r e H. unfold rd_be in *. destruct (take n l) as [[a r']|] eqn:E; [|discriminate].
  rewrite (take_ext n _ _ _ e E). cbn [bind] in *. inversion H; subst. reflexivity.
Qed.

Ltac ext_step H E lem :=
  match type of H with
  | bind ?o _ = Some _ => destruct o as [[? ?]|] eqn:E; [|discriminate]; cbn [bind] in H; rewrite (lem _ _ _ _ E); cbn [bind]
  end.

Lemma rd_cents_ext n : ext (rd_cents n).
Proof.
  induction n as [|n IH]; intros l v r e H; cbn [rd_cents] in *.
  - inversion H; subst. reflexivity.
  - destruct (rd_le 8 l) as [[m l1]|] eqn:E1; [|discriminate]. cbn [bind] in H. rewrite (rd_le_ext 8 _ _ _ e E1). cbn [bind].
    destruct (rd_le 8 l1) as [[w l2]|] eqn:E2; [|discriminate]. cbn [bind] in H. rewrite (rd_le_ext 8 _ _ _ e E2). cbn [bind].
    destruct (rd_cents n l2) as [[t l3]|] eqn:E3; [|discriminate]. cbn [bind] in H. rewrite (IH _ _ _ e E3). cbn [bind].
    inversion H; subst. reflexivity.
Qed.
Lemma rd_vals_ext n : ext (rd_vals n).
Proof.
  induction n as [|n IH]; intros l v r e H; cbn [rd_vals] in *.
  - inversion H; subst. reflexivity.
  - destruct (rd_le 8 l) as [[m l1]|] eqn:E1; [|discriminate]. cbn [bind] in H. rewrite (rd_le_ext 8 _ _ _ e E1). cbn [bind].
    destruct (rd_vals n l1) as [[t l3]|] eqn:E3; [|discriminate]. cbn [bind] in H. rewrite (IH _ _ _ e E3). cbn [bind].
    inversion H; subst. reflexivity.
Qed.
Lemma rd_compat_d_ext n : ext (rd_compat_d n).
Proof.
  induction n as [|n IH]; intros l v r e H; cbn [rd_compat_d] in *.
  - inversion H; subst. reflexivity.
  - destruct (rd_be 8 l) as [[wd l1]|] eqn:E1; [|discriminate]. cbn [bind] in H. rewrite (rd_be_ext 8 _ _ _ e E1). cbn [bind].
    destruct (rd_be 8 l1) as [[m l2]|] eqn:E2; [|discriminate]. cbn [bind] in H. rewrite (rd_be_ext 8 _ _ _ e E2). cbn [bind].
    destruct (f64_to_N two64 wd) as [w|]; [|discriminate]. cbn [bind] in *.
    destruct (rd_compat_d n l2) as [[t l3]|] eqn:E3; [|discriminate]. cbn [bind] in H. rewrite (IH _ _ _ e E3). cbn [bind].
    inversion H; subst. reflexivity.
Qed.
Lemma rd_compat_f_ext n : ext (rd_compat_f n).
Proof.
  induction n as [|n IH]; intros l v r e H; cbn [rd_compat_f] in *.
  - inversion H; subst. reflexivity.
  - destruct (rd_be 4 l) as [[wd l1]|] eqn:E1; [|discriminate]. cbn [bind] in H. rewrite (rd_be_ext 4 _ _ _ e E1). cbn [bind].
    destruct (rd_be 4 l1) as [[m l2]|] eqn:E2; [|discriminate]. cbn [bind] in H. rewrite (rd_be_ext 4 _ _ _ e E2). cbn [bind].
    destruct (f64_to_N two64 (f32_to_f64 wd)) as [w|]; [|discriminate]. cbn [bind] in *.
    destruct (rd_compat_f n l2) as [[t l3]|] eqn:E3; [|discriminate]. cbn [bind] in H. rewrite (IH _ _ _ e E3). cbn [bind].
    inversion H; subst. reflexivity.
Qed.

Lemma guard_ext (l e : list N) (x : N) : (N.of_nat (length l) <? x) = false -> (N.of_nat (length (l ++ e)) <? x) = false.
Proof. rewrite !N.ltb_ge, app_length. lia. Qed.

Lemma mk_inv k rev mn mx cs buf s : mk k rev mn mx cs buf = Some s ->
  10 <= k /\ s = {| c_k := k; c_rev := rev; c_min := mn; c_max := mx; c_cents := cs; c_buf := buf |}.
Proof. unfold mk. destruct (N.ltb_spec k 10) as [L|L]; [discriminate|]. intro H. inversion H. split; [exact L|reflexivity]. Qed.

Lemma dec_compat_ext : ext dec_compat.
Proof.
  intros l v r e H. unfold dec_compat in *.
  destruct (rd_le 1 l) as [[t l0]|] eqn:E0; [|discriminate]. cbn [bind] in H. rewrite (rd_le_ext 1 _ _ _ e E0). cbn [bind].
  destruct (t =? 1).
  - destruct (rd_be 8 l0) as [[mn l1]|] eqn:E1; [|discriminate]. cbn [bind] in H. rewrite (rd_be_ext 8 _ _ _ e E1). cbn [bind].
    destruct (rd_be 8 l1) as [[mx l2]|] eqn:E2; [|discriminate]. cbn [bind] in H. rewrite (rd_be_ext 8 _ _ _ e E2). cbn [bind].
    destruct (rd_be 8 l2) as [[kd l3]|] eqn:E3; [|discriminate]. cbn [bind] in H. rewrite (rd_be_ext 8 _ _ _ e E3). cbn [bind].
    destruct (rd_be 4 l3) as [[nc l4]|] eqn:E4; [|discriminate]. cbn [bind] in H. rewrite (rd_be_ext 4 _ _ _ e E4). cbn [bind].
    destruct (N.of_nat (length l4) <? 16 * nc) eqn:G; [discriminate|]. rewrite (guard_ext _ e _ G).
    destruct (rd_compat_d (N.to_nat nc) l4) as [[cs l5]|] eqn:E5; [|discriminate]. cbn [bind] in H.
    rewrite (rd_compat_d_ext _ _ _ _ e E5). cbn [bind].
    destruct (f64_to_N two16 kd) as [k|]; [|discriminate]. cbn [bind] in *.
    destruct (mk k false mn mx cs []) as [s|]; [|discriminate]. cbn [bind] in *. inversion H; subst. reflexivity.
  - destruct (t =? 2); [|discriminate].
    destruct (rd_be 8 l0) as [[mn l1]|] eqn:E1; [|discriminate]. cbn [bind] in H. rewrite (rd_be_ext 8 _ _ _ e E1). cbn [bind].
    destruct (rd_be 8 l1) as [[mx l2]|] eqn:E2; [|discriminate]. cbn [bind] in H. rewrite (rd_be_ext 8 _ _ _ e E2). cbn [bind].
    destruct (rd_be 4 l2) as [[kf l3]|] eqn:E3; [|discriminate]. cbn [bind] in H. rewrite (rd_be_ext 4 _ _ _ e E3). cbn [bind].
    destruct (rd_le 4 l3) as [[un l4]|] eqn:E4; [|discriminate]. cbn [bind] in H. rewrite (rd_le_ext 4 _ _ _ e E4). cbn [bind].
    destruct (rd_be 2 l4) as [[nc l5]|] eqn:E5; [|discriminate]. cbn [bind] in H. rewrite (rd_be_ext 2 _ _ _ e E5). cbn [bind].
    destruct (N.of_nat (length l5) <? 8 * nc) eqn:G; [discriminate|]. rewrite (guard_ext _ e _ G).
    destruct (rd_compat_f (N.to_nat nc) l5) as [[cs l6]|] eqn:E6; [|discriminate]. cbn [bind] in H.
    rewrite (rd_compat_f_ext _ _ _ _ e E6). cbn [bind].
    destruct (f64_to_N two16 (f32_to_f64 kf)) as [k|]; [|discriminate]. cbn [bind] in *.
    destruct (mk k false mn mx cs []) as [s|]; [|discriminate]. cbn [bind] in *. inversion H; subst. reflexivity.
Qed.

Lemma skipn_app_le {A} n (l e : list A) : (n <= length l)%nat -> skipn n (l ++ e) = skipn n l ++ e.
Proof. intro H. rewrite skipn_app. replace (n - length l)%nat with 0%nat by lia. reflexivity. Qed.

Theorem dec_ext : ext dec.
Proof.
  intros l v r e H. unfold dec in *.
  destruct (take 8 l) as [[hd r8]|] eqn:E0; [|discriminate]. cbn [bind] in H.
  rewrite (take_ext 8 _ _ _ e E0). cbn [bind].
  destruct (take_some _ _ _ _ E0) as [El Hl].
  destruct (negb (byte 2 hd =? 20)).
  { destruct ((byte 0 hd =? 0) && (byte 1 hd =? 0) && (byte 2 hd =? 0)); [|discriminate].
    rewrite skipn_app_le by (rewrite El, app_length; lia). apply dec_compat_ext. exact H. }
  destruct (negb (byte 1 hd =? 1)); [discriminate|].
  match type of H with (if ?c then _ else _) = _ => destruct c; [discriminate|] end.
  destruct (N.testbit (byte 5 hd) 0).
  { destruct (mk _ false pinf_bits ninf_bits [] []) as [s|]; [|discriminate]. cbn [bind] in *. inversion H; subst. reflexivity. }
  destruct (N.testbit (byte 5 hd) 1).
  { destruct (rd_le 8 r8) as [[x r1]|] eqn:E1; [|discriminate]. cbn [bind] in H. rewrite (rd_le_ext 8 _ _ _ e E1). cbn [bind].
    destruct (mk _ _ x x [(x, 1)] []) as [s|]; [|discriminate]. cbn [bind] in *. inversion H; subst. reflexivity. }
  destruct (rd_le 4 r8) as [[nc r1]|] eqn:E1; [|discriminate]. cbn [bind] in H. rewrite (rd_le_ext 4 _ _ _ e E1). cbn [bind].
  destruct (rd_le 4 r1) as [[nb r2]|] eqn:E2; [|discriminate]. cbn [bind] in H. rewrite (rd_le_ext 4 _ _ _ e E2). cbn [bind].
  destruct (N.of_nat (length r2) <? 16 + 16 * nc + 8 * nb) eqn:G; [discriminate|]. rewrite (guard_ext _ e _ G).
  destruct (rd_le 8 r2) as [[mn r3]|] eqn:E3; [|discriminate]. cbn [bind] in H. rewrite (rd_le_ext 8 _ _ _ e E3). cbn [bind].
  destruct (rd_le 8 r3) as [[mx r4]|] eqn:E4; [|discriminate]. cbn [bind] in H. rewrite (rd_le_ext 8 _ _ _ e E4). cbn [bind].
  destruct (rd_cents (N.to_nat nc) r4) as [[cs r5]|] eqn:E5; [|discriminate]. cbn [bind] in H.
  rewrite (rd_cents_ext _ _ _ _ e E5). cbn [bind].
  destruct (rd_vals (N.to_nat nb) r5) as [[bf r6]|] eqn:E6; [|discriminate]. cbn [bind] in H.
  rewrite (rd_vals_ext _ _ _ _ e E6). cbn [bind].
  destruct (mk _ _ mn mx cs bf) as [s|]; [|discriminate]. cbn [bind] in *. inversion H; subst. reflexivity.
Qed.

(* ---------- well-formed digests, round trip of the native format ---------- *)
Definition cent_ok (c : N * N) : Prop := fst c < two64 /\ snd c < two64.
Record wf (s : tdc) : Prop := {
  wf_k : 10 <= c_k s /\ c_k s < 65536;
  wf_min : c_min s < two64;
  wf_max : c_max s < two64;
  wf_cents : Forall cent_ok (c_cents s);
  wf_buf : Forall (fun v => v < two64) (c_buf s);
  wf_nc : N.of_nat (length (c_cents s)) < two32;
  wf_nb : N.of_nat (length (c_buf s)) < two32;
  wf_empty_rev : is_empty s = true -> c_rev s = false }.

Lemma rd_cents_enc cs : Forall cent_ok cs -> forall r, rd_cents (length cs) (flat_map enc_cent cs ++ r) = Some (cs, r).
Proof.
  induction 1 as [|c cs [Hm Hw] _ IH]; intro r; [reflexivity|].
  cbn [length rd_cents flat_map]. unfold enc_cent at 1. rewrite <- !app_assoc.
  unfold u64. rewrite rd_le_enc by exact Hm. cbn [bind]. rewrite rd_le_enc by exact Hw. cbn [bind].
  fold u64. rewrite IH. cbn [bind]. destruct c; reflexivity.
Qed.
Lemma rd_vals_enc vs : Forall (fun v => v < two64) vs -> forall r, rd_vals (length vs) (flat_map u64 vs ++ r) = Some (vs, r).
Proof.
  induction 1 as [|v vs Hv _ IH]; intro r; [reflexivity|].
  cbn [length rd_vals flat_map]. rewrite <- !app_assoc. unfold u64 at 1. rewrite rd_le_enc by exact Hv. cbn [bind].
  rewrite IH. reflexivity.
Qed.

Definition body (s : tdc) : list N :=
  if is_empty s then []
  else if is_single s then u64 (c_min s)
  else u32 (N.of_nat (length (c_cents s))) ++ u32 (N.of_nat (length (c_buf s))) ++ u64 (c_min s) ++ u64 (c_max s) ++
       flat_map enc_cent (c_cents s) ++ flat_map u64 (c_buf s).

Lemma enc_cons s : enc s = pre_longs s :: 1 :: 20 :: w8 (c_k s) :: w8 (N.shiftr (c_k s) 8) :: flags s :: 0 :: 0 :: body s.
Proof. reflexivity. Qed.

Lemma k_bytes k : k < 65536 -> le_bytes_to_N [w8 k; w8 (N.shiftr k 8)] = k.
Proof. intro H. exact (le_rt 2 k H). Qed.

Lemma empty_not_single s : is_empty s = true -> is_single s = false.
Proof.
  unfold is_empty, is_single, total, cw. destruct (c_cents s); [|discriminate]. destruct (c_buf s); [|discriminate]. reflexivity.
Qed.

Lemma cents_len cs : length (flat_map enc_cent cs) = (16 * length cs)%nat.
Proof. induction cs as [|c cs IH]; [reflexivity|]. cbn [flat_map]. rewrite app_length, IH. unfold enc_cent, u64. rewrite app_length, !le_len. cbn [length]. lia. Qed.
Lemma vals_len vs : length (flat_map u64 vs) = (8 * length vs)%nat.
Proof. induction vs as [|c cs IH]; [reflexivity|]. cbn [flat_map]. rewrite app_length, IH. unfold u64. rewrite le_len. cbn [length]. lia. Qed.

Lemma tdc_eta s : {| c_k := c_k s; c_rev := c_rev s; c_min := c_min s; c_max := c_max s; c_cents := c_cents s; c_buf := c_buf s |} = s.
Proof. destruct s; reflexivity. Qed.

Theorem dec_enc s : wf s -> forall rest, dec (enc s ++ rest) = Some (norm s, rest).
Proof.
  intros W rest. destruct W as [[Hk1 Hk2] Hmn Hmx Hcs Hbf Hnc Hnb Her].
  rewrite enc_cons. unfold dec, norm, body, flags, pre_longs, mk.
  destruct (N.ltb_spec (c_k s) 10) as [X|_]; [lia|].
  destruct (is_empty s) eqn:He.
  - rewrite (empty_not_single s He), (Her eq_refl). change (1 + 0 + 0) with 1.
    cbn [app take length Nat.leb firstn skipn bind byte nth orb]. rewrite (k_bytes _ Hk2).
    cbn. destruct (N.ltb_spec (c_k s) 10) as [X|_]; [lia|]. reflexivity.
  - destruct (is_single s) eqn:Hs.
    + destruct (c_rev s) eqn:Hr; [change (0 + 2 + 4) with 6|change (0 + 2 + 0) with 2];
        cbn [app take length Nat.leb firstn skipn bind byte nth orb]; rewrite (k_bytes _ Hk2);
        cbn -[rd_le u64 N.ltb]; unfold u64; rewrite rd_le_enc by exact Hmn; cbn [bind];
        destruct (N.ltb_spec (c_k s) 10) as [X|_]; try lia; reflexivity.
    + assert (G : (N.of_nat (length (u64 (c_min s) ++ u64 (c_max s) ++ flat_map enc_cent (c_cents s) ++ flat_map u64 (c_buf s) ++ rest)) <?
                   16 + 16 * N.of_nat (length (c_cents s)) + 8 * N.of_nat (length (c_buf s))) = false).
      { apply N.ltb_ge. rewrite !app_length, cents_len, vals_len. unfold u64. rewrite !le_len. lia. }
      destruct (c_rev s) eqn:Hr; [change (0 + 0 + 4) with 4|change (0 + 0 + 0) with 0];
        cbn [app take length Nat.leb firstn skipn bind byte nth orb]; rewrite (k_bytes _ Hk2);
        cbn -[rd_le rd_cents rd_vals u64 u32 N.ltb N.mul N.add flat_map N.of_nat N.to_nat length app];
        rewrite <- !app_assoc; unfold u32;
        rewrite rd_le_enc by exact Hnc; cbn [bind]; rewrite rd_le_enc by exact Hnb; cbn [bind];
        rewrite G; unfold u64 at 1; rewrite rd_le_enc by exact Hmn; cbn [bind];
        unfold u64 at 1; rewrite rd_le_enc by exact Hmx; cbn [bind];
        rewrite !Nat2N.id, (rd_cents_enc _ Hcs); cbn [bind]; rewrite (rd_vals_enc _ Hbf); cbn [bind];
        destruct (N.ltb_spec (c_k s) 10) as [X|_]; try lia; cbn [bind]; rewrite <- Hr, tdc_eta; reflexivity.
Qed.

(* ---------- re-serialization, size, header form, strict prefixes ---------- *)
Lemma norm_empty s : is_empty s = true ->
  norm s = {| c_k := c_k s; c_rev := false; c_min := pinf_bits; c_max := ninf_bits; c_cents := []; c_buf := [] |}.
Proof. intro H. unfold norm. rewrite H. reflexivity. Qed.

Theorem enc_norm s : wf s -> enc (norm s) = enc s.
Proof.
  intro W. unfold norm. destruct (is_empty s) eqn:He.
  - unfold enc, flags, pre_longs. cbn [c_k c_rev c_min c_max c_cents c_buf is_empty]. rewrite He.
    rewrite (empty_not_single s He), (wf_empty_rev s W He).
    change (is_single {| c_k := c_k s; c_rev := false; c_min := pinf_bits; c_max := ninf_bits; c_cents := []; c_buf := [] |}) with false.
    reflexivity.
  - destruct (is_single s) eqn:Hs; [|reflexivity].
    unfold enc, flags, pre_longs. rewrite He, Hs.
    change (is_empty {| c_k := c_k s; c_rev := c_rev s; c_min := c_min s; c_max := c_min s; c_cents := [(c_min s, 1)]; c_buf := [] |}) with false.
    change (is_single {| c_k := c_k s; c_rev := c_rev s; c_min := c_min s; c_max := c_min s; c_cents := [(c_min s, 1)]; c_buf := [] |}) with true.
    reflexivity.
Qed.

Theorem norm_norm s : norm (norm s) = norm s.
Proof.
  unfold norm. destruct (is_empty s) eqn:He; [reflexivity|]. destruct (is_single s) eqn:Hs; [reflexivity|].
  rewrite He, Hs. reflexivity.
Qed.

Theorem enc_size s : N.of_nat (length (enc s)) = serialized_size s.
Proof.
  rewrite enc_cons. unfold serialized_size, body, pre_longs. cbn [length].
  destruct (is_empty s); [reflexivity|]. destruct (is_single s).
  - unfold u64. rewrite le_len. reflexivity.
  - cbn [orb]. rewrite !app_length, cents_len, vals_len. unfold u32, u64. rewrite !le_len. lia.
Qed.

Theorem prefix_rejected s : wf s -> forall n, (n < length (enc s))%nat -> dec (firstn n (enc s)) = None.
Proof.
  intros W n Hn. destruct (dec (firstn n (enc s))) as [[s' r]|] eqn:E; [|reflexivity]. exfalso.
  pose proof (dec_ext _ _ _ (skipn n (enc s)) E) as X. rewrite firstn_skipn in X.
  pose proof (dec_enc s W []) as Y. rewrite app_nil_r in Y. rewrite Y in X. inversion X as [[Hs Hr]].
  symmetry in Hr. apply app_eq_nil in Hr as [_ Hr].
  assert (L : length (skipn n (enc s)) = 0%nat) by (rewrite Hr; reflexivity). rewrite skipn_length in L. lia.
Qed.

(* ---------- what is accepted from arbitrary bytes ---------- *)
Lemma rd_cents_some n : forall l cs r, rd_cents n l = Some (cs, r) -> exists c, l = c ++ r /\ length c = (16 * n)%nat /\ length cs = n.
Proof.
  induction n as [|n IH]; intros l cs r H; cbn [rd_cents] in H.
  - inversion H; subst. exists []. repeat split.
  - destruct (rd_le 8 l) as [[m l1]|] eqn:E1; [|discriminate]. cbn [bind] in H.
    destruct (rd_le 8 l1) as [[w l2]|] eqn:E2; [|discriminate]. cbn [bind] in H.
    destruct (rd_cents n l2) as [[t l3]|] eqn:E3; [|discriminate]. cbn [bind] in H. inversion H; subst.
    destruct (rd_le_some _ _ _ _ E1) as (a1 & -> & L1). destruct (rd_le_some _ _ _ _ E2) as (a2 & -> & L2).
    destruct (IH _ _ _ E3) as (c & -> & L3 & L4). exists (a1 ++ a2 ++ c). rewrite <- !app_assoc. repeat split.
    + rewrite !app_length. lia.
    + cbn [length]. lia.
Qed.
Lemma rd_vals_some n : forall l vs r, rd_vals n l = Some (vs, r) -> exists c, l = c ++ r /\ length c = (8 * n)%nat /\ length vs = n.
Proof.
  induction n as [|n IH]; intros l vs r H; cbn [rd_vals] in H.
  - inversion H; subst. exists []. repeat split.
  - destruct (rd_le 8 l) as [[m l1]|] eqn:E1; [|discriminate]. cbn [bind] in H.
    destruct (rd_vals n l1) as [[t l3]|] eqn:E3; [|discriminate]. cbn [bind] in H. inversion H; subst.
    destruct (rd_le_some _ _ _ _ E1) as (a1 & -> & L1). destruct (IH _ _ _ E3) as (c & -> & L3 & L4).
    exists (a1 ++ c). rewrite <- !app_assoc. repeat split.
    + rewrite !app_length. lia.
    + cbn [length]. lia.
Qed.
Lemma rd_compat_d_some n : forall l cs r, rd_compat_d n l = Some (cs, r) -> exists c, l = c ++ r /\ length c = (16 * n)%nat /\ length cs = n.
Proof.
  induction n as [|n IH]; intros l cs r H; cbn [rd_compat_d] in H.
  - inversion H; subst. exists []. repeat split.
  - destruct (rd_be 8 l) as [[m l1]|] eqn:E1; [|discriminate]. cbn [bind] in H.
    destruct (rd_be 8 l1) as [[w l2]|] eqn:E2; [|discriminate]. cbn [bind] in H.
    destruct (f64_to_N two64 m) as [wv|]; [|discriminate]. cbn [bind] in H.
    destruct (rd_compat_d n l2) as [[t l3]|] eqn:E3; [|discriminate]. cbn [bind] in H. inversion H; subst.
    destruct (rd_be_some _ _ _ _ E1) as (a1 & -> & L1). destruct (rd_be_some _ _ _ _ E2) as (a2 & -> & L2).
    destruct (IH _ _ _ E3) as (c & -> & L3 & L4). exists (a1 ++ a2 ++ c). rewrite <- !app_assoc. repeat split.
    + rewrite !app_length. lia.
    + cbn [length]. lia.
Qed.
Lemma rd_compat_f_some n : forall l cs r, rd_compat_f n l = Some (cs, r) -> exists c, l = c ++ r /\ length c = (8 * n)%nat /\ length cs = n.
Proof.
  induction n as [|n IH]; intros l cs r H; cbn [rd_compat_f] in H.
  - inversion H; subst. exists []. repeat split.
  - destruct (rd_be 4 l) as [[m l1]|] eqn:E1; [|discriminate]. cbn [bind] in H.
    destruct (rd_be 4 l1) as [[w l2]|] eqn:E2; [|discriminate]. cbn [bind] in H.
    destruct (f64_to_N two64 (f32_to_f64 m)) as [wv|]; [|discriminate]. cbn [bind] in H.
    destruct (rd_compat_f n l2) as [[t l3]|] eqn:E3; [|discriminate]. cbn [bind] in H. inversion H; subst.
    destruct (rd_be_some _ _ _ _ E1) as (a1 & -> & L1). destruct (rd_be_some _ _ _ _ E2) as (a2 & -> & L2).
    destruct (IH _ _ _ E3) as (c & -> & L3 & L4). exists (a1 ++ a2 ++ c). rewrite <- !app_assoc. repeat split.
    + rewrite !app_length. lia.
    + cbn [length]. lia.
Qed.

(* an accepted image: the reader consumed a prefix c of the input, at least 8 bytes for every centroid and every buffered value
   that the digest holds came out of c, and k passed the constructor's test *)
Definition accepted_ok (b : list N) (s : tdc) (r : list N) : Prop :=
  exists c, b = c ++ r /\ (8 + 8 * (length (c_cents s) + length (c_buf s)) <= length c)%nat /\ 10 <= c_k s.

Lemma dec_compat_bounded c s r : dec_compat c = Some (s, r) ->
  exists a, c = a ++ r /\ (5 + 8 * (length (c_cents s) + length (c_buf s)) <= length a)%nat /\ 10 <= c_k s.
Proof.
  unfold dec_compat. intro H.
  destruct (rd_le 1 c) as [[t l0]|] eqn:E0; [|discriminate]. cbn [bind] in H.
  destruct (rd_le_some _ _ _ _ E0) as (a0 & -> & L0).
  destruct (t =? 1).
  - destruct (rd_be 8 l0) as [[mn l1]|] eqn:E1; [|discriminate]. cbn [bind] in H.
    destruct (rd_be 8 l1) as [[mx l2]|] eqn:E2; [|discriminate]. cbn [bind] in H.
    destruct (rd_be 8 l2) as [[kd l3]|] eqn:E3; [|discriminate]. cbn [bind] in H.
    destruct (rd_be 4 l3) as [[nc l4]|] eqn:E4; [|discriminate]. cbn [bind] in H.
    destruct (N.of_nat (length l4) <? 16 * nc); [discriminate|].
    destruct (rd_compat_d (N.to_nat nc) l4) as [[cs l5]|] eqn:E5; [|discriminate]. cbn [bind] in H.
    destruct (f64_to_N two16 kd) as [k|]; [|discriminate]. cbn [bind] in H.
    destruct (mk k false mn mx cs []) as [s0|] eqn:Em; [|discriminate]. cbn [bind] in H. inversion H; subst.
    destruct (mk_inv _ _ _ _ _ _ _ Em) as [Hk ->]. cbn [c_cents c_buf c_k length].
    destruct (rd_be_some _ _ _ _ E1) as (a1 & -> & L1). destruct (rd_be_some _ _ _ _ E2) as (a2 & -> & L2).
    destruct (rd_be_some _ _ _ _ E3) as (a3 & -> & L3). destruct (rd_be_some _ _ _ _ E4) as (a4 & -> & L4).
    destruct (rd_compat_d_some _ _ _ _ E5) as (a5 & -> & L5 & L6).
    exists (a0 ++ a1 ++ a2 ++ a3 ++ a4 ++ a5). rewrite <- !app_assoc. repeat split; auto. rewrite !app_length. lia.
  - destruct (t =? 2); [|discriminate].
    destruct (rd_be 8 l0) as [[mn l1]|] eqn:E1; [|discriminate]. cbn [bind] in H.
    destruct (rd_be 8 l1) as [[mx l2]|] eqn:E2; [|discriminate]. cbn [bind] in H.
    destruct (rd_be 4 l2) as [[kf l3]|] eqn:E3; [|discriminate]. cbn [bind] in H.
    destruct (rd_le 4 l3) as [[un l4]|] eqn:E4; [|discriminate]. cbn [bind] in H.
    destruct (rd_be 2 l4) as [[nc l5]|] eqn:E5; [|discriminate]. cbn [bind] in H.
    destruct (N.of_nat (length l5) <? 8 * nc); [discriminate|].
    destruct (rd_compat_f (N.to_nat nc) l5) as [[cs l6]|] eqn:E6; [|discriminate]. cbn [bind] in H.
    destruct (f64_to_N two16 (f32_to_f64 kf)) as [k|]; [|discriminate]. cbn [bind] in H.
    destruct (mk k false mn mx cs []) as [s0|] eqn:Em; [|discriminate]. cbn [bind] in H. inversion H; subst.
    destruct (mk_inv _ _ _ _ _ _ _ Em) as [Hk ->]. cbn [c_cents c_buf c_k length].
    destruct (rd_be_some _ _ _ _ E1) as (a1 & -> & L1). destruct (rd_be_some _ _ _ _ E2) as (a2 & -> & L2).
    destruct (rd_be_some _ _ _ _ E3) as (a3 & -> & L3). destruct (rd_le_some _ _ _ _ E4) as (a4 & -> & L4).
    destruct (rd_be_some _ _ _ _ E5) as (a5 & -> & L5). destruct (rd_compat_f_some _ _ _ _ E6) as (a6 & -> & L6 & L7).
    exists (a0 ++ a1 ++ a2 ++ a3 ++ a4 ++ a5 ++ a6). rewrite <- !app_assoc. repeat split; auto. rewrite !app_length. lia.
Qed.

Theorem dec_bounded b s r : dec b = Some (s, r) -> accepted_ok b s r.
Proof.
  unfold dec, accepted_ok. intro H.
  destruct (take 8 b) as [[hd r8]|] eqn:E0; [|discriminate]. cbn [bind] in H.
  destruct (take_some _ _ _ _ E0) as [-> Lh].
  destruct (negb (byte 2 hd =? 20)).
  { destruct ((byte 0 hd =? 0) && (byte 1 hd =? 0) && (byte 2 hd =? 0)); [|discriminate].
    destruct (dec_compat_bounded _ _ _ H) as (a & Ea & La & Hk).
    exists (firstn 3 (hd ++ r8) ++ a). rewrite <- app_assoc, <- Ea, firstn_skipn. split; [reflexivity|]. split; [|exact Hk].
    rewrite app_length, firstn_length, app_length. lia. }
  destruct (negb (byte 1 hd =? 1)); [discriminate|].
  match type of H with (if ?c then _ else _) = _ => destruct c; [discriminate|] end.
  destruct (N.testbit (byte 5 hd) 0).
  { destruct (mk _ false pinf_bits ninf_bits [] []) as [s0|] eqn:Em; [|discriminate]. cbn [bind] in H. inversion H; subst.
    destruct (mk_inv _ _ _ _ _ _ _ Em) as [Hk ->]. exists hd. cbn [c_cents c_buf c_k length]. repeat split; auto. lia. }
  destruct (N.testbit (byte 5 hd) 1).
  { destruct (rd_le 8 r8) as [[x r1]|] eqn:E1; [|discriminate]. cbn [bind] in H.
    destruct (mk _ _ x x [(x, 1)] []) as [s0|] eqn:Em; [|discriminate]. cbn [bind] in H. inversion H; subst.
    destruct (mk_inv _ _ _ _ _ _ _ Em) as [Hk ->]. destruct (rd_le_some _ _ _ _ E1) as (a1 & -> & L1).
    exists (hd ++ a1). rewrite <- app_assoc. cbn [c_cents c_buf c_k length]. repeat split; auto. rewrite app_length. lia. }
  destruct (rd_le 4 r8) as [[nc r1]|] eqn:E1; [|discriminate]. cbn [bind] in H.
  destruct (rd_le 4 r1) as [[nb r2]|] eqn:E2; [|discriminate]. cbn [bind] in H.
  destruct (N.of_nat (length r2) <? 16 + 16 * nc + 8 * nb); [discriminate|].
  destruct (rd_le 8 r2) as [[mn r3]|] eqn:E3; [|discriminate]. cbn [bind] in H.
  destruct (rd_le 8 r3) as [[mx r4]|] eqn:E4; [|discriminate]. cbn [bind] in H.
  destruct (rd_cents (N.to_nat nc) r4) as [[cs r5]|] eqn:E5; [|discriminate]. cbn [bind] in H.
  destruct (rd_vals (N.to_nat nb) r5) as [[bf r6]|] eqn:E6; [|discriminate]. cbn [bind] in H.
  destruct (mk _ _ mn mx cs bf) as [s0|] eqn:Em; [|discriminate]. cbn [bind] in H. inversion H; subst.
  destruct (mk_inv _ _ _ _ _ _ _ Em) as [Hk ->]. cbn [c_cents c_buf c_k].
  destruct (rd_le_some _ _ _ _ E1) as (a1 & -> & L1). destruct (rd_le_some _ _ _ _ E2) as (a2 & -> & L2).
  destruct (rd_le_some _ _ _ _ E3) as (a3 & -> & L3). destruct (rd_le_some _ _ _ _ E4) as (a4 & -> & L4).
  destruct (rd_cents_some _ _ _ _ E5) as (a5 & -> & L5 & L6). destruct (rd_vals_some _ _ _ _ E6) as (a6 & -> & L7 & L8).
  exists (hd ++ a1 ++ a2 ++ a3 ++ a4 ++ a5 ++ a6). rewrite <- !app_assoc. repeat split; auto. rewrite !app_length. lia.
Qed.

(* ---------- documented layout of the native image ---------- *)
Lemma flags_bits s : N.testbit (flags s) 0 = is_empty s /\ N.testbit (flags s) 1 = is_single s /\ N.testbit (flags s) 2 = c_rev s /\
                     flags s < 8.
Proof. unfold flags. destruct (is_empty s), (is_single s), (c_rev s); repeat split; reflexivity. Qed.

Theorem layout_preamble s : c_k s < 65536 ->
  firstn 8 (enc s) = [pre_longs s; 1; 20; w8 (c_k s); w8 (N.shiftr (c_k s) 8); flags s; 0; 0] /\
  le_bytes_to_N [nth 3 (enc s) 0; nth 4 (enc s) 0] = c_k s /\
  (pre_longs s = if is_empty s || is_single s then 1 else 2).
Proof. intro Hk. rewrite enc_cons. cbn [firstn nth]. repeat split. apply k_bytes. exact Hk. Qed.

Lemma skipn_skipn {A} : forall x y (l : list A), skipn x (skipn y l) = skipn (x + y) l.
Proof.
  intros x y. induction y as [|y IH]; intro l.
  - rewrite Nat.add_0_r. reflexivity.
  - destruct l as [|a l]; [rewrite !skipn_nil; reflexivity|]. rewrite Nat.add_succ_r. cbn [skipn]. apply IH.
Qed.

Lemma firstn_app_len {A} n (a r : list A) : length a = n -> firstn n (a ++ r) = a.
Proof. intros <-. apply firstn_app_exact. Qed.
Lemma skipn_app_len {A} n (a r : list A) : length a = n -> skipn n (a ++ r) = r.
Proof. intros <-. apply skipn_app_exact. Qed.

Lemma skipn_cents i : forall cs t, (i <= length cs)%nat ->
  skipn (16 * i) (flat_map enc_cent cs ++ t) = flat_map enc_cent (skipn i cs) ++ t.
Proof.
  induction i as [|i IH]; intros cs t H; [reflexivity|].
  destruct cs as [|c cs]; [simpl in H; lia|]. cbn [flat_map skipn]. rewrite <- app_assoc.
  replace (16 * S i)%nat with (length (enc_cent c) + 16 * i)%nat
    by (unfold enc_cent, u64; rewrite app_length, !le_len; lia).
  rewrite skipn_app, skipn_all2 by lia. rewrite Nat.add_comm, Nat.add_sub. cbn [app]. apply IH. simpl in H. lia.
Qed.
Lemma skipn_vals i : forall vs t, (i <= length vs)%nat ->
  skipn (8 * i) (flat_map u64 vs ++ t) = flat_map u64 (skipn i vs) ++ t.
Proof.
  induction i as [|i IH]; intros vs t H; [reflexivity|].
  destruct vs as [|c cs]; [simpl in H; lia|]. cbn [flat_map skipn]. rewrite <- app_assoc.
  replace (8 * S i)%nat with (length (u64 c) + 8 * i)%nat by (unfold u64; rewrite le_len; lia).
  rewrite skipn_app, skipn_all2 by lia. rewrite Nat.add_comm, Nat.add_sub. cbn [app]. apply IH. simpl in H. lia.
Qed.

(* a digest with more than one value: counts at 8 and 12, min at 16, max at 24, centroid i at 32 + 16 i, buffered value j at
   32 + 16 nc + 8 j *)
Theorem layout_multi s : is_empty s = false -> is_single s = false ->
  skipn 8 (enc s) = u32 (N.of_nat (length (c_cents s))) ++ u32 (N.of_nat (length (c_buf s))) ++ u64 (c_min s) ++ u64 (c_max s) ++
                    flat_map enc_cent (c_cents s) ++ flat_map u64 (c_buf s) /\
  firstn 4 (skipn 8 (enc s)) = u32 (N.of_nat (length (c_cents s))) /\
  firstn 4 (skipn 12 (enc s)) = u32 (N.of_nat (length (c_buf s))) /\
  firstn 8 (skipn 16 (enc s)) = u64 (c_min s) /\
  firstn 8 (skipn 24 (enc s)) = u64 (c_max s) /\
  (forall i c, nth_error (c_cents s) i = Some c ->
     firstn 16 (skipn (32 + 16 * i) (enc s)) = u64 (fst c) ++ u64 (snd c)) /\
  (forall j v, nth_error (c_buf s) j = Some v ->
     firstn 8 (skipn (32 + 16 * length (c_cents s) + 8 * j) (enc s)) = u64 v).
Proof.
  intros He Hs.
  assert (E : skipn 8 (enc s) = u32 (N.of_nat (length (c_cents s))) ++ u32 (N.of_nat (length (c_buf s))) ++ u64 (c_min s) ++ u64 (c_max s) ++
                    flat_map enc_cent (c_cents s) ++ flat_map u64 (c_buf s)).
  { rewrite enc_cons. unfold body. rewrite He, Hs. reflexivity. }
  assert (S8 : forall n, skipn (8 + n) (enc s) = skipn n (skipn 8 (enc s))).
  { intro n. rewrite skipn_skipn. f_equal. lia. }
  split; [exact E|].
  set (A := u32 (N.of_nat (length (c_cents s)))) in *. set (B := u32 (N.of_nat (length (c_buf s)))) in *.
  set (C := u64 (c_min s)) in *. set (D := u64 (c_max s)) in *.
  assert (LA : length A = 4%nat) by apply le_len. assert (LB : length B = 4%nat) by apply le_len.
  assert (LC : length C = 8%nat) by apply le_len. assert (LD : length D = 8%nat) by apply le_len.
  split. { rewrite E. apply firstn_app_len. exact LA. }
  split. { change 12%nat with (8 + 4)%nat. rewrite S8, E, (skipn_app_len 4 A) by exact LA. apply firstn_app_len. exact LB. }
  split. { change 16%nat with (8 + (4 + 4))%nat. rewrite S8, E, <- skipn_skipn, (skipn_app_len 4 A), (skipn_app_len 4 B) by assumption.
           apply firstn_app_len. exact LC. }
  split. { change 24%nat with (8 + (8 + (4 + 4)))%nat. rewrite S8, E, <- !skipn_skipn, (skipn_app_len 4 A), (skipn_app_len 4 B), (skipn_app_len 8 C) by assumption.
           apply firstn_app_len. exact LD. }
  assert (S32 : skipn 32 (enc s) = flat_map enc_cent (c_cents s) ++ flat_map u64 (c_buf s)).
  { change 32%nat with (8 + (8 + (8 + (4 + 4))))%nat.
    rewrite S8, E, <- !skipn_skipn, (skipn_app_len 4 A), (skipn_app_len 4 B), (skipn_app_len 8 C), (skipn_app_len 8 D) by assumption. reflexivity. }
  split.
  - intros i c Hi. replace (32 + 16 * i)%nat with (16 * i + 32)%nat by lia. rewrite <- skipn_skipn, S32.
    assert (Li : (i < length (c_cents s))%nat) by (apply nth_error_Some; congruence).
    rewrite skipn_cents by lia.
    destruct (skipn i (c_cents s)) as [|c' t] eqn:Es.
    { apply (f_equal (@length _)) in Es. rewrite skipn_length in Es. simpl in Es. lia. }
    assert (c' = c).
    { pose proof (nth_error_nth' (c_cents s) c Li) as X. rewrite Hi in X. inversion X as [X'].
      rewrite <- (firstn_skipn i (c_cents s)), Es in X'. rewrite app_nth2 in X' by (rewrite firstn_length; lia).
      rewrite firstn_length, Nat.min_l, Nat.sub_diag in X' by lia. simpl in X'. congruence. }
    subst c'. cbn [flat_map]. rewrite <- app_assoc. unfold enc_cent.
    apply firstn_app_len. unfold u64. rewrite app_length, !le_len. lia.
  - intros j v Hj. replace (32 + 16 * length (c_cents s) + 8 * j)%nat with (8 * j + (16 * length (c_cents s) + 32))%nat by lia.
    rewrite <- !skipn_skipn, S32.
    replace (16 * length (c_cents s))%nat with (length (flat_map enc_cent (c_cents s))) by apply cents_len.
    rewrite skipn_app_exact.
    assert (Lj : (j < length (c_buf s))%nat) by (apply nth_error_Some; congruence).
    rewrite <- (app_nil_r (flat_map u64 (c_buf s))), skipn_vals by lia.
    destruct (skipn j (c_buf s)) as [|v' t] eqn:Es.
    { apply (f_equal (@length _)) in Es. rewrite skipn_length in Es. simpl in Es. lia. }
    assert (v' = v).
    { pose proof (nth_error_nth' (c_buf s) v Lj) as X. rewrite Hj in X. inversion X as [X'].
      rewrite <- (firstn_skipn j (c_buf s)), Es in X'. rewrite app_nth2 in X' by (rewrite firstn_length; lia).
      rewrite firstn_length, Nat.min_l, Nat.sub_diag in X' by lia. simpl in X'. congruence. }
    subst v'. cbn [flat_map]. rewrite <- app_assoc.
    apply firstn_app_len. unfold u64. apply le_len.
Qed.

Theorem layout_single s : is_empty s = false -> is_single s = true -> skipn 8 (enc s) = u64 (c_min s) /\ length (enc s) = 16%nat.
Proof.
  intros He Hs. rewrite enc_cons. unfold body. rewrite He, Hs. split; [reflexivity|]. cbn [length]. unfold u64. rewrite le_len. reflexivity.
Qed.
Theorem layout_empty s : is_empty s = true -> length (enc s) = 8%nat.
Proof. intro He. rewrite enc_cons. unfold body. rewrite He. reflexivity. Qed.

(* ---------- the reference-implementation formats are read as documented ---------- *)
(* cs : (mean bits, weight as floating point bits) as stored; cs' : (mean bits as binary64, integer weight) as read *)
Definition enc_compat_d (mn mx kd : N) (cs : list (N * N)) : list N :=
  [0; 0; 0; 1] ++ be_bytes 8 mn ++ be_bytes 8 mx ++ be_bytes 8 kd ++ be_bytes 4 (N.of_nat (length cs)) ++
  flat_map (fun c => be_bytes 8 (snd c) ++ be_bytes 8 (fst c)) cs.
Definition enc_compat_f (mn mx kf : N) (unused : list N) (cs : list (N * N)) : list N :=
  [0; 0; 0; 2] ++ be_bytes 8 mn ++ be_bytes 8 mx ++ be_bytes 4 kf ++ unused ++ be_bytes 2 (N.of_nat (length cs)) ++
  flat_map (fun c => be_bytes 4 (snd c) ++ be_bytes 4 (fst c)) cs.

Definition read_d (c c' : N * N) : Prop :=
  fst c < two64 /\ snd c < two64 /\ fst c' = fst c /\ f64_to_N two64 (snd c) = Some (snd c').
Definition read_f (c c' : N * N) : Prop :=
  fst c < two32 /\ snd c < two32 /\ fst c' = f32_to_f64 (fst c) /\ f64_to_N two64 (f32_to_f64 (snd c)) = Some (snd c').

Lemma rd_compat_d_enc cs cs' : Forall2 read_d cs cs' -> forall r,
  rd_compat_d (length cs) (flat_map (fun c => be_bytes 8 (snd c) ++ be_bytes 8 (fst c)) cs ++ r) = Some (cs', r).
Proof.
  induction 1 as [|c c' cs cs' (H1 & H2 & H3 & H4) _ IH]; intro r; [reflexivity|].
  cbn [length rd_compat_d flat_map]. rewrite <- !app_assoc.
  rewrite rd_be_enc by exact H2. cbn [bind]. rewrite rd_be_enc by exact H1. cbn [bind]. rewrite H4. cbn [bind].
  rewrite IH. cbn [bind]. destruct c'. cbn [fst snd] in *. subst. reflexivity.
Qed.
Lemma rd_compat_f_enc cs cs' : Forall2 read_f cs cs' -> forall r,
  rd_compat_f (length cs) (flat_map (fun c => be_bytes 4 (snd c) ++ be_bytes 4 (fst c)) cs ++ r) = Some (cs', r).
Proof.
  induction 1 as [|c c' cs cs' (H1 & H2 & H3 & H4) _ IH]; intro r; [reflexivity|].
  cbn [length rd_compat_f flat_map]. rewrite <- !app_assoc.
  rewrite rd_be_enc by exact H2. cbn [bind]. rewrite rd_be_enc by exact H1. cbn [bind]. rewrite H4. cbn [bind].
  rewrite IH. cbn [bind]. destruct c'. cbn [fst snd] in *. subst. reflexivity.
Qed.

Lemma take_ok n (l : list N) : (n <= length l)%nat -> take n l = Some (firstn n l, skipn n l).
Proof. intro H. unfold take. destruct (Nat.leb_spec n (length l)); [reflexivity|lia]. Qed.

Lemma compat_len_d cs : length (flat_map (fun c : N * N => be_bytes 8 (snd c) ++ be_bytes 8 (fst c)) cs) = (16 * length cs)%nat.
Proof. induction cs as [|c cs IH]; [reflexivity|]. cbn [flat_map]. rewrite !app_length, IH, !be_len. cbn [length]. lia. Qed.
Lemma compat_len_f cs : length (flat_map (fun c : N * N => be_bytes 4 (snd c) ++ be_bytes 4 (fst c)) cs) = (8 * length cs)%nat.
Proof. induction cs as [|c cs IH]; [reflexivity|]. cbn [flat_map]. rewrite !app_length, IH, !be_len. cbn [length]. lia. Qed.

Theorem compat_d_read mn mx kd cs cs' k rest :
  mn < two64 -> mx < two64 -> kd < two64 -> N.of_nat (length cs) < two32 ->
  f64_to_N two16 kd = Some k -> 10 <= k -> Forall2 read_d cs cs' ->
  dec (enc_compat_d mn mx kd cs ++ rest) =
  Some ({| c_k := k; c_rev := false; c_min := mn; c_max := mx; c_cents := cs'; c_buf := [] |}, rest).
Proof.
  intros Hmn Hmx Hkd Hnc Hk Hk10 Hcs. unfold enc_compat_d. rewrite <- !app_assoc. cbn [app].
  unfold dec. rewrite take_ok by (cbn [length]; rewrite app_length, be_len; lia).
  cbn [bind firstn byte nth skipn]. change (w8 0) with 0. cbn [N.eqb negb andb].
  unfold dec_compat. unfold rd_le at 1. cbn [take length Nat.leb firstn skipn bind le_bytes_to_N].
  change (N.lor (w8 1) (N.shiftl 0 8)) with 1. cbn [N.eqb Pos.eqb].
  rewrite rd_be_enc by exact Hmn. cbn [bind]. rewrite rd_be_enc by exact Hmx. cbn [bind].
  rewrite rd_be_enc by exact Hkd. cbn [bind]. rewrite rd_be_enc by exact Hnc. cbn [bind].
  assert (G : (N.of_nat (length (flat_map (fun c : N * N => be_bytes 8 (snd c) ++ be_bytes 8 (fst c)) cs ++ rest)) <? 16 * N.of_nat (length cs)) = false).
  { apply N.ltb_ge. rewrite app_length, compat_len_d. lia. }
  rewrite G, Nat2N.id, (rd_compat_d_enc _ _ Hcs). cbn [bind]. rewrite Hk. cbn [bind]. unfold mk.
  destruct (N.ltb_spec k 10) as [X|_]; [lia|]. reflexivity.
Qed.

Theorem compat_f_read mn mx kf unused cs cs' k rest :
  mn < two64 -> mx < two64 -> kf < two32 -> length unused = 4%nat -> N.of_nat (length cs) < 65536 ->
  f64_to_N two16 (f32_to_f64 kf) = Some k -> 10 <= k -> Forall2 read_f cs cs' ->
  dec (enc_compat_f mn mx kf unused cs ++ rest) =
  Some ({| c_k := k; c_rev := false; c_min := mn; c_max := mx; c_cents := cs'; c_buf := [] |}, rest).
Proof.
  intros Hmn Hmx Hkf Hun Hnc Hk Hk10 Hcs. unfold enc_compat_f. rewrite <- !app_assoc. cbn [app].
  unfold dec. rewrite take_ok by (cbn [length]; rewrite app_length, be_len; lia).
  cbn [bind firstn byte nth skipn]. change (w8 0) with 0. cbn [N.eqb negb andb].
  unfold dec_compat. unfold rd_le at 1. cbn [take length Nat.leb firstn skipn bind le_bytes_to_N].
  change (N.lor (w8 2) (N.shiftl 0 8)) with 2. cbn [N.eqb Pos.eqb].
  rewrite rd_be_enc by exact Hmn. cbn [bind]. rewrite rd_be_enc by exact Hmx. cbn [bind].
  rewrite rd_be_enc by exact Hkf. cbn [bind].
  unfold rd_le. rewrite take_app by exact Hun. cbn [bind].
  rewrite rd_be_enc by exact Hnc. cbn [bind].
  assert (G : (N.of_nat (length (flat_map (fun c : N * N => be_bytes 4 (snd c) ++ be_bytes 4 (fst c)) cs ++ rest)) <? 8 * N.of_nat (length cs)) = false).
  { apply N.ltb_ge. rewrite app_length, compat_len_f. lia. }
  rewrite G, Nat2N.id, (rd_compat_f_enc _ _ Hcs). cbn [bind]. rewrite Hk. cbn [bind]. unfold mk.
  destruct (N.ltb_spec k 10) as [X|_]; [lia|]. reflexivity.
Qed.

(* every strict prefix of an accepted image that is consumed entirely is rejected (covers the reference formats) *)
Theorem prefix_of_exact_rejected b s : dec b = Some (s, []) -> forall n, (n < length b)%nat -> dec (firstn n b) = None.
Proof.
  intros Hb n Hn. destruct (dec (firstn n b)) as [[s' r]|] eqn:E; [|reflexivity]. exfalso.
  pose proof (dec_ext _ _ _ (skipn n b) E) as X. rewrite firstn_skipn, Hb in X. inversion X as [[Hs Hr]].
  symmetry in Hr. apply app_eq_nil in Hr as [_ Hr].
  assert (L : length (skipn n b) = 0%nat) by (rewrite Hr; reflexivity). rewrite skipn_length in L. lia.
Qed.

(* ---------- the two readers as corollaries of [dec] ---------- *)
Theorem roundtrip_bytes s : wf s -> forall rest, dec_bytes (enc s ++ rest) = Some (norm s).
Proof. intros W rest. unfold dec_bytes. rewrite (dec_enc s W). reflexivity. Qed.
Theorem roundtrip_stream s : wf s -> forall rest, dec_stream (enc s ++ rest) = Some (norm s, length (enc s)).
Proof.
  intros W rest. unfold dec_stream. rewrite (dec_enc s W). f_equal. f_equal. rewrite app_length. lia.
Qed.

(* ---------- observational content ---------- *)
Definition points (s : tdc) : list (N * N) := c_cents s ++ map (fun v => (v, 1)) (c_buf s).
(* what every digest built through the public interface satisfies (checked on the objects by the oracle, proved for the
   algorithm in the C17 family): an empty digest has the initial min / max and reverse flag, a single value is min = max *)
Definition canonical (s : tdc) : Prop :=
  (is_empty s = true -> c_rev s = false /\ c_min s = pinf_bits /\ c_max s = ninf_bits) /\
  (is_single s = true -> points s = [(c_min s, 1)] /\ c_max s = c_min s).

Theorem norm_obs s : canonical s ->
  c_k (norm s) = c_k s /\ c_rev (norm s) = c_rev s /\ c_min (norm s) = c_min s /\ c_max (norm s) = c_max s /\
  points (norm s) = points s /\ (is_empty s = false -> is_single s = false -> norm s = s).
Proof.
  intros [Ce Cs]. unfold norm. destruct (is_empty s) eqn:He.
  - destruct (Ce eq_refl) as (A & B & C). cbn [c_k c_rev c_min c_max]. repeat split; auto; try discriminate.
    unfold points. cbn [c_cents c_buf]. unfold is_empty in He. destruct (c_cents s); [|discriminate]. destruct (c_buf s); [|discriminate]. reflexivity.
  - destruct (is_single s) eqn:Hs.
    + destruct (Cs eq_refl) as (A & B). cbn [c_k c_rev c_min c_max]. repeat split; auto; try discriminate; try (rewrite A; reflexivity).
    + repeat split; auto.
Qed.

(* ---------- header form ---------- *)
Definition enc_hdr (h : nat) (s : tdc) : list N := repeat 0 h ++ enc s.
Theorem hdr_form h s : firstn h (enc_hdr h s) = repeat 0 h /\ skipn h (enc_hdr h s) = enc s /\ length (enc_hdr h s) = (h + length (enc s))%nat.
Proof.
  unfold enc_hdr. repeat split.
  - apply firstn_app_len. apply repeat_length.
  - apply skipn_app_len. apply repeat_length.
  - rewrite app_length, repeat_length. reflexivity.
Qed.

(* ---------- reference formats: an unrepresentable k is rejected ---------- *)
Theorem compat_d_bad_k mn mx kd cs rest :
  mn < two64 -> mx < two64 -> kd < two64 -> N.of_nat (length cs) < two32 ->
  f64_to_N two16 kd = None -> dec (enc_compat_d mn mx kd cs ++ rest) = None.
Proof.
  intros Hmn Hmx Hkd Hnc Hk. unfold enc_compat_d. rewrite <- !app_assoc. cbn [app].
  unfold dec. rewrite take_ok by (cbn [length]; rewrite app_length, be_len; lia).
  cbn [bind firstn byte nth skipn]. change (w8 0) with 0. cbn [N.eqb negb andb].
  unfold dec_compat. unfold rd_le at 1. cbn [take length Nat.leb firstn skipn bind le_bytes_to_N].
  change (N.lor (w8 1) (N.shiftl 0 8)) with 1. cbn [N.eqb Pos.eqb].
  rewrite rd_be_enc by exact Hmn. cbn [bind]. rewrite rd_be_enc by exact Hmx. cbn [bind].
  rewrite rd_be_enc by exact Hkd. cbn [bind]. rewrite rd_be_enc by exact Hnc. cbn [bind].
  assert (G : (N.of_nat (length (flat_map (fun c : N * N => be_bytes 8 (snd c) ++ be_bytes 8 (fst c)) cs ++ rest)) <? 16 * N.of_nat (length cs)) = false).
  { apply N.ltb_ge. rewrite app_length, compat_len_d. lia. }
  rewrite G, Nat2N.id.
  destruct (rd_compat_d _ _) as [[? ?]|]; cbn [bind]; [rewrite Hk|]; reflexivity.
Qed.

Theorem compat_d_bad_weight mn mx kd m wd cs rest :
  mn < two64 -> mx < two64 -> kd < two64 -> N.of_nat (length ((m, wd) :: cs)) < two32 -> m < two64 -> wd < two64 ->
  f64_to_N two64 wd = None -> dec (enc_compat_d mn mx kd ((m, wd) :: cs) ++ rest) = None.
Proof.
  intros Hmn Hmx Hkd Hnc Hm Hw Hbad. remember ((m, wd) :: cs) as L eqn:EL. unfold enc_compat_d. rewrite <- !app_assoc. cbn [app].
  unfold dec. rewrite take_ok by (cbn [length]; rewrite app_length, be_len; lia).
  cbn [bind firstn byte nth skipn]. change (w8 0) with 0. cbn [N.eqb negb andb].
  unfold dec_compat. unfold rd_le at 1. cbn [take length Nat.leb firstn skipn bind le_bytes_to_N].
  change (N.lor (w8 1) (N.shiftl 0 8)) with 1. cbn [N.eqb Pos.eqb].
  rewrite rd_be_enc by exact Hmn. cbn [bind]. rewrite rd_be_enc by exact Hmx. cbn [bind].
  rewrite rd_be_enc by exact Hkd. cbn [bind]. rewrite rd_be_enc by exact Hnc. cbn [bind].
  assert (G : (N.of_nat (length (flat_map (fun c : N * N => be_bytes 8 (snd c) ++ be_bytes 8 (fst c)) L ++ rest)) <? 16 * N.of_nat (length L)) = false).
  { apply N.ltb_ge. rewrite app_length, compat_len_d. lia. }
  rewrite G, Nat2N.id. subst L.
  cbn [length rd_compat_d flat_map snd fst]. rewrite <- !app_assoc.
  rewrite rd_be_enc by exact Hw. cbn [bind]. rewrite rd_be_enc by exact Hm. cbn [bind]. rewrite Hbad. reflexivity.
Qed.
