(* Properties_C11_req.v — C11 for the REQ sketch: what the readers (model ReqCodecDefs.dec_core, one function for the
   bytes and the stream reader; compared with both on every strict prefix and on the preamble mutations of the runs)
   do with truncated and corrupted images.  Statements only; proofs in ReqCodecProofs.v.
   dec_core is a total function on arbitrary byte lists (Coq); it returns (result, number of coins drawn before it
   finished or refused).  NOT claimed for the code: corrupted images on which the code's behaviour is undefined
   (non-empty image with num_levels = 0, a single level without items, non-normal section size, lg_weight > 63, item
   counts far beyond the image) are refused by the model; they are the known findings c11_corrupt_*:req_* of the
   implementation-side family fam_serde. *)
From Coq Require Import ZArith List Bool Lia.
From DS Require Import RunnerLib SortedView ReqDefs ReqProofs ReqCodecInv ReqCodecDefs ReqCodecProofs.
Import ListNotations.
Local Open Scope Z_scope.

(* every strict prefix of the image of every reachable sketch is refused (there is no padding case) *)
Theorem C11_req_prefix_refused : forall kind s log n, reach true s log -> Fits kind s -> (n < length (enc kind s))%nat ->
  fst (dec_core kind (firstn n (enc kind s))) = None.
Proof. exact prefix_refused. Qed.

(* fewer than 8 bytes, or a wrong preamble size / serial version / family id: refused before anything is constructed *)
Theorem C11_req_short_refused : forall kind b, (length b < 8)%nat -> dec_core kind b = (None, O).
Proof. exact short_refused. Qed.

Theorem C11_req_bad_preamble_refused : forall kind pre sv fam fl k0 k1 nl nraw rest,
  pre <> (if 1 <? nl then 4 else 2) \/ sv <> 1 \/ fam <> 17 ->
  dec_core kind (pre :: sv :: fam :: fl :: k0 :: k1 :: nl :: nraw :: rest) = (None, O).
Proof. exact bad_preamble_refused. Qed.

(* whatever the bytes: an accepted image accounts for everything it claims - the retained items take no more room than
   the bytes consumed (item size * num_retained + 8 <= bytes consumed), num_retained is the sum over the compactors,
   one coin was drawn per compactor and there are no more compactors than bytes *)
Theorem C11_req_accepted_bounded : forall kind b x r c, dec_core kind b = (Some (x, r), c) ->
  Z.of_nat (isz kind) * nret x + 8 + len r <= len b /\ nret x = sum_items (comps x) /\ c = length (comps x) /\ Z.of_nat c <= len b.
Proof. exact accepted_bounded. Qed.

(* what follows an accepted image is not looked at: the verdict and the content do not depend on it *)
Theorem C11_req_trailing_bytes_ignored : forall kind t b x r c, dec_core kind b = (Some (x, r), c) ->
  dec_core kind (b ++ t) = (Some (x, r ++ t), c).
Proof. exact dec_core_ext. Qed.

(* non-vacuity: a 2-compactor image cut inside the second compactor is refused after ONE coin was drawn (the first
   compactor had been constructed), cut inside the first one after none *)
Example C11_req_nonvacuous :
  let c1 := mkcomp 0 false true (f32_of_Z 4) 4 3 1 [7; 8; 9] in
  let c2 := mkcomp 1 false true (f32_of_Z 4) 4 3 0 [1; 3] in
  let s := mkreq 4 true 48 5 7 [c1; c2] 0 9 in
  length (enc 0 s) = 112%nat /\ dec_core 0 (enc 0 s) = (Some (s, []), 2%nat) /\
  dec_core 0 (firstn 100 (enc 0 s)) = (None, 1%nat) /\ dec_core 0 (firstn 60 (enc 0 s)) = (None, 0%nat) /\
  dec_core 0 (firstn 20 (enc 0 s)) = (None, 0%nat).
Proof. vm_compute. repeat split; reflexivity. Qed.

Print Assumptions C11_req_prefix_refused.
Print Assumptions C11_req_short_refused.
Print Assumptions C11_req_bad_preamble_refused.
Print Assumptions C11_req_accepted_bounded.
Print Assumptions C11_req_trailing_bytes_ignored.
