(* Properties_C10_fi.v — the frequent-items sketch image follows the documented little-endian layout: every preamble field of
   fi_enc s sits at the documented offset with the documented value (preamble longs, serial version 1, family id 10,
   lg_max_map_size, lg_cur_map_size, flags, number of counters, total weight, offset), the counters follow at 32 + 8 i in
   iterator order, the items after them through the serde (uint64_t: 8 bytes; std::string: u32 length + bytes); a reader written
   from that description (fi_dec) recovers the content.  The readers accept serial version 1 only; the legacy forms are the empty images of older writers that set only one of the two
   historical empty-flag bits (C10_fi_legacy_empty_flags).
   Only statements; proofs in FiCodecProofs.v. *)
From Coq Require Import ZArith NArith List Bool Lia Permutation.
From DS Require Import Word Murmur3 RunnerLib FiDefs FiRefine FiSerProofs FiCodecDefs FiCodecProofs.
Import ListNotations.
Local Open Scope Z_scope.

(* no active counter: one preamble long, both "empty" flag bits *)
Theorem C10_fi_layout_empty : forall kind (s : sk), nact _ (sk_map _ s) = 0 ->
  fi_enc kind s = [1; 1; 10; Nz (lgm _ (sk_map _ s)); Nz (lgc _ (sk_map _ s)); 5; 0; 0].
Proof. exact fi_layout_empty. Qed.

(* otherwise: four preamble longs *)
Theorem C10_fi_layout_nonempty : forall kind (s : sk), nact _ (sk_map _ s) <> 0 ->
  let img := fi_enc kind s in let es := entries item (sk_map _ s) in
  firstn 8 img = [4; 1; 10; Nz (lgm _ (sk_map _ s)); Nz (lgc _ (sk_map _ s)); 0; 0; 0] /\
  firstn 4 (skipn 8 img) = le_enc 4 (nact _ (sk_map _ s)) /\
  firstn 4 (skipn 12 img) = [0; 0; 0; 0] /\
  firstn 8 (skipn 16 img) = le_enc 8 (sk_tot _ s) /\
  firstn 8 (skipn 24 img) = le_enc 8 (sk_off _ s) /\
  skipn 32 img = flat_map (fun c => le_enc 8 (cv _ c)) es ++ flat_map (fun c => ser_item kind (ck _ c)) es /\
  (forall i d, (i < length es)%nat -> firstn 8 (skipn (32 + 8 * i) img) = le_enc 8 (cv _ (nth i es d))) /\
  skipn (32 + 8 * length es) img = flat_map (fun c => ser_item kind (ck _ c)) es.
Proof. exact fi_layout_nonempty. Qed.

(* little endian: byte j of an n-byte field holds bits 8j .. 8j+7 *)
Theorem C10_fi_little_endian : forall n v j, (j < n)%nat -> nth j (le_enc n v) 0 = (v / 256 ^ Z.of_nat j) mod 256.
Proof.
  induction n as [|n IH]; intros v j Hj; [lia|]. destruct j as [|j]; cbn [le_enc nth].
  - now rewrite Z.div_1_r.
  - rewrite IH by lia. rewrite Nat2Z.inj_succ, Z.pow_succ_r by lia. rewrite Z.div_div by lia. reflexivity.
Qed.

(* the item formats of the serdes *)
Theorem C10_fi_item_formats : forall x v,
  ser_item 2 x = le_enc 4 (Z.of_nat (length x)) ++ x /\ ser_item 0 [v] = le_enc 8 v.
Proof. intros. split; reflexivity. Qed.

(* a reader written from the layout recovers the content the API reports (see Properties_C09_fi for the observational part) *)
Theorem C10_fi_documented_reader : forall kind (s : sk) rest, SerOk2 kind s ->
  fi_dec kind (fi_enc kind s ++ rest) = Some (sk_roundtrip item item_eqb (fi_hash kind) s, length (fi_enc kind s)).
Proof. exact fi_dec_enc. Qed.

(* legacy forms: older writers flagged an empty sketch with ONE of the two historical bits (bit 0 = IS_EMPTY_1, C++; bit 2 =
   IS_EMPTY_2, Java); the readers take EITHER bit as "empty" and ignore every other flag bit and the two unused bytes *)
Theorem C10_fi_legacy_empty_flags : forall kind lgmax lgcur flags u6 u7 rest, 3 <= lgcur <= lgmax ->
  Z.testbit flags 0 = true \/ Z.testbit flags 2 = true ->
  fi_dec kind ([1; 1; 10; lgmax; lgcur; flags; u6; u7] ++ rest) = Some (sk_new item (zN lgmax) (zN lgcur), 8%nat).
Proof.
  intros kind lgmax lgcur flags u6 u7 rest H Hb. cbn [app fi_dec].
  assert (E : (Z.land flags 5 =? 0) = false).
  { apply Z.eqb_neq. intros E0. destruct Hb as [Hb|Hb].
    - assert (T : Z.testbit (Z.land flags 5) 0 = true) by (rewrite Z.land_spec, Hb; reflexivity). rewrite E0 in T. discriminate.
    - assert (T : Z.testbit (Z.land flags 5) 2 = true) by (rewrite Z.land_spec, Hb; reflexivity). rewrite E0 in T. discriminate. }
  rewrite E. cbn [negb]. unfold hdr_ok.
  replace (lgcur <=? lgmax) with true by (symmetry; apply Z.leb_le; lia).
  replace (3 <=? lgcur) with true by (symmetry; apply Z.leb_le; lia). reflexivity.
Qed.

(* stray flag bits on a non-empty image are ignored: the verdict and content depend on the flags only through bits 0 and 2 *)
Theorem C10_fi_other_flag_bits_ignored : forall kind pl sv fam lgmax lgcur flags flags' u6 u7 u6' u7' rest,
  Z.land flags 5 = Z.land flags' 5 ->
  fi_dec kind (pl :: sv :: fam :: lgmax :: lgcur :: flags :: u6 :: u7 :: rest) =
  fi_dec kind (pl :: sv :: fam :: lgmax :: lgcur :: flags' :: u6' :: u7' :: rest).
Proof. intros. cbn [fi_dec length]. now rewrite H. Qed.

(* only serial version 1 / family 10 / matching preamble size are read *)
Theorem C10_fi_versions : forall kind pl sv fam lgmax lgcur flags u6 u7 rest s used,
  fi_dec kind (pl :: sv :: fam :: lgmax :: lgcur :: flags :: u6 :: u7 :: rest) = Some (s, used) ->
  sv = 1 /\ fam = 10 /\ 3 <= lgcur <= lgmax /\ pl = (if Z.land flags 5 =? 0 then 4 else 1).
Proof.
  intros kind pl sv fam lgmax lgcur flags u6 u7 rest s used H. cbn [fi_dec] in H.
  destruct (hdr_ok pl sv fam lgmax lgcur (negb (Z.land flags 5 =? 0))) eqn:E; [|discriminate]. clear H.
  unfold hdr_ok in E. repeat (apply andb_true_iff in E; destruct E as [E ?]).
  apply Z.eqb_eq in E. repeat match goal with H : (_ =? _) = true |- _ => apply Z.eqb_eq in H | H : (_ <=? _) = true |- _ => apply Z.leb_le in H end.
  subst. destruct (Z.land flags 5 =? 0); cbn [negb]; repeat split; auto; lia.
Qed.

Example C10_ex_fields :
  let img := fi_enc 2 (upd 2 (upd 2 (sk_new item 4 3) [97; 98] 7) [99] 2) in
  nth 0 img 0 = 4 /\ nth 1 img 0 = 1 /\ nth 2 img 0 = 10 /\ nth 3 img 0 = 4 /\ nth 4 img 0 = 3 /\ nth 5 img 0 = 0 /\
  firstn 4 (skipn 8 img) = [2; 0; 0; 0] /\ firstn 8 (skipn 16 img) = [9; 0; 0; 0; 0; 0; 0; 0] /\
  skipn 48 img = [2; 0; 0; 0; 97; 98; 1; 0; 0; 0; 99].
Proof. vm_compute. repeat split; reflexivity. Qed.

Example C10_ex_legacy :
  fi_dec 0 [1; 1; 10; 5; 3; 4; 0; 0] = Some (sk_new item 5 3, 8%nat) /\ fi_dec 2 [1; 1; 10; 5; 3; 1; 0; 0] = Some (sk_new item 5 3, 8%nat) /\
  fi_dec 0 [1; 1; 10; 5; 3; 244; 7; 7] = Some (sk_new item 5 3, 8%nat) /\ fi_dec 0 [4; 1; 10; 5; 3; 4; 0; 0] = None.
Proof. vm_compute. repeat split; reflexivity. Qed.

Example C10_ex_versions_rejected :
  fi_dec 0 [1; 2; 10; 5; 3; 5; 0; 0] = None /\ fi_dec 0 [1; 1; 11; 5; 3; 5; 0; 0] = None /\
  fi_dec 0 [4; 1; 10; 5; 3; 5; 0; 0] = None /\ fi_dec 0 [1; 1; 10; 5; 6; 5; 0; 0] = None /\ fi_dec 0 [1; 1; 10; 5; 2; 5; 0; 0] = None.
Proof. vm_compute. repeat split; reflexivity. Qed.

Print Assumptions C10_fi_layout_empty.
Print Assumptions C10_fi_layout_nonempty.
Print Assumptions C10_fi_little_endian.
Print Assumptions C10_fi_item_formats.
Print Assumptions C10_fi_documented_reader.
Print Assumptions C10_fi_versions.
Print Assumptions C10_fi_legacy_empty_flags.
Print Assumptions C10_fi_other_flag_bits_ignored.
