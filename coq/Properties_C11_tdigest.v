(* Properties_C11_tdigest.v - statements are added below as the proofs land *)
From DS Require Import TDigestCodecDefs.
