(* Properties_C11_tdigest.v — truncated or corrupted tdigest<double> images.  Statements only; proofs in TDigestCodecProofs.v.  [dec] is a
   total function on ARBITRARY byte lists (a read outside the supplied bytes is [take] returning None, i.e. a rejection) and describes
   both readers with fixes/11_tdigest_compat_stream_state.patch and 11_tdigest_compat_casts.patch applied; the behaviour of the
   readers as found is in Regression_tdigestcodec.v. *)
From Coq Require Import NArith List Bool.
From DS Require Import Word TDigestCodecDefs TDigestCodecProofs.
Import ListNotations.
Local Open Scope N_scope.

(* every strict prefix of the image of a well-formed digest is rejected (by both readers) *)
Theorem C11_td_prefix_rejected : forall s, wf s -> forall n, (n < length (enc s))%nat -> dec (firstn n (enc s)) = None.
Proof. exact prefix_rejected. Qed.

(* ... and so is every strict prefix of ANY image that is accepted and consumed entirely: native or reference format, written by
   whatever encoder *)
Theorem C11_td_prefix_rejected_any : forall b s, dec b = Some (s, []) -> forall n, (n < length b)%nat -> dec (firstn n b) = None.
Proof. exact prefix_of_exact_rejected. Qed.

(* ARBITRARY bytes: whatever is accepted was consumed from a prefix c of the input that holds at least 8 bytes per centroid and per
   buffered value of the resulting digest (no content beyond the supplied bytes), and k passed the constructor's test *)
Theorem C11_td_accept_bounded : forall b s r, dec b = Some (s, r) ->
  exists c, b = c ++ r /\ (8 + 8 * (length (c_cents s) + length (c_buf s)) <= length c)%nat /\ 10 <= c_k s.
Proof. exact dec_bounded. Qed.

(* ARBITRARY bytes: bytes after an accepted image are never looked at (the stream reader leaves them unread) *)
Theorem C11_td_trailing_ignored : forall b s r e, dec b = Some (s, r) -> dec (b ++ e) = Some (s, r ++ e).
Proof. exact dec_ext. Qed.

(* reference formats: a k or a weight that the integer type cannot represent (negative, NaN, infinite, too large) is rejected *)
Theorem C11_td_compat_bad_k : forall mn mx kd cs rest,
  mn < two64 -> mx < two64 -> kd < two64 -> N.of_nat (length cs) < two32 ->
  f64_to_N two16 kd = None -> dec (enc_compat_d mn mx kd cs ++ rest) = None.
Proof. exact compat_d_bad_k. Qed.

Theorem C11_td_compat_bad_weight : forall mn mx kd m wd cs rest,
  mn < two64 -> mx < two64 -> kd < two64 -> N.of_nat (length ((m, wd) :: cs)) < two32 -> m < two64 -> wd < two64 ->
  f64_to_N two64 wd = None -> dec (enc_compat_d mn mx kd ((m, wd) :: cs) ++ rest) = None.
Proof. exact compat_d_bad_weight. Qed.

(* non-vacuity: -1.0, NaN, +inf, 2^64, 65536.0 are not representable; -0.0, 0.99, 65535.5, 2^64 - 2048 are *)
Example C11_ex_casts :
  f64_to_N two64 13830554455654793216 = None /\ f64_to_N two64 9221120237041090560 = None /\ f64_to_N two64 9218868437227405312 = None /\
  f64_to_N two64 4895412794951729152 = None /\ f64_to_N two16 4679240012837945344 = None /\
  f64_to_N two64 9223372036854775808 = Some 0 /\ f64_to_N two64 4607092346807469998 = Some 0 /\
  f64_to_N two16 4679239875398991872 = Some 65535 /\ f64_to_N two64 4895412794951729151 = Some 18446744073709549568.
Proof. vm_compute. repeat split; reflexivity. Qed.
Example C11_ex_prefixes :
  let img := enc {| c_k := 10; c_rev := true; c_min := 4607182418800017408; c_max := 4613937818241073152;
                    c_cents := [(4607182418800017408, 1); (4611686018427387904, 2)]; c_buf := [4613937818241073152] |} in
  length img = 72%nat /\ forallb (fun n => match dec (firstn n img) with None => true | Some _ => false end) (seq 0 72) = true /\
  (* a corrupted count: 3 centroids announced, only 2 present *)
  dec (set_nth 8 3 img) = None /\
  (* a corrupted count that still fits: 1 centroid announced: accepted with less content, the rest is left unread *)
  (match dec (set_nth 8 1 (set_nth 12 0 img)) with Some (s, r) => Nat.eqb (length (c_cents s)) 1 && Nat.eqb (length r) 24 | None => false end) = true.
Proof. vm_compute. repeat split; reflexivity. Qed.

Print Assumptions C11_td_prefix_rejected.
Print Assumptions C11_td_prefix_rejected_any.
Print Assumptions C11_td_accept_bounded.
Print Assumptions C11_td_trailing_ignored.
Print Assumptions C11_td_compat_bad_k.
Print Assumptions C11_td_compat_bad_weight.
