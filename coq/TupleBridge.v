(* TupleBridge.v — the tuple union of TupleDefs.v IS the union of ThetaSetDefs.v (property C02's model) at payload
   type S: same table, same union theta after every update, same result (theta, emptiness, order flag, entries).
   Hence every C02 theorem about the union's keys (stated for any payload type and policy) applies to the tuple
   union verbatim.  Depends only on the definitions of ThetaSetDefs.v. *)
From Coq Require Import ZArith NArith List Bool Lia Arith.
From DS Require Import Word RunnerLib OpenAddr KSmallest Canon ThetaDefs ThetaSetDefs TupleDefs.
Import ListNotations.
Local Open Scope N_scope.

Section Bridge.
  Variable S : Type.
  Variable sel : nat -> list (N * S) -> list (N * S).
  Variable comb : S -> S -> S.

  Definition to_c02 (sh : N) (u : TupleDefs.union_st S) : ThetaSetDefs.union_st S :=
    ThetaSetDefs.mk_union S (TupleDefs.u_tab u) (TupleDefs.u_theta u) sh.

  Lemma bridge_scan o ut l : forall t,
    ThetaSetDefs.union_loop S sel comb ut o t l = TupleDefs.union_scan S sel comb o ut t l.
  Proof.
    induction l as [|[h w] l IH]; intros t; simpl; [reflexivity|].
    destruct ((h <? ut) && (h <? theta t)); [apply IH|]. destruct o; [reflexivity|apply IH].
  Qed.

  Theorem bridge_union_new lgk r th0 sh :
    ThetaSetDefs.union_new S lgk r th0 sh = to_c02 sh (TupleDefs.union_new S lgk r th0).
  Proof. reflexivity. Qed.

  Theorem bridge_union_update sh u sh' (c : compact S) :
    ThetaSetDefs.union_update S sel comb (to_c02 sh u) (input_of_compact S sh' c) =
    if c_empty c then Some (to_c02 sh u)
    else if negb (sh' =? sh) then None
    else Some (to_c02 sh (TupleDefs.union_update S sel comb u c)).
  Proof.
    unfold ThetaSetDefs.union_update, TupleDefs.union_update, input_of_compact, to_c02.
    cbn [in_empty in_seed_hash in_theta in_ordered in_entries ThetaSetDefs.u_sh ThetaSetDefs.u_theta ThetaSetDefs.u_table].
    destruct (c_empty c); [reflexivity|]. destruct (negb (sh' =? sh)); [reflexivity|].
    rewrite bridge_scan. reflexivity.
  Qed.

  (* std::nth_element permutes its range (in particular keeps its length): part of KSmallest.nth_post *)
  Hypothesis sel_len : forall k l, (k < length l)%nat -> length (sel k l) = length l.

  Theorem bridge_union_result sh u ordered :
    let a := ThetaSetDefs.union_result S sel (to_c02 sh u) ordered in
    let b := TupleDefs.union_result S sel u ordered in
    in_theta a = c_theta b /\ in_empty a = c_empty b /\ in_ordered a = c_ordered b /\ in_entries a = c_entries b /\
    in_seed_hash a = sh.
  Proof.
    unfold ThetaSetDefs.union_result, ThetaSetDefs.union_result_gen, TupleDefs.union_result, to_c02, mk_result, mk_cs.
    cbn [ThetaSetDefs.u_sh ThetaSetDefs.u_theta ThetaSetDefs.u_table].
    destruct (is_empty (TupleDefs.u_tab u)); [cbn; auto|].
    set (t := TupleDefs.u_tab u). set (th := N.min (TupleDefs.u_theta u) (theta t)).
    set (ents := if theta t <=? TupleDefs.u_theta u then entries S t else filter (fun e => fst e <? th) (entries S t)).
    cbv zeta.
    destruct (knom S t <? length ents)%nat eqn:Ek; [|cbn; auto].
    destruct (nth_error (sel (knom S t) ents) (knom S t)) eqn:En; [cbn; auto|].
    exfalso. apply Nat.ltb_lt in Ek. apply nth_error_None in En. rewrite (sel_len _ _ Ek) in En. lia.
  Qed.
End Bridge.
