(* KllMinK.v — min_k_ (the k the published rank error is computed from) over merge trees (model KllDefs.v).
   A history is a tree: a fresh sketch, an update, a query (sorts level zero), or the merge of the outcomes of two
   histories.  mk_spec is what the code is meant to do: the minimum of the sketch's own k and, transitively, of the
   min_k of every operand that was in estimation mode when it was merged in.  Whether an operand is in estimation
   mode (num_levels > 1) is a function of its history alone, not of the coins (shapes do not depend on coins). *)
From Coq Require Import ZArith List Bool Lia.
From DS Require Import RunnerLib SortedView KllDefs KllProofs KllSpace KllView KllTop KllUnbiased KllUnbiasedRun.
Import ListNotations.
Local Open Scope Z_scope.

Inductive hist : Type :=
| HNew (k : Z)
| HUpd (h : hist) (x : Z)
| HMrg (h1 h2 : hist)            (* the outcome of h2 merged into the outcome of h1 *)
| HSort (h : hist).

Fixpoint hrun (h : hist) : M kll :=
  match h with
  | HNew k => Ret (kll_new k)
  | HUpd h x => bind (hrun h) (fun s => update s x)
  | HMrg h1 h2 => bind (hrun h1) (fun s => bind (hrun h2) (fun o => merge s o))
  | HSort h => bind (hrun h) (fun s => Ret (sort_level_zero s))
  end.

Fixpoint hist_ok (h : hist) : Prop :=
  match h with
  | HNew k => 8 <= k <= 65535
  | HUpd h _ => hist_ok h
  | HMrg a b => hist_ok a /\ hist_ok b
  | HSort h => hist_ok h
  end.

Fixpoint kof (h : hist) : Z :=
  match h with
  | HNew k => k
  | HUpd h _ => kof h
  | HMrg a _ => kof a
  | HSort h => kof h
  end.

Definition est_mode (s : kll) : bool := (2 <=? length (levels s))%nat.       (* is_estimation_mode(): num_levels_ > 1 *)
Definition est (h : hist) : bool := est_mode (first (hrun h)).               (* the same under every coin outcome: est_fixed *)

Fixpoint mk_spec (h : hist) : Z :=
  match h with
  | HNew k => k
  | HUpd h _ => mk_spec h
  | HSort h => mk_spec h
  | HMrg a b => if est b then Z.min (mk_spec a) (mk_spec b) else mk_spec a
  end.

Lemma hrun_sim h : msim sh (hrun h) (hrun h).
Proof.
  induction h as [k|h IH x|a IHa b IHb|h IH]; cbn [hrun].
  - constructor. apply sh_refl.
  - eapply msim_bind; [exact IH|]. intros s1 s2 H. now apply update_sim.
  - eapply msim_bind; [exact IHa|]. intros s1 s2 H. eapply msim_bind; [exact IHb|]. intros o1 o2 Ho. now apply merge_sim.
  - eapply msim_bind; [exact IH|]. intros s1 s2 H. constructor.
    eapply sh_trans; [apply sort_level_zero_sh|]. eapply sh_trans; [exact H|]. apply sh_sym, sort_level_zero_sh.
Qed.

Lemma est_fixed h s : leaf (hrun h) s -> est_mode s = est h.
Proof.
  intro L. pose proof (msim_leaf sh _ _ (hrun_sim h) s (first (hrun h)) L (first_leaf _)) as H.
  apply sh_inv in H as (_ & _ & _ & E). unfold est, est_mode. now rewrite (lens_length _ _ E).
Qed.

Lemma hrun_reach : forall h s, hist_ok h -> leaf (hrun h) s -> exists log, reach s log.
Proof.
  induction h as [k|h IH x|a IHa b IHb|h IH]; intros s OK L; cbn [hrun hist_ok] in *.
  - apply leaf_ret_inv in L. subst s. exists []. now apply reach_new.
  - apply leaf_bind in L as (s0 & L0 & L1). destruct (IH s0 OK L0) as [log R]. exists (log ++ [x]). eapply reach_update; eauto.
  - destruct OK as [OKa OKb]. apply leaf_bind in L as (s0 & L0 & L1). apply leaf_bind in L1 as (o & Lo & L2).
    destruct (IHa s0 OKa L0) as [l1 R1]. destruct (IHb o OKb Lo) as [l2 R2]. exists (l1 ++ l2). eapply reach_merge; eauto.
  - apply leaf_bind in L as (s0 & L0 & L1). apply leaf_ret_inv in L1. subst s. destruct (IH s0 OK L0) as [log R]. exists log. now apply reach_sort.
Qed.

Lemma reach_has_history : forall s log, reach s log -> exists h, hist_ok h /\ leaf (hrun h) s.
Proof.
  induction 1 as [k Hk|s log x s' R [h [OK Lh]] L|s l1 o l2 s' R1 [h1 [OK1 L1]] R2 [h2 [OK2 L2]] L|s log R [h [OK Lh]]].
  - exists (HNew k). split; [exact Hk|constructor].
  - exists (HUpd h x). split; [exact OK|]. cbn [hrun]. apply leaf_bind. eauto.
  - exists (HMrg h1 h2). split; [split; assumption|]. cbn [hrun]. apply leaf_bind. exists s. split; [exact L1|]. apply leaf_bind. eauto.
  - exists (HSort h). split; [exact OK|]. cbn [hrun]. apply leaf_bind. exists s. split; [exact Lh|constructor].
Qed.

(* a sketch in estimation mode is not empty (its top level holds an item of weight >= 2) *)
Lemma reach_est_nonempty s log : reach s log -> est_mode s = true -> 2 <= nn s.
Proof.
  intros R E. unfold est_mode in E. apply Nat.leb_le in E.
  pose proof (r_inv _ _ (reach_Rel _ _ R)) as I. destruct (reach_extra _ _ R) as [T _].
  pose proof (i_w s I) as W. specialize (T E).
  assert (G : forall lv w, 0 < w -> last lv [] <> [] -> w <= wsum w lv).
  { induction lv as [|a lv' IHl]; intros w Hw Hl; [cbn in Hl; congruence|].
    unfold wsum in *. cbn [Rlv]. rewrite cnt_true. destruct lv' as [|b lv''].
    - cbn [last] in Hl. apply nonempty_len_pos in Hl. cbn [Rlv]. nia.
    - rewrite last_cons2 in Hl by discriminate. specialize (IHl (2 * w) ltac:(lia) Hl). pose proof (len_nonneg a). nia. }
  destruct (levels s) as [|l0 [|l1 r]]; simpl in E; try lia.
  rewrite last_cons2 in T by discriminate. specialize (G (l1 :: r) 2 ltac:(lia) T).
  unfold wsum in *. cbn [Rlv] in W. cbn [Rlv] in G. rewrite cnt_true in W. change (2 * 1) with 2 in *. pose proof (len_nonneg l0). lia.
Qed.

Lemma update_min_k s x s' : Inv s -> leaf (update s x) s' -> kk s' = kk s /\ min_k s' = min_k s.
Proof.
  intros I L. unfold update in L. destruct (levels_upd_minmax s x x) as (_ & _ & _ & E4 & _ & E6).
  destruct (internal_update_spec _ _ _ (Inv_upd_minmax s x x I) L) as (_ & (M1 & M2 & _) & _). split; congruence.
Qed.

Lemma merge_min_k s o s' : Inv s -> Inv o -> leaf (merge s o) s' ->
  kk s' = kk s /\
  min_k s' = if nn o =? 0 then min_k s else if est_mode o then Z.min (min_k s) (min_k o) else min_k s.
Proof.
  intros I Io L. unfold merge in L. destruct (nn o =? 0).
  { apply leaf_ret_inv in L. now subst s'. }
  apply leaf_bind in L as (s2 & L1 & L). apply leaf_bind in L as (s3 & L2 & L3). apply leaf_ret_inv in L3.
  destruct (levels_upd_minmax s (mn o) (mx o)) as (_ & _ & _ & E4 & _ & E6).
  destruct (add_l0_spec _ _ _ (Inv_upd_minmax s (mn o) (mx o) I) L1) as (I2 & (M1 & M2 & _) & _).
  unfold est_mode. destruct (2 <=? length (levels o))%nat.
  - destruct (merge_higher_spec s2 o s3 I2 Io L2) as (_ & (K1 & K2 & _) & _). subst s'. cbn [kk min_k]. split; congruence.
  - apply leaf_ret_inv in L2. subst s3 s'. cbn [kk min_k]. split; congruence.
Qed.

(* the main statement: under every coin outcome, k is the k of the root, min_k is the recursive specification, 8 <= min_k <= k *)
Theorem min_k_spec : forall h s, hist_ok h -> leaf (hrun h) s ->
  kk s = kof h /\ min_k s = mk_spec h /\ 8 <= min_k s <= kk s.
Proof.
  induction h as [k|h IH x|a IHa b IHb|h IH]; intros s OK L; cbn [hrun hist_ok kof mk_spec] in *.
  - apply leaf_ret_inv in L. subst s. simpl. lia.
  - apply leaf_bind in L as (s0 & L0 & L1). destruct (IH s0 OK L0) as (A & B & C).
    destruct (hrun_reach h s0 OK L0) as [log R].
    destruct (update_min_k s0 x s (r_inv _ _ (reach_Rel _ _ R)) L1) as [E1 E2]. rewrite E1, E2. auto.
  - destruct OK as [OKa OKb]. apply leaf_bind in L as (s0 & L0 & L1). apply leaf_bind in L1 as (o & Lo & L2).
    destruct (IHa s0 OKa L0) as (A & B & C). destruct (IHb o OKb Lo) as (Ao & Bo & Co).
    destruct (hrun_reach a s0 OKa L0) as [l1 R1]. destruct (hrun_reach b o OKb Lo) as [l2 R2].
    destruct (merge_min_k s0 o s (r_inv _ _ (reach_Rel _ _ R1)) (r_inv _ _ (reach_Rel _ _ R2)) L2) as [E1 E2].
    rewrite <- (est_fixed b o Lo). rewrite E1, E2. split; [exact A|].
    destruct (Z.eqb_spec (nn o) 0) as [Z0|NZ].
    + destruct (est_mode o) eqn:EM; [pose proof (reach_est_nonempty o l2 R2 EM); lia|]. auto.
    + destruct (est_mode o); [|auto]. rewrite B, Bo. split; [reflexivity|]. rewrite <- B, <- Bo. lia.
  - apply leaf_bind in L as (s0 & L0 & L1). apply leaf_ret_inv in L1. subst s. destruct (IH s0 OK L0) as (A & B & C).
    unfold sort_level_zero. destruct (l0s s0); cbn [kk min_k]; auto.
Qed.
