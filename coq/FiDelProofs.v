(* FiDelProofs.v — the reverse-purge hash map (L2 of FiDefs.v), deletion side:
   hash_delete (back-shift) keeps the probe invariant and removes exactly one key;
   subtract_and_keep_positive_only (two-pass order as coded) subtracts from every counter exactly once and
   removes exactly the non-positive ones: the result is a permutation of FiDefs.a_purge.  ANY hash function. *)
From Coq Require Import ZArith NArith List Bool Lia Arith PeanoNat Permutation.
From DS Require Import Word Murmur3 RunnerLib FiDefs FiProofs FiMapProofs.
Import ListNotations.

Section DelProofs.
  Variable Item : Type.
  Variable hash : Item -> N.

  Notation cell := (cell Item).
  Notation table := (table Item).
  Notation slot := (slot Item).
  Notation set_slot := (set_slot Item).
  Notation nxt := (nxt Item).
  Notation home := (home Item hash).
  Notation hm := (hm Item hash).
  Notation ProbeInv := (ProbeInv Item hash).
  Notation slot_lt := (slot_lt Item).
  Notation set_slot_length := (set_slot_length Item).
  Notation slot_set_eq := (slot_set_eq Item).
  Notation slot_set_neq := (slot_set_neq Item).

  Lemma hm_len (t1 t2 : table) c c' : length t1 = length t2 -> ck _ c = ck _ c' -> hm t1 c = hm t2 c'.
  Proof. intros E Ek. unfold FiMapProofs.hm, FiDefs.home. now rewrite E, Ek. Qed.

  Lemma pos_neq n b i j : (b < n)%nat -> (i < n)%nat -> (j < n)%nat -> i <> j -> pos n b i <> pos n b j.
  Proof. intros Hb Hi Hj Hne E. apply pos_inj in E; auto. Qed.

  (* ---------------- probe invariant with one hole ---------------- *)
  Record GInv (t : table) (di : nat) : Prop := {
    g_hole : slot t di = None;
    g_state : forall q c, slot t q = Some c ->
                 (1 <= cs _ c <= length t)%nat /\ pos (length t) (hm t c) (cs _ c - 1) = q;
    g_path : forall q c, slot t q = Some c -> forall j, (j < cs _ c - 1)%nat ->
                 pos (length t) (hm t c) j = di \/ slot t (pos (length t) (hm t c) j) <> None;
    g_nodup : forall q q' c c', slot t q = Some c -> slot t q' = Some c' -> ck _ c = ck _ c' -> q = q'
  }.

  Lemma hm_lt (t : table) c : (0 < length t)%nat -> (hm t c < length t)%nat.
  Proof. intros. apply home_lt; auto. Qed.

  (* closing the hole: the probe reached an empty slot and no cell in between passes through the hole *)
  Lemma GInv_close (t : table) di drift : (di < length t)%nat -> (1 <= drift)%nat -> GInv t di ->
    slot t (pos (length t) di drift) = None ->
    (forall e c, (1 <= e < drift)%nat -> slot t (pos (length t) di e) = Some c -> (cs _ c <= e)%nat) ->
    ProbeInv t.
  Proof.
    intros Hdi Hdr G Hnone Hbetween. set (n := length t) in *.
    assert (Hn : (0 < n)%nat) by lia.
    constructor; [exact (g_state t di G)| |exact (g_nodup t di G)].
    intros q c Hq j Hj.
    destruct (g_path t di G q c Hq j Hj) as [E|A]; [exfalso|exact A]. fold n in E.
    destruct (g_state t di G q c Hq) as [Hcs Hpos]. fold n in Hcs, Hpos.
    pose proof (hm_lt t c Hn) as Hh. fold n in Hh.
    set (m := (cs _ c - 1 - j)%nat).
    assert (Hact : forall e, (1 <= e <= m)%nat -> slot t (pos n di e) <> None).
    { intros e He. rewrite <- E, pos_pos by auto.
      destruct (Nat.eq_dec (j + e) (cs _ c - 1)) as [Ee|Ne].
      - rewrite Ee, Hpos, Hq. discriminate.
      - destruct (g_path t di G q c Hq (j + e)%nat) as [E2|A2]; [unfold m in He; lia| |exact A2].
        fold n in E2. rewrite <- E in E2. apply pos_inj in E2; unfold m in He; lia. }
    destruct (le_lt_dec drift m) as [Hle|Hlt].
    - apply (Hact drift); [lia|exact Hnone].
    - assert (Hqm : pos n di m = q).
      { rewrite <- E, pos_pos by auto. unfold m. replace (j + (cs _ c - 1 - j))%nat with (cs _ c - 1)%nat by lia. exact Hpos. }
      assert (Hm1 : (1 <= m)%nat) by (unfold m; lia).
      pose proof (Hbetween m c ltac:(lia) ltac:(rewrite Hqm; exact Hq)). unfold m in *. lia.
  Qed.

  (* moving a cell whose probe path passes through the hole into the hole *)
  Lemma GInv_move (t : table) di drift c : (di < length t)%nat -> GInv t di ->
    slot t (pos (length t) di drift) = Some c -> (1 <= drift < cs _ c)%nat ->
    GInv (set_slot (set_slot t di (Some {| ck := ck _ c; cv := cv _ c; cs := cs _ c - drift |}))
                   (pos (length t) di drift) None) (pos (length t) di drift).
  Proof.
    intros Hdi G Hp Hdr. set (n := length t) in *. set (p := pos n di drift) in *.
    assert (Hn : (0 < n)%nat) by lia.
    destruct (g_state t di G p c Hp) as [Hcs Hpos]. fold n in Hcs, Hpos.
    assert (Hpn : (p < n)%nat) by (apply pos_lt; auto).
    assert (Hpd : p <> di).
    { unfold p. rewrite <- (pos_0 n di Hdi) at 2. apply pos_neq; lia. }
    set (c2 := {| ck := ck _ c; cv := cv _ c; cs := cs _ c - drift |}).
    set (t2 := set_slot (set_slot t di (Some c2)) p None).
    assert (Hlen : length t2 = n) by (unfold t2; now rewrite !set_slot_length).
    assert (S2p : slot t2 p = None).
    { unfold t2. apply slot_set_eq. rewrite set_slot_length. exact Hpn. }
    assert (S2d : slot t2 di = Some c2).
    { unfold t2. rewrite slot_set_neq by auto. now apply slot_set_eq. }
    assert (S2o : forall q, q <> p -> q <> di -> slot t2 q = slot t q).
    { intros q H1 H2. unfold t2. rewrite !slot_set_neq by auto. reflexivity. }
    (* every cell of t2 is a cell of t with the same key, value; position and state as described *)
    assert (Back : forall q x, slot t2 q = Some x ->
               (q = di /\ x = c2) \/ (q <> di /\ q <> p /\ slot t q = Some x)).
    { intros q x Hx. destruct (Nat.eq_dec q di) as [->|Hd].
      - left. rewrite S2d in Hx. inversion Hx. auto.
      - destruct (Nat.eq_dec q p) as [->|Hq]; [rewrite S2p in Hx; discriminate|].
        right. rewrite S2o in Hx by auto. auto. }
    assert (Hhm2 : hm t2 c2 = hm t c) by (apply hm_len; [exact Hlen|reflexivity]).
    assert (Hdipos : pos n (hm t c) (cs _ c - drift - 1) = di).
    { replace (cs _ c - drift - 1)%nat with (cs _ c - 1 - drift)%nat by lia.
      rewrite (pos_back n (hm t c) (cs _ c - 1) di drift drift) by (try lia; exact Hpos).
      rewrite Nat.sub_diag. now apply pos_0. }
    constructor; rewrite ?Hlen.
    - exact S2p.
    - intros q x Hx. destruct (Back q x Hx) as [[-> ->]|(Hd & Hq & Hx0)].
      + simpl. split; [lia|]. rewrite Hhm2. exact Hdipos.
      + rewrite (hm_len t2 t x x) by auto. exact (g_state t di G q x Hx0).
    - intros q x Hx j Hj.
      assert (Hold : pos n (hm t2 x) j = di \/ slot t (pos n (hm t2 x) j) <> None).
      { destruct (Back q x Hx) as [[-> ->]|(Hd & Hq & Hx0)].
        - rewrite Hhm2. simpl in Hj. apply (g_path t di G p c Hp). lia.
        - rewrite (hm_len t2 t x x) by auto. exact (g_path t di G q x Hx0 j Hj). }
      destruct (Nat.eq_dec (pos n (hm t2 x) j) p) as [E|Ne]; [left; exact E|right].
      destruct Hold as [E|A].
      + rewrite E, S2d. discriminate.
      + destruct (Nat.eq_dec (pos n (hm t2 x) j) di) as [E|Nd]; [rewrite E, S2d; discriminate|].
        now rewrite S2o by auto.
    - intros q q' x x' Hx Hx' Ek.
      destruct (Back q x Hx) as [[-> ->]|(Hd & Hq & Hx0)];
        destruct (Back q' x' Hx') as [[-> ->]|(Hd' & Hq' & Hx0')]; auto.
      + exfalso. apply Hq'. symmetry. exact (g_nodup t di G p q' c x' Hp Hx0' Ek).
      + exfalso. apply Hq. exact (g_nodup t di G q p x c Hx0 Hp Ek).
      + exact (g_nodup t di G q q' x x' Hx0 Hx0' Ek).
  Qed.

  (* ---------------- the back-shift loop ---------------- *)
  Definition arc_move (n h0 L q q' : nat) : Prop :=
    q' = q \/ exists e e', q = pos n h0 e /\ q' = pos n h0 e' /\ (e < L)%nat /\ (1 <= e' < L)%nat.

  Lemma hd_loop_spec (h0 L n : nat) : (h0 < n)%nat -> (L < n)%nat ->
    forall fuel (t : table) i drift di p,
      length t = n -> di = pos n h0 (i - drift) -> p = pos n h0 i ->
      (1 <= drift <= i)%nat -> (i <= L)%nat -> (L + 1 <= fuel + i)%nat ->
      slot t (pos n h0 L) = None ->
      GInv t di ->
      (forall e c, (1 <= e < drift)%nat -> slot t (pos n di e) = Some c -> (cs _ c <= e)%nat) ->
      let t' := hd_loop Item fuel t di p drift in
      ProbeInv t' /\ length t' = n /\
      (forall q, slot t q = None -> q <> di -> slot t' q = None) /\
      (forall q c', slot t' q = Some c' -> exists q' c, slot t q' = Some c /\ ck _ c = ck _ c' /\ cv _ c = cv _ c' /\
                      arc_move n h0 L q q') /\
      (forall q c, slot t q = Some c -> exists q' c', slot t' q' = Some c' /\ ck _ c' = ck _ c /\ cv _ c' = cv _ c).
  Proof.
    intros Hh0 HL.
    assert (Hn : (0 < n)%nat) by lia.
    induction fuel as [|f IH]; intros t i drift di p Hlen Edi Ep Hdr HiL Hfuel HnoneL G Hbetween; [lia|].
    assert (Hdi : (di < n)%nat) by (subst di; apply pos_lt; auto).
    assert (Hpdi : p = pos n di drift).
    { subst di p. rewrite pos_pos by auto. f_equal. lia. }
    simpl. destruct (slot t p) as [c|] eqn:Hp.
    - (* an active cell at the probe position *)
      assert (HiL' : (i < L)%nat).
      { destruct (Nat.eq_dec i L) as [->|]; [|lia]. subst p. rewrite HnoneL in Hp. discriminate. }
      assert (Hnx : nxt t p = pos n h0 (S i)).
      { subst p. rewrite <- Hlen. rewrite nxt_pos by lia. reflexivity. }
      destruct (Nat.ltb_spec drift (cs _ c)) as [Hmv|Hnm].
      + (* move the cell into the hole; the hole is now at p *)
        set (c2 := {| ck := ck _ c; cv := cv _ c; cs := cs _ c - drift |}).
        set (t2 := set_slot (set_slot t di (Some c2)) p None).
        assert (Hpn : (p < n)%nat) by (subst p; apply pos_lt; auto).
        assert (Hpd : p <> di).
        { rewrite Hpdi. rewrite <- (pos_0 n di Hdi) at 2.
          destruct (g_state t di G p c Hp) as [Hcs _]. rewrite Hlen in Hcs. apply pos_neq; lia. }
        assert (G2 : GInv t2 p).
        { unfold t2. rewrite Hpdi. rewrite <- Hlen. apply GInv_move; rewrite ?Hlen; auto; [rewrite <- Hpdi; exact Hp|lia]. }
        assert (Hlen2 : length t2 = n) by (unfold t2; now rewrite !set_slot_length).
        assert (S2p : slot t2 p = None).
        { unfold t2. apply slot_set_eq. rewrite set_slot_length. lia. }
        assert (S2d : slot t2 di = Some c2).
        { unfold t2. rewrite slot_set_neq by auto. apply slot_set_eq. lia. }
        assert (S2o : forall q, q <> p -> q <> di -> slot t2 q = slot t q).
        { intros q H1 H2. unfold t2. rewrite !slot_set_neq by auto. reflexivity. }
        assert (HL2 : slot t2 (pos n h0 L) = None).
        { destruct (Nat.eq_dec (pos n h0 L) p) as [->|N1]; [exact S2p|].
          rewrite S2o; auto. subst di. apply pos_neq; lia. }
        assert (E1 : p = pos n h0 (S i - 1)) by (subst p; f_equal; lia).
        assert (B2 : forall e x, (1 <= e < 1)%nat -> slot t2 (pos n p e) = Some x -> (cs _ x <= e)%nat) by (intros; lia).
        pose proof (IH t2 (S i) 1%nat p (nxt t p) Hlen2 E1 Hnx ltac:(lia) ltac:(lia) ltac:(lia) HL2 G2 B2) as IH2.
        cbv zeta in IH2. destruct IH2 as (P' & L' & N' & F' & B').
        fold c2. fold t2.
        split; [exact P'|]. split; [exact L'|]. split; [|split].
        * intros q Hq Hqd. apply N'.
          -- destruct (Nat.eq_dec q p) as [->|Hqp]; [exact S2p|]. now rewrite S2o by auto.
          -- intros ->. rewrite Hp in Hq. discriminate.
        * intros q x Hx. destruct (F' q x Hx) as (q2 & x2 & Hx2 & Ek & Ev & Hmove).
          destruct (Nat.eq_dec q2 di) as [->|Hd].
          -- rewrite S2d in Hx2. inversion Hx2; subst x2. simpl in Ek, Ev.
             exists p, c. split; [exact Hp|]. split; [exact Ek|]. split; [exact Ev|]. right.
             destruct Hmove as [->|(e & e' & Eq1 & Eq2 & He & He')].
             ++ exists (i - drift)%nat, i. repeat split; auto; lia.
             ++ exists e, i. repeat split; auto; lia.
          -- assert (Hq2p : q2 <> p) by (intros ->; rewrite S2p in Hx2; discriminate).
             rewrite S2o in Hx2 by auto. exists q2, x2. auto.
        * intros q x Hx. destruct (Nat.eq_dec q p) as [->|Hqp].
          -- rewrite Hp in Hx. inversion Hx; subst x. destruct (B' di c2 S2d) as (q' & c' & H1 & H2 & H3).
             exists q', c'. auto.
          -- assert (Hqd : q <> di) by (intros ->; rewrite (g_hole t di G) in Hx; discriminate).
             apply (B' q x). now rewrite S2o by auto.
      + (* the cell stays; look further *)
        assert (E1 : di = pos n h0 (S i - S drift)) by (subst di; f_equal; lia).
        assert (B2 : forall e x, (1 <= e < S drift)%nat -> slot t (pos n di e) = Some x -> (cs _ x <= e)%nat).
        { intros e x He Hx. destruct (Nat.eq_dec e drift) as [->|Ne].
          - rewrite <- Hpdi, Hp in Hx. inversion Hx; subst x. lia.
          - apply (Hbetween e x); [lia|exact Hx]. }
        exact (IH t (S i) (S drift) di (nxt t p) Hlen E1 Hnx ltac:(lia) ltac:(lia) ltac:(lia) HnoneL G B2).
    - (* an empty slot: done *)
      split.
      { apply (GInv_close t di drift); rewrite ?Hlen; auto; try lia.
        now rewrite <- Hpdi. }
      split; [exact Hlen|]. split; [auto|]. split.
      + intros q c' Hq. exists q, c'. repeat split; auto. now left.
      + intros q c Hq. exists q, c. auto.
  Qed.

  (* ---------------- hash_delete ---------------- *)
  Lemma ProbeInv_hole (t : table) p : (p < length t)%nat -> ProbeInv t -> GInv (set_slot t p None) p.
  Proof.
    intros Hp Pi. set (t1 := set_slot t p None).
    assert (Hlen : length t1 = length t) by apply set_slot_length.
    assert (S1 : forall q x, slot t1 q = Some x -> q <> p /\ slot t q = Some x).
    { intros q x Hx. destruct (Nat.eq_dec p q) as [<-|Hne].
      - unfold t1 in Hx. rewrite slot_set_eq in Hx by auto. discriminate.
      - unfold t1 in Hx. rewrite slot_set_neq in Hx by auto. auto. }
    constructor; rewrite ?Hlen.
    - now apply slot_set_eq.
    - intros q x Hx. destruct (S1 q x Hx) as [_ Hx0]. rewrite (hm_len t1 t x x) by auto.
      exact (pi_state _ _ t Pi q x Hx0).
    - intros q x Hx j Hj. destruct (S1 q x Hx) as [_ Hx0]. rewrite (hm_len t1 t x x) by auto.
      destruct (Nat.eq_dec p (pos (length t) (hm t x) j)) as [E|Ne]; [left; auto|right].
      unfold t1. rewrite slot_set_neq by auto. exact (pi_path _ _ t Pi q x Hx0 j Hj).
    - intros q q' x x' Hx Hx' Ek. destruct (S1 q x Hx) as [_ Hx0]. destruct (S1 q' x' Hx') as [_ Hx0'].
      exact (pi_nodup _ _ t Pi q q' x x' Hx0 Hx0' Ek).
  Qed.

  Theorem hash_delete_spec (t : table) p c0 L : ProbeInv t -> slot t p = Some c0 ->
    (1 <= L < length t)%nat -> slot t (pos (length t) p L) = None ->
    let t' := hash_delete Item t p in
    ProbeInv t' /\ length t' = length t /\
    (forall q, slot t q = None -> slot t' q = None) /\
    (forall q c', slot t' q = Some c' -> exists q' c, slot t q' = Some c /\ ck _ c = ck _ c' /\ cv _ c = cv _ c' /\
                    q' <> p /\ arc_move (length t) p L q q') /\
    (forall q c, slot t q = Some c -> q <> p -> exists q' c', slot t' q' = Some c' /\ ck _ c' = ck _ c /\ cv _ c' = cv _ c).
  Proof.
    intros Pi Hp HL HnoneL. set (n := length t) in *.
    pose proof (slot_lt _ _ _ Hp) as Hpn. fold n in Hpn.
    set (t1 := set_slot t p None).
    assert (Hlen1 : length t1 = n) by apply set_slot_length.
    assert (S1o : forall q, q <> p -> slot t1 q = slot t q).
    { intros q Hq. unfold t1. now rewrite slot_set_neq by auto. }
    assert (S1p : slot t1 p = None) by (unfold t1; now apply slot_set_eq).
    assert (HL1 : slot t1 (pos n p L) = None).
    { destruct (Nat.eq_dec (pos n p L) p) as [->|Hne]; [exact S1p|]. now rewrite S1o. }
    assert (E0 : p = pos n p (1 - 1)) by (simpl; symmetry; now apply pos_0).
    assert (E1 : nxt t p = pos n p 1).
    { rewrite <- (pos_0 n p Hpn) at 1. unfold n. rewrite nxt_pos by (fold n; lia). reflexivity. }
    pose proof (hd_loop_spec p L n Hpn ltac:(lia) n t1 1%nat 1%nat p (nxt t p) Hlen1 E0 E1
                  ltac:(lia) ltac:(lia) ltac:(lia) HL1 (ProbeInv_hole t p Hpn Pi) ltac:(intros; lia)) as H.
    cbv zeta in H. destruct H as (P' & L' & N' & F' & B').
    unfold hash_delete. fold n. fold t1.
    split; [exact P'|]. split; [exact L'|]. split; [|split].
    - intros q Hq. apply N'.
      + rewrite S1o; auto. intros ->. rewrite Hp in Hq. discriminate.
      + intros ->. rewrite Hp in Hq. discriminate.
    - intros q c' Hc'. destruct (F' q c' Hc') as (q' & c & Hc & Ek & Ev & Hm).
      assert (Hq'p : q' <> p) by (intros ->; rewrite S1p in Hc; discriminate).
      exists q', c. rewrite S1o in Hc by auto. auto.
    - intros q c Hc Hq. apply (B' q c). now rewrite S1o.
  Qed.

  (* ---------------- the list of active cells ---------------- *)
  Notation active_cells := (active_cells Item).
  Notation abs_ents := (abs_ents Item).

  Lemma in_active (t : table) c : In c (active_cells t) <-> exists q, slot t q = Some c.
  Proof.
    unfold FiDefs.active_cells, FiDefs.slot. induction t as [|o t IH]; simpl.
    - split; [contradiction|]. intros [q H]. destruct q; discriminate.
    - rewrite in_app_iff, IH. split.
      + intros [H|[q H]].
        * destruct o as [c'|]; simpl in H; [|contradiction]. destruct H as [->|[]]. now exists O.
        * now exists (S q).
      + intros [[|q] H]; simpl in H.
        * left. subst o. now left.
        * right. now exists q.
  Qed.

  Lemma nodup_active (t : table) :
    (forall q q' c c', slot t q = Some c -> slot t q' = Some c' -> ck _ c = ck _ c' -> q = q') ->
    NoDup (map (ck Item) (active_cells t)).
  Proof.
    unfold FiDefs.active_cells, FiDefs.slot. induction t as [|o t IH]; simpl; intros H; [constructor|].
    assert (Ht : NoDup (map (ck Item) (flat_map (fun o => match o with Some c => [c] | None => [] end) t))).
    { apply IH. intros q q' c c' H1 H2 Ek. specialize (H (S q) (S q') c c' H1 H2 Ek). lia. }
    destruct o as [c|]; simpl; [|exact Ht].
    constructor; [|exact Ht]. intros Hin. apply in_map_iff in Hin. destruct Hin as [c' [Ek Hin]].
    apply (in_active t c') in Hin. destruct Hin as [q Hq].
    specialize (H O (S q) c c' eq_refl Hq (eq_sym Ek)). discriminate.
  Qed.

  Definition cell_in (t : table) (k : Item) (v : Z) : Prop := exists q c, slot t q = Some c /\ ck _ c = k /\ cv _ c = v.

  Lemma in_abs (t : table) k v : In (k, v) (abs_ents t) <-> cell_in t k v.
  Proof.
    unfold FiDefs.abs_ents, cell_in. rewrite in_map_iff. split.
    - intros [c [E Hin]]. apply in_active in Hin. destruct Hin as [q Hq]. inversion E. exists q, c. auto.
    - intros [q [c [Hq [<- <-]]]]. exists c. split; auto. apply in_active. now exists q.
  Qed.

  Lemma keys_abs (t : table) : map fst (abs_ents t) = map (ck Item) (active_cells t).
  Proof. unfold FiDefs.abs_ents. rewrite map_map. reflexivity. Qed.

  Lemma nodup_abs (t : table) : ProbeInv t -> NoDup (map fst (abs_ents t)).
  Proof. intros Pi. rewrite keys_abs. apply nodup_active. exact (pi_nodup _ _ t Pi). Qed.

  Lemma cell_in_fun (t : table) k v v' : ProbeInv t -> cell_in t k v -> cell_in t k v' -> v = v'.
  Proof.
    intros Pi (q & c & Hc & Ek & Ev) (q' & c' & Hc' & Ek' & Ev').
    assert (q = q') by (apply (pi_nodup _ _ t Pi q q' c c' Hc Hc'); congruence).
    subst q'. rewrite Hc in Hc'. inversion Hc'. subst. reflexivity.
  Qed.

  Lemma perm_of_cells (l l' : list (Item * Z)) : NoDup (map fst l) -> NoDup (map fst l') ->
    (forall k v, In (k, v) l <-> In (k, v) l') -> Permutation l l'.
  Proof.
    intros H1 H2 H. apply NoDup_Permutation.
    - eapply NoDup_map_inv; eauto.
    - eapply NoDup_map_inv; eauto.
    - intros [k v]. apply H.
  Qed.

  Lemma abs_length (t : table) : length (abs_ents t) = length (active_cells t).
  Proof. unfold FiDefs.abs_ents. apply map_length. Qed.

  (* deleting the cell at p removes exactly that entry *)
  Lemma hash_delete_perm (t : table) p c0 L : ProbeInv t -> slot t p = Some c0 ->
    (1 <= L < length t)%nat -> slot t (pos (length t) p L) = None ->
    Permutation (abs_ents t) ((ck _ c0, cv _ c0) :: abs_ents (hash_delete Item t p)).
  Proof.
    intros Pi Hp HL HnoneL.
    destruct (hash_delete_spec t p c0 L Pi Hp HL HnoneL) as (P' & L' & N' & F' & B').
    set (t' := hash_delete Item t p) in *.
    assert (Hk0 : ~ In (ck _ c0) (map fst (abs_ents t'))).
    { intros Hin. apply in_map_iff in Hin. destruct Hin as [[k v] [Ek Hin]]. simpl in Ek. subst k.
      apply in_abs in Hin. destruct Hin as (q & c' & Hc' & Ek & Ev).
      destruct (F' q c' Hc') as (q' & c & Hc & Ek' & _ & Hne & _).
      apply Hne. apply (pi_nodup _ _ t Pi q' p c c0 Hc Hp). congruence. }
    apply perm_of_cells.
    - now apply nodup_abs.
    - simpl. constructor; [exact Hk0|now apply nodup_abs].
    - intros k v. simpl. rewrite !in_abs. split.
      + intros (q & c & Hc & Ek & Ev). destruct (Nat.eq_dec q p) as [->|Hne].
        * left. rewrite Hp in Hc. inversion Hc. subst. reflexivity.
        * right. destruct (B' q c Hc Hne) as (q' & c' & Hc' & Ek' & Ev'). exists q', c'. repeat split; congruence.
      + intros [E|(q & c' & Hc' & Ek & Ev)].
        * inversion E. subst. exists p, c0. auto.
        * destruct (F' q c' Hc') as (q' & c & Hc & Ek' & Ev' & _). exists q', c. repeat split; congruence.
  Qed.

  Lemma act_set_some (t : table) p c c' : slot t p = Some c ->
    length (active_cells (set_slot t p (Some c'))) = length (active_cells t).
  Proof.
    unfold FiDefs.active_cells, FiDefs.slot, FiDefs.set_slot. revert p.
    induction t as [|o t IH]; intros p H; destruct p; simpl in *; try discriminate.
    - subst o. reflexivity.
    - rewrite !app_length. f_equal. now apply IH.
  Qed.

  (* ---------------- subtract_and_keep_positive_only ---------------- *)
  Lemma first_probe_none (t : table) i : (exists e, (e <= i)%nat /\ slot t e = None) ->
    slot t (first_probe Item t i) = None /\ (first_probe Item t i <= i)%nat.
  Proof.
    induction i as [|j IH]; intros [e [He Hn]]; simpl.
    - assert (e = O) by lia. subst e. auto.
    - destruct (slot t (S j)) eqn:E; [|auto].
      destruct IH as [A B]; [|split; [exact A|lia]].
      exists e. split; auto. destruct (Nat.eq_dec e (S j)) as [->|]; [congruence|lia].
  Qed.

  Lemma map_seq_affine (f : nat -> nat) k : forall s b, (forall j, (j < k)%nat -> f (s + j)%nat = (b + j)%nat) ->
    map f (seq s k) = seq b k.
  Proof.
    induction k as [|k IH]; intros s b H; simpl; auto.
    f_equal.
    - specialize (H O ltac:(lia)). now rewrite !Nat.add_0_r in H.
    - apply IH. intros j Hj. specialize (H (S j) ltac:(lia)). rewrite <- !plus_n_Sm in H. exact H.
  Qed.

  Lemma probe_order_eq (t : table) fp : fp = first_probe Item t (length t - 1) -> (fp < length t)%nat ->
    probe_order Item t = map (pos (length t) fp) (rev (seq 0 (length t))).
  Proof.
    intros Efp Hfp. unfold probe_order. rewrite <- Efp. set (n := length t) in *.
    rewrite map_rev, <- rev_app_distr. f_equal. symmetry.
    replace (seq 0 n) with (seq 0 (n - fp) ++ seq (n - fp) fp).
    2:{ change (seq (n - fp) fp) with (seq (0 + (n - fp)) fp). rewrite <- seq_app. f_equal. lia. }
    rewrite map_app. f_equal.
    - apply map_seq_affine. intros j Hj. unfold pos. simpl. apply Nat.mod_small. lia.
    - apply map_seq_affine. intros j Hj. unfold pos. simpl.
      replace (fp + (n - fp + j))%nat with (j + 1 * n)%nat by lia. rewrite Nat.mod_add by lia.
      apply Nat.mod_small. lia.
  Qed.

  Section Subtract.
    Variable T0 : table.
    Variable amount : Z.
    Variable fp : nat.
    Hypothesis Pi0 : ProbeInv T0.
    Hypothesis Hfp : (fp < length T0)%nat.
    Let n := length T0.

    Record SInv (t : table) (r : nat) : Prop := {
      s_pi : ProbeInv t;
      s_len : length t = n;
      s_fp : slot t fp = None;
      s_A : forall e c, (e < n)%nat -> slot t (pos n fp e) = Some c ->
              exists v0, cell_in T0 (ck _ c) v0 /\
                         (if (r <=? e)%nat then cv _ c = (v0 - amount)%Z /\ (amount < v0)%Z else cv _ c = v0);
      s_B : forall k v0, cell_in T0 k v0 -> (v0 <= amount)%Z \/ exists q c, slot t q = Some c /\ ck _ c = k
    }.

    Lemma rel_of (q : nat) : (q < n)%nat -> exists e, (e < n)%nat /\ pos n fp e = q.
    Proof. intros. apply pos_surj; auto. Qed.

    Lemma sub_step_inv (t : table) cnt r : (r < n)%nat -> SInv t (S r) ->
      let '(t', cnt') := sub_step Item amount (t, cnt) (pos n fp r) in
      SInv t' r /\ (cnt' - Z.of_nat (length (active_cells t')) = cnt - Z.of_nat (length (active_cells t)))%Z.
    Proof.
      intros Hr S. destruct S as [Pi Hlen Hfpn HA HB]. unfold n in *.
      assert (Hn : (0 < length T0)%nat) by lia.
      set (p := pos (length T0) fp r).
      assert (Hpn : (p < length T0)%nat) by (apply pos_lt; auto).
      unfold sub_step. destruct (slot t p) as [c|] eqn:Hp.
      - (* r <> 0 *)
        assert (Hr0 : r <> O).
        { intros ->. unfold p in Hp. rewrite pos_0 in Hp by auto. congruence. }
        destruct (HA r c Hr Hp) as (v0 & Hv0 & Hval).
        replace (S r <=? r)%nat with false in Hval by (symmetry; apply Nat.leb_gt; lia).
        destruct (Z.leb_spec (cv _ c) amount) as [Hle|Hgt].
        + (* delete *)
          assert (HL : (1 <= length T0 - r < length t)%nat) by lia.
          assert (HnoneL : slot t (pos (length t) p (length T0 - r)) = None).
          { rewrite Hlen. unfold p. rewrite pos_pos by auto.
            replace (r + (length T0 - r))%nat with (0 + length T0)%nat by lia.
            rewrite pos_n, pos_0 by auto. exact Hfpn. }
          destruct (hash_delete_spec t p c (length T0 - r) Pi Hp HL HnoneL) as (P' & L' & N' & F' & B').
          pose proof (hash_delete_perm t p c (length T0 - r) Pi Hp HL HnoneL) as Hperm.
          apply Permutation_length in Hperm. simpl in Hperm. rewrite !abs_length in Hperm.
          set (t' := hash_delete Item t p) in *.
          split; [|lia].
          constructor; [exact P'|rewrite L'; exact Hlen|apply N'; exact Hfpn| |].
          * intros e x He Hx.
            destruct (F' _ x Hx) as (q' & c1 & Hc1 & Ek & Ev & Hq'p & Hmove). rewrite Hlen in Hmove.
            destruct Hmove as [->|(a & a' & Ea & Ea' & Ha & Ha')].
            -- destruct (HA e c1 He Hc1) as (w0 & Hw0 & Hw). exists w0. rewrite <- Ek, <- Ev. split; [exact Hw0|].
               assert (e <> r) by (intros ->; apply Hq'p; reflexivity).
               destruct (Nat.leb_spec (S r) e); destruct (Nat.leb_spec r e); auto; lia.
            -- unfold p in Ea, Ea'. rewrite pos_pos in Ea, Ea' by auto.
               apply pos_inj in Ea; [|lia|lia]. subst e q'.
               destruct (HA (r + a')%nat c1 ltac:(lia) Hc1) as (w0 & Hw0 & Hw). exists w0. rewrite <- Ek, <- Ev.
               split; [exact Hw0|].
               replace (S r <=? r + a')%nat with true in Hw by (symmetry; apply Nat.leb_le; lia).
               replace (r <=? r + a)%nat with true by (symmetry; apply Nat.leb_le; lia). exact Hw.
          * intros k w0 Hk. destruct (HB k w0 Hk) as [Hle0|(q & c1 & Hc1 & Ek)]; [now left|].
            destruct (Nat.eq_dec q p) as [->|Hne].
            -- left. rewrite Hp in Hc1. inversion Hc1; subst c1. subst k.
               rewrite (cell_in_fun T0 _ _ _ Pi0 Hk Hv0). lia.
            -- right. destruct (B' q c1 Hc1 Hne) as (q' & c' & Hc' & Ek' & _). exists q', c'. split; congruence.
        + (* subtract *)
          set (c2 := {| ck := ck _ c; cv := (cv _ c - amount)%Z; cs := cs _ c |}).
          set (t' := set_slot t p (Some c2)).
          assert (Hpt : (p < length t)%nat) by lia.
          assert (S2o : forall q, q <> p -> slot t' q = slot t q).
          { intros q Hq. unfold t'. now rewrite slot_set_neq by auto. }
          assert (S2p : slot t' p = Some c2) by (unfold t'; now apply slot_set_eq).
          split; [|unfold t'; rewrite (act_set_some t p c c2 Hp); lia].
          constructor.
          * apply ProbeInv_set_value; auto.
          * unfold t'. now rewrite set_slot_length.
          * rewrite S2o; auto. intros E. rewrite E in Hfpn. congruence.
          * intros e x He Hx. destruct (Nat.eq_dec e r) as [->|Hne].
            -- change (slot t' p = Some x) in Hx. rewrite S2p in Hx. inversion Hx; subst x. simpl. exists v0. split; [exact Hv0|].
               rewrite Nat.leb_refl. lia.
            -- assert (Hpp : pos (length T0) fp e <> p) by (unfold p; apply pos_neq; auto).
               rewrite S2o in Hx by auto. destruct (HA e x He Hx) as (w0 & Hw0 & Hw). exists w0. split; [exact Hw0|].
               destruct (Nat.leb_spec (S r) e); destruct (Nat.leb_spec r e); auto; lia.
          * intros k w0 Hk. destruct (HB k w0 Hk) as [Hle0|(q & c1 & Hc1 & Ek)]; [now left|]. right.
            destruct (Nat.eq_dec q p) as [->|Hne].
            -- exists p, c2. split; [exact S2p|]. rewrite Hp in Hc1. inversion Hc1; subst c1. exact Ek.
            -- exists q, c1. split; [now rewrite S2o|exact Ek].
      - (* empty slot *)
        split; [|lia]. constructor; auto.
        intros e x He Hx. destruct (HA e x He Hx) as (w0 & Hw0 & Hw). exists w0. split; [exact Hw0|].
        assert (e <> r) by (intros ->; change (slot t p = Some x) in Hx; congruence).
        destruct (Nat.leb_spec (S r) e); destruct (Nat.leb_spec r e); auto; lia.
    Qed.

    Lemma sub_fold_inv r : (r <= n)%nat -> forall (t : table) cnt, SInv t r ->
      let '(t', cnt') := fold_left (sub_step Item amount) (map (pos n fp) (rev (seq 0 r))) (t, cnt) in
      SInv t' 0 /\ (cnt' - Z.of_nat (length (active_cells t')) = cnt - Z.of_nat (length (active_cells t)))%Z.
    Proof.
      induction r as [|r IH]; intros Hr t cnt S.
      - simpl. split; [exact S|lia].
      - rewrite seq_S, rev_unit. change (0 + r)%nat with r. cbn [map fold_left].
        pose proof (sub_step_inv t cnt r ltac:(lia) S) as H1.
        destruct (sub_step Item amount (t, cnt) (pos n fp r)) as [t1 cnt1]. destruct H1 as [S1 C1].
        pose proof (IH ltac:(lia) t1 cnt1 S1) as H2.
        destruct (fold_left (sub_step Item amount) (map (pos n fp) (rev (seq 0 r))) (t1, cnt1)) as [t2 cnt2].
        destruct H2 as [S2 C2]. split; [exact S2|lia].
    Qed.
  End Subtract.

  Notation has_empty := (has_empty Item).

  Theorem subtract_kpo_correct (t : table) cnt amount : ProbeInv t -> has_empty t ->
    let '(t', cnt') := subtract_kpo Item t cnt amount in
    ProbeInv t' /\ length t' = length t /\ has_empty t' /\
    Permutation (abs_ents t') (a_purge Item (abs_ents t) amount) /\
    (cnt' - Z.of_nat (length (active_cells t')) = cnt - Z.of_nat (length (active_cells t)))%Z.
  Proof.
    intros Pi [e0 [He0 He0n]].
    set (fp := first_probe Item t (length t - 1)).
    destruct (first_probe_none t (length t - 1)) as [Hfp Hfple]; [exists e0; split; [lia|exact He0]|]. fold fp in Hfp, Hfple.
    assert (Hfpn : (fp < length t)%nat) by lia.
    unfold subtract_kpo. rewrite (probe_order_eq t fp eq_refl Hfpn).
    assert (S0 : SInv t amount fp t (length t)).
    { constructor; auto.
      - intros e c He Hc. exists (cv _ c). split; [exists (pos (length t) fp e), c; auto|].
        replace (length t <=? e)%nat with false by (symmetry; apply Nat.leb_gt; lia). reflexivity.
      - intros k v0 (q & c & Hc & Ek & _). right. exists q, c. auto. }
    pose proof (sub_fold_inv t amount fp Pi Hfpn (length t) (le_n _) t cnt S0) as H.
    destruct (fold_left (sub_step Item amount) (map (pos (length t) fp) (rev (seq 0 (length t)))) (t, cnt)) as [t' cnt'].
    destruct H as [[Pi' Hlen' Hfp' HA HB] C].
    split; [exact Pi'|]. split; [exact Hlen'|]. split; [exists fp; split; [exact Hfp'|lia]|]. split; [|exact C].
    apply perm_of_cells.
    - now apply nodup_abs.
    - apply nodup_purge. now apply nodup_abs.
    - intros k v. rewrite in_abs. unfold a_purge. rewrite filter_In, in_map_iff. split.
      + intros (q & c & Hc & Ek & Ev).
        destruct (pos_surj (length t) fp q Hfpn) as [e [He Eq]]; [rewrite <- Hlen'; exact (slot_lt _ _ _ Hc)|].
        rewrite <- Eq in Hc. destruct (HA e c He Hc) as (v0 & Hv0 & Hval). simpl in Hval.
        split.
        * exists (k, v0). split; [simpl; f_equal; lia|]. apply in_abs. now rewrite <- Ek.
        * simpl. apply Z.ltb_lt. lia.
      + intros [[[k' v0] [E Hin]] Hpos]. simpl in E, Hpos. inversion E. subst k' v. clear E.
        apply Z.ltb_lt in Hpos. apply in_abs in Hin.
        destruct (HB k v0 Hin) as [Hle|(q & c & Hc & Ek)]; [lia|].
        exists q, c. split; [exact Hc|]. split; [exact Ek|].
        destruct (pos_surj (length t) fp q Hfpn) as [e [He Eq]]; [rewrite <- Hlen'; exact (slot_lt _ _ _ Hc)|].
        rewrite <- Eq in Hc. destruct (HA e c He Hc) as (w0 & Hw0 & Hval). simpl in Hval.
        rewrite Ek in Hw0. rewrite (cell_in_fun t _ _ _ Pi Hin Hw0). lia.
  Qed.
End DelProofs.
