(* HllUnionCoupon.v — the gadget (an HLL_8 hll_sketch) under coupon updates, in every mode:
   LIST (8 slots, linear scan), SET (open addressing, growth, promotion) and HLL_8, including the promotions
   list -> set, list -> HLL (lg_k < 8) and set -> HLL.  Main result: [impl_update_ok]. *)
From Coq Require Import ZArith NArith List Bool Lia Permutation.
From DS Require Import Word RunnerLib HllDefs HllProofs HllOpenAddr HllUnionDefs HllUnionBase.
Import ListNotations.
Local Open Scope N_scope.

(* ---------- same_set ---------- *)
Lemma same_set_refl A : same_set A A.
Proof. intros c. tauto. Qed.

Lemma same_set_sym A B : same_set A B -> same_set B A.
Proof. intros H c. symmetry. apply H. Qed.

Lemma same_set_trans A B C : same_set A B -> same_set B C -> same_set A C.
Proof. intros H1 H2 c. rewrite (H1 c). apply H2. Qed.

Lemma same_set_app A B A' B' : same_set A A' -> same_set B B' -> same_set (A ++ B) (A' ++ B').
Proof. intros H1 H2 c. rewrite !in_app_iff, (H1 c), (H2 c). tauto. Qed.

Lemma same_set_absorb A c : In c A -> same_set A (A ++ [c]).
Proof. intros H x. rewrite in_app_iff. simpl. split; [tauto|]. intros [?|[<-|[]]]; auto. Qed.

Lemma same_set_nil C : same_set [] C -> C = [].
Proof. intros H. destruct C as [|c t]; [reflexivity|]. exfalso. apply (H c). simpl. auto. Qed.

Lemma Forall_same_set (P : N -> Prop) A B : same_set A B -> Forall P B -> Forall P A.
Proof. intros H HB. rewrite Forall_forall in *. intros x Hx. apply HB. now apply H. Qed.

(* ---------- the HLL-mode gadget: HLL_8 registers that hold the per-slot max of C; cur_min / num_at_cur_min may be stale
   but never say "empty" ---------- *)
Record ghll (lg : N) (C : list N) (h : hllarr) : Prop := {
  gh_8 : regs8 h;
  gh_lgk : h_lgk h = lg;
  gh_regs : h_bytes h = spec_regs lg C;
  gh_numat : h_numat h <= 2 ^ lg;
  gh_ne : h_curmin h <> 0 \/ h_numat h < 2 ^ lg }.

Lemma ghll_same_set lg A B h : same_set A B -> ghll lg A h -> ghll lg B h.
Proof. intros HS [H8 Hk Hr Hn He]. split; auto. rewrite Hr. now apply spec_regs_same_set. Qed.

Lemma ghll_not_empty lg C h : ghll lg C h -> sk_is_empty (IHll h) = false.
Proof.
  intros [H8 Hk Hr Hn He]. cbn [sk_is_empty]. rewrite Hk.
  destruct (N.eqb_spec (h_curmin h) 0) as [E|E]; [|reflexivity].
  destruct (N.eqb_spec (h_numat h) (2 ^ lg)); [lia|reflexivity].
Qed.

Lemma nonzero_reg lg C c : cok c -> In c C -> exists x, In x (spec_regs lg C) /\ x <> 0.
Proof.
  intros [_ Hv] Hin. pose proof (c_slot_lt lg c) as Hs.
  exists (getN (spec_regs lg C) (c_slot lg c)). split.
  - apply getN_In. now rewrite spec_regs_length.
  - rewrite getN_spec_regs by exact Hs. pose proof (slot_max_ub lg C _ c Hin eq_refl). lia.
Qed.

(* coupon updates of an HLL_8 array *)
Lemma ofold_hll8 cs : forall h, h_ty h = T8 -> lenN (h_bytes h) = 2 ^ h_lgk h ->
  ofold hll_update cs h = Some (merge_list h cs).
Proof.
  unfold merge_list. induction cs as [|c t IH]; intros h Ht Hl; cbn [ofold fold_left]; [reflexivity|].
  unfold hll_update at 1. rewrite Ht.
  destruct (hll8_update_facts h c Hl) as (Eb & Ek & Et & _).
  apply IH; [congruence|]. rewrite Eb, Ek. now rewrite reg_max_upd_length.
Qed.

Lemma hll8_update_honest h c : lenN (h_bytes h) = 2 ^ h_lgk h -> h_numat h = count_eq 0 (h_bytes h) ->
  h_numat (hll8_update h c) = count_eq 0 (h_bytes (hll8_update h c)).
Proof.
  intros Hl Hn. unfold hll8_update. pose proof (c_slot_lt (h_lgk h) c) as Hs.
  destruct (N.ltb_spec (getN (h_bytes h) (c_slot (h_lgk h) c)) (c_val c)) as [Hlt|Hge]; [|exact Hn].
  cbn [h_numat h_bytes h_set_numat kxq_upd h_with_data h_set_bytes].
  apply numat_zero_step; auto. lia.
Qed.

Lemma merge_list_honest cs : forall h, lenN (h_bytes h) = 2 ^ h_lgk h -> h_numat h = count_eq 0 (h_bytes h) ->
  h_numat (merge_list h cs) = count_eq 0 (h_bytes (merge_list h cs)).
Proof.
  unfold merge_list. induction cs as [|c t IH]; intros h Hl Hn; cbn [fold_left]; [exact Hn|].
  destruct (hll8_update_facts h c Hl) as (Eb & Ek & _).
  apply IH; [|now apply hll8_update_honest]. rewrite Eb, Ek. now rewrite reg_max_upd_length.
Qed.

Lemma ghll_update lg C h c : ghll lg C h -> ghll lg (C ++ [c]) (hll8_update h c).
Proof.
  intros [[Ht Hl] Hk Hr Hn He].
  destruct (hll8_update_facts h c Hl) as (Eb & Ek & Et & Ef & Eo & Er & Ec & En).
  split.
  - split; [congruence|]. rewrite Eb, Ek. now rewrite reg_max_upd_length.
  - congruence.
  - rewrite Eb, Hr, Hk. apply spec_regs_snoc.
  - lia.
  - rewrite Ec. destruct He; [now left|right; lia].
Qed.

Lemma ghll_merge_list lg cs : forall C h, ghll lg C h -> ghll lg (C ++ cs) (merge_list h cs).
Proof.
  unfold merge_list. induction cs as [|c t IH]; intros C h H; cbn [fold_left].
  - now rewrite app_nil_r.
  - replace (C ++ c :: t) with ((C ++ [c]) ++ t) by (rewrite <- app_assoc; reflexivity).
    apply IH. now apply ghll_update.
Qed.

(* HllSketchImplFactory::promoteListOrSetToHll for an HLL_8 target *)
Lemma promote_hll_ok lgk cs C : cs <> [] -> Forall cok cs -> same_set cs C ->
  exists h, promote_to_hll lgk T8 cs = Some (IHll h) /\ ghll lgk C h.
Proof.
  intros Hne Hok HS. unfold promote_to_hll.
  set (h0 := hll_new lgk T8 false).
  assert (Hl0 : lenN (h_bytes h0) = 2 ^ h_lgk h0) by (subst h0; cbn [hll_new h_bytes h_lgk arr_bytes]; apply zerosN_length).
  rewrite ofold_hll8 by (auto; reflexivity).
  eexists. split; [reflexivity|].
  destruct (merge_list_facts cs h0 Hl0) as (Eb & Ek & Et & Ef & Eo & Er & Ec & En).
  pose proof (merge_list_honest cs h0 Hl0) as Hh.
  assert (Hbytes : h_bytes (merge_list h0 cs) = spec_regs lgk cs).
  { rewrite Eb. subst h0. cbn [hll_new h_bytes h_lgk arr_bytes]. apply fold_reg_max_spec. }
  assert (Hlen : lenN (h_bytes (merge_list h0 cs)) = 2 ^ lgk) by (rewrite Hbytes; apply spec_regs_length).
  split; cbn [h_set_flags h_lgk h_ty h_bytes h_numat h_curmin].
  - unfold regs8. cbn [h_set_flags h_lgk h_ty h_bytes]. split; [now rewrite Et|]. now rewrite Ek.
  - exact Ek.
  - rewrite Hbytes. now apply spec_regs_same_set.
  - rewrite En. subst h0. cbn [hll_new h_numat]. lia.
  - right. rewrite Hh.
    + destruct cs as [|c t]; [congruence|]. inversion Hok; subst.
      destruct (nonzero_reg lgk (c :: t) c) as (x & Hx & Hnz); [assumption|now left|].
      rewrite Hbytes. rewrite <- (spec_regs_length lgk (c :: t)). now apply count_zero_lt with x.
    + subst h0. cbn [hll_new h_numat h_bytes arr_bytes]. now rewrite count_eq_zeros.
Qed.

(* ---------- LIST mode ---------- *)
Record list_ok (lgk : N) (C : list N) (l : clist) : Prop := {
  lo_lgk : l_lgk l = lgk;
  lo_arr : exists cs, l_arr l = cs ++ repeat 0 (8 - length cs) /\ (length cs < 8)%nat /\ NoDup cs /\
                      same_set cs C /\ l_cnt l = lenN cs }.

Lemma list_scan_hit cs : forall z c, (forall x, In x cs -> x <> 0) -> In c cs ->
  list_scan (cs ++ z) c = Some (cs ++ z, false).
Proof.
  induction cs as [|x t IH]; intros z c Hnz Hin; [contradiction|]. cbn [app list_scan].
  destruct (N.eqb_spec x 0) as [E|_]; [exfalso; apply (Hnz x); simpl; auto|].
  destruct (N.eqb_spec x c) as [E|Hne]; [reflexivity|].
  destruct Hin as [E|Hin]; [congruence|].
  rewrite IH; auto. intros y Hy. apply Hnz. now right.
Qed.

Lemma list_scan_miss cs : forall m c, (forall x, In x cs -> x <> 0) -> ~ In c cs ->
  list_scan (cs ++ repeat 0 (S m)) c = Some (cs ++ c :: repeat 0 m, true).
Proof.
  induction cs as [|x t IH]; intros m c Hnz Hin.
  - reflexivity.
  - cbn [app list_scan]. destruct (N.eqb_spec x 0) as [E|_]; [exfalso; apply (Hnz x); simpl; auto|].
    destruct (N.eqb_spec x c) as [E|Hne]; [exfalso; apply Hin; now left|].
    rewrite IH; auto.
    + intros y Hy. apply Hnz. now right.
    + intros H. apply Hin. now right.
Qed.

Lemma nonzero_app a b : nonzero (a ++ b) = nonzero a ++ nonzero b.
Proof. apply filter_app. Qed.

Lemma nonzero_all cs : (forall x, In x cs -> x <> 0) -> nonzero cs = cs.
Proof.
  induction cs as [|x t IH]; intros H; cbn [nonzero filter]; [reflexivity|].
  destruct (N.eqb_spec x 0) as [E|_]; [exfalso; apply (H x); simpl; auto|].
  cbn [negb]. f_equal. apply IH. intros y Hy. apply H. now right.
Qed.

Lemma nonzero_repeat0 m : nonzero (repeat 0 m) = [].
Proof. induction m; cbn [repeat nonzero filter]; auto. Qed.

Lemma list_ok_new lgk ty : list_ok lgk [] (list_new lgk ty).
Proof.
  split; [reflexivity|]. exists []. cbn [app length list_new l_arr l_cnt]. repeat split.
  - lia.
  - constructor.
  - tauto.
  - tauto.
Qed.

Lemma list_ok_coupons lgk C l : Forall cok C -> list_ok lgk C l ->
  same_set (nonzero (l_arr l)) C /\ NoDup (nonzero (l_arr l)) /\ (l_cnt l =? 0) = match C with [] => true | _ => false end.
Proof.
  intros HC [_ (cs & Ea & Hlen & Hnd & HS & Hc)].
  assert (Hnz : forall x, In x cs -> x <> 0).
  { intros x Hx. apply cok_nz. rewrite Forall_forall in HC. apply HC. now apply HS. }
  rewrite Ea, nonzero_app, nonzero_repeat0, app_nil_r, (nonzero_all cs Hnz).
  split; [exact HS|]. split; [exact Hnd|]. rewrite Hc.
  destruct cs as [|x t].
  - apply same_set_nil in HS. now rewrite HS.
  - destruct C as [|c r]; [exfalso; apply (HS x); simpl; auto|]. unfold lenN. cbn [length]. now destruct (N.eqb_spec (N.of_nat (S (length t))) 0); [lia|].
Qed.

(* ---------- SET mode ---------- *)
Definition skey (e : N) : N := e.
Definition siskey (k e : N) : bool := N.eqb k e.
Definition shome (lg k : N) : N := N.land k (N.ones lg).

Lemma siskey_spec k e : siskey k e = true <-> skey e = k.
Proof. unfold siskey, skey. rewrite N.eqb_eq. split; congruence. Qed.

Lemma set_stride_odd lg k : N.odd (set_stride lg k) = true.
Proof. unfold set_stride. rewrite <- N.bit0_odd, N.lor_spec. apply orb_true_r. Qed.

Lemma shome_lt lg k : shome lg k < 2 ^ lg.
Proof. unfold shome. rewrite N.land_ones. apply N.mod_lt, N.pow_nonzero. discriminate. Qed.

Definition sfind (lg : N) := find lg siskey (shome lg) (set_stride lg).
Definition stinv (lg : N) := tinv lg skey (shome lg) (set_stride lg).

Lemma set_find_eq arr lg c : set_find arr lg c = sfind lg c arr.
Proof. reflexivity. Qed.

Record set_ok (lgk : N) (C : list N) (s : cset) : Prop := {
  so_lgk : s_lgk s = lgk;
  so_lg5 : 5 <= s_lg s;
  so_lgm : s_lg s + 3 <= lgk;
  so_tinv : stinv (s_lg s) (s_arr s);
  so_cnt : s_cnt s = lenN (nonzero (s_arr s));
  so_load : 4 * s_cnt s <= 3 * 2 ^ s_lg s;
  so_nodup : NoDup (nonzero (s_arr s));
  so_set : same_set (nonzero (s_arr s)) C }.

Lemma pow2_ge32 lg : 5 <= lg -> 32 <= 2 ^ lg.
Proof. intros H. change 32 with (2 ^ 5). apply N.pow_le_mono_r; lia. Qed.

Lemma set_ok_new lgk ty : 8 <= lgk -> set_ok lgk [] (set_new lgk ty).
Proof.
  intros H. split; cbn [set_new s_lgk s_lg s_cnt s_arr]; try lia; try reflexivity.
  - change 32 with (2 ^ 5). apply tinv_zeros.
  - change (nonzero (zerosN 32)) with (@nil N). constructor.
  - change (nonzero (zerosN 32)) with (@nil N). apply same_set_refl.
Qed.

Ltac oa L := apply (L _ skey siskey siskey_spec _ _ (set_stride_odd _) (shome_lt _)).

Lemma set_insert_ok lgk C s c : Forall cok C -> set_ok lgk C s -> cok c ->
  exists s' b, set_insert s c = Some (s', b) /\ s_lgk s' = lgk /\ s_ty s' = s_ty s /\
    (b = false -> set_ok lgk (C ++ [c]) s') /\
    (b = true -> 3 * 2 ^ s_lg s < 4 * (s_cnt s + 1) /\ NoDup (nonzero (s_arr s')) /\
                 same_set (nonzero (s_arr s')) (C ++ [c])).
Proof.
  intros HC [Hk H5 Hm Ht Hc Hld Hnd HS] Hcok. pose proof (cok_nz c Hcok) as Hcnz.
  pose proof (pow2_ge32 _ H5) as H32.
  assert (HlenA : lenN (s_arr s) = 2 ^ s_lg s) by (destruct Ht as (Hl & _); exact Hl).
  unfold set_insert. rewrite set_find_eq. destruct (sfind (s_lg s) c (s_arr s)) as [i|i|] eqn:Ef.
  - (* already there *)
    exists s, false. split; [reflexivity|]. split; [exact Hk|]. split; [reflexivity|]. split; [|discriminate]. intros _.
    assert (Hs : (s_lg s < 2 ^ s_lg s -> True) -> i < 2 ^ s_lg s /\ getN (s_arr s) i <> 0 /\ skey (getN (s_arr s) i) = c).
    { intros _. revert Ef. unfold sfind. oa find_Found_sound. exact HlenA. }
    destruct (Hs (fun _ => I)) as (Hi & Hne & Hkey). unfold skey in Hkey.
    split; auto. apply same_set_trans with C; [exact HS|]. apply same_set_absorb. apply HS.
    apply nonzero_In. split; [|congruence]. rewrite <- Hkey. apply getN_In. lia.
  - (* inserted into the empty cell *)
    assert (Hp : exists j0, i < 2 ^ s_lg s /\ getN (s_arr s) i = 0 /\ i = pr (s_lg s) (shome (s_lg s)) (set_stride (s_lg s)) c j0 /\
                 nonempty_before (s_lg s) (shome (s_lg s)) (set_stride (s_lg s)) (s_arr s) c j0).
    { revert Ef. unfold sfind. oa find_Empty_path. exact HlenA. }
    destruct Hp as (j0 & Hi & Hz & _ & _).
    assert (Habs : absent (s_lg s) skey c (s_arr s)).
    { revert Ef. unfold sfind. oa find_Empty_absent. exact Ht. }
    assert (Hnin : ~ In c (nonzero (s_arr s))).
    { intros Hin. apply nonzero_In in Hin. destruct Hin as [Hin _]. apply In_getN in Hin.
      destruct Hin as (i' & Hi' & E). apply (Habs i'); [lia|congruence|exact E]. }
    assert (Ht' : stinv (s_lg s) (setN (s_arr s) i c)).
    { unfold stinv. oa insert_tinv; [exact Ht|exact Hcnz|exact Ef]. }
    destruct (nonzero_fill (s_arr s) i c) as (l1 & l2 & E1 & E2); [lia|exact Hz|exact Hcnz|].
    assert (Hnd' : NoDup (nonzero (setN (s_arr s) i c))).
    { rewrite E2. apply NoDup_Add with (a := c) (l := l1 ++ l2); [apply Add_app|]. split; [now rewrite <- E1|now rewrite <- E1]. }
    assert (HS' : same_set (nonzero (setN (s_arr s) i c)) (C ++ [c])).
    { intros x. rewrite E2, !in_app_iff. cbn [In]. rewrite <- (HS x), E1, in_app_iff. tauto. }
    assert (Hcnt' : s_cnt s + 1 = lenN (nonzero (setN (s_arr s) i c))).
    { rewrite Hc, E1, E2. unfold lenN. rewrite !app_length. cbn [length]. lia. }
    rewrite lenN_setN, HlenA.
    destruct (N.ltb_spec (3 * 2 ^ s_lg s) (4 * (s_cnt s + 1))) as [Hgrow|Hfit].
    + destruct (N.eqb_spec (s_lg s) (s_lgk s - 3)) as [Eprom|Nprom].
      * eexists _, true. split; [reflexivity|]. cbn [s_lgk s_ty s_arr]. split; [exact Hk|]. split; [reflexivity|].
        split; [discriminate|]. intros _. auto.
      * (* grow to twice the size *)
        set (lg' := s_lg s + 1).
        assert (Hre : exists acc', ofold (rehash_step lg' skey siskey (shome lg') (set_stride lg'))
                                         (nonzero (setN (s_arr s) i c)) (zerosN (2 ^ lg')) = Some acc' /\
                                   stinv lg' acc' /\
                                   Permutation (nonzero acc') (nonzero (setN (s_arr s) i c) ++ nonzero (zerosN (2 ^ lg')))).
        { unfold stinv. oa rehash_ok.
          - apply tinv_zeros.
          - intros e He. apply nonzero_In in He. tauto.
          - unfold skey. now rewrite map_id.
          - intros e x _ Hx. rewrite nonzero_zeros in Hx. contradiction.
          - rewrite nonzero_zeros. change (lenN []) with 0. rewrite <- Hcnt'. subst lg'.
            rewrite N.pow_add_r. change (2 ^ 1) with 2. lia. }
        destruct Hre as (acc' & Hfold & Htinv & Hperm). rewrite nonzero_zeros, app_nil_r in Hperm.
        unfold set_regrow. fold lg'.
        change (ofold (fun na e => match set_find na lg' e with Empty i0 => Some (setN na i0 e) | _ => None end))
          with (ofold (rehash_step lg' skey siskey (shome lg') (set_stride lg'))).
        rewrite Hfold. eexists _, false. split; [reflexivity|]. cbn [s_lgk s_ty]. split; [exact Hk|]. split; [reflexivity|].
        split; [|discriminate]. intros _.
        split; cbn [s_lgk s_lg s_cnt s_arr]; auto.
        -- subst lg'. lia.
        -- subst lg'. lia.
        -- rewrite Hcnt'. unfold lenN. now rewrite (Permutation_length Hperm).
        -- subst lg'. rewrite N.pow_add_r. change (2 ^ 1) with 2. lia.
        -- apply Permutation_NoDup with (nonzero (setN (s_arr s) i c)); [now apply Permutation_sym|exact Hnd'].
        -- intros x. rewrite <- (HS' x). split; apply Permutation_in; [exact Hperm|now apply Permutation_sym].
    + eexists _, false. split; [reflexivity|]. cbn [s_lgk s_ty]. split; [exact Hk|]. split; [reflexivity|].
      split; [|discriminate]. intros _. split; cbn [s_lgk s_lg s_cnt s_arr]; auto.
  - exfalso. revert Ef. unfold sfind. oa find_not_Fail; [exact Ht|]. rewrite <- Hc. lia.
Qed.

(* HllSketchImplFactory::promoteListToSet: at most 8 coupons go into the fresh 32-cell set *)
Lemma promote_set_fold lgk ty cs : forall acc C, Forall cok C -> Forall cok cs -> set_ok lgk C acc -> s_ty acc = ty ->
  s_cnt acc + lenN cs <= 8 ->
  exists s', ofold (fun s c => match set_insert s c with Some (s', _) => Some s' | None => None end) cs acc = Some s' /\
             set_ok lgk (C ++ cs) s' /\ s_ty s' = ty.
Proof.
  induction cs as [|c t IH]; intros acc C HC Hcs Hok Hty Hn; cbn [ofold].
  - exists acc. now rewrite app_nil_r.
  - inversion Hcs as [|? ? Hc Ht]; subst.
    destruct (set_insert_ok lgk C acc c HC Hok Hc) as (s' & b & E & Hk & Hty' & Hf & Htr). rewrite E.
    assert (Hl : lenN (c :: t) = 1 + lenN t) by (unfold lenN; cbn [length]; lia).
    destruct b.
    + exfalso. destruct (Htr eq_refl) as (Hgrow & _). pose proof (pow2_ge32 _ (so_lg5 _ _ _ Hok)). lia.
    + specialize (Hf eq_refl).
      replace (C ++ c :: t) with ((C ++ [c]) ++ t) by (rewrite <- app_assoc; reflexivity).
      apply IH; auto.
      * apply Forall_app. split; auto.
      * assert (Hc' : s_cnt s' <= s_cnt acc + 1).
        { rewrite (so_cnt _ _ _ Hf), (so_cnt _ _ _ Hok).
          (* distinct elements: the new set holds at most one more *)
          pose proof (so_nodup _ _ _ Hf) as Hnd. pose proof (so_set _ _ _ Hf) as HS1. pose proof (so_set _ _ _ Hok) as HS0.
          assert (Hincl : incl (nonzero (s_arr s')) (c :: nonzero (s_arr acc))).
          { intros x Hx. apply HS1 in Hx. apply in_app_iff in Hx. destruct Hx as [Hx|[<-|[]]]; [right; now apply HS0|now left]. }
          pose proof (NoDup_incl_length Hnd Hincl) as Hlen. unfold lenN. cbn [length] in Hlen. lia. }
        lia.
Qed.

(* ---------- the gadget in any mode ---------- *)
Definition cmode_ok (lgk : N) (C : list N) (i : impl) : Prop :=
  match i with
  | IList l => list_ok lgk C l /\ l_ty l = T8
  | ISet s => set_ok lgk C s /\ s_ty s = T8
  | IHll h => ghll lgk C h
  end.

Theorem impl_update_ok lgk C i c : Forall cok C -> cmode_ok lgk C i -> cok c ->
  exists i', impl_update i c = Some i' /\ cmode_ok lgk (C ++ [c]) i'.
Proof.
  intros HC Hok Hc. pose proof (cok_nz c Hc) as Hcnz.
  assert (HC' : Forall cok (C ++ [c])) by (apply Forall_app; split; auto).
  destruct i as [l|s|h]; cbn [impl_update cmode_ok] in *.
  - (* LIST *)
    destruct Hok as [[Hk (cs & Ea & Hlen & Hnd & HS & Hcnt)] Hty].
    assert (Hnz : forall x, In x cs -> x <> 0).
    { intros x Hx. apply cok_nz. rewrite Forall_forall in HC. apply HC. now apply HS. }
    unfold list_update. rewrite Ea.
    destruct (in_dec N.eq_dec c cs) as [Hin|Hnin].
    + rewrite list_scan_hit by auto. eexists. split; [reflexivity|]. cbn [cmode_ok]. split; [|exact Hty].
      split; [exact Hk|]. exists cs. repeat split; auto; try apply HS; intros Hx.
      * apply in_app_iff. left. now apply HS.
      * apply in_app_iff in Hx. destruct Hx as [Hx|[<-|[]]]; [now apply HS|exact Hin].
    + destruct (8 - length cs)%nat as [|m] eqn:Em; [lia|].
      rewrite list_scan_miss by auto.
      assert (Hlen' : lenN (cs ++ c :: repeat 0 m) = 8).
      { unfold lenN. rewrite app_length. cbn [length]. rewrite repeat_length. lia. }
      rewrite Hlen', Hcnt.
      assert (HS' : same_set (cs ++ [c]) (C ++ [c])) by (apply same_set_app; [exact HS|apply same_set_refl]).
      assert (Hnd' : NoDup (cs ++ [c])).
      { apply NoDup_Add with (a := c) (l := cs); [|split; assumption]. rewrite <- (app_nil_r cs) at 1. apply Add_app. }
      destruct (N.eqb_spec (lenN cs + 1) 8) as [Efull|Nfull].
      * assert (m = 0%nat) by (unfold lenN in Efull; lia). subst m. cbn [repeat].
        assert (Enz : nonzero (cs ++ [c]) = cs ++ [c]).
        { apply nonzero_all. intros x Hx. apply in_app_iff in Hx. destruct Hx as [Hx|[<-|[]]]; auto. }
        rewrite Enz, Hty.
        assert (Hok' : Forall cok (cs ++ [c])) by (apply Forall_same_set with (C ++ [c]); assumption).
        destruct (N.ltb_spec (l_lgk l) 8) as [Hsmall|Hbig].
        -- destruct (promote_hll_ok (l_lgk l) (cs ++ [c]) (C ++ [c])) as (h & E & Hg); auto.
           { destruct cs; discriminate. }
           rewrite E. eexists. split; [reflexivity|]. cbn [cmode_ok]. now rewrite <- Hk.
        -- unfold promote_to_set.
           destruct (promote_set_fold (l_lgk l) T8 (cs ++ [c]) (set_new (l_lgk l) T8) []) as (s' & E & Hs' & Hty'); auto.
           { apply set_ok_new. lia. }
           { cbn [set_new s_cnt]. unfold lenN in *. rewrite app_length. cbn [length]. lia. }
           rewrite E. eexists. split; [reflexivity|]. cbn [cmode_ok app] in *. split; [|exact Hty'].
           rewrite <- Hk. destruct Hs'. split; auto. eapply same_set_trans; eauto.
      * eexists. split; [reflexivity|]. cbn [cmode_ok l_lgk l_ty l_cnt l_arr]. split; [|exact Hty].
        split; [exact Hk|]. exists (cs ++ [c]). cbn [l_arr l_cnt]. rewrite app_length. cbn [length].
        split; [rewrite <- app_assoc; cbn [app]; repeat f_equal; lia|].
        split; [unfold lenN in Nfull; lia|]. split; [exact Hnd'|]. split; [exact HS'|].
        unfold lenN. rewrite app_length. cbn [length]. lia.
  - (* SET *)
    destruct Hok as [Hs Hty]. unfold set_update.
    destruct (set_insert_ok lgk C s c HC Hs Hc) as (s' & b & E & Hk & Hty' & Hf & Htr). rewrite E.
    destruct b.
    + destruct (Htr eq_refl) as (_ & Hnd & HS). rewrite Hk, Hty', Hty.
      destruct (promote_hll_ok lgk (nonzero (s_arr s')) (C ++ [c])) as (h & Eh & Hg); auto.
      * intros En. destruct (HS c) as [_ Hback]. rewrite En in Hback. apply Hback. apply in_app_iff. right. now left.
      * apply Forall_same_set with (C ++ [c]); assumption.
      * rewrite Eh. eexists. split; [reflexivity|]. exact Hg.
    + eexists. split; [reflexivity|]. cbn [cmode_ok]. split; [now apply Hf|congruence].
  - (* HLL_8 *)
    destruct (gh_8 _ _ _ Hok) as [Ht _]. unfold hll_update. rewrite Ht.
    eexists. split; [reflexivity|]. cbn [cmode_ok]. now apply ghll_update.
Qed.

Lemma impl_updates_ok lgk cs : forall C i, Forall cok C -> Forall cok cs -> cmode_ok lgk C i ->
  exists i', ofold impl_update cs i = Some i' /\ cmode_ok lgk (C ++ cs) i'.
Proof.
  induction cs as [|c t IH]; intros C i HC Hcs Hok; cbn [ofold].
  - exists i. now rewrite app_nil_r.
  - inversion Hcs; subst.
    destruct (impl_update_ok lgk C i c HC Hok) as (i1 & E & Hok1); auto. rewrite E.
    replace (C ++ c :: t) with ((C ++ [c]) ++ t) by (rewrite <- app_assoc; reflexivity).
    apply IH; auto. apply Forall_app. split; auto.
Qed.

Lemma sk_update_impl i c : c <> 0 -> sk_update i c = impl_update i c.
Proof. intros H. unfold sk_update. destruct (N.eqb_spec c 0); [contradiction|]. destruct i; reflexivity. Qed.

Lemma cmode_same_set lgk A B i : same_set A B -> cmode_ok lgk A i -> cmode_ok lgk B i.
Proof.
  intros HS. destruct i as [l|s|h]; cbn [cmode_ok].
  - intros [[Hk (cs & Ea & Hl & Hnd & HS0 & Hc)] Hty]. split; [|exact Hty]. split; [exact Hk|].
    exists cs. repeat split; auto; intros Hx; [apply HS, HS0, Hx|apply HS0, HS, Hx].
  - intros [[] Hty]. split; [|exact Hty]. split; auto. eapply same_set_trans; eauto.
  - now apply ghll_same_set.
Qed.
