(* LedgerCore.v — the effect ledger of C19 (definitions only).
   An object that hand-manages raw buffers emits, for every allocate / deallocate / placement-new /
   explicit destructor call of the C++ code path, one effect.  The ledger is the independent judge:
   it keeps, per live block, its size and the set of constructed slots (a bitmap) and REJECTS
   (returns None) a release with a size different from the allocation, a release of a block that is not
   live or that still holds constructed slots, a construction over a constructed slot or outside the
   block, a destruction of (or a read from) an unconstructed slot.
   Block ids are names local to one object (ownership transfer = the object's ledger moves with it). *)
From Coq Require Import ZArith NArith List Bool Lia.
Import ListNotations.
Local Open Scope N_scope.

Inductive eff :=
| Alloc (ty : bool) (b n : N)          (* allocate n slots as block b; ty = the element type bears items *)
| Dealloc (b n : N)                    (* deallocate(block b, n) *)
| Cons (b lo n : N)                    (* placement-new of slots [lo, lo+n) from values outside the ledger *)
| Dest (b lo n : N)                    (* explicit destructor calls on slots [lo, lo+n) *)
| MovD (sb slo db dlo n : N)           (* new (dst+i) T(std::move(src[i])); src[i].~T()  within this object *)
| FromX (sb slo db dlo n : N)          (* new (dst+i) T(other.src[i]) / T(std::move(other.src[i])): the source slots
                                          belong to ANOTHER object and stay constructed *)
| Touch (b lo n : N).                  (* assignment to / swap of / read of the objects in slots [lo, lo+n): they must be constructed *)

Definition bitmap := list bool.
Record blk := { b_ty : bool; b_size : N; b_map : bitmap }.
Definition ledger := list (N * blk).

Definition repeatN {A} (x : A) (n : N) : list A := repeat x (N.to_nat n).

(* from position 0: the next c slots must all hold (negb v); they are set to v *)
Fixpoint fill_here (v : bool) (c : nat) (m : bitmap) : option bitmap :=
  match c with
  | O => Some m
  | S c' => match m with
            | [] => None
            | x :: t => if Bool.eqb x v then None
                        else match fill_here v c' t with Some t' => Some (v :: t') | None => None end
            end
  end.

Fixpoint chk_fill_nat (v : bool) (lo c : nat) (m : bitmap) : option bitmap :=
  match lo with
  | O => fill_here v c m
  | S lo' => match m with
             | [] => None
             | x :: t => match chk_fill_nat v lo' c t with Some t' => Some (x :: t') | None => None end
             end
  end.

Definition chk_fill (v : bool) (lo c : N) (m : bitmap) : option bitmap :=
  chk_fill_nat v (N.to_nat lo) (N.to_nat c) m.

(* are slots [lo, lo+c) all constructed? *)
Definition all_true (lo c : N) (m : bitmap) : bool :=
  let seg := firstn (N.to_nat c) (skipn (N.to_nat lo) m) in
  (length seg =? N.to_nat c)%nat && forallb (fun x => x) seg.

Definition none_true (m : bitmap) : bool := forallb negb m.

Fixpoint lookup (L : ledger) (b : N) : option blk :=
  match L with
  | [] => None
  | (k, x) :: t => if k =? b then Some x else lookup t b
  end.

Fixpoint remove (L : ledger) (b : N) : ledger :=
  match L with
  | [] => []
  | (k, x) :: t => if k =? b then remove t b else (k, x) :: remove t b
  end.

Fixpoint replace (L : ledger) (b : N) (y : blk) : ledger :=
  match L with
  | [] => []
  | (k, x) :: t => if k =? b then (k, y) :: t else (k, x) :: replace t b y
  end.

Definition upd_map (L : ledger) (b : N) (f : bitmap -> option bitmap) : option ledger :=
  match lookup L b with
  | None => None
  | Some x => match f (b_map x) with
              | None => None
              | Some m' => Some (replace L b {| b_ty := b_ty x; b_size := b_size x; b_map := m' |})
              end
  end.

Definition src_ok (L : ledger) (b lo n : N) : bool :=
  match lookup L b with Some x => all_true lo n (b_map x) | None => false end.

(* [X] = ledger of the other object an operation reads from (FromX); [L] = this object's ledger *)
Definition apply (X L : ledger) (e : eff) : option ledger :=
  match e with
  | Alloc ty b n =>
      match lookup L b with
      | Some _ => None
      | None => Some ((b, {| b_ty := ty; b_size := n; b_map := repeatN false n |}) :: L)
      end
  | Dealloc b n =>
      match lookup L b with
      | Some x => if (b_size x =? n) && none_true (b_map x) then Some (remove L b) else None
      | None => None
      end
  | Cons b lo n => upd_map L b (chk_fill true lo n)
  | Dest b lo n => upd_map L b (chk_fill false lo n)
  | MovD sb slo db dlo n =>
      if src_ok L sb slo n then
        match upd_map L db (chk_fill true dlo n) with
        | Some L1 => upd_map L1 sb (chk_fill false slo n)
        | None => None
        end
      else None
  | FromX sb slo db dlo n =>
      if src_ok X sb slo n then upd_map L db (chk_fill true dlo n) else None
  | Touch b lo n => if src_ok L b lo n then Some L else None
  end.

Fixpoint apply_all (X L : ledger) (es : list eff) : option ledger :=
  match es with
  | [] => Some L
  | e :: r => match apply X L e with Some L' => apply_all X L' r | None => None end
  end.

(* what the harness observes at rest *)
Definition count_true (m : bitmap) : N := N.of_nat (length (filter (fun x => x) m)).
Definition live_slots (L : ledger) : N := fold_right (fun p acc => count_true (b_map (snd p)) + acc) 0 L.
Definition item_slots (L : ledger) : N :=
  fold_right (fun p acc => (if b_ty (snd p) then b_size (snd p) else 0) + acc) 0 L.
Definition all_slots (L : ledger) : N := fold_right (fun p acc => b_size (snd p) + acc) 0 L.

(* the constructed range [lo, hi) of a block of [size] slots *)
Definition rng (size lo hi : N) : bitmap :=
  repeatN false lo ++ repeatN true (hi - lo) ++ repeatN false (size - hi).

Definition mkblk (ty : bool) (size lo hi : N) : blk := {| b_ty := ty; b_size := size; b_map := rng size lo hi |}.
