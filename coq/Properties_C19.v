(* Properties_C19.v — value semantics and allocator hygiene: the bookkeeping part (effect ledger).
   Statements only; proofs live in LedgerCoreProofs.v, LedgerKllProofs.v, LedgerTupProofs.v, LedgerProofs.v.
   [reach o]: o is an object of one of the six modelled families (KLL items_, theta/tuple entries_, frequent-items
   keys_/values_/states_, REQ compactor items_, var_opt data_, the hll_sketch / hll_union-gadget impl blocks) produced by ANY history of construction, update, copy construction, copy assignment (incl.
   self-assignment), merge by reference / by move, reset, trim (LedgerProofs.reach).  The machine-level theorems
   (C19_step..., C19_run..., C19_destroy_all...) are about LedgerDefs.step / run themselves — the functions extracted
   and run against the C++ harness — for ANY script and ANY environment values (hashes), registers, moves, swaps and
   follow-ups included.  "aborted": the model reached one of its Abort outcomes at that step (a postcondition the C++
   relies on without checking — general_compress space bound, map resize/purge/iterator consistency — failed). *)
From Coq Require Import ZArith NArith List Bool Lia.
From DS Require Import RunnerLib LedgerCore LedgerCoreProofs LedgerKll LedgerKllProofs LedgerTup LedgerTupProofs LedgerFi LedgerFiProofs LedgerReq LedgerReqProofs LedgerVo LedgerVoProofs LedgerHll LedgerHllProofs LedgerDefs LedgerProofs LedgerMachineProofs.
Import ListNotations.
Local Open Scope Z_scope.

(* -- what "accepted by the ledger" means -- *)
Theorem C19_accepted_dealloc_matches_alloc : forall X L b n L', apply X L (Dealloc b n) = Some L' ->
  exists x, lookup L b = Some x /\ b_size x = n /\ none_true (b_map x) = true.
Proof. exact accepted_dealloc. Qed.

Theorem C19_accepted_construct_hits_unconstructed_slots : forall X L b lo n L', apply X L (Cons b lo n) = Some L' ->
  exists x x', lookup L b = Some x /\ lookup L' b = Some x' /\
    forall i, (N.to_nat lo <= i < N.to_nat lo + N.to_nat n)%nat -> nth i (b_map x) true = false /\ nth i (b_map x') false = true.
Proof. exact accepted_cons. Qed.

Theorem C19_accepted_destroy_hits_constructed_slots : forall X L b lo n L', apply X L (Dest b lo n) = Some L' ->
  exists x x', lookup L b = Some x /\ lookup L' b = Some x' /\
    forall i, (N.to_nat lo <= i < N.to_nat lo + N.to_nat n)%nat -> nth i (b_map x) false = true /\ nth i (b_map x') true = false.
Proof. exact accepted_dest. Qed.

Theorem C19_accepted_alloc_is_fresh : forall X L ty b n L', apply X L (Alloc ty b n) = Some L' ->
  lookup L b = None /\ lookup L' b = Some (mkblk ty n 0 0).
Proof. exact accepted_alloc. Qed.

(* -- every reachable object: its ledger is exactly its buffer with exactly the retained slots constructed -- *)
Theorem C19_ledger_exact_at_rest : forall o, reach o -> ObjInv o.
Proof. exact reach_inv. Qed.

Theorem C19_live_items_eq_retained : forall o, reach o ->
  live_slots (o_led o) = constructed_of o /\ item_slots (o_led o) = capacity_of o.
Proof. intros o H. exact (inv_live o (reach_inv o H)). Qed.

(* -- the effect log of the next operation is accepted (flag false), whatever the operation and its arguments -- *)
Theorem C19_update_accepted : forall o v w e, reach o ->
  match obj_update o v w e with UDone _ bad => bad = false | URefused _ bad => bad = false \/ update_aborts o v w e end.
Proof.
  intros o v w e H. pose proof (obj_update_ok o v w e (reach_inv o H)) as H1.
  destruct (obj_update o v w e); tauto.
Qed.

Theorem C19_copy_accepted : forall o c bad, reach o -> obj_copy o = Some (c, bad) -> bad = false.
Proof. intros o c bad H E. exact (proj2 (obj_copy_ok o c bad (reach_inv o H) E)). Qed.

(* copy assignment, including r = r *)
Theorem C19_copy_assign_accepted : forall r s o' bad, reach r -> reach s -> obj_copy_assign r s = Some (o', bad) -> bad = false.
Proof. intros r s o' bad Hr Hs E. exact (proj2 (obj_copy_assign_ok r s o' bad (reach_inv r Hr) (reach_inv s Hs) E)). Qed.

Theorem C19_reset_trim_accepted : forall o e o' bad, reach o -> (obj_reset o e = Some (o', bad) \/ obj_trim o = Some (o', bad)) -> bad = false.
Proof.
  intros o e o' bad H [E|E].
  - exact (proj2 (obj_reset_ok o e o' bad (reach_inv o H) E)).
  - exact (proj2 (obj_trim_ok o o' bad (reach_inv o H) E)).
Qed.

(* merge by reference or by move: accepted; a flag can only come from the model outcome Abort (a violated
   postcondition of general_compress: in the C++ that is an out-of-bounds access, outside what a ledger can judge) *)
Theorem C19_merge_accepted : forall r s e u, reach r -> reach s -> obj_merge r s e = Some u ->
  match u with UDone _ bad => bad = false | URefused _ bad => bad = false \/ merge_aborts r s end.
Proof.
  intros r s e u Hr Hs E. pose proof (obj_merge_ok r s e u (reach_inv r Hr) (reach_inv s Hs) E) as H.
  destruct u; tauto.
Qed.

(* -- destruction: accepted, and the object's ledger ends EMPTY (no live block, no live item) -- *)
Theorem C19_destroy_balanced : forall o, reach o -> obj_destroy o = false.
Proof. intros o H. exact (obj_destroy_ok o (reach_inv o H)). Qed.

(* a moved-from object owns nothing and its destruction touches nothing *)
Theorem C19_moved_from_destroy : forall o, obj_destroy (obj_moved_from o) = false.
Proof. exact obj_destroy_moved_from. Qed.

(* -- the machine itself, for ANY script -- *)
Theorem C19_step_keeps_ledgers_exact : forall rs o e rs' out, RInv rs -> step rs o e = (rs', out) ->
  RInv rs' /\ (flag_of out = 0 \/ aborted rs o e).
Proof. exact step_ok. Qed.

Theorem C19_run_flags_zero : forall ops,
  Forall (fun x => let '(rs0, (o, e), out) := x in RInv rs0 /\ (flag_of out = 0 \/ aborted rs0 o e)) (states [] ops) /\
  run ops = map (fun x => snd x) (states [] ops).
Proof. intros ops. split; [apply run_ok; constructor|apply run_states]. Qed.

Theorem C19_destroy_all_balanced : forall rs e, RInv rs -> step rs [99] e = ([], ([0; 0; 0; 0; 0], [])).
Proof. exact destroy_all_balanced. Qed.

Theorem C19_at_rest_exact : forall rs r o, RInv rs -> reg_get rs r = Some o ->
  live_slots (o_led o) = constructed_of o /\ item_slots (o_led o) = capacity_of o.
Proof. exact at_rest_exact. Qed.

(* non-vacuity: a concrete history through the extracted machine — KLL k=8 with 40 updates (two buffer growths and
   several compactions), copy, merge by move with the source destroyed, tuple table with resizes, a frequent-items map
   with a resize and purges, its copy and merges, destroy all —
   never raises the flag, reports live items = retained + min/max, and ends balanced *)
Definition demo : list opline :=
  [([1; 0; 0; 8; 0], [])] ++ map (fun i => ([2; 0; Z.of_nat i; 1; 0], [])) (seq 0 40) ++
  [([3; 1; 0], []); ([2; 1; 5; 1; 1], []); ([8; 0; 1; 0; 0], []);
   ([1; 2; 1; 5; 1], [])] ++ map (fun i => ([2; 2; Z.of_nat i; 1; 0], [Z.of_nat (1000 + 7 * i)])) (seq 0 40) ++
  [([5; 2; 2], []); ([9; 2], []); ([1; 3; 2; 4; 3], [])] ++
  map (fun i => ([2; 3; Z.of_nat i; 1 + Z.of_nat (i mod 3); 0], [Z.of_nat (i * 7 + 3)])) (seq 0 30) ++
  [([3; 4; 3], []); ([7; 4; 3], []); ([8; 3; 4; 0; 0], []); ([1; 5; 3; 4; 1], [2])] ++
  map (fun i => ([2; 5; Z.of_nat i; 1; 0], [])) (seq 0 70) ++
  [([3; 6; 5], []); ([7; 6; 5], []); ([8; 5; 6; 0; 0], []); ([99], [])].

Example C19_nonvacuous :
  forallb (fun out => match fst out with [_; _; _; _; flag] => Z.eqb flag 0 | _ => false end) (run demo) = true /\
  last (run demo) ([], []) = ([0; 0; 0; 0; 0], []) /\
  nth 41 (run demo) ([], []) = ([1; 16; 36; 48; 0], []).
Proof. vm_compute. repeat split; reflexivity. Qed.

Example C19_reach_nonvacuous : exists o, reach o /\ retained o = 1%N.
Proof.
  destruct (obj_new 0 8 0) as [[o bad]|] eqn:E; [|vm_compute in E; discriminate].
  destruct (obj_update o 5 1 []) as [o' b'|o' b'] eqn:E2.
  - exists o'. split.
    + eapply R_update; [eapply (R_new 0 8 0); exact E|exact E2].
    + vm_compute in E. injection E as <- <-. vm_compute in E2. injection E2 as <- <-. reflexivity.
  - vm_compute in E. injection E as <- <-. vm_compute in E2. discriminate.
Qed.

Print Assumptions C19_accepted_dealloc_matches_alloc.
Print Assumptions C19_accepted_construct_hits_unconstructed_slots.
Print Assumptions C19_accepted_destroy_hits_constructed_slots.
Print Assumptions C19_accepted_alloc_is_fresh.
Print Assumptions C19_ledger_exact_at_rest.
Print Assumptions C19_live_items_eq_retained.
Print Assumptions C19_update_accepted.
Print Assumptions C19_copy_accepted.
Print Assumptions C19_copy_assign_accepted.
Print Assumptions C19_reset_trim_accepted.
Print Assumptions C19_merge_accepted.
Print Assumptions C19_destroy_balanced.
Print Assumptions C19_moved_from_destroy.
Print Assumptions C19_step_keeps_ledgers_exact.
Print Assumptions C19_run_flags_zero.
Print Assumptions C19_destroy_all_balanced.
Print Assumptions C19_at_rest_exact.
