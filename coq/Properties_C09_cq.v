(* Properties_C09_cq.v — C09 for the classic quantiles sketch: serialization round trip.
   cq_enc kind s is the image serialize() writes for sketch s with items of kind 0 (int64) or 1 (double holding an
   integer); cq_dec is BOTH readers (the sketch and the unread rest: the stream reader leaves it in the stream, the byte
   reader ignores it).  "reach s log": any sketch produced by updates, merges of all cases and queries under any outcome
   of the random choices.  norm s is the sketch after the round trip: s with its base buffer sorted (serialize sorts it
   in place, also in the original) — or a fresh sketch of the same k when s is empty.
   Statements only; proofs in CqCodecProofs.v. *)
From Coq Require Import ZArith List Bool Lia Permutation Sorted.
From DS Require Import RunnerLib SortedView CqDefs CqProofs CqView CqCodecDefs CqCodecProofs.
Import ListNotations.
Local Open Scope Z_scope.

(* deserialize (serialize s), with anything after the image left unread *)
Theorem C09_cq_image_roundtrip : forall kind s log rest, reach s log -> (0 < cn s -> Fits kind s) ->
  cq_dec kind (cq_enc kind s ++ rest) = Some (norm s, rest).
Proof. intros kind s log rest R F. apply dec_enc; [exact (r_inv s log (reach_Rel s log R))|exact F]. Qed.

(* same configuration, counts, retained items and weights, extremes *)
Theorem C09_cq_restored_fields : forall s log, reach s log ->
  ck (norm s) = ck s /\ cn (norm s) = cn s /\ cbp (norm s) = cbp s /\ clv (norm s) = clv s /\
  cbb (norm s) = isort (cbb s) /\ (0 < cn s -> cmin (norm s) = cmin s /\ cmax (norm s) = cmax s).
Proof. exact norm_fields. Qed.

(* rank, quantile, CDF, PMF and the sorted view are computed from the very same sorted view *)
Theorem C09_cq_restored_answers_equal : forall s log, reach s log -> qview (norm s) = qview s.
Proof. exact qview_norm. Qed.

(* the iterator yields the same items and weights (the base buffer part in sorted order) *)
Theorem C09_cq_restored_iterator : forall s log, reach s log ->
  iterate (norm s) = map (fun x => (x, 1)) (isort (cbb s)) ++ lv_spec 2 (clv s).
Proof.
  intros s log R. pose proof (norm_reach s log R) as R'.
  rewrite (iterate_spec _ (r_inv _ _ (reach_Rel _ _ R'))). unfold iter_spec.
  destruct (norm_fields s log R) as (_ & _ & _ & E1 & E2 & _). now rewrite E1, E2.
Qed.

(* it remains fully functional: it is a reachable sketch again, all theorems about reachable sketches (C07, C08) apply
   to it and to everything done with it afterwards *)
Theorem C09_cq_restored_reachable : forall s log, reach s log -> reach (norm s) log.
Proof. exact norm_reach. Qed.

(* re-serialization gives the same image, byte for byte *)
Theorem C09_cq_reserialize_identical : forall kind s, cq_enc kind (norm s) = cq_enc kind s.
Proof. exact enc_norm. Qed.

(* the image has exactly the advertised size: 8, or 16 + (num_retained + 2) * 8 *)
Theorem C09_cq_image_size : forall kind s log, reach s log -> len (cq_enc kind s) = serialized_size s.
Proof. intros kind s log R. apply enc_size. exact (r_inv s log (reach_Rel s log R)). Qed.

(* a requested header of h bytes yields h zero bytes followed by the same image, which decodes after skipping them *)
Theorem C09_cq_header_form : forall h kind s log, reach s log -> (0 < cn s -> Fits kind s) ->
  cq_enc_header h kind s = repeat 0 h ++ cq_enc kind s /\
  cq_dec kind (skipn h (cq_enc_header h kind s)) = Some (norm s, []).
Proof.
  intros h kind s log R F. split; [reflexivity|]. unfold cq_enc_header.
  rewrite skipn_app, repeat_length, Nat.sub_diag, skipn_all2 by (rewrite repeat_length; lia). cbn [skipn app].
  rewrite <- (app_nil_r (cq_enc kind s)). apply dec_enc; [exact (r_inv s log (reach_Rel s log R))|exact F].
Qed.

(* items: int64 in two's complement, doubles as IEEE-754 binary64 patterns *)
Theorem C09_cq_item_roundtrip : forall kind v, item_ok kind v ->
  length (item_enc kind v) = 8%nat /\ item_dec kind (item_enc kind v) = Some v.
Proof. exact item_roundtrip. Qed.

(* non-vacuity: an estimating sketch (k = 2, n = 9) and its 56-byte image *)
Example C09_cq_nonvacuous :
  let s := mkcq 2 9 2 [7] [[]; [1; 5]] 1 9 false in
  Inv s /\ Fits 0 s /\ length (cq_enc 0 s) = 56%nat /\ firstn 16 (cq_enc 0 s) = [2; 3; 8; 24; 2; 0; 0; 0; 9; 0; 0; 0; 0; 0; 0; 0] /\
  cq_dec 0 (cq_enc 0 s ++ [90; 90]) = Some (norm s, [90; 90]).
Proof.
  cbv zeta. split.
  - constructor; cbn [ck cn cbp cbb clv csorted];
      [exists 1; split; [lia|reflexivity]|lia|reflexivity|reflexivity| |reflexivity|discriminate].
    cbn. repeat split; try reflexivity. repeat constructor; lia.
  - split; [repeat split; cbn; try lia; repeat constructor; cbn; lia|]. split; [reflexivity|]. split; vm_compute; reflexivity.
Qed.

Print Assumptions C09_cq_image_roundtrip.
Print Assumptions C09_cq_restored_fields.
Print Assumptions C09_cq_restored_answers_equal.
Print Assumptions C09_cq_restored_iterator.
Print Assumptions C09_cq_restored_reachable.
Print Assumptions C09_cq_reserialize_identical.
Print Assumptions C09_cq_image_size.
Print Assumptions C09_cq_header_form.
Print Assumptions C09_cq_item_roundtrip.
