(* CpcCodecDefs.v — executable model of the low-level compressor of the CPC sketch
   (cpc/include/cpc_compressor_impl.hpp l.369-465 and l.467-761; floor_log2_of_long and divide_longs_rounding_up of
   cpc/include/cpc_util.hpp; byte_trailing_zeros_table of common/include/count_zeros.hpp).  No proofs here
   (only [Example]s evaluated by [vm_compute]); the round-trip theorems are in CpcCodecProofs.v.

   Modelling conventions (the model mirrors the code as written):
   - every integer is an [N]; a C++ truncation is an explicit [w64]/[w32]/[w16]/[w8]:
       uint64_t bitbuf:   [bitbuf |= v << bufbits] is [N.lor bitbuf (shl64 v bufbits)] (bits above 63 are dropped);
       uint8_t  bufbits:  [bufbits += n] is [w8 (bufbits + n)], [bufbits -= n] is [w8 (bufbits + 256 - w8 n)];
       uint16_t table entries: an entry read from a table is passed through [w16];
       uint32_t row_index, uint8_t col_index / predicted_col_index, int8_t x_delta, int64_t y_delta: see
       [uncompress_pairs_loop].
   - the output buffer of a compressor is pre-sized by the caller (safe_length_for_compressed_*_buf); the model
     accumulates the words written, most recent first ([rev_words]); the list returned is the words actually used, in
     order, and its length is the C++ return value.  That the C++ writes stay inside the pre-sized buffer is the
     theorem "number of words used <= safe length" of CpcCodecProofs.v.
   - the input buffer of a decompressor is a [list N] of 32-bit words; a read at an index >= its length is a buffer
     over-read in C++ and is [None] in the model.  A C++ [throw] is [None] as well.
   - a shift by >= the width of the (promoted) left operand is undefined behaviour in C++; the model uses the
     mathematical shift followed by the truncation.  The places where this matters are excluded by the side
     conditions of the theorems ([num_base_bits <= 30]: [(1 << num_base_bits) - 1] is an [int] expression). *)
From Coq Require Import ZArith NArith List Bool Lia.
From DS.gen Require Import CpcTablesGen.
From DS Require Import Word RunnerLib CpcCodecTables.
Import ListNotations.
Local Open Scope N_scope.

(** * cpc_util.hpp *)

(* divide_longs_rounding_up (uint64_t x, uint64_t y); None = throw (y == 0) *)
Definition divide_longs_rounding_up (x y : N) : option N :=
  if y =? 0 then None else
  let quotient := x / y in
  if w64 (quotient * y) =? x then Some quotient else Some (w64 (quotient + 1)).

(* floor_log2_of_long: while (true) { if (y == x) return p; if (y > x) return p - 1; p += 1; y <<= 1; }
   p is a uint8_t, y a uint64_t (y <<= 1 wraps to 0 after 64 iterations, after which the C++ loop never ends when
   x > 2^63: the model runs out of fuel) *)
Fixpoint floor_log2_loop (fuel : nat) (x p y : N) : option N :=
  match fuel with
  | O => None
  | S f =>
      if y =? x then Some p
      else if x <? y then Some (w8 (p + 255))
      else floor_log2_loop f x (w8 (p + 1)) (shl64 y 1)
  end.

Definition floor_log2_of_long (x : N) : option N :=
  if x <? 1 then None else floor_log2_loop 70 x 0 1.

(** * count_zeros.hpp: byte_trailing_zeros_table (literal copy) *)

Definition byte_trailing_zeros_table : list N :=
  [ 8; 0; 1; 0; 2; 0; 1; 0; 3; 0; 1; 0; 2; 0; 1; 0;
    4; 0; 1; 0; 2; 0; 1; 0; 3; 0; 1; 0; 2; 0; 1; 0;
    5; 0; 1; 0; 2; 0; 1; 0; 3; 0; 1; 0; 2; 0; 1; 0;
    4; 0; 1; 0; 2; 0; 1; 0; 3; 0; 1; 0; 2; 0; 1; 0;
    6; 0; 1; 0; 2; 0; 1; 0; 3; 0; 1; 0; 2; 0; 1; 0;
    4; 0; 1; 0; 2; 0; 1; 0; 3; 0; 1; 0; 2; 0; 1; 0;
    5; 0; 1; 0; 2; 0; 1; 0; 3; 0; 1; 0; 2; 0; 1; 0;
    4; 0; 1; 0; 2; 0; 1; 0; 3; 0; 1; 0; 2; 0; 1; 0;
    7; 0; 1; 0; 2; 0; 1; 0; 3; 0; 1; 0; 2; 0; 1; 0;
    4; 0; 1; 0; 2; 0; 1; 0; 3; 0; 1; 0; 2; 0; 1; 0;
    5; 0; 1; 0; 2; 0; 1; 0; 3; 0; 1; 0; 2; 0; 1; 0;
    4; 0; 1; 0; 2; 0; 1; 0; 3; 0; 1; 0; 2; 0; 1; 0;
    6; 0; 1; 0; 2; 0; 1; 0; 3; 0; 1; 0; 2; 0; 1; 0;
    4; 0; 1; 0; 2; 0; 1; 0; 3; 0; 1; 0; 2; 0; 1; 0;
    5; 0; 1; 0; 2; 0; 1; 0; 3; 0; 1; 0; 2; 0; 1; 0;
    4; 0; 1; 0; 2; 0; 1; 0; 3; 0; 1; 0; 2; 0; 1; 0 ].

(* the table as a function: count of trailing zero bits of a byte, 8 for 0 *)
Definition byte_trailing_zeros (b : N) : N :=
  match b with N0 => 8 | Npos p => ctz_pos p end.

Example byte_trailing_zeros_table_is_ctz :
  byte_trailing_zeros_table = map byte_trailing_zeros (nseq 0 256).
Proof. vm_compute. reflexivity. Qed.

(** * Sizing of the output buffers (l.420-442), in 32-bit words *)

(* ybits = num_pairs * (1 + num_base_bits) + (k >> num_base_bits) is a uint32_t expression converted to size_t;
   xbits = 12 * num_pairs is a uint32_t expression; the final sum is a size_t (64-bit) expression *)
Definition safe_length_for_compressed_pair_buf (k num_pairs num_base_bits : N) : N :=
  let ybits := w32 (w32 (num_pairs * (1 + num_base_bits)) + N.shiftr k num_base_bits) in
  let xbits := w32 (12 * num_pairs) in
  let padding := if 10 <? num_base_bits then 0 else 10 - num_base_bits in
  match divide_longs_rounding_up (w64 (xbits + ybits + padding)) 32 with Some r => r | None => 0 end.

(* bits = 12 * k + 11 is a uint32_t expression converted to size_t *)
Definition safe_length_for_compressed_window_buf (k : N) : N :=
  let bits := w32 (w32 (12 * k) + 11) in
  match divide_longs_rounding_up bits 32 with Some r => r | None => 0 end.

(** * determine_pseudo_phase (l.444-465); None = throw.
    REPAIRED behaviour (k and every product computed in 64 bits: const uint64_t k = 1ULL << lg_k, c widened to uint64_t;
    nothing wraps for lg_k <= 26 and c < 2^32, so the products are modelled exactly).  The behaviour before the repair
    (uint32_t products, which wrap from lg_k = 21 on and, for lg_k = 20, from c = 4294968 on) is kept as
    [determine_pseudo_phase_old] in Regression_cpc.v together with the inputs that refute it. *)

Definition determine_pseudo_phase_opt (lg_k c : N) : option N :=
  let k := N.shiftl 1 lg_k in
  if 1000 * c <? 2375 * k then
    if 4 * c <? 3 * k then Some (16 + 0)
    else if 10 * c <? 11 * k then Some (16 + 1)
    else if 100 * c <? 132 * k then Some (16 + 2)
    else if 3 * c <? 5 * k then Some (16 + 3)
    else if 1000 * c <? 1965 * k then Some (16 + 4)
    else if 1000 * c <? 2275 * k then Some (16 + 5)
    else Some 6
  else
    if lg_k <? 4 then None
    else
      let tmp := N.shiftr c (lg_k - 4) in
      let phase := N.land tmp 15 in
      if 16 <=? phase then None else Some phase.

(* total version (the throw needs lg_k < 4, which no CPC sketch has); 0 stands for the throw *)
Definition determine_pseudo_phase (lg_k c : N) : N :=
  match determine_pseudo_phase_opt lg_k c with Some p => p | None => 0 end.

(** * golomb_choose_number_of_base_bits (uint32_t k, uint64_t count) (l.754-761); None = throw / endless loop *)

Definition golomb_choose_number_of_base_bits (k count : N) : option N :=
  if k <? 1 then None
  else if count <? 1 then None
  else
    let quotient := w64 (k + two64 - w64 count) / count in
    if quotient =? 0 then Some 0 else floor_log2_of_long quotient.

(** * The bit writer (l.467-473) *)

(* (bitbuf, bufbits, words written so far, most recent first) *)
Definition wstate : Type := N * N * list N.

Definition wstate0 : wstate := (0, 0, []).

Definition maybe_flush_bitbuf (st : wstate) : wstate :=
  let '(bitbuf, bufbits, rev_words) := st in
  if 32 <=? bufbits
  then (N.shiftr bitbuf 32, bufbits - 32, N.land bitbuf mask32 :: rev_words)
  else st.

(* bitbuf |= value << bufbits; bufbits += len; maybe_flush_bitbuf(...) *)
Definition emit_bits (st : wstate) (value len : N) : wstate :=
  let '(bitbuf, bufbits, rev_words) := st in
  maybe_flush_bitbuf (N.lor bitbuf (shl64 value bufbits), w8 (bufbits + len), rev_words).

(* bufbits += n; maybe_flush_bitbuf(...)   (zero bits: nothing is or-ed into bitbuf) *)
Definition skip_bits (st : wstate) (n : N) : wstate :=
  let '(bitbuf, bufbits, rev_words) := st in
  maybe_flush_bitbuf (bitbuf, w8 (bufbits + n), rev_words).

(* the tail common to both compressors: bufbits += padding; maybe_flush; if (bufbits > 0) { if (bufbits >= 32) throw;
   words[next++] = bitbuf & 0xffffffff; }  return next_word_index;   None = throw *)
Definition finish_bits (st : wstate) (padding : N) : option (list N) :=
  let '(bitbuf, bufbits, rev_words) := skip_bits st padding in
  if 0 <? bufbits then
    if 32 <=? bufbits then None
    else Some (rev (N.land bitbuf mask32 :: rev_words))
  else Some (rev rev_words).

(** * The bit reader (l.475-480) *)

(* (bitbuf, bufbits, word_index) *)
Definition rstate : Type := N * N * N.

Definition rstate0 : rstate := (0, 0, 0).

(* None = read past the end of [words] *)
Definition maybe_fill_bitbuf (words : list N) (st : rstate) (minbits : N) : option rstate :=
  let '(bitbuf, bufbits, word_index) := st in
  if bufbits <? minbits then
    match nth_error words (N.to_nat word_index) with
    | None => None
    | Some w => Some (N.lor bitbuf (shl64 (w32 w) bufbits), w8 (bufbits + 32), w32 (word_index + 1))
    end
  else Some st.

(* bitbuf >>= n; bufbits -= n  (n is a uint8_t or a small constant) *)
Definition drop_bits (st : rstate) (n : N) : rstate :=
  let '(bitbuf, bufbits, word_index) := st in
  (N.shiftr bitbuf n, w8 (bufbits + 256 - w8 n), word_index).

(** * low_level_compress_bytes (l.484-514) *)

Definition table_entry (table : list N) (i : N) : N := w16 (nth (N.to_nat i) table 0).

Fixpoint compress_bytes_loop (enc : list N) (bytes : list N) (st : wstate) : wstate :=
  match bytes with
  | [] => st
  | b :: r =>
      let code_info := table_entry enc (w8 b) in
      let code_val := N.land code_info 4095 in
      let code_len := w8 (N.shiftr code_info 12) in
      compress_bytes_loop enc r (emit_bits st code_val code_len)
  end.

(* None = throw "bufbits >= 32" (unreachable, see CpcCodecProofs.compress_bytes_total) *)
Definition compress_bytes_opt (enc : list N) (bytes : list N) : option (list N) :=
  finish_bits (compress_bytes_loop enc bytes wstate0) 11.

Definition compress_bytes (enc : list N) (bytes : list N) : list N :=
  match compress_bytes_opt enc bytes with Some ws => ws | None => [] end.

(** * low_level_uncompress_bytes (l.516-546) *)

Fixpoint uncompress_bytes_loop (dec : list N) (words : list N) (n : nat) (st : rstate)
  : option (list N * rstate) :=
  match n with
  | O => Some ([], st)
  | S n' =>
      match maybe_fill_bitbuf words st 12 with
      | None => None
      | Some st1 =>
          let peek12 := N.land (fst (fst st1)) 4095 in
          let lookup := table_entry dec peek12 in
          let code_word_length := w8 (N.shiftr lookup 8) in
          let decoded_byte := N.land lookup 255 in
          match uncompress_bytes_loop dec words n' (drop_bits st1 code_word_length) with
          | None => None
          | Some (out, st') => Some (decoded_byte :: out, st')
          end
      end
  end.

(* n = num_bytes_to_decode; num_compressed_words = length words *)
Definition uncompress_bytes (dec : list N) (n : N) (words : list N) : option (list N) :=
  match uncompress_bytes_loop dec words (N.to_nat n) rstate0 with
  | None => None
  | Some (out, (_, _, word_index)) =>
      if N.of_nat (length words) <? word_index then None else Some out
  end.

(** * write_unary (l.704-730); None = throw *)

(* while (remaining >= 16) { remaining -= 16; bufbits += 16; maybe_flush_bitbuf(...); } *)
Fixpoint write_unary_loop (fuel : nat) (st : wstate) (remaining : N) : option (wstate * N) :=
  if remaining <? 16 then Some (st, remaining)
  else match fuel with
       | O => None
       | S f => write_unary_loop f (skip_bits st 16) (remaining - 16)
       end.

Definition write_unary (st : wstate) (value : N) : option wstate :=
  if 31 <? snd (fst st) then None
  else
    match write_unary_loop (N.to_nat (value / 16)) st value with
    | None => None
    | Some (st1, remaining) =>
        if 15 <? remaining then None
        else
          let the_unary_code := shl64 1 remaining in
          Some (emit_bits st1 the_unary_code (w8 (remaining + 1)))
    end.

(** * read_unary (l.677-702); None = throw, over-read, or out of fuel (the C++ loop is unbounded) *)

Fixpoint read_unary_loop (fuel : nat) (words : list N) (st : rstate) (subtotal : N) : option (N * rstate) :=
  match fuel with
  | O => None
  | S f =>
      match maybe_fill_bitbuf words st 8 with
      | None => None
      | Some st1 =>
          let peek8 := N.land (fst (fst st1)) 255 in
          let trailing_zeros := nth (N.to_nat peek8) byte_trailing_zeros_table 0 in
          if 8 <? trailing_zeros then None
          else if trailing_zeros <? 8 then Some (w64 (subtotal + trailing_zeros), drop_bits st1 (1 + trailing_zeros))
          else read_unary_loop f words (drop_bits st1 8) (w64 (subtotal + 8))
      end
  end.

(* every iteration but the last consumes 8 bits, and every four iterations need a fresh word *)
Definition read_unary_fuel (words : list N) : nat := (S (length words) * 4 + 8)%nat.

Definition read_unary (words : list N) (st : rstate) : option (N * rstate) :=
  read_unary_loop (read_unary_fuel words) words st 0.

(** * low_level_compress_pairs (l.566-626); None = throw *)

(* golomb_lo_mask = (1 << num_base_bits) - 1: an [int] expression, defined for num_base_bits <= 30 only *)
Definition golomb_lo_mask (num_base_bits : N) : N := N.ones num_base_bits.

Fixpoint compress_pairs_loop (pairs : list N) (num_base_bits : N)
    (predicted_row_index predicted_col_index : N) (st : wstate) : option wstate :=
  match pairs with
  | [] => Some st
  | row_col0 :: r =>
      let row_col := w32 row_col0 in
      let row_index := N.shiftr row_col 6 in
      let col_index := N.land row_col 63 in
      let predicted_col_index := if row_index =? predicted_row_index then predicted_col_index else 0 in
      if row_index <? predicted_row_index then None
      else if col_index <? predicted_col_index then None
      else
        let y_delta := row_index - predicted_row_index in
        let x_delta := col_index - predicted_col_index in
        let code_info := table_entry length_limited_unary_encoding_table65 x_delta in
        let code_val := N.land code_info 4095 in
        let code_len := w8 (N.shiftr code_info 12) in
        let st1 := emit_bits st code_val code_len in
        let golomb_lo := N.land y_delta (golomb_lo_mask num_base_bits) in
        let golomb_hi := N.shiftr y_delta num_base_bits in
        match write_unary st1 golomb_hi with
        | None => None
        | Some st2 =>
            let st3 := emit_bits st2 golomb_lo num_base_bits in
            compress_pairs_loop r num_base_bits row_index (w8 (col_index + 1)) st3
        end
  end.

Definition pair_padding (num_base_bits : N) : N := if 10 <? num_base_bits then 0 else 10 - num_base_bits.

Definition compress_pairs (pairs : list N) (num_base_bits : N) : option (list N) :=
  match compress_pairs_loop pairs num_base_bits 0 0 wstate0 with
  | None => None
  | Some st => finish_bits st (pair_padding num_base_bits)
  end.

(** * low_level_uncompress_pairs (l.628-675) *)

(* int8_t x_delta = lookup & 0xff: sign extension of a byte, as an element of Z/2^64 (it is only ever added to a
   uint8_t, so only its value mod 256 matters) *)
Definition sext8 (b : N) : N := if b <? 128 then b else w64 (b + two64 - 256).

Fixpoint uncompress_pairs_loop (n : nat) (num_base_bits : N) (words : list N)
    (predicted_row_index predicted_col_index : N) (st : rstate) : option (list N * rstate) :=
  match n with
  | O => Some ([], st)
  | S n' =>
      match maybe_fill_bitbuf words st 12 with
      | None => None
      | Some st1 =>
          let peek12 := N.land (fst (fst st1)) 4095 in
          let lookup := table_entry unary_decoding_table peek12 in
          let code_word_length := w8 (N.shiftr lookup 8) in
          let x_delta := sext8 (N.land lookup 255) in
          let st2 := drop_bits st1 code_word_length in
          match read_unary words st2 with
          | None => None
          | Some (golomb_hi, st3) =>
              match maybe_fill_bitbuf words st3 num_base_bits with
              | None => None
              | Some st4 =>
                  let golomb_lo := N.land (fst (fst st4)) (golomb_lo_mask num_base_bits) in
                  let st5 := drop_bits st4 num_base_bits in
                  (* int64_t y_delta, kept as its unsigned 64-bit pattern *)
                  let y_delta := N.lor (shl64 golomb_hi num_base_bits) golomb_lo in
                  let y_positive := (0 <? y_delta) && (y_delta <? 9223372036854775808) in
                  let predicted_col_index := if y_positive then 0 else predicted_col_index in
                  let row_index := w32 (predicted_row_index + y_delta) in
                  let col_index := w8 (predicted_col_index + x_delta) in
                  let row_col := N.lor (shl32 row_index 6) col_index in
                  match uncompress_pairs_loop n' num_base_bits words row_index (w8 (col_index + 1)) st5 with
                  | None => None
                  | Some (out, st') => Some (row_col :: out, st')
                  end
              end
          end
      end
  end.

Definition uncompress_pairs (num_pairs num_base_bits : N) (words : list N) : option (list N) :=
  match uncompress_pairs_loop (N.to_nat num_pairs) num_base_bits words 0 0 rstate0 with
  | None => None
  | Some (out, (_, _, word_index)) =>
      if N.of_nat (length words) <? word_index then None else Some out
  end.

(** * The callers (l.368-418) *)

(* k = 1 << lg_k; num_base_bits = golomb_choose_number_of_base_bits(k + num_pairs, num_pairs)  (uint32_t sum) *)
Definition surprising_values_base_bits (num_pairs lg_k : N) : option N :=
  let k := w32 (N.shiftl 1 lg_k) in
  golomb_choose_number_of_base_bits (w32 (k + num_pairs)) num_pairs.

Definition compress_surprising_values (pairs : list N) (lg_k : N) : option (list N) :=
  let num_pairs := w32 (N.of_nat (length pairs)) in
  match surprising_values_base_bits num_pairs lg_k with
  | None => None
  | Some num_base_bits => compress_pairs pairs num_base_bits
  end.

Definition uncompress_surprising_values (words : list N) (num_pairs lg_k : N) : option (list N) :=
  match surprising_values_base_bits num_pairs lg_k with
  | None => None
  | Some num_base_bits => uncompress_pairs num_pairs num_base_bits words
  end.

(* the window has k = 1 << lg_k bytes; the model takes the bytes that are there *)
Definition compress_sliding_window (win : list N) (lg_k c : N) : list N :=
  let pseudo_phase := determine_pseudo_phase lg_k c in
  compress_bytes (nth (N.to_nat pseudo_phase) encoding_tables_for_high_entropy_byte []) win.

Definition uncompress_sliding_window (words : list N) (lg_k c : N) : option (list N) :=
  let k := w32 (N.shiftl 1 lg_k) in
  match determine_pseudo_phase_opt lg_k c with
  | None => None
  | Some pseudo_phase =>
      uncompress_bytes (nth (N.to_nat pseudo_phase) byte_decoding_tables []) k words
  end.

(** * Examples *)

Definition ex_bytes : list N := [0; 1; 2; 3; 255; 254; 7; 7; 7; 128; 64; 32; 16; 8; 4; 2; 1; 0; 200; 100].

Example ex_bytes_t3 :
  uncompress_bytes (nth 3 byte_decoding_tables []) 20
    (compress_bytes (nth 3 encoding_tables_for_high_entropy_byte []) ex_bytes) = Some ex_bytes.
Proof. vm_compute. reflexivity. Qed.

Example ex_bytes_t21 :
  uncompress_bytes (nth 21 byte_decoding_tables []) 20
    (compress_bytes (nth 21 encoding_tables_for_high_entropy_byte []) ex_bytes) = Some ex_bytes.
Proof. vm_compute. reflexivity. Qed.

Example ex_bytes_len :
  N.of_nat (length (compress_bytes (nth 3 encoding_tables_for_high_entropy_byte []) ex_bytes))
  <= safe_length_for_compressed_window_buf 20.
Proof. vm_compute. discriminate. Qed.

(* over-read: one word short *)
Example ex_bytes_truncated :
  uncompress_bytes (nth 3 byte_decoding_tables []) 20
    (removelast (compress_bytes (nth 3 encoding_tables_for_high_entropy_byte []) ex_bytes)) = None.
Proof. vm_compute. reflexivity. Qed.

(* (row << 6) | col, strictly increasing *)
Definition ex_pairs : list N :=
  [ 0 * 64 + 3; 0 * 64 + 4; 0 * 64 + 63; 1 * 64 + 0; 5 * 64 + 17; 5 * 64 + 18; 300 * 64 + 1; 301 * 64 + 63;
    5000 * 64 + 0; 67108863 * 64 + 63 ].

Example ex_pairs_b0 :
  match compress_pairs (firstn 9 ex_pairs) 0 with
  | Some ws => uncompress_pairs 9 0 ws = Some (firstn 9 ex_pairs)
  | None => False
  end.
Proof. vm_compute. reflexivity. Qed.

Example ex_pairs_b2 :
  match compress_pairs (firstn 9 ex_pairs) 2 with
  | Some ws => uncompress_pairs 9 2 ws = Some (firstn 9 ex_pairs)
  | None => False
  end.
Proof. vm_compute. reflexivity. Qed.

Example ex_pairs_b5 :
  match compress_pairs (firstn 9 ex_pairs) 5 with
  | Some ws => uncompress_pairs 9 5 ws = Some (firstn 9 ex_pairs)
  | None => False
  end.
Proof. vm_compute. reflexivity. Qed.

Example ex_pairs_b20 :
  match compress_pairs ex_pairs 20 with
  | Some ws => uncompress_pairs 10 20 ws = Some ex_pairs
            /\ N.of_nat (length ws) <= safe_length_for_compressed_pair_buf 67108864 10 20
  | None => False
  end.
Proof. vm_compute. split; [reflexivity|discriminate]. Qed.

(* the two throws *)
Example ex_pairs_row_decreasing : compress_pairs [2 * 64 + 1; 1 * 64 + 5] 3 = None.
Proof. vm_compute. reflexivity. Qed.
Example ex_pairs_col_repeated : compress_pairs [2 * 64 + 1; 2 * 64 + 1] 3 = None.
Proof. vm_compute. reflexivity. Qed.

Example ex_unary :
  match write_unary wstate0 37 with
  | Some st => match finish_bits st 11 with
               | Some ws => option_map fst (read_unary ws rstate0) = Some 37
               | None => False
               end
  | None => False
  end.
Proof. vm_compute. reflexivity. Qed.

Example ex_golomb :
  golomb_choose_number_of_base_bits (1024 + 10) 10 = Some 6 /\
  golomb_choose_number_of_base_bits (1024 + 1024) 1024 = Some 0 /\
  golomb_choose_number_of_base_bits (1024 + 2000) 2000 = Some 0 /\
  golomb_choose_number_of_base_bits (67108864 + 1) 1 = Some 26 /\
  golomb_choose_number_of_base_bits 5 0 = None.
Proof. vm_compute. repeat split. Qed.

Example ex_floor_log2 :
  map floor_log2_of_long [0; 1; 2; 3; 4; 7; 8; 1000] = [None; Some 0; Some 1; Some 1; Some 2; Some 2; Some 3; Some 9].
Proof. vm_compute. reflexivity. Qed.

Example ex_pseudo_phase :
  map (determine_pseudo_phase 10) [100; 800; 1200; 1500; 1800; 2100; 2350; 2432; 2500; 4096 + 64 * 5]
  = [16; 17; 18; 19; 20; 21; 6; 6; 7; 5].
Proof. vm_compute. reflexivity. Qed.

(* large lg_k: the thresholds are the same fractions of k as for small lg_k (no wrap; cf. Regression_cpc.v) *)
Example ex_pseudo_phase_large :
  determine_pseudo_phase 26 67108864 = 17 /\ determine_pseudo_phase 21 1048576 = 16 /\
  determine_pseudo_phase 20 1048576 = 17 /\ determine_pseudo_phase 20 524288 = 16 /\
  determine_pseudo_phase 20 4296581 = 1.
Proof. vm_compute. repeat split. Qed.

Example ex_surprising :
  match compress_surprising_values (firstn 9 ex_pairs) 13 with
  | Some ws => uncompress_surprising_values ws 9 13 = Some (firstn 9 ex_pairs)
  | None => False
  end.
Proof. vm_compute. reflexivity. Qed.

Definition ex_window : list N := [1; 0; 3; 7; 255; 0; 0; 16; 9; 200; 1; 1; 1; 0; 128; 77].

Example ex_window_rt :
  uncompress_sliding_window (compress_sliding_window ex_window 4 40) 4 40 = Some ex_window.
Proof. vm_compute. reflexivity. Qed.
