(* CpcImageRun.v — protocol runner of the cpc image family (C09/C10/C11): the operations of CpcRun.step plus
     40 r                                  serialize sketch r; env = kxp bits, hip bits (read from the object); R = image bytes
     41 seed b*                            deserialize(bytes, size, seed) of the given bytes
     42 seed b*                            deserialize(istream, seed) of the given bytes
     43 r path seed cut ntrail (pos val)*  the image of r, mangled, through reader path 0 (bytes) / 1 (stream) with [seed];
                                           env = kxp bits, hip bits of r
   mangling: cut >= 0 keeps the first cut bytes, cut < 0 drops -cut-1 bytes from the end; then every (pos, val) with pos
   inside replaces byte pos by val (val < 256) or adds val-256 to it (mod 256); then ntrail bytes 0xA5 are appended.
   A decoded sketch is shown as 1 lg_k num_coupons fic merged offset |window| window.. |items| sorted items.. kxp hip
   [bytes consumed, stream only].  No proofs. *)
From Coq Require Import ZArith NArith List Bool.
From DS Require Import Word Murmur3 RunnerLib CpcDefs CpcFlavorDefs CpcRun CpcImageDefs.
Import ListNotations.
Local Open Scope Z_scope.

Definition show_sketch (s : sketch) (kxp hip : N) : list Z :=
  let items := sortN (t_items (table s)) in
  [1; Nz (lgk s); Nz (ncoup s); Nz (fic s); bz (merged s); Nz (woff s)] ++
  [nz (length (window s))] ++ NL (window s) ++ [nz (length items)] ++ NL items ++ [Nz kxp; Nz hip].

Definition show_dec (path : Z) (seed : N) (bytes : list N) : list Z :=
  if path =? 0 then
    match dec_bytes seed bytes with Some (s, kxp, hip) => show_sketch s kxp hip | None => refused end
  else
    match dec_stream seed bytes with
    | Some (s, kxp, hip, rest) => show_sketch s kxp hip ++ [nz (length bytes - length rest)]
    | None => refused
    end.

Fixpoint apply_reps (a : list N) (reps : list Z) : list N :=
  match reps with
  | pos :: val :: r =>
      let a' := if (pos <? 0) || (Z.of_nat (length a) <=? pos) then a
                else upd_nth (Z.to_nat pos) (fun old => if val <? 256 then zN val else w8 (old + zN (val - 256))) a in
      apply_reps a' r
  | _ => a
  end.

Definition mangle (img : list N) (cut ntrail : Z) (reps : list Z) : list N :=
  let a := if 0 <=? cut then firstn (Z.to_nat cut) img
           else firstn (length img - Z.to_nat (- cut - 1)) img in
  apply_reps a reps ++ repeat 165%N (Z.to_nat ntrail).

Definition step (st : list (Z * obj)) (o e : line) : list (Z * obj) * outline :=
  match o with
  | 40 :: r :: _ =>
      match reg_get st r, e with
      | Some (OSk s log), kxp :: hip :: _ =>
          match enc s (zN kxp) (zN hip) with
          | Some b => (st, (NL b, []))
          | None => (st, (refused, []))
          end
      | _, _ => (st, (refused, []))
      end
  | 41 :: seed :: bytes => (st, (show_dec 0 (zN seed) (map zN bytes), []))
  | 42 :: seed :: bytes => (st, (show_dec 1 (zN seed) (map zN bytes), []))
  | 43 :: r :: path :: seed :: cut :: ntrail :: reps =>
      match reg_get st r, e with
      | Some (OSk s log), kxp :: hip :: _ =>
          match enc s (zN kxp) (zN hip) with
          | Some b => (st, (show_dec path (zN seed) (mangle b cut ntrail reps), []))
          | None => (st, (refused, []))
          end
      | _, _ => (st, (refused, []))
      end
  | _ => CpcRun.step st o e
  end.

Definition run (ops : list opline) : list outline := run_case step [] ops.
