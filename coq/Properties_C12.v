(* Properties_C12.v — frequent items: the bounds bracket the true weight, the total is exact, result-set guarantees,
   descending order, epsilon bound.  Statements only; proofs live in FiProofs.v (abstract layer L1) and
   FiMapProofs.v (the reverse-purge hash map L2).
   The theorems quantify over ANY item type with a decidable equality, ANY history of updates, and purges with ANY
   non-negative decrement at ANY time (so they cover whatever median the code samples and whenever it purges), merges
   that replay the operand's counters in any order, and round trips.
   Three clauses of the property text are FALSE for the code and therefore for the model that mirrors it; they are
   stated here with the hypothesis that makes them true, and each has a machine-checked refutation witness computed
   on the executable L2 model (Examples *_refuted at the end):
     - merge / serialize of a sketch with no active counter but non-zero total and offset (all counters purged),
     - NO_FALSE_NEGATIVES with a threshold below the maximum error,
     - the epsilon bound after merging a sketch with a smaller lg_max_map_size. *)
From Coq Require Import ZArith NArith List Bool Lia Permutation Sorting.Sorted.
From DS Require Import Word Murmur3 RunnerLib FiDefs FiProofs.
Import ListNotations.
Local Open Scope Z_scope.

Section AnyItem.
  Variable Item : Type.
  Variable eqb : Item -> Item -> bool.
  Hypothesis eqb_spec : forall a b, eqb a b = true <-> a = b.

  (* stream: after any history (updates with positive weights, purges with any decrement >= 0), for every item x *)
  Theorem C12_fi_bracket : forall (h : list (aop Item)) (x : Item), Forall (aop_ok Item) h ->
    let s := a_run Item eqb (a_empty Item) h in
    a_lb Item eqb s x <= h_weight Item eqb h x <= a_ub Item eqb s x /\
    a_lb Item eqb s x <= a_est Item eqb s x <= a_ub Item eqb s x /\
    a_ub Item eqb s x - a_lb Item eqb s x = a_off Item s.
  Proof. exact (fi_bracket Item eqb eqb_spec). Qed.

  Theorem C12_fi_total_exact : forall h : list (aop Item),
    a_tot Item (a_run Item eqb (a_empty Item) h) = h_total Item h.
  Proof. exact (fi_total_exact Item eqb). Qed.

  (* all histories: updates, purges, merge trees, round trips.  t = true weight function, T = true total *)
  Theorem C12_fi_reach_bracket : forall s t T x, Reach Item eqb s t T ->
    a_lb Item eqb s x <= t x <= a_ub Item eqb s x /\
    a_lb Item eqb s x <= a_est Item eqb s x <= a_ub Item eqb s x /\
    a_ub Item eqb s x - a_lb Item eqb s x = a_off Item s /\
    a_tot Item s = T.
  Proof. exact (fi_reach_bracket Item eqb eqb_spec). Qed.

  (* merge: the operand's counters replayed as updates in any order, purges wherever they fall; offsets added; total fixed up.
     Hypothesis "the operand has at least one counter": see C12_merge_purged_empty_refuted *)
  Theorem C12_fi_merge_bracket : forall a ta Ta b tb Tb h x,
    Reach Item eqb a ta Ta -> Reach Item eqb b tb Tb -> replays Item eqb h b ->
    let m := a_merge Item eqb a b h in
    a_lb Item eqb m x <= ta x + tb x <= a_ub Item eqb m x /\
    a_lb Item eqb m x <= a_est Item eqb m x <= a_ub Item eqb m x /\
    a_ub Item eqb m x - a_lb Item eqb m x = a_off Item m /\
    a_tot Item m = Ta + Tb.
  Proof.
    intros a ta Ta b tb Tb h x Ha Hb Hr m.
    exact (fi_reach_bracket Item eqb eqb_spec m _ _ x (R_merge Item eqb a ta Ta b tb Tb h Ha Hb Hr)).
  Qed.

  (* serialize + deserialize (counters re-inserted without purge; offset and total restored) *)
  Theorem C12_fi_roundtrip_bracket : forall s t T h x,
    Reach Item eqb s t T -> h_nopurge Item h -> (forall y, h_weight Item eqb h y = a_get Item eqb (a_ents Item s) y) ->
    a_ents Item s <> [] ->
    let m := a_roundtrip Item eqb s h in
    a_lb Item eqb m x <= t x <= a_ub Item eqb m x /\
    a_lb Item eqb m x <= a_est Item eqb m x <= a_ub Item eqb m x /\
    a_ub Item eqb m x - a_lb Item eqb m x = a_off Item m /\
    a_tot Item m = T.
  Proof.
    intros s t T h x Hs Hn Hw Hne m.
    exact (fi_reach_bracket Item eqb eqb_spec m _ _ x (R_roundtrip Item eqb s t T h Hs Hn Hw Hne)).
  Qed.

  (* NO_FALSE_NEGATIVES: every item whose true weight exceeds the threshold is returned (with its lower bound),
     for thresholds >= the maximum error (the default threshold IS the maximum error); see C12_nfn_small_threshold_refuted *)
  Theorem C12_no_false_negatives : forall s t T thr x, Reach Item eqb s t T ->
    a_off Item s <= thr -> thr < t x -> In (x, a_lb Item eqb s x) (a_rows Item true s thr).
  Proof.
    intros s t T thr x Hr. destruct (Reach_Inv Item eqb eqb_spec s t T Hr) as [Hi _].
    exact (no_false_negatives Item eqb eqb_spec s t thr x Hi).
  Qed.

  (* NO_FALSE_POSITIVES: only items whose true weight exceeds the threshold, for ANY threshold *)
  Theorem C12_no_false_positives : forall s t T thr x v, Reach Item eqb s t T ->
    In (x, v) (a_rows Item false s thr) -> thr < t x /\ v = a_lb Item eqb s x.
  Proof.
    intros s t T thr x v Hr. destruct (Reach_Inv Item eqb eqb_spec s t T Hr) as [Hi _].
    exact (no_false_positives Item eqb eqb_spec s t thr x v Hi).
  Qed.

  (* rows come in descending estimate order *)
  Theorem C12_rows_sorted_desc : forall nfn (s : ask Item) thr,
    StronglySorted (fun p q : Item * Z => snd q + a_off Item s <= snd p + a_off Item s) (a_rows Item nfn s thr).
  Proof. exact (rows_sorted_desc Item). Qed.

  (* epsilon: map sizes up to the purge sample size (the whole map is sampled: decrement = median of all counters, purge as soon
     as more than 3/4 * 2^lg counters): maximum error <= 3.5 / 2^lg * total, for streams, merges of sketches of the same or a
     larger size, and re-layouts.  Merging a SMALLER sketch breaks it: see C12_eps_mixed_sizes_refuted *)
  Theorem C12_eps_bound : forall lg s, 3 <= lg -> DReach Item eqb (2 ^ lg * 3 / 4) s ->
    2 * 2 ^ lg * a_off Item s <= 7 * a_tot Item s.
  Proof. exact (eps_bound Item eqb eqb_spec). Qed.

  (* the deterministic update is one of the histories covered by the bracket theorems *)
  Theorem C12_det_update_is_history : forall cap (s : ask Item) x w, Forall (fun kv => 0 < snd kv) (a_ents Item s) -> 0 < w ->
    exists h, Forall (aop_ok Item) h /\ a_update_det Item eqb cap s x w = a_run Item eqb s h /\
              (forall y, h_weight Item eqb h y = if eqb x y then w else 0) /\ h_total Item h = w.
  Proof. exact (det_is_history Item eqb eqb_spec). Qed.
End AnyItem.

(* ---------- the executable L2 model (what the correspondence check runs against the C++): witnesses ---------- *)
Definition u64item (v : Z) : item := [v].
Definition feed (s : sk) (l : list (Z * Z)) : sk := fold_left (fun s xw => upd 0 s (u64item (fst xw)) (snd xw)) l s.
Definition lb0 (s : sk) (v : Z) := sk_lb item item_eqb (fi_hash 0) s (u64item v).
Definition ub0 (s : sk) (v : Z) := sk_ub item item_eqb (fi_hash 0) s (u64item v).
Definition seven_ones : list (Z * Z) := [(0,1);(1,1);(2,1);(3,1);(4,1);(5,1);(6,1)].
Definition purged_empty : sk := feed (sk_new item 3 3) seven_ones.

(* non-vacuity: a run with a purge; the heavy item keeps informative bounds, a purged item is bracketed by [0, offset] *)
Example C12_nonvacuous :
  let s := feed (sk_new item 3 3) [(9,10);(1,1);(2,2);(3,1);(4,3);(5,1);(6,1);(9,5);(1,1)] in
  sk_off _ s = 1 /\ sk_tot _ s = 25 /\ lb0 s 9 = 14 /\ ub0 s 9 = 15 /\ lb0 s 3 = 0 /\ ub0 s 3 = 1 /\ lb0 s 1 = 1 /\ ub0 s 1 = 2.
Proof. vm_compute. repeat split; reflexivity. Qed.

(* seven distinct items of weight 1 in a map of capacity 6: the purge (median 1) removes every counter *)
Example C12_purge_can_wipe_the_map :
  nact _ (sk_map _ purged_empty) = 0 /\ sk_tot _ purged_empty = 7 /\ sk_off _ purged_empty = 1.
Proof. vm_compute. repeat split; reflexivity. Qed.

(* NO_FALSE_NEGATIVES with threshold 0 < maximum error 1 returns nothing although seven items have true weight 1 > 0 *)
Example C12_nfn_small_threshold_refuted :
  sk_rows item true purged_empty 0 = [] /\ sk_off _ purged_empty = 1.
Proof. vm_compute. split; reflexivity. Qed.

(* a small sketch (lg_max 3) merged into a large one (lg_max 8): maximum error 22 > 3.5/256 * 139 *)
Example C12_eps_mixed_sizes_refuted :
  let small := feed (sk_new item 3 3) (map (fun i => (Z.of_nat (i mod 10), 1 + Z.of_nat (i mod 3))) (seq 0 70)) in
  let big := sk_merge item item_eqb (fi_hash 0) (sk_new item 8 3) small in
  sk_off _ big = 22 /\ sk_tot _ big = 139 /\ (7 * sk_tot _ big <? 2 * 2 ^ 8 * sk_off _ big) = true.
Proof. vm_compute. repeat split; reflexivity. Qed.

Print Assumptions C12_fi_bracket.
Print Assumptions C12_fi_total_exact.
Print Assumptions C12_fi_reach_bracket.
Print Assumptions C12_fi_merge_bracket.
Print Assumptions C12_fi_roundtrip_bracket.
Print Assumptions C12_no_false_negatives.
Print Assumptions C12_no_false_positives.
Print Assumptions C12_rows_sorted_desc.
Print Assumptions C12_eps_bound.
Print Assumptions C12_det_update_is_history.
