From Coq Require Import ZArith NArith List Bool Lia.
From DS Require Import Word Murmur3 RunnerLib FiDefs FiProofs.
Import ListNotations.
Local Open Scope Z_scope.
Theorem C12_placeholder : forall (s : ask Z), a_run Z Z.eqb s [] = s.
Proof. reflexivity. Qed.
Print Assumptions C12_placeholder.
