(* Properties_C12.v — frequent items: the bounds bracket the true weight, the total is exact, result-set guarantees,
   descending order, epsilon bound.  Statements only; proofs live in FiProofs.v (abstract layer L1: histories with ANY purge
   decrement), FiMapProofs.v / FiDelProofs.v / FiIterProofs.v (the reverse-purge hash map L2: insert, back-shift delete,
   subtract_and_keep_positive_only, stride iterator) and FiRefine.v (the executable sketch model L2 — the definitions that are
   extracted and run against the C++ — keeps the bracket invariant over every history).
   Part A (L2, executable model): ANY item type with a decidable equality, ANY hash function, every history of
     new / update (any weight >= 0) / merge (any two reachable sketches, also of different sizes, also self) /
     serialize+deserialize / copy.
   Part B (L1, abstract): the same statements for purges with ANY non-negative decrement at ANY time, so the guarantees do not
     depend on the sampled median nor on when the map decides to purge.
   Two clauses of the property text are FALSE for the code (known findings) and one more is not attainable:
     - serialize of a sketch with no active counter but non-zero total and offset (all counters purged) writes the empty
       form: hypothesis "nact <> 0 \/ T = 0" in SR_roundtrip; witness C12_roundtrip_purged_empty_refuted;
     - NO_FALSE_NEGATIVES with a threshold below the maximum error cannot return untracked items: hypothesis
       "offset <= threshold"; witness C12_nfn_small_threshold_refuted; the Java clamp would not change that (C12_nfn_clamp_noop);
     - the epsilon bound after merging a sketch with a smaller lg_max_map_size: witness C12_eps_mixed_sizes_refuted.
   The merge of a purged-empty operand was a defect of the code, repaired (fixes/12_1_fi_merge_purged_empty.patch); the old
   behaviour is refuted in Regression_fi.v. *)
From Coq Require Import ZArith NArith List Bool Lia Permutation Sorting.Sorted.
From DS Require Import Word Murmur3 RunnerLib FiDefs FiProofs FiMapProofs FiDelProofs FiIterProofs FiRefine FiEps FiSerProofs FiRunProofs.
Import ListNotations.
Local Open Scope Z_scope.

(* ===================== Part A: the executable model (L2) ===================== *)
Section Executable.
  Variable Item : Type.
  Variable eqb : Item -> Item -> bool.
  Hypothesis eqb_spec : forall a b, eqb a b = true <-> a = b.
  Variable hash : Item -> N.

  (* every sketch reachable by new / update / merge / round trip: t = true weight of every item, T = true total weight *)
  Theorem C12_sk_bracket : forall s t T x, SReach Item eqb hash s t T ->
    sk_lb Item eqb hash s x <= t x <= sk_ub Item eqb hash s x /\
    sk_lb Item eqb hash s x <= sk_est Item eqb hash s x <= sk_ub Item eqb hash s x /\
    sk_ub Item eqb hash s x - sk_lb Item eqb hash s x = sk_off Item s /\
    sk_tot Item s = T.
  Proof. exact (sk_bracket Item eqb eqb_spec hash). Qed.

  (* NO_FALSE_NEGATIVES (threshold >= maximum error; the default threshold IS the maximum error) *)
  Theorem C12_sk_no_false_negatives : forall s t T thr x, SReach Item eqb hash s t T ->
    sk_off Item s <= thr -> thr < t x ->
    exists c, In c (sk_rows Item true s thr) /\ ck Item c = x /\ cv Item c = sk_lb Item eqb hash s x.
  Proof. exact (sk_no_false_negatives Item eqb eqb_spec hash). Qed.

  (* NO_FALSE_POSITIVES, ANY threshold *)
  Theorem C12_sk_no_false_positives : forall s t T thr c, SReach Item eqb hash s t T ->
    In c (sk_rows Item false s thr) -> thr < t (ck Item c) /\ cv Item c = sk_lb Item eqb hash s (ck Item c).
  Proof. exact (sk_no_false_positives Item eqb eqb_spec hash). Qed.

  (* the hash map refines a finite map: get reads the counter of the key; insert adds; back-shift delete removes exactly one
     key; subtract_and_keep_positive_only = subtract everywhere, keep the positive; the iterator meets every counter once *)
  Theorem C12_map_get : forall t y, ProbeInv Item hash t ->
    tget Item eqb hash t y = a_get Item eqb (abs_ents Item t) y.
  Proof. exact (tget_abs Item eqb eqb_spec hash). Qed.

  Theorem C12_map_insert : forall t k v, ProbeInv Item hash t -> has_empty Item t ->
    let '(t', ins) := raw_insert Item eqb hash t k v in
    ProbeInv Item hash t' /\ length t' = length t /\
    (forall y, tget Item eqb hash t' y = tget Item eqb hash t y + (if eqb k y then v else 0)) /\
    (ins = true <-> absent Item t k).
  Proof. exact (raw_insert_correct Item eqb eqb_spec hash). Qed.

  Theorem C12_map_delete : forall t p c0 L, ProbeInv Item hash t -> slot Item t p = Some c0 ->
    (1 <= L < length t)%nat -> slot Item t (pos (length t) p L) = None ->
    ProbeInv Item hash (hash_delete Item t p) /\
    Permutation (abs_ents Item t) ((ck Item c0, cv Item c0) :: abs_ents Item (hash_delete Item t p)).
  Proof.
    intros t p c0 L Pi Hp HL Hn. split.
    - exact (proj1 (hash_delete_spec Item hash t p c0 L Pi Hp HL Hn)).
    - exact (hash_delete_perm Item hash t p c0 L Pi Hp HL Hn).
  Qed.

  Theorem C12_map_subtract : forall t cnt amount, ProbeInv Item hash t -> has_empty Item t ->
    let '(t', cnt') := subtract_kpo Item t cnt amount in
    ProbeInv Item hash t' /\ length t' = length t /\ has_empty Item t' /\
    Permutation (abs_ents Item t') (a_purge Item (abs_ents Item t) amount) /\
    cnt' - Z.of_nat (length (active_cells Item t')) = cnt - Z.of_nat (length (active_cells Item t)).
  Proof. exact (subtract_kpo_correct Item hash). Qed.

  Theorem C12_map_iterator : forall (m : rpmap Item) k, length (tab Item m) = (2 ^ k)%nat ->
    nact Item m = Z.of_nat (length (active_cells Item (tab Item m))) ->
    Permutation (entries Item m) (active_cells Item (tab Item m)).
  Proof. exact (entries_perm Item). Qed.

  (* epsilon: every sketch of the history has lg_max_map_size <= 10 (the purge samples the whole map); merges of a sketch with
     the same or a larger lg_max; round trips: maximum error <= 3.5 / 2^lg_max * total weight *)
  Theorem C12_sk_eps_bound : forall s, EReach Item eqb hash s ->
    2 * 2 ^ Z.of_N (lgm Item (sk_map Item s)) * sk_off Item s <= 7 * sk_tot Item s.
  Proof. exact (sk_eps_bound Item eqb eqb_spec hash). Qed.
End Executable.

(* the serialized image (byte layout compared with the C++ on every run): deserialize (serialize s) is the semantic round
   trip, so a reachable sketch that is not purged-empty comes back as a sketch with the same guarantees *)
Theorem C12_ser_roundtrip : forall kind (s : sk), SerOk kind s ->
  sk_deserialize kind (sk_serialize kind s) = Some (sk_roundtrip item item_eqb (fi_hash kind) s).
Proof. exact ser_roundtrip. Qed.

Theorem C12_ser_roundtrip_bracket : forall kind (s : sk) t T, SReach item item_eqb (fi_hash kind) s t T -> SerOk kind s ->
  nact item (sk_map item s) <> 0 \/ T = 0 ->
  exists s', sk_deserialize kind (sk_serialize kind s) = Some s' /\ SReach item item_eqb (fi_hash kind) s' t T.
Proof.
  intros kind s t T R Ok Hne. exists (sk_roundtrip item item_eqb (fi_hash kind) s).
  split; [exact (ser_roundtrip kind s Ok)|now apply SR_roundtrip].
Qed.

(* the rows printed by the model come in descending estimate order (the implementation's order is checked by the oracle) *)
Theorem C12_sk_rows_sorted : forall off (l : list (cell item)),
  StronglySorted (fun a b => cv item b + off <= cv item a + off) (rows_by_est l).
Proof. exact rows_by_est_sorted. Qed.

(* the interpreter of the line protocol itself (FiDefs.run is what is extracted): for EVERY script in which each serialize
   operation meets its side condition (fields fit the image; not purged-empty), every query answer (opcode 3: estimate, lower
   bound, upper bound, maximum error, total weight) and every dump (opcode 5: total weight) satisfies the property against the
   ghost log of exact weights *)
Theorem C12_step_ok : forall s o e, RegsOk s -> op_safe s o ->
  RegsOk (fst (step s o e)) /\ out_ok o (snd (step s o e)).
Proof. exact step_ok. Qed.

Theorem C12_run_ok : forall ops, script_safe [] ops -> Forall2 (fun oe out => out_ok (fst oe) out) ops (run ops).
Proof. exact run_ok. Qed.

(* ===================== Part B: the abstract sketch (L1), purges with ANY decrement ===================== *)
Section AnyItem.
  Variable Item : Type.
  Variable eqb : Item -> Item -> bool.
  Hypothesis eqb_spec : forall a b, eqb a b = true <-> a = b.

  (* stream: after any history (updates with positive weights, purges with any decrement >= 0), for every item x *)
  Theorem C12_fi_bracket : forall (h : list (aop Item)) (x : Item), Forall (aop_ok Item) h ->
    let s := a_run Item eqb (a_empty Item) h in
    a_lb Item eqb s x <= h_weight Item eqb h x <= a_ub Item eqb s x /\
    a_lb Item eqb s x <= a_est Item eqb s x <= a_ub Item eqb s x /\
    a_ub Item eqb s x - a_lb Item eqb s x = a_off Item s.
  Proof. exact (fi_bracket Item eqb eqb_spec). Qed.

  Theorem C12_fi_total_exact : forall h : list (aop Item),
    a_tot Item (a_run Item eqb (a_empty Item) h) = h_total Item h.
  Proof. exact (fi_total_exact Item eqb). Qed.

  (* all histories: updates, purges, merge trees, round trips.  t = true weight function, T = true total *)
  Theorem C12_fi_reach_bracket : forall s t T x, Reach Item eqb s t T ->
    a_lb Item eqb s x <= t x <= a_ub Item eqb s x /\
    a_lb Item eqb s x <= a_est Item eqb s x <= a_ub Item eqb s x /\
    a_ub Item eqb s x - a_lb Item eqb s x = a_off Item s /\
    a_tot Item s = T.
  Proof. exact (fi_reach_bracket Item eqb eqb_spec). Qed.

  (* merge: the operand's counters replayed as updates in any order, purges wherever they fall; offsets added; total fixed up *)
  Theorem C12_fi_merge_bracket : forall a ta Ta b tb Tb h x,
    Reach Item eqb a ta Ta -> Reach Item eqb b tb Tb -> replays Item eqb h b ->
    let m := a_merge Item eqb a b h in
    a_lb Item eqb m x <= ta x + tb x <= a_ub Item eqb m x /\
    a_lb Item eqb m x <= a_est Item eqb m x <= a_ub Item eqb m x /\
    a_ub Item eqb m x - a_lb Item eqb m x = a_off Item m /\
    a_tot Item m = Ta + Tb.
  Proof.
    intros a ta Ta b tb Tb h x Ha Hb Hr m.
    exact (fi_reach_bracket Item eqb eqb_spec m _ _ x (R_merge Item eqb a ta Ta b tb Tb h Ha Hb Hr)).
  Qed.

  (* serialize + deserialize (counters re-inserted without purge; offset and total restored) *)
  Theorem C12_fi_roundtrip_bracket : forall s t T h x,
    Reach Item eqb s t T -> h_nopurge Item h -> (forall y, h_weight Item eqb h y = a_get Item eqb (a_ents Item s) y) ->
    a_ents Item s <> [] ->
    let m := a_roundtrip Item eqb s h in
    a_lb Item eqb m x <= t x <= a_ub Item eqb m x /\
    a_lb Item eqb m x <= a_est Item eqb m x <= a_ub Item eqb m x /\
    a_ub Item eqb m x - a_lb Item eqb m x = a_off Item m /\
    a_tot Item m = T.
  Proof.
    intros s t T h x Hs Hn Hw Hne m.
    exact (fi_reach_bracket Item eqb eqb_spec m _ _ x (R_roundtrip Item eqb s t T h Hs Hn Hw Hne)).
  Qed.

  Theorem C12_no_false_negatives : forall s t T thr x, Reach Item eqb s t T ->
    a_off Item s <= thr -> thr < t x -> In (x, a_lb Item eqb s x) (a_rows Item true s thr).
  Proof.
    intros s t T thr x Hr. destruct (Reach_Inv Item eqb eqb_spec s t T Hr) as [Hi _].
    exact (no_false_negatives Item eqb eqb_spec s t thr x Hi).
  Qed.

  Theorem C12_no_false_positives : forall s t T thr x v, Reach Item eqb s t T ->
    In (x, v) (a_rows Item false s thr) -> thr < t x /\ v = a_lb Item eqb s x.
  Proof.
    intros s t T thr x v Hr. destruct (Reach_Inv Item eqb eqb_spec s t T Hr) as [Hi _].
    exact (no_false_positives Item eqb eqb_spec s t thr x v Hi).
  Qed.

  (* clamping the threshold to the maximum error (as the Java code does) does not change the NO_FALSE_NEGATIVES rows *)
  Theorem C12_nfn_clamp_noop : forall (s : ask Item) thr, Forall (fun kv => 0 < snd kv) (a_ents Item s) ->
    a_rows Item true s thr = a_rows Item true s (Z.max thr (a_off Item s)).
  Proof. exact (nfn_clamp_noop Item). Qed.

  (* rows come in descending estimate order *)
  Theorem C12_rows_sorted_desc : forall nfn (s : ask Item) thr,
    StronglySorted (fun p q : Item * Z => snd q + a_off Item s <= snd p + a_off Item s) (a_rows Item nfn s thr).
  Proof. exact (rows_sorted_desc Item). Qed.

  (* epsilon: map sizes up to the purge sample size (the whole map is sampled: decrement = median of all counters, purge as soon
     as more than 3/4 * 2^lg counters): maximum error <= 3.5 / 2^lg * total, for streams, merges of sketches of the same or a
     larger size, and re-layouts.  Merging a SMALLER sketch breaks it: see C12_eps_mixed_sizes_refuted *)
  Theorem C12_eps_bound : forall lg s, 3 <= lg -> DReach Item eqb (2 ^ lg * 3 / 4) s ->
    2 * 2 ^ lg * a_off Item s <= 7 * a_tot Item s.
  Proof. exact (eps_bound Item eqb eqb_spec). Qed.

  (* the deterministic update is one of the histories covered by the bracket theorems *)
  Theorem C12_det_update_is_history : forall cap (s : ask Item) x w, Forall (fun kv => 0 < snd kv) (a_ents Item s) -> 0 < w ->
    exists h, Forall (aop_ok Item) h /\ a_update_det Item eqb cap s x w = a_run Item eqb s h /\
              (forall y, h_weight Item eqb h y = if eqb x y then w else 0) /\ h_total Item h = w.
  Proof. exact (det_is_history Item eqb eqb_spec). Qed.
End AnyItem.

(* ---------- the executable L2 model (what the correspondence check runs against the C++): witnesses ---------- *)
Definition u64item (v : Z) : item := [v].
Definition feed (s : sk) (l : list (Z * Z)) : sk := fold_left (fun s xw => upd 0 s (u64item (fst xw)) (snd xw)) l s.
Definition lb0 (s : sk) (v : Z) := sk_lb item item_eqb (fi_hash 0) s (u64item v).
Definition ub0 (s : sk) (v : Z) := sk_ub item item_eqb (fi_hash 0) s (u64item v).
Definition seven_ones : list (Z * Z) := [(0,1);(1,1);(2,1);(3,1);(4,1);(5,1);(6,1)].
Definition purged_empty : sk := feed (sk_new item 3 3) seven_ones.

(* non-vacuity: a run with a purge; the heavy item keeps informative bounds, a purged item is bracketed by [0, offset] *)
Example C12_nonvacuous :
  let s := feed (sk_new item 3 3) [(9,10);(1,1);(2,2);(3,1);(4,3);(5,1);(6,1);(9,5);(1,1)] in
  sk_off _ s = 1 /\ sk_tot _ s = 25 /\ lb0 s 9 = 14 /\ ub0 s 9 = 15 /\ lb0 s 3 = 0 /\ ub0 s 3 = 1 /\ lb0 s 1 = 1 /\ ub0 s 1 = 2.
Proof. vm_compute. repeat split; reflexivity. Qed.

(* the same run is a reachable history of Part A (hypotheses of C12_sk_bracket are satisfiable), true weights 15 / 1 / 2 *)
Example C12_sk_nonvacuous :
  exists t T, SReach item item_eqb (fi_hash 0)
                (feed (sk_new item 3 3) [(9,10);(1,1);(2,2);(3,1);(4,3);(5,1);(6,1);(9,5);(1,1)]) t T /\
              t (u64item 9) = 15 /\ t (u64item 3) = 1 /\ t (u64item 1) = 2 /\ T = 25.
Proof.
  unfold feed, upd. cbn [fold_left fst snd]. eexists. eexists. split.
  - repeat (eapply SR_update; [|lia]). apply SR_new. lia.
  - vm_compute. repeat split; reflexivity.
Qed.

(* a merge of two reachable sketches, one of them purged empty (the repaired case) *)
Example C12_sk_merge_nonvacuous :
  exists t T, SReach item item_eqb (fi_hash 0)
                (sk_merge item item_eqb (fi_hash 0) (feed (sk_new item 3 3) [(100,5)]) purged_empty) t T /\
              t (u64item 0) = 1 /\ t (u64item 100) = 5 /\ T = 12.
Proof.
  unfold purged_empty, seven_ones, feed, upd. cbn [fold_left fst snd]. eexists. eexists. split.
  - eapply SR_merge; repeat (eapply SR_update; [|lia]); apply SR_new; lia.
  - vm_compute. repeat split; reflexivity.
Qed.

(* the same history satisfies the hypotheses of C12_sk_eps_bound (lg_max 3 <= 10) *)
Example C12_sk_eps_nonvacuous :
  EReach item item_eqb (fi_hash 0) (feed (sk_new item 3 3) [(9,10);(1,1);(2,2);(3,1);(4,3);(5,1);(6,1);(9,5);(1,1)]).
Proof.
  unfold feed, upd. cbn [fold_left fst snd]. repeat (eapply ER_update; [|lia]). apply ER_new; lia.
Qed.

(* a serialized image: 4 preamble longs, 2 counters of a string sketch; it is read back *)
Example C12_ser_nonvacuous :
  let s := upd 2 (upd 2 (sk_new item 4 3) [97; 98] 7) [99] 2 in
  sk_serialize 2 s = [4;1;10;4;3;0;0;0; 2;0;0;0; 0;0;0;0; 9;0;0;0;0;0;0;0; 0;0;0;0;0;0;0;0;
                      7;0;0;0;0;0;0;0; 2;0;0;0;0;0;0;0; 2;0;0;0;97;98; 1;0;0;0;99] /\
  (exists s', sk_deserialize 2 (sk_serialize 2 s) = Some s' /\ sk_lb item item_eqb (fi_hash 2) s' [97; 98] = 7).
Proof. split; [vm_compute; reflexivity|]. eexists. split; [vm_compute; reflexivity|vm_compute; reflexivity]. Qed.

(* a script (new, seven updates that trigger a purge, merge into a second sketch, queries): its side conditions hold and the
   interpreter answers est 0, lb 0, ub 1, maximum error 1, total 7 against true weight 1, true total 7 *)
Definition demo_script : list opline :=
  map (fun o => (o, [])) ([[1;0;0;3;3]] ++ map (fun i => [2;0;1;i]) [0;1;2;3;4;5;6] ++ [[1;1;0;3;3]; [2;1;5;100]; [4;1;0]; [3;0;0;0]; [3;1;0;0]]).
Example C12_run_nonvacuous :
  script_safe [] demo_script /\
  nth 11 (run demo_script) ([], []) = ([0; 0; 1; 1; 7; 0], [1; 7]) /\
  nth 12 (run demo_script) ([], []) = ([0; 0; 1; 1; 12; 1], [1; 12]).
Proof.
  split; [|split; vm_compute; reflexivity].
  unfold demo_script. cbn [map app script_safe op_safe].
  repeat (split; [intros [E|E]; discriminate|]). exact I.
Qed.

(* seven distinct items of weight 1 in a map of capacity 6: the purge (median 1) removes every counter *)
Example C12_purge_can_wipe_the_map :
  nact _ (sk_map _ purged_empty) = 0 /\ sk_tot _ purged_empty = 7 /\ sk_off _ purged_empty = 1.
Proof. vm_compute. repeat split; reflexivity. Qed.

(* serialize writes the empty form for it: the round trip forgets total and offset (known finding) *)
Example C12_roundtrip_purged_empty_refuted :
  let m := sk_roundtrip item item_eqb (fi_hash 0) purged_empty in
  sk_tot _ m = 0 /\ sk_off _ m = 0 /\ ub0 m 0 = 0.
Proof. vm_compute. repeat split; reflexivity. Qed.

(* NO_FALSE_NEGATIVES with threshold 0 < maximum error 1 returns nothing although seven items have true weight 1 > 0 *)
Example C12_nfn_small_threshold_refuted :
  sk_rows item true purged_empty 0 = [] /\ sk_off _ purged_empty = 1.
Proof. vm_compute. split; reflexivity. Qed.

(* a small sketch (lg_max 3) merged into a large one (lg_max 8): maximum error 22 > 3.5/256 * 139 *)
Example C12_eps_mixed_sizes_refuted :
  let small := feed (sk_new item 3 3) (map (fun i => (Z.of_nat (i mod 10), 1 + Z.of_nat (i mod 3))) (seq 0 70)) in
  let big := sk_merge item item_eqb (fi_hash 0) (sk_new item 8 3) small in
  sk_off _ big = 22 /\ sk_tot _ big = 139 /\ (7 * sk_tot _ big <? 2 * 2 ^ 8 * sk_off _ big) = true.
Proof. vm_compute. repeat split; reflexivity. Qed.

Print Assumptions C12_sk_bracket.
Print Assumptions C12_sk_no_false_negatives.
Print Assumptions C12_sk_no_false_positives.
Print Assumptions C12_sk_eps_bound.
Print Assumptions C12_ser_roundtrip.
Print Assumptions C12_ser_roundtrip_bracket.
Print Assumptions C12_sk_rows_sorted.
Print Assumptions C12_step_ok.
Print Assumptions C12_run_ok.
Print Assumptions C12_map_get.
Print Assumptions C12_map_insert.
Print Assumptions C12_map_delete.
Print Assumptions C12_map_subtract.
Print Assumptions C12_map_iterator.
Print Assumptions C12_fi_bracket.
Print Assumptions C12_fi_total_exact.
Print Assumptions C12_fi_reach_bracket.
Print Assumptions C12_fi_merge_bracket.
Print Assumptions C12_fi_roundtrip_bracket.
Print Assumptions C12_no_false_negatives.
Print Assumptions C12_no_false_positives.
Print Assumptions C12_nfn_clamp_noop.
Print Assumptions C12_rows_sorted_desc.
Print Assumptions C12_eps_bound.
Print Assumptions C12_det_update_is_history.
