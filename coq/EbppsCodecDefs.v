(* EbppsCodecDefs.v — executable model of the EBPPS sketch image (sampling/include/ebpps_sketch_impl.hpp,
   ebpps_sample_impl.hpp, item type int64 with the arithmetic serde): the writer serialize() (bytes and stream write the
   same image) and BOTH readers, deserialize(bytes, size) and deserialize(istream).  Doubles travel as their 64-bit
   patterns, items as 64-bit two's complement patterns.  Layout (little endian, from the comment above
   get_serialized_size_bytes):
     byte 0 preamble longs (1 = empty, 5 otherwise) | 1 serial version = 1 | 2 family id = 19 |
     3 flags (4 = EMPTY, 8 = HAS_PARTIAL_ITEM) | 4..7 k
     then, unless empty: 8..15 n | 16..23 cumulative weight | 24..31 maximum weight | 32..39 rho |
     40..47 C | 48.. the floor(C) full items, 8 bytes each | the partial item iff C is not an integer.
   The readers are modelled as REPAIRED by fixes/11_ebpps_c_range.patch + 11_ebpps_stream_state.patch + 11_ebpps_zero_c_image.patch: the stream reader tests the stream state
   after each group of fixed-size fields before using them, and both readers reject a C that is NaN or not below 2^32
   before converting it to the 32-bit item count, and a non-empty image whose C is 0.0 is rejected (the restored sketch
   could not be serialized again); the unrepaired behaviour is in Regression_ebppscodec.v.
   A read outside the supplied bytes is [rd] returning None, which makes the reader reject.  No proofs here. *)
From Coq Require Import NArith ZArith List Bool Arith.
From DS Require Import Word RunnerLib ThetaCodecDefs.
Import ListNotations.
Local Open Scope N_scope.

Record esk := { e_k : N; e_n : N; e_cw : N; e_wmax : N; e_rho : N; e_c : N; e_data : list N; e_part : option N }.

Definition MAX_K : N := 2147483646.
Definition ONE_BITS : N := 4607182418800017408.        (* 1.0 = 0x3FF0000000000000 *)
Definition two52 : N := 4503599627370496.
Definition two63 : N := 9223372036854775808.
Definition INF_BITS : N := 9218868437227405312.        (* 0x7FF0000000000000 *)

(* ebpps_sketch(k): what both readers return for an image with the EMPTY flag *)
Definition empty_sk (k : N) : esk :=
  {| e_k := k; e_n := 0; e_cw := 0; e_wmax := 0; e_rho := ONE_BITS; e_c := 0; e_data := []; e_part := None |}.

Definition sk_empty (s : esk) : bool := e_n s =? 0.                (* is_empty(): n_ == 0 *)

(* ---- the double C, read from its bit pattern ---- *)
Definition c_mag (b : N) : N := b mod two63.
Definition c_sign (b : N) : bool := N.testbit b 63.
Definition c_exp (b : N) : N := N.shiftr (c_mag b) 52.
Definition c_man (b : N) : N := b mod two52.
Definition c_is_zero (b : N) : bool := c_mag b =? 0.                (* c == 0.0 (either sign) *)
Definition c_negative (b : N) : bool :=                             (* c < 0.0: false for -0.0 and for NaN *)
  c_sign b && negb (c_mag b =? 0) && (c_mag b <=? INF_BITS).
Definition c_below_2_32 (b : N) : bool :=                           (* c < 4294967296.0 and not NaN (repaired check) *)
  (c_mag b =? 0) || (negb (c_sign b) && (c_exp b <=? 1054)).
Definition c_sig (b : N) : N := if c_exp b =? 0 then c_man b else two52 + c_man b.
Definition c_shift (b : N) : N := if c_exp b =? 0 then 1074 else 1075 - c_exp b.
Definition c_floor (b : N) : N := N.shiftr (c_sig b) (c_shift b).   (* static_cast<uint32_t>(c_int), for c_below_2_32 *)
Definition c_has_frac (b : N) : bool := negb (c_sig b mod 2 ^ c_shift b =? 0).   (* modf(c).frac != 0.0 *)

(* ---- writer ---- *)
Definition opt_list (p : option N) : list N := match p with Some x => [x] | None => [] end.
Definition sk_flags (s : esk) : N :=
  if sk_empty s then 4 else match e_part s with Some _ => 8 | None => 0 end.

Definition enc (s : esk) : list N :=
  if sk_empty s then [1; 1; 19; 4] ++ u32 (e_k s)
  else [5; 1; 19; sk_flags s] ++ u32 (e_k s) ++
       flat_map u64 ([e_n s; e_cw s; e_wmax s; e_rho s; e_c s] ++ e_data s ++ opt_list (e_part s)).

(* serialize(header_size_bytes): the header bytes are zero-initialised and precede the same image *)
Definition enc_hdr (h : nat) (s : esk) : list N := repeat 0 h ++ enc s.

(* get_serialized_size_bytes(): 8 if empty, else 40 + (c == 0.0 ? 0 : 8 + 8 * (full items + partial item)) *)
Definition serialized_size (s : esk) : N :=
  if sk_empty s then 8
  else 40 + (if c_is_zero (e_c s) then 0
             else 8 + 8 * (N.of_nat (length (e_data s)) + (match e_part s with Some _ => 1 | None => 0 end))).

(* ---- readers ---- *)
(* check_k, check_preamble_longs, check_family_and_serialization_version *)
Definition header_ok (pre ver fam fl k : N) : bool :=
  negb (k =? 0) && (k <=? MAX_K) &&
  (if N.testbit fl 2 then (pre =? 1) && negb (N.testbit fl 3) else (pre =? 5)) &&
  (fam =? 19) && (ver =? 1).

(* ebpps_sample::deserialize, given the bytes from C on; [flp] = the HAS_PARTIAL_ITEM flag of the sketch preamble.
   Returns the sample fields and the number of bytes consumed. *)
Definition dec_sample (flp : bool) (bytes : list N) : option (N * list N * option N * nat) :=
  do c <- rd 8 0 bytes;
  if c_negative c then None else
  if negb (c_below_2_32 c) then None else
  if c_is_zero c then None else                       (* repaired (11_ebpps_zero_c_image): the sketch reader rejects C == 0.0 *)
  (* the serde checks that the items fit in what is left before it copies them (the count is only then turned into a
     unary number here: a corrupted C may claim 2^32 - 1 items) *)
  if N.of_nat (length bytes) <? 8 + 8 * c_floor c then None else
  let num := N.to_nat (c_floor c) in
  do data <- rd_entries num (skipn 8 bytes);
  if c_has_frac c then
    do p <- rd 8 (8 + 8 * num) bytes;
    if flp then Some (c, data, Some p, (16 + 8 * num)%nat) else None
  else
    if flp then None else Some (c, data, None, (8 + 8 * num)%nat).

Definition mk (k n cw wmax rho : N) (smp : N * list N * option N * nat) : esk :=
  let '(c, data, p, _) := smp in
  {| e_k := k; e_n := n; e_cw := cw; e_wmax := wmax; e_rho := rho; e_c := c; e_data := data; e_part := p |}.

Definition dec_bytes (bytes : list N) : option esk :=
  if (length bytes <? 8)%nat then None else                        (* ensure_minimum_memory(size, 8) *)
  do pre <- rd 1 0 bytes; do ver <- rd 1 1 bytes; do fam <- rd 1 2 bytes; do fl <- rd 1 3 bytes;
  do k <- rd 4 4 bytes;
  if negb (header_ok pre ver fam fl k) then None else
  if (length bytes <? 8 * N.to_nat pre)%nat then None else         (* ensure_minimum_memory(size, prelongs << 3) *)
  if N.testbit fl 2 then Some (empty_sk k) else
  do n <- rd 8 8 bytes; do cw <- rd 8 16 bytes; do wmax <- rd 8 24 bytes; do rho <- rd 8 32 bytes;
  do smp <- dec_sample (N.testbit fl 3) (skipn 40 bytes);
  Some (mk k n cw wmax rho smp).

(* the stream reader; also returns the number of bytes consumed *)
Definition dec_stream (bytes : list N) : option (esk * nat) :=
  do pre <- rd 1 0 bytes; do ver <- rd 1 1 bytes; do fam <- rd 1 2 bytes; do fl <- rd 1 3 bytes;
  do k <- rd 4 4 bytes;                                            (* repaired: stream state tested here *)
  if negb (header_ok pre ver fam fl k) then None else
  if N.testbit fl 2 then Some (empty_sk k, 8%nat) else
  do n <- rd 8 8 bytes; do cw <- rd 8 16 bytes; do wmax <- rd 8 24 bytes; do rho <- rd 8 32 bytes;   (* ... and here *)
  do smp <- dec_sample (N.testbit fl 3) (skipn 40 bytes);          (* ... and after C *)
  Some (mk k n cw wmax rho smp, (40 + snd smp)%nat).

(* ---- line protocol ----
   op 1 r k (item wbits)*          : the harness builds the sketch; env = k n cw wmax rho c ndata data.. haspart [part];
                                     R = image bytes
   op 5 r path cut pos val ntrail  : image of r truncated to cut bytes (cut < 0: whole), byte pos replaced by val (pos < 0: none),
                                     ntrail bytes 0xA5 appended, read through path 0 (bytes) / 1 (stream)
   op 3 byte*                      : explicit image, bytes path;   op 4 byte* : stream path   (op 6: bytes path, no allocation guard)
   a decoded sketch is shown as 1 [used] reser k n cw wmax rho c ndata data.. haspart [part]
   (reser = 1 iff the decoded sketch serializes to the bytes it was read from) *)
Local Open Scope Z_scope.

Definition esk_of_env (e : list Z) : option esk :=
  match e with
  | k :: n :: cw :: wmax :: rho :: c :: nd :: rest =>
      let nd' := Z.to_nat nd in
      let data := map zN (firstn nd' rest) in
      match skipn nd' rest with
      | [0] => Some {| e_k := zN k; e_n := zN n; e_cw := zN cw; e_wmax := zN wmax; e_rho := zN rho; e_c := zN c;
                       e_data := data; e_part := None |}
      | [1; p] => Some {| e_k := zN k; e_n := zN n; e_cw := zN cw; e_wmax := zN wmax; e_rho := zN rho; e_c := zN c;
                          e_data := data; e_part := Some (zN p) |}
      | _ => None
      end
  | _ => None
  end.

Definition show (s : esk) : list Z :=
  [Nz (e_k s); Nz (e_n s); Nz (e_cw s); Nz (e_wmax s); Nz (e_rho s); Nz (e_c s); Z.of_nat (length (e_data s))] ++
  map Nz (e_data s) ++ (match e_part s with Some p => [1; Nz p] | None => [0] end).

Fixpoint list_eqb (a b : list N) : bool :=
  match a, b with
  | [], [] => true
  | x :: a', y :: b' => N.eqb x y && list_eqb a' b'
  | _, _ => false
  end.

Definition reser (s : esk) (bytes : list N) : Z :=
  let img := enc s in bz (list_eqb img (firstn (length img) (map w8 bytes))).

Definition set_nth (n : nat) (v : N) (l : list N) : list N := upd_nth n (fun _ => v) l.

Definition mangle (img : list N) (cut pos val ntrail : Z) : list N :=
  let a := if cut <? 0 then img else firstn (Z.to_nat cut) img in
  let b := if pos <? 0 then a else set_nth (Z.to_nat pos) (zN val) a in
  b ++ repeat 165%N (Z.to_nat ntrail).

(* the harness does not replay inputs whose only effect is an allocation above 16 MiB from a header field (k reserved by
   the constructor on the EMPTY path, floor(C) items allocated before the size check): it answers -8; the model applies the
   same guard so that the transcripts agree (the finding is replayed once, unguarded, by op 6) *)
Definition ALLOC_CAP : N := 16777216.
Definition alloc_guard (bytes : list N) : bool :=
  match rd 1 3 bytes, rd 4 4 bytes with
  | Some fl, Some k =>
      (N.testbit fl 2 && (1 <=? k)%N && (k <=? MAX_K)%N && (ALLOC_CAP <? 8 * k)%N) ||
      (negb (N.testbit fl 2) &&
       match rd 8 40 bytes with
       | Some c => negb (c_negative c) && c_below_2_32 c && (ALLOC_CAP <? 8 * c_floor c)%N
       | None => false
       end)
  | _, _ => false
  end.

Definition show_dec_raw (path : Z) (bytes : list N) : list Z :=
  if path =? 0 then
    match dec_bytes bytes with Some s => 1 :: reser s bytes :: show s | None => refused end
  else
    match dec_stream bytes with Some (s, used) => 1 :: Z.of_nat used :: reser s bytes :: show s | None => refused end.

Definition show_dec (path : Z) (bytes : list N) : list Z :=
  if alloc_guard bytes then [-8] else show_dec_raw path bytes.

Definition step (st : list (Z * esk)) (o e : line) : list (Z * esk) * outline :=
  match o with
  | 1 :: r :: _ =>
      match esk_of_env e with
      | Some s => (reg_set st r s, (map Nz (enc s), []))
      | None => (st, (refused, []))
      end
  | 5 :: r :: path :: cut :: pos :: val :: ntrail :: _ =>
      match reg_get st r with
      | Some s => (st, (show_dec path (mangle (enc s) cut pos val ntrail), []))
      | None => (st, (refused, []))
      end
  | 3 :: bytes => (st, (show_dec 0 (map zN bytes), []))
  | 4 :: bytes => (st, (show_dec 1 (map zN bytes), []))
  | 6 :: bytes => (st, (show_dec_raw 0 (map zN bytes), []))
  | _ => (st, ([-2], []))
  end.

Definition run (ops : list opline) : list outline := run_case step [] ops.
