(* ThetaCodecProofs3.v — the compact Theta codec: documented layout of the version-3 and version-4 images,
   and the legacy serial versions 1 and 2 (writers defined from the layout the readers document). *)
From Coq Require Import NArith ZArith List Bool Arith Lia.
From DS Require Import Word RunnerLib BitPackLang BitPackProofs BitPackSpec ThetaCodecDefs ThetaCodecProofs ThetaCodecProofs2.
Import ListNotations.
Local Open Scope N_scope.


(* ---------- documented layout of the version-3 image ---------- *)
Lemma rd_skip n (a l : list N) off : rd n (length a + off) (a ++ l) = rd n off l.
Proof.
  unfold rd. rewrite app_length.
  replace (length a + off + n <=? length a + length l)%nat with (off + n <=? length l)%nat.
  2:{ destruct (Nat.leb_spec (off + n) (length l)), (Nat.leb_spec (length a + off + n) (length a + length l)); lia || reflexivity. }
  rewrite skipn_app. rewrite skipn_all2 by lia. replace (length a + off - length a)%nat with off by lia. reflexivity.
Qed.

Lemma rd_flat ents : Forall (fun e => e < two64) ents -> forall i rest, (i < length ents)%nat ->
  rd 8 (8 * i) (flat_map u64 ents ++ rest) = Some (nth i ents 0).
Proof.
  induction 1 as [|e r He Hr IH]; intros i rest Hi; [cbn [length] in Hi; lia|].
  cbn [flat_map]. rewrite <- app_assoc. destruct i as [|i].
  - eapply (rd_at 8 0 _ [] (u64 e)); try reflexivity. now apply u64_rt.
  - replace (8 * S i)%nat with (length (u64 e) + 8 * i)%nat by (unfold u64; rewrite N_to_le_bytes_length; lia).
    rewrite rd_skip. cbn [nth]. apply IH. cbn [length] in Hi. lia.
Qed.

Lemma enc_v3_split s : exists hd, enc_v3 s = hd ++ flat_map u64 (k_entries s) /\
  length hd = (8 * N.to_nat (pre_longs_v3 s))%nat.
Proof.
  unfold enc_v3.
  exists ([pre_longs_v3 s; 3; 3; 0; 0; flags_v3 s] ++ u16 (k_seed_hash s) ++
          (if 1 <? pre_longs_v3 s then u32 (nent s) ++ [0; 0; 0; 0] else []) ++
          (if est_mode s then u64 (k_theta s) else [])).
  split; [now rewrite <- !app_assoc|].
  unfold pre_longs_v3. destruct (est_mode s); [|destruct (k_empty s || (nent s =? 1))]; reflexivity.
Qed.

Theorem v3_layout s rest : wf s ->
  let img := enc_v3 s ++ rest in
  nth 0 img 0 = pre_longs_v3 s /\ nth 1 img 0 = 3 /\ nth 2 img 0 = 3 /\ nth 5 img 0 = flags_v3 s /\
  N.testbit (flags_v3 s) 0 = false /\ N.testbit (flags_v3 s) 1 = true /\ N.testbit (flags_v3 s) 2 = k_empty s /\
  N.testbit (flags_v3 s) 3 = true /\ N.testbit (flags_v3 s) 4 = k_ordered s /\
  rd 2 6 img = Some (k_seed_hash s) /\
  (1 < pre_longs_v3 s -> rd 4 8 img = Some (nent s)) /\
  (est_mode s = true -> pre_longs_v3 s = 3 /\ rd 8 16 img = Some (k_theta s)) /\
  (forall i, (i < length (k_entries s))%nat ->
     rd 8 (8 * N.to_nat (pre_longs_v3 s) + 8 * i) img = Some (nth i (k_entries s) 0)).
Proof.
  intros Hwf img. pose proof Hwf as (Hsh & Hth & Hents & Hn & Hemp & Hord).
  destruct (v3_header s rest Hsh) as (H0 & H1 & H2 & H5 & H6 & Hl).
  refine (conj eq_refl (conj eq_refl (conj eq_refl (conj eq_refl _)))).
  split; [unfold flags_v3; destruct (k_empty s), (k_ordered s); reflexivity|].
  split; [unfold flags_v3; destruct (k_empty s), (k_ordered s); reflexivity|].
  split; [apply flags_bit2|].
  split; [unfold flags_v3; destruct (k_empty s), (k_ordered s); reflexivity|].
  split; [apply flags_bit4|].
  split; [exact H6|].
  split; [|split].
  - intros Hpre. destruct (v3_shapes s rest Hwf) as [Hem He Hp Hb2 Hlen | e0 Hem Hest He Hp Hb2 Hr Hlen
      | Hem Hest Hp Hn1 Hb2 Hr Hr' Hsk Hlen | Hem Hest Hp Hb2 Hr Hr' Hrt Hsk Hlen]; try assumption; rewrite Hp in Hpre; lia.
  - intros Hest. destruct (v3_shapes s rest Hwf) as [Hem He Hp Hb2 Hlen | e0 Hem Hest' He Hp Hb2 Hr Hlen
      | Hem Hest' Hp Hn1 Hb2 Hr Hr' Hsk Hlen | Hem Hest' Hp Hb2 Hr Hr' Hrt Hsk Hlen]; try congruence.
    + apply est_not_empty in Hest. congruence.
    + split; assumption.
  - intros i Hi. subst img. destruct (enc_v3_split s) as [hd [-> Hhd]]. rewrite <- Hhd, <- app_assoc, rd_skip.
    now apply rd_flat.
Qed.

(* ---------- documented layout of the version-4 image ---------- *)
Theorem v4_layout s img : wf4 s -> suitable_for_compression s = true -> enc_v4 s = Some img ->
  nth 0 img 0 = (if est_mode s then 2 else 1) /\ nth 1 img 0 = 4 /\ nth 2 img 0 = 3 /\
  nth 3 img 0 = entry_bits s /\ nth 4 img 0 = num_entries_bytes s /\ nth 5 img 0 = 26 /\
  1 <= entry_bits s <= 63 /\ 1 <= num_entries_bytes s <= 4 /\
  rd 2 6 img = Some (k_seed_hash s) /\
  (est_mode s = true -> rd 8 8 img = Some (k_theta s)) /\
  rd (N.to_nat (num_entries_bytes s)) (if est_mode s then 16 else 8) img = Some (nent s) /\
  pack_all (S (length (k_entries s))) (N.to_nat (entry_bits s)) (deltas 0 (k_entries s)) =
    Some (skipn ((if est_mode s then 16 else 8) + N.to_nat (num_entries_bytes s)) img).
Proof.
  intros Hwf4 Hs Himg. destruct (suitable_facts s Hs) as (Ho & Hn0 & Hne).
  pose proof Hwf4 as (Hwf & _). pose proof Hwf as (_ & _ & _ & Hnn & _).
  unfold enc_v4 in Himg.
  destruct (pack_all _ _ _) as [packed|] eqn:Hp; [|discriminate]. apply some_inj' in Himg.
  assert (Hi : img = v4_head s ++ packed) by (subst img; unfold v4_head, v4_pre; now rewrite <- !app_assoc).
  clear Himg. subst img.
  destruct (v4_header s packed Hwf4 Hne) as (H0 & H1 & H2 & H3 & H4 & H5 & H6 & Hl & Hth & Hcnt & Hsk).
  refine (conj eq_refl (conj eq_refl (conj eq_refl (conj eq_refl (conj eq_refl (conj eq_refl _)))))).
  split; [now apply entry_bits_range|].
  split; [exact (proj1 (neb_range s Hnn Hn0))|].
  split; [exact H6|]. split; [exact Hth|]. split; [exact Hcnt|].
  fold (v4_doff s). rewrite Hsk. reflexivity.
Qed.

(* ---------- serial versions 1 and 2, written from the layout the readers document ---------- *)
Definition enc_v1 (s : csk) : list N :=
  [3; 1; 3; 0; 0; 0; 0; 0] ++ u32 (nent s) ++ [0; 0; 0; 0] ++ u64 (k_theta s) ++ flat_map u64 (k_entries s).

Definition pre_longs_v2 (s : csk) : N :=
  if k_theta s =? MAX_THETA then (if nent s =? 0 then 1 else 2) else 3.

Definition enc_v2 (s : csk) : list N :=
  let pre := pre_longs_v2 s in
  [pre; 2; 3; 0; 0; 0] ++ u16 (k_seed_hash s) ++
  (if 2 <=? pre then u32 (nent s) ++ [0; 0; 0; 0] else []) ++
  (if pre =? 3 then u64 (k_theta s) else []) ++
  flat_map u64 (k_entries s).

(* what the readers report for a legacy image: always ordered; empty iff no entries and theta = MAX_THETA;
   version 1 stores no seed hash, the reader fills in the expected one *)
Definition upgrade (sh : N) (s : csk) : csk :=
  mk ((nent s =? 0) && (k_theta s =? MAX_THETA)) true sh (k_theta s) (k_entries s).

Definition ranges (s : csk) : Prop :=
  k_seed_hash s < 65536 /\ k_theta s < two64 /\ Forall (fun e => e < two64) (k_entries s) /\ nent s < two32.

Lemma wf_ranges s : wf s -> ranges s.
Proof. intros Hwf. pose proof (wf_theta64 s Hwf). destruct Hwf as (? & ? & ? & ? & _). repeat split; assumption. Qed.

Lemma nent0_nil s : nent s = 0 -> k_entries s = [].
Proof. unfold nent. destruct (k_entries s); [reflexivity|cbn [length]; lia]. Qed.

Theorem v1_readable s e rest : ranges s ->
  dec_bytes e (enc_v1 s ++ rest) = Some (upgrade e s) /\
  dec_stream e (enc_v1 s ++ rest) = Some (upgrade e s, length (enc_v1 s)).
Proof.
  intros (Hsh & Hth & Hents & Hn). unfold enc_v1.
  set (img := (_ ++ _) ++ rest).
  assert (Himg : img = [3; 1; 3; 0; 0; 0; 0; 0] ++ u32 (nent s) ++ [0; 0; 0; 0] ++ u64 (k_theta s) ++
                       flat_map u64 (k_entries s) ++ rest) by (subst img; now rewrite <- !app_assoc).
  assert (H0 : rd 1 0 img = Some 3) by (eapply (rd_at 1 0 _ [] [_]); [exact Himg|reflexivity..]).
  assert (H1 : rd 1 1 img = Some 1) by (eapply (rd_at 1 1 _ [_] [_]); [exact Himg|reflexivity..]).
  assert (H2 : rd 1 2 img = Some 3) by (eapply (rd_at 1 2 _ [_;_] [_]); [exact Himg|reflexivity..]).
  assert (Hc : rd 4 8 img = Some (nent s)).
  { eapply (rd_at 4 8 _ [_;_;_;_;_;_;_;_] (u32 _)); [exact Himg|reflexivity..|]. now apply u32_rt. }
  assert (Ht : rd 8 16 img = Some (k_theta s)).
  { eapply (rd_at3 8 16 _ [_;_;_;_;_;_;_;_] (u32 _) [0;0;0;0] (u64 _)); [exact Himg|reflexivity..|]. now apply u64_rt. }
  assert (Hsk : skipn 24 img = flat_map u64 (k_entries s) ++ rest).
  { rewrite Himg. apply (skipn_app4 24 [_;_;_;_;_;_;_;_] (u32 _) [0;0;0;0] (u64 _)). reflexivity. }
  assert (Hlen : length img = (24 + 8 * length (k_entries s) + length rest)%nat).
  { rewrite Himg, !app_length, flat_u64_length. cbn [length]. unfold u32, u64. rewrite !N_to_le_bytes_length. lia. }
  assert (Hlen1 : length ([3; 1; 3; 0; 0; 0; 0; 0] ++ u32 (nent s) ++ [0; 0; 0; 0] ++ u64 (k_theta s) ++
                       flat_map u64 (k_entries s)) = (24 + 8 * length (k_entries s))%nat).
  { rewrite !app_length, flat_u64_length. cbn [length]. unfold u32, u64. rewrite !N_to_le_bytes_length. lia. }
  assert (Htm : too_many (nent s) 8 (length img) = false).
  { unfold too_many. apply N.ltb_ge. rewrite Hlen. unfold nent. lia. }
  split.
  - unfold dec_bytes. destruct (Nat.ltb_spec (length img) 8); [lia|].
    rewrite H0, H1, H2. cbn [bind]. change (negb (3 =? 3)) with false. cbv iota.
    change (1 =? 4) with false. change (1 =? 3) with false. change (1 =? 1) with true. cbv iota.
    rewrite Hc, Ht. cbn [bind]. unfold upgrade.
    destruct ((nent s =? 0) && (k_theta s =? MAX_THETA)) eqn:Eem.
    + apply andb_prop in Eem. destruct Eem as [En _]. apply N.eqb_eq in En. now rewrite (nent0_nil s En).
    + rewrite Htm, Hsk, nent_to_nat, rd_entries_flat by assumption. reflexivity.
  - unfold dec_stream.
    rewrite H0, H1, H2. cbn [bind]. change (negb (3 =? 3)) with false. cbv iota.
    change (1 =? 4) with false. change (1 =? 3) with false. change (1 =? 1) with true. cbv iota.
    rewrite Hc, Ht. cbn [bind]. unfold upgrade. rewrite Hlen1.
    destruct ((nent s =? 0) && (k_theta s =? MAX_THETA)) eqn:Eem.
    + apply andb_prop in Eem. destruct Eem as [En _]. apply N.eqb_eq in En. rewrite (nent0_nil s En). reflexivity.
    + rewrite Htm, Hsk, nent_to_nat, rd_entries_flat by assumption. reflexivity.
Qed.

Theorem v2_readable s rest : ranges s ->
  dec_bytes (k_seed_hash s) (enc_v2 s ++ rest) = Some (upgrade (k_seed_hash s) s) /\
  dec_stream (k_seed_hash s) (enc_v2 s ++ rest) = Some (upgrade (k_seed_hash s) s, length (enc_v2 s)).
Proof.
  intros (Hsh & Hth & Hents & Hn). unfold enc_v2.
  set (pre := pre_longs_v2 s).
  set (C := if 2 <=? pre then _ else _). set (T := if pre =? 3 then _ else _).
  set (img := (_ ++ _) ++ rest).
  assert (Himg : img = [pre; 2; 3; 0; 0; 0] ++ u16 (k_seed_hash s) ++ C ++ T ++
                       flat_map u64 (k_entries s) ++ rest) by (subst img; now rewrite <- !app_assoc).
  assert (Hpre : pre < 256) by (subst pre; unfold pre_longs_v2; destruct (k_theta s =? MAX_THETA), (nent s =? 0); reflexivity).
  assert (H0 : rd 1 0 img = Some pre) by (eapply (rd_at 1 0 _ [] [_]); [exact Himg|reflexivity..|now apply le1]).
  assert (H1 : rd 1 1 img = Some 2) by (eapply (rd_at 1 1 _ [_] [_]); [exact Himg|reflexivity..]).
  assert (H2 : rd 1 2 img = Some 3) by (eapply (rd_at 1 2 _ [_;_] [_]); [exact Himg|reflexivity..]).
  assert (H6 : rd 2 6 img = Some (k_seed_hash s)).
  { eapply (rd_at 2 6 _ [_;_;_;_;_;_] (u16 _)); [exact Himg|reflexivity..|]. now apply u16_rt. }
  assert (H8 : (8 <= length img)%nat).
  { rewrite Himg, !app_length. cbn [length]. unfold u16. rewrite N_to_le_bytes_length. lia. }
  assert (Hdb : dec_bytes (k_seed_hash s) img =
     if pre =? 1 then Some (mk true true (k_seed_hash s) MAX_THETA [])
     else if pre =? 2 then
      if (length img <? 16)%nat then None else
      do n <- rd 4 8 img;
      if n =? 0 then Some (mk true true (k_seed_hash s) MAX_THETA []) else
      if too_many n 8 (length img) then None else
      do ents <- rd_entries (N.to_nat n) (skipn 16 img);
      Some (mk false true (k_seed_hash s) MAX_THETA ents)
    else if pre =? 3 then
      do n <- rd 4 8 img; do theta <- rd 8 16 img;
      if (n =? 0) && (theta =? MAX_THETA) then Some (mk true true (k_seed_hash s) theta []) else
      if too_many n 8 (length img) then None else
      do ents <- rd_entries (N.to_nat n) (skipn 24 img);
      Some (mk false true (k_seed_hash s) theta ents)
    else None).
  { unfold dec_bytes. destruct (Nat.ltb_spec (length img) 8); [lia|].
    rewrite H0, H1, H2. cbn [bind]. change (negb (3 =? 3)) with false. cbv iota.
    change (2 =? 4) with false. change (2 =? 3) with false. change (2 =? 1) with false. change (2 =? 2) with true.
    cbv iota. rewrite H6. cbn [bind]. rewrite N.eqb_refl. reflexivity. }
  assert (Hds : dec_stream (k_seed_hash s) img =
     if pre =? 1 then Some (mk true true (k_seed_hash s) MAX_THETA [], 8%nat)
     else if pre =? 2 then
      do n <- rd 4 8 img; do unused <- rd 4 12 img;
      if n =? 0 then Some (mk true true (k_seed_hash s) MAX_THETA [], 16%nat) else
      if too_many n 8 (length img) then None else
      do ents <- rd_entries (N.to_nat n) (skipn 16 img);
      Some (mk false true (k_seed_hash s) MAX_THETA ents, (16 + 8 * N.to_nat n)%nat)
    else if pre =? 3 then
      do n <- rd 4 8 img; do theta <- rd 8 16 img;
      if (n =? 0) && (theta =? MAX_THETA) then Some (mk true true (k_seed_hash s) theta [], 24%nat) else
      if too_many n 8 (length img) then None else
      do ents <- rd_entries (N.to_nat n) (skipn 24 img);
      Some (mk false true (k_seed_hash s) theta ents, (24 + 8 * N.to_nat n)%nat)
    else None).
  { unfold dec_stream.
    rewrite H0, H1, H2. cbn [bind]. change (negb (3 =? 3)) with false. cbv iota.
    change (2 =? 4) with false. change (2 =? 3) with false. change (2 =? 1) with false. change (2 =? 2) with true.
    cbv iota. rewrite H6. cbn [bind]. rewrite N.eqb_refl. reflexivity. }
  rewrite Hdb, Hds. clear Hdb Hds. unfold upgrade.
  subst pre C T. unfold pre_longs_v2 in *.
  destruct (k_theta s =? MAX_THETA) eqn:Et; [destruct (nent s =? 0) eqn:En|].
  - (* one preamble long: empty *)
    apply N.eqb_eq in Et, En. rewrite (nent0_nil s En), Et. split; reflexivity.
  - (* two preamble longs: exact mode *)
    apply N.eqb_eq in Et. rewrite Et in *.
    change (2 =? 1) with false. change (2 =? 2) with true. cbv iota. cbn [andb].
    change (2 <=? 2) with true in *. change (2 =? 3) with false in *. cbv iota in Himg. cbv iota.
    assert (Hc : rd 4 8 img = Some (nent s)).
    { eapply (rd_at2 4 8 _ [_;_;_;_;_;_] (u16 _) (u32 _)); [rewrite Himg, <- !app_assoc; reflexivity|reflexivity..|]. now apply u32_rt. }
    assert (Hu : rd 4 12 img = Some 0).
    { eapply (rd_at3 4 12 _ [_;_;_;_;_;_] (u16 _) (u32 _) [0;0;0;0]); [rewrite Himg, <- !app_assoc; reflexivity|reflexivity..]. }
    assert (Hsk : skipn 16 img = flat_map u64 (k_entries s) ++ rest).
    { rewrite Himg. apply (skipn_app4 16 [_;_;_;_;_;_] (u16 _) (u32 _ ++ [0;0;0;0]) []). reflexivity. }
    assert (Htm : too_many (nent s) 8 (length img) = false).
    { unfold too_many. apply N.ltb_ge. rewrite Himg, !app_length, flat_u64_length. unfold nent. lia. }
    assert (Hg16 : (length img <? 16)%nat = false).
    { apply Nat.ltb_ge. rewrite Himg, !app_length. cbn [length]. unfold u16, u32. rewrite !N_to_le_bytes_length. lia. }
    rewrite Hg16, Hc, Hu. cbn [bind]. rewrite En, Htm, Hsk, nent_to_nat, rd_entries_flat by assumption. cbn [bind].
    split; [reflexivity|]. f_equal. f_equal.
    rewrite !app_length, flat_u64_length. reflexivity.
  - (* three preamble longs: estimation mode *)
    change (3 =? 1) with false. change (3 =? 2) with false. change (3 =? 3) with true in *.
    change (2 <=? 3) with true in *. cbv iota in Himg. cbv iota. rewrite andb_false_r.
    assert (Hc : rd 4 8 img = Some (nent s)).
    { eapply (rd_at2 4 8 _ [_;_;_;_;_;_] (u16 _) (u32 _)); [rewrite Himg, <- !app_assoc; reflexivity|reflexivity..|]. now apply u32_rt. }
    assert (Ht : rd 8 16 img = Some (k_theta s)).
    { eapply (rd_at4 8 16 _ [_;_;_;_;_;_] (u16 _) (u32 _) [0;0;0;0] (u64 _)); [rewrite Himg, <- !app_assoc; reflexivity|reflexivity..|]. now apply u64_rt. }
    assert (Hsk : skipn 24 img = flat_map u64 (k_entries s) ++ rest).
    { rewrite Himg. apply (skipn_app4 24 [_;_;_;_;_;_] (u16 _) (u32 _ ++ [0;0;0;0]) (u64 _)). reflexivity. }
    assert (Htm : too_many (nent s) 8 (length img) = false).
    { unfold too_many. apply N.ltb_ge. rewrite Himg, !app_length, flat_u64_length. unfold nent. lia. }
    rewrite Hc, Ht. cbn [bind]. rewrite Et, andb_false_r, Htm, Hsk, nent_to_nat, rd_entries_flat by assumption. cbn [bind].
    split; [reflexivity|]. f_equal. f_equal.
    rewrite !app_length, flat_u64_length. reflexivity.
Qed.
