(* TupleErase.v — a tuple sketch retains exactly the keys of a Theta sketch with the same configuration fed the same
   keys: two runs of the table model with DIFFERENT payload types, payload functions and nth_element implementations
   (each only assumed to meet the postcondition) on histories of the same shape (same hashes, trims and resets at the
   same places) agree on lg_cur_size, theta, is_empty, num_entries and the set of retained keys.
   Proved at the abstract level L1: the observable part of an L1 step is determined by the keys ([sim_step]). *)
From Coq Require Import ZArith NArith List Bool Lia Permutation Sorted Arith.
From DS Require Import Word RunnerLib OpenAddr KSmallest Canon ThetaDefs ThetaProofs ThetaRefine ThetaFacts.
Import ListNotations.
Local Open Scope N_scope.

Definition oshape {S} (o : op S) : N + bool :=
  match o with OpUpdate h _ => inl h | OpTrim => inr true | OpReset => inr false end.

Section Count.
  Definition cnt (t : N) (K : list N) : nat := length (filter (fun k => k <? t) K).

  Lemma cnt_perm t K K' : Permutation K K' -> cnt t K = cnt t K'.
  Proof. intros H. unfold cnt. apply Permutation_length. now apply Permutation_filter. Qed.

  Lemma cnt_lt t1 t2 K : NoDup K -> In t1 K -> t1 < t2 -> (cnt t1 K < cnt t2 K)%nat.
  Proof.
    intros Hnd Hin Hlt. unfold cnt.
    assert (Hnd1 : NoDup (t1 :: filter (fun k => k <? t1) K)).
    { constructor; [|now apply NoDup_filter]. rewrite filter_In. intros [_ H]. apply N.ltb_lt in H. lia. }
    assert (Hincl : incl (t1 :: filter (fun k => k <? t1) K) (filter (fun k => k <? t2) K)).
    { intros x [<-|Hx]; rewrite filter_In in *.
      - split; [auto|]. now apply N.ltb_lt.
      - destruct Hx as [Hx H]. split; [auto|]. apply N.ltb_lt in H. apply N.ltb_lt. lia. }
    pose proof (NoDup_incl_length Hnd1 Hincl) as H. simpl in H. lia.
  Qed.

  Lemma cnt_unique t1 t2 K : NoDup K -> In t1 K -> In t2 K -> cnt t1 K = cnt t2 K -> t1 = t2.
  Proof.
    intros Hnd H1 H2 E. destruct (N.lt_trichotomy t1 t2) as [H|[H|H]]; auto.
    - pose proof (cnt_lt t1 t2 K Hnd H1 H). lia.
    - pose proof (cnt_lt t2 t1 K Hnd H2 H). lia.
  Qed.
End Count.

Lemma keys_filter_lt {S} t (l : list (N * S)) :
  map fst (filter (fun e => fst e <? t) l) = filter (fun k => k <? t) (map fst l).
Proof. induction l as [|a l IH]; simpl; auto. destruct (fst a <? t); simpl; now rewrite IH. Qed.

Section Sim.
  Variables lgn r th0 : N.

  (* the observable part of a step, as a function of the keys only *)
  Definition post_rebuild (K1 : list N) (t' : N) (K' : list N) : Prop :=
    In t' K1 /\ cnt t' K1 = knat lgn /\ Permutation K' (filter (fun k => k <? t') K1).

  Definition kpost (lgc theta : N) (e : bool) (K : list N) (sh : N + bool)
                   (lgc' theta' : N) (e' : bool) (K' : list N) : Prop :=
    match sh with
    | inl h64 =>
        let h := h64 / 2 in
        e' = false /\
        if (theta <=? h) || (h =? 0) then lgc' = lgc /\ theta' = theta /\ Permutation K' K
        else if existsb (N.eqb h) K then lgc' = lgc /\ theta' = theta /\ Permutation K' K
        else if N.of_nat (length K) + 1 <=? capacity lgc lgn then lgc' = lgc /\ theta' = theta /\ Permutation K' (h :: K)
        else if lgc <=? lgn then lgc' = N.min (lgc + r) (lgn + 1) /\ theta' = theta /\ Permutation K' (h :: K)
        else lgc' = lgc /\ post_rebuild (h :: K) theta' K'
    | inr true =>
        e' = e /\ lgc' = lgc /\
        if N.of_nat (length K) <=? kN lgn then theta' = theta /\ Permutation K' K else post_rebuild K theta' K'
    | inr false => lgc' = start_lg lgn r /\ theta' = th0 /\ e' = true /\ K' = []
    end.

  Lemma existsb_in h K : existsb (N.eqb h) K = true <-> In h K.
  Proof.
    rewrite existsb_exists. split.
    - intros (x & Hx & E). apply N.eqb_eq in E. now subst.
    - intros H. exists h. split; [auto|apply N.eqb_refl].
  Qed.

  Lemma existsb_perm h K K' : Permutation K K' -> existsb (N.eqb h) K = existsb (N.eqb h) K'.
  Proof.
    intros Hp. destruct (existsb (N.eqb h) K) eqn:E1, (existsb (N.eqb h) K') eqn:E2; auto.
    - apply existsb_in in E1. apply (perm_in_iff h Hp) in E1. apply existsb_in in E1. congruence.
    - apply existsb_in in E2. apply (perm_in_iff h Hp) in E2. apply existsb_in in E2. congruence.
  Qed.

  Lemma post_rebuild_perm K1 K2 t K' : Permutation K1 K2 -> post_rebuild K1 t K' -> post_rebuild K2 t K'.
  Proof.
    intros Hp (H1 & H2 & H3). split; [|split].
    - eapply Permutation_in; eauto.
    - now rewrite <- (cnt_perm t _ _ Hp).
    - eapply perm_trans; [exact H3|]. now apply Permutation_filter.
  Qed.

  Lemma post_rebuild_det K1 t1 t2 Ka Kb : NoDup K1 -> post_rebuild K1 t1 Ka -> post_rebuild K1 t2 Kb ->
    t1 = t2 /\ Permutation Ka Kb.
  Proof.
    intros Hnd (A1 & A2 & A3) (B1 & B2 & B3).
    assert (E : t1 = t2) by (apply (cnt_unique t1 t2 K1); auto; congruence). subst t2.
    split; [reflexivity|]. eapply perm_trans; [exact A3|]. now symmetry.
  Qed.

  (* the observable part of a step is determined by the keys *)
  Lemma kpost_det lgc theta e K K2 sh l1 t1 e1 K1' l2 t2 e2 K2' :
    Permutation K K2 -> NoDup K ->
    kpost lgc theta e K sh l1 t1 e1 K1' -> kpost lgc theta e K2 sh l2 t2 e2 K2' ->
    l1 = l2 /\ t1 = t2 /\ e1 = e2 /\ Permutation K1' K2'.
  Proof.
    intros Hp Hnd H1 H2. unfold kpost in *. destruct sh as [h64|[|]].
    - cbv zeta in H1, H2. destruct H1 as [-> H1]. destruct H2 as [-> H2].
      rewrite <- (existsb_perm _ _ _ Hp), <- (Permutation_length Hp) in H2.
      destruct ((theta <=? h64 / 2) || (h64 / 2 =? 0)).
      { destruct H1 as (-> & -> & P1), H2 as (-> & -> & P2). repeat split; auto.
        eapply perm_trans; [exact P1|]. eapply perm_trans; [exact Hp|]. now symmetry. }
      destruct (existsb (N.eqb (h64 / 2)) K) eqn:Eex.
      { destruct H1 as (-> & -> & P1), H2 as (-> & -> & P2). repeat split; auto.
        eapply perm_trans; [exact P1|]. eapply perm_trans; [exact Hp|]. now symmetry. }
      assert (Hp1 : Permutation (h64 / 2 :: K) (h64 / 2 :: K2)) by now constructor.
      destruct (N.of_nat (length K) + 1 <=? capacity lgc lgn).
      { destruct H1 as (-> & -> & P1), H2 as (-> & -> & P2). repeat split; auto.
        eapply perm_trans; [exact P1|]. eapply perm_trans; [exact Hp1|]. now symmetry. }
      destruct (lgc <=? lgn).
      { destruct H1 as (-> & -> & P1), H2 as (-> & -> & P2). repeat split; auto.
        eapply perm_trans; [exact P1|]. eapply perm_trans; [exact Hp1|]. now symmetry. }
      destruct H1 as (-> & R1), H2 as (-> & R2).
      apply (post_rebuild_perm _ _ _ _ (Permutation_sym Hp1)) in R2.
      assert (Hnd1 : NoDup (h64 / 2 :: K)).
      { constructor; auto. intros Hin. apply existsb_in in Hin. congruence. }
      destruct (post_rebuild_det _ _ _ _ _ Hnd1 R1 R2) as [-> P]. auto.
    - destruct H1 as (-> & -> & H1), H2 as (-> & -> & H2). rewrite <- (Permutation_length Hp) in H2.
      destruct (N.of_nat (length K) <=? kN lgn).
      + destruct H1 as (-> & P1), H2 as (-> & P2). repeat split; auto.
        eapply perm_trans; [exact P1|]. eapply perm_trans; [exact Hp|]. now symmetry.
      + apply (post_rebuild_perm _ _ _ _ (Permutation_sym Hp)) in H2.
        destruct (post_rebuild_det _ _ _ _ _ Hnd H1 H2) as [-> P]. auto.
    - destruct H1 as (-> & -> & -> & ->), H2 as (-> & -> & -> & ->). auto.
  Qed.

  Section OneSide.
    Variable S : Type.

    Lemma alen_keys (l : list (N * S)) : alen l = N.of_nat (length (map fst l)).
    Proof. unfold alen. now rewrite map_length. Qed.

    Lemma rebuild_post (ents : list (N * S)) t' ents' : NoDup (map fst ents) -> rebuild_rel S lgn ents t' ents' ->
      post_rebuild (map fst ents) t' (map fst ents').
    Proof.
      intros Hnd Hrb. destruct (rebuild_rel_spec S lgn ents t' ents' Hnd Hrb) as (Hin & Hp & Hl).
      split; [exact Hin|]. split.
      - unfold cnt. rewrite <- keys_filter_lt, map_length, <- (Permutation_length Hp). exact Hl.
      - rewrite <- keys_filter_lt. now apply Permutation_map.
    Qed.

    Lemma ins_facts (a : astate S) h v e1 : ~ In h (akeys a) -> Permutation e1 ((h, v) :: a_ents a) ->
      Permutation (map fst e1) (h :: akeys a) /\ alen e1 = N.of_nat (length (akeys a)) + 1 /\
      existsb (N.eqb h) (akeys a) = false.
    Proof.
      intros Hnin Hp. pose proof (Permutation_map fst Hp) as Hk. simpl in Hk. split; [exact Hk|]. split.
      - rewrite alen_keys, (Permutation_length Hk). simpl. unfold akeys. lia.
      - destruct (existsb (N.eqb h) (akeys a)) eqn:E; [|reflexivity]. apply existsb_in in E. contradiction.
    Qed.

    Lemma step_kpost a o a' : NoDup (akeys a) -> a_step S lgn r th0 a o a' ->
      kpost (a_lgc a) (a_theta a) (a_empty a) (akeys a) (oshape o) (a_lgc a') (a_theta a') (a_empty a') (akeys a').
    Proof.
      intros Hnd St.
      destruct St as [a h64 f h Hh Hscr | a h64 f h ents' Hh Hrange Hi Hperm
                     | a h64 f h ents' Hh Hrange Hnin Hperm Hcap | a h64 f h ents' Hh Hrange Hnin Hperm Hcap Hlgc
                     | a h64 f h ents1 theta' ents' Hh Hrange Hnin Hperm Hcap Hlgc Hkn Hrb
                     | a Hle | a theta' ents' Hkn Hrb | a];
        unfold kpost; cbn [oshape a_lgc a_theta a_empty a_ents]; try subst h.
      - (* screened *)
        cbv zeta. split; [reflexivity|].
        assert (E : (a_theta a <=? h64 / 2) || (h64 / 2 =? 0) = true).
        { apply orb_true_iff. destruct Hscr as [H|H]; [left; now apply N.leb_le|right; now apply N.eqb_eq]. }
        rewrite E. unfold akeys. cbn [a_ents]. auto.
      - (* present *)
        cbv zeta. split; [reflexivity|].
        assert (E : (a_theta a <=? h64 / 2) || (h64 / 2 =? 0) = false).
        { apply orb_false_iff. split; [apply N.leb_gt; lia|apply N.eqb_neq; lia]. }
        rewrite E. apply existsb_in in Hi. rewrite Hi. split; [auto|]. split; [auto|].
        unfold akeys. cbn [a_ents]. eapply perm_trans; [apply Permutation_map, Hperm|]. rewrite map_map.
        erewrite map_ext; [reflexivity|]. intros x. apply fst_upd_payload.
      - (* fits *)
        cbv zeta. split; [reflexivity|].
        assert (E : (a_theta a <=? h64 / 2) || (h64 / 2 =? 0) = false).
        { apply orb_false_iff. split; [apply N.leb_gt; lia|apply N.eqb_neq; lia]. }
        destruct (ins_facts a _ _ _ Hnin Hperm) as (Hk & Hl & Hex). rewrite E, Hex.
        assert (E2 : N.of_nat (length (akeys a)) + 1 <=? capacity (a_lgc a) lgn = true) by (apply N.leb_le; lia).
        rewrite E2. unfold akeys at 2. cbn [a_ents]. auto.
      - (* resize *)
        cbv zeta. split; [reflexivity|].
        assert (E : (a_theta a <=? h64 / 2) || (h64 / 2 =? 0) = false).
        { apply orb_false_iff. split; [apply N.leb_gt; lia|apply N.eqb_neq; lia]. }
        destruct (ins_facts a _ _ _ Hnin Hperm) as (Hk & Hl & Hex). rewrite E, Hex.
        assert (E2 : N.of_nat (length (akeys a)) + 1 <=? capacity (a_lgc a) lgn = false) by (apply N.leb_gt; lia).
        assert (E3 : a_lgc a <=? lgn = true) by (apply N.leb_le; lia).
        rewrite E2, E3. unfold akeys at 2. cbn [a_ents]. auto.
      - (* rebuild *)
        cbv zeta. split; [reflexivity|].
        assert (E : (a_theta a <=? h64 / 2) || (h64 / 2 =? 0) = false).
        { apply orb_false_iff. split; [apply N.leb_gt; lia|apply N.eqb_neq; lia]. }
        destruct (ins_facts a _ _ _ Hnin Hperm) as (Hk & Hl & Hex). rewrite E, Hex.
        assert (E2 : N.of_nat (length (akeys a)) + 1 <=? capacity (a_lgc a) lgn = false) by (apply N.leb_gt; lia).
        assert (E3 : a_lgc a <=? lgn = false) by (apply N.leb_gt; lia).
        rewrite E2, E3. split; [reflexivity|].
        assert (Hnd1 : NoDup (map fst ents1)).
        { eapply Permutation_NoDup; [symmetry; exact Hk|]. constructor; auto. }
        eapply post_rebuild_perm; [exact Hk|]. unfold akeys. cbn [a_ents]. now apply rebuild_post.
      - (* trim, nothing to do *)
        split; [reflexivity|]. split; [reflexivity|].
        assert (E : N.of_nat (length (akeys a)) <=? kN lgn = true).
        { apply N.leb_le. rewrite alen_keys in Hle. exact Hle. }
        rewrite E. auto.
      - (* trim, rebuild *)
        split; [reflexivity|]. split; [reflexivity|].
        assert (E : N.of_nat (length (akeys a)) <=? kN lgn = false).
        { apply N.leb_gt. rewrite alen_keys in Hkn. exact Hkn. }
        rewrite E. unfold akeys. cbn [a_ents]. now apply rebuild_post.
      - (* reset *)
        unfold akeys. cbn [a_ents map]. auto.
    Qed.
  End OneSide.

  Definition R {S1 S2} (a1 : astate S1) (a2 : astate S2) : Prop :=
    a_lgc a1 = a_lgc a2 /\ a_theta a1 = a_theta a2 /\ a_empty a1 = a_empty a2 /\ Permutation (akeys a1) (akeys a2).

  Theorem sim_step S1 S2 (a1 : astate S1) (a2 : astate S2) o1 o2 a1' a2' :
    R a1 a2 -> NoDup (akeys a1) -> oshape o1 = oshape o2 ->
    a_step S1 lgn r th0 a1 o1 a1' -> a_step S2 lgn r th0 a2 o2 a2' -> R a1' a2'.
  Proof.
    intros (Hlg & Hth & Hem & Hk) Hnd Hsh St1 St2.
    assert (Hnd2 : NoDup (akeys a2)) by (eapply Permutation_NoDup; eauto).
    pose proof (step_kpost S1 a1 o1 a1' Hnd St1) as K1.
    pose proof (step_kpost S2 a2 o2 a2' Hnd2 St2) as K2.
    rewrite <- Hlg, <- Hth, <- Hem, <- Hsh in K2.
    exact (kpost_det _ _ _ _ _ _ _ _ _ _ _ _ _ _ Hk Hnd K1 K2).
  Qed.
End Sim.

(* ---- whole histories of the concrete table model ---- *)
Section SimRun.
  Variables S1 S2 : Type.
  Variable sel1 : nat -> list (N * S1) -> list (N * S1).
  Variable sel2 : nat -> list (N * S2) -> list (N * S2).
  Hypothesis sel1_ok : forall k l, (k < length l)%nat -> nth_post fst k l (sel1 k l).
  Hypothesis sel2_ok : forall k l, (k < length l)%nat -> nth_post fst k l (sel2 k l).
  Variables lgn r th0 : N.
  Hypothesis lgn_ge : 5 <= lgn.

  Lemma map_snoc_inv {A B C} (f : A -> C) (g : B -> C) l1 o1 l2 : map g l2 = map f (l1 ++ [o1]) ->
    exists l2' o2, l2 = l2' ++ [o2] /\ map g l2' = map f l1 /\ g o2 = f o1.
  Proof.
    intros H. destruct l2 as [|b l2 _] using rev_ind.
    - rewrite map_app in H. simpl in H. destruct (map f l1); discriminate.
    - exists l2, b. rewrite !map_app in H. simpl in H. apply app_inj_tail in H. tauto.
  Qed.

  Theorem same_keys_run : forall ops1 ops2, map oshape ops2 = map oshape ops1 ->
    R (abs S1 (run_ops S1 sel1 lgn r th0 ops1)) (abs S2 (run_ops S2 sel2 lgn r th0 ops2)).
  Proof.
    induction ops1 as [|o1 ops1 IH] using rev_ind; intros ops2 Hsh.
    - destruct ops2; [|discriminate]. unfold run_ops. simpl.
      destruct (tinv_new S1 lgn r th0 lgn_ge) as [_ E1]. destruct (tinv_new S2 lgn r th0 lgn_ge) as [_ E2].
      rewrite E1, E2. unfold R. simpl. auto.
    - destruct (map_snoc_inv _ _ _ _ _ Hsh) as (ops2' & o2 & -> & Hsh' & Ho).
      specialize (IH ops2' Hsh').
      rewrite (run_snoc S1 sel1 lgn r th0), (run_snoc S2 sel2 lgn r th0).
      destruct (run_inv S1 sel1 sel1_ok lgn r th0 lgn_ge ops1) as [HT1 HA1].
      destruct (run_inv S2 sel2 sel2_ok lgn r th0 lgn_ge ops2') as [HT2 HA2].
      pose proof (ai_nodup S1 lgn th0 _ _ HA1) as Hnd1. pose proof (ai_nodup S2 lgn th0 _ _ HA2) as Hnd2.
      destruct (refine_step S1 sel1 sel1_ok lgn r th0 lgn_ge _ o1 HT1 Hnd1) as [St1 _].
      destruct (refine_step S2 sel2 sel2_ok lgn r th0 lgn_ge _ o2 HT2 Hnd2) as [St2 _].
      eapply (sim_step lgn r th0); eauto.
  Qed.

  (* same lg_cur_size, theta, is_empty, num_entries and the same sorted keys *)
  Theorem same_keys : forall ops1 ops2, map oshape ops2 = map oshape ops1 ->
    let s1 := run_ops S1 sel1 lgn r th0 ops1 in let s2 := run_ops S2 sel2 lgn r th0 ops2 in
    lg_cur s1 = lg_cur s2 /\ theta s1 = theta s2 /\ is_empty s1 = is_empty s2 /\ num s1 = num s2 /\
    get_theta64 S1 s1 = get_theta64 S2 s2 /\
    Permutation (keys S1 s1) (keys S2 s2) /\ sortN (keys S1 s1) = sortN (keys S2 s2).
  Proof.
    intros ops1 ops2 Hsh s1 s2. destruct (same_keys_run ops1 ops2 Hsh) as (H1 & H2 & H3 & H4).
    fold s1 s2 in H1, H2, H3, H4. unfold abs, akeys in *. cbn [a_lgc a_theta a_empty a_ents] in *.
    change (Permutation (keys S1 s1) (keys S2 s2)) in H4.
    destruct (refines S1 sel1 sel1_ok lgn r th0 lgn_ge ops1) as (Hnd1 & _ & Hn1).
    destruct (refines S2 sel2 sel2_ok lgn r th0 lgn_ge ops2) as (Hnd2 & _ & Hn2).
    fold s1 in Hnd1, Hn1. fold s2 in Hnd2, Hn2.
    split; [auto|]. split; [auto|]. split; [auto|]. split; [|split; [|split]].
    - rewrite Hn1, Hn2. now rewrite (Permutation_length H4).
    - unfold get_theta64. now rewrite H2, H3.
    - exact H4.
    - apply strict_sorted_unique; try (apply sortN_strict; assumption).
      intros x. rewrite (perm_in_iff x (sortN_perm _)), (perm_in_iff x (sortN_perm _)). now apply perm_in_iff.
  Qed.
End SimRun.
