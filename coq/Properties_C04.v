(* Properties_C04.v — HLL union equals the sketch of the concatenated streams at reduced precision.
   Only statements, closed by [exact]; proofs live in HllUnionBase / HllUnionCoupon / HllUnionProofs / HllUnionCorollaries.
   All statements are about HllUnionDefs.u_run / u_step / union_impl in the [repaired] variant — the definitions that are
   extracted (HllUnionDefs.run) and run against the C++ on every check.  The shipped variant is refuted in
   Regression_hllunion.v.

   Vocabulary.  A history is a list of [hop]: HSk rv src C (update with sketch [src], by && when rv; C is the coupon list
   the sketch represents), HCp c (a raw item, as its coupon), HEst (any of the four estimate accessors), HRes ty
   (get_result), HReset.  [hop_ok] asks of an input only what C03 proves of every hll_sketch ([src_ok]: list/set hold
   exactly the distinct coupons; an HLL array decodes to the per-slot max of its coupons, and is non-empty only if it
   saw a coupon) and that coupons are 32-bit with value >= 1.  [since_reset ops] is the history after the last reset,
   [offered] the coupons of its non-empty inputs and raw items, [lg_star lgmax] = min of lg_max_k and the lg_k of its
   non-empty HLL-mode inputs.  [result_ok lg C g]: lg_k g = lg, the registers of g are the per-slot max of C at lg, g is
   empty iff C is, and in coupon mode g holds exactly the set C. *)
From Coq Require Import ZArith NArith List Bool Lia Permutation.
From DS Require Import Word RunnerLib HllDefs HllProofs HllUnionDefs HllUnionBase HllUnionCoupon HllUnionProofs HllUnionCorollaries.
Import ListNotations.
Local Open Scope N_scope.

(* ---- register algebra (mergeHll) ---- *)
(* down-sampling: folding the registers of C at lg_k = s into 2^lg slots (slot & mask, max) gives the registers of C at lg *)
Theorem C04_downsample_spec : forall lg s C, lg <= s -> s <= 26 ->
  merge_down (N.ones lg) (zerosN (2 ^ lg)) 0 (spec_regs s C) = spec_regs lg C.
Proof. exact downsample_spec. Qed.

(* ... and merging them into registers that already hold C1 gives the registers of the concatenation *)
Theorem C04_downsample_merge_spec : forall lg s C1 C2, lg <= s -> s <= 26 ->
  merge_down (N.ones lg) (spec_regs lg C1) 0 (spec_regs s C2) = spec_regs lg (C1 ++ C2).
Proof. exact downsample_merge_spec. Qed.

Theorem C04_equal_k_merge_spec : forall lgk A B, zipmax (spec_regs lgk A) (spec_regs lgk B) = spec_regs lgk (A ++ B).
Proof. exact zipmax_spec. Qed.

(* ---- the gadget as a sketch: one coupon through LIST / SET / HLL_8 incl. every promotion ---- *)
Theorem C04_gadget_coupon_update : forall lgk C i c, Forall cok C -> cmode_ok lgk C i -> cok c ->
  exists i', impl_update i c = Some i' /\ cmode_ok lgk (C ++ [c]) i'.
Proof. exact impl_update_ok. Qed.

(* ---- the union, for ALL histories ---- *)
Theorem C04_union_spec : forall lgmax ops, 4 <= lgmax -> lgmax <= 21 -> Forall hop_ok ops ->
  exists u, u_run repaired (u_new lgmax) (map op_of ops) = Some u /\
            result_ok (lg_star lgmax (since_reset ops)) (offered (since_reset ops)) (u_gadget u).
Proof. exact union_spec. Qed.

(* lg* really is the minimum of lg_max_k and the lg_k of the non-empty HLL-mode inputs *)
Theorem C04_lg_star_is_min : forall lgmax ops,
  (lg_star lgmax ops <= lgmax /\ forall k, In k (hll_lgks ops) -> lg_star lgmax ops <= k) /\
  (lg_star lgmax ops = lgmax \/ In (lg_star lgmax ops) (hll_lgks ops)).
Proof. intros lgmax ops. split; [apply lg_star_le|apply lg_star_attained]. Qed.

(* get_result(HLL_8) is defined and has that lg_k, those registers and that emptiness *)
Theorem C04_get_result_8 : forall lgmax ops, 4 <= lgmax -> lgmax <= 21 -> Forall hop_ok ops ->
  exists u r, u_run repaired (u_new lgmax) (map op_of ops) = Some u /\ u_result u T8 = Some r /\
    sk_lgk r = lg_star lgmax (since_reset ops) /\
    sk_regs r = Some (spec_regs (lg_star lgmax (since_reset ops)) (offered (since_reset ops))) /\
    (sk_is_empty r = true <-> offered (since_reset ops) = []).
Proof. exact union_result8. Qed.

(* order of presentation does not matter *)
Theorem C04_union_perm : forall lgmax ops1 ops2 u1 u2, 4 <= lgmax -> lgmax <= 21 ->
  Forall hop_ok ops1 -> no_reset ops1 -> Permutation ops1 ops2 ->
  u_run repaired (u_new lgmax) (map op_of ops1) = Some u1 ->
  u_run repaired (u_new lgmax) (map op_of ops2) = Some u2 ->
  sk_lgk (u_gadget u1) = sk_lgk (u_gadget u2) /\ sk_regs (u_gadget u1) = sk_regs (u_gadget u2) /\
  sk_is_empty (u_gadget u1) = sk_is_empty (u_gadget u2).
Proof. exact union_perm. Qed.

(* intermediate estimate / get_result calls and lvalue vs rvalue update do not matter: two histories that agree after
   deleting the queries and forgetting the value category end in the same result *)
Theorem C04_union_interleaving : forall lgmax ops1 ops2 u1 u2, 4 <= lgmax -> lgmax <= 21 ->
  Forall hop_ok ops1 -> Forall hop_ok ops2 -> plain ops1 = plain ops2 ->
  u_run repaired (u_new lgmax) (map op_of ops1) = Some u1 ->
  u_run repaired (u_new lgmax) (map op_of ops2) = Some u2 ->
  sk_lgk (u_gadget u1) = sk_lgk (u_gadget u2) /\ sk_regs (u_gadget u1) = sk_regs (u_gadget u2) /\
  sk_is_empty (u_gadget u1) = sk_is_empty (u_gadget u2).
Proof. exact union_interleaving. Qed.

(* nothing ever offered (since the last reset) is lost *)
Theorem C04_nothing_lost : forall lgmax ops, 4 <= lgmax -> lgmax <= 21 -> Forall hop_ok ops ->
  exists u regs, u_run repaired (u_new lgmax) (map op_of ops) = Some u /\ sk_regs (u_gadget u) = Some regs /\
    forall c, In c (offered (since_reset ops)) -> c_val c <= getN regs (c_slot (sk_lgk (u_gadget u)) c).
Proof. exact nothing_lost. Qed.

(* the input hypothesis is met by every HLL_8 sketch built from coupons, whatever mode it is in *)
Theorem C04_built_inputs_admissible : forall lgk cs, 4 <= lgk -> lgk <= 21 -> Forall cok cs ->
  exists i, sk_updates (sk_new lgk T8 false) cs = Some i /\ src_ok cs i.
Proof. exact built8_src_ok. Qed.

(* the specification values the model prints for the oracle (S lines of get_result / observe) are the L0 registers *)
Theorem C04_spec_line_regs : forall lg log, spec_regs_fold lg log = spec_regs lg log.
Proof. exact fold_reg_max_spec. Qed.

(* ---- non-vacuity: a history with an HLL_6 input of lg_k 6, an HLL_4 input of lg_k 4 (both HLL mode), a list-mode input,
   a raw item, queries in between, by const& and by &&, meets the hypotheses; the conclusion pins lg_k and 16 registers ---- *)
Definition ex_C6 : list N := map (fun a => pair_sv a 3) [16; 17; 18; 19; 20; 21; 52; 63].
Definition ex_C4 : list N := map (fun a => pair_sv a 2) [8; 9; 10; 11; 12; 13; 14; 15; 1023].
Definition ex_CL : list N := [pair_sv 100 1; pair_sv 200 5].

Lemma ex_cok a v : a < 67108864 -> 0 < v -> v < 64 -> cok (pair_sv a v).
Proof.
  intros Ha Hv Hv'. split; [|now rewrite pair_val].
  unfold pair_sv. apply lt_pow2_of_bits with (n := 32). intros t Ht.
  rewrite N.lor_spec, N.shiftl_spec_high' by lia. rewrite N.land_spec.
  rewrite (small_testbit_high v 6 (t - 26)) by (try lia; exact Hv').
  rewrite (small_testbit_high a 26 t) by (try lia; exact Ha). reflexivity.
Qed.

Example C04_nonvacuous :
  exists s6 s4 sl u,
    sk_updates (sk_new 6 T6 false) ex_C6 = Some s6 /\ sk_updates (sk_new 4 T4 false) ex_C4 = Some s4 /\
    sk_updates (sk_new 5 T8 false) ex_CL = Some sl /\
    let ops := [HSk true sl ex_CL; HEst; HSk false s6 ex_C6; HRes T4; HCp (pair_sv 7 9); HEst; HSk true s4 ex_C4] in
    Forall hop_ok ops /\
    u_run repaired (u_new 5) (map op_of ops) = Some u /\
    lg_star 5 (since_reset ops) = 4 /\ sk_lgk (u_gadget u) = 4 /\
    sk_regs (u_gadget u) = Some [3; 3; 3; 3; 3; 3; 0; 9; 5; 2; 2; 2; 2; 2; 2; 3].
Proof.
  destruct (built8_src_ok 5 ex_CL ltac:(lia) ltac:(lia)) as (sl & El & Hl).
  { repeat constructor; apply ex_cok; reflexivity. }
  vm_compute in El. injection El as <-.
  eexists _, _, _, _. split; [vm_compute; reflexivity|]. split; [vm_compute; reflexivity|]. split; [vm_compute; reflexivity|].
  cbv zeta. split.
  - apply Forall_cons; [exact Hl|]. apply Forall_cons; [exact I|]. apply Forall_cons.
    { split; [repeat constructor; apply ex_cok; reflexivity|].
      split; try (vm_compute; congruence); discriminate. }
    apply Forall_cons; [exact I|]. apply Forall_cons; [apply ex_cok; reflexivity|]. apply Forall_cons; [exact I|].
    apply Forall_cons; [|apply Forall_nil].
    split; [repeat constructor; apply ex_cok; reflexivity|].
    split; try (vm_compute; congruence); discriminate.
  - split; [vm_compute; reflexivity|]. split; [vm_compute; reflexivity|]. split; vm_compute; reflexivity.
Qed.

Print Assumptions C04_downsample_spec.
Print Assumptions C04_downsample_merge_spec.
Print Assumptions C04_equal_k_merge_spec.
Print Assumptions C04_gadget_coupon_update.
Print Assumptions C04_union_spec.
Print Assumptions C04_lg_star_is_min.
Print Assumptions C04_get_result_8.
Print Assumptions C04_union_perm.
Print Assumptions C04_union_interleaving.
Print Assumptions C04_nothing_lost.
Print Assumptions C04_built_inputs_admissible.
Print Assumptions C04_spec_line_regs.
