(* Properties_C04.v — HLL union equals the sketch of the concatenated streams at reduced precision. *)
From Coq Require Import ZArith NArith List Bool Lia.
From DS Require Import Word RunnerLib HllDefs HllUnionDefs.
Import ListNotations.
Local Open Scope N_scope.
