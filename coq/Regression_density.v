(* Regression_density.v — the behaviour of density_sketch BEFORE the repairs in /verif/fixes/20_*.patch, kept as small
   variant definitions with machine-checked counterexamples (`_refuted` theorems, witnesses by vm_compute).
     20_is_empty_n.patch          is_empty() tested num_retained_ == 0 instead of n_ == 0
                                  (merge skipped such a source; get_estimate refused it; serialize wrote it as empty)
     20_estimate_dim_check.patch  get_estimate(point) had no dimension check
     20_serialize_header.patch    serialize(header_size_bytes > 0) threw for every non-empty sketch
     20_deserialize_level_size_bounds.patch   the bytes reader read a level size past the end of the buffer
   The current model (DensityDefs.v) is the repaired code; Properties_C20.v / DensityCodec_Properties.v state the
   properties without the side conditions the old code needed. *)
From Coq Require Import ZArith NArith List Bool Lia.
From DS Require Import RunnerLib DensityDefs DensityProofs.
Import ListNotations.
Local Open Scope Z_scope.

Section Old.
  Variable K : point -> point -> Z.

  (* merge with other.is_empty() <=> other.num_retained_ == 0 *)
  Definition ds_merge_old (s o : ds) (e : env) : option (ds * env) :=
    if d_ret o =? 0 then Some (s, e)
    else if negb (d_dim o =? d_dim s) then None
    else Some (run_compactions K
                 {| d_k := d_k s; d_dim := d_dim s; d_ret := d_ret s + d_ret o; d_n := d_n s + d_n o;
                    d_levels := zip_app (d_levels s) (d_levels o) |} e).

  (* get_estimate with is_empty() <=> num_retained_ == 0 and no dimension check *)
  Definition ds_estimate_old (s : ds) (q : point) : option (Z * Z) :=
    if d_ret s =? 0 then None else Some (est_num K s q, d_n s).

  (* serialize/deserialize: a sketch with num_retained = 0 was written as empty *)
  Definition ds_roundtrip_old (s : ds) : ds :=
    if d_ret s =? 0 then ds_new (d_k s) (d_dim s)
    else {| d_k := d_k s; d_dim := d_dim s; d_ret := d_ret s; d_n := d_n s;
            d_levels := take_levels (d_ret s) (d_levels s) |}.

  Fixpoint eval_old (h : hist) : ds :=
    match h with
    | HNew k dim => ds_new k dim
    | HUpd h p e => match ds_update K (eval_old h) p e with Some (s, _) => s | None => eval_old h end
    | HMerge h1 h2 e => match ds_merge_old (eval_old h1) (eval_old h2) e with Some (s, _) => s | None => eval_old h1 end
    end.

  Fixpoint inputs_old (h : hist) : list point :=
    match h with
    | HNew _ _ => []
    | HUpd h p e => match ds_update K (eval_old h) p e with Some _ => inputs_old h ++ [p] | None => inputs_old h end
    | HMerge h1 h2 e => match ds_merge_old (eval_old h1) (eval_old h2) e with
                        | Some _ => inputs_old h1 ++ inputs_old h2
                        | None => inputs_old h1
                        end
    end.
End Old.

(* serialize(header_size_bytes) before the repair: end_ptr was computed as ptr + size with ptr already advanced by the
   header, so the final "ptr != end_ptr" check threw whenever the header was non-empty and the early return for an empty
   sketch was not taken *)
Definition enc_hdr_old (h : Z) (s : ds) : option (list Z) :=
  if d_ret s =? 0 then Some (repeat 0 (Z.to_nat h) ++ enc_header 3 4 s)
  else if h =? 0 then Some (enc s) else None.

Definition e0 := mk_env [].
(* two far-apart points (kernel value exactly 0), first sign bit 0: the compaction drops both *)
Definition h_src : hist := HMerge (HUpd (HNew 2 1) [0] e0) (HUpd (HNew 2 1) [100] e0) (mk_env [0; 0]).
Definition h_lost : hist := HMerge (HUpd (HNew 2 1) [5] e0) h_src e0.

(* "merging adds n" / "n is reported exactly" failed: 3 points fed, n = 1 *)
Theorem merge_adds_n_old_refuted :
  exists h, valid h /\ ~ d_n (eval_old kern0 h) = Z.of_nat (length (inputs_old kern0 h)).
Proof. exists h_lost. split; [vm_compute; repeat split; intro; discriminate|vm_compute; discriminate]. Qed.

(* the step that loses it: an accepted merge of a source with n = 2 leaves n unchanged *)
Theorem merge_step_old_refuted :
  exists s o e s' e', valid h_src /\ o = eval_old kern0 h_src /\ d_n o = 2 /\
    ds_merge_old kern0 s o e = Some (s', e') /\ ~ d_n s' = d_n s + d_n o.
Proof.
  exists (eval_old kern0 (HUpd (HNew 2 1) [5] e0)), (eval_old kern0 h_src), e0.
  eexists; eexists. split; [vm_compute; repeat split; intro; discriminate|].
  split; [reflexivity|]. split; [vm_compute; reflexivity|]. split; [vm_compute; reflexivity|].
  vm_compute; discriminate.
Qed.

(* "the estimate is defined whenever n > 0" failed: n = 2, query of the right dimension, refused *)
Theorem estimate_defined_old_refuted :
  exists h q, valid h /\ inputs_old kern0 h <> [] /\ Z.of_nat (length q) = d_dim (eval_old kern0 h) /\
    ~ ds_estimate_old kern0 (eval_old kern0 h) q <> None.
Proof.
  exists h_src, [0]. split; [vm_compute; repeat split; intro; discriminate|].
  split; [vm_compute; discriminate|]. split; [reflexivity|]. vm_compute. intros H; apply H; reflexivity.
Qed.

(* "a query point of the wrong dimension is refused" failed *)
Theorem estimate_wrong_dim_old_refuted :
  exists h q, valid h /\ Z.of_nat (length q) <> d_dim (eval_old kern0 h) /\
    ~ ds_estimate_old kern0 (eval_old kern0 h) q = None.
Proof.
  exists (HUpd (HNew 2 2) [1; 1] e0), [1].
  split; [vm_compute; intro; discriminate|]. split; [vm_compute; discriminate|vm_compute; discriminate].
Qed.

(* serialization lost n for a sketch whose compactions dropped every point *)
Theorem roundtrip_n_old_refuted :
  exists h, valid h /\ ~ d_n (ds_roundtrip_old (eval_old kern0 h)) = d_n (eval_old kern0 h).
Proof. exists h_src. split; [vm_compute; repeat split; intro; discriminate|vm_compute; discriminate]. Qed.

(* serialize(header > 0) produced no image for a sketch that retains points *)
Theorem serialize_header_old_refuted :
  exists h hdr, valid h /\ 0 < hdr /\ ~ enc_hdr_old hdr (to_wire (eval_old kern0 h)) <> None.
Proof.
  exists (HUpd (HNew 2 1) [5] e0), 8.
  split; [vm_compute; intro; discriminate|]. split; [lia|]. vm_compute. intros H; apply H; reflexivity.
Qed.
