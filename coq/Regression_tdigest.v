(* Regression_tdigest.v — the behaviour of tdigest<double> AS FOUND (datasketches-cpp 5fd71d3) for the three C17 defects that
   are repaired by /verif/fixes/17_quantile_weights.patch, 17_weighted_average_clamp.patch and 17_empty_cdf.patch.
   TDigestDefs.v models the repaired code; here the old code is kept as variant definitions and each defect is a theorem
   `<name>_refuted : exists input, ~ property` with a concrete witness, so that it stays documented about the old code. *)
From Coq Require Import ZArith List Bool QArith Floats Uint63.
From DS Require Import RunnerLib TDigestDefs FloatBits.
Import ListNotations.
Local Open Scope Z_scope.
Set Warnings "-inexact-float".

Section Old.
  Variable Ops : numops.
  Let T : Type := num Ops.
  Let ofZ := nofZ Ops.
  Let add := nadd Ops. Let sub := nsub Ops. Let mul := nmul Ops. Let div := ndiv Ops.
  Let ltb := nltb Ops. Let leb := nleb Ops.
  Notation n0 := (n0 Ops). Notation n1 := (n1 Ops). Notation n2 := (n2 Ops). Notation nhalf := (nhalf Ops).

  (* tdigest_impl.hpp:298-300 as found: no clamp *)
  Definition weighted_average_old (x1 w1 x2 w2 : T) : T := div (add (mul x1 w1) (mul x2 w2)) (add w1 w2).

  (* tdigest_impl.hpp:174-193 as found: w1 (distance from centroid i) is given to centroid i, w2 to centroid i+1 *)
  Fixpoint q_loop_old (cs : list (centroid Ops)) (weight wsf : T) : option T :=
    match cs with
    | ci :: ((cj :: _) as t) =>
        let dw := div (ofZ (c_w Ops ci + c_w Ops cj)) n2 in
        if ltb weight (add wsf dw) then
          let l1 := (c_w Ops ci =? 1) in
          let r1 := (c_w Ops cj =? 1) in
          if l1 && ltb (sub weight wsf) nhalf then Some (c_mean Ops ci) else
          let left_weight := if l1 then nhalf else n0 in
          if r1 && leb (sub (add wsf dw) weight) nhalf then Some (c_mean Ops cj) else
          let right_weight := if r1 then nhalf else n0 in
          let w1 := sub (sub weight wsf) left_weight in
          let w2 := sub (sub (add wsf dw) weight) right_weight in
          Some (weighted_average_old (c_mean Ops ci) w1 (c_mean Ops cj) w2)
        else q_loop_old t weight (add wsf dw)
    | _ => None
    end.

  Definition quantile_core_old (mn mx : T) (cs : list (centroid Ops)) (cw : Z) (rank : T) : T :=
    let first := cnth Ops cs 0 in
    if (length cs =? 1)%nat then c_mean Ops first else
    let cwn := ofZ cw in
    let weight := mul rank cwn in
    if ltb weight n1 then mn else
    if ltb (sub cwn n1) weight then mx else
    let first_weight := ofZ (c_w Ops first) in
    if ltb n1 first_weight && ltb weight (div first_weight n2) then
      add mn (mul (div (sub weight n1) (sub (div first_weight n2) n1)) (sub (c_mean Ops first) mn))
    else
    let lastc := last_c Ops cs (dflt Ops) in
    let last_weight := ofZ (c_w Ops lastc) in
    if ltb n1 last_weight && leb (sub cwn weight) (div last_weight n2) then
      add mx (mul (div (sub (sub cwn weight) n1) (sub (div last_weight n2) n1)) (sub mx (c_mean Ops lastc)))
    else
    match q_loop_old cs weight (div first_weight n2) with
    | Some r => r
    | None =>
        let w1 := sub (sub weight cwn) (div (ofZ (c_w Ops lastc)) n2) in
        let w2 := sub (div (ofZ (c_w Ops lastc)) n2) w1 in
        weighted_average_old (ofZ (c_w Ops lastc)) w1 mx w2
    end.

  Definition td_quantile_old (s : td Ops) (rank : T) : td Ops * option T :=
    if td_is_empty Ops s then (s, None) else
    if ltb rank n0 || ltb n1 rank then (s, None) else
    let s' := td_compress Ops s in
    (s', Some (quantile_core_old (t_min Ops s') (t_max Ops s') (t_cents Ops s') (t_cw Ops s') rank)).

  (* tdigest_impl.hpp:209-216 as found: no emptiness test in get_CDF itself *)
  Definition td_cdf_old (s : td Ops) (l : list T) : td Ops * option (list T) :=
    if split_ok Ops l then
      match ranks Ops s l with
      | (s', Some rs) => (s', Some (rs ++ [n1]))
      | r => r
      end
    else (s, None).
End Old.

(* ---- 1. quantile_not_monotone: exact rationals, a digest reached by 30 updates (k = 10, normaliser 2k/24) ---- *)
Definition rq_ops := qops (fun _ => 0%Q) 1000%Q (-1000)%Q.
Definition rq_new : td rq_ops := @Build_td rq_ops 10 false 1000%Q (-1000)%Q [] 0 [].
Definition rq_vals : list Q := map (fun i => inject_Z (Z.of_nat ((i * 37) mod 101))) (seq 0 30).
Definition rq_digest : td rq_ops := fold_left (td_update rq_ops) rq_vals rq_new.

Theorem quantile_not_monotone_refuted :
  exists (r1 r2 q1 q2 : Q), (0 <= r1)%Q /\ (r1 < r2)%Q /\ (r2 <= 1)%Q /\
    td_new rq_ops 10 = Some rq_new /\
    snd (td_quantile_old rq_ops rq_digest r1) = Some q1 /\ snd (td_quantile_old rq_ops rq_digest r2) = Some q2 /\
    (q2 < q1)%Q.
Proof.
  exists (25 # 100)%Q, (30 # 100)%Q. eexists. eexists.
  split; [discriminate|]. split; [reflexivity|]. split; [discriminate|]. split; [reflexivity|].
  split; [vm_compute; reflexivity|]. split; [vm_compute; reflexivity|]. vm_compute. reflexivity.
Qed.

(* the repaired model on the same input is monotone there (the general theorem is C17_quantile_monotone) *)
Example quantile_repaired_on_witness :
  match snd (td_quantile rq_ops rq_digest (25 # 100)%Q), snd (td_quantile rq_ops rq_digest (30 # 100)%Q) with
  | Some q1, Some q2 => Qle_bool q1 q2 = true
  | _, _ => False
  end.
Proof. vm_compute. reflexivity. Qed.

(* ---- 2. quantile_range_rounding: binary64 ---- *)
(* the unclamped weighted average of two EQUAL points is not that point *)
Theorem weighted_average_unclamped_refuted :
  exists (x w1 w2 : float),
    PrimFloat.ltb (weighted_average_old (fops (fun _ => 0%float)) x w1 x w2) x = true.
Proof. exists (-3.7)%float, 1.5%float, 1.5%float. vm_compute. reflexivity. Qed.

Example weighted_average_clamped_on_witness :
  PrimFloat.eqb (weighted_average (fops (fun _ => 0%float)) (-3.7)%float 1.5%float (-3.7)%float 1.5%float) (-3.7)%float = true.
Proof. vm_compute. reflexivity. Qed.

(* at the level of the digest: k = 50, 200 updates with -3.7 (min = max = -3.7); [ln] here is the constant 0 (the C++ uses
   libm's log; the defect does not depend on the normaliser, only the affected ranks do) *)
Definition rf_ops := fops (fun _ => 0%float).
Definition rf_new : td rf_ops := @Build_td rf_ops 50 false infinity neg_infinity [] 0 [].
Definition rf_digest : td rf_ops := fold_left (td_update rf_ops) (repeat (-3.7)%float 200) rf_new.

Theorem quantile_range_rounding_refuted :
  exists (r q : float), PrimFloat.leb 0%float r = true /\ PrimFloat.leb r 1%float = true /\
    snd (td_quantile_old rf_ops rf_digest r) = Some q /\
    PrimFloat.eqb (t_min rf_ops rf_digest) (-3.7)%float = true /\ PrimFloat.eqb (t_max rf_ops rf_digest) (-3.7)%float = true /\
    (PrimFloat.ltb q (-3.7)%float || PrimFloat.ltb (-3.7)%float q) = true.
Proof.
  exists 0.09375%float. eexists.
  split; [vm_compute; reflexivity|]. split; [vm_compute; reflexivity|]. split; [vm_compute; reflexivity|].
  split; [vm_compute; reflexivity|]. split; vm_compute; reflexivity.
Qed.

(* ---- 3. empty_cdf_not_refused: any number structure ---- *)
Theorem empty_cdf_not_refused_refuted :
  exists (s : td rq_ops), td_is_empty rq_ops s = true /\ snd (td_cdf_old rq_ops s []) <> None /\
                          snd (td_pmf rq_ops s []) = None /\ snd (td_cdf rq_ops s []) = None.
Proof. exists rq_new. split; [reflexivity|]. split; [discriminate|]. split; reflexivity. Qed.

Print Assumptions quantile_not_monotone_refuted.
Print Assumptions weighted_average_unclamped_refuted.
Print Assumptions quantile_range_rounding_refuted.
Print Assumptions empty_cdf_not_refused_refuted.
