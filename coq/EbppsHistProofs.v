(* EbppsHistProofs.v — EBPPS over exact arithmetic: merge, arbitrary histories (trees of new / update / merge),
   the closed form of c, the returned samples, serialization round trip. *)
From Coq Require Import ZArith List Bool QArith Qround Lia Lqa Psatz.
From DS Require Import RunnerLib EbppsDefs EbppsProofs EbppsSketchProofs.
Import ListNotations.
Local Open Scope Q_scope.

Lemma is_max_qmaxb r a b : is_max r a b -> r == qmaxb a b.
Proof. unfold is_max, qmaxb. intros (A & B & [E|E]); destruct (qleb_spec a b); lra. Qed.

Lemma qmaxb_compat a a' b b' : a == a' -> b == b' -> qmaxb a b == qmaxb a' b'.
Proof. intros E1 E2. unfold qmaxb. rewrite (qleb_compat a a' b b' E1 E2). destruct (Qle_bool a' b'); auto. Qed.

Lemma is_min_qminb r a b : is_min r a b -> r == qminb a b.
Proof. unfold is_min, qminb. intros (A & B & [E|E]); destruct (qleb_spec a b); lra. Qed.

Lemma qminb_compat a a' b b' : a == a' -> b == b' -> qminb a b == qminb a' b'.
Proof. intros E1 E2. unfold qminb. rewrite (qleb_compat a a' b b' E1 E2). destruct (Qle_bool a' b'); auto. Qed.

Lemma is_max_sym r a b : is_max r a b -> is_max r b a.
Proof. unfold is_max. intros (A & B & [E|E]); splits; auto. Qed.

Section Hist.
  Variable Item : Type.
  Notation qsketch := (sketch QOps Item).
  Notation qsample := (sample QOps Item).
  Notation qcs := (cs QOps).

  (* ----- merge ----- *)
  Lemma merge_spec P kka kkb a b s r s' :
    merge QOps Item a b s = (r, s') ->
    Inv Item P kka a -> Inv Item P kkb b -> cs_ok s ->
    Inv Item P (if Qeq_bool (sk_cw b) 0 then kka else if Qeq_bool (sk_cw a) 0 then kkb else Z.min (sk_k a) (sk_k b)) r /\
    cs_ok s' /\
    sk_k r = (if Qeq_bool (sk_cw b) 0 then sk_k a else Z.min (sk_k a) (sk_k b)) /\
    sk_n r = (sk_n a + sk_n b)%Z /\ sk_cw r == sk_cw a + sk_cw b /\
    is_max (sk_wmax r) (sk_wmax a) (sk_wmax b).
  Proof.
    intros E Ia Ib Hs. unfold merge, merge_gen in E. qs.
    change (internal_merge_gen QOps Item false) with (internal_merge QOps Item) in E.
    pose proof Ia as (_ & _ & _ & NWa & M0a & MWa & _).
    pose proof Ib as (_ & _ & _ & NWb & M0b & MWb & _).
    destruct (qeqb_spec (sk_cw b) 0) as [Wb0|Wb0].
    - inversion E; subst r s'; clear E.
      assert (sk_n b = 0%Z) by (apply NWb; auto).
      splits; auto; try lia.
      + rewrite Wb0, Qplus_0_r. reflexivity.
      + unfold is_max. splits; try lra; left; reflexivity.
    - assert (Wb : 0 < sk_cw b) by (destruct (Qlt_le_dec 0 (sk_cw b)); auto; exfalso; apply Wb0; lra).
      destruct (qleb_spec (sk_cw b) (sk_cw a)) as [Hle|Hlt]; cbn [negb] in E.
      + apply internal_merge_spec with (P := P) (kka := kka) (kkb := kkb) in E; auto; [|lra].
        destruct E as (I & Hs' & Ek & En & Ew & Em).
        destruct (qeqb_spec (sk_cw b) 0) as [?|_]; [contradiction|].
        destruct (qeqb_spec (sk_cw a) 0) as [?|_]; [lra|].
        splits; auto.
        * rewrite Ew; reflexivity.
        * rewrite Em. apply nmax_is_max.
      + apply internal_merge_spec with (P := P) (kka := kkb) (kkb := kka) in E; auto; try lra.
        destruct E as (I & Hs' & Ek & En & Ew & Em).
        rewrite Z.min_comm in I, Ek.
        splits; auto; try lia.
        * rewrite Ew; ring.
        * rewrite Em. apply is_max_sym, nmax_is_max.
  Qed.

  (* ----- histories ----- *)
  Inductive hist : Type :=
  | HNew (k : Z)
  | HUpd (h : hist) (it : Item) (w : Q)
  | HMerge (h1 h2 : hist).

  (* the model run on a history; the choice stream is threaded through every operation *)
  Fixpoint eval (h : hist) (s : qcs) : qsketch * qcs :=
    match h with
    | HNew k => (sketch_empty QOps Item k, s)
    | HUpd h' it w =>
        let (sk, s1) := eval h' s in
        match update QOps Item sk it w s1 with Some r => r | None => (sk, s1) end
    | HMerge h1 h2 =>
        let (a, s1) := eval h1 s in
        let (b, s2) := eval h2 s1 in
        merge QOps Item a b s2
    end.

  (* L0 facts of a history: an update counts iff its weight is positive (negative weights are refused, zero is ignored) *)
  Definition accepted (w : Q) : bool := negb (Qle_bool w 0).

  Fixpoint h_wf (h : hist) : Prop :=
    match h with HNew k => (1 <= k)%Z | HUpd h' _ _ => h_wf h' | HMerge a b => h_wf a /\ h_wf b end.
  Fixpoint h_n (h : hist) : Z :=
    match h with HNew _ => 0%Z | HUpd h' _ w => if accepted w then (h_n h' + 1)%Z else h_n h' | HMerge a b => (h_n a + h_n b)%Z end.
  Fixpoint h_W (h : hist) : Q :=
    match h with HNew _ => 0 | HUpd h' _ w => if accepted w then h_W h' + w else h_W h' | HMerge a b => h_W a + h_W b end.
  Fixpoint h_wmax (h : hist) : Q :=
    match h with HNew _ => 0 | HUpd h' _ w => if accepted w then qmaxb (h_wmax h') w else h_wmax h'
               | HMerge a b => qmaxb (h_wmax a) (h_wmax b) end.
  Fixpoint h_items (h : hist) : list Item :=
    match h with HNew _ => [] | HUpd h' it w => if accepted w then h_items h' ++ [it] else h_items h'
               | HMerge a b => h_items a ++ h_items b end.
  (* get_k as coded: an empty operand's k is ignored *)
  Fixpoint h_k (h : hist) : Z :=
    match h with HNew k => k | HUpd h' _ _ => h_k h'
               | HMerge a b => if Qeq_bool (h_W b) 0 then h_k a else Z.min (h_k a) (h_k b) end.
  (* the smallest k of all sketches that took part *)
  Fixpoint h_kmin (h : hist) : Z :=
    match h with HNew k => k | HUpd h' _ _ => h_kmin h' | HMerge a b => Z.min (h_kmin a) (h_kmin b) end.
  (* the k the sample size is currently governed by *)
  Fixpoint h_kk (h : hist) : Z :=
    match h with HNew k => k | HUpd h' _ w => if accepted w then h_k h' else h_kk h'
               | HMerge a b => if Qeq_bool (h_W b) 0 then h_kk a else if Qeq_bool (h_W a) 0 then h_kk b
                               else Z.min (h_k a) (h_k b) end.

  Lemma accepted_spec w : BoolSpec (0 < w) (w <= 0) (accepted w).
  Proof. unfold accepted. destruct (qleb_spec w 0); cbn [negb]; constructor; auto. Qed.

  Theorem eval_spec h : h_wf h -> forall s sk s', eval h s = (sk, s') -> cs_ok s ->
    Inv Item (fun x => In x (h_items h)) (h_kk h) sk /\ cs_ok s' /\
    sk_k sk = h_k h /\ sk_n sk = h_n h /\ sk_cw sk == h_W h /\ sk_wmax sk == h_wmax h.
  Proof.
    induction h as [k|h IH it w|h1 IH1 h2 IH2]; intros WF s sk s' E Hs; cbn [eval] in E.
    - inversion E; subst sk s'; clear E. cbn [h_wf] in WF.
      cbn [h_items h_kk h_k h_n h_W h_wmax sketch_empty sk_k sk_n sk_cw sk_wmax].
      splits; auto; try reflexivity. now apply Inv_empty.
    - cbn [h_wf] in WF. destruct (eval h s) as [sk0 s1] eqn:E0.
      destruct (IH WF s sk0 s1 E0 Hs) as (I0 & Hs1 & Ek & En & Ew & Em).
      cbn [h_items h_kk h_k h_n h_W h_wmax].
      destruct (accepted_spec w) as [Hw|Hw].
      + assert (I1 : Inv Item (fun x => In x (h_items h ++ [it])) (h_kk h) sk0).
        { eapply Inv_weaken; [|exact I0]. intros x Hx. apply in_or_app; auto. }
        destruct (update_pos_spec Item _ _ sk0 it w s1 I1) as (sk1 & s2 & EU & I2 & Hs2 & Ek2 & En2 & Ew2 & Em2); auto.
        { apply in_or_app; right; left; reflexivity. }
        rewrite EU in E. inversion E; subst sk s'; clear E.
        rewrite Ek in I2. splits; auto; try lia.
        * rewrite Ew2, Ew; reflexivity.
        * rewrite Em2. rewrite (is_max_qmaxb _ _ _ (nmax_is_max (sk_wmax sk0) w)).
          apply qmaxb_compat; auto; reflexivity.
      + rewrite update_nonpos in E; auto. inversion E; subst sk s'; clear E. splits; auto.
    - cbn [h_wf] in WF. destruct WF as [WF1 WF2].
      destruct (eval h1 s) as [a s1] eqn:E1. destruct (eval h2 s1) as [b s2] eqn:E2.
      destruct (IH1 WF1 s a s1 E1 Hs) as (Ia & Hs1 & Eka & Ena & Ewa & Ema).
      destruct (IH2 WF2 s1 b s2 E2 Hs1) as (Ib & Hs2 & Ekb & Enb & Ewb & Emb).
      cbn [h_items h_kk h_k h_n h_W h_wmax].
      assert (Ia' : Inv Item (fun x => In x (h_items h1 ++ h_items h2)) (h_kk h1) a).
      { eapply Inv_weaken; [|exact Ia]. intros x Hx. apply in_or_app; auto. }
      assert (Ib' : Inv Item (fun x => In x (h_items h1 ++ h_items h2)) (h_kk h2) b).
      { eapply Inv_weaken; [|exact Ib]. intros x Hx. apply in_or_app; auto. }
      apply merge_spec with (P := fun x => In x (h_items h1 ++ h_items h2)) (kka := h_kk h1) (kkb := h_kk h2) in E; auto.
      destruct E as (I & Hs' & Ek & En & Ew & Em).
      rewrite (qeqb_compat _ _ 0 Ewb), (qeqb_compat _ _ 0 Ewa), Eka, Ekb in I.
      rewrite (qeqb_compat _ _ 0 Ewb), Eka, Ekb in Ek.
      splits; auto; try lia.
      + rewrite Ew, Ewa, Ewb; reflexivity.
      + rewrite (is_max_qmaxb _ _ _ Em). apply qmaxb_compat; auto.
  Qed.

  (* ----- the closed form of c ----- *)
  Lemma c_closed_form P kk (sk : qsketch) : Inv Item P kk sk -> 0 < sk_cw sk ->
    is_min (sc (sk_smp sk)) (inject_Z kk) (sk_cw sk / sk_wmax sk).
  Proof.
    intros (K1 & K2 & N0 & NW & M0 & MW & MP & R0 & RM & CE & SH & AP) HW.
    specialize (MP HW). destruct (RM HW) as (A & B & C).
    assert (E1 : 1 / sk_wmax sk * sk_cw sk == sk_cw sk / sk_wmax sk) by (field; lra).
    assert (E2 : inject_Z kk / sk_cw sk * sk_cw sk == inject_Z kk) by (field; lra).
    unfold is_min. rewrite CE. splits.
    - rewrite <- E2. apply Qmult_le_compat_r; lra.
    - rewrite <- E1. apply Qmult_le_compat_r; lra.
    - destruct C as [C|C]; rewrite C; [right; exact E1|left; exact E2].
  Qed.

  (* ----- what get_result / iteration return ----- *)
  Definition size_ok (c : Q) (n : nat) : Prop :=
    n = Z.to_nat (Qfloor c) \/ (~ c == fl c /\ n = Z.to_nat (Qceiling c)).

  Lemma ceil_nonint c : ~ c == fl c -> Qceiling c = (Qfloor c + 1)%Z.
  Proof.
    intro H. unfold Qceiling.
    assert (F : Qfloor (- c) = (- (Qfloor c + 1))%Z); [|lia].
    pose proof (fl_le c). pose proof (fl_lt c). unfold fl in *.
    assert (S : inject_Z (Qfloor c) < c).
    { destruct (Qlt_le_dec (inject_Z (Qfloor c)) c); [auto|]. exfalso; apply H. lra. }
    apply floor_unique; rewrite ?inject_Z_opp, ?inject_Z_plus; change (inject_Z 1) with 1; lra.
  Qed.

  Lemma get_result_spec P (sm : qsample) s res s' :
    get_result QOps Item sm s = (res, s') -> Shape Item sm -> AllP Item P sm -> cs_ok s ->
    size_ok (sc sm) (length res) /\ Forall P res /\ cs_ok s' /\
    (res = sdata sm \/ exists p, spart sm = Some p /\ res = sdata sm ++ [p]).
  Proof.
    unfold get_result. qs. intros E (C0 & L & Pn) (Ad & Ap) Hs.
    destruct (draw_unit QOps s) as [u s1] eqn:Eu. apply draw_unit_ok in Eu; auto. destruct Eu as (U0 & U1 & Hs1).
    pose proof (floor_nonneg _ C0) as F0.
    destruct (qleb_spec (sc sm - inject_Z (Qfloor (sc sm))) u) as [Hge|Hlt]; cbn [negb] in E.
    - inversion E; subst res s'; clear E. splits; auto. left; auto.
    - assert (NI : ~ sc sm == fl (sc sm)) by (unfold fl; intro H; lra).
      destruct (spart sm) as [p|] eqn:Ep.
      + inversion E; subst res s'; clear E. splits; auto.
        * right. split; auto. rewrite app_length, L, (ceil_nonint _ NI). cbn [length]. lia.
        * apply Forall_app; split; auto.
        * right; eauto.
      + exfalso. apply NI. apply Pn. reflexivity.
  Qed.

  Lemma iterate_spec P (sm : qsample) s res s' :
    iterate QOps Item sm s = (res, s') -> Shape Item sm -> AllP Item P sm -> cs_ok s ->
    size_ok (sc sm) (length res) /\ Forall P res.
  Proof.
    unfold iterate. qs. intros E (C0 & L & Pn) (Ad & Ap) Hs.
    destruct (draw_unit QOps s) as [u s1] eqn:Eu. apply draw_unit_ok in Eu; auto. destruct Eu as (U0 & U1 & Hs1).
    pose proof (floor_nonneg _ C0) as F0.
    destruct (qeqb_spec (sc sm) 0) as [Z0|Z0].
    - inversion E; subst res s'; clear E. splits; auto. left. rewrite Z0. reflexivity.
    - destruct (qleb_spec (sc sm - inject_Z (Qfloor (sc sm))) u) as [Hge|Hlt]; cbn [negb] in E.
      + assert (R : res = sdata sm).
        { destruct (sdata sm) as [|x d], (spart sm) as [p|]; inversion E; auto. }
        subst res. splits; auto. left; auto.
      + assert (NI : ~ sc sm == fl (sc sm)) by (unfold fl; intro H; lra).
        destruct (spart sm) as [p|] eqn:Ep; [|exfalso; apply NI; apply Pn; reflexivity].
        assert (R : res = sdata sm ++ [p]).
        { destruct (sdata sm) as [|x d]; inversion E; auto. }
        subst res. splits; auto.
        * right. split; auto. rewrite app_length, L, (ceil_nonint _ NI). cbn [length]. lia.
        * apply Forall_app; split; auto.
  Qed.

  (* ----- serialize / deserialize of the sample ----- *)
  Lemma reread_id (sm : qsample) : Shape Item sm -> reread QOps Item sm = Some sm.
  Proof.
    intros (C0 & L & Pn). unfold reread. qs. rewrite Qfloor_Z.
    destruct (qleb_spec 0 (sc sm)) as [_|?]; [|lra]. cbn [negb].
    destruct (qeqb_spec (sc sm - inject_Z (Qfloor (sc sm))) 0) as [Hi|Hn]; cbn [negb].
    - assert (Ep : spart sm = None) by (apply Pn; unfold fl; lra).
      rewrite Ep. cbn [app_opt Bool.eqb]. rewrite Nat.add_0_r, <- L.
      rewrite Nat.ltb_irrefl. cbn [negb]. rewrite firstn_all.
      destruct sm; cbn in *; subst; reflexivity.
    - destruct (spart sm) as [p|] eqn:Ep.
      + cbn [app_opt Bool.eqb negb]. rewrite app_length, <- L. cbn [length].
        replace (length (sdata sm) + 1 <? length (sdata sm) + 1)%nat with false by (symmetry; apply Nat.ltb_irrefl).
        rewrite firstn_app, Nat.sub_diag, firstn_all. cbn [firstn]. rewrite app_nil_r.
        rewrite nth_error_app2, Nat.sub_diag by lia. cbn [nth_error].
        destruct sm; cbn in *; subst; reflexivity.
      + exfalso. apply Hn. assert (sc sm == fl (sc sm)) by (apply Pn; reflexivity). unfold fl in *. lra.
  Qed.
End Hist.
