(* LedgerKll.v — sizes-only model of kll_sketch's hand-managed items_ buffer (kll_sketch_impl.hpp,
   kll_helper_impl.hpp) with its effect log.  No item values: which slots of items_ are constructed and with
   which sizes blocks are allocated depends on the level populations only, not on the items or on the random
   offsets.  The levels_ array is represented by [k_free] = levels_[0] and the list of level populations
   [k_pops] (levels_[h+1] - levels_[h]); the constructed range of items_ is [k_free, k_free + sum k_pops).
   Definitions only. *)
From Coq Require Import ZArith NArith List Bool Lia.
From DS Require Import LedgerCore.
Import ListNotations.
Local Open Scope N_scope.

Record kll := {
  k_k : N;                 (* k_ *)
  k_n : N;                 (* n_ *)
  k_free : N;              (* levels_[0]: free slots at the bottom of items_ *)
  k_pops : list N;         (* population of level 0 .. num_levels_-1 *)
  k_cap : N;               (* items_size_ *)
  k_blk : option N;        (* items_ (None = nullptr after being moved from) *)
  k_nxt : N                (* next unused local block id *)
}.

Definition sumN (l : list N) : N := fold_right N.add 0 l.
Definition k_nl (s : kll) : N := N.of_nat (length (k_pops s)).
Definition k_retained (s : kll) : N := sumN (k_pops s).
(* items outside the buffer: min_item_ and max_item_ (optional<T>) once the sketch is non-empty *)
Definition k_extras (s : kll) : N := if k_n s =? 0 then 0 else 2.

(* ---- kll_helper capacities ---- *)
Definition M : N := 8.
Fixpoint pow3 (d : nat) : N := match d with O => 1 | S d' => 3 * pow3 d' end.
Definition int_cap_aux_aux (k : N) (depth : N) : N :=
  let tmp := N.shiftl (2 * k) depth / pow3 (N.to_nat depth) in N.shiftr (tmp + 1) 1.
Definition int_cap_aux (k depth : N) : N :=
  if depth <=? 30 then int_cap_aux_aux k depth
  else let half := depth / 2 in int_cap_aux_aux (int_cap_aux_aux k half) (depth - half).
Definition level_capacity (k nl h : N) : N := N.max M (int_cap_aux k (nl - h - 1)).
Fixpoint sum_caps (k nl : N) (h : nat) : N :=      (* capacities of levels 0 .. h-1 *)
  match h with O => 0 | S h' => sum_caps k nl h' + level_capacity k nl (N.of_nat h') end.
Definition total_capacity (k nl : N) : N := sum_caps k nl (N.to_nat nl).

Definition mk (s : kll) (n free : N) (pops : list N) (cap : N) (blk : option N) (nxt : N) : kll :=
  {| k_k := k_k s; k_n := n; k_free := free; k_pops := pops; k_cap := cap; k_blk := blk; k_nxt := nxt |}.

Definition new_kll (k : N) : kll * list eff :=
  ({| k_k := k; k_n := 0; k_free := k; k_pops := [0]; k_cap := k; k_blk := Some 0; k_nxt := 1 |}, [Alloc true 0 k]).

(* find_level_to_compact: first level whose population reached its capacity; also returns the populations below it *)
Fixpoint find_level (k nl : N) (pops : list N) (h : N) : option N :=
  match pops with
  | [] => None                                 (* "capacity calculation error" *)
  | p :: t => if level_capacity k nl h <=? p then Some h else find_level k nl t (h + 1)
  end.

(* compaction of level [h] on populations: the level keeps 0 or 1 item, half of the rest is promoted *)
Fixpoint compact_at (h : nat) (pops : list N) : list N * N :=
  match h, pops with
  | O, p :: t =>
      let half := (if N.odd p then p - 1 else p) / 2 in
      ((if N.odd p then 1 else 0) :: match t with [] => [half] | q :: t' => (q + half) :: t' end, half)
  | S h', p :: t => let '(t', half) := compact_at h' t in (p :: t', half)
  | _, [] => ([], 0)
  end.

(* add_empty_top_level_to_completely_full_sketch: [None] = one of its logic_error checks *)
Definition add_empty_top (s : kll) : option (kll * list eff) :=
  match k_blk s with
  | None => None
  | Some b =>
    let cur := k_free s + k_retained s in                       (* levels_[num_levels_] *)
    if negb (k_free s =? 0) || negb (k_cap s =? cur) then None else
    let delta := level_capacity (k_k s) (k_nl s + 1) 0 in
    let new_cap := cur + delta in
    let b' := k_nxt s in
    Some (mk s (k_n s) (k_free s + delta) (k_pops s ++ [0]) new_cap (Some b') (b' + 1),
          [Alloc true b' new_cap; MovD b 0 b' delta cur; Dealloc b (k_cap s)])
  end.

(* compress_while_updating *)
Definition compress (s : kll) : option (kll * list eff) :=
  match find_level (k_k s) (k_nl s) (k_pops s) 0 with
  | None => None
  | Some level =>
    match (if level =? k_nl s - 1 then add_empty_top s else Some (s, [])) with
    | None => None
    | Some (s1, e1) =>
      match k_blk s1 with
      | None => None
      | Some b =>
        let destroy_beg := k_free s1 in
        let '(pops', half) := compact_at (N.to_nat level) (k_pops s1) in
        Some (mk s1 (k_n s1) (k_free s1 + half) pops' (k_cap s1) (k_blk s1) (k_nxt s1),
              e1 ++ [Dest b destroy_beg half])
      end
    end
  end.

Definition bump0 (pops : list N) : list N := match pops with [] => [1] | p :: t => (p + 1) :: t end.

(* internal_update: returns the slot index the caller constructs into *)
Definition internal_update (s : kll) : option (kll * list eff * N) :=
  match (if k_free s =? 0 then compress s else Some (s, [])) with
  | None => None
  | Some (s1, e1) =>
    if k_free s1 =? 0 then None else                 (* cannot happen (LedgerProofs): a compaction frees >= 4 slots *)
    let idx := k_free s1 - 1 in
    Some (mk s1 (k_n s1 + 1) idx (bump0 (k_pops s1)) (k_cap s1) (k_blk s1) (k_nxt s1), e1, idx)
  end.

(* update(item): [None] = a logic_error escaped before anything was constructed (state unchanged) *)
Definition kll_update (s : kll) : option (kll * list eff) :=
  match k_blk s with
  | None => None
  | Some _ =>
    match internal_update s with
    | None => None
    | Some (s1, e1, idx) =>
      match k_blk s1 with Some b => Some (s1, e1 ++ [Cons b idx 1]) | None => None end
    end
  end.

(* copy constructor *)
Definition kll_copy (o : kll) : option (kll * list eff) :=
  match k_blk o with
  | None => None
  | Some ob =>
    Some (mk o (k_n o) (k_free o) (k_pops o) (k_cap o) (Some 0) 1,
          [Alloc true 0 (k_cap o); FromX ob (k_free o) 0 (k_free o) (k_retained o)])
  end.

(* destructor *)
Definition kll_destroy (s : kll) : list eff :=
  match k_blk s with
  | None => []
  | Some b => [Dest b (k_free s) (k_retained s); Dealloc b (k_cap s)]
  end.

(* the state a move constructor leaves in its source: items_ = nullptr *)
Definition kll_moved_from (s : kll) : kll := mk s (k_n s) (k_free s) (k_pops s) (k_cap s) None (k_nxt s).

(* ---- merge ---- *)
Definition ub_on_num_levels (n : N) : N := if n =? 0 then 1 else 1 + N.log2 n.

(* the level-0 loop of merge: one internal_update + placement-new per level-0 item of the other sketch *)
Fixpoint merge_level0 (cnt : nat) (ob osrc : N) (s : kll) (acc : list eff) : (kll * list eff * bool) :=
  match cnt with
  | O => (s, acc, true)
  | S c =>
    match internal_update s with
    | None => (s, acc, false)
    | Some (s1, e1, idx) =>
      match k_blk s1 with
      | None => (s, acc, false)
      | Some b => merge_level0 c ob (osrc + 1) s1 (acc ++ e1 ++ [FromX ob osrc b idx 1])
      end
    end
  end.

(* populate_work_arrays for levels >= 1 over the pairs (population of this sketch, population of the other sketch);
   [si]/[oi] = slot positions in the two items_ buffers, [wl] = position in the work buffer.
   (Where both levels are non-empty the code interleaves the two sources by item order; the log lists this sketch's
   items first — same slots, same counts.) *)
Definition pad (l : list N) (n : nat) : list N := l ++ repeat 0 (n - length l).
Definition level_pairs (sp op : list N) : list (N * N) :=
  let n := Nat.max (length sp) (length op) in combine (pad sp n) (pad op n).

Fixpoint populate (ps : list (N * N)) (b wb ob : N) (si oi wl : N) : list eff :=
  match ps with
  | [] => []
  | (self_pop, other_pop) :: t =>
    (if 0 <? self_pop then [MovD b si wb wl self_pop] else []) ++
    (if 0 <? other_pop then [FromX ob oi wb (wl + self_pop) other_pop] else []) ++
    populate t b wb ob (si + self_pop) (oi + other_pop) (wl + self_pop + other_pop)
  end.

(* general_compress on populations.  [ins] = populations of levels cur, cur+1, ... still to process *)
Record gcres := { r_nl : N; r_cap : N; r_items : N; r_out : list N }.

Fixpoint gc_loop (fuel : nat) (k cur nl cnt tgt : N) (ins out : list N) : gcres :=
  match fuel with
  | O => {| r_nl := nl; r_cap := tgt; r_items := cnt; r_out := out |}
  | S f =>
    let p := hd 0 ins in
    let rest := tl ins in
    if (cnt <? tgt) || (p <? level_capacity k nl cur) then
      if cur =? nl - 1 then {| r_nl := nl; r_cap := tgt; r_items := cnt; r_out := out ++ [p] |}
      else gc_loop f k (cur + 1) nl cnt tgt rest (out ++ [p])
    else
      let odd := N.odd p in
      let half := (if odd then p - 1 else p) / 2 in
      let rest' := (hd 0 rest + half) :: tl rest in
      let top := cur =? nl - 1 in
      let nl' := if top then nl + 1 else nl in
      let tgt' := if top then tgt + level_capacity k (nl + 1) 0 else tgt in
      let out' := out ++ [if odd then 1 else 0] in
      if cur =? nl' - 1 then {| r_nl := nl'; r_cap := tgt'; r_items := cnt - half; r_out := out' |}
      else gc_loop f k (cur + 1) nl' (cnt - half) tgt' rest' out'
  end.

Definition general_compress (k : N) (ins : list N) (fuel : nat) : gcres :=
  let nl := N.of_nat (length ins) in
  gc_loop fuel k 0 nl (sumN ins) (total_capacity k nl) ins [].

(* merge_higher_levels.  [None] = a condition the code relies on without being able to recover from its failure
   ("inconsistent state", "merge error", more items than capacity): see LedgerProofs (outcome Abort). *)
Definition merge_higher (s o : kll) (final_n : N) : option (kll * list eff) :=
  match k_blk s, k_blk o with
  | Some b, Some ob =>
    let tmp := k_retained s + sumN (tl (k_pops o)) in
    let wb := k_nxt s in
    let ub := ub_on_num_levels final_n in
    let p0 := hd 0 (k_pops s) in
    let e0 := [Alloc true wb tmp] ++ (if 0 <? p0 then [MovD b (k_free s) wb 0 p0] else []) in
    let ps := level_pairs (tl (k_pops s)) (tl (k_pops o)) in
    let w := map (fun p => fst p + snd p) ps in
    let e1 := populate ps b wb ob (k_free s + p0) (k_free o + hd 0 (k_pops o)) p0 in
    let r := general_compress (k_k s) (p0 :: w) (N.to_nat ub + 2) in
    if negb (sumN (r_out r) =? r_items r) || negb (N.of_nat (length (r_out r)) =? r_nl r) || (ub <? r_nl r)
       || (r_cap r <? r_items r) || (tmp <? r_items r) || negb (sumN (p0 :: w) =? tmp) then None
    else
      let e2 := [Dest wb (r_items r) (tmp - r_items r)] in
      let realloc := negb (r_cap r =? k_cap s) in
      let b' := if realloc then wb + 1 else b in
      let e3 := if realloc then [Dealloc b (k_cap s); Alloc true b' (r_cap r)] else [] in
      let free := r_cap r - r_items r in
      let e4 := [MovD wb 0 b' free (r_items r); Dealloc wb tmp] in
      Some (mk s (k_n s) free (r_out r) (r_cap r) (Some b') (wb + 2), e0 ++ e1 ++ e2 ++ e3 ++ e4)
  | _, _ => None
  end.

Inductive outcome := Done | Thrown | Abort.

(* merge(other) (by reference or by move: same buffer discipline; FromX leaves the source slots constructed) *)
Definition kll_merge (s o : kll) : kll * list eff * outcome :=
  if k_n o =? 0 then (s, [], Done) else
  match k_blk o with
  | None => (s, [], Thrown)
  | Some ob =>
    let final_n := k_n s + k_n o in
    let '(s1, e1, ok) := merge_level0 (N.to_nat (hd 0 (k_pops o))) ob (k_free o) s [] in
    if negb ok then (s1, e1, Thrown) else
    if 2 <=? k_nl o then
      match merge_higher s1 o final_n with
      | None => (s1, e1, Abort)
      | Some (s2, e2) => (mk s2 final_n (k_free s2) (k_pops s2) (k_cap s2) (k_blk s2) (k_nxt s2), e1 ++ e2, Done)
      end
    else (mk s1 final_n (k_free s1) (k_pops s1) (k_cap s1) (k_blk s1) (k_nxt s1), e1, Done)
  end.
