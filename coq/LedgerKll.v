(* LedgerKll.v — sizes-only model of kll_sketch's hand-managed items_ buffer (kll_sketch_impl.hpp,
   kll_helper_impl.hpp) with its effect log.  No item values: the buffer discipline of KLL (which slots are
   constructed, which blocks are allocated with which size) depends on the level boundaries only, not on
   the items or on the random offsets.  Definitions only. *)
From Coq Require Import ZArith NArith List Bool Lia.
From DS Require Import LedgerCore.
Import ListNotations.
Local Open Scope N_scope.

Record kll := {
  k_k : N;                 (* k_ *)
  k_n : N;                 (* n_ *)
  k_lv : list N;           (* levels_[0 .. num_levels_]  (num_levels_ = length - 1) *)
  k_cap : N;               (* items_size_ *)
  k_blk : option N;        (* items_ (None = nullptr after being moved from) *)
  k_nxt : N                (* next unused local block id *)
}.

Definition k_nl (s : kll) : N := N.of_nat (length (k_lv s)) - 1.
Definition lvn (l : list N) (i : N) : N := nth (N.to_nat i) l 0.
Definition lv0 (s : kll) : N := lvn (k_lv s) 0.
Definition lvN (s : kll) : N := last (k_lv s) 0.
Definition k_retained (s : kll) : N := lvN s - lv0 s.
(* items outside the buffer: min_item_ and max_item_ (optional<T>) once the sketch is non-empty *)
Definition k_extras (s : kll) : N := if k_n s =? 0 then 0 else 2.

(* ---- kll_helper capacities ---- *)
Definition M : N := 8.
Fixpoint pow3 (d : nat) : N := match d with O => 1 | S d' => 3 * pow3 d' end.
Definition int_cap_aux_aux (k : N) (depth : N) : N :=
  let tmp := N.shiftl (2 * k) depth / pow3 (N.to_nat depth) in N.shiftr (tmp + 1) 1.
Definition int_cap_aux (k depth : N) : N :=
  if depth <=? 30 then int_cap_aux_aux k depth
  else let half := depth / 2 in int_cap_aux_aux (int_cap_aux_aux k half) (depth - half).
Definition level_capacity (k nl h : N) : N := N.max M (int_cap_aux k (nl - h - 1)).
Fixpoint sum_caps (k nl : N) (h : nat) : N :=      (* capacities of levels 0 .. h-1 *)
  match h with O => 0 | S h' => sum_caps k nl h' + level_capacity k nl (N.of_nat h') end.
Definition total_capacity (k nl : N) : N := sum_caps k nl (N.to_nat nl).

Definition new_kll (k : N) : kll * list eff :=
  ({| k_k := k; k_n := 0; k_lv := [k; k]; k_cap := k; k_blk := Some 0; k_nxt := 1 |}, [Alloc true 0 k]).

(* find_level_to_compact: first level whose population reached its capacity *)
Fixpoint find_level (k nl : N) (lv : list N) (h : N) : option N :=
  match lv with
  | a :: ((b :: _) as t) => if level_capacity k nl h <=? b - a then Some h else find_level k nl t (h + 1)
  | _ => None                                 (* "capacity calculation error" *)
  end.

Fixpoint set_nth {A} (i : nat) (x : A) (l : list A) : list A :=
  match l with [] => [] | y :: t => match i with O => x :: t | S i' => y :: set_nth i' x t end end.
Definition setn (l : list N) (i x : N) : list N := set_nth (N.to_nat i) x l.
(* add d to entries 0 .. c-1 *)
Fixpoint add_first (c : nat) (d : N) (l : list N) : list N :=
  match c, l with S c', a :: t => (a + d) :: add_first c' d t | _, _ => l end.

(* add_empty_top_level_to_completely_full_sketch: [None] = one of its logic_error checks *)
Definition add_empty_top (s : kll) : option (kll * list eff) :=
  match k_blk s with
  | None => None
  | Some b =>
    let cur := lvN s in
    if negb (lv0 s =? 0) || negb (k_cap s =? cur) then None else
    let delta := level_capacity (k_k s) (k_nl s + 1) 0 in
    let new_cap := cur + delta in
    let b' := k_nxt s in
    let lv' := map (fun x => x + delta) (k_lv s) ++ [new_cap] in
    Some ({| k_k := k_k s; k_n := k_n s; k_lv := lv'; k_cap := new_cap; k_blk := Some b'; k_nxt := b' + 1 |},
          [Alloc true b' new_cap; MovD b 0 b' delta cur; Dealloc b (k_cap s)])
  end.

(* compress_while_updating *)
Definition compress (s : kll) : option (kll * list eff) :=
  match find_level (k_k s) (k_nl s) (k_lv s) 0 with
  | None => None
  | Some level =>
    match (if level =? k_nl s - 1 then add_empty_top s else Some (s, [])) with
    | None => None
    | Some (s1, e1) =>
      match k_blk s1 with
      | None => None
      | Some b =>
        let lv := k_lv s1 in
        let raw_beg := lvn lv level in
        let raw_lim := lvn lv (level + 1) in
        let raw_pop := raw_lim - raw_beg in
        let odd := N.odd raw_pop in
        let adj_pop := if odd then raw_pop - 1 else raw_pop in
        let half := adj_pop / 2 in
        let destroy_beg := lvn lv 0 in
        let top := raw_lim - half in
        let lv1 := setn lv (level + 1) top in
        let lv2 := setn lv1 level (if odd then top - 1 else top) in
        if negb (lvn lv2 level =? raw_beg + half) then None            (* "compaction error" *)
        else
          let lv3 := add_first (N.to_nat level) half lv2 in
          Some ({| k_k := k_k s1; k_n := k_n s1; k_lv := lv3; k_cap := k_cap s1; k_blk := k_blk s1; k_nxt := k_nxt s1 |},
                e1 ++ [Dest b destroy_beg half])
      end
    end
  end.

(* internal_update: returns the slot index the caller constructs into *)
Definition internal_update (s : kll) : option (kll * list eff * N) :=
  match (if lv0 s =? 0 then compress s else Some (s, [])) with
  | None => None
  | Some (s1, e1) =>
    let idx := lv0 s1 - 1 in
    Some ({| k_k := k_k s1; k_n := k_n s1 + 1; k_lv := setn (k_lv s1) 0 idx; k_cap := k_cap s1; k_blk := k_blk s1; k_nxt := k_nxt s1 |},
          e1, idx)
  end.

(* update(item): [None] = a logic_error escaped before anything was constructed (state unchanged) *)
Definition kll_update (s : kll) : option (kll * list eff) :=
  match k_blk s with
  | None => None
  | Some _ =>
    match internal_update s with
    | None => None
    | Some (s1, e1, idx) =>
      match k_blk s1 with Some b => Some (s1, e1 ++ [Cons b idx 1]) | None => None end
    end
  end.

(* copy constructor *)
Definition kll_copy (o : kll) : option (kll * list eff) :=
  match k_blk o with
  | None => None
  | Some ob =>
    Some ({| k_k := k_k o; k_n := k_n o; k_lv := k_lv o; k_cap := k_cap o; k_blk := Some 0; k_nxt := 1 |},
          [Alloc true 0 (k_cap o); FromX ob (lv0 o) 0 (lv0 o) (lvN o - lv0 o)])
  end.

(* destructor *)
Definition kll_destroy (s : kll) : list eff :=
  match k_blk s with
  | None => []
  | Some b => [Dest b (lv0 s) (lvN s - lv0 s); Dealloc b (k_cap s)]
  end.

(* the state a move constructor leaves in its source: items_ = nullptr (levels_ moved away; min/max moved-from) *)
Definition kll_moved_from (s : kll) : kll :=
  {| k_k := k_k s; k_n := k_n s; k_lv := k_lv s; k_cap := k_cap s; k_blk := None; k_nxt := k_nxt s |}.

(* ---- merge ---- *)
Definition level_size (lv : list N) (nl l : N) : N := if nl <=? l then 0 else lvn lv (l + 1) - lvn lv l.

Definition floor_log2_frac (n : N) : N := if n =? 0 then 0 else N.log2 n.     (* floor_of_log2_of_fraction(n, 1) *)
Definition ub_on_num_levels (n : N) : N := if n =? 0 then 1 else 1 + floor_log2_frac n.

(* the level-0 loop of merge: one internal_update + placement-new per level-0 item of the other sketch *)
Fixpoint merge_level0 (cnt : nat) (ob osrc : N) (s : kll) (acc : list eff) : (kll * list eff * bool) :=
  match cnt with
  | O => (s, acc, true)
  | S c =>
    match internal_update s with
    | None => (s, acc, false)
    | Some (s1, e1, idx) =>
      match k_blk s1 with
      | None => (s, acc, false)
      | Some b => merge_level0 c ob (osrc + 1) s1 (acc ++ e1 ++ [FromX ob osrc b idx 1])
      end
    end
  end.

(* populate_work_arrays for levels 1 .. prov-1: returns worklevels (reversed accumulation) and effects *)
Fixpoint populate (cnt : nat) (lvl : N) (b wb ob : N) (s o : kll) (wl : N) (acc_wl : list N) (acc : list eff)
  : list N * list eff :=
  match cnt with
  | O => (acc_wl, acc)
  | S c =>
    let self_pop := level_size (k_lv s) (k_nl s) lvl in
    let other_pop := level_size (k_lv o) (k_nl o) lvl in
    let e := (if 0 <? self_pop then [MovD b (lvn (k_lv s) lvl) wb wl self_pop] else []) ++
             (if 0 <? other_pop then [FromX ob (lvn (k_lv o) lvl) wb (wl + self_pop) other_pop] else []) in
    populate c (lvl + 1) b wb ob s o (wl + self_pop + other_pop) (acc_wl ++ [wl + self_pop + other_pop]) (acc ++ e)
  end.

(* general_compress on sizes: state of the loop *)
Record gcst := { g_nl : N; g_cnt : N; g_tgt : N; g_in : list N; g_out : list N }.

Fixpoint gc_loop (fuel : nat) (k : N) (cur : N) (g : gcst) : gcst :=
  match fuel with
  | O => g
  | S f =>
    let inl := if cur =? g_nl g - 1 then setn (g_in g) (cur + 2) (lvn (g_in g) (cur + 1)) else g_in g in
    let raw_beg := lvn inl cur in
    let raw_lim := lvn inl (cur + 1) in
    let raw_pop := raw_lim - raw_beg in
    let g1 :=
      if (g_cnt g <? g_tgt g) || (raw_pop <? level_capacity k (g_nl g) cur) then
        {| g_nl := g_nl g; g_cnt := g_cnt g; g_tgt := g_tgt g; g_in := inl;
           g_out := setn (g_out g) (cur + 1) (lvn (g_out g) cur + raw_pop) |}
      else
        let odd := N.odd raw_pop in
        let adj_pop := if odd then raw_pop - 1 else raw_pop in
        let half := adj_pop / 2 in
        let out' := setn (g_out g) (cur + 1) (lvn (g_out g) cur + (if odd then 1 else 0)) in
        let in' := setn inl (cur + 1) (lvn inl (cur + 1) - half) in
        let top := cur =? g_nl g - 1 in
        {| g_nl := if top then g_nl g + 1 else g_nl g;
           g_cnt := g_cnt g - half;
           g_tgt := if top then g_tgt g + level_capacity k (g_nl g + 1) 0 else g_tgt g;
           g_in := in'; g_out := out' |} in
    if cur =? g_nl g1 - 1 then g1 else gc_loop f k (cur + 1) g1
  end.

Record gcres := { r_nl : N; r_cap : N; r_items : N; r_out : list N }.

Definition general_compress (k nl_in : N) (inl : list N) (slots : nat) : gcres :=
  let g0 := {| g_nl := nl_in; g_cnt := lvn inl nl_in - lvn inl 0; g_tgt := total_capacity k nl_in;
               g_in := inl ++ repeat 0 slots; g_out := repeat 0 (length inl + slots) |} in
  let g := gc_loop (length inl + slots) k 0 g0 in
  {| r_nl := g_nl g; r_cap := g_tgt g; r_items := g_cnt g; r_out := g_out g |}.

(* merge_higher_levels.  Outcome [inr tt] = one of the conditions the code relies on without being able to
   recover (general_compress "inconsistent state", "merge error", more items than capacity) — see LedgerProofs. *)
Definition merge_higher (s o : kll) (final_n : N) : option (kll * list eff) :=
  match k_blk s, k_blk o with
  | Some b, Some ob =>
    let tmp := k_retained s + (if k_nl o =? 1 then 0 else lvN o - lvn (k_lv o) 1) in
    let wb := k_nxt s in
    let ub := ub_on_num_levels final_n in
    let prov := N.max (k_nl s) (k_nl o) in
    let wl1 := level_size (k_lv s) (k_nl s) 0 in
    let e0 := [Alloc true wb tmp] ++ (if 0 <? wl1 then [MovD b (lv0 s) wb 0 wl1] else []) in
    let '(wls, e1) := populate (N.to_nat prov - 1) 1 b wb ob s o wl1 [0; wl1] e0 in
    let r := general_compress (k_k s) prov wls (N.to_nat ub + 2 - length wls) in
    if negb (lvn (r_out r) (r_nl r) - lvn (r_out r) 0 =? r_items r) || (ub <? r_nl r) || (r_cap r <? r_items r)
       || (tmp <? r_items r) then None
    else
      let e2 := [Dest wb (r_items r) (tmp - r_items r)] in
      let realloc := negb (r_cap r =? k_cap s) in
      let b' := if realloc then wb + 1 else b in
      let e3 := if realloc then [Dealloc b (k_cap s); Alloc true b' (r_cap r)] else [] in
      let free := r_cap r - r_items r in
      let e4 := [MovD wb (lvn (r_out r) 0) b' free (r_items r); Dealloc wb tmp] in
      let lv' := map (fun x => x + free - lvn (r_out r) 0) (firstn (N.to_nat (r_nl r) + 1) (r_out r)) in
      Some ({| k_k := k_k s; k_n := k_n s; k_lv := lv'; k_cap := r_cap r; k_blk := Some b'; k_nxt := wb + 2 |},
            e1 ++ e2 ++ e3 ++ e4)
  | _, _ => None
  end.

Inductive outcome := Done | Thrown | Abort.

(* merge(other) (by reference or by move: same buffer discipline; FromX leaves the source slots constructed) *)
Definition kll_merge (s o : kll) : kll * list eff * outcome :=
  if k_n o =? 0 then (s, [], Done) else
  match k_blk o with
  | None => (s, [], Thrown)
  | Some ob =>
    let final_n := k_n s + k_n o in
    let '(s1, e1, ok) := merge_level0 (N.to_nat (level_size (k_lv o) (k_nl o) 0)) ob (lv0 o) s [] in
    if negb ok then (s1, e1, Thrown) else
    if 2 <=? k_nl o then
      match merge_higher s1 o final_n with
      | None => (s1, e1, Abort)
      | Some (s2, e2) =>
        ({| k_k := k_k s2; k_n := final_n; k_lv := k_lv s2; k_cap := k_cap s2; k_blk := k_blk s2; k_nxt := k_nxt s2 |},
         e1 ++ e2, Done)
      end
    else
      ({| k_k := k_k s1; k_n := final_n; k_lv := k_lv s1; k_cap := k_cap s1; k_blk := k_blk s1; k_nxt := k_nxt s1 |}, e1, Done)
  end.
