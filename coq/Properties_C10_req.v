(* Properties_C10_req.v — C10 for the REQ sketch: the bytes of the image sit where the layout documentation of
   req_sketch.hpp / req_compactor.hpp puts them (model ReqCodecDefs.enc, compared byte for byte with the code on every run;
   images written by an independent encoder from the same documentation are read by both readers of the code).
   Statements only; proofs in ReqCodecProofs.v.  Only serial version 1 exists for REQ: there is no legacy form to read. *)
From Coq Require Import ZArith List Bool Lia.
From DS Require Import RunnerLib SortedView ReqDefs ReqProofs ReqCodecInv ReqCodecDefs ReqCodecProofs.
From DS Require KllCodecDefs.
Import ListNotations.
Local Open Scope Z_scope.

(* bytes 0..7: preamble_ints (4 iff more than one level), serial version 1, family 17, flags, k (little endian),
   num_levels (0 when empty), num_raw_items (n when n <= 4) *)
Theorem C10_req_preamble : forall kind s, 0 <= rk s < 65536 ->
  firstn 8 (enc kind s) =
  [if est_mode s then 4 else 2; 1; 17; flags_of s; rk s mod 256; rk s / 256 mod 256;
   if rn s =? 0 then 0 else len (comps s); if rn s <=? 4 then rn s else 0] /\
  KllCodecDefs.from_le [rk s mod 256; rk s / 256 mod 256] = rk s.
Proof. exact enc_preamble. Qed.

(* flags: bit 2 empty, bit 3 high rank accuracy, bit 4 raw items, bit 5 level zero sorted; bits 0, 1, 6, 7 are zero *)
Theorem C10_req_flags : forall s,
  KllCodecDefs.bit (flags_of s) 2 = (rn s =? 0) /\ KllCodecDefs.bit (flags_of s) 3 = hra s /\
  KllCodecDefs.bit (flags_of s) 4 = (rn s <=? 4) /\ KllCodecDefs.bit (flags_of s) 5 = srt (c0 s) /\
  KllCodecDefs.bit (flags_of s) 0 = false /\ KllCodecDefs.bit (flags_of s) 1 = false /\
  KllCodecDefs.bit (flags_of s) 6 = false /\ KllCodecDefs.bit (flags_of s) 7 = false.
Proof.
  intro s. rewrite flags_of_eq. destruct (rn s =? 0), (hra s), (rn s <=? 4), (srt (c0 s)); repeat split; reflexivity.
Qed.

(* estimation mode: n (8 bytes), min item, max item follow the preamble; then the raw items or the compactors *)
Theorem C10_req_estimation_fields : forall kind s, rn s <> 0 -> est_mode s = true ->
  skipn 8 (enc kind s) = KllCodecDefs.le 8 (rn s) ++ item_enc kind (rmin s) ++ item_enc kind (rmax s) ++
                         (if rn s <=? 4 then flat_map (item_enc kind) (firstn (Z.to_nat (rn s)) (items (c0 s)))
                          else flat_map (enc_comp kind) (comps s)).
Proof. exact enc_estimation_fields. Qed.

Theorem C10_req_exact_fields : forall kind s, rn s <> 0 -> est_mode s = false ->
  skipn 8 (enc kind s) = if rn s <=? 4 then flat_map (item_enc kind) (firstn (Z.to_nat (rn s)) (items (c0 s)))
                         else flat_map (enc_comp kind) (comps s).
Proof. exact enc_exact_fields. Qed.

(* one compactor: state at 0, section_size_raw (binary32) at 8, lg_weight at 12, num_sections at 13, padding at 14,
   num_items at 16, items from 20 in address order *)
Theorem C10_req_compactor_layout : forall kind c,
  firstn 8 (enc_comp kind c) = KllCodecDefs.le 8 (cstate c) /\
  firstn 4 (skipn 8 (enc_comp kind c)) = KllCodecDefs.le 4 (f32_bits (ssr c)) /\
  firstn 4 (skipn 12 (enc_comp kind c)) = [lgw c; nsec c; 0; 0] /\
  firstn 4 (skipn 16 (enc_comp kind c)) = KllCodecDefs.le 4 (nitems c) /\
  skipn 20 (enc_comp kind c) = flat_map (item_enc kind) (items c).
Proof. exact enc_comp_layout. Qed.

(* the binary32 section size is read back exactly *)
Theorem C10_req_section_size_bits : forall v, f32_valid v -> f32_of_bits (f32_bits v) = Some v /\ 0 <= f32_bits v < 2 ^ 32.
Proof. exact f32_bits_roundtrip. Qed.

(* a reader that follows this layout (dec_core does, field by field) recovers the sketch: see C09_req_image_roundtrip;
   anything claiming another serial version or family is not read *)
Theorem C10_req_other_versions_not_read : forall kind pre sv fam fl k0 k1 nl nraw rest, sv <> 1 \/ fam <> 17 ->
  dec_core kind (pre :: sv :: fam :: fl :: k0 :: k1 :: nl :: nraw :: rest) = (None, O).
Proof. intros. apply bad_preamble_refused. tauto. Qed.

(* non-vacuity: the 16-byte image of an LRA sketch of floats, k = 12, holding 5.0 and 2.0 (raw-items form) *)
Example C10_req_nonvacuous :
  let c := mkcomp 0 false false (f32_of_Z 12) 12 3 0 [5; 2] in
  let s := mkreq 12 false 72 2 2 [c] 2 5 in
  enc 3 s = [2; 1; 17; 16; 12; 0; 1; 2;  0; 0; 160; 64;  0; 0; 0; 64] /\
  dec_core 3 (enc 3 s) = (Some (s, []), 1%nat) /\ f32_bits (f32_of_Z 12) = 1094713344.
Proof. vm_compute. repeat split; reflexivity. Qed.

Print Assumptions C10_req_preamble.
Print Assumptions C10_req_flags.
Print Assumptions C10_req_estimation_fields.
Print Assumptions C10_req_exact_fields.
Print Assumptions C10_req_compactor_layout.
Print Assumptions C10_req_section_size_bits.
Print Assumptions C10_req_other_versions_not_read.
