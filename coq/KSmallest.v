(* KSmallest.v — selection of the k smallest entries by key.
   std::nth_element is modelled by its postcondition [nth_post]: the result is a permutation of the
   input, split as  pre ++ p :: post  with |pre| = k, every key of pre <= key p <= every key of post.
   On duplicate-free keys this pins down the pivot p and the *set* pre (the entries with a key
   strictly below the pivot), whatever the implementation of nth_element does ([nth_post_filter]).
   A merge sort by key is provided as the executable instance ([msort_nth_post]) and for sorted output. *)
From Coq Require Import NArith List Lia Bool Permutation Sorted Arith.
Import ListNotations.
Local Open Scope N_scope.

Lemma Permutation_filter {A} (f : A -> bool) l l' : Permutation l l' -> Permutation (filter f l) (filter f l').
Proof.
  induction 1; simpl; auto.
  - destruct (f x); auto.
  - destruct (f x), (f y); auto. apply perm_swap.
  - eapply perm_trans; eauto.
Qed.

Lemma filter_all_true {A} (f : A -> bool) l : Forall (fun a => f a = true) l -> filter f l = l.
Proof. induction 1; simpl; auto. rewrite H. now f_equal. Qed.

Lemma filter_all_false {A} (f : A -> bool) l : Forall (fun a => f a = false) l -> filter f l = [].
Proof. induction 1; simpl; auto. now rewrite H. Qed.

Section KS.
  Variable A : Type.
  Variable key : A -> N.

  Definition kle (a b : A) : Prop := key a <= key b.
  Definition klt (a b : A) : Prop := key a < key b.

  (* ---- merge sort by key ---- *)
  Fixpoint merge (l1 : list A) : list A -> list A :=
    fix aux (l2 : list A) : list A :=
      match l1, l2 with
      | [], _ => l2
      | _, [] => l1
      | a1 :: r1, a2 :: r2 => if key a1 <=? key a2 then a1 :: merge r1 l2 else a2 :: aux r2
      end.

  Fixpoint split (l : list A) : list A * list A :=
    match l with
    | [] => ([], [])
    | [a] => ([a], [])
    | a :: b :: r => let (x, y) := split r in (a :: x, b :: y)
    end.

  Fixpoint msort_fuel (fuel : nat) (l : list A) : list A :=
    match fuel with
    | O => l
    | S f =>
      match l with
      | [] => []
      | [a] => [a]
      | _ => let (x, y) := split l in merge (msort_fuel f x) (msort_fuel f y)
      end
    end.

  Definition msort (l : list A) : list A := msort_fuel (length l) l.

  Lemma merge_perm l1 : forall l2, Permutation (merge l1 l2) (l1 ++ l2).
  Proof.
    induction l1 as [|a1 r1 IH1]; intros l2.
    - destruct l2; simpl; auto.
    - induction l2 as [|a2 r2 IH2].
      + simpl. rewrite app_nil_r. auto.
      + simpl. destruct (key a1 <=? key a2).
        * apply perm_skip. apply IH1.
        * eapply perm_trans; [apply perm_skip, IH2|]. apply (Permutation_middle (a1 :: r1) r2 a2).
  Qed.

  Lemma split_spec l :
    (forall x y, split l = (x, y) ->
       Permutation l (x ++ y) /\ (length y <= length x <= S (length y))%nat) /\
    (forall a x y, split (a :: l) = (x, y) ->
       Permutation (a :: l) (x ++ y) /\ (length y <= length x <= S (length y))%nat).
  Proof.
    induction l as [|b r [IH1 IH2]].
    - split; intros; simpl in *; inversion H; subst; simpl; split; auto; lia.
    - split; [exact (IH2 b)|]. intros a x y H. simpl in H. destruct (split r) as [x0 y0] eqn:E.
      inversion H; subst. destruct (IH1 x0 y0 eq_refl) as [Hp Hl]. split; [|simpl; lia].
      simpl. apply perm_skip. eapply perm_trans; [apply perm_skip, Hp|]. apply Permutation_middle.
  Qed.

  Lemma msort_fuel_perm f : forall l, Permutation (msort_fuel f l) l.
  Proof.
    induction f as [|f IH]; intros l; simpl; auto.
    destruct l as [|a [|b r]]; auto.
    destruct (split (a :: b :: r)) as [x y] eqn:E.
    destruct (proj1 (split_spec (a :: b :: r)) x y E) as [Hp _].
    eapply perm_trans; [apply merge_perm|]. symmetry. eapply perm_trans; [exact Hp|].
    apply Permutation_app; symmetry; apply IH.
  Qed.

  Lemma msort_perm l : Permutation (msort l) l.
  Proof. apply msort_fuel_perm. Qed.

  Definition sorted (l : list A) : Prop := StronglySorted kle l.

  Lemma merge_sorted l1 : forall l2, sorted l1 -> sorted l2 -> sorted (merge l1 l2).
  Proof.
    induction l1 as [|a1 r1 IH1]; intros l2 H1 H2.
    - destruct l2; simpl; auto.
    - induction l2 as [|a2 r2 IH2]; [simpl; auto|].
      simpl. destruct (N.leb_spec (key a1) (key a2)) as [Hle|Hgt].
      + inversion H1; subst. constructor; [apply IH1; auto|].
        eapply Permutation_Forall; [symmetry; apply merge_perm|]. apply Forall_app. split; auto.
        inversion H2; subst. constructor; [exact Hle|]. eapply Forall_impl; [|exact H6].
        intros c Hc. unfold kle in *. lia.
      + inversion H2; subst. constructor; [apply IH2; auto|].
        change ((fix aux (l2 : list A) : list A :=
                   match l2 with
                   | [] => a1 :: r1
                   | a2 :: r2 => if key a1 <=? key a2 then a1 :: merge r1 l2 else a2 :: aux r2
                   end) r2) with (merge (a1 :: r1) r2).
        eapply Permutation_Forall; [symmetry; apply merge_perm|]. apply Forall_app. split; auto.
        inversion H1; subst. constructor; [unfold kle; lia|]. eapply Forall_impl; [|exact H6].
        intros c Hc. unfold kle in *. lia.
  Qed.

  Lemma msort_fuel_sorted f : forall l, (length l <= S f)%nat -> sorted (msort_fuel f l).
  Proof.
    induction f as [|f IH]; intros l Hl.
    - simpl. destruct l as [|a [|b r]]; simpl in Hl; try lia; repeat constructor.
    - simpl. destruct l as [|a [|b r]]; try (repeat constructor; fail).
      destruct (split (a :: b :: r)) as [x y] eqn:E.
      destruct (proj1 (split_spec (a :: b :: r)) x y E) as [Hp Hlen].
      apply Permutation_length in Hp. rewrite app_length in Hp. simpl in Hp, Hl.
      apply merge_sorted; apply IH; lia.
  Qed.

  Lemma msort_sorted l : sorted (msort l).
  Proof. apply msort_fuel_sorted. lia. Qed.

  Lemma sorted_app_inv a p b : sorted (a ++ p :: b) -> Forall (fun x => kle x p) a /\ Forall (kle p) b.
  Proof.
    induction a as [|x a IH]; simpl; intros H; inversion H; subst.
    - split; auto.
    - destruct (IH H2) as [Ha Hb]. split; auto. constructor; auto.
      rewrite Forall_app in H3. destruct H3 as [_ H3]. inversion H3; auto.
  Qed.

  (* sorted and duplicate-free keys: strictly increasing *)
  Lemma sorted_nodup_strict l : sorted l -> NoDup (map key l) -> StronglySorted klt l.
  Proof.
    induction 1 as [|a r Hs IH Hf]; intros Hnd; [constructor|].
    simpl in Hnd. inversion Hnd; subst. constructor; auto.
    rewrite Forall_forall in *. intros x Hx. specialize (Hf x Hx). unfold kle, klt in *.
    assert (key a <> key x) by (intros E; apply H1; rewrite E; now apply in_map). lia.
  Qed.

  (* ---- nth_element by postcondition ---- *)
  Definition nth_post (k : nat) (l l' : list A) : Prop :=
    Permutation l' l /\
    exists pre p post, l' = pre ++ p :: post /\ length pre = k /\
      Forall (fun a => kle a p) pre /\ Forall (kle p) post.

  Lemma split_at (l' pre : list A) (p : A) (post : list A) : l' = pre ++ p :: post ->
    nth_error l' (length pre) = Some p /\ firstn (length pre) l' = pre.
  Proof.
    intros ->. split.
    - rewrite nth_error_app2 by lia. now rewrite Nat.sub_diag.
    - rewrite firstn_app, Nat.sub_diag, firstn_all. simpl. now rewrite app_nil_r.
  Qed.

  Lemma sorted_nth_post k l l' : Permutation l' l -> sorted l' -> (k < length l)%nat -> nth_post k l l'.
  Proof.
    intros Hp Hs Hk. split; auto. rewrite <- (Permutation_length Hp) in Hk.
    destruct l' as [|d r]; [simpl in Hk; lia|].
    destruct (nth_split (d :: r) d Hk) as (l1 & l2 & Heq & Hlen).
    exists l1, (nth k (d :: r) d), l2. split; auto. split; auto.
    rewrite Heq in Hs. now apply sorted_app_inv.
  Qed.

  Lemma msort_nth_post k l : (k < length l)%nat -> nth_post k l (msort l).
  Proof. intros. apply sorted_nth_post; auto using msort_perm, msort_sorted. Qed.

  (* with distinct keys, the first k positions hold exactly the entries below the pivot *)
  Lemma nth_post_filter l l' pre p post :
    NoDup (map key l) -> Permutation l' l -> l' = pre ++ p :: post ->
    Forall (fun a => kle a p) pre -> Forall (kle p) post ->
    Permutation pre (filter (fun a => key a <? key p) l) /\ In p l /\
    Permutation post (filter (fun a => key p <? key a) l).
  Proof.
    intros Hnd Hp Heq Hpre Hpost.
    assert (Hnd' : NoDup (map key l')) by (eapply Permutation_NoDup; [symmetry; apply Permutation_map, Hp|auto]).
    rewrite Heq, map_app in Hnd'. simpl in Hnd'.
    assert (Hnotin : ~ In (key p) (map key pre ++ map key post)) by (apply NoDup_remove_2 in Hnd'; auto).
    assert (Hpre' : Forall (fun a => key a < key p) pre).
    { rewrite Forall_forall in *. intros a Ha. specialize (Hpre a Ha). unfold kle in Hpre.
      assert (key a <> key p) by (intros E; apply Hnotin, in_or_app; left; rewrite <- E; now apply in_map). lia. }
    assert (Hpost' : Forall (fun a => key p < key a) post).
    { rewrite Forall_forall in *. intros a Ha. specialize (Hpost a Ha). unfold kle in Hpost.
      assert (key a <> key p) by (intros E; apply Hnotin, in_or_app; right; rewrite <- E; now apply in_map). lia. }
    split; [|split].
    - eapply perm_trans; [|apply Permutation_filter, Hp]. rewrite Heq, filter_app. simpl.
      rewrite N.ltb_irrefl. rewrite (filter_all_true _ pre), (filter_all_false _ post).
      + now rewrite app_nil_r.
      + eapply Forall_impl; [|exact Hpost']. intros a Ha. simpl in Ha. apply N.ltb_ge. lia.
      + eapply Forall_impl; [|exact Hpre']. intros a Ha. simpl in Ha. now apply N.ltb_lt.
    - eapply Permutation_in; [exact Hp|]. rewrite Heq. apply in_or_app. right. simpl. auto.
    - eapply perm_trans; [|apply Permutation_filter, Hp]. rewrite Heq, filter_app. simpl.
      rewrite N.ltb_irrefl. rewrite (filter_all_false _ pre), (filter_all_true _ post).
      + reflexivity.
      + eapply Forall_impl; [|exact Hpost']. intros a Ha. simpl in Ha. now apply N.ltb_lt.
      + eapply Forall_impl; [|exact Hpre']. intros a Ha. simpl in Ha. apply N.ltb_ge. lia.
  Qed.
End KS.

Arguments merge {A}. Arguments split {A}. Arguments msort_fuel {A}. Arguments msort {A}.
Arguments nth_post {A}. Arguments sorted {A}. Arguments kle {A}. Arguments klt {A}.

(* sorting plain keys *)
Definition sortN (l : list N) : list N := msort (fun x => x) l.

Lemma sortN_perm l : Permutation (sortN l) l.
Proof. apply msort_perm. Qed.

Lemma sortN_sorted l : StronglySorted N.le (sortN l).
Proof. apply (msort_sorted N (fun x => x)). Qed.

Lemma sortN_strict l : NoDup l -> StronglySorted N.lt (sortN l).
Proof.
  intros H. apply (sorted_nodup_strict N (fun x => x)); [apply msort_sorted|].
  rewrite map_id. eapply Permutation_NoDup; [symmetry; apply sortN_perm|auto].
Qed.

(* two strictly increasing lists with the same elements are equal: the sorted form is canonical *)
Lemma strict_sorted_unique (l1 l2 : list N) :
  StronglySorted N.lt l1 -> StronglySorted N.lt l2 -> (forall x, In x l1 <-> In x l2) -> l1 = l2.
Proof.
  revert l2. induction l1 as [|a r IH]; intros l2 H1 H2 Hiff.
  - destruct l2 as [|b s]; auto. exfalso. apply (proj2 (Hiff b)). simpl. auto.
  - destruct l2 as [|b s]; [exfalso; apply (proj1 (Hiff a)); simpl; auto|].
    inversion H1; subst. inversion H2; subst. rewrite Forall_forall in H4, H6.
    assert (a = b).
    { destruct (proj1 (Hiff a)) as [E|Hin]; [simpl; auto|auto|].
      destruct (proj2 (Hiff b)) as [E|Hin']; [simpl; auto|auto|].
      specialize (H4 _ Hin'). specialize (H6 _ Hin). lia. }
    subst b. f_equal. apply IH; auto. intros x. split; intros Hx.
    + destruct (proj1 (Hiff x)) as [E|Hin]; [simpl; auto| |auto]. subst x. specialize (H4 _ Hx). lia.
    + destruct (proj2 (Hiff x)) as [E|Hin]; [simpl; auto| |auto]. subst x. specialize (H6 _ Hx). lia.
Qed.
