(* ThetaSetInter.v — the intersection of the Theta/Tuple set operations (theta_intersection_base, repaired version):
   the tables sized by lg_size_from_count never resize or rebuild, the match loop never trips its guard, the state
   after any sequence of well-formed inputs is the set-algebra intersection (spec_inter), whatever the order of the
   inputs.  No property of nth_element ([sel]) or of the combine policy ([comb]) is used. *)
From Coq Require Import ZArith NArith List Bool Lia Permutation Sorted Arith.
From DS Require Import Word RunnerLib OpenAddr KSmallest Canon ThetaDefs ThetaProofs ThetaRefine ThetaFacts ThetaSetDefs ThetaSetWf.
Import ListNotations.
Local Open Scope N_scope.

Section Inter.
  Variable S : Type.
  Variable sel : nat -> list (N * S) -> list (N * S).
  Variable comb : S -> S -> S.

  Definition inter_fold (x0 : inter_st S) (ins : list (input S)) : option (inter_st S) :=
    fold_left (fun ox i => match ox with Some x => inter_update S sel comb x i | None => None end) ins (Some x0).

  (* theta is a 63-bit threshold: never above MAX_THETA (every sketch built through the API satisfies it; the
     record [wf] does not carry it) *)
  Definition theta_ok (i : input S) : Prop := in_theta i <= max_theta.

  (* ---------------------------------------------------------------------------------------------- *)
  (** * 1. the table sized for n entries *)

  Theorem capacity_sized : forall n, 0 < n -> let lg := lg_size_from_count n in
    capacity lg (lg - 1) = 15 * 2 ^ lg / 16 /\ n <= capacity lg (lg - 1) /\ capacity lg (lg - 1) < 2 ^ lg.
  Proof.
    intros n Hn lg. destruct (lg_size_ok n Hn) as (H1 & H2 & H3). fold lg in H1, H2, H3.
    assert (E : capacity lg (lg - 1) = 15 * 2 ^ lg / 16).
    { unfold capacity. destruct (N.leb_spec lg (lg - 1)) as [H|H]; [lia|reflexivity]. }
    rewrite E. auto.
  Qed.

  (* ---------------------------------------------------------------------------------------------- *)
  (** * 2. copy_loop / put_loop into a table with room: no resize, no rebuild, nothing dropped *)

  Lemma same_cfg_trans (a b c : sketch S) : same_cfg a b -> same_cfg b c -> same_cfg a c.
  Proof.
    unfold same_cfg. intros (A1 & A2 & A3 & A4 & A5 & A6) (B1 & B2 & B3 & B4 & B5 & B6).
    repeat split; congruence.
  Qed.

  Lemma same_cfg_refl (a : sketch S) : same_cfg a a.
  Proof. unfold same_cfg. repeat split; reflexivity. Qed.

  Lemma fill_loop : forall l t,
    SInv t -> lg_nom t < lg_cur t ->
    num t + N.of_nat (length l) <= capacity (lg_cur t) (lg_nom t) ->
    capacity (lg_cur t) (lg_nom t) < 2 ^ lg_cur t ->
    NoDup (keys S t ++ map fst l) ->
    exists t', copy_loop S sel t l = Some t' /\ put_loop S sel t l = Some t' /\
      SInv t' /\ Permutation (entries S t') (entries S t ++ l) /\
      num t' = num t + N.of_nat (length l) /\ same_cfg t t'.
  Proof.
    induction l as [|[h v] r IH]; intros t HS Hlg Hcap Hlt Hnd.
    - exists t. cbn [copy_loop put_loop length]. rewrite app_nil_r.
      split; [reflexivity|]. split; [reflexivity|]. split; [exact HS|]. split; [apply Permutation_refl|].
      split; [change (N.of_nat 0) with 0; lia|apply same_cfg_refl].
    - assert (Hnin : ~ In h (keys S t)).
      { cbn [map fst] in Hnd. apply NoDup_remove_2 in Hnd. intros Hin. apply Hnd. apply in_or_app. auto. }
      cbn [length] in Hcap. rewrite Nat2N.inj_succ in Hcap.
      destruct (tfind_absent S t h HS) as (j & Hj & Hfind & _); [lia|auto|].
      assert (Hlt1 : num t + 1 < 2 ^ lg_cur t) by lia.
      assert (Hle1 : num t + 1 <= capacity (lg_cur t) (lg_nom t)) by lia.
      pose proof (insert_keeps S sel t h v _ HS Hlt1 Hnin Hfind (or_introl (conj Hlg Hle1))) as Hk.
      cbv zeta in Hk. destruct Hk as (HS' & Hperm & Hnum & Hcfg).
      set (t1 := insert S sel t (tprobe (lg_cur t) h j) (h, v)) in *.
      pose proof Hcfg as (E1 & E2 & _).
      destruct (IH t1) as (t' & Hc & Hp & HS'' & Hperm' & Hnum' & Hcfg'); auto.
      + rewrite E1, E2; auto.
      + rewrite E1, E2, Hnum. lia.
      + rewrite E1, E2. auto.
      + eapply Permutation_NoDup; [|exact Hnd]. cbn [map fst].
        eapply perm_trans; [symmetry; apply Permutation_middle|].
        change (Permutation ((h :: keys S t) ++ map fst r) (keys S t1 ++ map fst r)).
        apply Permutation_app_tail. unfold keys. symmetry.
        change (h :: map fst (entries S t)) with (map fst ((h, v) :: entries S t)).
        apply Permutation_map. exact Hperm.
      + exists t'. cbn [copy_loop put_loop fst]. rewrite Hfind. fold t1.
        split; [exact Hc|]. split; [exact Hp|]. split; [exact HS''|].
        split; [|split].
        * eapply perm_trans; [exact Hperm'|].
          eapply perm_trans; [apply Permutation_app_tail, Hperm|].
          cbn [app]. apply Permutation_middle.
        * rewrite Hnum', Hnum. cbn [length]. rewrite Nat2N.inj_succ. lia.
        * eapply same_cfg_trans; eauto.
  Qed.

  Theorem lg_size_never_rebuilds (l : list (N * S)) n th e :
    NoDup (map fst l) -> 0 < n -> N.of_nat (length l) = n ->
    exists t', copy_loop S sel (sized_table S n th e) l = Some t' /\
      put_loop S sel (sized_table S n th e) l = Some t' /\
      SInv t' /\ Permutation (entries S t') l /\ num t' = n /\ lg_cur t' = lg_size_from_count n /\
      theta t' = th /\ is_empty t' = e.
  Proof.
    intros Hnd Hn Hlen. destruct (capacity_sized n Hn) as (Ec & Hle & Hlt). cbv zeta in Ec, Hle, Hlt.
    destruct (lg_size_ok n Hn) as (Hlg & _).
    set (t0 := sized_table S n th e).
    assert (HS0 : SInv t0) by (apply sinv_fresh).
    assert (He0 : entries S t0 = []) by (unfold entries, t0, sized_table; cbn [slots]; apply occupied_repeat_None).
    assert (P1 : lg_nom t0 < lg_cur t0) by (unfold t0, sized_table; cbn [lg_nom lg_cur]; lia).
    assert (P2 : num t0 + N.of_nat (length l) <= capacity (lg_cur t0) (lg_nom t0))
      by (unfold t0, sized_table; cbn [lg_nom lg_cur num]; lia).
    assert (P3 : capacity (lg_cur t0) (lg_nom t0) < 2 ^ lg_cur t0)
      by (unfold t0, sized_table; cbn [lg_nom lg_cur]; exact Hlt).
    assert (P4 : NoDup (keys S t0 ++ map fst l)) by (unfold keys; rewrite He0; exact Hnd).
    destruct (fill_loop l t0 HS0 P1 P2 P3 P4) as (t' & Hc & Hp & HS' & Hperm & Hnum & Hcfg).
    - exists t'. rewrite He0 in Hperm. cbn [app] in Hperm.
      destruct Hcfg as (E1 & _ & _ & _ & E5 & E6).
      split; [exact Hc|]. split; [exact Hp|]. split; [exact HS'|]. split; [exact Hperm|].
      split; [rewrite Hnum; unfold t0, sized_table; cbn [num]; lia|].
      split; [exact E1|]. split; [exact E5|exact E6].
  Qed.

  (* ---------------------------------------------------------------------------------------------- *)
  (** * 3. the match loop: the "max matches exceeded" guard never fires *)

  Lemma acc_bound (t : sketch S) (acc pre : list (N * S)) :
    SInv t -> NoDup (map fst acc) ->
    (forall h, In h (map fst acc) -> In h (map fst pre) /\ In h (keys S t)) ->
    N.of_nat (length acc) <= N.min (num t) (N.of_nat (length pre)).
  Proof.
    intros HS Hnd Hin. destruct HS as [_ Hnum _].
    assert (H1 : (length (map fst acc) <= length (keys S t))%nat).
    { apply NoDup_incl_length; auto. intros h Hh. apply Hin; auto. }
    assert (H2 : (length (map fst acc) <= length (map fst pre))%nat).
    { apply NoDup_incl_length; auto. intros h Hh. apply Hin; auto. }
    unfold keys in H1. rewrite !map_length in *. lia.
  Qed.

  Lemma match_loop_gen th ordered (t : sketch S) maxm : SInv t -> num t < 2 ^ lg_cur t ->
    forall l pre acc,
    NoDup (map fst (pre ++ l)) ->
    NoDup (map fst acc) ->
    (forall h, In h (map fst acc) <-> In h (map fst pre) /\ h < th /\ In h (keys S t)) ->
    (ordered = true -> StronglySorted (klt fst) l) ->
    maxm = N.min (num t) (N.of_nat (length (pre ++ l))) ->
    exists m, match_loop S comb th ordered t maxm l acc = Some m /\ NoDup (map fst m) /\
      (forall h, In h (map fst m) <-> In h (map fst (pre ++ l)) /\ h < th /\ In h (keys S t)) /\
      N.of_nat (length m) <= maxm.
  Proof.
    intros HS Hfree. induction l as [|[h w] r IH]; intros pre acc Hnd Hna Hacc Hord Hmax.
    - exists (rev acc). cbn [match_loop]. rewrite app_nil_r in *. split; [reflexivity|].
      split; [rewrite map_rev; apply NoDup_rev; exact Hna|].
      split.
      + intros k. rewrite map_rev, <- in_rev. apply Hacc.
      + rewrite rev_length, Hmax. apply acc_bound; auto. intros k Hk. apply Hacc in Hk. tauto.
    - assert (Eapp : pre ++ (h, w) :: r = (pre ++ [(h, w)]) ++ r) by (rewrite <- app_assoc; reflexivity).
      assert (Hhpre : ~ In h (map fst pre)).
      { rewrite map_app in Hnd. cbn [map fst] in Hnd. apply NoDup_remove_2 in Hnd.
        intros Hin. apply Hnd. apply in_or_app. auto. }
      assert (Hord' : ordered = true -> StronglySorted (klt fst) r).
      { intros Ho. specialize (Hord Ho). inversion Hord; auto. }
      assert (Hpre1 : forall k, In k (map fst (pre ++ [(h, w)])) <-> In k (map fst pre) \/ k = h).
      { intros k. rewrite map_app, in_app_iff. cbn [map fst In]. intuition. }
      cbn [match_loop]. destruct (N.ltb_spec h th) as [Hlt|Hge].
      + destruct (in_dec N.eq_dec h (keys S t)) as [Hin|Hnin].
        * destruct (tfind_present S t h HS Hin) as (i & v & Hfind & Hnth & _).
          rewrite Hfind, Hnth.
          set (acc' := (h, comb v w) :: acc).
          assert (Hna' : NoDup (map fst acc')).
          { unfold acc'. cbn [map fst]. constructor; auto. intros Hh. apply Hacc in Hh. tauto. }
          assert (Hacc' : forall k, In k (map fst acc') <-> In k (map fst (pre ++ [(h, w)])) /\ k < th /\ In k (keys S t)).
          { intros k. rewrite Hpre1. unfold acc'. cbn [map fst In]. rewrite Hacc. split.
            - intros [<- |(A & B & C)]; auto.
            - intros ([A| ->] & B & C); auto. }
          pose proof (acc_bound t acc' (pre ++ [(h, w)]) HS Hna') as Hb.
          assert (Hb' : N.of_nat (length acc') <= N.min (num t) (N.of_nat (length (pre ++ [(h, w)])))).
          { apply Hb. intros k Hk. apply Hacc' in Hk. tauto. }
          assert (Hg : (N.of_nat (length acc) =? maxm) = false).
          { apply N.eqb_neq. unfold acc' in Hb'. cbn [length] in Hb'. rewrite !app_length in *.
            cbn [length] in *. lia. }
          rewrite Hg. rewrite Eapp in *. apply (IH (pre ++ [(h, w)]) acc'); auto.
        * destruct (tfind_absent S t h HS Hfree Hnin) as (j & _ & Hfind & _). rewrite Hfind.
          rewrite Eapp in *. apply (IH (pre ++ [(h, w)]) acc); auto.
          intros k. rewrite Hpre1, Hacc. split; [tauto|]. intros ([A| ->] & B & C); tauto.
      + destruct ordered eqn:Eo.
        * exists (rev acc). split; [reflexivity|].
          split; [rewrite map_rev; apply NoDup_rev; exact Hna|].
          split.
          -- intros k. rewrite map_rev, <- in_rev, Hacc, map_app, in_app_iff. split; [tauto|].
             intros ([A|A] & B & C); auto. exfalso.
             specialize (Hord eq_refl). inversion Hord as [|a b Hs Hf]; subst.
             cbn [map fst In] in A. destruct A as [<- |A]; [lia|].
             apply in_map_iff in A. destruct A as (x & <- & Hx).
             rewrite Forall_forall in Hf. specialize (Hf x Hx). unfold klt in Hf. cbn [fst] in Hf. lia.
          -- rewrite rev_length, Hmax. etransitivity; [apply (acc_bound t acc pre); auto|].
             ++ intros k Hk. apply Hacc in Hk. tauto.
             ++ rewrite app_length. lia.
        * rewrite Eapp in *. apply (IH (pre ++ [(h, w)]) acc); auto.
          intros k. rewrite Hpre1, Hacc. split; [tauto|]. intros ([A| ->] & B & C); try tauto. lia.
  Qed.

  Theorem match_loop_spec th ordered (t : sketch S) (l : list (N * S)) maxm :
    SInv t -> num t < 2 ^ lg_cur t -> NoDup (map fst l) ->
    (ordered = true -> StronglySorted (klt fst) l) ->
    maxm = N.min (num t) (N.of_nat (length l)) ->
    exists m, match_loop S comb th ordered t maxm l [] = Some m /\ NoDup (map fst m) /\
      (forall h, In h (map fst m) <-> In h (map fst l) /\ h < th /\ In h (keys S t)) /\
      N.of_nat (length m) <= maxm.
  Proof.
    intros HS Hfree Hnd Hord Hmax.
    apply (match_loop_gen th ordered t maxm HS Hfree l [] []); auto.
    - constructor.
    - intros h. cbn. tauto.
  Qed.

  (* ---------------------------------------------------------------------------------------------- *)
  (** * 4. the state after a sequence of well-formed inputs *)

  Lemma existsb_snoc {A} (f : A -> bool) l a : existsb f (l ++ [a]) = existsb f l || f a.
  Proof. rewrite existsb_app. cbn [existsb]. now rewrite orb_false_r. Qed.

  Lemma min_theta_snoc th0 (ins : list (input S)) i :
    min_theta S th0 (ins ++ [i]) =
    if in_empty i then min_theta S th0 ins else N.min (min_theta S th0 ins) (in_theta i).
  Proof. rewrite min_theta_app. reflexivity. Qed.

  Lemma all_snoc (P : input S -> Prop) ins i :
    (forall j, In j (ins ++ [i]) -> P j) <-> (forall j, In j ins -> P j) /\ P i.
  Proof.
    split.
    - intros H. split; [intros j Hj|]; apply H; apply in_or_app; [left|right; left]; auto.
    - intros [H1 H2] j Hj. apply in_app_or in Hj. destruct Hj as [Hj|[<- |[]]]; auto.
  Qed.

  Lemma existsb_false_all (ins : list (input S)) :
    existsb in_empty ins = false -> forall i, In i ins -> in_empty i = false.
  Proof.
    intros H i Hi. destruct (in_empty i) eqn:E; auto.
    rewrite <- H. symmetry. apply existsb_exists. exists i. auto.
  Qed.

  (* a key common to all inputs is below the minimum theta *)
  Lemma common_below (ins : list (input S)) h : ins <> [] -> Forall wf ins -> Forall theta_ok ins ->
    (forall i, In i ins -> In h (in_keys i)) -> h < min_theta S max_theta ins.
  Proof.
    intros Hne Hwf Hth Hall. pose proof (min_theta_spec S max_theta ins) as Hm. cbv zeta in Hm.
    rewrite Forall_forall in Hwf, Hth.
    destruct Hm as (_ & _ & [E|(i & Hi & _ & E)]); rewrite E.
    - destruct ins as [|a r]; [congruence|]. assert (Ha : In a (a :: r)) by (left; auto).
      pose proof (wf_range _ _ (Hwf a Ha) h (Hall a Ha)) as Hr. specialize (Hth a Ha). unfold theta_ok in Hth. lia.
    - pose proof (wf_range _ _ (Hwf i Hi) h (Hall i Hi)) as Hr. lia.
  Qed.

  Lemma entries_empty_table th e : entries S (empty_table S th e) = [].
  Proof. reflexivity. Qed.

  Lemma seed_pass sh (i : input S) : seed_ok sh i -> negb (in_empty i) && negb (in_seed_hash i =? sh) = false.
  Proof.
    intros [E|E]; [rewrite E; reflexivity|]. rewrite E, N.eqb_refl. cbn [negb]. apply andb_false_r.
  Qed.

  Lemma num0_keys (i : input S) : in_num i = 0 -> in_entries i = [].
  Proof. unfold in_num. destruct (in_entries i); [reflexivity|]. cbn [length]. lia. Qed.

  Record IInv (sh : N) (ins : list (input S)) (x : inter_st S) : Prop := {
    iv_valid : i_valid x = true;
    iv_sh : i_sh x = sh;
    iv_empty : is_empty (i_table x) = existsb in_empty ins;
    iv_theta : theta (i_table x) = if existsb in_empty ins then max_theta else min_theta S max_theta ins;
    iv_shape : (slots (i_table x) = [] /\ num (i_table x) = 0 /\ lg_cur (i_table x) = 0) \/
               (SInv (i_table x) /\ num (i_table x) < 2 ^ lg_cur (i_table x));
    iv_nodup : NoDup (keys S (i_table x));
    iv_num : num (i_table x) = N.of_nat (length (entries S (i_table x)));
    iv_nil : existsb in_empty ins = true -> entries S (i_table x) = [];
    iv_keys : existsb in_empty ins = false ->
              forall h, In h (keys S (i_table x)) <-> (forall i, In i ins -> In h (in_keys i))
  }.

  Lemma step_first sh i : wf i -> seed_ok sh i ->
    exists x', inter_update S sel comb (inter_new S sh) i = Some x' /\ IInv sh [i] x'.
  Proof.
    intros Hwf Hseed. unfold inter_update, inter_update_gen, inter_new. cbv zeta.
    cbn [i_table i_valid i_sh empty_table is_empty theta num andb orb negb].
    rewrite (seed_pass sh i Hseed).
    remember (in_empty i) as e eqn:Ee.
    set (th := if e then max_theta else N.min max_theta (in_theta i)).
    assert (Hex : existsb in_empty [i] = e) by (cbn [existsb]; rewrite <- Ee; apply orb_false_r).
    assert (Hth : (if existsb in_empty [i] then max_theta else min_theta S max_theta [i]) = th).
    { rewrite Hex. unfold th. destruct e; auto. unfold min_theta. cbn [fold_left]. rewrite <- Ee. reflexivity. }
    destruct (N.eqb_spec (in_num i) 0) as [E0|E0].
    - eexists. split; [reflexivity|].
      assert (Hk : in_keys i = []) by (unfold in_keys; rewrite (num0_keys i E0); reflexivity).
      constructor; cbn [i_valid i_sh i_table]; rewrite ?entries_empty_table; auto.
      + constructor.
      + intros _ h. split; [intros []|]. intros H. exfalso.
        assert (Hi : In h (in_keys i)) by (apply H; left; auto). rewrite Hk in Hi. exact Hi.
    - assert (Hpos : 0 < in_num i) by lia.
      destruct (lg_size_never_rebuilds (in_entries i) (in_num i) th e (wf_nodup _ _ Hwf) Hpos eq_refl)
        as (t' & Hc & _ & HS' & Hperm & Hnum & Hlg & Hth' & He').
      rewrite Hc, Hnum, N.eqb_refl. eexists. split; [reflexivity|].
      constructor; cbn [i_valid i_sh i_table]; auto.
      + congruence.
      + congruence.
      + right. split; auto. rewrite Hnum, Hlg. destruct (capacity_sized _ Hpos) as (_ & A & B). cbv zeta in A, B. lia.
      + apply HS'.
      + apply HS'.
      + rewrite Hex. intros ->. destruct (wf_empty _ _ Hwf (eq_sym Ee)) as [Hnil _].
        exfalso. apply E0. unfold in_num. rewrite Hnil. reflexivity.
      + intros _ h. unfold keys. rewrite (perm_in_iff h (Permutation_map fst Hperm)). fold (in_keys i). split.
        * intros H j [<- |[]]. exact H.
        * intros H. apply H. left; auto.
  Qed.

  Lemma step_next sh ins x i : ins <> [] -> IInv sh ins x -> Forall wf ins -> Forall theta_ok ins ->
    wf i -> seed_ok sh i ->
    exists x', inter_update S sel comb x i = Some x' /\ IInv sh (ins ++ [i]) x'.
  Proof.
    intros Hne HI Hwfs Htos Hwf Hseed. destruct HI as [Hv Hsh Hem Hth Hshape Hnd Hnum Hnil Hkeys].
    destruct x as [v t sh']. cbn [i_valid i_sh i_table] in *. subst v sh'.
    unfold inter_update, inter_update_gen. cbv zeta. cbn [i_table i_valid i_sh andb negb].
    pose proof (existsb_snoc in_empty ins i) as Hex.
    pose proof (min_theta_snoc max_theta ins i) as Hmt.
    symmetry in Hem. destruct (is_empty t) eqn:Et.
    - (* a previous input was empty: nothing changes *)
      assert (Hex' : existsb in_empty (ins ++ [i]) = true) by (rewrite Hex, Hem; reflexivity).
      eexists. split; [reflexivity|].
      constructor; cbn [i_valid i_sh i_table]; rewrite ?Hex'; auto.
      + rewrite Hth, Hem. reflexivity.
      + discriminate.
    - rewrite (seed_pass sh i Hseed). cbn [orb].
      assert (Hth' : theta t = min_theta S max_theta ins) by (rewrite Hth, Hem; reflexivity).
      specialize (Hkeys Hem). clear Hnil.
      remember (in_empty i) as e eqn:Ee.
      set (th := if e then max_theta else N.min (theta t) (in_theta i)).
      assert (Hex' : existsb in_empty (ins ++ [i]) = e) by (rewrite Hex, Hem; reflexivity).
      assert (Hth2 : (if existsb in_empty (ins ++ [i]) then max_theta else min_theta S max_theta (ins ++ [i])) = th).
      { rewrite Hex', Hmt. unfold th. destruct e; [reflexivity|]. rewrite Hth'. reflexivity. }
      assert (Hempty_in : e = true -> in_num i = 0).
      { intros ->. destruct (wf_empty _ _ Hwf (eq_sym Ee)) as [Hn _]. unfold in_num. rewrite Hn. reflexivity. }
      destruct (N.eqb_spec (num t) 0) as [En|En].
      + (* the state has no entries: only the flags move *)
        eexists. split; [reflexivity|].
        assert (Hent : entries S t = []).
        { rewrite En in Hnum. destruct (entries S t); [reflexivity|]. cbn [length] in Hnum. lia. }
        assert (Hent1 : entries S (with_theta_empty S t th e) = entries S t) by reflexivity.
        assert (Hkey1 : keys S (with_theta_empty S t th e) = keys S t) by reflexivity.
        constructor; cbn [i_valid i_sh i_table]; rewrite ?Hent1, ?Hkey1; auto.
        * destruct Hshape as [(A & B & C)|(A & B)]; [left|right]; cbn [with_theta_empty slots num lg_cur]; auto.
          split; auto. apply sinv_flags; auto.
        * intros _ h. unfold keys. rewrite Hent. split; [intros []|]. intros H.
          assert (Hk : In h (keys S t)) by (apply Hkeys; intros j Hj; apply H, in_or_app; auto).
          unfold keys in Hk. rewrite Hent in Hk. exact Hk.
      + destruct (N.eqb_spec (in_num i) 0) as [E0|E0].
        * (* the input has no entries: the table is dropped *)
          eexists. split; [reflexivity|].
          constructor; cbn [i_valid i_sh i_table]; rewrite ?entries_empty_table; auto.
          -- constructor.
          -- intros _ h. split; [intros []|]. intros H.
             assert (Hk : In h (in_keys i)) by (apply H, in_or_app; right; left; auto).
             unfold in_keys in Hk. rewrite (num0_keys i E0) in Hk. exact Hk.
        * (* match the incoming entries against the table *)
          destruct e; [exfalso; apply E0; auto|]. clear Hempty_in.
          destruct Hshape as [(_ & B & _)|(HS & Hfree)]; [congruence|].
          set (t1 := with_theta_empty S t th false).
          assert (HS1 : SInv t1) by (apply sinv_flags; exact HS).
          assert (Hfree1 : num t1 < 2 ^ lg_cur t1) by exact Hfree.
          assert (Hmax : N.min (num t) (in_num i) = N.min (num t1) (N.of_nat (length (in_entries i)))) by reflexivity.
          destruct (match_loop_spec th (in_ordered i) t1 (in_entries i) _ HS1 Hfree1 (wf_nodup _ _ Hwf)
                      (wf_sorted _ _ Hwf) Hmax) as (m & Hm & Hndm & Hmiff & Hmlen).
          rewrite Hm. change (keys S t1) with (keys S t) in Hmiff. fold (in_keys i) in Hmiff.
          assert (Hcommon : forall h, (forall j, In j (ins ++ [i]) -> In h (in_keys j)) <->
                                      In h (in_keys i) /\ h < th /\ In h (keys S t)).
          { intros h. rewrite all_snoc, <- Hkeys. split; [|tauto]. intros [A B]. split; auto. split; auto.
            unfold th. rewrite Hth'.
            pose proof (common_below ins h Hne Hwfs Htos (proj1 (Hkeys h) A)) as H1.
            pose proof (wf_range _ _ Hwf h B) as H2. lia. }
          destruct m as [|p m'].
          -- cbn [andb orb]. eexists. split; [reflexivity|].
             constructor; cbn [i_valid i_sh i_table]; rewrite ?entries_empty_table; auto.
             intros _ h. rewrite Hcommon, <- Hmiff. reflexivity.
          -- set (m := p :: m') in *.
             assert (Hpos : 0 < N.of_nat (length m)) by (unfold m; cbn [length]; lia).
             destruct (lg_size_never_rebuilds m _ th false Hndm Hpos eq_refl)
               as (t' & _ & Hp & HS' & Hperm & Hnum' & Hlg & Hth3 & He').
             rewrite Hp. eexists. split; [reflexivity|].
             constructor; cbn [i_valid i_sh i_table]; auto.
             ++ congruence.
             ++ congruence.
             ++ right. split; auto. rewrite Hnum', Hlg.
                destruct (capacity_sized _ Hpos) as (_ & A & B). cbv zeta in A, B. lia.
             ++ apply HS'.
             ++ apply HS'.
             ++ rewrite Hex'. discriminate.
             ++ intros _ h. unfold keys. rewrite (perm_in_iff h (Permutation_map fst Hperm)).
                rewrite Hcommon, <- Hmiff. reflexivity.
  Qed.

  Definition IState (sh : N) (ins : list (input S)) (x : inter_st S) : Prop :=
    (ins = [] -> x = inter_new S sh) /\ (ins <> [] -> IInv sh ins x).

  (* update(sketch) never throws on a well-formed input with the right seed, and keeps the invariant *)
  Theorem inter_update_preserves sh ins x i :
    IState sh ins x -> Forall wf ins -> Forall theta_ok ins -> wf i -> seed_ok sh i ->
    exists x', inter_update S sel comb x i = Some x' /\ IState sh (ins ++ [i]) x'.
  Proof.
    intros [Hnil Hcons] Hwfs Htos Hwf Hseed.
    assert (D : ins = [] \/ ins <> []) by (destruct ins; [left|right]; congruence).
    assert (Hne' : ins ++ [i] <> []) by (intros E; apply app_eq_nil in E; destruct E; discriminate).
    destruct D as [E|Hne].
    - rewrite (Hnil E). subst ins. destruct (step_first sh i Hwf Hseed) as (x' & Hu & HI).
      exists x'. split; auto. split; [intros; congruence|auto].
    - destruct (step_next sh ins x i Hne (Hcons Hne) Hwfs Htos Hwf Hseed) as (x' & Hu & HI).
      exists x'. split; auto. split; [intros; congruence|auto].
  Qed.

  Lemma inter_fold_snoc x0 ins i :
    inter_fold x0 (ins ++ [i]) =
    match inter_fold x0 ins with Some x => inter_update S sel comb x i | None => None end.
  Proof. unfold inter_fold. rewrite fold_left_app. reflexivity. Qed.

  Lemma inter_fold_state sh ins : Forall wf ins -> Forall theta_ok ins -> Forall (seed_ok sh) ins ->
    exists x, inter_fold (inter_new S sh) ins = Some x /\ IState sh ins x.
  Proof.
    induction ins as [|i ins IH] using rev_ind; intros Hwf Hto Hseed.
    - exists (inter_new S sh). split; [reflexivity|]. split; [auto|congruence].
    - apply Forall_app in Hwf, Hto, Hseed. destruct Hwf as [Hwf Hwi], Hto as [Hto Hti], Hseed as [Hseed Hsi].
      inversion Hwi; subst. inversion Hsi; subst.
      destruct (IH Hwf Hto Hseed) as (x & Hf & HI).
      destruct (inter_update_preserves sh ins x i HI Hwf Hto) as (x' & Hu & HI'); auto.
      exists x'. rewrite inter_fold_snoc, Hf. auto.
  Qed.

  (* the invariant, spelled out *)
  Theorem inter_state_inv sh ins : Forall wf ins -> Forall theta_ok ins -> Forall (seed_ok sh) ins ->
    exists x, inter_fold (inter_new S sh) ins = Some x /\
      (ins = [] -> x = inter_new S sh) /\
      (ins <> [] ->
         let t := i_table x in
         i_valid x = true /\ i_sh x = sh /\
         is_empty t = existsb in_empty ins /\
         theta t = (if existsb in_empty ins then max_theta else min_theta S max_theta ins) /\
         ((slots t = [] /\ num t = 0 /\ lg_cur t = 0) \/ (SInv t /\ num t < 2 ^ lg_cur t)) /\
         NoDup (keys S t) /\ num t = N.of_nat (length (entries S t)) /\
         (existsb in_empty ins = true -> entries S t = []) /\
         (existsb in_empty ins = false ->
            forall h, In h (keys S t) <-> (forall i, In i ins -> In h (in_keys i)))).
  Proof.
    intros Hwf Hto Hseed. destruct (inter_fold_state sh ins Hwf Hto Hseed) as (x & Hf & Hnil & Hcons).
    exists x. split; auto. split; auto. intros Hne. destruct (Hcons Hne). cbv zeta. repeat split; auto.
    - apply iv_keys0; auto.
    - apply iv_keys0; auto.
  Qed.

  (* ---------------------------------------------------------------------------------------------- *)
  (** * 5. the result is the set-algebra intersection *)

  Definition common_keys (ins : list (input S)) : list N :=
    match ins with
    | [] => []
    | a :: r => filter (fun h => forallb (fun i => mem h (in_keys i)) r) (in_keys a)
    end.

  Lemma in_common_keys ins h : ins <> [] ->
    (In h (common_keys ins) <-> forall i, In i ins -> In h (in_keys i)).
  Proof.
    destruct ins as [|a r]; [congruence|]. intros _. cbn [common_keys]. rewrite filter_In, forallb_forall. split.
    - intros [Ha Hr] i [<- |Hi]; auto. apply mem_In. apply Hr; auto.
    - intros H. split; [apply H; left; auto|]. intros i Hi. apply mem_In. apply H. right; auto.
  Qed.

  Lemma spec_inter_eq ins : spec_inter S ins =
    if existsb in_empty ins then (max_theta, true, [])
    else let th := min_theta S max_theta ins in
         let ks := keys_below th (common_keys ins) in
         (th, (length ks =? 0)%nat && (th =? max_theta), ks).
  Proof. destruct ins; reflexivity. Qed.

  Lemma of_nat_eqb0 n : (N.of_nat n =? 0) = (n =? 0)%nat.
  Proof. destruct n; reflexivity. Qed.

  Theorem inter_spec : forall sh ins, ins <> [] -> Forall wf ins -> Forall theta_ok ins -> Forall (seed_ok sh) ins ->
    exists x, inter_fold (inter_new S sh) ins = Some x /\ inter_has_result S x = true /\
    forall ordered, exists res, inter_result S x ordered = Some res /\
      (in_theta res, in_empty res, sortN (in_keys res)) = spec_inter S ins /\
      NoDup (in_keys res) /\ in_seed_hash res = sh /\
      (ordered = true -> in_ordered res = true /\ StronglySorted (klt fst) (in_entries res)).
  Proof.
    intros sh ins Hne Hwf Hto Hseed. destruct (inter_fold_state sh ins Hwf Hto Hseed) as (x & Hf & _ & HI).
    specialize (HI Hne). destruct HI as [Hv Hsh Hem Hth Hshape Hnd Hnum Hnil Hkeys].
    exists x. split; auto. split; [exact Hv|].
    intros ordered. unfold inter_result, inter_result_gen. rewrite Hv. cbn [negb]. cbv zeta.
    eexists. split; [reflexivity|].
    set (t := i_table x) in *.
    assert (Hents : (if 0 <? num t then entries S t else []) = entries S t).
    { destruct (N.ltb_spec 0 (num t)) as [H|H]; auto. assert (H0 : num t = 0) by lia. rewrite H0 in Hnum.
      destruct (entries S t); auto. cbn [length] in Hnum. lia. }
    rewrite Hents.
    set (ents := if ordered then msort fst (entries S t) else entries S t).
    assert (Hpe : Permutation ents (entries S t)) by (unfold ents; destruct ordered; [apply msort_perm|reflexivity]).
    assert (Hpk : Permutation (map fst ents) (keys S t)) by (apply Permutation_map; auto).
    assert (Hndk : NoDup (map fst ents)) by (eapply Permutation_NoDup; [symmetry; exact Hpk|exact Hnd]).
    unfold mk_result. cbn [in_theta in_empty in_keys in_entries in_seed_hash in_ordered].
    split; [|split; [exact Hndk|split; [exact Hsh|]]].
    - rewrite spec_inter_eq. destruct (existsb in_empty ins) eqn:Eex.
      + rewrite Hth, Hem. cbn [orb].
        assert (E : ents = []) by (apply Permutation_nil; rewrite <- (Hnil eq_refl); symmetry; exact Hpe).
        rewrite E. reflexivity.
      + cbv zeta. set (th := min_theta S max_theta ins) in *.
        assert (Hks : sortN (map fst ents) = keys_below th (common_keys ins)).
        { apply sortN_keys_unique; auto. intros h. rewrite (perm_in_iff h Hpk), (Hkeys eq_refl h), (in_common_keys ins h Hne).
          split; [|tauto]. intros H. split; auto. apply common_below; auto. }
        rewrite <- Hks, Hth, Hem. cbn [orb negb andb].
        assert (El : (num t =? 0) = (length (sortN (map fst ents)) =? 0)%nat).
        { rewrite Hnum, of_nat_eqb0. rewrite (Permutation_length (sortN_perm _)), map_length, (Permutation_length Hpe).
          reflexivity. }
        rewrite El. reflexivity.
    - intros ->. split; [reflexivity|]. unfold ents. apply msort_strict. exact Hnd.
  Qed.

  (* ---------------------------------------------------------------------------------------------- *)
  (** * 6. no result before the first update *)

  Theorem inter_no_result sh ordered :
    inter_result S (inter_new S sh) ordered = None /\ inter_has_result S (inter_new S sh) = false.
  Proof. split; reflexivity. Qed.

  (* ---------------------------------------------------------------------------------------------- *)
  (** * 7. the order of the inputs does not matter *)

  Lemma existsb_perm {A} (f : A -> bool) l l' : Permutation l l' -> existsb f l = existsb f l'.
  Proof.
    induction 1; cbn [existsb]; auto.
    - now rewrite IHPermutation.
    - destruct (f x), (f y); reflexivity.
    - congruence.
  Qed.

  (* the keys of spec_inter, without the head-of-list asymmetry *)
  Lemma spec_inter_keys ins : ins <> [] -> existsb in_empty ins = false ->
    let ks := snd (spec_inter S ins) in
    StronglySorted N.lt ks /\
    forall h, In h ks <-> (forall i, In i ins -> In h (in_keys i)) /\ h < min_theta S max_theta ins.
  Proof.
    intros Hne Hex. rewrite spec_inter_eq, Hex. cbv zeta. cbn [snd]. split; [apply keys_below_strict|].
    intros h. rewrite in_keys_below, (in_common_keys ins h Hne). reflexivity.
  Qed.

  Theorem spec_inter_perm : forall ins ins', Permutation ins ins' -> Forall wf ins ->
    spec_inter S ins = spec_inter S ins'.
  Proof.
    intros ins ins' Hp _. rewrite !spec_inter_eq. rewrite (existsb_perm in_empty ins ins' Hp).
    destruct (existsb in_empty ins'); [reflexivity|]. cbv zeta.
    rewrite (min_theta_perm S max_theta ins ins' Hp).
    assert (D : ins = [] \/ ins <> []) by (destruct ins; [left|right]; congruence).
    destruct D as [E|Hne].
    - subst ins. apply Permutation_nil in Hp. subst ins'. reflexivity.
    - assert (Hne' : ins' <> []) by (intros E; subst ins'; apply Hne, Permutation_nil; symmetry; exact Hp).
      rewrite (keys_below_ext (min_theta S max_theta ins') (common_keys ins) (common_keys ins')); [reflexivity|].
      intros h _. rewrite (in_common_keys ins h Hne), (in_common_keys ins' h Hne'). split; intros H i Hi; apply H.
      + eapply Permutation_in; [symmetry; exact Hp|exact Hi].
      + eapply Permutation_in; [exact Hp|exact Hi].
  Qed.

  Theorem inter_perm : forall sh ins ins', ins <> [] -> Permutation ins ins' ->
    Forall wf ins -> Forall theta_ok ins -> Forall (seed_ok sh) ins ->
    exists x x', inter_fold (inter_new S sh) ins = Some x /\ inter_fold (inter_new S sh) ins' = Some x' /\
      forall o o', exists r r', inter_result S x o = Some r /\ inter_result S x' o' = Some r' /\
        (in_theta r, in_empty r, sortN (in_keys r)) = (in_theta r', in_empty r', sortN (in_keys r')).
  Proof.
    intros sh ins ins' Hne Hp Hwf Hto Hseed.
    assert (Hne' : ins' <> []) by (intros E; subst ins'; apply Hne, Permutation_nil; symmetry; exact Hp).
    pose proof (Permutation_Forall Hp Hwf) as Hwf'. pose proof (Permutation_Forall Hp Hto) as Hto'.
    pose proof (Permutation_Forall Hp Hseed) as Hseed'.
    destruct (inter_spec sh ins Hne Hwf Hto Hseed) as (x & Hf & _ & Hr).
    destruct (inter_spec sh ins' Hne' Hwf' Hto' Hseed') as (x' & Hf' & _ & Hr').
    exists x, x'. split; auto. split; auto. intros o o'.
    destruct (Hr o) as (r & Hr1 & Hr2 & _). destruct (Hr' o') as (r' & Hr1' & Hr2' & _).
    exists r, r'. split; auto. split; auto. rewrite Hr2, Hr2'. apply spec_inter_perm; auto.
  Qed.

  (* ---------------------------------------------------------------------------------------------- *)
  (** * 8. a non-empty input with another seed hash is refused *)

  Theorem inter_seed_refused : forall x i, is_empty (i_table x) = false -> in_empty i = false ->
    in_seed_hash i <> i_sh x -> inter_update S sel comb x i = None.
  Proof.
    intros x i He Hi Hs. unfold inter_update, inter_update_gen. cbv zeta. rewrite He, Hi.
    apply N.eqb_neq in Hs. rewrite Hs. reflexivity.
  Qed.

End Inter.

(* [theta_ok] cannot be dropped from inter_spec: [wf] alone allows a theta (and then keys) above MAX_THETA; the
   first update copies such a key, while the specification (and every later update) screens it with theta *)
Example theta_ok_needed :
  let i := mk_input unit (max_theta + 10) false true 0 [(max_theta + 1, tt)] in
  wf i /\ seed_ok 0 i /\
  exists x r, inter_fold unit sel_sort comb_unit (inter_new unit 0) [i] = Some x /\
    inter_result unit x false = Some r /\
    (in_theta r, in_empty r, sortN (in_keys r)) <> spec_inter unit [i].
Proof.
  cbv zeta. split; [|split].
  - constructor; cbn [in_keys in_entries in_theta in_empty in_ordered map fst].
    + repeat constructor. intros [].
    + intros h [<- |[]]. vm_compute. split; reflexivity.
    + intros _. repeat constructor.
    + discriminate.
  - right. reflexivity.
  - eexists. eexists. split; [vm_compute; reflexivity|]. split; [vm_compute; reflexivity|].
    vm_compute. discriminate.
Qed.
