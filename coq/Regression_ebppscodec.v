(* Regression_ebppscodec.v — the EBPPS readers BEFORE fixes/11_ebpps_c_range.patch + 11_ebpps_stream_state.patch + 11_ebpps_zero_c_image.patch, kept as theorems.
   1. deserialize(istream) used the fields of the first preamble long without testing the stream state: on a stream that
      ends inside them read<T>() returns an object whose missing bytes were never written (whatever the stack held), and
      for an image with the EMPTY flag the reader returned ebpps_sketch(k) without ever testing the stream.  Modelled with
      an explicit value [g] for what the unwritten bytes hold: there are values for which a 4-byte prefix of an empty
      image is ACCEPTED, which the repaired reader (EbppsCodecDefs.dec_stream) rejects whatever follows.
   2. both sample readers converted C to a 32-bit count after checking only C < 0.0: NaN and values of 2^32 and above
      passed (the conversion is undefined behaviour for them). *)
From Coq Require Import NArith List Bool Lia Arith.
From DS Require Import Word ThetaCodecDefs EbppsCodecDefs EbppsCodecProofs.
Import ListNotations.
Local Open Scope N_scope.

(* read<T>(is) on a short stream: the bytes that are there, then the stale content [g] of the object *)
Definition rd_stale (g : N) (n off : nat) (bytes : list N) : N :=
  match rd n off bytes with Some v => v | None => g end.

(* the first preamble long and the EMPTY path of the old stream reader *)
Definition old_stream_head (g : N) (bytes : list N) : option esk :=
  let pre := rd_stale g 1 0 bytes in let ver := rd_stale g 1 1 bytes in let fam := rd_stale g 1 2 bytes in
  let fl := rd_stale g 1 3 bytes in let k := rd_stale g 4 4 bytes in
  if negb (header_ok pre ver fam fl k) then None else
  if N.testbit fl 2 then Some (empty_sk k) else None.

Theorem old_stream_reader_accepts_prefix_refuted :
  exists g k, (4 < length (enc (empty_sk k)))%nat /\
    old_stream_head g (firstn 4 (enc (empty_sk k))) = Some (empty_sk g) /\
    dec_stream (firstn 4 (enc (empty_sk k))) = None.
Proof. exists 7, 9. vm_compute. repeat split. lia. Qed.

(* the old test on C *)
Definition old_c_accepted (c : N) : bool := negb (c_negative c).

Theorem old_c_check_refuted :
  exists c_nan c_big, old_c_accepted c_nan = true /\ c_below_2_32 c_nan = false /\
                      old_c_accepted c_big = true /\ c_below_2_32 c_big = false.
Proof. exists 9221120237041090560, 4751297606875873280. vm_compute. repeat split. Qed.

(* 3. before fixes/11_ebpps_zero_c_image.patch a non-empty image whose C is 0.0 passed every check (C is not negative, is
      below 2^32, announces no item and no partial item) and gave a sketch with n > 0 and C = 0 that cannot be serialized
      again; the repaired readers reject it.  The image: k = 5, two items of weight 2.0, byte 47 (top byte of C = 2.0) := 0. *)
Definition zero_c_image : list N :=
  set_nth 47 0 (enc {| e_k := 5; e_n := 2; e_cw := 4616189618054758400; e_wmax := 4611686018427387904;
                        e_rho := 4602678819172646912; e_c := 4611686018427387904; e_data := [1; 2]; e_part := None |}).
Theorem zero_c_image_accepted_refuted :
  rd 8 40 zero_c_image = Some 0 /\ c_negative 0 = false /\ c_below_2_32 0 = true /\ c_has_frac 0 = false /\ c_floor 0 = 0 /\
  c_is_zero 0 = true /\ dec_bytes zero_c_image = None /\ dec_stream zero_c_image = None.
Proof. vm_compute. repeat split. Qed.

Print Assumptions zero_c_image_accepted_refuted.
Print Assumptions old_stream_reader_accepts_prefix_refuted.
Print Assumptions old_c_check_refuted.
