(* Regression_ebppscodec.v — being filled in *)
From Coq Require Import NArith List.
From DS Require Import EbppsCodecDefs.
