(* LedgerHll.v — block-level ledger model of the hll_sketch impl objects (hll/include: CouponList -> CouponHashSet -> Hll{4,6,8}Array
   (+ AuxHashMap)), also used for the gadget of hll_union.  A sketch owns: the impl object, its coupon array or register array,
   and for HLL_4 possibly an AuxHashMap object with its array.  The SHAPE of the impl (mode, lg_k, target type, ints of the
   coupon array, ints of the aux array) after an operation depends on the coupon values: it is an INPUT (read from the
   implementation; HllDefs.v models how it follows from the coupons), as are the sizeof() values of the six impl classes.  What
   the model fixes is the discipline: whenever the shape changes (promotion, growth of the set or of the aux map, copy-as
   conversion, replacement of the union gadget incl. the down-sampling branch), every block of the new shape is allocated and every
   block of the old shape is released exactly once, with its own size.  Sizes are bytes.  Definitions only. *)
From Coq Require Import ZArith NArith List Bool Lia.
From DS Require Import LedgerCore.
Import ListNotations.
Local Open Scope N_scope.

Record hsk := {
  h_union : bool;                 (* hll_union (its gadget) rather than a plain hll_sketch *)
  h_tab : list N;                 (* sizeof CouponList, CouponHashSet, Hll4Array, Hll6Array, Hll8Array, AuxHashMap *)
  h_shape : list N;               (* mode (0 list, 1 set, 2 HLL), lg_k, type (0: HLL_4, 1: HLL_6, 2: HLL_8), coupon ints, aux ints *)
  h_blocks : list (N * N);        (* live blocks (id, bytes), newest first *)
  h_nxt : N
}.

Definition tabn (tab : list N) (i : nat) : N := nth i tab 0.

(* byte sizes of the blocks a shape owns *)
Definition shape_sizes (tab sh : list N) : list N :=
  match sh with
  | mode :: lgk :: ty :: cints :: aints :: _ =>
      if mode =? 0 then [tabn tab 0; 4 * cints]
      else if mode =? 1 then [tabn tab 1; 4 * cints]
      else if mode =? 2 then
        let arr := if ty =? 0 then 2 ^ (lgk - 1) else if ty =? 1 then (3 * 2 ^ lgk) / 4 + 1 else 2 ^ lgk in
        [tabn tab (2 + N.to_nat (N.min ty 2)); arr] ++ (if aints =? 0 then [] else [tabn tab 5; 4 * aints])
      else []                                   (* moved-from: no impl *)
  | _ => []
  end.

Fixpoint number (n0 : N) (sizes : list N) : list (N * N) :=
  match sizes with [] => [] | s :: t => (n0, s) :: number (n0 + 1) t end.

Definition allocs (bs : list (N * N)) : list eff := map (fun p => Alloc true (fst p) (snd p)) bs.
Definition deallocs (bs : list (N * N)) : list eff := map (fun p => Dealloc (fst p) (snd p)) bs.

Fixpoint shape_eqb (a b : list N) : bool :=
  match a, b with
  | [], [] => true
  | x :: a', y :: b' => (x =? y) && shape_eqb a' b'
  | _, _ => false
  end.

(* build the blocks of shape [sh] as a fresh object *)
Definition hll_build (union : bool) (tab sh : list N) : hsk * list eff :=
  let bs := number 0 (shape_sizes tab sh) in
  ({| h_union := union; h_tab := tab; h_shape := sh; h_blocks := rev bs; h_nxt := N.of_nat (length bs) |}, allocs bs).

(* the impl changed shape: the new blocks are allocated, then the old ones released *)
Definition hll_reshape (s : hsk) (sh : list N) : hsk * list eff :=
  if shape_eqb (h_shape s) sh then (s, [])
  else
    let bs := number (h_nxt s) (shape_sizes (h_tab s) sh) in
    ({| h_union := h_union s; h_tab := h_tab s; h_shape := sh; h_blocks := rev bs; h_nxt := h_nxt s + N.of_nat (length bs) |},
     allocs bs ++ deallocs (h_blocks s)).

Definition hll_copy (o : hsk) : hsk * list eff := hll_build (h_union o) (h_tab o) (h_shape o).
Definition hll_destroy (s : hsk) : list eff := deallocs (h_blocks s).
Definition hll_moved_from (s : hsk) : hsk :=
  {| h_union := h_union s; h_tab := h_tab s; h_shape := [9; 0; 0; 0; 0]; h_blocks := []; h_nxt := h_nxt s |}.
Definition hll_bytes (s : hsk) : N := fold_right (fun p a => snd p + a) 0 (h_blocks s).
