From Coq Require Import ZArith NArith List Bool Lia.
From DS Require Import Word XXHash64 RunnerLib BloomDefs BloomProofs.
Import ListNotations.
Local Open Scope N_scope.

Theorem C15_update_readonly_refused : forall fx f bits idx, f_ro f = true -> core_update fx f bits idx = None.
Proof. exact core_update_ro. Qed.
Print Assumptions C15_update_readonly_refused.
